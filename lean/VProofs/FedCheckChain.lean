/-
  VProofs.FedCheckChain — VerifyEventAuthChain against a provider that answers from a table of events keyed by
  their own IDs (`TableLike`: single-ID requests are answered exactly, a batch answer may LEAVE OUT events —
  a provider that hands out at most k events per call, say): the depth-first stack loop verifies exactly the
  events reachable from the root through resolvable auth event IDs, whichever request (the batch request of
  VerifyEventAuthChain or the single-ID retry inside checkAllowedByAuthEvents) obtained them.
-/
import VProofs.FedCheck
import VProofs.FedCheckLog
namespace V.FedCheck
open V V.FedCheck.Spec

/-! ### the calls checkAllowedByAuthEvents makes -/

def Step.log {P} : Step P → Log
  | .next _ _ l => l
  | .fail _ l => l
  | .outOfFuel _ l => l

theorem Step.log_pre {P} (l : Log) (s : Step P) : (s.pre l).log = l ++ s.log := by
  cases s <;> rfl

/-- the shape of one step of the loop under the contract -/
theorem stepC_shape {P} (O : Oracles P) (p : EventProvider) (ae : Bytes) (m : IdMap) (acc : P) (log : Log) :
    (m.lookup ae = none → ∃ acc1, stepC O (some p) ae m acc log =
        .next ((ae, provided (some p) ae) :: m) acc1 (log ++ [Call.events [ae]])) ∧
    (∀ v, m.lookup ae = some v → (∃ acc1, stepC O (some p) ae m acc log = .next m acc1 log) ∨
        stepC O (some p) ae m acc log = .fail m log) := by
  unfold stepC
  refine ⟨fun h => ?_, fun v h => ?_⟩
  · simp only [h]
    exact ⟨_, rfl⟩
  · simp only [h]
    cases v with
    | none => exact Or.inl ⟨_, rfl⟩
    | some a =>
      simp only
      by_cases hs : a.stateKey.isSome = true
      · left; exact ⟨O.add acc a, by simp [hs]⟩
      · right; simp [hs]

/-- Under the contract (every retry loop behaves as `stepC`) the loop over the auth event IDs asks the provider
    exactly for the IDs that are absent from the map at entry: every call is such a single-ID request, and
    when the loop runs to its end every such ID was asked for. -/
theorem loopAE_calls {P} (O : Oracles P) (p : EventProvider) (fuel : Nat)
    (hstep : ∀ ae m acc log, retryAE O (some p) ae fuel m acc log = stepC O (some p) ae m acc log)
    (ids : List Bytes) (m : IdMap) (acc : P) :
    (∀ c ∈ (loopAE O (some p) fuel ids m acc []).log, ∃ id ∈ ids, c = Call.events [id] ∧ m.lookup id = none) ∧
    (∀ m' acc' calls, loopAE O (some p) fuel ids m acc [] = .next m' acc' calls →
      ∀ id ∈ ids, m.lookup id = none → Call.events [id] ∈ calls) := by
  induction ids generalizing m acc with
  | nil =>
    refine ⟨fun c hc => ?_, fun m' acc' calls _ id hid => ?_⟩
    · simp [loopAE, Step.log] at hc
    · cases hid
  | cons ae rest ih =>
    unfold loopAE
    rw [hstep]
    obtain ⟨hnone, hsome⟩ := stepC_shape O p ae m acc []
    cases hl : m.lookup ae with
    | some v =>
      rcases hsome v hl with ⟨acc1, hs⟩ | hs
      · rw [hs]
        simp only
        obtain ⟨ih1, ih2⟩ := ih m acc1
        refine ⟨fun c hc => ?_, fun m' acc' calls h id hid hnone' => ?_⟩
        · obtain ⟨id, hid, h1, h2⟩ := ih1 c hc
          exact ⟨id, List.mem_cons_of_mem _ hid, h1, h2⟩
        · rcases List.mem_cons.mp hid with h' | h'
          · subst h'; rw [hl] at hnone'; cases hnone'
          · exact ih2 m' acc' calls h id h' hnone'
      · rw [hs]
        refine ⟨fun c hc => ?_, fun m' acc' calls h => ?_⟩
        · simp [Step.log] at hc
        · cases h
    | none =>
      obtain ⟨acc1, hs⟩ := hnone hl
      rw [hs]
      simp only
      -- one call for `ae`, then the rest of the loop on the extended map
      rw [loopAE_log O (some p) fuel rest ((ae, provided (some p) ae) :: m) acc1 ([] ++ [Call.events [ae]])]
      obtain ⟨ih1, ih2⟩ := ih ((ae, provided (some p) ae) :: m) acc1
      have back : ∀ id, ((ae, provided (some p) ae) :: m).lookup id = none → m.lookup id = none := by
        intro id h
        by_cases hid : id = ae
        · subst hid; rw [lookup_cons_self] at h; cases h
        · rw [lookup_cons_ne _ _ hid] at h; exact h
      refine ⟨fun c hc => ?_, fun m' acc' calls h id hid hnone' => ?_⟩
      · rw [Step.log_pre] at hc
        rcases List.mem_append.mp hc with h | h
        · have : c = Call.events [ae] := by simpa using h
          exact ⟨ae, List.mem_cons_self, this, hl⟩
        · obtain ⟨id, hid, h1, h2⟩ := ih1 c h
          exact ⟨id, List.mem_cons_of_mem _ hid, h1, back id h2⟩
      · cases hr : loopAE O (some p) fuel rest ((ae, provided (some p) ae) :: m) acc1 [] with
        | next m2 acc2 calls2 =>
          rw [hr] at h
          simp only [Step.pre, Step.next.injEq] at h
          obtain ⟨_, _, hcalls⟩ := h
          rw [← hcalls]
          by_cases hid' : id = ae
          · subst hid'; simp
          · rcases List.mem_cons.mp hid with h' | h'
            · exact absurd h' hid'
            · apply List.mem_append_right
              exact ih2 m2 acc2 calls2 hr id h' (by rw [lookup_cons_ne _ _ hid']; exact hnone')
        | fail m2 calls2 => rw [hr] at h; simp [Step.pre] at h
        | outOfFuel m2 calls2 => rw [hr] at h; simp [Step.pre] at h

/-- the same for checkAllowedByAuthEvents run on an empty log -/
theorem checkAllowed_calls {P} (O : Oracles P) (p : EventProvider) (fuel : Nat)
    (hstep : ∀ ae m acc log, retryAE O (some p) ae fuel m acc log = stepC O (some p) ae m acc log)
    (e : Event) (m : IdMap) :
    (∀ c ∈ (checkAllowed O (some p) fuel e m []).2.2, ∃ id ∈ e.authEventIDs, c = Call.events [id] ∧ m.lookup id = none) ∧
    ((checkAllowed O (some p) fuel e m []).1 = .ok →
      ∀ id ∈ e.authEventIDs, m.lookup id = none → Call.events [id] ∈ (checkAllowed O (some p) fuel e m []).2.2) := by
  obtain ⟨h1, h2⟩ := loopAE_calls O p fuel hstep e.authEventIDs m O.empty
  unfold checkAllowed
  cases hr : loopAE O (some p) fuel e.authEventIDs m O.empty [] with
  | next m' acc calls =>
    rw [hr] at h1
    refine ⟨fun c hc => h1 c hc, fun _ id hid hnone => h2 m' acc calls hr id hid hnone⟩
  | fail m' calls =>
    rw [hr] at h1
    refine ⟨fun c hc => h1 c hc, fun h => ?_⟩
    cases h
  | outOfFuel m' calls =>
    rw [hr] at h1
    refine ⟨fun c hc => h1 c hc, fun h => ?_⟩
    cases h

theorem mem_handedOut (prov : EventProvider) (calls : Log) (x : Event) :
    x ∈ handedOut prov calls ↔ ∃ ids es, Call.events ids ∈ calls ∧ prov ids = .events es ∧ x ∈ es := by
  induction calls with
  | nil => simp [handedOut]
  | cons c rest ih =>
    cases c with
    | events ids =>
      unfold handedOut
      rw [List.mem_append, ih]
      constructor
      · rintro (h | ⟨ids', es, h1, h2, h3⟩)
        · cases hp : prov ids with
          | error => rw [hp] at h; cases h
          | events es => rw [hp] at h; exact ⟨ids, es, List.mem_cons_self, hp, h⟩
        · exact ⟨ids', es, List.mem_cons_of_mem _ h1, h2, h3⟩
      · rintro ⟨ids', es, h1, h2, h3⟩
        rcases List.mem_cons.mp h1 with h | h
        · cases h
          left; rw [h2]; exact h3
        · right; exact ⟨ids', es, h, h2, h3⟩
    | stateIDs ev =>
      unfold handedOut
      rw [ih]
      constructor
      · rintro ⟨ids', es, h1, h2, h3⟩; exact ⟨ids', es, List.mem_cons_of_mem _ h1, h2, h3⟩
      · rintro ⟨ids', es, h1, h2, h3⟩
        rcases List.mem_cons.mp h1 with h | h
        · cases h
        · exact ⟨ids', es, h, h2, h3⟩
    | state ev =>
      unfold handedOut
      rw [ih]
      constructor
      · rintro ⟨ids', es, h1, h2, h3⟩; exact ⟨ids', es, List.mem_cons_of_mem _ h1, h2, h3⟩
      · rintro ⟨ids', es, h1, h2, h3⟩
        rcases List.mem_cons.mp h1 with h | h
        · cases h
        · exact ⟨ids', es, h, h2, h3⟩
    | backfill i =>
      unfold handedOut
      rw [ih]
      constructor
      · rintro ⟨ids', es, h1, h2, h3⟩; exact ⟨ids', es, List.mem_cons_of_mem _ h1, h2, h3⟩
      · rintro ⟨ids', es, h1, h2, h3⟩
        rcases List.mem_cons.mp h1 with h | h
        · cases h
        · exact ⟨ids', es, h, h2, h3⟩

section
variable {P : Type} (O : Oracles P) (root : Event) (table : Bytes → Option Event) (errs : Bytes → Bool)

/-- The provider answers from `table` (`errs id`: a request naming `id` fails as a whole): a single-ID request
    is answered exactly; a batch answer consists of table events for requested IDs but MAY LEAVE SOME OUT
    (at most k events per call …) — except events without a state key, which the code treats differently
    when they arrive in a batch (AddEvent error) and in a retry (ignored): those are never left out. -/
structure TableLike (prov : EventProvider) : Prop where
  err_iff : ∀ ids, prov ids = .error ↔ ids.any errs = true
  sub : ∀ ids es, prov ids = .events es → ∀ e ∈ es, ∃ id ∈ ids, table id = some e
  single : ∀ id, errs id = false → prov [id] = .events (match table id with
    | some e => [e]
    | none => [])
  nonstate : ∀ ids es id e, prov ids = .events es → id ∈ ids → table id = some e → e.stateKey.isNone = true → e ∈ es

theorem tableProvider_single (id : Bytes) :
    tableProvider table errs [id] = if errs id then .error else .events (match table id with
      | some e => [e]
      | none => []) := by
  unfold tableProvider
  cases he : errs id <;> cases ht : table id <;> simp [he, ht]

/-- the complete table provider is table-like -/
theorem tableProvider_tableLike : TableLike table errs (tableProvider table errs) := by
  refine ⟨fun ids => ?_, fun ids es h e he => ?_, fun id he => ?_, fun ids es id e h hid ht _ => ?_⟩
  · unfold tableProvider
    cases ha : ids.any errs <;> simp
  · unfold tableProvider at h
    cases ha : ids.any errs
    · simp only [ha, Bool.false_eq_true, if_false, ProvAns.events.injEq] at h
      rw [← h] at he
      exact List.mem_filterMap.mp he
    · simp [ha] at h
  · rw [tableProvider_single, he]; rfl
  · unfold tableProvider at h
    cases ha : ids.any errs
    · simp only [ha, Bool.false_eq_true, if_false, ProvAns.events.injEq] at h
      rw [← h]
      exact List.mem_filterMap.mpr ⟨id, hid, ht⟩
    · simp [ha] at h

/-- a provider that hands out at most `k` events per call -/
def capProvider (k : Nat) : EventProvider :=
  fun ids => if ids.any errs then .error else .events ((ids.filterMap table).take k)

/-- … is table-like when k ≥ 1 and the table holds state events only -/
theorem capProvider_tableLike (k : Nat) (hstate : ∀ id e, table id = some e → e.stateKey.isSome = true) :
    TableLike table errs (capProvider table errs (k + 1)) := by
  refine ⟨fun ids => ?_, fun ids es h e he => ?_, fun id he => ?_, fun ids es id e h hid ht hns => ?_⟩
  · unfold capProvider
    cases ha : ids.any errs <;> simp
  · unfold capProvider at h
    cases ha : ids.any errs
    · simp only [ha, Bool.false_eq_true, if_false, ProvAns.events.injEq] at h
      rw [← h] at he
      exact List.mem_filterMap.mp (List.mem_of_mem_take he)
    · simp [ha] at h
  · unfold capProvider
    cases ht : table id <;> simp [he, ht]
  · have := hstate id e ht
    cases hs : e.stateKey <;> simp_all

variable {prov : EventProvider}

theorem single_eq (htl : TableLike table errs prov) (id : Bytes) :
    prov [id] = if errs id then .error else .events (match table id with
      | some e => [e]
      | none => []) := by
  cases he : errs id
  · simp only [Bool.false_eq_true, if_false]; exact htl.single id he
  · simp only [if_true]
    exact (htl.err_iff [id]).mpr (by simp [he])

theorem provided_table (htl : TableLike table errs prov) (id : Bytes) :
    provided (some prov) id =
      if errs id then none else match table id with
        | some e => if e.stateKey.isSome then some e else none
        | none => none := by
  unfold provided
  simp only [single_eq table errs htl]
  cases he : errs id <;> cases ht : table id <;> simp

theorem tableLike_ok (htl : TableLike table errs prov) (htable : ∀ id e, table id = some e → e.eventID = id) :
    ProvOK (some prov) := by
  intro p hp id
  cases hp
  rw [single_eq table errs htl]
  cases he : errs id
  · cases ht : table id with
    | none => right; left; simp
    | some e => right; right; exact ⟨e, by simp, htable id e ht⟩
  · left; simp

/-- resolved events carry the ID they were asked under -/
theorem chainResolve_id (htable : ∀ id e, table id = some e → e.eventID = id) {id : Bytes} {a : Event}
    (h : chainResolve root table id = some a) : a.eventID = id := by
  unfold chainResolve at h
  split at h
  · rename_i hr
    cases h
    exact (by simpa using hr : id = root.eventID).symm
  · exact htable id a h

theorem chainResolve_self (htable : ∀ id e, table id = some e → e.eventID = id) {id : Bytes} {a : Event}
    (h : chainResolve root table id = some a) : chainResolve root table a.eventID = some a := by
  rw [chainResolve_id root table htable h]; exact h

/-! ### putAll -/

/-- the map after a batch of table events was put in -/
theorem putAll_lookup (es : List Event) (hes : ∀ e ∈ es, table e.eventID = some e) (m : IdMap) (id : Bytes) :
    (putAll es m).lookup id = if es.any (fun e => e.eventID == id) then (table id).map some else m.lookup id := by
  induction es generalizing m with
  | nil => rfl
  | cons x xs ih =>
    unfold putAll
    rw [ih (fun e he => hes e (List.mem_cons_of_mem _ he))]
    by_cases hany : xs.any (fun e => e.eventID == id) = true
    · simp [hany]
    · simp only [hany, Bool.false_eq_true, if_false, List.any_cons, Bool.or_false]
      by_cases hx : id = x.eventID
      · subst hx
        simp [lookup_cons_self, hes x List.mem_cons_self]
      · have : (x.eventID == id) = false := by simpa using fun h => hx h.symm
        simp [this, lookup_cons_ne _ _ hx]

/-! ### the loop invariant -/

structure ChainInv (st : ChainSt) : Prop where
  rootIn : st.m.lookup root.eventID = some (some root)
  mapOK : ∀ id e, st.m.lookup id = some (some e) → chainResolve root table id = some e ∧ (id = root.eventID ∨ errs id = false)
  nilOK : ∀ id, st.m.lookup id = some none → table id = none
  pending : ∀ id e, st.m.lookup id = some (some e) → e.eventID ∈ st.verified ∨ e ∈ st.stack
  stackOK : ∀ e ∈ st.stack, chainResolve root table e.eventID = some e ∧ Reach root table e
  verifiedOK : ∀ id ∈ st.verified, ∃ e, chainResolve root table id = some e ∧ chainGood O root table errs e = true ∧
    ∀ aid ∈ e.authEventIDs, ∀ a, chainResolve root table aid = some a → a.eventID ∈ st.verified ∨ a ∈ st.stack
  rootSeen : root.eventID ∈ st.verified ∨ root ∈ st.stack

theorem chainInv_init : ChainInv O root table errs { stack := [root], m := [(root.eventID, some root)], verified := [] } := by
  have hres : chainResolve root table root.eventID = some root := by simp [chainResolve]
  refine { rootIn := lookup_cons_self _ _ _, mapOK := fun id e h => ?_, nilOK := fun id h => ?_, pending := fun id e h => ?_,
           stackOK := fun e he => ?_, verifiedOK := fun id h => ?_, rootSeen := Or.inr (List.mem_singleton.mpr rfl) }
  · by_cases hid : id = root.eventID
    · subst hid
      rw [lookup_cons_self] at h
      cases h
      exact ⟨hres, Or.inl rfl⟩
    · rw [lookup_cons_ne _ _ hid] at h
      cases h
  · by_cases hid : id = root.eventID
    · subst hid
      rw [lookup_cons_self] at h
      cases h
    · rw [lookup_cons_ne _ _ hid] at h
      cases h
  · by_cases hid : id = root.eventID
    · subst hid
      rw [lookup_cons_self] at h
      cases h
      exact Or.inr (by simp)
    · rw [lookup_cons_ne _ _ hid] at h
      cases h
  · have : e = root := by simpa using he
    subst this
    exact ⟨hres, Reach.root⟩
  · cases h

theorem foldl_accStep_congr_on (r1 r2 : Bytes → Option Event) (ids : List Bytes) (acc : P)
    (h : ∀ id ∈ ids, r1 id = r2 id) : ids.foldl (accStep O r1) acc = ids.foldl (accStep O r2) acc := by
  induction ids generalizing acc with
  | nil => rfl
  | cons id rest ih =>
    simp only [List.foldl_cons]
    have : accStep O r1 acc id = accStep O r2 acc id := by
      unfold accStep; rw [h id List.mem_cons_self]
    rw [this]
    exact ih _ (fun i hi => h i (List.mem_cons_of_mem _ hi))

theorem isNilIn_false {m : IdMap} {id : Bytes} (h : isNilIn m id = false) : ∃ e, m.lookup id = some (some e) := by
  unfold isNilIn at h
  split at h
  · rename_i e he; exact ⟨e, he⟩
  · cases h

theorem isNilIn_true {m : IdMap} {id : Bytes} (h : isNilIn m id = true) : m.lookup id = none ∨ m.lookup id = some none := by
  unfold isNilIn at h
  cases hl : m.lookup id with
  | none => exact Or.inl rfl
  | some v =>
    cases v with
    | none => exact Or.inr rfl
    | some e => simp [hl] at h

/-- what a successful batch fetch returned: table events for needed IDs; no event without a state key left out -/
structure Fetched (need : List Bytes) (es : List Event) : Prop where
  fromTable : ∀ e ∈ es, e.eventID ∈ need ∧ table e.eventID = some e
  nonstate : ∀ id ∈ need, ∀ e, table id = some e → e.stateKey.isNone = true → e ∈ es

theorem fetchNeeded_table (htl : TableLike table errs prov) (htable : ∀ id e, table id = some e → e.eventID = id)
    (need : List Bytes) (log : Log) :
    (need.any errs = true ∧ fetchNeeded prov need log = none) ∨
    (need.any errs = false ∧ ∃ es log1, fetchNeeded prov need log = some (es, log1) ∧ Fetched table need es) := by
  unfold fetchNeeded
  by_cases hn : need.isEmpty = true
  · right
    have : need = [] := by simpa using hn
    subst this
    exact ⟨rfl, [], log, by simp, Fetched.mk (fun e he => by cases he) (fun id hid => by cases hid)⟩
  · simp only [hn, Bool.false_eq_true, if_false]
    cases hp : prov need with
    | error => left; exact ⟨(htl.err_iff need).mp hp, rfl⟩
    | events es =>
      right
      have hne : need.any errs = false := by
        cases ha : need.any errs
        · rfl
        · rw [(htl.err_iff need).mpr ha] at hp; cases hp
      refine ⟨hne, es, log ++ [Call.events need], rfl, Fetched.mk (fun e he => ?_) (fun id hid e ht hns => htl.nonstate need es id e hp hid ht hns)⟩
      obtain ⟨id, hid, ht⟩ := htl.sub need es hp e he
      have := htable id e ht
      subst this
      exact ⟨hid, ht⟩

/-- how the auth event IDs of `curr` resolve in the map after a successful batch fetch -/
theorem resolved_after_fetch (htl : TableLike table errs prov) (htable : ∀ id e, table id = some e → e.eventID = id)
    (st : ChainSt) (hinv : ChainInv O root table errs st)
    (curr : Event) (hfetch : (needOf st.m curr).any errs = false) (es : List Event) (hes : Fetched table (needOf st.m curr) es)
    (id : Bytes) (hid : id ∈ curr.authEventIDs) :
    resM (some prov) (putAll es st.m) id = chainResolve root table id ∧
    badIn (putAll es st.m) id = (match chainResolve root table id with
      | some a => a.stateKey.isNone
      | none => false) ∧
    ((id == root.eventID) = true ∨ errs id = false) := by
  have hl := putAll_lookup table es (fun e he => (hes.fromTable e he).2) st.m id
  by_cases hn : isNilIn st.m id = true
  · have hin : id ∈ needOf st.m curr := by unfold needOf; exact List.mem_filter.mpr ⟨hid, hn⟩
    have hne : id ≠ root.eventID := by
      intro h
      subst h
      unfold isNilIn at hn
      rw [hinv.rootIn] at hn
      cases hn
    have herr : errs id = false := (List.any_eq_false.mp hfetch) id hin |> fun h => by simpa using h
    have hres : chainResolve root table id = table id := by
      unfold chainResolve
      have : (id == root.eventID) = false := by simpa using hne
      simp [this]
    rw [hres]
    unfold resM badIn
    rw [hl]
    by_cases hany : es.any (fun e => e.eventID == id) = true
    · simp only [hany, if_true]
      obtain ⟨e, he, heid⟩ := List.any_eq_true.mp hany
      have heid' : e.eventID = id := by simpa using heid
      have ht : table id = some e := by rw [← heid']; exact (hes.fromTable e he).2
      rw [ht]
      exact ⟨rfl, rfl, Or.inr herr⟩
    · simp only [hany, Bool.false_eq_true, if_false]
      have hnot : ∀ e, table id = some e → e ∉ es := by
        intro e ht he
        apply hany
        exact List.any_eq_true.mpr ⟨e, he, by simp [htable id e ht]⟩
      rcases isNilIn_true hn with h0 | h0
      · rw [h0]
        simp only
        rw [provided_table table errs htl, herr]
        cases ht : table id with
        | none => exact ⟨by simp, rfl, Or.inr (by simp)⟩
        | some e =>
          have hstate : e.stateKey.isSome = true := by
            cases hs : e.stateKey with
            | some sk => rfl
            | none => exact absurd (hes.nonstate id hin e ht (by simp [hs])) (hnot e ht)
          refine ⟨by simp [hstate], ?_, Or.inr (by simp)⟩
          simp only
          cases hs : e.stateKey <;> simp_all
      · rw [h0]
        rw [hinv.nilOK id h0]
        exact ⟨rfl, rfl, Or.inr herr⟩
  · have hn' : isNilIn st.m id = false := by simpa using hn
    obtain ⟨e, he⟩ := isNilIn_false hn'
    have hnin : id ∉ needOf st.m curr := by
      unfold needOf
      intro h
      have := (List.mem_filter.mp h).2
      rw [hn'] at this
      cases this
    have hany : es.any (fun e => e.eventID == id) = false := by
      rw [List.any_eq_false]
      intro x hx heq
      have hxid : x.eventID = id := by simpa using heq
      have := (hes.fromTable x hx).1
      rw [hxid] at this
      exact hnin this
    simp only [hany, Bool.false_eq_true, if_false] at hl
    obtain ⟨hres, herr⟩ := hinv.mapOK id e he
    unfold resM badIn
    rw [hl, he, hres]
    refine ⟨rfl, rfl, ?_⟩
    rcases herr with h | h
    · left; simp [h]
    · right; exact h

/-- after a successful batch fetch, checkAllowedByAuthEvents accepts `curr` exactly when it is `chainGood` -/
theorem verdict_iff_chainGood (htl : TableLike table errs prov) (htable : ∀ id e, table id = some e → e.eventID = id)
    (st : ChainSt) (hinv : ChainInv O root table errs st)
    (curr : Event) (hfetch : (needOf st.m curr).any errs = false) (es : List Event) (hes : Fetched table (needOf st.m curr) es) :
    (caVerdict O (some prov) curr (putAll es st.m) = .ok ↔ chainGood O root table errs curr = true) ∧
    caVerdict O (some prov) curr (putAll es st.m) ≠ .outOfFuel := by
  have hr := resolved_after_fetch O root table errs htl htable st hinv curr hfetch es hes
  have hauth : authOf O (resM (some prov) (putAll es st.m)) curr = authOf O (chainResolve root table) curr := by
    unfold authOf
    exact foldl_accStep_congr_on O _ _ _ _ (fun id hid => (hr id hid).1)
  have hbad : curr.authEventIDs.any (badIn (putAll es st.m)) =
      !curr.authEventIDs.all (fun id => match chainResolve root table id with
        | some a => a.stateKey.isSome
        | none => true) := by
    rw [Bool.eq_iff_iff]
    simp only [List.any_eq_true, Bool.not_eq_true', List.all_eq_false]
    constructor
    · rintro ⟨id, hid, hb⟩
      refine ⟨id, hid, ?_⟩
      rw [(hr id hid).2.1] at hb
      cases hc : chainResolve root table id with
      | none => simp [hc] at hb
      | some a => simp only [hc] at hb ⊢; cases hs : a.stateKey <;> simp_all
    · rintro ⟨id, hid, hb⟩
      refine ⟨id, hid, ?_⟩
      rw [(hr id hid).2.1]
      cases hc : chainResolve root table id with
      | none => simp [hc] at hb
      | some a => simp only [hc] at hb ⊢; cases hs : a.stateKey <;> simp_all
  have herrs : curr.authEventIDs.all (fun id => id == root.eventID || !errs id) = true := by
    rw [List.all_eq_true]
    intro id hid
    rcases (hr id hid).2.2 with h | h
    · simp [h]
    · simp [h]
  unfold caVerdict chainGood
  rw [hbad, hauth, herrs]
  cases h1 : curr.authEventIDs.all (fun id => match chainResolve root table id with
        | some a => a.stateKey.isSome
        | none => true)
  · simp
  · cases h2 : O.allowedBy curr (authOf O (chainResolve root table) curr) <;> simp

/-- what one iteration of the loop establishes -/
def StepPost (st : ChainSt) : ChainStep → Prop
  | .done .ok _ => st.stack = []
  | .done .outOfFuel _ => False
  | .done .provErr _ => ∃ e, Reach root table e ∧ chainGood O root table errs e = false
  | .done .authFail _ => ∃ e, Reach root table e ∧ chainGood O root table errs e = false
  | .cont st' _ => ChainInv O root table errs st'

theorem chainStep_post (hidem : AddIdem O) (htl : TableLike table errs prov) (htable : ∀ id e, table id = some e → e.eventID = id)
    (n : Nat) (st : ChainSt) (log : Log) (hinv : ChainInv O root table errs st) :
    StepPost O root table errs st (chainStep O prov (n + 2) st log) := by
  unfold chainStep
  cases hs : st.stack with
  | nil => exact hs
  | cons curr rest =>
    simp only
    have hcurr := hinv.stackOK curr (by rw [hs]; exact List.mem_cons_self)
    by_cases hv : st.verified.contains curr.eventID = true
    · -- already verified: pop
      simp only [hv, if_true]
      have hvm : curr.eventID ∈ st.verified := by simpa using hv
      have lift : ∀ x : Event, (x.eventID ∈ st.verified ∨ x ∈ st.stack) → (x.eventID ∈ st.verified ∨ x ∈ rest) := by
        intro x hx
        rcases hx with h | h
        · exact Or.inl h
        · rw [hs] at h
          rcases List.mem_cons.mp h with h | h
          · subst h; exact Or.inl hvm
          · exact Or.inr h
      exact {
        rootIn := hinv.rootIn, mapOK := hinv.mapOK, nilOK := hinv.nilOK,
        pending := fun id e h => lift e (hinv.pending id e h),
        stackOK := fun e he => hinv.stackOK e (by rw [hs]; exact List.mem_cons_of_mem _ he),
        verifiedOK := fun id hid => by
          obtain ⟨e, h1, h2, h3⟩ := hinv.verifiedOK id hid
          exact ⟨e, h1, h2, fun aid ha a hra => lift a (h3 aid ha a hra)⟩,
        rootSeen := lift root hinv.rootSeen }
    · simp only [hv, Bool.false_eq_true, if_false]
      rcases fetchNeeded_table table errs htl htable (needOf st.m curr) log with ⟨herr, hf⟩ | ⟨hok, es, log1, hf, hes⟩
      · -- the provider failed on a needed ID
        rw [hf]
        simp only [StepPost]
        refine ⟨curr, hcurr.2, ?_⟩
        rw [List.any_eq_true] at herr
        obtain ⟨id, hid, he⟩ := herr
        have hmem := List.mem_filter.mp (by unfold needOf at hid; exact hid)
        have hne : (id == root.eventID) = false := by
          cases hc : (id == root.eventID)
          · rfl
          · have : id = root.eventID := by simpa using hc
            subst this
            have := hmem.2
            unfold isNilIn at this
            rw [hinv.rootIn] at this
            cases this
        unfold chainGood
        have : curr.authEventIDs.all (fun id => id == root.eventID || !errs id) = false := by
          rw [List.all_eq_false]
          exact ⟨id, hmem.1, by simp [hne, he]⟩
        rw [this]
        rfl
      · rw [hf]
        simp only
        have hprov := tableLike_ok table errs htl htable
        have hstep : ∀ ae m acc log, retryAE O (some prov) ae (n + 2) m acc log = stepC O (some prov) ae m acc log :=
          fun ae m acc log => retryAE_eq_stepC O hidem (some prov) hprov ae n m acc log
        obtain ⟨m2, calls, hc, hext⟩ := checkAllowed_contract O hidem (some prov) hprov n curr (putAll es st.m) []
        obtain ⟨hcalls1, hcalls2⟩ := checkAllowed_calls O prov (n + 2) hstep curr (putAll es st.m)
        rw [hc] at hcalls1 hcalls2
        simp only at hcalls1 hcalls2
        rw [hc]
        obtain ⟨hiff, hnf⟩ := verdict_iff_chainGood O root table errs htl htable st hinv curr hok es hes
        have hl := putAll_lookup table es (fun e he => (hes.fromTable e he).2) st.m
        cases hver : caVerdict O (some prov) curr (putAll es st.m) with
        | outOfFuel => exact absurd hver hnf
        | notAllowed =>
          simp only [StepPost]
          refine ⟨curr, hcurr.2, ?_⟩
          cases hg : chainGood O root table errs curr
          · rfl
          · rw [hiff.mpr hg] at hver; cases hver
        | addErr =>
          simp only [StepPost]
          refine ⟨curr, hcurr.2, ?_⟩
          cases hg : chainGood O root table errs curr
          · rfl
          · rw [hiff.mpr hg] at hver; cases hver
        | ok =>
          simp only [StepPost]
          have hgood := hiff.mp hver
          rw [hver] at hcalls2
          -- facts about the needed IDs
          have need_facts : ∀ id, id ∈ needOf st.m curr → id ∈ curr.authEventIDs ∧ id ≠ root.eventID ∧ errs id = false ∧
              chainResolve root table id = table id := by
            intro id hid
            have hmem := List.mem_filter.mp (by unfold needOf at hid; exact hid)
            have hne : id ≠ root.eventID := by
              intro h
              subst h
              have := hmem.2
              unfold isNilIn at this
              rw [hinv.rootIn] at this
              cases this
            refine ⟨hmem.1, hne, by simpa using (List.any_eq_false.mp hok) id hid, ?_⟩
            unfold chainResolve
            have : (id == root.eventID) = false := by simpa using hne
            simp [this]
          have not_need : ∀ id e, st.m.lookup id = some (some e) → id ∉ needOf st.m curr := by
            intro id e he hin
            have := (List.mem_filter.mp (by unfold needOf at hin; exact hin)).2
            unfold isNilIn at this
            rw [he] at this
            cases this
          -- an ID of `curr` that the map after the fetch does not bind was needed
          have absent_need : ∀ id, id ∈ curr.authEventIDs → (putAll es st.m).lookup id = none →
              id ∈ needOf st.m curr ∧ st.m.lookup id = none := by
            intro id hid h1
            rw [hl id] at h1
            by_cases hany : es.any (fun e => e.eventID == id) = true
            · simp only [hany, if_true] at h1
              obtain ⟨e, he, heid⟩ := List.any_eq_true.mp hany
              have heid' : e.eventID = id := by simpa using heid
              rw [← heid', (hes.fromTable e he).2] at h1
              cases h1
            · simp only [hany, Bool.false_eq_true, if_false] at h1
              have hnil : isNilIn st.m id = true := by unfold isNilIn; rw [h1]
              exact ⟨by unfold needOf; exact List.mem_filter.mpr ⟨hid, hnil⟩, h1⟩
          -- entries of the map after the fetch
          have m1_some : ∀ id e, (putAll es st.m).lookup id = some (some e) →
              st.m.lookup id = some (some e) ∨ (e ∈ es ∧ id ∈ needOf st.m curr ∧ table id = some e) := by
            intro id e h
            rw [hl id] at h
            by_cases hany : es.any (fun e => e.eventID == id) = true
            · simp only [hany, if_true] at h
              obtain ⟨x, hx, hxid⟩ := List.any_eq_true.mp hany
              have hxid' : x.eventID = id := by simpa using hxid
              have hxt := (hes.fromTable x hx)
              rw [hxid'] at hxt
              rw [hxt.2] at h
              simp only [Option.map_some, Option.some.injEq] at h
              subst h
              exact Or.inr ⟨hx, hxt.1, hxt.2⟩
            · simp only [hany, Bool.false_eq_true, if_false] at h
              exact Or.inl h
          have m1_nil : ∀ id, (putAll es st.m).lookup id = some none → st.m.lookup id = some none := by
            intro id h
            rw [hl id] at h
            by_cases hany : es.any (fun e => e.eventID == id) = true
            · simp only [hany, if_true] at h
              obtain ⟨x, hx, hxid⟩ := List.any_eq_true.mp hany
              have hxid' : x.eventID = id := by simpa using hxid
              rw [← hxid', (hes.fromTable x hx).2] at h
              cases h
            · simp only [hany, Bool.false_eq_true, if_false] at h
              exact h
          -- what the single-ID retries handed out
          have retried : ∀ id e, id ∈ needOf st.m curr → (putAll es st.m).lookup id = none → table id = some e →
              e ∈ handedOut prov calls := by
            intro id e hin h1 ht
            obtain ⟨hauth, _, herrs, _⟩ := need_facts id hin
            rw [mem_handedOut]
            refine ⟨[id], [e], hcalls2 rfl id hauth h1, ?_, List.mem_singleton.mpr rfl⟩
            rw [htl.single id herrs, ht]
          have handed_facts : ∀ x, x ∈ handedOut prov calls → ∃ id, id ∈ needOf st.m curr ∧ table id = some x := by
            intro x hx
            rw [mem_handedOut] at hx
            obtain ⟨ids, xs, hcall, hp, hxin⟩ := hx
            obtain ⟨id, hid, hceq, hnone⟩ := hcalls1 _ hcall
            cases hceq
            obtain ⟨hin, _⟩ := absent_need id hid hnone
            obtain ⟨_, _, herrs, _⟩ := need_facts id hin
            rw [htl.single id herrs] at hp
            cases ht : table id with
            | none => rw [ht] at hp; cases hp; cases hxin
            | some e =>
              rw [ht] at hp
              cases hp
              have : x = e := by simpa using hxin
              subst this
              exact ⟨id, hin, ht⟩
          -- new entries of the map after checkAllowed
          have m2_some : ∀ id e, m2.lookup id = some (some e) →
              (putAll es st.m).lookup id = some (some e) ∨
              (id ∈ needOf st.m curr ∧ (putAll es st.m).lookup id = none ∧ table id = some e) := by
            intro id e h
            rcases hext.new id (some e) h with h1 | ⟨h1, hp, hd⟩
            · exact Or.inl h1
            · right
              obtain ⟨hin, _⟩ := absent_need id hd h1
              obtain ⟨_, _, herrs, _⟩ := need_facts id hin
              refine ⟨hin, h1, ?_⟩
              rw [provided_table table errs htl, herrs] at hp
              cases ht : table id with
              | none => rw [ht] at hp; cases hp
              | some e' =>
                rw [ht] at hp
                simp only [Bool.false_eq_true, if_false] at hp
                split at hp
                · cases hp; rfl
                · cases hp
          have m2_nil : ∀ id, m2.lookup id = some none → table id = none := by
            intro id h
            rcases hext.new id none h with h1 | ⟨h1, hp, hd⟩
            · exact hinv.nilOK id (m1_nil id h1)
            · obtain ⟨hin, _⟩ := absent_need id hd h1
              obtain ⟨_, _, herrs, _⟩ := need_facts id hin
              rw [provided_table table errs htl, herrs] at hp
              cases ht : table id with
              | none => rfl
              | some e' =>
                exfalso
                rw [ht] at hp
                simp only [Bool.false_eq_true, if_false] at hp
                cases hs : e'.stateKey with
                | some sk => simp [hs] at hp
                | none =>
                  -- an event without a state key is never left out of a batch answer
                  have hin_es := hes.nonstate id hin e' ht (by simp [hs])
                  have := hl id
                  have hany : es.any (fun e => e.eventID == id) = true :=
                    List.any_eq_true.mpr ⟨e', hin_es, by simp [htable id e' ht]⟩
                  rw [h1] at this
                  simp [hany, ht] at this
          have on_stack : ∀ x, x ∈ es ∨ x ∈ handedOut prov calls →
              x ∈ (handedOut prov calls).reverse ++ es.reverse ++ rest := by
            intro x hx
            rcases hx with h | h
            · exact List.mem_append_left _ (List.mem_append_right _ (List.mem_reverse.mpr h))
            · exact List.mem_append_left _ (List.mem_append_left _ (List.mem_reverse.mpr h))
          have lift : ∀ x : Event, (x.eventID ∈ st.verified ∨ x ∈ st.stack) →
              (x.eventID ∈ curr.eventID :: st.verified ∨ x ∈ (handedOut prov calls).reverse ++ es.reverse ++ rest) := by
            intro x hx
            rcases hx with h | h
            · exact Or.inl (List.mem_cons_of_mem _ h)
            · rw [hs] at h
              rcases List.mem_cons.mp h with h | h
              · subst h; exact Or.inl List.mem_cons_self
              · exact Or.inr (List.mem_append_right _ h)
          exact {
            rootIn := by
              apply hext.keep
              rw [hl root.eventID]
              have hany : es.any (fun e => e.eventID == root.eventID) = false := by
                rw [List.any_eq_false]
                intro x hx heq
                have : x.eventID = root.eventID := by simpa using heq
                have hxn := (hes.fromTable x hx).1
                rw [this] at hxn
                exact not_need _ _ hinv.rootIn hxn
              simp only [hany, Bool.false_eq_true, if_false]
              exact hinv.rootIn,
            mapOK := fun id e h => by
              rcases m2_some id e h with h1 | ⟨hin, _, ht⟩
              · rcases m1_some id e h1 with h0 | ⟨_, hin, ht⟩
                · exact hinv.mapOK id e h0
                · obtain ⟨_, _, herrs, hres⟩ := need_facts id hin
                  exact ⟨by rw [hres]; exact ht, Or.inr herrs⟩
              · obtain ⟨_, _, herrs, hres⟩ := need_facts id hin
                exact ⟨by rw [hres]; exact ht, Or.inr herrs⟩,
            nilOK := m2_nil,
            pending := fun id e h => by
              rcases m2_some id e h with h1 | ⟨hin, hnone, ht⟩
              · rcases m1_some id e h1 with h0 | ⟨hx, _, _⟩
                · exact lift e (hinv.pending id e h0)
                · exact Or.inr (on_stack e (Or.inl hx))
              · exact Or.inr (on_stack e (Or.inr (retried id e hin hnone ht))),
            stackOK := fun e he => by
              have from_need : ∀ id, id ∈ needOf st.m curr → table id = some e →
                  chainResolve root table e.eventID = some e ∧ Reach root table e := by
                intro id hin ht
                obtain ⟨hauth, _, _, hres⟩ := need_facts id hin
                have hr : chainResolve root table id = some e := by rw [hres]; exact ht
                exact ⟨chainResolve_self root table htable hr, Reach.step hcurr.2 hauth hr⟩
              rcases List.mem_append.mp he with h | h
              · rcases List.mem_append.mp h with h | h
                · obtain ⟨id, hin, ht⟩ := handed_facts e (List.mem_reverse.mp h)
                  exact from_need id hin ht
                · have hx := hes.fromTable e (List.mem_reverse.mp h)
                  exact from_need e.eventID hx.1 hx.2
              · exact hinv.stackOK e (by rw [hs]; exact List.mem_cons_of_mem _ h),
            verifiedOK := fun id hid => by
              rcases List.mem_cons.mp hid with h | h
              · subst h
                refine ⟨curr, hcurr.1, hgood, fun aid ha a hra => ?_⟩
                by_cases hin : aid ∈ needOf st.m curr
                · obtain ⟨_, _, _, hres⟩ := need_facts aid hin
                  rw [hres] at hra
                  -- `a` came with the batch, or the retry fetched it
                  cases hlk : (putAll es st.m).lookup aid with
                  | none => exact Or.inr (on_stack a (Or.inr (retried aid a hin hlk hra)))
                  | some v =>
                    cases v with
                    | none =>
                      have := hinv.nilOK aid (m1_nil aid hlk)
                      rw [this] at hra; cases hra
                    | some a' =>
                      rcases m1_some aid a' hlk with h0 | ⟨hx, _, ht⟩
                      · exact absurd hin (not_need aid a' h0)
                      · rw [hra] at ht
                        cases ht
                        exact Or.inr (on_stack a (Or.inl hx))
                · have hnil : isNilIn st.m aid = false := by
                    cases hc : isNilIn st.m aid
                    · rfl
                    · exact absurd (by unfold needOf; exact List.mem_filter.mpr ⟨ha, hc⟩) hin
                  obtain ⟨a', ha'⟩ := isNilIn_false hnil
                  have := (hinv.mapOK aid a' ha').1
                  rw [hra] at this
                  cases this
                  exact lift a (hinv.pending aid a ha')
              · obtain ⟨e, h1, h2, h3⟩ := hinv.verifiedOK id h
                exact ⟨e, h1, h2, fun aid ha a hra => lift a (h3 aid ha a hra)⟩,
            rootSeen := lift root hinv.rootSeen }

/-- when the stack is empty every event of the chain has been verified -/
theorem closed_of_empty (htable : ∀ id e, table id = some e → e.eventID = id) (st : ChainSt) (hinv : ChainInv O root table errs st)
    (hempty : st.stack = []) (e : Event) (hr : Reach root table e) :
    e.eventID ∈ st.verified ∧ chainResolve root table e.eventID = some e := by
  induction hr with
  | root =>
    refine ⟨?_, by simp [chainResolve]⟩
    rcases hinv.rootSeen with h | h
    · exact h
    · rw [hempty] at h; cases h
  | step hre hid hres ih =>
    rename_i e0 a id
    obtain ⟨hv, hself⟩ := ih
    obtain ⟨e', h1, _, h3⟩ := hinv.verifiedOK e0.eventID hv
    rw [hself] at h1
    cases h1
    refine ⟨?_, chainResolve_self root table htable hres⟩
    rcases h3 id hid a hres with h | h
    · exact h
    · rw [hempty] at h; cases h

/-- what the loop's verdict means -/
def LoopPost : ChainOut → Prop
  | .ok => ∀ e, Reach root table e → chainGood O root table errs e = true
  | .outOfFuel => True
  | .provErr => ∃ e, Reach root table e ∧ chainGood O root table errs e = false
  | .authFail => ∃ e, Reach root table e ∧ chainGood O root table errs e = false

theorem chainLoop_post (hidem : AddIdem O) (htl : TableLike table errs prov) (htable : ∀ id e, table id = some e → e.eventID = id)
    (n fuel : Nat) (st : ChainSt) (log : Log) (hinv : ChainInv O root table errs st) :
    LoopPost O root table errs (chainLoop O prov (n + 2) fuel st log).1 := by
  induction fuel generalizing st log with
  | zero => simp [chainLoop, LoopPost]
  | succ k ih =>
    unfold chainLoop
    have hp := chainStep_post O root table errs hidem htl htable n st log hinv
    cases hc : chainStep O prov (n + 2) st log with
    | done r lg =>
      rw [hc] at hp
      simp only
      cases r with
      | ok =>
        simp only [StepPost] at hp
        intro e hr
        obtain ⟨hv, hself⟩ := closed_of_empty O root table errs htable st hinv hp e hr
        obtain ⟨e', h1, h2, _⟩ := hinv.verifiedOK e.eventID hv
        rw [hself] at h1
        cases h1
        exact h2
      | outOfFuel => trivial
      | provErr => exact hp
      | authFail => exact hp
    | cont st' lg =>
      rw [hc] at hp
      simp only
      exact ih st' lg hp

end
end V.FedCheck
