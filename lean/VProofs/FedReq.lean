/- VProofs.FedReq — lemmas about the model of fclient/request.go (header rendering / parsing). -/
import VModel.FedReq
namespace V.FedReq
open V.Json

/-! ### strings.SplitN / Split on one-byte separators -/

theorem splitFirst_append (sep : UInt8) (a b acc : Bytes) (h : sep ∉ a) :
    splitFirst sep (a ++ sep :: b) acc = some (acc.reverse ++ a, b) := by
  induction a generalizing acc with
  | nil => simp [splitFirst]
  | cons c rest ih =>
    have hc : c ≠ sep := fun e => h (by simp [e])
    have hr : sep ∉ rest := fun e => h (by simp [e])
    have hc' : (c == sep) = false := by simpa using hc
    simp only [List.cons_append, splitFirst, hc', Bool.false_eq_true, ↓reduceIte]
    rw [ih _ hr]
    simp

theorem splitAll_append (sep : UInt8) (a b cur : Bytes) (h : sep ∉ a) :
    splitAll sep (a ++ sep :: b) cur = (cur.reverse ++ a) :: splitAll sep b [] := by
  induction a generalizing cur with
  | nil => simp [splitAll]
  | cons c rest ih =>
    have hc : c ≠ sep := fun e => h (by simp [e])
    have hr : sep ∉ rest := fun e => h (by simp [e])
    have hc' : (c == sep) = false := by simpa using hc
    simp only [List.cons_append, splitAll, hc', Bool.false_eq_true, ↓reduceIte]
    rw [ih _ hr]
    simp

theorem splitAll_last (sep : UInt8) (a cur : Bytes) (h : sep ∉ a) :
    splitAll sep a cur = [cur.reverse ++ a] := by
  induction a generalizing cur with
  | nil => simp [splitAll]
  | cons c rest ih =>
    have hc : c ≠ sep := fun e => h (by simp [e])
    have hr : sep ∉ rest := fun e => h (by simp [e])
    have hc' : (c == sep) = false := by simpa using hc
    simp only [splitAll, hc', Bool.false_eq_true, ↓reduceIte]
    rw [ih _ hr]
    simp

/-! ### strings.Trim(v, "\"") and strings.TrimSpace on a quoted value -/

theorem dropQuotes_noquote (v : Bytes) (h : ∀ c, v.head? = some c → c ≠ 0x22) : dropQuotes v = v := by
  cases v with
  | nil => rfl
  | cons c rest =>
    have : c ≠ 0x22 := h c rfl
    unfold dropQuotes
    split
    · rename_i heq; simp at heq; exact absurd heq.1 this
    · rfl

/-- stripping the quotes of a quoted value without quotes inside gives the value -/
theorem trimQuotes_quoted (v : Bytes) (h : 0x22 ∉ v) : trimQuotes (0x22 :: v ++ [0x22]) = v := by
  unfold trimQuotes
  have h1 : dropQuotes (0x22 :: v ++ [0x22]) = dropQuotes (v ++ [0x22]) := by
    simp [dropQuotes]
  rw [h1]
  cases v with
  | nil => simp [dropQuotes]
  | cons c rest =>
    have hc : c ≠ 0x22 := fun e => h (by simp [e])
    have h2 : dropQuotes (c :: rest ++ [0x22]) = c :: rest ++ [0x22] :=
      dropQuotes_noquote _ (by intro x hx; simp at hx; rw [← hx]; exact hc)
    rw [h2]
    have h3 : (c :: rest ++ [0x22]).reverse = 0x22 :: (c :: rest).reverse := by simp
    rw [h3]
    have h4 : dropQuotes (0x22 :: (c :: rest).reverse) = dropQuotes ((c :: rest).reverse) := by simp [dropQuotes]
    rw [h4]
    have h5 : dropQuotes ((c :: rest).reverse) = (c :: rest).reverse := by
      apply dropQuotes_noquote
      intro x hx
      have : x ∈ (c :: rest).reverse := List.mem_of_mem_head? hx
      rw [List.mem_reverse] at this
      intro e; exact h (e ▸ this)
    rw [h5, List.reverse_reverse]

theorem leadingSpaceLen_quote (rest : Bytes) : leadingSpaceLen (0x22 :: rest) = 0 := by
  unfold leadingSpaceLen
  split <;> first
    | (simp_all; done)
    | (rename_i heq; simp only [List.cons.injEq] at heq; obtain ⟨h1, _⟩ := heq; subst h1; decide)

theorem trailingSpaceLenRev_quote (rest : Bytes) : trailingSpaceLenRev (0x22 :: rest) = 0 := by
  unfold trailingSpaceLenRev
  split <;> first
    | (simp_all; done)
    | (rename_i heq; simp only [List.cons.injEq] at heq; obtain ⟨h1, _⟩ := heq; subst h1; decide)

/-- TrimSpace leaves a text alone that begins and ends with a double quote -/
theorem trimSpace_quoted (v : Bytes) : trimSpace (0x22 :: v ++ [0x22]) = 0x22 :: v ++ [0x22] := by
  unfold trimSpace
  have h1 : ∀ n, trimLeftSpace n (0x22 :: v ++ [0x22]) = 0x22 :: v ++ [0x22] := by
    intro n
    cases n with
    | zero => rfl
    | succ k => simp only [List.cons_append, trimLeftSpace, leadingSpaceLen_quote]
  simp only [h1]
  have h2 : (0x22 :: v ++ [0x22]).reverse = 0x22 :: (0x22 :: v).reverse := by simp
  rw [h2]
  have h3 : ∀ n, trimRightSpaceRev n (0x22 :: (0x22 :: v).reverse) = 0x22 :: (0x22 :: v).reverse := by
    intro n
    cases n with
    | zero => rfl
    | succ k => simp only [trimRightSpaceRev, trailingSpaceLenRev_quote]
  rw [h3]
  simp

end V.FedReq

namespace V.FedReq

/-- a header parameter `name="value"` -/
def param (name v : Bytes) : Bytes := name ++ 0x3D :: (0x22 :: v ++ [0x22])

theorem authHeader_eq (o k s d : Bytes) :
    authHeader o k s d =
      xMatrix ++ 0x20 :: (param (bz!"origin") o ++ 0x2C :: (param (bz!"key") k ++ 0x2C :: (param (bz!"sig") s ++ 0x2C :: param (bz!"destination") d))) := by
  simp [authHeader, xMatrix, param]

theorem comma_not_in_param (name v : Bytes) (hn : 0x2C ∉ name) (hv : 0x2C ∉ v) : (0x2C : UInt8) ∉ param name v := by
  simp [param, hn, hv]

/-- one step of the parameter loop on a well-formed parameter -/
theorem parseParams_param (name v : Bytes) (rest : List Bytes) (a : Auth)
    (hn : 0x3D ∉ name) (hts : trimSpace name = name) (hv : 0x22 ∉ v) :
    parseParams (param name v :: rest) a = parseParams rest (applyParam name v a) := by
  conv => lhs; rw [parseParams]
  simp only [param]
  rw [splitFirst_append _ _ _ _ hn]
  simp only [List.reverse_nil, List.nil_append, hts]
  rw [trimSpace_quoted, trimQuotes_quoted v hv]

/-- Header round trip: what HTTPRequest renders, ParseAuthorization reads back, provided no value
    contains a comma or a double quote. -/
theorem parse_authHeader (o k s d : Bytes)
    (ho : 0x2C ∉ o ∧ 0x22 ∉ o) (hk : 0x2C ∉ k ∧ 0x22 ∉ k) (hs : 0x2C ∉ s ∧ 0x22 ∉ s) (hd : 0x2C ∉ d ∧ 0x22 ∉ d) :
    parseAuthorization (authHeader o k s d) = ⟨xMatrix, o, d, k, s⟩ := by
  rw [authHeader_eq]
  unfold parseAuthorization
  rw [splitFirst_append 0x20 xMatrix _ [] (by decide)]
  simp only [List.reverse_nil, List.nil_append, bne_self_eq_false, Bool.false_eq_true, ↓reduceIte]
  rw [splitAll_append 0x2C _ _ [] (comma_not_in_param _ _ (by decide) ho.1),
      splitAll_append 0x2C _ _ [] (comma_not_in_param _ _ (by decide) hk.1),
      splitAll_append 0x2C _ _ [] (comma_not_in_param _ _ (by decide) hs.1),
      splitAll_last 0x2C _ [] (comma_not_in_param _ _ (by decide) hd.1)]
  simp only [List.reverse_nil, List.nil_append]
  rw [parseParams_param _ _ _ _ (by decide) (by decide) ho.2,
      parseParams_param _ _ _ _ (by decide) (by decide) hk.2,
      parseParams_param _ _ _ _ (by decide) (by decide) hs.2,
      parseParams_param _ _ _ _ (by decide) (by decide) hd.2]
  simp [parseParams, applyParam]

end V.FedReq

namespace V.FedReq

/-! ### readHTTPRequest -/

/-- the X-Matrix credentials among the Authorization headers, in order -/
def xMatrixAuths (hs : List Str) : List Auth := (hs.map parseAuthorization).filter (fun a => a.scheme == xMatrix)

def Auth.wellFormed (a : Auth) : Bool := !(a.origin.isEmpty || a.key.isEmpty || a.sig.isEmpty)

/-- once an origin is set, later headers cannot change it -/
theorem readAuth_origin_preserved (hs : List Str) (f f' : Fields) (h : readAuth hs f = .ok f')
    (hne : f.origin.isEmpty = false) : f'.origin = f.origin := by
  induction hs generalizing f with
  | nil => simp only [readAuth, Except.ok.injEq] at h; rw [h]
  | cons hd rest ih =>
    unfold readAuth at h
    by_cases hsch : ((parseAuthorization hd).scheme != xMatrix) = true
    · simp only [hsch, ↓reduceIte] at h; exact ih f h hne
    · have hsch' : ((parseAuthorization hd).scheme != xMatrix) = false := by simpa using hsch
      simp only [hsch', Bool.false_eq_true, ↓reduceIte] at h
      split at h
      · simp at h
      · split at h
        · simp at h
        · rename_i hdo
          split at h
          · simp at h
          · have heq : f.origin = (parseAuthorization hd).origin := by
              simp only [hne, Bool.not_false, Bool.true_and, bne_iff_ne, ne_eq, Decidable.not_not] at hdo
              exact hdo
            have := ih _ h (by simp only; rw [← heq]; exact hne)
            simp only at this
            rw [this, heq]

/-- What a successful pass over the Authorization headers establishes. -/
theorem readAuth_ok (hs : List Str) (f f' : Fields) (h : readAuth hs f = .ok f') :
    f'.content = f.content ∧ f'.method = f.method ∧ f'.uri = f.uri ∧
    (∀ a ∈ xMatrixAuths hs, a.wellFormed = true ∧ a.origin = f'.origin) ∧
    (match (xMatrixAuths hs).getLast? with
     | none => f' = f
     | some a => f'.origin = a.origin ∧ f'.destination = a.destination) := by
  induction hs generalizing f with
  | nil =>
    simp only [readAuth, Except.ok.injEq] at h
    subst h
    simp [xMatrixAuths]
  | cons hd rest ih =>
    unfold readAuth at h
    by_cases hsch : (parseAuthorization hd).scheme = xMatrix
    · have hsch' : ((parseAuthorization hd).scheme != xMatrix) = false := by simp [hsch]
      simp only [hsch', Bool.false_eq_true, ↓reduceIte] at h
      by_cases hwf : ((parseAuthorization hd).origin.isEmpty || (parseAuthorization hd).key.isEmpty || (parseAuthorization hd).sig.isEmpty) = true
      · simp [hwf] at h
      · have hwf' : ((parseAuthorization hd).origin.isEmpty || (parseAuthorization hd).key.isEmpty || (parseAuthorization hd).sig.isEmpty) = false := by
          simpa using hwf
        simp only [hwf', Bool.false_eq_true, ↓reduceIte] at h
        by_cases hdo : (!f.origin.isEmpty && f.origin != (parseAuthorization hd).origin) = true
        · simp [hdo] at h
        · have hdo' : (!f.origin.isEmpty && f.origin != (parseAuthorization hd).origin) = false := by simpa using hdo
          simp only [hdo', Bool.false_eq_true, ↓reduceIte] at h
          have hu8 : (Json.utf8Valid (parseAuthorization hd).origin && Json.utf8Valid (parseAuthorization hd).destination) = true := by
            cases hb : (Json.utf8Valid (parseAuthorization hd).origin && Json.utf8Valid (parseAuthorization hd).destination) with
            | true => rfl
            | false => simp [hb] at h
          simp only [hu8, Bool.not_true, Bool.false_eq_true, ↓reduceIte] at h
          obtain ⟨h1, h2, h3, h4, h5⟩ := ih _ h
          simp only at h1 h2 h3
          have hx : xMatrixAuths (hd :: rest) = parseAuthorization hd :: xMatrixAuths rest := by
            simp [xMatrixAuths, hsch]
          -- the origin established by the rest equals this header's origin
          have horig : f'.origin = (parseAuthorization hd).origin := by
            cases hl : (xMatrixAuths rest).getLast? with
            | none =>
              rw [hl] at h5; simp only at h5; rw [h5]
            | some a =>
              rw [hl] at h5; simp only at h5
              have ha : a ∈ xMatrixAuths rest := List.mem_of_getLast? hl
              -- going through the rest with origin already set: every later header has that origin
              have := (h4 a ha).2
              -- the rest was read starting from origin = this header's origin; prove it is preserved
              exact readAuth_origin_preserved rest _ f' h (by simp only; simp only [Bool.or_eq_false_iff] at hwf'; exact hwf'.1.1)
          refine ⟨h1, h2, h3, ?_, ?_⟩
          · intro a ha
            rw [hx] at ha
            rcases List.mem_cons.mp ha with rfl | ha'
            · exact ⟨by simp [Auth.wellFormed, hwf'], horig.symm⟩
            · exact h4 a ha'
          · rw [hx]
            cases hl : (xMatrixAuths rest).getLast? with
            | none =>
              have : xMatrixAuths rest = [] := List.getLast?_eq_none_iff.mp hl
              rw [this]
              rw [hl] at h5; simp only at h5
              simp only [List.getLast?_singleton]
              rw [h5]; exact ⟨rfl, rfl⟩
            | some a =>
              have hne : xMatrixAuths rest ≠ [] := by intro e; rw [e] at hl; simp at hl
              rw [List.getLast?_cons_of_ne_nil hne, hl]
              rw [hl] at h5; exact h5
    · have hsch' : ((parseAuthorization hd).scheme != xMatrix) = true := by simp [hsch]
      simp only [hsch', ↓reduceIte] at h
      have hx : xMatrixAuths (hd :: rest) = xMatrixAuths rest := by
        simp [xMatrixAuths, hsch]
      rw [hx]
      exact ih _ h

end V.FedReq

namespace V.FedReq

/-- the last X-Matrix credentials: the origin and destination the request claims -/
def claimed (req : HttpReq) : Option Auth := (xMatrixAuths req.authorization).getLast?

theorem readHTTPRequest_ok (req : HttpReq) (f : Fields) (h : readHTTPRequest req = .ok f) :
    f.method = req.method ∧ f.uri = req.requestURI ∧
    (req.body = [] → f.content = none) ∧
    (req.body ≠ [] → f.content = some req.body ∧ req.mediaType = some applicationJSON ∧ Json.utf8Valid req.body = true) ∧
    (∀ a ∈ xMatrixAuths req.authorization, a.wellFormed = true ∧ a.origin = f.origin) ∧
    (match claimed req with
     | none => f.origin = [] ∧ f.destination = [] ∧ f.signatures = []
     | some a => f.origin = a.origin ∧ f.destination = a.destination) := by
  unfold readHTTPRequest at h
  have hfu : (Json.utf8Valid req.method && Json.utf8Valid req.requestURI) = true := by
    cases hb : (Json.utf8Valid req.method && Json.utf8Valid req.requestURI) with
    | true => rfl
    | false => simp [hb] at h
  simp only [hfu, Bool.not_true, Bool.false_eq_true, ↓reduceIte] at h
  by_cases hb : req.body = []
  · have hlen : (req.body.length != 0) = false := by simp [hb]
    simp only [hlen, Bool.false_eq_true, ↓reduceIte] at h
    obtain ⟨h1, h2, h3, h4, h5⟩ := readAuth_ok _ _ _ h
    simp only at h1 h2 h3
    refine ⟨h2, h3, fun _ => h1, fun hne => absurd hb hne, h4, ?_⟩
    unfold claimed
    cases hl : (xMatrixAuths req.authorization).getLast? with
    | none => rw [hl] at h5; simp only at h5; rw [h5]; exact ⟨rfl, rfl, rfl⟩
    | some a => rw [hl] at h5; exact h5
  · have hlen : (req.body.length != 0) = true := by
      simp only [bne_iff_ne, ne_eq, List.length_eq_zero_iff]; exact hb
    simp only [hlen, ↓reduceIte] at h
    cases hm : req.mediaType with
    | none => simp [hm] at h
    | some t =>
      simp only [hm] at h
      by_cases ht : t = applicationJSON
      · subst ht
        simp only [bne_self_eq_false, Bool.false_eq_true, ↓reduceIte] at h
        by_cases hu : Json.utf8Valid req.body = true
        · simp only [hu, Bool.not_true, Bool.false_eq_true, ↓reduceIte] at h
          obtain ⟨h1, h2, h3, h4, h5⟩ := readAuth_ok _ _ _ h
          simp only at h1 h2 h3
          refine ⟨h2, h3, fun e => absurd e hb, fun _ => ⟨h1, rfl, hu⟩, h4, ?_⟩
          unfold claimed
          cases hl : (xMatrixAuths req.authorization).getLast? with
          | none => rw [hl] at h5; simp only at h5; rw [h5]; exact ⟨rfl, rfl, rfl⟩
          | some a => rw [hl] at h5; exact h5
        · have hu' : Json.utf8Valid req.body = false := by simpa using hu
          simp [hu'] at h
      · have ht' : (t != applicationJSON) = true := by simpa using ht
        simp [ht'] at h

/-- the receiver owns a destination: it is its default name, or one of its local names -/
def Owned (destination : Str) (isLocal : Option (Str → Bool)) (d : Str) : Prop :=
  match isLocal with
  | some loc => loc d = true ∨ d = destination
  | none => d = destination

/-- Everything an accepted request guarantees. -/
theorem verify_ok_facts (req : HttpReq) (now : Millis) (destination : Str) (isLocal : Option (Str → Bool))
    (V : Verifier) (r : Fields) (h : verifyHTTPRequest req now destination isLocal V = .ok r) :
    r.method = req.method ∧ r.uri = req.requestURI ∧
    (req.body = [] → r.content = none) ∧
    (req.body ≠ [] → r.content = some req.body ∧ req.mediaType = some applicationJSON ∧ Json.utf8Valid req.body = true) ∧
    (∃ a, claimed req = some a ∧ a.wellFormed = true ∧ r.origin = a.origin ∧
        r.destination = (if a.destination.isEmpty then destination else a.destination)) ∧
    (∀ a ∈ xMatrixAuths req.authorization, a.wellFormed = true ∧ a.origin = r.origin) ∧
    Owned destination isLocal r.destination ∧
    validServerName r.origin = true ∧
    ∃ cv, contentValue r.content = some cv ∧
      V r.origin now (signingObject cv r.destination r.method r.origin r.uri) r.signatures = .accepted := by
  unfold verifyHTTPRequest at h
  cases hr : readHTTPRequest req with
  | error e => simp [hr] at h
  | ok f =>
    simp only [hr] at h
    obtain ⟨f1, f2, f3, f4, f5, f6⟩ := readHTTPRequest_ok req f hr
    -- the destination check
    have hdest : ∃ f', (f' = f ∨ (f.destination = [] ∧ f' = { f with destination := destination })) ∧
        Owned destination isLocal f'.destination ∧
        f'.destination = (if f.destination.isEmpty then destination else f.destination) ∧
        (if !marshalable f' then (.error .unmodelled : Except Refusal Fields) else
          match contentValue f'.content with
          | none => .error .badRequest
          | some content =>
            if f'.origin.isEmpty then .error .unauthorized
            else if !validServerName f'.origin then .error .badRequest
            else
              match V f'.origin now (signingObject content f'.destination f'.method f'.origin f'.uri) f'.signatures with
              | .fatal => .error .internal
              | .rejected => .error .unauthorized
              | .accepted => .ok f') = .ok r := by
      by_cases hde : f.destination.isEmpty = true
      · have : f.destination = [] := by simpa using hde
        simp only [hde, Bool.not_true, Bool.false_eq_true, ↓reduceIte] at h
        refine ⟨{ f with destination := destination }, Or.inr ⟨this, rfl⟩, ?_, by simp [hde], h⟩
        unfold Owned; cases isLocal <;> simp
      · have hde' : f.destination.isEmpty = false := by simpa using hde
        simp only [hde', Bool.not_false, ↓reduceIte] at h
        cases hl : isLocal with
        | some loc =>
          simp only [hl] at h
          by_cases hloc : loc f.destination = true
          · simp only [hloc, Bool.not_true, Bool.false_eq_true, ↓reduceIte] at h
            exact ⟨f, Or.inl rfl, by unfold Owned; simp [hloc], by simp [hde'], h⟩
          · have : loc f.destination = false := by simpa using hloc
            simp [this] at h
        | none =>
          simp only [hl] at h
          by_cases hd : destination = f.destination
          · have : (destination != f.destination) = false := by simp [hd]
            simp only [this, Bool.false_eq_true, ↓reduceIte] at h
            exact ⟨f, Or.inl rfl, by unfold Owned; simp [hd], by simp [hde'], h⟩
          · have : (destination != f.destination) = true := by simpa using hd
            simp [this] at h
    obtain ⟨f', hf', hown, hdst, hrest⟩ := hdest
    have hsame : f'.content = f.content ∧ f'.method = f.method ∧ f'.uri = f.uri ∧ f'.origin = f.origin ∧ f'.signatures = f.signatures := by
      rcases hf' with rfl | ⟨_, rfl⟩ <;> simp
    obtain ⟨s1, s2, s3, s4, s5⟩ := hsame
    by_cases hm : marshalable f' = true
    · simp only [hm, Bool.not_true, Bool.false_eq_true, ↓reduceIte] at hrest
      cases hc : contentValue f'.content with
      | none => simp [hc] at hrest
      | some cv =>
        simp only [hc] at hrest
        by_cases ho : f'.origin.isEmpty = true
        · simp [ho] at hrest
        · have ho' : f'.origin.isEmpty = false := by simpa using ho
          simp only [ho', Bool.false_eq_true, ↓reduceIte] at hrest
          by_cases hv : validServerName f'.origin = true
          · simp only [hv, Bool.not_true, Bool.false_eq_true, ↓reduceIte] at hrest
            cases hver : V f'.origin now (signingObject cv f'.destination f'.method f'.origin f'.uri) f'.signatures with
            | fatal => simp [hver] at hrest
            | rejected => simp [hver] at hrest
            | accepted =>
              simp only [hver, Except.ok.injEq] at hrest
              subst hrest
              have hclaim : ∃ a, claimed req = some a ∧ a.wellFormed = true ∧ f'.origin = a.origin ∧
                  f'.destination = (if a.destination.isEmpty then destination else a.destination) := by
                cases hcl : claimed req with
                | none =>
                  rw [hcl] at f6; simp only at f6
                  rw [s4, f6.1] at ho'; simp at ho'
                | some a =>
                  rw [hcl] at f6; simp only at f6
                  have ha : a ∈ xMatrixAuths req.authorization := List.mem_of_getLast? hcl
                  refine ⟨a, rfl, (f5 a ha).1, by rw [s4, f6.1], ?_⟩
                  rw [hdst, f6.2]
              refine ⟨by rw [s2, f1], by rw [s3, f2], fun e => by rw [s1]; exact f3 e, fun e => by rw [s1]; exact f4 e,
                hclaim, fun a ha => ⟨(f5 a ha).1, by rw [s4]; exact (f5 a ha).2⟩, hown, hv, cv, hc, hver⟩
          · have hv' : validServerName f'.origin = false := by simpa using hv
            simp [hv'] at hrest
    · have hm' : marshalable f' = false := by simpa using hm
      simp [hm'] at hrest

end V.FedReq

namespace V.FedReq
open V.Json

/-! ### The signing object determines the signed fields -/

theorem sorted_signingObject_some (c : JVal) (d m o u : Bytes) :
    (signingObject (some c) d m o u).sorted =
      .obj [(bz!"content", c.sorted), (bz!"destination", .str d), (bz!"method", .str m), (bz!"origin", .str o), (bz!"uri", .str u)] := by
  simp [signingObject, unsignedMembers, JVal.sorted, sortedMembers, sortByKey, insertByKey, bytesLt]

theorem sorted_signingObject_none (d m o u : Bytes) :
    (signingObject none d m o u).sorted =
      .obj [(bz!"destination", .str d), (bz!"method", .str m), (bz!"origin", .str o), (bz!"uri", .str u)] := by
  simp [signingObject, unsignedMembers, JVal.sorted, sortedMembers, sortByKey, insertByKey, bytesLt]

/-- Two signing objects that are equal up to member order (hence have the same canonical JSON) were
    built from the same destination, method, origin and URI, and from contents equal up to member order. -/
theorem signingObject_sorted_inj (c c' : Option JVal) (d d' m m' o o' u u' : Bytes)
    (h : (signingObject c d m o u).sorted = (signingObject c' d' m' o' u').sorted) :
    d = d' ∧ m = m' ∧ o = o' ∧ u = u' ∧ c.map JVal.sorted = c'.map JVal.sorted := by
  cases c with
  | none =>
    cases c' with
    | none =>
      rw [sorted_signingObject_none, sorted_signingObject_none] at h
      simp only [JVal.obj.injEq, List.cons.injEq, Prod.mk.injEq, JVal.str.injEq, true_and, and_true] at h
      obtain ⟨h1, h2, h3, h4⟩ := h
      exact ⟨h1, h2, h3, h4, rfl⟩
    | some x =>
      rw [sorted_signingObject_none, sorted_signingObject_some] at h
      simp at h
  | some x =>
    cases c' with
    | none =>
      rw [sorted_signingObject_none, sorted_signingObject_some] at h
      simp at h
    | some y =>
      rw [sorted_signingObject_some, sorted_signingObject_some] at h
      simp only [JVal.obj.injEq, List.cons.injEq, Prod.mk.injEq, JVal.str.injEq, true_and, and_true] at h
      obtain ⟨h0, h1, h2, h3, h4⟩ := h
      exact ⟨h1, h2, h3, h4, by simp [h0]⟩

/-! ### The key-ring verifier -/

/-- an abstract signature scheme over JSON objects (ed25519 over canonical JSON, base64 text) -/
structure SigScheme where
  sign : Nat → JVal → Str
  check : Nat → JVal → Str → Bool

/-- Idealisation of ed25519 over canonical JSON (hypotheses, never axioms): a signature checks against every
    object equal to the signed one up to member order (correctness; canonical JSON erases member order), and
    every signature that checks is an honest signature over such an object (unforgeability + message binding). -/
structure IdealSig (S : SigScheme) : Prop where
  correct : ∀ pk obj obj', obj'.sorted = obj.sorted → S.check pk obj' (S.sign pk obj) = true
  unforgeable : ∀ pk obj' sig, S.check pk obj' sig = true → ∃ obj, sig = S.sign pk obj ∧ obj'.sorted = obj.sorted

theorem keyRing_accepted_iff (table : List KeyEntry) (dbError : Bool) (wc : Nat) (check : Nat → JVal → Str → Bool)
    (origin : Str) (ts : Nat) (obj : JVal) (sigs : List (Str × Str)) :
    keyRingVerifier table dbError wc check origin ts obj sigs = .accepted ↔
      dbError = false ∧ ∃ kv ∈ sigs, ed25519Prefix.isPrefixOf kv.1 = true ∧
        ∃ k ∈ table, k.server = origin ∧ k.keyID = kv.1 ∧ wasValidAt wc k ts = true ∧ check k.pk obj kv.2 = true := by
  unfold keyRingVerifier
  simp only []
  by_cases h1 : (sigs.filter (fun kv => ed25519Prefix.isPrefixOf kv.1)).isEmpty = true
  · simp only [h1, ↓reduceIte]
    constructor
    · intro h; cases h
    · intro ⟨_, kv, hkv, hp, _⟩
      have : kv ∈ sigs.filter (fun kv => ed25519Prefix.isPrefixOf kv.1) := by simp [List.mem_filter, hkv, hp]
      have hnil : sigs.filter (fun kv => ed25519Prefix.isPrefixOf kv.1) = [] := by simpa using h1
      rw [hnil] at this; cases this
  · have h1' : (sigs.filter (fun kv => ed25519Prefix.isPrefixOf kv.1)).isEmpty = false := by simpa using h1
    simp only [h1', Bool.false_eq_true, ↓reduceIte]
    cases dbError with
    | true => simp
    | false =>
      simp only [Bool.false_eq_true, ↓reduceIte, true_and]
      constructor
      · intro h
        split at h
        · rename_i hany
          simp only [List.any_eq_true, List.mem_filter, Bool.and_eq_true, beq_iff_eq] at hany
          obtain ⟨kv, ⟨hkv, hp⟩, k, hk, ⟨⟨hs, hid⟩, hv⟩, hc⟩ := hany
          exact ⟨kv, hkv, hp, k, hk, hs, hid, hv, hc⟩
        · cases h
      · intro ⟨kv, hkv, hp, k, hk, hs, hid, hv, hc⟩
        have : (sigs.filter (fun kv => ed25519Prefix.isPrefixOf kv.1)).any (fun kv =>
            table.any (fun k => k.server == origin && k.keyID == kv.1 && wasValidAt wc k ts && check k.pk obj kv.2)) = true := by
          simp only [List.any_eq_true, List.mem_filter, Bool.and_eq_true, beq_iff_eq]
          exact ⟨kv, ⟨hkv, hp⟩, k, hk, ⟨⟨hs, hid⟩, hv⟩, hc⟩
        simp [this]

theorem safe_no_quote (t : Str) (h : isSafeInHTTPQuotedString t = true) : (0x22 : UInt8) ∉ t := by
  intro hm
  unfold isSafeInHTTPQuotedString at h
  rw [List.all_eq_true] at h
  have := h _ hm
  revert this; decide

end V.FedReq

namespace V.FedReq
open V.Json

/-- what HTTPRequest builds from singly-signed fields -/
theorem httpRequest_shape (f : Fields) (up : Option Str) (req : HttpReq) (kid sig : Str)
    (hreq : httpRequest f up = .ok req) (hsigs : f.signatures = [(kid, sig)]) :
    (f.method.isEmpty = true ∨ f.method.all isTokenByte = true) ∧ up = some f.uri ∧
    isSafeInHTTPQuotedString f.origin = true ∧ isSafeInHTTPQuotedString f.destination = true ∧
    isSafeInHTTPQuotedString kid = true ∧
    req = { method := if f.method.isEmpty then bz!"GET" else f.method, requestURI := f.uri, body := f.content.getD [],
            mediaType := if f.content.isSome then some applicationJSON else none,
            authorization := [authHeader f.origin kid sig f.destination] } := by
  unfold httpRequest at hreq
  rw [hsigs] at hreq
  split at hreq
  · simp at hreq
  · rename_i hmeth
    cases up with
    | none => simp at hreq
    | some ru =>
      simp only [] at hreq
      split at hreq
      · simp at hreq
      · rename_i hru
        have hru' : ru = f.uri := by simpa using hru
        subst hru'
        split at hreq
        · simp at hreq
        · rename_i hsafe
          simp only [List.isEmpty_cons, Bool.not_false, Bool.true_and, Bool.not_eq_true', Bool.not_eq_false,
            List.all_cons, List.all_nil, Bool.and_true, Bool.and_eq_true] at hsafe
          simp only [List.map_cons, List.map_nil, Except.ok.injEq] at hreq
          have hmeth' : f.method.isEmpty = true ∨ f.method.all isTokenByte = true := by
            by_cases he : f.method.isEmpty = true
            · exact Or.inl he
            · right
              have he' : f.method.isEmpty = false := by simpa using he
              simpa [he'] using hmeth
          refine ⟨hmeth', rfl, hsafe.1.1, hsafe.1.2, hsafe.2, hreq.symm⟩

theorem read_produced (f : Fields) (up : Option Str) (req : HttpReq) (kid sig : Str)
    (hreq : httpRequest f up = .ok req)
    (hsigs : f.signatures = [(kid, sig)])
    (hm : f.method ≠ [])
    (hc : ∀ c, f.content = some c → c ≠ [] ∧ utf8Valid c = true)
    (hcomma : 0x2C ∉ f.origin ∧ 0x2C ∉ kid ∧ 0x2C ∉ sig ∧ 0x2C ∉ f.destination)
    (hsq : 0x22 ∉ sig)
    (hne : f.origin ≠ [] ∧ kid ≠ [] ∧ sig ≠ [])
    (hu8 : fieldsUTF8 f = true) :
    readHTTPRequest req = .ok f := by
  obtain ⟨_, _, hso, hsd, hsk, hr⟩ := httpRequest_shape f up req kid sig hreq hsigs
  have hparse := parse_authHeader f.origin kid sig f.destination ⟨hcomma.1, safe_no_quote _ hso⟩
    ⟨hcomma.2.1, safe_no_quote _ hsk⟩ ⟨hcomma.2.2.1, hsq⟩ ⟨hcomma.2.2.2, safe_no_quote _ hsd⟩
  have hmeth : (if f.method.isEmpty then bz!"GET" else f.method) = f.method := by
    have : f.method.isEmpty = false := by simpa using hm
    simp [this]
  subst hr
  rw [hmeth]
  obtain ⟨content, destination, method, origin, uri, signatures⟩ := f
  simp only [fieldsUTF8, Bool.and_eq_true] at hu8
  obtain ⟨⟨⟨hud, hum⟩, huo⟩, huu⟩ := hu8
  simp only at hsigs hm hc hcomma hne hparse hud hum huo huu ⊢
  subst hsigs
  have ho : origin.isEmpty = false := by simpa using hne.1
  have hk : kid.isEmpty = false := by simpa using hne.2.1
  have hs : sig.isEmpty = false := by simpa using hne.2.2
  cases content with
  | none =>
    simp [readHTTPRequest, readAuth, hparse, ho, hk, hs, setSig, hud, hum, huo, huu]
  | some c =>
    obtain ⟨hcne, hcu⟩ := hc c rfl
    have hlen : (c.length != 0) = true := by
      simp only [bne_iff_ne, ne_eq, List.length_eq_zero_iff]; exact hcne
    simp [readHTTPRequest, readAuth, hparse, ho, hk, hs, setSig, hlen, hcu, hud, hum, huo, huu]

end V.FedReq

namespace V.FedReq
open V.Json

/-- a request that reads back as `f` and passes every check is accepted and reported as `f` -/
theorem verify_of_read (req : HttpReq) (now : Millis) (destination : Str) (isLocal : Option (Str → Bool)) (V : Verifier)
    (f : Fields) (cv : Option JVal)
    (hread : readHTTPRequest req = .ok f)
    (hdne : f.destination ≠ [])
    (hown : match isLocal with
      | some loc => loc f.destination = true
      | none => destination = f.destination)
    (hmar : marshalable f = true)
    (hcv : contentValue f.content = some cv)
    (hone : f.origin ≠ [])
    (hvalid : validServerName f.origin = true)
    (hacc : V f.origin now (signingObject cv f.destination f.method f.origin f.uri) f.signatures = .accepted) :
    verifyHTTPRequest req now destination isLocal V = .ok f := by
  unfold verifyHTTPRequest
  rw [hread]
  have hde : f.destination.isEmpty = false := by simpa using hdne
  have hoe : f.origin.isEmpty = false := by simpa using hone
  simp only [hde, Bool.not_false, ↓reduceIte]
  cases isLocal with
  | some loc =>
    simp only at hown
    simp [hown, hmar, hcv, hoe, hvalid, hacc]
  | none =>
    simp only at hown
    simp [hown, hmar, hcv, hoe, hvalid, hacc]

/-- what Sign leaves in the fields -/
theorem sign_shape (f0 f : Fields) (sn kid : Str) (mk : JVal → Str) (h : sign f0 sn kid mk = .ok f) :
    f.origin = sn ∧ f.destination = f0.destination ∧ f.method = f0.method ∧ f.uri = f0.uri ∧
    marshalable { f0 with origin := sn } = true ∧ utf8Valid kid = true ∧
    ∃ cv0, contentValue f0.content = some cv0 ∧
      f.signatures = setSig f0.signatures kid (mk (signingObject cv0 f0.destination f0.method sn f0.uri)) ∧
      ((f0.content = none ∨ f0.content = some []) → f.content = none) ∧
      (∀ raw, f0.content = some raw → raw ≠ [] → ∃ c, canonical raw = .ok c ∧ f.content = some c) ∧
      contentSignStrict f0.content = true := by
  unfold sign at h
  split at h
  · simp at h
  · simp only [] at h
    split at h
    · simp at h
    split at h
    · simp at h
    · rename_i hmar
      have hmar' : marshalable { f0 with origin := sn } = true := by
        simp only [Bool.or_eq_true, Bool.not_eq_true', not_or, Bool.not_eq_false] at hmar
        exact hmar.1
      have hkidv : utf8Valid kid = true := by
        simp only [Bool.or_eq_true, Bool.not_eq_true', not_or, Bool.not_eq_false] at hmar
        exact hmar.2
      cases hcv : contentValue f0.content with
      | none => simp [hcv] at h
      | some cv0 =>
        simp only [hcv] at h
        have hstrict : contentSignStrict f0.content = true := by
          cases hb : contentSignStrict f0.content with
          | true => rfl
          | false => simp [hb] at h
        simp only [hstrict, Bool.not_true, Bool.false_eq_true, ↓reduceIte] at h
        cases hc : f0.content with
        | none =>
          simp only [hc, Except.ok.injEq] at h
          subst h
          refine ⟨rfl, rfl, rfl, rfl, hmar', hkidv, cv0, ?_, rfl, fun _ => rfl, ?_, rfl⟩
          · rfl
          · intro raw hr; cases hr
        | some raw =>
          simp only [hc] at h
          by_cases hre : raw.isEmpty = true
          · simp only [hre, ↓reduceIte, Except.ok.injEq] at h
            subst h
            have hnil : raw = [] := by simpa using hre
            refine ⟨rfl, rfl, rfl, rfl, hmar', hkidv, cv0, ?_, rfl, fun _ => rfl, ?_, hc ▸ hstrict⟩
            · rfl
            · intro r hr hne
              simp only [Option.some.injEq] at hr
              subst hr
              exact absurd hnil hne
          · have hre' : raw.isEmpty = false := by simpa using hre
            simp only [hre', Bool.false_eq_true, ↓reduceIte] at h
            cases hcan : canonical raw with
            | error e => simp [hcan] at h
            | ok c =>
              simp only [hcan, Except.ok.injEq] at h
              subst h
              refine ⟨rfl, rfl, rfl, rfl, hmar', hkidv, cv0, ?_, rfl, ?_, ?_, hc ▸ hstrict⟩
              · rfl
              · intro hor
                rcases hor with h1 | h1
                · cases h1
                · simp only [Option.some.injEq] at h1; subst h1; simp at hre'
              · intro r hr _
                simp only [Option.some.injEq] at hr; subst hr
                exact ⟨c, hcan, rfl⟩

/-- … and Sign refuses fields that are not valid UTF-8 -/
theorem sign_fieldsUTF8 (f0 f : Fields) (sn kid : Str) (mk : JVal → Str) (h : sign f0 sn kid mk = .ok f) :
    fieldsUTF8 { f0 with origin := sn } = true := by
  unfold sign at h
  split at h
  · simp at h
  · simp only [] at h
    cases hb : fieldsUTF8 { f0 with origin := sn } with
    | true => rfl
    | false => simp [hb] at h

end V.FedReq

namespace V.FedReq
open V.Json

/-- contents equal up to member order give signing objects equal up to member order -/
theorem signingObject_sorted_congr (c c' : Option JVal) (d m o u : Bytes) (h : c.map JVal.sorted = c'.map JVal.sorted) :
    (signingObject c d m o u).sorted = (signingObject c' d m o u).sorted := by
  cases c with
  | none =>
    cases c' with
    | none => rfl
    | some y => simp at h
  | some x =>
    cases c' with
    | none => simp at h
    | some y =>
      simp only [Option.map_some, Option.some.injEq] at h
      rw [sorted_signingObject_some, sorted_signingObject_some, h]

theorem parse_nil : parse [] = none := by decide

end V.FedReq
