/- C13, round 3: the gate of SignJSON / VerifyJSON (signing.go: checkStrictJSON) on the request body.

   * what Sign stores as the body — the canonical JSON of a body that passed the gate — passes the gate again
     (`canonical_strict`): the receiver's VerifyJSON does not refuse what the sender's SignJSON accepted;
   * a body the gate refuses is never accepted by a key-ring verifier (`gated_never_accepts`).

   Core Lean + the C01 proof base (no event files). -/
import VModel.FedReq
import VProofs.FedReq
import VProofs.JsonUtf8
namespace V.FedReq
open V.Json List

/-! ### the canonical spelling of a string has no surrogate escape at all -/

theorem surrogatesPaired_byte (c : UInt8) (r : Bytes) (h : (c == 0x5C) = false) :
    surrogatesPaired (c :: r) = surrogatesPaired r := by
  rw [surrogatesPaired_cons]; simp [h]

theorem surrogatesPaired_esc (e : UInt8) (r : Bytes) (h : (e == 0x75) = false) :
    surrogatesPaired (0x5C :: e :: r) = surrogatesPaired r := by
  rw [surrogatesPaired_cons]; simp [h]

theorem surrogatesPaired_u (a b c d : UInt8) (r : Bytes) (h : isSurrogate (hex4 a b c d) = false) :
    surrogatesPaired (0x5C :: 0x75 :: a :: b :: c :: d :: r) = surrogatesPaired r := by
  rw [surrogatesPaired_cons]
  simp only [beq_self_eq_true, ↓reduceIte]
  simp only [isSurrogate, Bool.and_eq_false_iff, decide_eq_false_iff_not] at h
  have h1 : (decide (0xD800 ≤ hex4 a b c d) && decide (hex4 a b c d < 0xDC00)) = false := by
    rcases h with h | h
    · simp [h]
    · have : ¬ hex4 a b c d < 0xDC00 := by omega
      simp [this]
  have h2 : (decide (0xDC00 ≤ hex4 a b c d) && decide (hex4 a b c d < 0xE000)) = false := by
    rcases h with h | h
    · have : ¬ 0xDC00 ≤ hex4 a b c d := by omega
      simp [this]
    · simp [h]
  simp only [h1, h2, Bool.false_eq_true, ↓reduceIte]

theorem surrogatesPaired_esb : ∀ d : Bytes, surrogatesPaired (encodeStringBody d) = true
  | [] => rfl
  | c :: d => by
    have ih := surrogatesPaired_esb d
    rw [esb_cons]
    by_cases h1 : c = 0x22
    · subst h1; exact (surrogatesPaired_esc _ _ (by decide)).trans ih
    by_cases h2 : c = 0x5C
    · subst h2; exact (surrogatesPaired_esc _ _ (by decide)).trans ih
    by_cases h3 : c = 0x08
    · subst h3; exact (surrogatesPaired_esc _ _ (by decide)).trans ih
    by_cases h4 : c = 0x09
    · subst h4; exact (surrogatesPaired_esc _ _ (by decide)).trans ih
    by_cases h5 : c = 0x0A
    · subst h5; exact (surrogatesPaired_esc _ _ (by decide)).trans ih
    by_cases h6 : c = 0x0C
    · subst h6; exact (surrogatesPaired_esc _ _ (by decide)).trans ih
    by_cases h7 : c = 0x0D
    · subst h7; exact (surrogatesPaired_esc _ _ (by decide)).trans ih
    by_cases h8 : c < 0x20
    · have : encodeStringBody [c] =
          [0x5C, 0x75, 0x30, 0x30, UInt8.ofNat (0x30 + c.toNat / 16), hexDigitLower (c.toNat % 16)] := by
        simp [encodeStringBody, h1, h2, h3, h4, h5, h6, h7, h8]
      rw [this]
      have hn : c.toNat < 0x20 := by simpa using UInt8.lt_iff_toNat_lt.mp h8
      obtain ⟨_, _, t3, _, t5⟩ := ctrl_table c.toNat hn
      exact (surrogatesPaired_u _ _ _ _ _ (by rw [t3]; exact t5)).trans ih
    · have hp : plainByte c = true := by simp [plainByte, h1, h2, h8]
      have : encodeStringBody [c] = [c] := esb_plain [c] (by simpa using hp)
      rw [this]
      exact (surrogatesPaired_byte c _ (by simpa using h2)).trans ih

/-! ### `ofJVal` (what the parser returns on canonical bytes) is well formed and keeps key distinctness -/

mutual
theorem ofJVal_wellFormed : (v : JVal) → v.utf8Ok = true → (ofJVal v).wellFormed = true
  | .null, _ => rfl
  | .bool _, _ => rfl
  | .num _, _ => rfl
  | .str s, h => by
    simp only [JVal.utf8Ok] at h
    simp only [ofJVal, PVal.wellFormed, rawStringWellFormed, utf8Valid_esb h, surrogatesPaired_esb, Bool.and_self]
  | .arr xs, h => by
    simp only [JVal.utf8Ok] at h
    simp only [ofJVal, PVal.wellFormed, ofJVals_wellFormed xs h]
  | .obj kvs, h => by
    simp only [JVal.utf8Ok] at h
    simp only [ofJVal, PVal.wellFormed, ofJMembers_wellFormed kvs h]
theorem ofJVals_wellFormed : (xs : List JVal) → utf8OkList xs = true → wellFormedList (ofJVals xs) = true
  | [], _ => rfl
  | x :: xs, h => by
    simp only [utf8OkList, Bool.and_eq_true] at h
    simp only [ofJVals, wellFormedList, ofJVal_wellFormed x h.1, ofJVals_wellFormed xs h.2, Bool.and_self]
theorem ofJMembers_wellFormed : (kvs : List (Bytes × JVal)) → utf8OkMembers kvs = true → wellFormedMembers (ofJMembers kvs) = true
  | [], _ => rfl
  | (k, v) :: kvs, h => by
    simp only [utf8OkMembers, Bool.and_eq_true] at h
    simp only [ofJMembers, wellFormedMembers, rawStringWellFormed, utf8Valid_esb h.1.1, surrogatesPaired_esb,
      ofJVal_wellFormed v h.1.2, ofJMembers_wellFormed kvs h.2, Bool.and_self]
end

theorem noDupIn_iff (ks : List Bytes) : noDupIn ks = true ↔ ks.Nodup := by
  induction ks with
  | nil => simp [noDupIn]
  | cons k ks ih =>
    simp only [noDupIn, Bool.and_eq_true, Bool.not_eq_true', List.contains_eq_mem, decide_eq_false_iff_not, ih,
      List.nodup_cons]

theorem jNoDupMembers_all : ∀ l : List (Bytes × JVal), jNoDupMembers l = l.all (fun kv => kv.2.noDupKeys)
  | [] => rfl
  | (k, v) :: l => by simp [jNoDupMembers, jNoDupMembers_all l]

theorem all_of_perm {α : Type} (p : α → Bool) {l₁ l₂ : List α} (h : l₁ ~ l₂) : l₁.all p = l₂.all p := by
  induction h with
  | nil => rfl
  | cons x _ ih => simp [ih]
  | swap x y l => simp [Bool.and_left_comm]
  | trans _ _ ih1 ih2 => rw [ih1, ih2]

mutual
theorem noDupKeys_sorted : (v : JVal) → v.noDupKeys = true → v.sorted.noDupKeys = true
  | .null, _ => rfl
  | .bool _, _ => rfl
  | .num _, _ => rfl
  | .str _, _ => rfl
  | .arr xs, h => by
    simp only [JVal.noDupKeys] at h
    simp only [JVal.sorted, JVal.noDupKeys, noDupKeys_sortedList xs h]
  | .obj kvs, h => by
    simp only [JVal.noDupKeys, Bool.and_eq_true] at h
    simp only [JVal.sorted, JVal.noDupKeys, Bool.and_eq_true]
    constructor
    · rw [noDupIn_iff]
      have hp : (sortByKey (sortedMembers kvs)).map (·.1) ~ kvs.map (·.1) := by
        rw [← sortedMembers_keys' kvs]; exact (sortByKey_perm (sortedMembers kvs)).map _
      exact hp.nodup_iff.mpr ((noDupIn_iff _).mp h.1)
    · rw [jNoDupMembers_all, all_of_perm _ (sortByKey_perm _), ← jNoDupMembers_all]
      exact noDupKeys_sortedMembers kvs h.2
theorem noDupKeys_sortedList : (xs : List JVal) → jNoDupList xs = true → jNoDupList (sortedList xs) = true
  | [], _ => rfl
  | x :: xs, h => by
    simp only [jNoDupList, Bool.and_eq_true] at h
    simp only [sortedList, jNoDupList, noDupKeys_sorted x h.1, noDupKeys_sortedList xs h.2, Bool.and_self]
theorem noDupKeys_sortedMembers : (kvs : List (Bytes × JVal)) → jNoDupMembers kvs = true → jNoDupMembers (sortedMembers kvs) = true
  | [], _ => rfl
  | (k, v) :: kvs, h => by
    simp only [jNoDupMembers, Bool.and_eq_true] at h
    simp only [sortedMembers, jNoDupMembers, noDupKeys_sorted v h.1, noDupKeys_sortedMembers kvs h.2, Bool.and_self]
end

theorem ofJMembers_keys : ∀ kvs : List (Bytes × JVal), (ofJMembers kvs).map (·.2.1) = kvs.map (·.1)
  | [] => rfl
  | (k, v) :: kvs => by simp only [ofJMembers, List.map_cons, ofJMembers_keys kvs]

mutual
theorem ofJVal_noDupKeys : (v : JVal) → (ofJVal v).noDupKeys = v.noDupKeys
  | .null => rfl
  | .bool _ => rfl
  | .num _ => rfl
  | .str _ => rfl
  | .arr xs => by simp only [ofJVal, PVal.noDupKeys, JVal.noDupKeys, ofJVals_noDupKeys xs]
  | .obj kvs => by simp only [ofJVal, PVal.noDupKeys, JVal.noDupKeys, ofJMembers_keys, ofJMembers_noDupKeys kvs]
theorem ofJVals_noDupKeys : (xs : List JVal) → noDupKeysList (ofJVals xs) = jNoDupList xs
  | [] => rfl
  | x :: xs => by simp only [ofJVals, noDupKeysList, jNoDupList, ofJVal_noDupKeys x, ofJVals_noDupKeys xs]
theorem ofJMembers_noDupKeys : (kvs : List (Bytes × JVal)) → noDupKeysMembers (ofJMembers kvs) = jNoDupMembers kvs
  | [] => rfl
  | (k, v) :: kvs => by
    simp only [ofJMembers, noDupKeysMembers, jNoDupMembers, ofJVal_noDupKeys v, ofJMembers_noDupKeys kvs]
end

/-! ### the gate -/

theorem contentStrict_some {raw : Bytes} (hne : raw ≠ []) :
    contentStrict (some raw) = true ↔ ∃ p, parse raw = some p ∧ p.wellFormed = true ∧ p.noDupKeys = true := by
  have he : raw.isEmpty = false := by simpa using hne
  simp only [contentStrict, he, Bool.false_eq_true, ↓reduceIte]
  cases hp : parse raw with
  | none => simp
  | some p => simp

theorem contentSignStrict_some {raw : Bytes} (hne : raw ≠ []) :
    contentSignStrict (some raw) = true ↔ ∃ p, parse raw = some p ∧ V.Sign.pairedOk p = true ∧ p.noDupKeys = true := by
  have he : raw.isEmpty = false := by simpa using hne
  simp only [contentSignStrict, he, Bool.false_eq_true, ↓reduceIte]
  cases hp : parse raw with
  | none => simp
  | some p => simp

mutual
/-- paired surrogate escapes: in particular no lone one (what C01's `canonical = encodeCanon ∘ parse` needs) -/
theorem surrogatesOk_of_paired : (p : PVal) → V.Sign.pairedOk p = true → p.surrogatesOk = true
  | .null, _ => rfl
  | .bool _, _ => rfl
  | .num _, _ => rfl
  | .str raw _, h => by
    simp only [V.Sign.pairedOk] at h
    simp only [PVal.surrogatesOk]
    exact noLoneSurr_of_surrogatesPaired _ raw (Nat.le_refl _) h
  | .arr xs, h => by
    simp only [V.Sign.pairedOk] at h
    simp only [PVal.surrogatesOk, surrogatesOkList_of_paired xs h]
  | .obj kvs, h => by
    simp only [V.Sign.pairedOk] at h
    simp only [PVal.surrogatesOk, surrogatesOkMembers_of_paired kvs h]
theorem surrogatesOkList_of_paired : (xs : List PVal) → V.Sign.pairedOkList xs = true → surrogatesOkList xs = true
  | [], _ => rfl
  | x :: xs, h => by
    simp only [V.Sign.pairedOkList, Bool.and_eq_true] at h
    simp only [surrogatesOkList, surrogatesOk_of_paired x h.1, surrogatesOkList_of_paired xs h.2, Bool.and_self]
theorem surrogatesOkMembers_of_paired : (kvs : List (Bytes × Bytes × PVal)) → V.Sign.pairedOkMembers kvs = true →
    surrogatesOkMembers kvs = true
  | [], _ => rfl
  | (raw, _, v) :: kvs, h => by
    simp only [V.Sign.pairedOkMembers, Bool.and_eq_true] at h
    simp only [surrogatesOkMembers, noLoneSurr_of_surrogatesPaired _ raw (Nat.le_refl _) h.1.1,
      surrogatesOk_of_paired v h.1.2, surrogatesOkMembers_of_paired kvs h.2, Bool.and_self]
end

/-- **What Sign stores passes the receiver's gate.**  The canonical JSON of a body that is valid UTF-8 and has no
    duplicate member names parses to a value whose strings are well formed (canonical spelling: valid UTF-8, no
    surrogate escape) and whose member names are still distinct. -/
theorem canonical_strict {raw : Bytes} {p : PVal} (hp : parse raw = some p) (hu : utf8Valid raw = true)
    (hd : p.noDupKeys = true) : contentStrict (some (encodeCanon p.toJVal)) = true := by
  obtain ⟨hp', _⟩ := parse_encodeCanon p.toJVal (parse_numsOk hp)
  have hne : encodeCanon p.toJVal ≠ [] := by
    intro e; rw [e, parse_nil] at hp'; cases hp'
  rw [contentStrict_some hne]
  refine ⟨_, hp', ofJVal_wellFormed _ (utf8Ok_sorted _ (parse_utf8Ok hp hu)), ?_⟩
  rw [ofJVal_noDupKeys]
  exact noDupKeys_sorted _ ((noDupKeys_toJVal p).trans hd)

/-- A body the gate refuses is never accepted by the key ring: VerifyJSON fails for every key. -/
theorem gated_never_accepts (body : Bytes) (h : contentStrict (some body) = false)
    (table : List KeyEntry) (dbError : Bool) (wc : Nat) (sigOK : Nat → JVal → Str → Bool)
    (origin : Str) (ts : Nat) (obj : JVal) (sigs : List (Str × Str)) :
    keyRingVerifier table dbError wc (gatedCheck body sigOK) origin ts obj sigs ≠ .accepted := by
  intro hacc
  obtain ⟨_, kv, _, _, k, _, _, _, _, hc⟩ := (keyRing_accepted_iff table dbError wc _ origin ts obj sigs).mp hacc
  simp [gatedCheck, h] at hc

/-- For a body the gate lets through, the gated key ring is the plain one. -/
theorem gated_of_strict (body : Bytes) (h : contentStrict (some body) = true) (sigOK : Nat → JVal → Str → Bool) :
    gatedCheck body sigOK = sigOK := by
  funext pk obj sig
  simp [gatedCheck, h]

/-! ### fields that are not valid UTF-8 (K5) -/

/-- a successful pass over the Authorization headers: every X-Matrix header names an origin and a destination
    that are valid UTF-8 -/
theorem readAuth_utf8 (hs : List Str) (f f' : Fields) (h : readAuth hs f = .ok f') :
    ∀ a ∈ xMatrixAuths hs, utf8Valid a.origin = true ∧ utf8Valid a.destination = true := by
  induction hs generalizing f with
  | nil => intro a ha; simp [xMatrixAuths] at ha
  | cons hd rest ih =>
    unfold readAuth at h
    by_cases hsch : (parseAuthorization hd).scheme = xMatrix
    · have hsch' : ((parseAuthorization hd).scheme != xMatrix) = false := by simp [hsch]
      simp only [hsch', Bool.false_eq_true, ↓reduceIte] at h
      split at h
      · simp at h
      · split at h
        · simp at h
        · have hu8 : (utf8Valid (parseAuthorization hd).origin && utf8Valid (parseAuthorization hd).destination) = true := by
            cases hb : (utf8Valid (parseAuthorization hd).origin && utf8Valid (parseAuthorization hd).destination) with
            | true => rfl
            | false => simp [hb] at h
          simp only [hu8, Bool.not_true, Bool.false_eq_true, ↓reduceIte] at h
          have hx : xMatrixAuths (hd :: rest) = parseAuthorization hd :: xMatrixAuths rest := by
            simp [xMatrixAuths, hsch]
          intro a ha
          rw [hx] at ha
          rcases List.mem_cons.mp ha with rfl | ha'
          · simpa using hu8
          · exact ih _ h a ha'
    · have hsch' : ((parseAuthorization hd).scheme != xMatrix) = true := by simp [hsch]
      simp only [hsch', ↓reduceIte] at h
      have hx : xMatrixAuths (hd :: rest) = xMatrixAuths rest := by simp [xMatrixAuths, hsch]
      rw [hx]
      exact ih _ h

/-- what readHTTPRequest lets through has a method, a request URI and X-Matrix origins / destinations that are valid UTF-8 -/
theorem readHTTPRequest_utf8 (req : HttpReq) (f : Fields) (h : readHTTPRequest req = .ok f) :
    utf8Valid req.method = true ∧ utf8Valid req.requestURI = true ∧
    ∀ a ∈ xMatrixAuths req.authorization, utf8Valid a.origin = true ∧ utf8Valid a.destination = true := by
  unfold readHTTPRequest at h
  have hfu : (utf8Valid req.method && utf8Valid req.requestURI) = true := by
    cases hb : (utf8Valid req.method && utf8Valid req.requestURI) with
    | true => rfl
    | false => simp [hb] at h
  simp only [hfu, Bool.not_true, Bool.false_eq_true, ↓reduceIte] at h
  have hfu' : utf8Valid req.method = true ∧ utf8Valid req.requestURI = true := by simpa using hfu
  refine ⟨hfu'.1, hfu'.2, ?_⟩
  by_cases hb : req.body = []
  · have hlen : (req.body.length != 0) = false := by simp [hb]
    simp only [hlen, Bool.false_eq_true, ↓reduceIte] at h
    exact readAuth_utf8 _ _ _ h
  · have hlen : (req.body.length != 0) = true := by
      simp only [bne_iff_ne, ne_eq, List.length_eq_zero_iff]; exact hb
    simp only [hlen, ↓reduceIte] at h
    cases hm : req.mediaType with
    | none => simp [hm] at h
    | some t =>
      simp only [hm] at h
      by_cases ht : t = applicationJSON
      · subst ht
        simp only [bne_self_eq_false, Bool.false_eq_true, ↓reduceIte] at h
        by_cases hu : utf8Valid req.body = true
        · simp only [hu, Bool.not_true, Bool.false_eq_true, ↓reduceIte] at h
          exact readAuth_utf8 _ _ _ h
        · have hu' : utf8Valid req.body = false := by simpa using hu
          simp [hu'] at h
      · have ht' : (t != applicationJSON) = true := by simpa using ht
        simp [ht'] at h

theorem verify_ok_read (req : HttpReq) (now : Millis) (destination : Str) (isLocal : Option (Str → Bool))
    (V : Verifier) (r : Fields) (h : verifyHTTPRequest req now destination isLocal V = .ok r) :
    ∃ f, readHTTPRequest req = .ok f := by
  unfold verifyHTTPRequest at h
  cases hr : readHTTPRequest req with
  | error e => simp [hr] at h
  | ok f => exact ⟨f, rfl⟩

theorem verifyWithKeyRing_of_strict (req : HttpReq) (now : Millis) (destination : Str) (isLocal : Option (Str → Bool))
    (table : List KeyEntry) (dbError : Bool) (wc : Nat) (sigOK : Nat → JVal → Str → Bool)
    (h : contentStrict (some req.body) = true) :
    verifyWithKeyRing req now destination isLocal table dbError wc sigOK =
      verifyHTTPRequest req now destination isLocal (keyRingVerifier table dbError wc sigOK) := by
  unfold verifyWithKeyRing
  rw [gated_of_strict _ h]

end V.FedReq
