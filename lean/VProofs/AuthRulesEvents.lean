/-
  VProofs.AuthRulesEvents — C07: the model decides what the rules decide for every event class other than
  m.room.member (create, aliases, rules 6–9, power levels, redactions).
-/
import VProofs.AuthRulesBase
namespace V.AuthRules
open V V.Json V.GoJson V.Auth

theorem default_eq (c : Ctx) (p : Provider) (hf : Fresh p c) (e : Event)
    (hs : (parseUserID? e.sender).isSome) (hr : e.roomID ≠ []) (hm : isUnmodelled (memberFromProvider p e.sender) = false) :
    accepts (c.defaultEventAllowed e) = some (ruleCommon lib c p e) := by
  unfold Ctx.defaultEventAllowed ruleCommon
  rw [hf.provider]
  rcases memberFromProvider_cases p e.sender hm with ⟨sm, h⟩ | h
  · rw [h, membershipOf_ok h, ok_bind, commonChecks_eq c p hf e sm hs hr]
    unfold commonFormula
    cases userOf e.sender with
    | none => rfl
    | some u => rfl
  · rw [h, membershipOf_na h]
    cases userOf e.sender <;> simp

/-- `defaultEventAllowed` is the prefix of the redaction and power-levels checks -/
theorem default_prefix (c : Ctx) (e : Event) (k : Unit → R Unit) :
    (do let member ← memberFromProvider c.provider e.sender; c.commonChecks member e; k ()) = (c.defaultEventAllowed e >>= k) := by
  unfold Ctx.defaultEventAllowed
  cases memberFromProvider c.provider e.sender <;> rfl

theorem common_createPresent {d c p e} (h : ruleCommon d c p e = true) : c.createEvent.isSome = true := by
  unfold ruleCommon at h
  split at h
  · simp only [Bool.and_eq_true, ruleCreatePresent] at h
    exact h.1.1.1.1.1
  · cases h

theorem redaction_eq (c : Ctx) (p : Provider) (hf : Fresh p c) (e : Event)
    (hs : (parseUserID? e.sender).isSome) (hr : e.roomID ≠ []) (hm : isUnmodelled (memberFromProvider p e.sender) = false) :
    accepts (c.redactEventAllowed e) = some (ruleRedaction lib c p e) := by
  have hpre : c.redactEventAllowed e = (c.defaultEventAllowed e >>= fun _ =>
      (match c.create.roomVersion with
       | some v => if (v != [49] && v != [50]) = true then pure () else
          (match domainFromID e.redacts with
            | none => notAllowed
            | some redactDomain => do
              let sender ← resolveUser e.sender
              if (sender.domain == redactDomain) = true then pure ()
                else do
                  let senderLevel ← c.userPowerLevel e.sender
                  if senderLevel ≥ c.pl.redact then pure () else notAllowed)
       | none => (match domainFromID e.redacts with
            | none => notAllowed
            | some redactDomain => do
              let sender ← resolveUser e.sender
              if (sender.domain == redactDomain) = true then pure ()
                else do
                  let senderLevel ← c.userPowerLevel e.sender
                  if senderLevel ≥ c.pl.redact then pure () else notAllowed))) := by
    unfold Ctx.redactEventAllowed Ctx.defaultEventAllowed
    cases memberFromProvider c.provider e.sender <;> rfl
  rw [hpre, accepts_bind (default_eq c p hf e hs hr hm)]
  unfold ruleRedaction
  cases hrc : ruleCommon lib c p e with
  | false => simp
  | true =>
    have hce := common_createPresent hrc
    have hd5 : lib.d5_redactionByCreateContent = true := rfl
    have hu4 : lib.d17_redactsNeedsDomain = true := rfl
    simp only [if_true, Bool.true_and, hd5, hu4, Bool.not_true, Bool.false_and, resolveUser, userOf]
    cases hp : parseUserID? e.sender with
    | none => simp [hp] at hs
    | some o =>
      cases o with
      | none =>
        simp only [Option.join, Option.bind_some, id, failErr_bind]
        repeat' split
        all_goals simp_all
      | some u =>
        simp only [Option.join, Option.bind_some, id, ok_bind, userPowerLevel_eq c _ hce]
        repeat' split
        all_goals simp_all

/-! ### rule 10 -/

theorem pl_prefix (c : Ctx) (e : Event) :
    c.powerLevelsEventAllowed e = (c.defaultEventAllowed e >>= fun _ => do
      let newPL ← powerLevelsFromEvent e
      if (newPL.users.any fun kv => (parseUserID? kv.fst).isNone) = true then .error (.unmodelled "IPv6 literal in users key")
      else if (newPL.users.any fun kv => parseUserID? kv.fst == some none) = true then failErr
      else do
        let senderLevel ← c.userPowerLevel e.sender
        if (!checkEventLevels senderLevel c.pl newPL) = true then notAllowed
        else do
          c.checkPowerLevelEvent e c.pl newPL
          if (!checkUserLevels senderLevel e.sender c.pl newPL) = true then notAllowed else pure ()) := by
  unfold Ctx.powerLevelsEventAllowed Ctx.defaultEventAllowed
  cases memberFromProvider c.provider e.sender with
  | error v => rfl
  | ok m =>
    simp only [ok_bind]
    cases c.commonChecks m e with
    | error v => rfl
    | ok u =>
      simp only [ok_bind]
      cases powerLevelsFromEvent e with
      | error v => rfl
      | ok pl =>
        simp only [ok_bind]
        split
        · rfl
        · split
          · rfl
          · cases c.userPowerLevel e.sender with
            | error v => rfl
            | ok L =>
              simp only [ok_bind]
              split <;> rfl

theorem userKeys_list (l : List (Bytes × Int)) (h : l.all (fun kv => (parseUserID? kv.1).isSome) = true) :
    l.all (fun kv => match (parseUserID? kv.1).join with
      | some u => lib.d8_looseUserKeys || strictLocalpart u.localpart
      | none => false) = !(l.any fun kv => parseUserID? kv.fst == some none) := by
  have hd : lib.d8_looseUserKeys = true := rfl
  induction l with
  | nil => rfl
  | cons kv t ih =>
    simp only [List.all_cons, Bool.and_eq_true] at h
    simp only [List.all_cons, List.any_cons, Bool.not_or, ih h.2]
    congr 1
    cases hp : parseUserID? kv.1 with
    | none => simp [hp] at h
    | some o => cases o <;> simp [hd]

theorem userKeys_eq (new : PowerLevels) (h : new.users.all (fun kv => (parseUserID? kv.1).isSome) = true) :
    userKeysValid lib new = !(new.users.any fun kv => parseUserID? kv.fst == some none) := by
  unfold userKeysValid userOf
  exact userKeys_list new.users h

theorem parsePowerLevels_error {cnt d v} (h : parsePowerLevels cnt d = .error v) :
    v = .notAllowed ∨ ∃ w, v = .unmodelled w := by
  unfold parsePowerLevels at h
  split at h
  · cases h; exact Or.inl rfl
  · cases h
  · simp only at h
    split at h
    · cases h; exact Or.inl rfl
    · split at h
      · cases h; exact Or.inr ⟨_, rfl⟩
      · cases h
  · cases h; exact Or.inl rfl

theorem powerLevelsFromEvent_error {e v} (h : powerLevelsFromEvent e = .error v) :
    v = .notAllowed ∨ v = .err ∨ ∃ w, v = .unmodelled w := by
  unfold powerLevelsFromEvent at h
  split at h
  · cases h; exact Or.inr (Or.inl rfl)
  · split at h
    · split at h
      · cases h
      · cases h; exact Or.inl rfl
    · split at h
      · rcases parsePowerLevels_error h with h | h
        · exact Or.inl h
        · exact Or.inr (Or.inr h)
      · cases h; exact Or.inr (Or.inr ⟨_, rfl⟩)

/-- **`powerLevelsErr` is set exactly when the rules cannot read the power-levels auth event**, and then holds an
    ordinary error -/
theorem plErr_spec {p : Provider} {c : Ctx} (hf : Fresh p c) :
    c.plErr.isSome = plUnusable lib p ∧ ∀ v, c.plErr = some v → v = .notAllowed ∨ v = .err := by
  have h1 := hf.plInfo
  rw [hf.plErr]
  unfold plErrOf plUnusable
  unfold Auth.plInfo at h1
  cases hp : p.powerLevels with
  | none => exact ⟨rfl, fun v hv => by cases hv⟩
  | some ev =>
    rw [hp] at h1
    simp only at h1 ⊢
    unfold plAuthEventUnusable
    cases hpl : powerLevelsFromEvent ev with
    | ok pl =>
      refine ⟨?_, fun v hv => by cases hv⟩
      cases hrow : ev.row with
      | none =>
        unfold powerLevelsFromEvent at hpl
        rw [hrow] at hpl
        cases hpl
      | some row =>
        obtain ⟨sv, hsv, hri⟩ := rowIs_of (ver := ev.ver) (row := row) hrow
        rw [hsv]
        simp only [newPowerLevels_eq hrow hri, hpl, Option.isSome_none, Option.isNone_some]
    | error v =>
      rw [hpl] at h1
      rcases powerLevelsFromEvent_error hpl with rfl | rfl | ⟨w, rfl⟩
      · refine ⟨?_, fun v hv => by cases hv; exact Or.inl rfl⟩
        cases hrow : ev.row with
        | none => rw [row_none_spec (ver := ev.ver) hrow]; rfl
        | some row =>
          obtain ⟨sv, hsv, hri⟩ := rowIs_of (ver := ev.ver) (row := row) hrow
          rw [hsv]
          simp only [newPowerLevels_eq hrow hri, hpl, Option.isSome_some, Option.isNone_none]
      · refine ⟨?_, fun v hv => by cases hv; exact Or.inr rfl⟩
        cases hrow : ev.row with
        | none => rw [row_none_spec (ver := ev.ver) hrow]; rfl
        | some row =>
          obtain ⟨sv, hsv, hri⟩ := rowIs_of (ver := ev.ver) (row := row) hrow
          rw [hsv]
          simp only [newPowerLevels_eq hrow hri, hpl, Option.isSome_some, Option.isNone_none]
      · simp at h1

theorem power_levels_eq (c : Ctx) (p : Provider) (hf : Fresh p c) (he : c.plErr = none) (e : Event) (row : VGen.VersionRow)
    (sv : SpecVersion) (hrow : e.row = some row) (hri : RowIs row sv)
    (hs : (parseUserID? e.sender).isSome) (hr : e.roomID ≠ []) (hm : isUnmodelled (memberFromProvider p e.sender) = false)
    (hpl : (match powerLevelsFromEvent e with
            | .ok pl => pl.users.all (fun kv => (parseUserID? kv.1).isSome)
            | .error v => !isUnmodelled (.error v : R Unit)) = true) :
    accepts (c.powerLevelsEventAllowed e) = some (rulePowerLevels lib c p sv e) := by
  rw [pl_prefix, accepts_bind (default_eq c p hf e hs hr hm)]
  unfold rulePowerLevels
  rw [newPowerLevels_eq hrow hri]
  cases hrc : ruleCommon lib c p e with
  | false => simp
  | true =>
    have hce := common_createPresent hrc
    have hd3 : lib.d3_effectiveValues = true := rfl
    have hd4 : lib.d4_eventEntryDefault = true := rfl
    simp only [if_true, Bool.true_and]
    cases hnew : powerLevelsFromEvent e with
    | error v =>
      rw [hnew] at hpl
      rcases powerLevelsFromEvent_error hnew with rfl | rfl | ⟨w, rfl⟩
      · simp
      · simp
      · simp [isUnmodelled] at hpl
    | ok new =>
      rw [hnew] at hpl
      simp only at hpl
      have hnone : (new.users.any fun kv => (parseUserID? kv.fst).isNone) = false := by
        rw [Bool.eq_false_iff]
        intro hany
        obtain ⟨kv, hkv, hk⟩ := List.any_eq_true.mp hany
        have := List.all_eq_true.mp hpl kv hkv
        cases hq : parseUserID? kv.1 <;> simp_all
      simp only [ok_bind, hnone, Bool.false_eq_true, if_false, userKeys_eq new hpl, userPowerLevel_eq c _ hce,
        ruleLevelChanges, ruleNotifications_eq, ← notifLevel_eq hf hce he, hd3, hd4, if_true, Bool.not_true, Bool.false_and, Bool.false_or]
      cases hbad : (new.users.any fun kv => parseUserID? kv.fst == some none) with
      | true => simp
      | false =>
        simp only [Bool.false_eq_true, if_false, Bool.not_false, Bool.true_and]
        cases hev : checkEventLevels (powerOf lib c e.sender) c.pl new with
        | false => simp
        | true =>
          simp only [Bool.not_true, Bool.false_eq_true, if_false, Bool.true_and]
          rw [accepts_bind (checkPowerLevelEvent_eq c p hf e row sv hrow hri hce c.pl new)]
          cases hn : (!sv.notifications || checkNotificationLevels (notifLevel c sv.creators c.pl e.sender) c.pl new) <;>
          cases hcr : (!sv.creators || ruleNoCreatorInUsers c new) <;>
          cases hu : checkUserLevels (powerOf lib c e.sender) e.sender c.pl new <;> simp

/-! ### rule 1 -/

theorem roomVersionRecognised_eq (kvs : List (Bytes × JVal)) :
    roomVersionRecognised kvs =
      (!(decStringPtr (lookupExact kvs b!"room_version")).err &&
       match (decStringPtr (lookupExact kvs b!"room_version")).val with
       | some v => knownRoomVersion v
       | none => true) := by
  unfold roomVersionRecognised
  cases lookupExact kvs b!"room_version" with
  | none => rfl
  | some x => cases x <;> simp [decStringPtr]

theorem creatorPresent_eq (kvs : List (Bytes × JVal)) :
    creatorPresent lib kvs =
      (!(decStringPtr (lookupExact kvs b!"creator")).err && (decStringPtr (lookupExact kvs b!"creator")).val.isSome) := by
  unfold creatorPresent
  have hd13 : lib.d13_creatorString = true := rfl
  simp only [hd13, if_true]
  cases lookupExact kvs b!"creator" with
  | none => rfl
  | some x => cases x <;> simp [decStringPtr]

/-- checkCreateEventV1 -/
theorem checkCreateV1_eq (e : Event) (u : UserID) (hu : userOf e.sender = some u) (row : VGen.VersionRow)
    (hrow : e.row = some row) (hc : row.checkCreateEvent = "checkCreateEventV1")
    (hdom : (domainFromID (e.roomID.drop 1)).isSome = true) :
    accepts (checkCreateEvent e u) = some (roomDomainIsSenderDomain e &&
      (match contentFields e.content with
       | some kvs => roomVersionRecognised kvs && creatorPresent lib kvs
       | none => false)) := by
  unfold checkCreateEvent
  simp only [hrow, hc, beq_self_eq_true, if_true]
  unfold roomDomainIsSenderDomain
  rw [hu]
  cases hdm : domainFromID (e.roomID.drop 1) with
  | none => rw [hdm] at hdom; cases hdom
  | some dom =>
  simp only
  by_cases hne : u.domain = dom
  case neg => simp [hne]
  case pos =>
    simp only [hne, bne_self_eq_false, Bool.false_eq_true, if_false, ok_bind, beq_self_eq_true, Bool.true_and]
    unfold contentFields
    cases hcnt : e.content with
    | none => simp
    | some v =>
      cases v with
      | obj kvs =>
        simp only [roomVersionRecognised_eq, creatorPresent_eq]
        cases (decStringPtr (lookupExact kvs b!"creator")).err <;>
        cases (decStringPtr (lookupExact kvs b!"room_version")).err <;>
        cases (decStringPtr (lookupExact kvs b!"creator")).val <;>
        cases (decStringPtr (lookupExact kvs b!"room_version")).val <;> simp
        all_goals (split <;> simp_all)
      | null => simp [lookupExact, roomVersionRecognised, creatorPresent]
      | _ => simp

theorem checkCreateV2_eq (e : Event) (u : UserID) (hu : userOf e.sender = some u) (row : VGen.VersionRow)
    (hrow : e.row = some row) (hc : row.checkCreateEvent = "checkCreateEventV2")
    (hdom : (domainFromID (e.roomID.drop 1)).isSome = true) :
    accepts (checkCreateEvent e u) = some (roomDomainIsSenderDomain e &&
      (match contentFields e.content with
       | some kvs => roomVersionRecognised kvs
       | none => false)) := by
  unfold checkCreateEvent
  have e1 : ("checkCreateEventV2" == "checkCreateEventV1") = false := by decide
  simp only [hrow, hc, beq_self_eq_true, if_true, e1, Bool.false_eq_true, if_false]
  unfold roomDomainIsSenderDomain
  rw [hu]
  cases hdm : domainFromID (e.roomID.drop 1) with
  | none => rw [hdm] at hdom; cases hdom
  | some dom =>
  simp only
  by_cases hne : u.domain = dom
  case neg => simp [hne]
  case pos =>
    simp only [hne, bne_self_eq_false, Bool.false_eq_true, if_false, ok_bind, beq_self_eq_true, Bool.true_and]
    unfold contentFields
    cases hcnt : e.content with
    | none => simp
    | some v =>
      cases v with
      | obj kvs =>
        simp only [roomVersionRecognised_eq]
        cases (decStringPtr (lookupExact kvs b!"room_version")).err <;>
        cases (decStringPtr (lookupExact kvs b!"room_version")).val <;> simp
        all_goals (split <;> simp_all)
      | null => simp [lookupExact, roomVersionRecognised]
      | _ => simp

theorem userOf_nil : userOf [] = none := by decide

theorem all_and_not {α} (l : List α) (a b : α → Bool) :
    l.all (fun x => !a x && b x) = (!l.any a && l.all b) := by
  induction l with
  | nil => rfl
  | cons x t ih =>
    simp only [List.all_cons, List.any_cons, ih]
    cases a x <;> cases b x <;> cases t.any a <;> simp

theorem userIDString_eq (x : JVal) :
    userIDString x = (!(decString (some x)).err && (userOf (decString (some x)).val).isSome) := by
  cases x <;> simp [userIDString, decString, userOf_nil]

theorem slice_valid (xs : List JVal) :
    xs.all userIDString =
    (!((xs.map (fun x => decString (some x))).any (·.err)) &&
      ((xs.map (fun x => decString (some x))).map (·.val)).all (fun c => (userOf c).isSome)) := by
  have : userIDString = fun x => (!(decString (some x)).err && (userOf (decString (some x)).val).isSome) :=
    funext userIDString_eq
  rw [this, all_and_not xs (fun x => (decString (some x)).err) (fun x => (userOf (decString (some x)).val).isSome)]
  simp [List.any_map, List.all_map, Function.comp_def]

theorem additionalCreatorsValid_eq (kvs : List (Bytes × JVal)) :
    additionalCreatorsValid kvs =
      (!(decStringSlice (lookupExact kvs b!"additional_creators")).err &&
        ((decStringSlice (lookupExact kvs b!"additional_creators")).val.getD []).all (fun c => (userOf c).isSome)) := by
  unfold additionalCreatorsValid
  cases lookupExact kvs b!"additional_creators" with
  | none => rfl
  | some x =>
    cases x with
    | arr xs => simp only [decStringSlice, slice_valid, Option.getD_some]
    | _ => simp [decStringSlice]

theorem noRoomIDField_eq (e : Event) :
    noRoomIDField e = (!(decString (lookupField e.obj b!"room_id")).err && (decString (lookupField e.obj b!"room_id")).val == []) := by
  unfold noRoomIDField
  cases lookupField e.obj b!"room_id" with
  | none => rfl
  | some x => cases x <;> simp [decString]

theorem any_none_false {l : List Bytes} (h : l.all (fun u => (parseUserID? u).isSome) = true) :
    l.any (fun c => (parseUserID? c).isNone) = false := by
  rw [Bool.eq_false_iff]
  intro hany
  obtain ⟨x, hx, hk⟩ := List.any_eq_true.mp hany
  have := List.all_eq_true.mp h x hx
  cases hq : parseUserID? x <;> simp_all

theorem any_bad_eq {l : List Bytes} (h : l.all (fun u => (parseUserID? u).isSome) = true) :
    l.any (fun c => parseUserID? c == some none) = !l.all (fun c => (userOf c).isSome) := by
  induction l with
  | nil => rfl
  | cons x t ih =>
    simp only [List.all_cons, Bool.and_eq_true] at h
    simp only [List.any_cons, List.all_cons, ih h.2, Bool.not_and]
    congr 1
    unfold userOf
    cases hp : parseUserID? x with
    | none => simp [hp] at h
    | some o => cases o <;> simp

theorem checkCreateV3_eq (e : Event) (u : UserID) (row : VGen.VersionRow)
    (hrow : e.row = some row) (hc : row.checkCreateEvent = "checkCreateEventV3")
    (hdom : (match contentFields e.content with
            | some kvs => (decStringSlice (lookupExact kvs b!"additional_creators")).val.getD [] |>.all
                            (fun u => (parseUserID? u).isSome)
            | none => true) = true) :
    accepts (checkCreateEvent e u) = some (noRoomIDField e &&
      (match contentFields e.content with
       | some kvs => roomVersionRecognised kvs && additionalCreatorsValid kvs
       | none => false)) := by
  unfold checkCreateEvent
  have e1 : ("checkCreateEventV3" == "checkCreateEventV1") = false := by decide
  have e2 : ("checkCreateEventV3" == "checkCreateEventV2") = false := by decide
  simp only [hrow, hc, beq_self_eq_true, if_true, e1, e2, Bool.false_eq_true, if_false]
  have main : ∀ kvs : List (Bytes × JVal), contentFields e.content = some kvs →
      accepts (
          let rv := decStringPtr (lookupExact kvs b!"room_version")
          let ac := decStringSlice (lookupExact kvs b!"additional_creators")
          if rv.err || ac.err then notAllowed
          else if (match rv.val with | some v => !knownRoomVersion v | none => false) then notAllowed
          else
            let creators := ac.val.getD []
            if creators.any (fun c => (parseUserID? c).isNone) then .error (.unmodelled "IPv6 literal in additional creator")
            else if creators.any (fun c => parseUserID? c == some none) then notAllowed
            else
              let rid := decString (lookupField e.obj b!"room_id")
              if rid.err then notAllowed
              else if rid.val != [] then notAllowed
              else .ok ()) = some (noRoomIDField e && (roomVersionRecognised kvs && additionalCreatorsValid kvs)) := by
    intro kvs hk
    rw [hk] at hdom
    simp only at hdom
    simp only [any_none_false hdom, any_bad_eq hdom, roomVersionRecognised_eq, additionalCreatorsValid_eq, noRoomIDField_eq]
    cases (decStringPtr (lookupExact kvs b!"room_version")).err <;>
    cases (decStringSlice (lookupExact kvs b!"additional_creators")).err <;>
    cases (decStringPtr (lookupExact kvs b!"room_version")).val <;>
    cases ((decStringSlice (lookupExact kvs b!"additional_creators")).val.getD []).all (fun c => (userOf c).isSome) <;>
    cases (decString (lookupField e.obj b!"room_id")).err <;> simp
    all_goals (try by_cases hv : (decString (lookupField e.obj b!"room_id")).val = [])
    all_goals (repeat' split)
    all_goals simp_all
  cases hcnt : e.content with
  | none => simp [contentFields]
  | some v =>
    cases v with
    | obj kvs => exact main kvs (by simp [contentFields, hcnt])
    | null => exact main [] (by simp [contentFields, hcnt])
    | _ => simp [contentFields]

theorem create_eq (c : Ctx) (e : Event) (row : VGen.VersionRow) (sv : SpecVersion)
    (hrow : e.row = some row) (hri : RowIs row sv) (hs : (parseUserID? e.sender).isSome = true)
    (hd1 : sv.createRules = 3 ∨ (domainFromID (e.roomID.drop 1)).isSome = true)
    (hd2 : (match contentFields e.content with
            | some kvs => (decStringSlice (lookupExact kvs b!"additional_creators")).val.getD [] |>.all
                            (fun u => (parseUserID? u).isSome)
            | none => true) = true) :
    accepts (c.createEventAllowed e) = some (ruleCreate lib sv e) := by
  unfold Ctx.createEventAllowed ruleCreate Event.stateKeyEquals
  by_cases hsk : (e.stateKey == some []) = true
  case neg => simp [hsk]
  case pos =>
  simp only [hsk, Bool.not_true, Bool.false_eq_true, if_false, Bool.true_and]
  by_cases hprev : e.prevEventIDs.length > 0
  case pos =>
    have : e.prevEventIDs.isEmpty = false := by
      cases h : e.prevEventIDs with
      | nil => simp [h] at hprev
      | cons _ _ => rfl
    simp [hprev, this]
  case neg =>
  have hemp : e.prevEventIDs.isEmpty = true := by
    cases h : e.prevEventIDs with
    | nil => rfl
    | cons _ _ => simp [h] at hprev
  simp only [hprev, if_false, hemp, Bool.true_and, resolveUser]
  cases hp : parseUserID? e.sender with
  | none => simp [hp] at hs
  | some o =>
    cases o with
    | none => simp [userOf, hp]
    | some u =>
      have hu : userOf e.sender = some u := by simp [userOf, hp]
      simp only [ok_bind, hu, Option.isSome_some, Bool.true_and]
      rcases hri.createRules with h1 | h2 | h3
      · have hc : row.checkCreateEvent = "checkCreateEventV1" := by rw [hri.create, h1]; rfl
        have hdm : (domainFromID (e.roomID.drop 1)).isSome = true := by
          rcases hd1 with h | h
          · omega
          · exact h
        rw [checkCreateV1_eq e u hu row hrow hc hdm, h1]
        rfl
      · have hc : row.checkCreateEvent = "checkCreateEventV2" := by rw [hri.create, h2]; rfl
        have hdm : (domainFromID (e.roomID.drop 1)).isSome = true := by
          rcases hd1 with h | h
          · omega
          · exact h
        rw [checkCreateV2_eq e u hu row hrow hc hdm, h2]
        rfl
      · have hc : row.checkCreateEvent = "checkCreateEventV3" := by rw [hri.create, h3]; rfl
        rw [checkCreateV3_eq e u row hrow hc hd2, h3]
        rfl

/-! ### rule 4 -/

theorem aliases_eq (c : Ctx) (p : Provider) (hf : Fresh p c) (e : Event)
    (hs : (parseUserID? e.sender).isSome) (hr : e.roomID ≠ []) :
    accepts (c.aliasEventAllowed e) = some (ruleAliases lib c e) := by
  unfold Ctx.aliasEventAllowed ruleAliases resolveUser userOf
  cases hp : parseUserID? e.sender with
  | none => simp [hp] at hs
  | some o =>
    cases o with
    | none => simp
    | some u =>
      simp only [ok_bind, notAllowed_bind, Option.join, domainAllowed_eq]
      have hc : lib.d14_pseudoIDs = true := rfl
      simp only [hc, Bool.true_and, Option.bind_some, id]
      unfold ruleCreatePresent ruleFederate Event.stateKeyEquals
      have hce : c.createEvent.isSome = true ∨ c.create.roomID = [] := by
        cases h : c.createEvent with
        | none => exact Or.inr (hf.noCreate h)
        | some _ => exact Or.inl rfl
      repeat' split
      all_goals simp_all

end V.AuthRules
