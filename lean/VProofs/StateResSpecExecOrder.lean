/-
  C10, the EXECUTABLE rendering of the definition (`VModel/StateResSpecExec.lean`) against the Prop-level definition
  (`VModel/StateResSpec.lean`), part 1: the power order.  `powerOrder` (repeatedly take the greatest free event,
  building the order from its end) computes THE reverse topological power ordering of its input, for input whose
  events are identified by their IDs and whose auth graph is acyclic.  Core only.
-/
import VModel.StateResSpecExec
import VProofs.StateResSpecOrder
import VProofs.StateResSort
import VProofs.StateResSpecKahn2
namespace V.StateResSpec.Exec
open V Json List
open V.StateRes (ID PowerKey powerLt StrictTotal powerLt_strictTotal KeyInj exists_max eq_nil_or_snoc)
open V.StateResSpec

/-! ## `sameID`, `distinct` -/

theorem sameID_iff_o (a b : Event) : sameID a b = true ↔ a.eventID = b.eventID := by
  unfold sameID; exact beq_iff_eq

theorem not_sameID_iff (a b : Event) : (!sameID a b) = true ↔ a.eventID ≠ b.eventID := by
  rw [Bool.not_eq_true', ← Bool.not_eq_true, sameID_iff_o]

theorem mem_of_mem_distinct_o : ∀ {l : List Event} {x : Event}, x ∈ distinct l → x ∈ l
  | [], _, h => by cases h
  | e :: es, x, h => by
    unfold distinct at h
    rcases List.mem_cons.mp h with rfl | h
    · exact List.mem_cons_self
    · exact List.mem_cons_of_mem _ (mem_of_mem_distinct_o (List.mem_filter.mp h).1)

/-- the events of `distinct l` have pairwise different IDs (no hypothesis) -/
theorem distinct_pairwise : ∀ l : List Event, (distinct l).Pairwise (fun a b => a.eventID ≠ b.eventID)
  | [] => by unfold distinct; exact Pairwise.nil
  | e :: es => by
    unfold distinct
    refine Pairwise.cons ?_ ((distinct_pairwise es).filter _)
    intro y hy
    exact (not_sameID_iff e y).mp (List.mem_filter.mp hy).2

theorem distinct_nodup (l : List Event) : (distinct l).Nodup := by
  rw [List.nodup_iff_pairwise_ne]
  exact (distinct_pairwise l).imp (fun h e => h (by rw [e]))

/-- when IDs identify the events of `l`, `distinct l` has the members of `l` -/
theorem mem_distinct_iff : ∀ {l : List Event}, (∀ a ∈ l, ∀ b ∈ l, a.eventID = b.eventID → a = b) →
    ∀ x, x ∈ distinct l ↔ x ∈ l
  | [], _, x => by unfold distinct; exact Iff.rfl
  | e :: es, hid, x => by
    refine ⟨mem_of_mem_distinct_o, fun hx => ?_⟩
    unfold distinct
    by_cases hxe : x = e
    · rw [hxe]; exact List.mem_cons_self
    · have hxes : x ∈ es := by
        rcases List.mem_cons.mp hx with h | h
        · exact absurd h hxe
        · exact h
      have ih := (mem_distinct_iff (l := es)
        (fun a ha b hb => hid a (List.mem_cons_of_mem _ ha) b (List.mem_cons_of_mem _ hb)) x).mpr hxes
      refine List.mem_cons_of_mem _ (List.mem_filter.mpr ⟨ih, ?_⟩)
      rw [not_sameID_iff]
      intro hee
      exact hxe (hid e List.mem_cons_self x hx hee).symm

/-! ## `isFree`, `greatest` -/

theorem isFree_iff (U : List Event) (x : Event) : isFree U x = true ↔ Free AuthChild U x := by
  unfold isFree Free AuthChild
  rw [List.all_eq_true]
  constructor
  · intro h a ha hc
    have := h a ha
    rw [Bool.not_eq_true', ← Bool.not_eq_true, List.contains_iff_mem] at this
    exact this hc
  · intro h a ha
    rw [Bool.not_eq_true', ← Bool.not_eq_true, List.contains_iff_mem]
    exact h a ha

theorem greatest_eq_none {lt : Event → Event → Bool} : ∀ {l : List Event}, greatest lt l = none → l = []
  | [], _ => rfl
  | x :: xs, h => by
    unfold greatest at h
    split at h
    · cases h
    · split at h <;> cases h

/-- an acyclic non-empty set of events has a free element -/
theorem exists_free {U : List Event} (hne : U ≠ [])
    (hacyc : ∃ rk : ID → Nat, ∀ e ∈ U, ∀ p ∈ e.authEventIDs, (∃ e' ∈ U, e'.eventID = p) → rk p < rk e.eventID) :
    ∃ x ∈ U, Free AuthChild U x := by
  obtain ⟨rk, hrk⟩ := hacyc
  obtain ⟨x, hx, hmax⟩ := exists_max (fun e : Event => rk e.eventID) U hne
  refine ⟨x, hx, ?_⟩
  intro a ha hc
  have h1 := hrk a ha x.eventID hc ⟨x, hx, rfl⟩
  have h2 : rk a.eventID ≤ rk x.eventID := hmax a ha
  omega

section generic
variable {κ : Type} {ltK : κ → κ → Bool} {k : Event → κ} {lt : Event → Event → Bool}

/-- `greatest` returns a member that no member exceeds (comparator = strict total order on keys, on the members) -/
theorem greatest_spec (hK : StrictTotal ltK) : ∀ {l : List Event} {x : Event},
    (∀ a ∈ l, ∀ b ∈ l, lt a b = ltK (k a) (k b)) → greatest lt l = some x →
    x ∈ l ∧ ∀ y ∈ l, ltK (k x) (k y) = false
  | [], _, _, h => by cases h
  | z :: zs, x, hlt, h => by
    have hlt' : ∀ a ∈ zs, ∀ b ∈ zs, lt a b = ltK (k a) (k b) :=
      fun a ha b hb => hlt a (List.mem_cons_of_mem _ ha) b (List.mem_cons_of_mem _ hb)
    unfold greatest at h
    split at h
    · rename_i hn
      have : zs = [] := greatest_eq_none hn
      subst this
      cases h
      refine ⟨List.mem_cons_self, ?_⟩
      intro y hy
      rcases List.mem_cons.mp hy with rfl | hy
      · exact hK.irrefl _
      · cases hy
    · rename_i y hy
      obtain ⟨hym, hymax⟩ := greatest_spec hK hlt' hy
      rw [hlt y (List.mem_cons_of_mem _ hym) z List.mem_cons_self] at h
      split at h
      · rename_i hyz
        cases h
        refine ⟨List.mem_cons_self, ?_⟩
        intro w hw
        rcases List.mem_cons.mp hw with rfl | hw
        · exact hK.irrefl _
        · cases hxw : ltK (k z) (k w) with
          | false => rfl
          | true =>
            have := hK.trans _ _ _ hyz hxw
            rw [hymax w hw] at this; cases this
      · rename_i hyz
        cases h
        refine ⟨List.mem_cons_of_mem _ hym, ?_⟩
        intro w hw
        rcases List.mem_cons.mp hw with rfl | hw
        · simpa using hyz
        · exact hymax w hw

end generic

/-! ## Extending a power order at its end -/

theorem IsPowerOrder.snoc {α : Type} {lt child : α → α → Prop} {input input' pre : List α} {x : α}
    (h : IsPowerOrder lt child input' pre) (hin : ∀ y, y ∈ input ↔ (y ∈ input' ∨ y = x)) (hx : x ∉ input')
    (hf : Free child (pre ++ [x]) x) (hg : ∀ y ∈ pre, Free child (pre ++ [x]) y → lt y x) :
    IsPowerOrder lt child input (pre ++ [x]) := by
  have hsplit : ∀ p y q, pre ++ [x] = p ++ y :: q → (q = [] ∧ p = pre ∧ y = x) ∨ ∃ q', q = q' ++ [x] ∧ pre = p ++ y :: q' := by
    intro p y q e
    rcases eq_nil_or_snoc q with rfl | ⟨q', z, rfl⟩
    · obtain ⟨e1, e2⟩ := List.append_inj' e rfl
      cases e2
      exact Or.inl ⟨rfl, e1.symm, rfl⟩
    · have e' : pre ++ [x] = (p ++ y :: q') ++ [z] := by rw [e]; simp
      obtain ⟨e1, e2⟩ := List.append_inj' e' rfl
      cases e2
      exact Or.inr ⟨q', rfl, e1⟩
  refine ⟨?_, ?_, ?_, ?_⟩
  · rw [List.nodup_append]
    refine ⟨h.nodup, by simp, ?_⟩
    intro a ha b hb e
    simp only [List.mem_singleton] at hb
    subst hb; subst e
    exact hx ((h.mem a).mp ha)
  · intro y
    rw [hin, List.mem_append, h.mem, List.mem_singleton]
  · intro p y q e
    rcases hsplit p y q e with ⟨_, rfl, rfl⟩ | ⟨q', _, e'⟩
    · exact hf
    · exact h.free p y q' e'
  · intro p y q e
    rcases hsplit p y q e with ⟨_, rfl, rfl⟩ | ⟨q', _, e'⟩
    · exact hg
    · exact h.greatest p y q' e'

theorem IsPowerOrder.nil {α : Type} (lt child : α → α → Prop) : IsPowerOrder lt child [] [] := by
  refine ⟨List.nodup_nil, fun _ => Iff.rfl, ?_, ?_⟩ <;>
  · intro p y q e
    cases p <;> cases e

/-! ## The rounds of `powerOrderAux` -/

theorem powerOrderAux_nil (lt : Event → Event → Bool) (n : Nat) (acc : List Event) :
    powerOrderAux lt n [] acc = acc := by
  cases n with
  | zero => rfl
  | succ n => rfl

/-- removing `x` by ID from a list whose events are identified by their IDs -/
theorem mem_remove_iff {U : List Event} {x : Event} (hid : ∀ a ∈ U, ∀ b ∈ U, a.eventID = b.eventID → a = b)
    (hx : x ∈ U) (y : Event) : y ∈ U.filter (fun y => !sameID x y) ↔ (y ∈ U ∧ y ≠ x) := by
  rw [List.mem_filter, not_sameID_iff]
  constructor
  · rintro ⟨hy, hne⟩
    exact ⟨hy, fun e => hne (by rw [e])⟩
  · rintro ⟨hy, hne⟩
    exact ⟨hy, fun e => hne (hid x hx y hy e).symm⟩

theorem length_remove_lt {U : List Event} {x : Event} (hx : x ∈ U) :
    (U.filter (fun y => !sameID x y)).length < U.length := by
  apply List.length_filter_lt_length_iff_exists.mpr
  exact ⟨x, hx, by simp [sameID]⟩

section run
variable {κ : Type} {ltK : κ → κ → Bool} {k : Event → κ} {lt : Event → Event → Bool}

/-- one round: a non-empty `U` has a greatest free element -/
theorem round_spec (hK : StrictTotal ltK) {U : List Event}
    (hlt : ∀ a ∈ U, ∀ b ∈ U, lt a b = ltK (k a) (k b)) (hkey : KeyInj k U)
    (hacyc : ∃ rk : ID → Nat, ∀ e ∈ U, ∀ p ∈ e.authEventIDs, (∃ e' ∈ U, e'.eventID = p) → rk p < rk e.eventID)
    (hne : U ≠ []) :
    ∃ x, greatest lt (U.filter (isFree U)) = some x ∧ x ∈ U ∧ Free AuthChild U x ∧
      ∀ y ∈ U, y ≠ x → Free AuthChild U y → ltK (k y) (k x) = true := by
  obtain ⟨x0, hx0, hf0⟩ := exists_free hne hacyc
  have hmem0 : x0 ∈ U.filter (isFree U) := List.mem_filter.mpr ⟨hx0, (isFree_iff U x0).mpr hf0⟩
  cases hg : greatest lt (U.filter (isFree U)) with
  | none =>
    rw [greatest_eq_none hg] at hmem0
    cases hmem0
  | some x =>
    have hlt' : ∀ a ∈ U.filter (isFree U), ∀ b ∈ U.filter (isFree U), lt a b = ltK (k a) (k b) :=
      fun a ha b hb => hlt a (List.mem_filter.mp ha).1 b (List.mem_filter.mp hb).1
    obtain ⟨hxm, hmax⟩ := greatest_spec hK hlt' hg
    have hxU := (List.mem_filter.mp hxm).1
    refine ⟨x, rfl, hxU, (isFree_iff U x).mp (List.mem_filter.mp hxm).2, ?_⟩
    intro y hy hne' hfy
    have h1 := hmax y (List.mem_filter.mpr ⟨hy, (isFree_iff U y).mpr hfy⟩)
    cases h2 : ltK (k y) (k x) with
    | true => rfl
    | false => exact absurd (hkey y hy x hxU (hK.total _ _ h2 h1)) hne'

theorem powerOrderAux_run (hK : StrictTotal ltK) (U0 : List Event)
    (hlt : ∀ a ∈ U0, ∀ b ∈ U0, lt a b = ltK (k a) (k b)) (hkey : KeyInj k U0)
    (hid : ∀ a ∈ U0, ∀ b ∈ U0, a.eventID = b.eventID → a = b)
    (hacyc : ∃ rk : ID → Nat, ∀ e ∈ U0, ∀ p ∈ e.authEventIDs, (∃ e' ∈ U0, e'.eventID = p) → rk p < rk e.eventID) :
    ∀ (n : Nat) (U acc : List Event), (∀ a ∈ U, a ∈ U0) → U.length ≤ n →
      ∃ placed, powerOrderAux lt n U acc = placed ++ acc ∧
        IsPowerOrder (fun a b => ltK (k a) (k b) = true) AuthChild U placed := by
  intro n
  induction n with
  | zero =>
    intro U acc _ hl
    have : U = [] := List.eq_nil_of_length_eq_zero (by omega)
    subst this
    exact ⟨[], rfl, IsPowerOrder.nil _ _⟩
  | succ n ih =>
    intro U acc hsub hl
    by_cases hne : U = []
    · subst hne
      exact ⟨[], powerOrderAux_nil _ _ _, IsPowerOrder.nil _ _⟩
    · have hltU : ∀ a ∈ U, ∀ b ∈ U, lt a b = ltK (k a) (k b) := fun a ha b hb => hlt a (hsub a ha) b (hsub b hb)
      have hkeyU : KeyInj k U := fun a ha b hb => hkey a (hsub a ha) b (hsub b hb)
      have hidU : ∀ a ∈ U, ∀ b ∈ U, a.eventID = b.eventID → a = b := fun a ha b hb => hid a (hsub a ha) b (hsub b hb)
      have hacU : ∃ rk : ID → Nat, ∀ e ∈ U, ∀ p ∈ e.authEventIDs, (∃ e' ∈ U, e'.eventID = p) → rk p < rk e.eventID := by
        obtain ⟨rk, hrk⟩ := hacyc
        exact ⟨rk, fun e he p hp ⟨e', he', ee⟩ => hrk e (hsub e he) p hp ⟨e', hsub e' he', ee⟩⟩
      obtain ⟨x, hg, hxU, hfx, hmax⟩ := round_spec hK hltU hkeyU hacU hne
      have hrem := mem_remove_iff hidU hxU
      have hlen := length_remove_lt hxU
      obtain ⟨placed', hrun, hpo⟩ := ih (U.filter (fun y => !sameID x y)) (x :: acc)
        (fun a ha => hsub a (List.mem_filter.mp ha).1) (by omega)
      have hmemP : ∀ a ∈ placed' ++ [x], a ∈ U := by
        intro a ha
        rcases List.mem_append.mp ha with ha | ha
        · exact ((hrem a).mp ((hpo.mem a).mp ha)).1
        · rw [List.mem_singleton.mp ha]; exact hxU
      have hmemU : ∀ a ∈ U, a ∈ placed' ++ [x] := by
        intro a ha
        by_cases e : a = x
        · rw [e]; simp
        · exact List.mem_append_left _ ((hpo.mem a).mpr ((hrem a).mpr ⟨ha, e⟩))
      refine ⟨placed' ++ [x], ?_, ?_⟩
      · show (match greatest lt (U.filter (isFree U)) with
          | none => acc
          | some x => powerOrderAux lt n (U.filter (fun y => !sameID x y)) (x :: acc)) = _
        rw [hg]
        simp only [hrun, List.append_assoc, List.cons_append, List.nil_append]
      · refine IsPowerOrder.snoc hpo ?_ ?_ (hfx.mono hmemP) ?_
        · intro y
          rw [hrem]
          by_cases e : y = x
          · simp [e, hxU]
          · simp [e]
        · intro h; exact ((hrem x).mp h).2 rfl
        · intro y hy hfy
          have hyU' := (hrem y).mp ((hpo.mem y).mp hy)
          exact hmax y hyU'.1 hyU'.2 (hfy.mono hmemU)

end run

/-! ## The cached key table of `powerOrder` -/

/-- looking an event of `U` up by its ID in the table built from `U` returns its own entry -/
theorem keyTable_find {κ : Type} (f : Event → κ) {U : List Event}
    (hid : ∀ a ∈ U, ∀ b ∈ U, a.eventID = b.eventID → a = b) {e : Event} (he : e ∈ U) :
    (((U.map (fun e => (e.eventID, f e))).find? (fun k => k.1 == e.eventID)).map (·.2)).getD (f e) = f e := by
  cases hf : (U.map (fun e => (e.eventID, f e))).find? (fun k => k.1 == e.eventID) with
  | none => rfl
  | some r =>
    obtain ⟨e', he', rfl⟩ := List.mem_map.mp (List.mem_of_find?_eq_some hf)
    have hr : e'.eventID = e.eventID := by simpa using List.find?_some hf
    rw [hid e' he' e he hr]
    rfl

/-- **Power order.**  `powerOrder` computes THE reverse topological power ordering of its input
    (IDs identify the events of the input; the auth graph inside the input is acyclic). -/
theorem powerOrder_is_power_order (m : List Event) (createEv : Option Event) (input : List Event)
    (hid : ∀ a ∈ input, ∀ b ∈ input, a.eventID = b.eventID → a = b)
    (hacyc : ∃ rk : ID → Nat, ∀ e ∈ input, ∀ p ∈ e.authEventIDs, (∃ e' ∈ input, e'.eventID = p) → rk p < rk e.eventID) :
    IsReverseTopoPowerOrder m createEv input (powerOrder m createEv input) := by
  have hidU : ∀ a ∈ distinct input, ∀ b ∈ distinct input, a.eventID = b.eventID → a = b :=
    fun a ha b hb => hid a (mem_of_mem_distinct_o ha) b (mem_of_mem_distinct_o hb)
  have hacU : ∃ rk : ID → Nat, ∀ e ∈ distinct input, ∀ p ∈ e.authEventIDs,
      (∃ e' ∈ distinct input, e'.eventID = p) → rk p < rk e.eventID := by
    obtain ⟨rk, hrk⟩ := hacyc
    exact ⟨rk, fun e he p hp ⟨e', he', ee⟩ => hrk e (mem_of_mem_distinct_o he) p hp ⟨e', mem_of_mem_distinct_o he', ee⟩⟩
  have hkey : KeyInj (powerKey m createEv) (distinct input) := by
    intro a ha b hb e
    exact hidU a ha b hb (congrArg PowerKey.id e)
  obtain ⟨placed, hrun, hpo⟩ := powerOrderAux_run (ltK := powerLt) (k := powerKey m createEv)
    (lt := fun a b => powerLt
      ((((distinct input).map (fun e => (e.eventID, powerKey m createEv e))).find? (fun k => k.1 == a.eventID)).map (·.2)
        |>.getD (powerKey m createEv a))
      ((((distinct input).map (fun e => (e.eventID, powerKey m createEv e))).find? (fun k => k.1 == b.eventID)).map (·.2)
        |>.getD (powerKey m createEv b)))
    powerLt_strictTotal (distinct input)
    (by
      intro a ha b hb
      show powerLt _ _ = _
      rw [keyTable_find (powerKey m createEv) hidU ha, keyTable_find (powerKey m createEv) hidU hb])
    hkey hidU hacU (distinct input).length (distinct input) [] (fun _ h => h) (Nat.le_refl _)
  have he : powerOrder m createEv input = placed := by
    rw [List.append_nil] at hrun
    exact hrun
  rw [he]
  exact hpo.congr_input (mem_distinct_iff hid)

/-- hence `powerOrder` agrees with every list satisfying the definition (uniqueness is `IsPowerOrder.eq_of`) -/
theorem powerOrder_unique (m : List Event) (createEv : Option Event) (input out : List Event)
    (hid : ∀ a ∈ input, ∀ b ∈ input, a.eventID = b.eventID → a = b)
    (hacyc : ∃ rk : ID → Nat, ∀ e ∈ input, ∀ p ∈ e.authEventIDs, (∃ e' ∈ input, e'.eventID = p) → rk p < rk e.eventID)
    (h : IsReverseTopoPowerOrder m createEv input out) : out = powerOrder m createEv input := by
  refine IsPowerOrder.eq_of ?_ h (powerOrder_is_power_order m createEv input hid hacyc)
  intro a b hab hba
  have := powerLt_strictTotal.asymm _ _ hab
  rw [show powerLt (powerKey m createEv b) (powerKey m createEv a) = true from hba] at this
  cases this

end V.StateResSpec.Exec
