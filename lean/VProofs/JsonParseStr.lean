/- L2, string part: the parser reads back the canonical spelling `encodeStringBody d` of any byte
   string `d` as exactly `d`.  Core only. -/
import VProofs.JsonStr
namespace V.Json

theorem ps_quote (f : Nat) (s raw dec : Bytes) : parseString (f + 1) (0x22 :: s) raw dec = some (raw, dec, s) := by
  rw [parseString_succ]; rfl

theorem ps_esc (f : Nat) (e x : UInt8) (s raw dec : Bytes) (h : simpleEscape e = some x) :
    parseString (f + 1) (0x5C :: e :: s) raw dec = parseString f s (raw ++ [0x5C, e]) (dec ++ [x]) := by
  rw [parseString_succ]
  have h1 : ((0x5C : UInt8) == 0x22) = false := by decide
  have h2 : ¬ ((0x5C : UInt8) < 0x20) := by decide
  simp only [h1, h2, Bool.false_eq_true, ↓reduceIte, beq_self_eq_true, h]

theorem ps_plain (f : Nat) (c : UInt8) (s raw dec : Bytes) (h : plainByte c = true) :
    parseString (f + 1) (c :: s) raw dec = parseString f s (raw ++ [c]) (dec ++ [c]) := by
  simp only [plainByte, Bool.and_eq_true, Bool.not_eq_true', decide_eq_false_iff_not] at h
  obtain ⟨⟨h1, h2⟩, h3⟩ := h
  rw [parseString_succ]
  simp only [h1, h2, h3, Bool.false_eq_true, ↓reduceIte]

/-- The six-byte escape `\u00XY` written for a control character reads back as that character. -/
theorem ctrl_table : ∀ n, n < 0x20 →
    isHex (UInt8.ofNat (0x30 + n / 16)) = true ∧ isHex (hexDigitLower (n % 16)) = true ∧
    hex4 0x30 0x30 (UInt8.ofNat (0x30 + n / 16)) (hexDigitLower (n % 16)) = n ∧
    utf8Encode n = [UInt8.ofNat n] ∧ isSurrogate n = false := by
  decide

theorem ps_ctrl (f : Nat) (c : UInt8) (s raw dec : Bytes) (h : c < 0x20) :
    parseString (f + 1)
      (0x5C :: 0x75 :: 0x30 :: 0x30 :: UInt8.ofNat (0x30 + c.toNat / 16) :: hexDigitLower (c.toNat % 16) :: s) raw dec =
    parseString f s
      (raw ++ [0x5C, 0x75, 0x30, 0x30, UInt8.ofNat (0x30 + c.toNat / 16), hexDigitLower (c.toNat % 16)]) (dec ++ [c]) := by
  have hn : c.toNat < 0x20 := by simpa using UInt8.lt_iff_toNat_lt.mp h
  obtain ⟨t1, t2, t3, t4, t5⟩ := ctrl_table c.toNat hn
  rw [parseString_succ]
  have h1 : ((0x5C : UInt8) == 0x22) = false := by decide
  have h2 : ¬ ((0x5C : UInt8) < 0x20) := by decide
  have h3 : simpleEscape 0x75 = none := by decide
  have h0 : isHex 0x30 = true := by decide
  have hpu : parseUEscape (0x30 :: 0x30 :: UInt8.ofNat (0x30 + c.toNat / 16) :: hexDigitLower (c.toNat % 16) :: s) =
      some ([0x30, 0x30, UInt8.ofNat (0x30 + c.toNat / 16), hexDigitLower (c.toNat % 16)], [c], s) := by
    unfold parseUEscape
    simp only [h0, t1, t2, Bool.and_self, ↓reduceIte, t3, t5, Bool.false_eq_true, t4]
    simp
  simp only [h1, h2, Bool.false_eq_true, ↓reduceIte, beq_self_eq_true, h3, hpu]

/-- one byte of the decoded string = one item of the canonical spelling -/
theorem ps_item (f : Nat) (c : UInt8) (s raw dec : Bytes) :
    parseString (f + 1) (encodeStringBody [c] ++ s) raw dec =
      parseString f s (raw ++ encodeStringBody [c]) (dec ++ [c]) := by
  by_cases h1 : c = 0x22
  · subst h1; exact ps_esc f _ _ s raw dec (by decide)
  by_cases h2 : c = 0x5C
  · subst h2; exact ps_esc f _ _ s raw dec (by decide)
  by_cases h3 : c = 0x08
  · subst h3; exact ps_esc f _ _ s raw dec (by decide)
  by_cases h4 : c = 0x09
  · subst h4; exact ps_esc f _ _ s raw dec (by decide)
  by_cases h5 : c = 0x0A
  · subst h5; exact ps_esc f _ _ s raw dec (by decide)
  by_cases h6 : c = 0x0C
  · subst h6; exact ps_esc f _ _ s raw dec (by decide)
  by_cases h7 : c = 0x0D
  · subst h7; exact ps_esc f _ _ s raw dec (by decide)
  by_cases h8 : c < 0x20
  · have : encodeStringBody [c] =
        [0x5C, 0x75, 0x30, 0x30, UInt8.ofNat (0x30 + c.toNat / 16), hexDigitLower (c.toNat % 16)] := by
      simp [encodeStringBody, h1, h2, h3, h4, h5, h6, h7, h8]
    rw [this]
    exact ps_ctrl f c s raw dec h8
  · have hp : plainByte c = true := by simp [plainByte, h1, h2, h8]
    have : encodeStringBody [c] = [c] := esb_plain [c] (by simpa using hp)
    rw [this]
    exact ps_plain f c s raw dec hp

theorem esb_cons (c : UInt8) (d : Bytes) : encodeStringBody (c :: d) = encodeStringBody [c] ++ encodeStringBody d :=
  esb_append [c] d

theorem esb_one_length (c : UInt8) : 1 ≤ (encodeStringBody [c]).length := by
  unfold encodeStringBody
  repeat' split
  all_goals simp [encodeStringBody]

/-- **String read-back.** -/
theorem parseString_esb : ∀ (d : Bytes) (f : Nat) (raw dec rest : Bytes), (encodeStringBody d).length < f →
    parseString f (encodeStringBody d ++ 0x22 :: rest) raw dec = some (raw ++ encodeStringBody d, dec ++ d, rest)
  | [], f, raw, dec, rest, h => by
    cases f with
    | zero => omega
    | succ f => simp [esb_nil, ps_quote]
  | c :: d, f, raw, dec, rest, h => by
    cases f with
    | zero => omega
    | succ f =>
      rw [esb_cons, List.length_append] at h
      have := esb_one_length c
      rw [esb_cons, List.append_assoc, ps_item, parseString_esb d f _ _ rest (by omega)]
      simp

/-- The canonical spelling never contains a surrogate escape. -/
theorem noLoneSurr_esb : ∀ d : Bytes, noLoneSurr (encodeStringBody d) = true
  | [] => rfl
  | c :: d => by
    have ih := noLoneSurr_esb d
    rw [esb_cons]
    by_cases h1 : c = 0x22
    · subst h1; exact (noLoneSurr_esc _ _ (by decide)).trans ih
    by_cases h2 : c = 0x5C
    · subst h2; exact (noLoneSurr_esc _ _ (by decide)).trans ih
    by_cases h3 : c = 0x08
    · subst h3; exact (noLoneSurr_esc _ _ (by decide)).trans ih
    by_cases h4 : c = 0x09
    · subst h4; exact (noLoneSurr_esc _ _ (by decide)).trans ih
    by_cases h5 : c = 0x0A
    · subst h5; exact (noLoneSurr_esc _ _ (by decide)).trans ih
    by_cases h6 : c = 0x0C
    · subst h6; exact (noLoneSurr_esc _ _ (by decide)).trans ih
    by_cases h7 : c = 0x0D
    · subst h7; exact (noLoneSurr_esc _ _ (by decide)).trans ih
    by_cases h8 : c < 0x20
    · have : encodeStringBody [c] =
          [0x5C, 0x75, 0x30, 0x30, UInt8.ofNat (0x30 + c.toNat / 16), hexDigitLower (c.toNat % 16)] := by
        simp [encodeStringBody, h1, h2, h3, h4, h5, h6, h7, h8]
      rw [this]
      have hn : c.toNat < 0x20 := by simpa using UInt8.lt_iff_toNat_lt.mp h8
      obtain ⟨_, _, t3, _, t5⟩ := ctrl_table c.toNat hn
      exact (noLoneSurr_u _ _ _ _ _ (by rw [t3]; exact t5)).trans ih
    · have hp : plainByte c = true := by simp [plainByte, h1, h2, h8]
      have : encodeStringBody [c] = [c] := esb_plain [c] (by simpa using hp)
      rw [this]
      exact (noLoneSurr_byte c _ (by simpa using h2)).trans ih

end V.Json
