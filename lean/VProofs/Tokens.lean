/- Helper lemmas for C20 (VModel.Tokens). Core only. -/
import VModel.Tokens
namespace V.Tokens
open V List

/-! ## Permutations of three elements -/

theorem perm_two {α} {y z b c : α} (h : [y, z] ~ [b, c]) : (y = b ∧ z = c) ∨ (y = c ∧ z = b) := by
  have hy : y ∈ [b, c] := h.mem_iff.1 (by simp)
  simp only [mem_cons, not_mem_nil, or_false] at hy
  rcases hy with rfl | rfl
  · have := (perm_cons y).1 h
    exact Or.inl ⟨rfl, by simpa using this⟩
  · have h2 : [y, z] ~ [y, b] := h.trans (Perm.swap _ _ _)
    have := (perm_cons y).1 h2
    exact Or.inr ⟨rfl, by simpa using this⟩

theorem perm_three {α} {l : List α} {a b c : α} (h : l ~ [a, b, c]) :
    l = [a, b, c] ∨ l = [a, c, b] ∨ l = [b, a, c] ∨ l = [b, c, a] ∨ l = [c, a, b] ∨ l = [c, b, a] := by
  have hl := h.length_eq
  match l, hl with
  | [x, y, z], _ =>
    have hx : x ∈ [a, b, c] := h.mem_iff.1 (by simp)
    simp only [mem_cons, not_mem_nil, or_false] at hx
    rcases hx with rfl | rfl | rfl
    · rcases perm_two ((perm_cons x).1 h) with ⟨rfl, rfl⟩ | ⟨rfl, rfl⟩ <;> simp
    · have h2 : [x, y, z] ~ [x, a, c] := h.trans (Perm.swap _ _ _)
      rcases perm_two ((perm_cons x).1 h2) with ⟨rfl, rfl⟩ | ⟨rfl, rfl⟩ <;> simp
    · have h2 : [x, y, z] ~ [x, a, b] := h.trans ((Perm.cons a (Perm.swap _ _ _)).trans (Perm.swap _ _ _))
      rcases perm_two ((perm_cons x).1 h2) with ⟨rfl, rfl⟩ | ⟨rfl, rfl⟩ <;> simp

/-! ## Atoi ∘ Itoa -/

theorem digitVal_ofNat (d : Nat) (h : d < 10) : digitVal (UInt8.ofNat (48 + d)) = some d := by
  have : d = 0 ∨ d = 1 ∨ d = 2 ∨ d = 3 ∨ d = 4 ∨ d = 5 ∨ d = 6 ∨ d = 7 ∨ d = 8 ∨ d = 9 := by omega
  rcases this with rfl | rfl | rfl | rfl | rfl | rfl | rfl | rfl | rfl | rfl <;> decide

theorem parseDigits_append (l : List UInt8) (b : UInt8) (acc : Nat) :
    parseDigits (l ++ [b]) acc =
      match parseDigits l acc with
      | none => none
      | some a => match digitVal b with
        | none => none
        | some d => some (a * 10 + d) := by
  induction l generalizing acc with
  | nil => simp only [List.nil_append, parseDigits]; cases digitVal b <;> rfl
  | cons x xs ih =>
    simp only [List.cons_append, parseDigits]
    cases digitVal x with
    | none => rfl
    | some d => exact ih _

theorem parseDigits_natDigits (n : Nat) : parseDigits (natDigits n) 0 = some n := by
  induction n using Nat.strongRecOn with
  | _ n ih =>
    rw [natDigits]
    split
    · rename_i h
      simp only [parseDigits, digitVal_ofNat n h, Nat.zero_mul, Nat.zero_add]
    · rename_i h
      rw [parseDigits_append, ih (n / 10) (by omega), digitVal_ofNat (n % 10) (Nat.mod_lt _ (by decide))]
      simp; omega

theorem natDigits_ne_nil (n : Nat) : natDigits n ≠ [] := by
  rw [natDigits]; split <;> simp

theorem ofNat_digit_toNat (d : Nat) (h : d < 10) : 48 ≤ (UInt8.ofNat (48 + d)).toNat ∧ (UInt8.ofNat (48 + d)).toNat ≤ 57 := by
  have : d = 0 ∨ d = 1 ∨ d = 2 ∨ d = 3 ∨ d = 4 ∨ d = 5 ∨ d = 6 ∨ d = 7 ∨ d = 8 ∨ d = 9 := by omega
  rcases this with rfl | rfl | rfl | rfl | rfl | rfl | rfl | rfl | rfl | rfl <;> decide

theorem natDigits_all_digits (n : Nat) : ∀ c ∈ natDigits n, 48 ≤ c.toNat ∧ c.toNat ≤ 57 := by
  induction n using Nat.strongRecOn with
  | _ n ih =>
    rw [natDigits]
    split
    · rename_i h
      intro c hc; simp only [mem_cons, not_mem_nil, or_false] at hc; subst hc; exact ofNat_digit_toNat n h
    · intro c hc
      simp only [mem_append, mem_cons, not_mem_nil, or_false] at hc
      rcases hc with hc | rfl
      · exact ih (n / 10) (by omega) c hc
      · exact ofNat_digit_toNat _ (Nat.mod_lt _ (by decide))

/-- Atoi of the digits of a natural number (no sign) -/
theorem atoi_natDigits (n : Nat) (h : (n : Int) ≤ maxInt64) : atoi (natDigits n) = some (n : Int) := by
  have hne := natDigits_ne_nil n
  have hall := natDigits_all_digits n
  have hp := parseDigits_natDigits n
  match hd : natDigits n with
  | [] => exact absurd hd hne
  | c :: rest =>
    rw [hd] at hall hp
    have hc := hall c (by simp)
    have h45 : (c == 45) = false := by
      rw [beq_eq_false_iff_ne]; rintro rfl; exact absurd hc.1 (by decide)
    have h43 : (c == 43) = false := by
      rw [beq_eq_false_iff_ne]; rintro rfl; exact absurd hc.1 (by decide)
    simp only [atoi, h45, h43, Bool.or_self, Bool.false_eq_true, ↓reduceIte, hp]
    have : minInt64 ≤ (n : Int) := by unfold minInt64; omega
    simp [this, h]

theorem atoi_neg_natDigits (n : Nat) (h : minInt64 ≤ -(n : Int)) : atoi (45 :: natDigits n) = some (-(n : Int)) := by
  have hne := natDigits_ne_nil n
  have hp := parseDigits_natDigits n
  match hd : natDigits n with
  | [] => exact absurd hd hne
  | c :: rest =>
    rw [hd] at hp
    simp only [atoi, beq_self_eq_true, Bool.true_or, ↓reduceIte, hp]
    have : -(n : Int) ≤ maxInt64 := by unfold maxInt64; omega
    simp [this, h]

theorem atoi_itoa (v : Int) (h1 : minInt64 ≤ v) (h2 : v ≤ maxInt64) : atoi (itoa v) = some v := by
  unfold itoa
  split
  · rename_i hneg
    have : v = -(v.natAbs : Int) := by omega
    rw [this] at h1
    conv => rhs; rw [this]
    exact atoi_neg_natDigits _ h1
  · rename_i hpos
    have : v = (v.natAbs : Int) := by omega
    rw [this] at h2
    conv => rhs; rw [this]
    exact atoi_natDigits _ h2

/-! ## VerifySignature -/

theorem verifySigLoop_iff {K} [DecidableEq K] (S : MacScheme K) (want : K) (cavs : List Caveat) (cur : K)
    (acc conds : List Bytes) :
    verifySigLoop S want cur cavs acc = some conds ↔
      (∀ c ∈ cavs, c.vid = []) ∧ conds = acc.reverse ++ cavs.map (·.cid) ∧ (cavs.map (·.cid)).foldl S.mac cur = want := by
  induction cavs generalizing cur acc with
  | nil =>
    simp only [verifySigLoop, not_mem_nil, false_imp_iff, implies_true, map_nil, append_nil, foldl_nil, true_and]
    constructor
    · intro h; split at h
      · exact ⟨(Option.some.inj h).symm, by assumption⟩
      · cases h
    · rintro ⟨rfl, rfl⟩; simp
  | cons c rest ih =>
    simp only [verifySigLoop]
    by_cases hv : c.vid = []
    · simp only [hv, ne_eq, not_true_eq_false, ↓reduceIte, ih, mem_cons, forall_eq_or_imp, true_and, reverse_cons,
        append_assoc, singleton_append, map_cons, foldl_cons]
    · simp only [ne_eq, hv, not_false_eq_true, ↓reduceIte, mem_cons, forall_eq_or_imp, false_and, reduceCtorEq]

theorem verifySig_iff {K} [DecidableEq K] (S : MacScheme K) (key : Bytes) (t : Token K) (conds : List Bytes) :
    verifySig S key t = some conds ↔
      (∀ c ∈ t.caveats, c.vid = []) ∧ conds = t.caveats.map (·.cid) ∧ t.sig = chain S key t.id conds := by
  unfold verifySig chain
  rw [verifySigLoop_iff]
  simp only [reverse_nil, nil_append]
  constructor
  · rintro ⟨h1, rfl, h3⟩; exact ⟨h1, rfl, h3.symm⟩
  · rintro ⟨h1, rfl, h3⟩; exact ⟨h1, rfl, h3.symm⟩

/-! ## classify -/

theorem isPrefixOf_append (p s : Bytes) : p.isPrefixOf (p ++ s) = true := by
  rw [List.isPrefixOf_iff_prefix]; exact List.prefix_append p s

theorem eq_append_of_isPrefixOf {p c : Bytes} (h : p.isPrefixOf c = true) : c = p ++ c.drop p.length := by
  rw [List.isPrefixOf_iff_prefix, List.prefix_iff_eq_append] at h; exact h.symm

theorem user_ne_gen (u : Bytes) : UserPrefix ++ u ≠ Gen := by
  intro h; simp [UserPrefix, Gen] at h
theorem time_ne_gen (s : Bytes) : TimePrefix ++ s ≠ Gen := by
  intro h; simp [TimePrefix, Gen] at h
theorem time_not_user (s : Bytes) : UserPrefix.isPrefixOf (TimePrefix ++ s) = false := by
  simp [UserPrefix, TimePrefix, List.isPrefixOf]
theorem gen_not_user : UserPrefix.isPrefixOf Gen = false := by decide
theorem gen_not_time : TimePrefix.isPrefixOf Gen = false := by decide

theorem classify_gen (u : Bytes) (now : Int) : classify Gen u now = .ok 1 := by simp [classify]

theorem classify_user (u : Bytes) (now : Int) : classify (UserPrefix ++ u) u now = .ok 2 := by
  simp [classify, user_ne_gen, isPrefixOf_append]

theorem classify_time (s u : Bytes) (now : Int) (h : verifyExpiry s now = true) : classify (TimePrefix ++ s) u now = .ok 4 := by
  simp [classify, time_ne_gen, time_not_user, isPrefixOf_append, h]

theorem classify_bits {c u : Bytes} {now : Int} {b : Nat} (h : classify c u now = .ok b) : b = 1 ∨ b = 2 ∨ b = 4 := by
  unfold classify at h
  split at h
  · cases h; simp
  · split at h
    · split at h
      · cases h
      · cases h; simp
    · split at h
      · split at h
        · cases h
        · cases h; simp
      · cases h

theorem classify_eq_one {c u : Bytes} {now : Int} (h : classify c u now = .ok 1) : c = Gen := by
  unfold classify at h
  split at h
  · assumption
  · split at h
    · split at h <;> cases h
    · split at h
      · split at h <;> cases h
      · cases h

theorem classify_eq_two {c u : Bytes} {now : Int} (h : classify c u now = .ok 2) : c = UserPrefix ++ u := by
  unfold classify at h
  split at h
  · cases h
  · split at h
    · rename_i hp
      split at h
      · cases h
      · rename_i hd
        have := eq_append_of_isPrefixOf hp
        rw [this]; congr 1; exact Classical.not_not.1 hd
    · split at h
      · split at h <;> cases h
      · cases h

theorem classify_eq_four {c u : Bytes} {now : Int} (h : classify c u now = .ok 4) :
    ∃ s, c = TimePrefix ++ s ∧ verifyExpiry s now = true := by
  unfold classify at h
  split at h
  · cases h
  · split at h
    · split at h <;> cases h
    · split at h
      · rename_i hp
        split at h
        · cases h
        · rename_i hd
          refine ⟨c.drop TimePrefix.length, eq_append_of_isPrefixOf hp, ?_⟩
          simpa using hd
      · cases h

/-! ## The bitmap loop -/

/-- number of set bits among the low three -/
def pop3 (v : Nat) : Nat := v % 2 + v / 2 % 2 + v / 4 % 2

theorem bits_table : ∀ v : Fin 8, ∀ b ∈ [1, 2, 4], v.val &&& b = 0 → pop3 (v.val ||| b) = pop3 v.val + 1 ∧ v.val ||| b < 8 := by
  decide

theorem bits_step {v b : Nat} (hv : v < 8) (hb : b = 1 ∨ b = 2 ∨ b = 4) (h : v &&& b = 0) :
    pop3 (v ||| b) = pop3 v + 1 ∧ v ||| b < 8 :=
  bits_table ⟨v, hv⟩ b (by rcases hb with rfl | rfl | rfl <;> simp) h

theorem pop3_seven : ∀ v : Fin 8, v.val = 7 ↔ pop3 v.val = 3 := by decide

theorem caveatLoop_length {u : Bytes} {now : Int} {cs : List Bytes} {v : Nat} (hv : v < 8)
    (h : caveatLoop u now cs v = .ok ()) : cs.length + pop3 v = 3 := by
  induction cs generalizing v with
  | nil =>
    simp only [caveatLoop] at h
    split at h
    · rename_i h7; subst h7; rfl
    · cases h
  | cons c rest ih =>
    simp only [caveatLoop] at h
    split at h
    · cases h
    · rename_i bit hc
      split at h
      · cases h
      · rename_i hd
        have hb := classify_bits hc
        have hz : v &&& bit = 0 := Classical.not_not.1 hd
        have ⟨hp, hlt⟩ := bits_step hv hb hz
        have := ih hlt h
        simp only [length_cons]; omega

/-- unfolding of the loop on a three-element list from the empty bitmap -/
theorem caveatLoop_three (u : Bytes) (now : Int) (a b c : Bytes) :
    caveatLoop u now [a, b, c] 0 = .ok () ↔
      ∃ ba bb bc, classify a u now = .ok ba ∧ classify b u now = .ok bb ∧ classify c u now = .ok bc ∧
        ba &&& bb = 0 ∧ (ba ||| bb) &&& bc = 0 ∧ (ba ||| bb) ||| bc = 7 := by
  simp only [caveatLoop, Nat.zero_and, ne_eq, not_true_eq_false, ↓reduceIte, Nat.zero_or]
  constructor
  · intro h
    split at h
    · cases h
    · rename_i ba ha
      split at h
      · cases h
      · rename_i bb hb
        split at h
        · cases h
        · rename_i h1
          split at h
          · cases h
          · rename_i bc hc
            split at h
            · cases h
            · rename_i h2
              split at h
              · rename_i h3
                exact ⟨ba, bb, bc, ha, hb, hc, Classical.not_not.1 h1, Classical.not_not.1 h2, h3⟩
              · cases h
  · rintro ⟨ba, bb, bc, ha, hb, hc, h1, h2, h3⟩
    simp [ha, hb, hc, h1, h2, h3]

theorem bits_perm : ∀ ba ∈ [1, 2, 4], ∀ bb ∈ [1, 2, 4], ∀ bc ∈ [1, 2, 4],
    ba &&& bb = 0 → (ba ||| bb) &&& bc = 0 → (ba ||| bb) ||| bc = 7 →
    (ba = 1 ∧ bb = 2 ∧ bc = 4) ∨ (ba = 1 ∧ bb = 4 ∧ bc = 2) ∨ (ba = 2 ∧ bb = 1 ∧ bc = 4) ∨
    (ba = 2 ∧ bb = 4 ∧ bc = 1) ∨ (ba = 4 ∧ bb = 1 ∧ bc = 2) ∨ (ba = 4 ∧ bb = 2 ∧ bc = 1) := by
  decide

theorem mem_bits {b : Nat} (h : b = 1 ∨ b = 2 ∨ b = 4) : b ∈ [1, 2, 4] := by
  rcases h with rfl | rfl | rfl <;> simp

/-- `verifyCaveats` succeeds exactly on the permutations of the three required caveats: `gen = 1`,
    `user_id = <userID>`, and one `time < s` whose `s` Atoi reads as an instant after `now`. -/
theorem verifyCaveats_iff (cs : List Bytes) (u : Bytes) (now : Int) :
    verifyCaveats cs u now = .ok () ↔
      ∃ s, verifyExpiry s now = true ∧ cs ~ [Gen, UserPrefix ++ u, TimePrefix ++ s] := by
  unfold verifyCaveats
  constructor
  · intro h
    have hl := caveatLoop_length (by decide) h
    simp only [pop3] at hl
    match cs, hl with
    | [a, b, c], _ =>
      obtain ⟨ba, bb, bc, ha, hb, hc, h1, h2, h3⟩ := (caveatLoop_three u now a b c).1 h
      have := bits_perm ba (mem_bits (classify_bits ha)) bb (mem_bits (classify_bits hb)) bc (mem_bits (classify_bits hc)) h1 h2 h3
      rcases this with ⟨rfl, rfl, rfl⟩ | ⟨rfl, rfl, rfl⟩ | ⟨rfl, rfl, rfl⟩ | ⟨rfl, rfl, rfl⟩ | ⟨rfl, rfl, rfl⟩ | ⟨rfl, rfl, rfl⟩
      · obtain ⟨s, rfl, hs⟩ := classify_eq_four hc
        rw [classify_eq_one ha, classify_eq_two hb]; exact ⟨s, hs, Perm.refl _⟩
      · obtain ⟨s, rfl, hs⟩ := classify_eq_four hb
        rw [classify_eq_one ha, classify_eq_two hc]; exact ⟨s, hs, Perm.cons _ (Perm.swap _ _ _)⟩
      · obtain ⟨s, rfl, hs⟩ := classify_eq_four hc
        rw [classify_eq_one hb, classify_eq_two ha]; exact ⟨s, hs, Perm.swap _ _ _⟩
      · obtain ⟨s, rfl, hs⟩ := classify_eq_four hb
        rw [classify_eq_one hc, classify_eq_two ha]
        exact ⟨s, hs, (Perm.cons _ (Perm.swap _ _ _)).trans (Perm.swap _ _ _)⟩
      · obtain ⟨s, rfl, hs⟩ := classify_eq_four ha
        rw [classify_eq_one hb, classify_eq_two hc]
        exact ⟨s, hs, (Perm.swap _ _ _).trans (Perm.cons _ (Perm.swap _ _ _))⟩
      · obtain ⟨s, rfl, hs⟩ := classify_eq_four ha
        rw [classify_eq_one hc, classify_eq_two hb]
        exact ⟨s, hs, ((Perm.swap _ _ _).trans (Perm.cons _ (Perm.swap _ _ _))).trans (Perm.swap _ _ _)⟩
  · rintro ⟨s, hs, hp⟩
    have hG := classify_gen u now
    have hU := classify_user u now
    have hT := classify_time s u now hs
    rcases perm_three hp with rfl | rfl | rfl | rfl | rfl | rfl <;>
      exact (caveatLoop_three u now _ _ _).2 ⟨_, _, _, by assumption, by assumption, by assumption, by decide, by decide, by decide⟩

/-! ## verifyExpiry, chains -/

theorem verifyExpiry_iff (s : Bytes) (now : Int) : verifyExpiry s now = true ↔ ∃ e, atoi s = some e ∧ now < e := by
  unfold verifyExpiry
  cases atoi s with
  | none => simp
  | some e => simp

/-- The idealisation of the keyed function used by the forgery theorems of C20: HMAC outputs collide
    neither with each other (jointly in key and message) nor with a derived root key, and root-key
    derivation is injective.  (True of no finite function; the standard symbolic reading of PRF /
    collision resistance.  `toy` satisfies it.) -/
structure IdealMac {K : Type} (S : MacScheme K) : Prop where
  derive_inj : ∀ k k', S.derive k = S.derive k' → k = k'
  mac_inj : ∀ s s' m m', S.mac s m = S.mac s' m' → s = s' ∧ m = m'
  derive_ne_mac : ∀ k s m, S.derive k ≠ S.mac s m

theorem toy_ideal : IdealMac toy where
  derive_inj := by intro k k' h; simpa [toy] using h
  mac_inj := by
    intro s s' m m' h
    simp only [toy, Prod.mk.injEq, cons.injEq] at h
    exact ⟨Prod.ext h.1 h.2.2, h.2.1⟩
  derive_ne_mac := by intro k s m h; simp [toy] at h

theorem foldr_mac_inj {K} {S : MacScheme K} (I : IdealMac S) (k k' id id' : Bytes) :
    ∀ (r r' : List Bytes),
      r.foldr (fun c s => S.mac s c) (S.mac (S.derive k) id) = r'.foldr (fun c s => S.mac s c) (S.mac (S.derive k') id') →
      k = k' ∧ id = id' ∧ r = r' := by
  intro r
  induction r with
  | nil =>
    intro r' h
    cases r' with
    | nil =>
      simp only [foldr_nil] at h
      have ⟨h1, h2⟩ := I.mac_inj _ _ _ _ h
      exact ⟨I.derive_inj _ _ h1, h2, rfl⟩
    | cons x t =>
      simp only [foldr_nil, foldr_cons] at h
      have ⟨h1, _⟩ := I.mac_inj _ _ _ _ h
      cases t with
      | nil => exact absurd h1 (I.derive_ne_mac _ _ _)
      | cons y t' => exact absurd h1 (I.derive_ne_mac _ _ _)
  | cons x t ih =>
    intro r' h
    cases r' with
    | nil =>
      simp only [foldr_nil, foldr_cons] at h
      have ⟨h1, _⟩ := I.mac_inj _ _ _ _ h
      cases t with
      | nil => exact absurd h1.symm (I.derive_ne_mac _ _ _)
      | cons y t' => exact absurd h1.symm (I.derive_ne_mac _ _ _)
    | cons x' t' =>
      simp only [foldr_cons] at h
      have ⟨h1, h2⟩ := I.mac_inj _ _ _ _ h
      have ⟨a, b, c⟩ := ih t' h1
      exact ⟨a, b, by rw [h2, c]⟩

/-- Under `IdealMac` the signature chain determines the key, the identifier and the caveat list. -/
theorem chain_inj {K} {S : MacScheme K} (I : IdealMac S) {k k' id id' : Bytes} {cs cs' : List Bytes}
    (h : chain S k id cs = chain S k' id' cs') : k = k' ∧ id = id' ∧ cs = cs' := by
  unfold chain at h
  rw [← List.foldr_reverse, ← List.foldr_reverse] at h
  have ⟨a, b, c⟩ := foldr_mac_inj I k k' id id' _ _ h
  exact ⟨a, b, List.reverse_inj.1 c⟩

/-! ## The specification of the third stream (`Spec.validOk`) is the theorem's right-hand side -/

theorem perm_of_three_mem {α} {l : List α} {a b c : α} (hl : l.length = 3) (hab : a ≠ b) (hac : a ≠ c) (hbc : b ≠ c)
    (ha : a ∈ l) (hb : b ∈ l) (hc : c ∈ l) : l ~ [a, b, c] := by
  match l, hl with
  | [x, y, z], _ =>
    simp only [mem_cons, not_mem_nil, or_false] at ha hb hc
    rcases ha with rfl | rfl | rfl <;> rcases hb with rfl | rfl | rfl <;> rcases hc with rfl | rfl | rfl <;>
      first
        | exact absurd rfl hab
        | exact absurd rfl hac
        | exact absurd rfl hbc
        | exact Perm.refl _
        | exact Perm.cons _ (Perm.swap _ _ _)
        | exact Perm.swap _ _ _
        | exact (Perm.cons _ (Perm.swap _ _ _)).trans (Perm.swap _ _ _)
        | exact (Perm.swap _ _ _).trans (Perm.cons _ (Perm.swap _ _ _))
        | exact ((Perm.swap _ _ _).trans (Perm.cons _ (Perm.swap _ _ _))).trans (Perm.swap _ _ _)

theorem spec_timeOk_eq (now : Int) (c : Bytes) :
    Spec.timeOk now c = (TimePrefix.isPrefixOf c && verifyExpiry (c.drop TimePrefix.length) now) := by
  unfold Spec.timeOk verifyExpiry
  cases atoi (c.drop TimePrefix.length) <;> rfl

theorem spec_timeOk_iff (now : Int) (c : Bytes) : Spec.timeOk now c = true ↔ ∃ s, c = TimePrefix ++ s ∧ verifyExpiry s now = true := by
  rw [spec_timeOk_eq]
  constructor
  · intro h
    simp only [Bool.and_eq_true] at h
    exact ⟨c.drop TimePrefix.length, eq_append_of_isPrefixOf h.1, h.2⟩
  · rintro ⟨s, rfl, hs⟩
    simp only [Bool.and_eq_true, isPrefixOf_append, true_and]
    have : (TimePrefix ++ s).drop TimePrefix.length = s := by simp
    rw [this]; exact hs

theorem exists_of_count_pos {p : Bytes → Bool} {l : List Bytes} (h : Spec.count p l = 1) : ∃ a ∈ l, p a = true := by
  unfold Spec.count at h
  match hf : l.filter p with
  | [] => rw [hf] at h; cases h
  | a :: _ =>
    have : a ∈ l.filter p := by rw [hf]; simp
    exact ⟨a, (mem_filter.1 this).1, (mem_filter.1 this).2⟩

theorem count_perm {p : Bytes → Bool} {l₁ l₂ : List Bytes} (h : l₁ ~ l₂) : Spec.count p l₁ = Spec.count p l₂ := by
  unfold Spec.count; exact (h.filter p).length_eq

theorem user_not_time (u : Bytes) : TimePrefix.isPrefixOf (UserPrefix ++ u) = false := by
  simp [UserPrefix, TimePrefix, List.isPrefixOf]

/-- counting formulation ⇔ permutation formulation -/
theorem spec_caveats_iff (cs : List Bytes) (u : Bytes) (now : Int) :
    (cs.length = 3 ∧ Spec.count (· == Gen) cs = 1 ∧ Spec.count (· == UserPrefix ++ u) cs = 1 ∧ Spec.count (Spec.timeOk now) cs = 1) ↔
      ∃ s, verifyExpiry s now = true ∧ cs ~ [Gen, UserPrefix ++ u, TimePrefix ++ s] := by
  constructor
  · rintro ⟨hl, hg, hu, ht⟩
    obtain ⟨a, ha, hpa⟩ := exists_of_count_pos hg
    obtain ⟨b, hb, hpb⟩ := exists_of_count_pos hu
    obtain ⟨c, hc, hpc⟩ := exists_of_count_pos ht
    have ea : a = Gen := by simpa using hpa
    have eb : b = UserPrefix ++ u := by simpa using hpb
    obtain ⟨s, ec, hs⟩ := (spec_timeOk_iff now c).1 hpc
    subst ea eb ec
    exact ⟨s, hs, perm_of_three_mem hl (Ne.symm (user_ne_gen u)) (Ne.symm (time_ne_gen s))
      (by intro h
          have : UserPrefix.isPrefixOf (TimePrefix ++ s) = true := by rw [← h]; exact isPrefixOf_append _ _
          rw [time_not_user] at this; cases this) ha hb hc⟩
  · rintro ⟨s, hs, hp⟩
    have hT : Spec.timeOk now (TimePrefix ++ s) = true := (spec_timeOk_iff now _).2 ⟨s, rfl, hs⟩
    have hTG : Spec.timeOk now Gen = false := by simp [spec_timeOk_eq, gen_not_time]
    have hTU : Spec.timeOk now (UserPrefix ++ u) = false := by simp [spec_timeOk_eq, user_not_time]
    have h1 : ((UserPrefix ++ u) == Gen) = false := by simpa using user_ne_gen u
    have h2 : ((TimePrefix ++ s) == Gen) = false := by simpa using time_ne_gen s
    have h3 : (Gen == UserPrefix ++ u) = false := by simpa using Ne.symm (user_ne_gen u)
    have h4 : ((TimePrefix ++ s) == UserPrefix ++ u) = false := by
      rw [beq_eq_false_iff_ne]; intro h
      have : UserPrefix.isPrefixOf (TimePrefix ++ s) = true := by rw [h]; exact isPrefixOf_append _ _
      rw [time_not_user] at this; cases this
    refine ⟨by simpa using hp.length_eq, ?_, ?_, ?_⟩
    · rw [count_perm hp]; simp [Spec.count, List.filter, h1, h2]
    · rw [count_perm hp]; simp [Spec.count, List.filter, h3, h4]
    · rw [count_perm hp]; simp [Spec.count, List.filter, hT, hTG, hTU]

end V.Tokens
