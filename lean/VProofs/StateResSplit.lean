/-
  `splitConflictedUnconflicted` of the state-resolution model: closed form, membership
  characterisation, and independence of the order of the state sets / of the events inside them.
  Core only.
-/
import VProofs.StateResGroup
namespace V.StateRes
open V Json GoJson Auth List

/-- the distinct state events of the state sets -/
abbrev dse (sets : List (List Event)) : List Event := distinctStateEvents sets

theorem dse_eq (sets : List (List Event)) :
    dse sets = (eventMapFromEvents sets.flatten).filter (fun e => e.stateKey.isSome) := rfl

theorem mem_dse {sets : List (List Event)} {e : Event} (h : e ∈ dse sets) : e ∈ sets.flatten ∧ e.stateKey.isSome := by
  rw [dse_eq, List.mem_filter] at h
  exact ⟨mem_eventMap h.1, h.2⟩

theorem dse_idNodup (sets : List (List Event)) : IdNodup (dse sets) :=
  (eventMap_idNodup _).filter _

theorem dse_perm {U : Event → Prop} (hU : EvId U) {sets sets' : List (List Event)}
    (hs : ∀ s ∈ sets, ∀ x ∈ s, U x) (h : SetsEquiv sets sets') : dse sets ~ dse sets' := by
  have hp := h.flatten_perm
  have hl : ∀ x ∈ sets.flatten, U x := by
    intro x hx
    obtain ⟨s, hs', hxs⟩ := List.mem_flatten.mp hx
    exact hs s hs' x hxs
  have hl' : ∀ x ∈ sets'.flatten, U x := fun x hx => hl x (hp.mem_iff.mpr hx)
  exact (eventMap_perm hU hl hl' (SameSet.of_perm hp)).filter _

/-! ## Closed form -/

/-- what a group contributes to the conflicted events -/
def conflictedOf (v1 : Bool) (sets : List (List Event)) (g : (Bytes × Bytes) × List Event) : List Event :=
  if g.2.length > 1 then g.2 else if v1 then [] else g.2.filter (fun e => !(countID sets e.eventID == sets.length))

/-- what a group contributes to the unconflicted events -/
def unconfOf (v1 : Bool) (sets : List (List Event)) (g : (Bytes × Bytes) × List Event) : List Event :=
  if g.2.length > 1 then [] else if v1 then g.2 else g.2.filter (fun e => countID sets e.eventID == sets.length)

/-- the fold step of `splitConflictedUnconflicted` (the lambda of the model, verbatim) -/
def splitStep (v1 : Bool) (sets : List (List Event)) (acc : List Event × List Event)
    (g : (Bytes × Bytes) × List Event) : List Event × List Event :=
  if g.2.length > 1 then (acc.1 ++ g.2, acc.2)
  else if v1 then (acc.1, acc.2 ++ g.2)
  else g.2.foldl (fun (a : List Event × List Event) e =>
    if countID sets e.eventID == sets.length then (a.1, a.2 ++ g.2) else (a.1 ++ [e], a.2)) acc

theorem split_eq_foldl (v1 : Bool) (sets : List (List Event)) :
    splitConflictedUnconflicted v1 sets = (groupByKey (dse sets)).foldl (splitStep v1 sets) ([], []) := rfl

theorem splitStep_eq (v1 : Bool) (sets : List (List Event)) (acc : List Event × List Event)
    (g : (Bytes × Bytes) × List Event) :
    splitStep v1 sets acc g = (acc.1 ++ conflictedOf v1 sets g, acc.2 ++ unconfOf v1 sets g) := by
  unfold splitStep conflictedOf unconfOf
  by_cases hl : g.2.length > 1
  · simp only [hl, if_true, List.append_nil]
  · simp only [hl, if_false]
    cases v1 with
    | true => simp
    | false =>
      simp only [Bool.false_eq_true, if_false]
      match hg : g.2, hl with
      | [], _ => simp
      | [e], _ =>
        by_cases hc : countID sets e.eventID = sets.length
        · simp [hc]
        · simp [hc]
      | _ :: _ :: _, hl => exact absurd hl (by simp)

theorem splitFold_eq (v1 : Bool) (sets : List (List Event)) (G : List ((Bytes × Bytes) × List Event))
    (acc : List Event × List Event) :
    G.foldl (splitStep v1 sets) acc =
      (acc.1 ++ G.flatMap (conflictedOf v1 sets), acc.2 ++ G.flatMap (unconfOf v1 sets)) := by
  induction G generalizing acc with
  | nil => simp
  | cons g G ih =>
    rw [List.foldl_cons, ih, splitStep_eq]
    simp only [List.flatMap_cons, List.append_assoc]

/-- **closed form of the split** -/
theorem split_closed (v1 : Bool) (sets : List (List Event)) :
    splitConflictedUnconflicted v1 sets =
      ((groupByKey (dse sets)).flatMap (conflictedOf v1 sets), (groupByKey (dse sets)).flatMap (unconfOf v1 sets)) := by
  rw [split_eq_foldl, splitFold_eq]; simp

theorem conflictedOf_sublist (v1 : Bool) (sets : List (List Event)) (g : (Bytes × Bytes) × List Event) :
    conflictedOf v1 sets g <+ g.2 := by
  unfold conflictedOf
  split
  · exact List.Sublist.refl _
  · split
    · exact List.nil_sublist _
    · exact List.filter_sublist

theorem unconfOf_sublist (v1 : Bool) (sets : List (List Event)) (g : (Bytes × Bytes) × List Event) :
    unconfOf v1 sets g <+ g.2 := by
  unfold unconfOf
  split
  · exact List.nil_sublist _
  · split
    · exact List.Sublist.refl _
    · exact List.filter_sublist

theorem unconfOf_length (v1 : Bool) (sets : List (List Event)) (g : (Bytes × Bytes) × List Event) :
    (unconfOf v1 sets g).length ≤ 1 := by
  by_cases hl : g.2.length > 1
  · unfold unconfOf; rw [if_pos hl]; simp
  · have := (unconfOf_sublist v1 sets g).length_le
    omega

theorem mem_conflictedOf {v1 : Bool} {sets : List (List Event)} {g : (Bytes × Bytes) × List Event} {e : Event} :
    e ∈ conflictedOf v1 sets g ↔
      e ∈ g.2 ∧ (g.2.length > 1 ∨ (v1 = false ∧ countID sets e.eventID ≠ sets.length)) := by
  unfold conflictedOf
  by_cases hl : g.2.length > 1
  · simp [hl]
  · cases v1 <;> simp [hl]

theorem mem_unconfOf {v1 : Bool} {sets : List (List Event)} {g : (Bytes × Bytes) × List Event} {e : Event} :
    e ∈ unconfOf v1 sets g ↔
      e ∈ g.2 ∧ g.2.length = 1 ∧ (v1 = false → countID sets e.eventID = sets.length) := by
  unfold unconfOf
  by_cases hl : g.2.length > 1
  · simp only [hl, if_true, List.not_mem_nil, false_iff]
    intro h; omega
  · have h1 : e ∈ g.2 → g.2.length = 1 := by
      intro he
      have := List.length_pos_of_mem he
      omega
    cases v1
    · simp only [hl, if_false, Bool.false_eq_true, List.mem_filter, beq_iff_eq, true_imp_iff]
      exact ⟨fun h => ⟨h.1, h1 h.1, h.2⟩, fun h => ⟨h.1, h.2.2⟩⟩
    · simp only [hl, if_false, if_true]
      exact ⟨fun h => ⟨h, h1 h, fun hh => by cases hh⟩, fun h => h.1⟩

/-! ## Membership -/

/-- in the groups of `dse sets` the group of `e` is the class of its key -/
theorem dse_group_of_mem {sets : List (List Event)} {g} (hg : g ∈ groupByKey (dse sets)) {e : Event} (he : e ∈ g.2) :
    e ∈ dse sets ∧ g.2 = (dse sets).filter (hasKey (keyOf e)) := by
  obtain ⟨h1, _, h3⟩ := (groupByKey_mem hg).mp he
  exact ⟨h1, by rw [h3]; exact (groupByKey_group hg).1⟩

theorem dse_group_exists {sets : List (List Event)} {e : Event} (he : e ∈ dse sets) :
    ∃ g ∈ groupByKey (dse sets), e ∈ g.2 ∧ g.2 = (dse sets).filter (hasKey (keyOf e)) := by
  obtain ⟨g, hg, _, heg⟩ := groupByKey_cover he (mem_dse he).2
  exact ⟨g, hg, heg, (dse_group_of_mem hg heg).2⟩

theorem mem_split_conflicted (v1 : Bool) (sets : List (List Event)) (e : Event) :
    e ∈ (splitConflictedUnconflicted v1 sets).1 ↔
      e ∈ dse sets ∧ (((dse sets).filter (hasKey (keyOf e))).length > 1 ∨
        (v1 = false ∧ countID sets e.eventID ≠ sets.length)) := by
  rw [split_closed]
  simp only [List.mem_flatMap]
  constructor
  · rintro ⟨g, hg, he⟩
    obtain ⟨heg, hc⟩ := mem_conflictedOf.mp he
    obtain ⟨hd, hg2⟩ := dse_group_of_mem hg heg
    rw [hg2] at hc
    exact ⟨hd, hc⟩
  · rintro ⟨hd, hc⟩
    obtain ⟨g, hg, heg, hg2⟩ := dse_group_exists hd
    refine ⟨g, hg, mem_conflictedOf.mpr ⟨heg, ?_⟩⟩
    rw [hg2]; exact hc

theorem mem_split_unconflicted (v1 : Bool) (sets : List (List Event)) (e : Event) :
    e ∈ (splitConflictedUnconflicted v1 sets).2 ↔
      e ∈ dse sets ∧ ((dse sets).filter (hasKey (keyOf e))).length = 1 ∧
        (v1 = false → countID sets e.eventID = sets.length) := by
  rw [split_closed]
  simp only [List.mem_flatMap]
  constructor
  · rintro ⟨g, hg, he⟩
    obtain ⟨heg, hc⟩ := mem_unconfOf.mp he
    obtain ⟨hd, hg2⟩ := dse_group_of_mem hg heg
    rw [hg2] at hc
    exact ⟨hd, hc⟩
  · rintro ⟨hd, hc⟩
    obtain ⟨g, hg, heg, hg2⟩ := dse_group_exists hd
    refine ⟨g, hg, mem_unconfOf.mpr ⟨heg, ?_⟩⟩
    rw [hg2]; exact hc

/-- everything that comes out is a supplied state event -/
theorem split_sub (v1 : Bool) (sets : List (List Event)) {e : Event}
    (h : e ∈ (splitConflictedUnconflicted v1 sets).1 ∨ e ∈ (splitConflictedUnconflicted v1 sets).2) :
    e ∈ sets.flatten ∧ e.stateKey.isSome := by
  rcases h with h | h
  · exact mem_dse ((mem_split_conflicted v1 sets e).mp h).1
  · exact mem_dse ((mem_split_unconflicted v1 sets e).mp h).1

/-- an event is never both conflicted and unconflicted -/
theorem split_disjoint (v1 : Bool) (sets : List (List Event)) {e : Event}
    (h1 : e ∈ (splitConflictedUnconflicted v1 sets).1) (h2 : e ∈ (splitConflictedUnconflicted v1 sets).2) : False := by
  obtain ⟨_, hc⟩ := (mem_split_conflicted v1 sets e).mp h1
  obtain ⟨_, hl, hu⟩ := (mem_split_unconflicted v1 sets e).mp h2
  rcases hc with hc | ⟨hv, hc⟩
  · omega
  · exact hc (hu hv)

/-- every distinct state event is conflicted or unconflicted -/
theorem split_cover (v1 : Bool) (sets : List (List Event)) {e : Event} (h : e ∈ dse sets) :
    e ∈ (splitConflictedUnconflicted v1 sets).1 ∨ e ∈ (splitConflictedUnconflicted v1 sets).2 := by
  rw [mem_split_conflicted, mem_split_unconflicted]
  have hpos : ((dse sets).filter (hasKey (keyOf e))).length > 0 :=
    List.length_pos_of_mem (List.mem_filter.mpr ⟨h, hasKey_keyOf (mem_dse h).2⟩)
  by_cases hl : ((dse sets).filter (hasKey (keyOf e))).length > 1
  · exact Or.inl ⟨h, Or.inl hl⟩
  · by_cases hc : v1 = false ∧ countID sets e.eventID ≠ sets.length
    · exact Or.inl ⟨h, Or.inr hc⟩
    · refine Or.inr ⟨h, by omega, fun hv => ?_⟩
      exact Classical.byContradiction fun hne => hc ⟨hv, hne⟩

/-! ## Distinct keys / distinct IDs -/

theorem unconfOf_keys (v1 : Bool) (sets : List (List Event)) {evs : List Event} {g} (hg : g ∈ groupByKey evs) :
    (unconfOf v1 sets g).map keyOf <+ [g.1] := by
  have hlen := unconfOf_length v1 sets g
  have hk : ∀ e ∈ unconfOf v1 sets g, keyOf e = g.1 := fun e he =>
    ((groupByKey_mem hg).mp ((unconfOf_sublist v1 sets g).mem he)).2.2
  match hu : unconfOf v1 sets g, hlen, hk with
  | [], _, _ => exact List.nil_sublist _
  | [e], _, hk => rw [List.map_cons, hk e (List.mem_singleton.mpr rfl)]; exact List.Sublist.refl _
  | _ :: _ :: _, hlen, _ => exact absurd hlen (by simp)

theorem unconf_keys_sublist (v1 : Bool) (sets : List (List Event)) {evs : List Event}
    (G : List ((Bytes × Bytes) × List Event)) (hG : ∀ g ∈ G, g ∈ groupByKey evs) :
    (G.flatMap (unconfOf v1 sets)).map keyOf <+ G.map (·.1) := by
  induction G with
  | nil => exact List.Sublist.refl _
  | cons g G ih =>
    rw [List.flatMap_cons, List.map_append, List.map_cons]
    have h1 := unconfOf_keys v1 sets (hG g List.mem_cons_self)
    have h2 := ih (fun g' hg' => hG g' (List.mem_cons_of_mem _ hg'))
    exact h1.append h2

/-- the unconflicted events occupy pairwise distinct (type, state_key) slots -/
theorem split_unconflicted_keys (v1 : Bool) (sets : List (List Event)) :
    (((splitConflictedUnconflicted v1 sets).2).map keyOf).Nodup := by
  rw [split_closed]
  exact (unconf_keys_sublist v1 sets _ (fun _ h => h)).nodup (groupByKey_keys_nodup _)

/-- picking a sublist of every group of an ID-duplicate-free list gives an ID-duplicate-free list -/
theorem groups_flatMap_idNodup {evs : List Event} (hev : IdNodup evs)
    (f : (Bytes × Bytes) × List Event → List Event) (hf : ∀ g, f g <+ g.2) :
    IdNodup ((groupByKey evs).flatMap f) := by
  unfold IdNodup List.Nodup
  rw [List.pairwise_map, List.pairwise_flatMap]
  constructor
  · intro g hg
    have h1 : IdNodup g.2 := by rw [(groupByKey_group hg).1]; exact hev.filter _
    have h2 : IdNodup (f g) := by
      unfold IdNodup at *; exact List.Nodup.sublist ((hf g).map _) h1
    unfold IdNodup List.Nodup at h2
    rwa [List.pairwise_map] at h2
  · have hk := groupByKey_keys_nodup evs
    unfold List.Nodup at hk
    rw [List.pairwise_map] at hk
    refine List.Pairwise.imp_of_mem ?_ hk
    intro g g' hg hg' hne x hx y hy hid
    obtain ⟨hxe, _, hxk⟩ := (groupByKey_mem hg).mp ((hf g).mem hx)
    obtain ⟨hye, _, hyk⟩ := (groupByKey_mem hg').mp ((hf g').mem hy)
    have : x = y := hev.idsIn x y hxe hye hid
    subst this
    exact hne (hxk.symm.trans hyk)

theorem split_idNodup (v1 : Bool) (sets : List (List Event)) :
    IdNodup (splitConflictedUnconflicted v1 sets).1 ∧ IdNodup (splitConflictedUnconflicted v1 sets).2 := by
  rw [split_closed]
  exact ⟨groups_flatMap_idNodup (dse_idNodup sets) _ (conflictedOf_sublist v1 sets),
    groups_flatMap_idNodup (dse_idNodup sets) _ (unconfOf_sublist v1 sets)⟩

/-! ## Order independence -/

/-- **order independence of the split** -/
theorem split_perm_invariant {U : Event → Prop} (hU : EvId U) (v1 : Bool) {sets sets' : List (List Event)}
    (hs : ∀ s ∈ sets, ∀ x ∈ s, U x) (h : SetsEquiv sets sets') :
    SameSet (splitConflictedUnconflicted v1 sets).1 (splitConflictedUnconflicted v1 sets').1 ∧
    SameSet (splitConflictedUnconflicted v1 sets).2 (splitConflictedUnconflicted v1 sets').2 := by
  have hp := dse_perm hU hs h
  have hlen : ∀ e : Event, ((dse sets).filter (hasKey (keyOf e))).length = ((dse sets').filter (hasKey (keyOf e))).length :=
    fun e => (hp.filter _).length_eq
  constructor
  · intro e
    rw [mem_split_conflicted, mem_split_conflicted, hp.mem_iff, hlen e, h.countID_eq, h.length_eq]
  · intro e
    rw [mem_split_unconflicted, mem_split_unconflicted, hp.mem_iff, hlen e, h.countID_eq, h.length_eq]

/-- and as permutations -/
theorem split_perm_invariant_perm {U : Event → Prop} (hU : EvId U) (v1 : Bool) {sets sets' : List (List Event)}
    (hs : ∀ s ∈ sets, ∀ x ∈ s, U x) (h : SetsEquiv sets sets') :
    (splitConflictedUnconflicted v1 sets).1 ~ (splitConflictedUnconflicted v1 sets').1 ∧
    (splitConflictedUnconflicted v1 sets).2 ~ (splitConflictedUnconflicted v1 sets').2 := by
  obtain ⟨h1, h2⟩ := split_perm_invariant hU v1 hs h
  exact ⟨h1.perm (split_idNodup v1 sets).1.nodup (split_idNodup v1 sets').1.nodup,
    h2.perm (split_idNodup v1 sets).2.nodup (split_idNodup v1 sets').2.nodup⟩

/-! ## All state sets equal -/

/-- in a list whose `k`-values are pairwise distinct exactly one member has the `k`-value of a given member -/
theorem filter_key_length_one {α β} [BEq β] [LawfulBEq β] (k : α → β) {l : List α} (hn : (l.map k).Nodup) {e : α} (he : e ∈ l) :
    (l.filter (fun x => k x == k e)).length = 1 := by
  induction l with
  | nil => cases he
  | cons a as ih =>
    simp only [List.map_cons, List.nodup_cons, List.mem_map, not_exists, not_and] at hn
    rcases List.mem_cons.mp he with rfl | he'
    · have : as.filter (fun x => k x == k e) = [] := by
        rw [List.filter_eq_nil_iff]; intro x hx hxe
        exact hn.1 x hx (by simpa using hxe)
      rw [List.filter_cons, if_pos (by simp), this]; rfl
    · have hne : ¬ (k a == k e) = true := by
        intro hh
        have hh' : k a = k e := by simpa using hh
        exact hn.1 e he' hh'.symm
      rw [List.filter_cons, if_neg hne]
      exact ih hn.2 he'

theorem flatten_filter_length {α} (p : α → Bool) (sets : List (List α)) (h : ∀ s ∈ sets, (s.filter p).length = 1) :
    (sets.flatten.filter p).length = sets.length := by
  induction sets with
  | nil => rfl
  | cons s ss ih =>
    rw [List.flatten_cons, List.filter_append, List.length_append, h s List.mem_cons_self,
      ih (fun s' hs' => h s' (List.mem_cons_of_mem _ hs')), List.length_cons]
    omega

/-- all state sets are rearrangements of one duplicate-free set `S` of state events with distinct keys:
    nothing is conflicted and the unconflicted events are `S` -/
theorem split_all_equal (S : List Event) (hS : IdNodup S) (hkeys : (S.map keyOf).Nodup) (hst : ∀ e ∈ S, e.stateKey.isSome)
    (sets : List (List Event)) (hne : sets ≠ []) (h : ∀ s ∈ sets, s ~ S) :
    (splitConflictedUnconflicted false sets).1 = [] ∧ SameSet (splitConflictedUnconflicted false sets).2 S := by
  -- the flattened sets have the elements of S
  have hflat : SameSet sets.flatten S := by
    intro x
    rw [List.mem_flatten]
    constructor
    · rintro ⟨s, hs, hx⟩; exact (h s hs).mem_iff.mp hx
    · intro hx
      obtain ⟨s, hs⟩ := List.exists_mem_of_ne_nil _ hne
      exact ⟨s, hs, (h s hs).mem_iff.mpr hx⟩
  have hids : IdsIn sets.flatten := hS.idsIn.mono (fun x hx => (hflat x).mp hx)
  have hdse : SameSet (dse sets) S := by
    intro x
    rw [dse_eq, List.mem_filter, eventMap_sameSet hids x, hflat x]
    exact ⟨fun hx => hx.1, fun hx => ⟨hx, hst x hx⟩⟩
  have hperm : dse sets ~ S := hdse.perm (dse_idNodup sets).nodup hS.nodup
  -- every key class has one member
  have hlen : ∀ e ∈ S, ((dse sets).filter (hasKey (keyOf e))).length = 1 := by
    intro e he
    rw [(hperm.filter _).length_eq]
    have : S.filter (hasKey (keyOf e)) = S.filter (fun x => keyOf x == keyOf e) := by
      apply List.filter_congr
      intro x hx
      unfold hasKey; rw [hst x hx]; rfl
    rw [this]
    exact filter_key_length_one keyOf hkeys he
  -- every event is in every set
  have hcount : ∀ e ∈ S, countID sets e.eventID = sets.length := by
    intro e he
    rw [countID_eq]
    apply flatten_filter_length
    intro s hs
    rw [((h s hs).filter _).length_eq]
    exact filter_key_length_one (fun x : Event => x.eventID) hS he
  constructor
  · rw [List.eq_nil_iff_forall_not_mem]
    intro e he
    obtain ⟨hd, hc⟩ := (mem_split_conflicted false sets e).mp he
    have heS := (hdse e).mp hd
    rcases hc with hc | ⟨_, hc⟩
    · have := hlen e heS; omega
    · exact hc (hcount e heS)
  · intro e
    rw [mem_split_unconflicted]
    constructor
    · intro hh; exact (hdse e).mp hh.1
    · intro heS; exact ⟨(hdse e).mpr heS, hlen e heS, fun _ => hcount e heS⟩

end V.StateRes
