/-
  Kahn's algorithm of VModel.StateRes (`kahn`): the output is a permutation of the distinct input events (always);
  for acyclic input nothing is left over and no event comes before one of its parents / ancestors.
  Instances: `reverseTopoAuth`, `reverseTopoPrev`.  Core only.
-/
import VProofs.StateResKahnTopo
namespace V.StateRes
open V Json GoJson Auth List

section
variable {κ : Type}

/-! ## Permutation (no acyclicity needed) -/

/-- no acyclicity needed: the output is a permutation of the distinct input events
    (strays included; the fuel never runs out) -/
theorem kahn_perm (lt : κ → κ → Bool) (parents : Event → List ID) (nodes0 : List (KNode κ)) :
    kahn lt parents nodes0 ~ (kNodes nodes0).map (·.ev) := by
  rw [kahn_eq]
  obtain ⟨d', h⟩ := kahnLoop_final lt parents nodes0
  unfold kahnOut
  refine List.Perm.map _ ?_
  have := h.perm
  simp only [List.append_nil] at this
  exact ((sortBy_perm _ _).append_right _).trans this

/-- the output has pairwise distinct event IDs -/
theorem kahn_idNodup (lt : κ → κ → Bool) (parents : Event → List ID) (nodes0 : List (KNode κ)) :
    IdNodup (kahn lt parents nodes0) := by
  unfold IdNodup
  have h := (kahn_perm lt parents nodes0).map (·.eventID)
  rw [List.map_map] at h
  exact h.nodup_iff.mpr (kNodes_idNodup nodes0)

/-- always: the output is `strays ++ graph`, the `graph` part is topologically ordered and no placed event is a
    parent of a stray (so an event comes before one of its parents only if it is a stray) -/
theorem kahn_split (lt : κ → κ → Bool) (parents : Event → List ID) (nodes0 : List (KNode κ)) :
    ∃ strays graph : List Event, kahn lt parents nodes0 = strays ++ graph ∧
      graph.Pairwise (fun a b => b.eventID ∉ parents a) ∧
      (∀ g ∈ graph, ∀ s ∈ strays, g.eventID ∉ parents s) := by
  rw [kahn_eq]
  obtain ⟨d', h⟩ := kahnLoop_final lt parents nodes0
  unfold kahnOut
  refine ⟨_, _, List.map_append, ?_, ?_⟩
  · rw [List.pairwise_map]; exact h.topo
  · intro g hg s hs
    obtain ⟨g', hg', rfl⟩ := List.mem_map.mp hg
    obtain ⟨s', hs', rfl⟩ := List.mem_map.mp hs
    exact h.placed g' hg' s' (by simpa using (mem_sortBy _).mp hs')

/-! ## Acyclic input -/

/-- acyclic on the input: some rank strictly increases from every parent present in the input to its child -/
def KAcyclic (parents : Event → List ID) (nodes : List (KNode κ)) : Prop :=
  ∃ rk : ID → Nat, ∀ n ∈ nodes, ∀ p ∈ parents n.ev, p ∈ nodes.map (·.ev.eventID) → rk p < rk n.ev.eventID

theorem KAcyclic.dedup {parents : Event → List ID} {nodes0 : List (KNode κ)} (h : KAcyclic parents nodes0) :
    KAcyclic parents (kNodes nodes0) := by
  obtain ⟨rk, hrk⟩ := h
  refine ⟨rk, fun n hn p hp hpn => hrk n (mem_kNodes hn) p hp ?_⟩
  obtain ⟨m, hm, rfl⟩ := List.mem_map.mp hpn
  exact List.mem_map.mpr ⟨m, mem_kNodes hm, rfl⟩

theorem exists_max_rank {α : Type} (f : α → Nat) : ∀ l : List α, l ≠ [] → ∃ x ∈ l, ∀ y ∈ l, f y ≤ f x := by
  intro l
  induction l with
  | nil => intro h; exact absurd rfl h
  | cons a as ih =>
    intro _
    by_cases has : as = []
    · subst has; exact ⟨a, by simp, by simp⟩
    · obtain ⟨x, hx, hmax⟩ := ih has
      by_cases hax : f x ≤ f a
      · refine ⟨a, by simp, ?_⟩
        intro y hy
        rcases List.mem_cons.mp hy with rfl | hy
        · exact Nat.le_refl _
        · exact Nat.le_trans (hmax y hy) hax
      · refine ⟨x, List.mem_cons_of_mem _ hx, ?_⟩
        intro y hy
        rcases List.mem_cons.mp hy with rfl | hy
        · omega
        · exact hmax y hy

/-- when nothing is ready and the input is acyclic, nothing is waiting either -/
theorem KLoopInv.no_strays {parents : Event → List ID} {nodes rem graph : List (KNode κ)} {d : List (ID × Nat)}
    (h : KLoopInv parents nodes rem d [] graph) (hac : KAcyclic parents nodes) : rem = [] := by
  obtain ⟨rk, hrk⟩ := hac
  false_or_by_contra
  rename_i hne
  obtain ⟨r, hr, hmax⟩ := exists_max_rank (fun n : KNode κ => rk n.ev.eventID) rem hne
  have hmem : ∀ n ∈ rem, n ∈ nodes := fun n hn => h.perm.mem_iff.mp (by simp [hn])
  have hdeg := h.deg r.ev.eventID
  have hpos := h.pos r hr
  have hdom := h.dom r hr
  have hc : 0 < cnt parents r.ev.eventID rem := by
    cases hd : kDegOf d r.ev.eventID with
    | none => rw [hd] at hdom; cases hdom
    | some v =>
      rw [hd] at hdeg hpos
      have : v ≠ 0 := fun h0 => hpos (by rw [h0])
      simp only [List.append_nil, Option.getD_some] at hdeg
      omega
  obtain ⟨n, hn, hpar⟩ := cnt_pos.mp hc
  have h1 := hrk n (hmem n hn) r.ev.eventID hpar (List.mem_map.mpr ⟨r, hmem r hr, rfl⟩)
  have h2 : rk n.ev.eventID ≤ rk r.ev.eventID := hmax n hn
  omega

/-- for acyclic input nothing is left over: the whole output is the `graph` built by the loop -/
theorem kahn_loop_no_strays (lt : κ → κ → Bool) (parents : Event → List ID) (nodes0 : List (KNode κ))
    (hac : KAcyclic parents nodes0) :
    (kahnLoop lt parents ((kNodes nodes0).length + 1)
      (kahnRemaining (kahnInDeg parents (kNodes nodes0)) (kNodes nodes0))
      (kahnInDeg parents (kNodes nodes0))
      (sortBy (fun a b => lt a.key b.key) (kahnZero (kahnInDeg parents (kNodes nodes0)) (kNodes nodes0))) []).1 = [] := by
  obtain ⟨d', h⟩ := kahnLoop_final lt parents nodes0
  exact h.no_strays hac.dedup

/-- for acyclic input no event comes before one of its parents:
    (a before b in the output) ⇒ b is not a parent of a -/
theorem kahn_topological (lt : κ → κ → Bool) (parents : Event → List ID) (nodes0 : List (KNode κ))
    (hac : KAcyclic parents nodes0) :
    (kahn lt parents nodes0).Pairwise (fun a b => b.eventID ∉ parents a) := by
  rw [kahn_eq]
  obtain ⟨d', h⟩ := kahnLoop_final lt parents nodes0
  unfold kahnOut
  rw [kahn_loop_no_strays lt parents nodes0 hac]
  rw [List.pairwise_map]
  simpa [sortBy] using h.topo

/-- for acyclic input no event lists itself as a parent -/
theorem kahn_no_self (lt : κ → κ → Bool) (parents : Event → List ID) (nodes0 : List (KNode κ))
    (hac : KAcyclic parents nodes0) : ∀ a ∈ kahn lt parents nodes0, a.eventID ∉ parents a := by
  intro a ha hpar
  obtain ⟨n, hn, rfl⟩ := kahn_subset lt parents nodes0 ha
  obtain ⟨rk, hrk⟩ := hac
  exact Nat.lt_irrefl _ (hrk n hn _ hpar (List.mem_map.mpr ⟨n, hn, rfl⟩))

end

/-! ## Ancestors -/

/-- `p` is a parent of `c`, both in `l` -/
def ParentIn (parents : Event → List ID) (l : List Event) (p c : Event) : Prop :=
  p ∈ l ∧ c ∈ l ∧ p.eventID ∈ parents c

theorem idx_getElem {l : List Event} (hnd : IdNodup l) (i : Nat) (hi : i < l.length) :
    (l.map (·.eventID)).idxOf (l[i]).eventID = i := by
  have := List.Nodup.idxOf_getElem hnd i (by simpa using hi)
  simpa using this

theorem parent_idx_lt {parents : Event → List ID} {l : List Event} (hnd : IdNodup l)
    (hself : ∀ a ∈ l, a.eventID ∉ parents a) (hp : l.Pairwise (fun a b => b.eventID ∉ parents a))
    {p c : Event} (h : ParentIn parents l p c) :
    (l.map (·.eventID)).idxOf p.eventID < (l.map (·.eventID)).idxOf c.eventID := by
  obtain ⟨hpm, hcm, hpar⟩ := h
  obtain ⟨i, hi, rfl⟩ := List.getElem_of_mem hpm
  obtain ⟨j, hj, rfl⟩ := List.getElem_of_mem hcm
  rw [idx_getElem hnd, idx_getElem hnd]
  rcases Nat.lt_trichotomy i j with hlt | heq | hgt
  · exact hlt
  · subst heq; exact absurd hpar (hself _ hcm)
  · exact absurd hpar (List.pairwise_iff_getElem.mp hp j i hj hi hgt)

theorem ancestor_idx_lt {parents : Event → List ID} {l : List Event} (hnd : IdNodup l)
    (hself : ∀ a ∈ l, a.eventID ∉ parents a) (hp : l.Pairwise (fun a b => b.eventID ∉ parents a))
    {x y : Event} (h : Relation.TransGen (ParentIn parents l) x y) :
    (l.map (·.eventID)).idxOf x.eventID < (l.map (·.eventID)).idxOf y.eventID := by
  induction h with
  | single h => exact parent_idx_lt hnd hself hp h
  | tail _ h ih => exact Nat.lt_trans ih (parent_idx_lt hnd hself hp h)

/-- in an ID-distinct list without self-parents where no event precedes one of its parents,
    no event precedes one of its ancestors -/
theorem pairwise_ancestors {parents : Event → List ID} {l : List Event} (hnd : IdNodup l)
    (hself : ∀ a ∈ l, a.eventID ∉ parents a) (hp : l.Pairwise (fun a b => b.eventID ∉ parents a)) :
    l.Pairwise (fun a b => ¬ Relation.TransGen (ParentIn parents l) b a) := by
  rw [List.pairwise_iff_getElem]
  intro i j hi hj hij hT
  have := ancestor_idx_lt hnd hself hp hT
  rw [idx_getElem hnd, idx_getElem hnd] at this
  omega

/-- hence every event comes after each of its ancestors present in the input
    (ancestor = transitive closure of "is a parent, both in the output = both among the distinct input events") -/
theorem kahn_topological_ancestors {κ : Type} (lt : κ → κ → Bool) (parents : Event → List ID) (nodes0 : List (KNode κ))
    (hac : KAcyclic parents nodes0) :
    (kahn lt parents nodes0).Pairwise
      (fun a b => ¬ Relation.TransGen (ParentIn parents (kahn lt parents nodes0)) b a) :=
  pairwise_ancestors (kahn_idNodup lt parents nodes0) (kahn_no_self lt parents nodes0 hac)
    (kahn_topological lt parents nodes0 hac)

/-! ## The two instances used by the library -/

/-- nodes built from events by a function that stores the event: de-duplicating the nodes = `eventMapFromEvents` -/
theorem kNodes_map_ev {κ : Type} (mk : Event → KNode κ) (hmk : ∀ e, (mk e).ev = e) (l : List Event) :
    (kNodes (l.map mk)).map (·.ev) = eventMapFromEvents l := by
  have hmap : ∀ acc : List Event, (acc.map mk).map (·.ev) = acc := by
    intro acc; rw [List.map_map]; simp [Function.comp_def, hmk]
  suffices ∀ acc : List Event, (l.map mk).foldl kahnDedupStep (acc.map mk) = (l.foldl dedupStep acc).map mk by
    unfold kNodes
    have h := this []
    rw [List.map_nil] at h
    rw [h, hmap, eventMapFromEvents_eq]
  induction l with
  | nil => intro acc; rfl
  | cons a as ih =>
    intro acc
    rw [List.map_cons, List.foldl_cons, List.foldl_cons]
    have : kahnDedupStep (acc.map mk) (mk a) = (dedupStep acc a).map mk := by
      unfold kahnDedupStep dedupStep
      have hc : (acc.map mk).any (fun m => m.ev.eventID == (mk a).ev.eventID) = (findByID acc a.eventID).isSome := by
        unfold findByID
        rw [Bool.eq_iff_iff]
        simp [hmk]
      rw [hc]
      split
      · rfl
      · simp
    rw [this]; exact ih _

/-- acyclicity stated on events gives acyclicity of the mapped nodes -/
theorem KAcyclic.of_events {κ : Type} (mk : Event → KNode κ) (hmk : ∀ e, (mk e).ev = e) {parents : Event → List ID}
    {l : List Event}
    (h : ∃ rk : ID → Nat, ∀ e ∈ l, ∀ p ∈ parents e, p ∈ l.map (·.eventID) → rk p < rk e.eventID) :
    KAcyclic parents (l.map mk) := by
  obtain ⟨rk, hrk⟩ := h
  refine ⟨rk, ?_⟩
  intro n hn p hp hpm
  obtain ⟨e, he, rfl⟩ := List.mem_map.mp hn
  rw [hmk] at hp ⊢
  refine hrk e he p hp ?_
  obtain ⟨m, hm, rfl⟩ := List.mem_map.mp hpm
  obtain ⟨e', he', rfl⟩ := List.mem_map.mp hm
  rw [hmk]; exact List.mem_map.mpr ⟨e', he', rfl⟩

/-- the power-ordered auth-chain ordering returns each distinct input event exactly once (no acyclicity needed) -/
theorem reverseTopoAuth_perm (am : List Event) (ce : Option Event) (l : List Event) :
    reverseTopoAuth am ce l ~ eventMapFromEvents l := by
  rw [reverseTopoAuth_eq_kahn, ← kNodes_map_ev (authNode am ce) (fun _ => rfl) l]
  exact kahn_perm _ _ _

theorem reverseTopoAuth_topological (am : List Event) (ce : Option Event) (l : List Event)
    (hac : ∃ rk : ID → Nat, ∀ e ∈ l, ∀ p ∈ e.authEventIDs, p ∈ l.map (·.eventID) → rk p < rk e.eventID) :
    (reverseTopoAuth am ce l).Pairwise (fun a b => b.eventID ∉ a.authEventIDs) := by
  rw [reverseTopoAuth_eq_kahn]
  exact kahn_topological _ _ _ (KAcyclic.of_events (authNode am ce) (fun _ => rfl) hac)

theorem reverseTopoAuth_topological_ancestors (am : List Event) (ce : Option Event) (l : List Event)
    (hac : ∃ rk : ID → Nat, ∀ e ∈ l, ∀ p ∈ e.authEventIDs, p ∈ l.map (·.eventID) → rk p < rk e.eventID) :
    (reverseTopoAuth am ce l).Pairwise
      (fun a b => ¬ Relation.TransGen (ParentIn (fun e => e.authEventIDs) (reverseTopoAuth am ce l)) b a) := by
  rw [reverseTopoAuth_eq_kahn]
  exact kahn_topological_ancestors _ _ _ (KAcyclic.of_events (authNode am ce) (fun _ => rfl) hac)

theorem reverseTopoPrev_perm (l : List Event) : reverseTopoPrev l ~ eventMapFromEvents l := by
  rw [reverseTopoPrev_eq_kahn, ← kNodes_map_ev prevNode (fun _ => rfl) l]
  exact kahn_perm _ _ _

theorem reverseTopoPrev_topological (l : List Event)
    (hac : ∃ rk : ID → Nat, ∀ e ∈ l, ∀ p ∈ e.prevEventIDs, p ∈ l.map (·.eventID) → rk p < rk e.eventID) :
    (reverseTopoPrev l).Pairwise (fun a b => b.eventID ∉ a.prevEventIDs) := by
  rw [reverseTopoPrev_eq_kahn]
  exact kahn_topological _ _ _ (KAcyclic.of_events prevNode (fun _ => rfl) hac)

theorem reverseTopoPrev_topological_ancestors (l : List Event)
    (hac : ∃ rk : ID → Nat, ∀ e ∈ l, ∀ p ∈ e.prevEventIDs, p ∈ l.map (·.eventID) → rk p < rk e.eventID) :
    (reverseTopoPrev l).Pairwise
      (fun a b => ¬ Relation.TransGen (ParentIn (fun e => e.prevEventIDs) (reverseTopoPrev l)) b a) := by
  rw [reverseTopoPrev_eq_kahn]
  exact kahn_topological_ancestors _ _ _ (KAcyclic.of_events prevNode (fun _ => rfl) hac)

end V.StateRes
