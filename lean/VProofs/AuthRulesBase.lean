/-
  VProofs.AuthRulesBase — shared lemmas for C07: outcome of a model check as an `Option Bool`, the freshly built
  context and its invariant, and the link between the library's version table (VGen) and the specification's.
-/
import VModel.AuthRules
namespace V.AuthRules
open V V.Json V.GoJson V.Auth

/-- decision of a model check: `some true` accepted, `some false` refused (NotAllowed or another error),
    `none` = panic / unmodelled -/
def accepts : R Unit → Option Bool
  | .ok () => some true
  | .error .notAllowed => some false
  | .error .err => some false
  | .error _ => none

def Verdict.decision : Verdict → Option Bool
  | .ok => some true
  | .notAllowed => some false
  | .err => some false
  | _ => none

@[simp] theorem accepts_ok : accepts (.ok ()) = some true := rfl
@[simp] theorem accepts_pure : accepts (pure ()) = some true := rfl
@[simp] theorem accepts_notAllowed : accepts (notAllowed : R Unit) = some false := rfl
@[simp] theorem accepts_failErr : accepts (failErr : R Unit) = some false := rfl
@[simp] theorem accepts_error_notAllowed : accepts (.error .notAllowed : R Unit) = some false := rfl
@[simp] theorem accepts_error_err : accepts (.error .err : R Unit) = some false := rfl

/-! ### the version tables -/

theorem table_keys : VGen.roomVersions.map (·.key) = specTable.map (·.1) := by decide +kernel

theorem table_columns : VGen.roomVersions.map rowColumns = specTable.map (fun r => expectedColumns r.2) := by decide +kernel

theorem find_map_sync {A B K C : Type} (k1 : A → K) (k2 : B → K) (f : A → C) (g : B → C) (q : K → Bool) :
    ∀ (l1 : List A) (l2 : List B), l1.map k1 = l2.map k2 → l1.map f = l2.map g →
      (l1.find? (fun a => q (k1 a))).map f = (l2.find? (fun b => q (k2 b))).map g := by
  intro l1
  induction l1 with
  | nil => intro l2 h1 _; cases l2 with
    | nil => rfl
    | cons b t => simp at h1
  | cons a t ih =>
    intro l2 h1 h2
    cases l2 with
    | nil => simp at h1
    | cons b t2 =>
      simp only [List.map_cons, List.cons.injEq] at h1 h2
      simp only [List.find?_cons]
      rw [← h1.1]
      cases hq : q (k1 a) with
      | true => simp [h2.1]
      | false => exact ih t2 h1.2 h2.2

/-- the specification's view of the version of a registered row: same key, and the library's switches are the expected ones -/
theorem row_spec {ver : Bytes} {row : VGen.VersionRow} (h : versionRow? ver = some row) :
    ∃ sv, specVersion? ver = some sv ∧ rowColumns row = expectedColumns sv := by
  have := find_map_sync (fun r : VGen.VersionRow => r.key) (fun r : String × SpecVersion => r.1) rowColumns
    (fun r => expectedColumns r.2) (fun k => k.toUTF8.toList == ver) VGen.roomVersions specTable table_keys table_columns
  unfold versionRow? at h
  rw [h] at this
  unfold specVersion?
  cases hf : specTable.find? (fun r => r.1.toUTF8.toList == ver) with
  | none => rw [hf] at this; simp at this
  | some s => rw [hf] at this; exact ⟨s.2, rfl, by simpa using this⟩

theorem row_none_spec {ver : Bytes} (h : versionRow? ver = none) : specVersion? ver = none := by
  have := find_map_sync (fun r : VGen.VersionRow => r.key) (fun r : String × SpecVersion => r.1) rowColumns
    (fun r => expectedColumns r.2) (fun k => k.toUTF8.toList == ver) VGen.roomVersions specTable table_keys table_columns
  unfold versionRow? at h
  rw [h] at this
  unfold specVersion?
  cases hf : specTable.find? (fun r => r.1.toUTF8.toList == ver) with
  | none => rfl
  | some s => rw [hf] at this; simp at this

theorem spec_mem {ver : Bytes} {sv : SpecVersion} (h : specVersion? ver = some sv) : sv ∈ specTable.map (·.2) := by
  unfold specVersion? at h
  cases hf : specTable.find? (fun r => r.1.toUTF8.toList == ver) with
  | none => rw [hf] at h; simp at h
  | some s =>
    rw [hf] at h
    simp only [Option.map_some, Option.some.injEq] at h
    subst h
    exact List.mem_map.mpr ⟨s, List.mem_of_find?_eq_some hf, rfl⟩

theorem specTable_facts : ∀ s ∈ specTable.map (·.2),
    (s.createRules = 1 ∨ s.createRules = 2 ∨ s.createRules = 3) ∧ (s.creators = true → s.notifications = true) := by
  decide

/-! ### the freshly built context -/

/-- what `update` leaves in a context that has never been used: a function of the provider's create / power-levels /
    join-rules events -/
def freshOf (p : Provider) : R Ctx :=
  match createInfo p.create with
  | .error v => .error v
  | .ok (ce, c, cr, pr) =>
    match plInfo p.powerLevels (senderOfOpt ce) with
    | .error v => .error v
    | .ok (pe, pl) =>
      .ok { provider := p, hasProvider := true, createEvent := ce, create := c, creators := cr, privilegedCreators := pr,
            plEvent := pe, pl := pl, plErr := plErrOf p.powerLevels,
            jrEvent := (jrInfo p.joinRules).1, joinRule := (jrInfo p.joinRules).2 }

theorem update_empty (p : Provider) : ({} : Ctx).update p = freshOf p := by
  unfold Ctx.update freshOf Ctx.switchProvider Ctx.refreshCreate
  simp only [bind, Except.bind, pure, Except.pure, Bool.not_false, Bool.true_or, if_true, Option.isNone_none]
  cases hci : createInfo p.create with
  | error v => rfl
  | ok r =>
    obtain ⟨ce, c, cr, pr⟩ := r
    simp only [Ctx.refreshPL, Option.isNone_none, Bool.true_or, if_true]
    cases hpi : plInfo p.powerLevels (senderOfOpt ce) with
    | error v => rfl
    | ok r2 =>
      obtain ⟨pe, pl⟩ := r2
      simp only [Ctx.refreshJR, Option.isNone_none, Bool.true_or, if_true]

/-- the power levels in force when the room has no power-levels event (`NewPowerLevelContentFromAuthEvents`) -/
def noEventLevels (creator : Bytes) : PowerLevels :=
  { PowerLevels.defaults with users := [(creator, 9007199254740991)], stateDefault := 50 }

/-- facts about a freshly built context that the rules rely on -/
structure Fresh (p : Provider) (c : Ctx) : Prop where
  provider : c.provider = p
  noCreate : c.createEvent = none → c.create.roomID = []
  create : ∀ ce, c.createEvent = some ce →
    ∃ cc, decodeCreateContent ce.content = some cc ∧ c.creators = ce.sender :: cc.additionalCreators
  /-- `powerLevelsErr` is a function of the provider's power-levels event -/
  plErr : c.plErr = plErrOf p.powerLevels
  /-- the cached power-levels part is what `plInfo` computes -/
  plInfo : plInfo p.powerLevels (senderOfOpt c.createEvent) = .ok (c.plEvent, c.pl)

theorem fresh_of {p : Provider} {c : Ctx} (h : freshOf p = .ok c) : Fresh p c := by
  unfold freshOf at h
  cases hci : createInfo p.create with
  | error v => simp [hci] at h
  | ok r =>
    obtain ⟨ce, cc, cr, pr⟩ := r
    simp only [hci] at h
    cases hpi : plInfo p.powerLevels (senderOfOpt ce) with
    | error v => simp [hpi] at h
    | ok r2 =>
      obtain ⟨pe, pl⟩ := r2
      simp only [hpi] at h
      cases h
      unfold createInfo at hci
      refine ⟨rfl, ?_, ?_, rfl, hpi⟩
      · intro hn
        simp only at hn
        subst hn
        split at hci
        · split at hci
          · cases hci
          · cases hci; rfl
        · cases hci
        · cases hci; rfl
      · intro ce' hce
        simp only at hce
        subst hce
        split at hci
        · rename_i c0 hcc
          split at hci
          · rename_i hpc
            cases hci
            unfold createContentOf at hcc
            rw [hpc] at hcc
            simp only at hcc
            cases hd : decodeCreateContent ce'.content with
            | none => rw [hd] at hcc; cases hcc
            | some cc0 => exact ⟨cc0, rfl, by simp⟩
          · cases hci
        · cases hci
        · cases hci

/-- `update` answers `.error` only with `unmodelled` -/
theorem freshOf_error {p : Provider} {v : Verdict} (h : freshOf p = .error v) : ∃ w, v = .unmodelled w := by
  unfold freshOf at h
  cases hci : createInfo p.create with
  | error v' =>
    simp only [hci] at h
    cases h
    unfold createInfo at hci
    split at hci
    · split at hci <;> cases hci
    · cases hci; exact ⟨_, rfl⟩
    · cases hci
  | ok r =>
    obtain ⟨ce, cc, cr, pr⟩ := r
    simp only [hci] at h
    cases hpi : plInfo p.powerLevels (senderOfOpt ce) with
    | ok r2 => simp [hpi] at h
    | error v' =>
      simp only [hpi] at h
      cases h
      unfold plInfo at hpi
      split at hpi
      · cases hpi
      · split at hpi
        · cases hpi
        · cases hpi; exact ⟨_, rfl⟩
        · cases hpi

/-! ### the `Except` plumbing and the common checks -/

@[simp] theorem notAllowed_bind {α β} (f : α → R β) : (notAllowed : R α) >>= f = notAllowed := rfl
@[simp] theorem failErr_bind {α β} (f : α → R β) : (failErr : R α) >>= f = failErr := rfl
@[simp] theorem ok_bind {α β} (x : α) (f : α → R β) : (Except.ok x : R α) >>= f = f x := rfl
@[simp] theorem error_bind {α β} (v : Verdict) (f : α → R β) : (Except.error v : R α) >>= f = .error v := rfl

@[simp] theorem map_ok {α β} (f : α → β) (x : α) : f <$> (Except.ok x : R α) = .ok (f x) := rfl
@[simp] theorem map_error {α β} (f : α → β) (v : Verdict) : f <$> (Except.error v : R α) = .error v := rfl
@[simp] theorem map_notAllowed {α β} (f : α → β) : f <$> (notAllowed : R α) = notAllowed := rfl
@[simp] theorem pure_bind' {α β} (x : α) (f : α → R β) : (pure x : R α) >>= f = f x := rfl


theorem domainAllowed_eq (cc : CreateContent) (dom : Bytes) :
    cc.domainAllowed dom = if dom == cc.senderDomain || cc.federate != some false then .ok () else notAllowed := by
  unfold CreateContent.domainAllowed
  split
  · simp [*]
  · split <;> simp [*]

abbrev lib := Departures.library

theorem userPowerLevel_eq (c : Ctx) (u : Bytes) (h : c.createEvent.isSome = true) :
    c.userPowerLevel u = .ok (powerOf lib c u) := by
  unfold Ctx.userPowerLevel powerOf powerOfWith
  have hd : lib.d2_creatorMaxLevel = true := rfl
  cases hce : c.createEvent with
  | none => simp [hce] at h
  | some ce =>
    cases hpe : c.plEvent with
    | none =>
      simp only [hd, Option.isSome_none, Option.map_some, if_true]
      split
      · rfl
      · simp only [Bool.false_eq_true, if_false]
        by_cases hu : u = ce.sender
        · subst hu; simp
        · have : ¬ (ce.sender = u) := fun h => hu h.symm
          simp [hu, this]
    | some pe =>
      simp only [Option.isSome_some, if_true]
      split <;> rfl

theorem createPresent_of {p : Provider} {c : Ctx} (hf : Fresh p c) {e : Event} (hr : e.roomID ≠ [])
    (h : (e.roomID != c.create.roomID) = false) : c.createEvent.isSome = true := by
  cases hce : c.createEvent with
  | none =>
    have := hf.noCreate hce
    simp_all
  | some _ => rfl

/-- rules 3, m.federate, 6, 7, 8, 9 as `commonChecks` decides them, given the sender's membership content -/
def commonFormula (c : Ctx) (e : Event) (sm : MemberContent) : Bool :=
  match userOf e.sender with
  | some u =>
    ruleCreatePresent c e && ruleFederate c u.domain && sm.membership == b!"join"
    && decide (powerOf lib c e.sender ≥ requiredLevel c e)
    && (e.type == b!"m.room.third_party_invite" || ruleAtStateKey e)
  | none => false

theorem commonChecks_eq (c : Ctx) (p : Provider) (hf : Fresh p c) (e : Event) (sm : MemberContent)
    (hs : (parseUserID? e.sender).isSome) (hr : e.roomID ≠ []) :
    accepts (c.commonChecks sm e) = some (commonFormula c e sm) := by
  unfold Ctx.commonChecks commonFormula resolveUser userOf
  cases hp : parseUserID? e.sender with
  | none => simp [hp] at hs
  | some o =>
    by_cases hroom : (e.roomID != c.create.roomID) = true
    · have : ruleCreatePresent c e = false := by
        unfold ruleCreatePresent; simp_all
      cases o <;> simp [this, hroom]
    · have hroom' : (e.roomID != c.create.roomID) = false := by simpa using hroom
      have hce := createPresent_of hf hr hroom'
      have hcp : ruleCreatePresent c e = true := by
        unfold ruleCreatePresent; simp_all
      cases o with
      | none => simp [hroom']
      | some u =>
        simp only [ok_bind, notAllowed_bind, Option.join, Option.bind_some, id, domainAllowed_eq, userPowerLevel_eq c _ hce, hcp,
          Bool.true_and, hroom', Bool.false_eq_true, if_false]
        unfold ruleFederate requiredLevel ruleAtStateKey
        repeat' split
        all_goals simp_all
        all_goals omega

theorem decodeMemberContent_cases (cnt : Option JVal) (h : isUnmodelled (decodeMemberContent cnt) = false) :
    (∃ m, decodeMemberContent cnt = .ok m) ∨ decodeMemberContent cnt = notAllowed := by
  unfold decodeMemberContent at h ⊢
  split
  · exact Or.inr rfl
  · exact Or.inl ⟨_, rfl⟩
  · simp only at h ⊢
    split
    · rename_i hm; simp [hm, isUnmodelled] at h
    · split
      · exact Or.inr rfl
      · exact Or.inl ⟨_, rfl⟩
  · exact Or.inr rfl

theorem memberFromProvider_cases (p : Provider) (u : Bytes) (h : isUnmodelled (memberFromProvider p u) = false) :
    (∃ m, memberFromProvider p u = .ok m) ∨ memberFromProvider p u = notAllowed := by
  unfold memberFromProvider at h ⊢
  cases hm : p.member u with
  | none => exact Or.inl ⟨_, rfl⟩
  | some ev =>
    rw [hm] at h
    exact decodeMemberContent_cases _ h

theorem membershipOf_ok {p : Provider} {u : Bytes} {m : MemberContent} (h : memberFromProvider p u = .ok m) :
    membershipOf p u = some m := by simp [membershipOf, h]

theorem membershipOf_na {p : Provider} {u : Bytes} (h : memberFromProvider p u = notAllowed) :
    membershipOf p u = none := by simp [membershipOf, h, notAllowed]


theorem accepts_bind {x : R Unit} {b : Bool} (h : accepts x = some b) (k : Unit → R Unit) :
    accepts (x >>= k) = if b then accepts (k ()) else some false := by
  cases x with
  | ok u => cases u; simp [accepts] at h; subst h; rfl
  | error v =>
    cases v <;> simp [accepts] at h <;> subst h <;> rfl

/-- the columns of a registered row, in terms of the specification's version record -/
structure RowIs (row : VGen.VersionRow) (sv : SpecVersion) : Prop where
  knock : row.checkKnockingAllowedFunc = (if sv.knock then "checkKnocking" else "disallowKnocking")
  restricted : row.checkRestrictedJoinAllowedFunc = (if sv.restricted then "allowRestrictedJoins" else "disallowRestrictedJoins")
  create : row.checkCreateEvent = (if sv.createRules == 1 then "checkCreateEventV1" else if sv.createRules == 2 then "checkCreateEventV2" else "checkCreateEventV3")
  parse : row.parsePowerLevelsFunc = (if sv.integerLevels then "parseIntegerPowerLevels" else "parsePowerLevels")
  pl : row.checkPowerLevelEvent = (if sv.creators then "checkPowerLevelEventV3" else if sv.notifications then "checkPowerLevelEventV2" else "checkPowerLevelEventV1")
  priv : row.privilegedCreators = sv.creators
  createRules : sv.createRules = 1 ∨ sv.createRules = 2 ∨ sv.createRules = 3
  notif : sv.creators = true → sv.notifications = true

theorem rowIs_of {ver : Bytes} {row : VGen.VersionRow} (h : versionRow? ver = some row) :
    ∃ sv, specVersion? ver = some sv ∧ RowIs row sv := by
  obtain ⟨sv, hsv, hcols⟩ := row_spec h
  refine ⟨sv, hsv, ?_⟩
  have hf := specTable_facts sv (spec_mem hsv)
  unfold rowColumns expectedColumns at hcols
  simp only [Prod.mk.injEq] at hcols
  exact ⟨hcols.1, hcols.2.1, hcols.2.2.1, hcols.2.2.2.1, hcols.2.2.2.2.1, hcols.2.2.2.2.2, hf.1, hf.2⟩

/-- the sender's level in the notification check of `CheckPowerLevelEvent`: read from the old content, except that
    creators are privileged where the event's room version says so -/
def notifLevel (c : Ctx) (priv : Bool) (old : PowerLevels) (u : Bytes) : Int :=
  if priv && c.creators.contains u then creatorPowerLevel else old.userLevel u

theorem checkPowerLevelEvent_eq (c : Ctx) (p : Provider) (hf : Fresh p c) (e : Event) (row : VGen.VersionRow) (sv : SpecVersion)
    (hrow : e.row = some row) (hr : RowIs row sv) (hce : c.createEvent.isSome = true) (old new : PowerLevels) :
    accepts (c.checkPowerLevelEvent e old new) =
      some ((!sv.notifications || checkNotificationLevels (notifLevel c sv.creators old e.sender) old new)
            && (!sv.creators || ruleNoCreatorInUsers c new)) := by
  unfold Ctx.checkPowerLevelEvent notifLevel
  simp only [hrow, hr.pl]
  have e1 : ("checkPowerLevelEventV3" == "checkPowerLevelEventV1") = false := by decide
  have e2 : ("checkPowerLevelEventV3" == "checkPowerLevelEventV2") = false := by decide
  have e3 : ("checkPowerLevelEventV2" == "checkPowerLevelEventV1") = false := by decide
  cases hc : sv.creators with
  | true =>
    have hn := hr.notif hc
    simp only [hn, if_true, e1, e2, beq_self_eq_true, Bool.false_eq_true, if_false, Bool.not_true, Bool.false_or, Bool.true_and]
    cases hcev : c.createEvent with
    | none => simp [hcev] at hce
    | some ce =>
      obtain ⟨cc, hcc, hcr⟩ := hf.create ce hcev
      simp only [hcc, hcr, ruleNoCreatorInUsers]
      cases hcn : checkNotificationLevels
          (if (ce.sender :: cc.additionalCreators).contains e.sender = true then creatorPowerLevel else old.userLevel e.sender) old new with
      | false => simp
      | true =>
        cases hany : (new.users.any fun kv => (ce.sender :: cc.additionalCreators).contains kv.fst) <;> simp
  | false =>
    cases hn : sv.notifications with
    | true =>
      simp only [if_true, e3, beq_self_eq_true, Bool.false_eq_true, if_false, Bool.not_true, Bool.false_or, Bool.not_false, Bool.true_or, Bool.and_true, Bool.false_and]
      split <;> simp_all
    | false => simp

/-! ### notification levels (D11) and the sender's level -/

theorem ruleNotifications_eq (L : Int) (old new : PowerLevels) :
    ruleNotifications lib L old new = checkNotificationLevels L old new := by
  unfold ruleNotifications checkNotificationLevels
  have hd : lib.d11_notificationsGE = true := rfl
  simp only [hd, if_true]
  congr 1
  funext k
  by_cases h1 : new.notificationLevel k ≤ L <;> by_cases h2 : old.notificationLevel k < L <;>
    simp [h1, h2] <;> omega

/-- with no power-levels event loaded and no load error, the power levels in force are the no-event defaults -/
theorem fresh_noPL {p : Provider} {c : Ctx} (hf : Fresh p c) (he : c.plErr = none) (hpe : c.plEvent = none) :
    c.pl = noEventLevels (senderOfOpt c.createEvent) := by
  have h1 := hf.plInfo
  have h2 := hf.plErr
  rw [he] at h2
  unfold Auth.plInfo at h1
  unfold plErrOf at h2
  cases hp : p.powerLevels with
  | none =>
    rw [hp] at h1
    simp only [Except.ok.injEq, Prod.mk.injEq] at h1
    rw [← h1.2]; rfl
  | some ev =>
    rw [hp] at h1 h2
    simp only at h1 h2
    cases hpl : powerLevelsFromEvent ev with
    | ok pl =>
      rw [hpl] at h1
      simp only [Except.ok.injEq, Prod.mk.injEq] at h1
      rw [hpe] at h1
      cases h1.1
    | error v =>
      rw [hpl] at h1 h2
      cases v <;> simp at h1 h2

theorem notifLevel_eq {p : Provider} {c : Ctx} (hf : Fresh p c) (hce : c.createEvent.isSome = true) (he : c.plErr = none)
    (priv : Bool) (u : Bytes) : notifLevel c priv c.pl u = powerOfWith priv lib c u := by
  unfold notifLevel powerOfWith
  have hd : lib.d2_creatorMaxLevel = true := rfl
  split
  · rfl
  · cases hpe : c.plEvent with
    | some pe => simp
    | none =>
      rw [fresh_noPL hf he hpe]
      cases hcev : c.createEvent with
      | none => simp [hcev] at hce
      | some ce =>
        simp only [Option.isSome_none, Bool.false_eq_true, if_false, Option.map_some, senderOfOpt, noEventLevels,
          PowerLevels.userLevel, mapGet, List.find?_cons, List.find?_nil]
        by_cases hu : ce.sender = u
        · subst hu; simp [creatorPowerLevel]
        · have hb : (ce.sender == u) = false := by simpa using hu
          simp [hb, PowerLevels.defaults]

/-! ### integer-only levels (room version 10 and later) -/

theorem decIntLevel_ok {d : Int} {v : JVal} (h : (decIntLevel d (some v)).err = false) : isIntegerLiteral v = true := by
  unfold decIntLevel at h
  unfold isIntegerLiteral
  cases v with
  | null => simp at h
  | num lit =>
    simp only [decInt64] at h
    cases hp : parseInt64 lit with
    | none => simp [hp] at h
    | some n => simp [hp]
  | _ => simp [decInt64] at h

theorem decIntLevel_field {d : Int} {o : Option JVal} : (decIntLevel d o).err = false →
    (match o with | none => true | some v => isIntegerLiteral v) = true := by
  intro h
  cases o with
  | none => rfl
  | some v => exact decIntLevel_ok h

theorem decodeIntMap_ok {base : List (Bytes × Int)} {o : Option JVal} : (decodeIntMap base o).err = false →
    (match o with | none => true | some v => isIntegerMap v) = true := by
  intro h
  cases o with
  | none => rfl
  | some v =>
    unfold decodeIntMap at h
    unfold isIntegerMap
    cases v with
    | obj m =>
      simp only at h ⊢
      rw [List.all_eq_true]
      intro kv hkv
      rw [Bool.eq_false_iff] at h
      have : (decIntLevel 0 (some kv.2)).err = false := by
        rw [Bool.eq_false_iff]
        intro hc
        apply h
        rw [List.any_eq_true]
        exact ⟨(kv.1, decIntLevel 0 (some kv.2)), List.mem_map.mpr ⟨kv, hkv, rfl⟩, hc⟩
      exact decIntLevel_ok this
    | _ => simp at h

/-- **Soundness of the integer-only parser against the independent predicate**: whatever `parseIntegerPowerLevels`
    accepts has an integer literal for every named level that is present, and objects of integer literals for `users`,
    `events`, `notifications` when present — in particular no `null` anywhere a level belongs. -/
theorem parseInteger_sound {c : Option JVal} {d p : PowerLevels} (h : parseIntegerPowerLevels c d = some p) :
    integerContent c = true := by
  unfold parseIntegerPowerLevels at h
  unfold integerContent contentFields
  cases c with
  | none => cases h
  | some v =>
    cases v with
    | null => rfl
    | obj kvs =>
      simp only at h ⊢
      split at h
      · cases h
      · rename_i hne
        simp only [Bool.or_eq_true, not_or, Bool.not_eq_true] at hne
        obtain ⟨⟨⟨⟨⟨⟨⟨⟨⟨h1, h2⟩, h3⟩, h4⟩, h5⟩, h6⟩, h7⟩, h8⟩, h9⟩, h10⟩ := hne
        simp only [namedLevelKeys, List.all_cons, List.all_nil, Bool.and_true, Bool.and_eq_true]
        exact ⟨⟨decIntLevel_field h1, decIntLevel_field h2, decIntLevel_field h3, decIntLevel_field h4, decIntLevel_field h5,
          decIntLevel_field h6, decIntLevel_field h7⟩, decodeIntMap_ok h8, decodeIntMap_ok h9, decodeIntMap_ok h10⟩
    | _ => cases h

/-! ### a power-levels auth event that cannot be read -/

theorem powerLevelsFromEvent_int {e : Event} {row : VGen.VersionRow} (hrow : e.row = some row)
    (hp : row.parsePowerLevelsFunc = "parseIntegerPowerLevels") (hi : integerContent e.content = false) :
    powerLevelsFromEvent e = notAllowed := by
  unfold powerLevelsFromEvent
  simp only [hrow, hp, beq_self_eq_true, if_true]
  cases hq : parseIntegerPowerLevels e.content PowerLevels.defaults with
  | none => rfl
  | some pl => rw [parseInteger_sound hq] at hi; cases hi

/-- the spec's reading of a power-levels event agrees with the model's parser -/
theorem newPowerLevels_eq {e : Event} {row : VGen.VersionRow} {sv : SpecVersion} (hrow : e.row = some row) (hri : RowIs row sv) :
    newPowerLevels lib sv e = (match powerLevelsFromEvent e with | .ok pl => some pl | .error _ => none) := by
  unfold newPowerLevels
  have hd : lib.d15_pythonInt = true := rfl
  simp only [hd, if_true]
  cases hi : sv.integerLevels with
  | false => simp only [Bool.false_and, Bool.false_eq_true, if_false]; cases powerLevelsFromEvent e <;> rfl
  | true =>
    cases hc : integerContent e.content with
    | true => simp only [Bool.not_true, Bool.and_false, Bool.false_eq_true, if_false]; cases powerLevelsFromEvent e <;> rfl
    | false =>
      have hp : row.parsePowerLevelsFunc = "parseIntegerPowerLevels" := by rw [hri.parse, hi]; rfl
      rw [powerLevelsFromEvent_int hrow hp hc]
      simp [notAllowed]

/-! ### the entry point's `Valid()` test and the checker's own -/

/-- **The check of a freshly created context accepts exactly what the standalone `Allowed` accepts** (no side
    condition): since 32272dd `allowerContext.allowed` makes the `Valid()` test itself, so the entry point's own test
    changes nothing.  (The two verdicts can differ in the error class only: auth events from different rooms AND an
    unmodelled create / power-levels event.) -/
theorem allowedFresh_ok_iff_noValid (e : Event) (p : Provider) (sig : Bool) :
    allowedFresh e p sig = .ok ↔ allowedFreshNoValid e p sig = .ok := by
  unfold allowedFresh allowedFreshNoValid
  by_cases hv : (!p.valid) = true
  · simp only [hv, if_true]
    rw [update_empty]
    constructor
    · intro h; cases h
    · intro h
      cases hf : freshOf p with
      | error v =>
        obtain ⟨w, rfl⟩ := freshOf_error hf
        rw [hf] at h
        cases h
      | ok c =>
        rw [hf] at h
        simp only at h
        unfold Ctx.allowed at h
        rw [(fresh_of hf).provider, hv] at h
        simp [notAllowed] at h
  · simp only [hv, if_false, Bool.false_eq_true]

end V.AuthRules
