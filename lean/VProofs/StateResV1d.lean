/-
  Version 1 state resolution, part 4: a resolved auth block leaves the resolver state as it found it (its own slot
  is written, cleared, and its previous occupant put back), so inside one call of `resolveAndAddAuthBlocks` every block is resolved against
  the initial state; the winners are registered afterwards.  Hence neither the order of the blocks nor the order of
  the candidates inside a block matters (`blocks_order_irrelevant`).  Core only.
-/
import VProofs.StateResV1c
namespace V.StateRes
open V Json GoJson Auth List

/-! ## the candidate loop of `resolveAuthBlock` -/

theorem go_wf (valid : Bool) {s : V1State} (hw : s.WF) (r : Event) (rest : List Event) :
    (resolveAuthBlock.go valid s r rest).2.WF := by
  induction rest generalizing s r with
  | nil => exact hw
  | cons e more ih =>
    unfold resolveAuthBlock.go
    split
    · exact ih (hw.addAuthEvent e) e
    · exact hw

theorem go_sim (valid : Bool) {s s' : V1State} (hw : s.WF) (hw' : s'.WF) (h : s.Sim s') (r : Event) (rest : List Event) :
    (resolveAuthBlock.go valid s r rest).1 = (resolveAuthBlock.go valid s' r rest).1 ∧
      (resolveAuthBlock.go valid s r rest).2.Sim (resolveAuthBlock.go valid s' r rest).2 := by
  induction rest generalizing s s' r with
  | nil => exact ⟨rfl, h⟩
  | cons e more ih =>
    unfold resolveAuthBlock.go
    rw [v1Allowed_congr hw hw' h valid e]
    split
    · exact ih (hw.addAuthEvent e) (hw'.addAuthEvent e) (h.addAuthEvent e) e
    · exact ⟨rfl, h⟩

/-- the loop writes only the slot of the candidates -/
theorem go_lookup (valid : Bool) (s : V1State) (r : Event) {rest : List Event} {K : Bytes × Bytes}
    (hK : ∀ e ∈ rest, keyOf e = K) {t k : Bytes} (hne : K ≠ (t, k)) :
    (resolveAuthBlock.go valid s r rest).2.lookup t k = s.lookup t k := by
  induction rest generalizing s r with
  | nil => rfl
  | cons e more ih =>
    unfold resolveAuthBlock.go
    split
    · rw [ih (s.addAuthEvent e) e (fun x hx => hK x (List.mem_cons_of_mem _ hx))]
      exact lookup_addAuthEvent_ne s e (by rw [hK e List.mem_cons_self]; exact hne)
    · rfl

/-! ## resolveAuthBlock -/

theorem restorePrev_wf {s : V1State} (hw : s.WF) (prev : Option Event) : (restorePrev prev s).WF := by
  cases prev with
  | none => exact hw
  | some p => exact hw.addAuthEvent p

theorem restorePrev_sim {s s' : V1State} (h : s.Sim s') (prev : Option Event) :
    (restorePrev prev s).Sim (restorePrev prev s') := by
  cases prev with
  | none => exact h
  | some p => exact h.addAuthEvent p

theorem resolveAuthBlock_wf (sha : ID → Bytes) (valid : Bool) {s : V1State} (hw : s.WF) (evs : List Event) :
    (resolveAuthBlock sha valid s evs).2.WF := by
  rw [resolveAuthBlock_eq]
  split
  · exact hw
  · exact restorePrev_wf ((go_wf valid (hw.addAuthEvent _) _ _).removeAuthEvent _ _) _

/-- against states with equal lookups a block resolves to the same winner and equal lookups -/
theorem resolveAuthBlock_sim (sha : ID → Bytes) (valid : Bool) {s s' : V1State} (hw : s.WF) (hw' : s'.WF) (h : s.Sim s')
    (evs : List Event) :
    (resolveAuthBlock sha valid s evs).1 = (resolveAuthBlock sha valid s' evs).1 ∧
      (resolveAuthBlock sha valid s evs).2.Sim (resolveAuthBlock sha valid s' evs).2 := by
  rw [resolveAuthBlock_eq, resolveAuthBlock_eq]
  split
  · exact ⟨rfl, h⟩
  · rename_i first rest _
    obtain ⟨h1, h2⟩ := go_sim valid (hw.addAuthEvent first) (hw'.addAuthEvent first) (h.addAuthEvent first) first rest
    simp only
    rw [← h1, V1State.authEventAt_eq_lookup, V1State.authEventAt_eq_lookup, h]
    exact ⟨rfl, restorePrev_sim (h2.removeAuthEvent _ _) _⟩
-- WF: the verdicts are compared through `v1Allowed_congr`.

/-- A resolved block leaves every lookup as it was: it writes only the slot of its candidates, and finally puts back
    what that slot held before. -/
theorem resolveAuthBlock_restore (sha : ID → Bytes) (valid : Bool) {s : V1State} (hw : s.WF) {evs : List Event}
    {K : Bytes × Bytes} (hK : ∀ e ∈ evs, keyOf e = K) : (resolveAuthBlock sha valid s evs).2.Sim s := by
  rw [resolveAuthBlock_eq]
  split
  · exact V1State.Sim.refl s
  · rename_i first rest hs
    have hK' : ∀ e ∈ first :: rest, keyOf e = K := fun e he => hK e (mem_sortV1.mp (hs ▸ he))
    have hrest : ∀ e ∈ rest, keyOf e = K := fun e he => hK' e (List.mem_cons_of_mem _ he)
    have hwin : keyOf (resolveAuthBlock.go valid (s.addAuthEvent first) first rest).1 = K := hK' _ (go_mem _ _ _ _)
    have hfirst : (first.type, first.stateKey.getD []) = K := hK' first List.mem_cons_self
    have hwin' : ((resolveAuthBlock.go valid (s.addAuthEvent first) first rest).1.type,
        (resolveAuthBlock.go valid (s.addAuthEvent first) first rest).1.stateKey.getD []) = K := hwin
    have hprev : s.authEventAt first.type (first.stateKey.getD []) = s.lookup K.1 K.2 := by
      rw [V1State.authEventAt_eq_lookup, ← hfirst]
    -- the lookups of the state before the slot is restored
    have hmid : ∀ t k, ((resolveAuthBlock.go valid (s.addAuthEvent first) first rest).2.removeAuthEvent
        (resolveAuthBlock.go valid (s.addAuthEvent first) first rest).1.type
        ((resolveAuthBlock.go valid (s.addAuthEvent first) first rest).1.stateKey.getD [])).lookup t k =
          if K = (t, k) then none else s.lookup t k := by
      intro t k
      rw [lookup_removeAuthEvent]
      by_cases htk : K = (t, k)
      · rw [if_pos htk, if_pos]
        rw [← hwin'] at htk
        simp only [Prod.mk.injEq] at htk
        exact ⟨htk.1.symm, htk.2.symm⟩
      · rw [if_neg htk, if_neg]
        · rw [go_lookup valid _ first hrest htk]
          exact lookup_addAuthEvent_ne s first (by rw [hK' first List.mem_cons_self]; exact htk)
        · rintro ⟨rfl, rfl⟩; exact htk hwin'.symm
    intro t k
    simp only
    rw [hprev]
    cases hp : s.lookup K.1 K.2 with
    | none =>
      show (V1State.removeAuthEvent _ _ _).lookup t k = _
      rw [hmid]
      by_cases htk : K = (t, k)
      · rw [if_pos htk, ← hp, htk]
      · rw [if_neg htk]
    | some p =>
      have heff := lookup_some_authEff hw hp
      show (V1State.addAuthEvent _ p).lookup t k = _
      rw [lookup_addAuthEvent, hmid]
      by_cases htk : K = (t, k)
      · have h1 : K.1 = t := by rw [htk]
        have h2 : K.2 = k := by rw [htk]
        rw [h1, h2] at heff hp
        rw [if_pos heff, hp]
      · rw [if_neg htk, if_neg]
        intro hh
        apply htk
        rw [← (authEff_key hh).2, (authEff_key heff).2]
-- `hK`: the block only ever writes the slots of its own candidates; the winner's slot is cleared and the previous
--   occupant of the FIRST candidate's slot is put back — the same slot when all candidates share one.
-- `hw` (WF): the previous occupant is re-registered with `addAuthEvent`, which files it under its own
--   (type, state_key); WF says that is the slot it was found in.  No hypothesis on the kind of slot is needed: for a
--   (type, state_key) the resolver does not keep, add / remove / lookup are all no-ops.

/-- the order of the candidates inside a block is irrelevant -/
theorem resolveAuthBlock_perm (sha : ID → Bytes) (valid : Bool) (s : V1State) {evs evs' : List Event} (hp : evs ~ evs')
    (hk : ∀ a ∈ evs, ∀ b ∈ evs, a.depth = b.depth → sha a.eventID = sha b.eventID → a = b) :
    resolveAuthBlock sha valid s evs = resolveAuthBlock sha valid s evs' := by
  rw [resolveAuthBlock_eq, resolveAuthBlock_eq, sortV1_unique sha hp hk]
-- `hk`: see `sortV1_unique`.

theorem resolveNormalBlock_perm (sha : ID → Bytes) (valid : Bool) (s : V1State) {evs evs' : List Event} (hp : evs ~ evs')
    (hk : ∀ a ∈ evs, ∀ b ∈ evs, a.depth = b.depth → sha a.eventID = sha b.eventID → a = b) :
    resolveNormalBlock sha valid s evs = resolveNormalBlock sha valid s evs' := by
  unfold resolveNormalBlock; rw [sortV1_unique sha hp hk]

theorem resolveNormalBlock_sim (sha : ID → Bytes) (valid : Bool) {s s' : V1State} (hw : s.WF) (hw' : s'.WF) (h : s.Sim s')
    (evs : List Event) : resolveNormalBlock sha valid s evs = resolveNormalBlock sha valid s' evs := by
  unfold resolveNormalBlock
  have : (fun e => v1Allowed s valid e) = (fun e => v1Allowed s' valid e) := by
    funext e; exact v1Allowed_congr hw hw' h valid e
  rw [this]

/-! ## registering the winners -/

theorem foldl_add_wf {s : V1State} (hw : s.WF) (l : List Event) : (l.foldl V1State.addAuthEvent s).WF := by
  induction l generalizing s with
  | nil => exact hw
  | cons a as ih => exact ih (hw.addAuthEvent a)

theorem foldl_add_sim_same {s s' : V1State} (h : s.Sim s') (l : List Event) :
    (l.foldl V1State.addAuthEvent s).Sim (l.foldl V1State.addAuthEvent s') := by
  induction l generalizing s s' with
  | nil => exact h
  | cons a as ih => exact ih (h.addAuthEvent a)

/-- the last event stored under a slot wins -/
theorem foldl_add_lookup (s : V1State) (l : List Event) (t k : Bytes) :
    (l.foldl V1State.addAuthEvent s).lookup t k =
      match l.reverse.find? (fun e => decide (authEff e t k)) with
      | some e => some e
      | none => s.lookup t k := by
  induction l generalizing s with
  | nil => rfl
  | cons a as ih =>
    rw [List.foldl_cons, ih, List.reverse_cons, List.find?_append]
    cases as.reverse.find? (fun e => decide (authEff e t k)) with
    | some x => rfl
    | none =>
      simp only [Option.none_or, List.find?_cons, List.find?_nil, lookup_addAuthEvent]
      by_cases h : authEff a t k <;> simp [h]

/-- state events occupying the same slot are equal -/
def SlotInj (l : List Event) : Prop :=
  ∀ a ∈ l, ∀ b ∈ l, a.stateKey.isSome → keyOf a = keyOf b → b.stateKey.isSome → a = b

theorem SlotInj.sameSet {l l' : List Event} (h : SlotInj l) (hs : SameSet l l') : SlotInj l' :=
  fun a ha b hb => h a ((hs a).mpr ha) b ((hs b).mpr hb)

theorem slotInj_of_pairwise {l : List Event} (h : l.Pairwise (fun a b => keyOf a ≠ keyOf b)) : SlotInj l := by
  induction l with
  | nil => intro a ha; cases ha
  | cons x xs ih =>
    rw [List.pairwise_cons] at h
    intro a ha b hb _ hab _
    rcases List.mem_cons.mp ha with rfl | ha' <;> rcases List.mem_cons.mp hb with rfl | hb'
    · rfl
    · exact absurd hab (h.1 b hb')
    · exact absurd hab.symm (h.1 a ha')
    · exact ih h.2 a ha' b hb' ‹_› hab ‹_›

/-- Registering the same set of events, at most one per slot, in any order gives the same lookups. -/
theorem foldl_add_sim {s s' : V1State} (h : s.Sim s') {l l' : List Event} (hs : SameSet l l') (hi : SlotInj l) :
    (l.foldl V1State.addAuthEvent s).Sim (l'.foldl V1State.addAuthEvent s') := by
  intro t k
  rw [foldl_add_lookup, foldl_add_lookup]
  cases h1 : l.reverse.find? (fun e => decide (authEff e t k)) with
  | none =>
    cases h2 : l'.reverse.find? (fun e => decide (authEff e t k)) with
    | none => exact h t k
    | some b =>
      exfalso
      have hb := List.mem_reverse.mp (List.mem_of_find?_eq_some h2)
      have hbe : authEff b t k := by simpa using List.find?_some h2
      rw [List.find?_eq_none] at h1
      exact h1 b (List.mem_reverse.mpr ((hs b).mpr hb)) (by simpa using hbe)
  | some a =>
    have ha := List.mem_reverse.mp (List.mem_of_find?_eq_some h1)
    have hae : authEff a t k := by simpa using List.find?_some h1
    cases h2 : l'.reverse.find? (fun e => decide (authEff e t k)) with
    | none =>
      exfalso
      rw [List.find?_eq_none] at h2
      exact h2 a (List.mem_reverse.mpr ((hs a).mp ha)) (by simpa using hae)
    | some b =>
      have hb := List.mem_reverse.mp (List.mem_of_find?_eq_some h2)
      have hbe : authEff b t k := by simpa using List.find?_some h2
      have := hi a ha b ((hs b).mpr hb) (authEff_key hae).1 ((authEff_key hae).2.trans (authEff_key hbe).2.symm) (authEff_key hbe).1
      simp only [this]
-- `hi`: of two different events for one slot the one registered last would win, which depends on the order.

/-- a slot no registered event occupies keeps its lookup -/
theorem foldl_add_lookup_other (s : V1State) {l : List Event} {t k : Bytes} (h : ∀ e ∈ l, keyOf e ≠ (t, k)) :
    (l.foldl V1State.addAuthEvent s).lookup t k = s.lookup t k := by
  rw [foldl_add_lookup]
  have : l.reverse.find? (fun e => decide (authEff e t k)) = none := by
    rw [List.find?_eq_none]
    intro e he hh
    exact h e (List.mem_reverse.mp he) (authEff_key (by simpa using hh)).2
  rw [this]

/-- a lookup that answers after registering `l` answered before, or answers a member of `l` occupying that slot -/
theorem foldl_add_lookup_some {s : V1State} {l : List Event} {t k : Bytes} {x : Event}
    (h : (l.foldl V1State.addAuthEvent s).lookup t k = some x) :
    s.lookup t k = some x ∨ (x ∈ l ∧ x.stateKey.isSome ∧ keyOf x = (t, k)) := by
  rw [foldl_add_lookup] at h
  split at h
  · rename_i e he
    simp only [Option.some.injEq] at h; subst h
    have := authEff_key (by simpa using List.find?_some he : authEff e t k)
    exact Or.inr ⟨List.mem_reverse.mp (List.mem_of_find?_eq_some he), this.1, this.2⟩
  · exact Or.inl h

/-! ## resolveAndAddAuthBlocks: every block is resolved against the initial state -/

/-- the candidates of a block all belong to one slot -/
def BlocksSlots (blocks : List (List Event)) : Prop :=
  ∀ b ∈ blocks, ∃ K : Bytes × Bytes, ∀ e ∈ b, keyOf e = K

theorem authBlocksFold (sha : ID → Bytes) (valid : Bool) {s : V1State} (hw : s.WF) {blocks : List (List Event)}
    (hb : BlocksSlots blocks) (acc : V1State × List Event) (haw : acc.1.WF) (has : acc.1.Sim s) :
    (blocks.foldl (authBlocksStep sha valid) acc).1.WF ∧ (blocks.foldl (authBlocksStep sha valid) acc).1.Sim s ∧
      (blocks.foldl (authBlocksStep sha valid) acc).2 =
        acc.2 ++ blocks.filterMap (fun b => (resolveAuthBlock sha valid s b).1) := by
  induction blocks generalizing acc with
  | nil => exact ⟨haw, has, by simp⟩
  | cons b bs ih =>
    have hb' : BlocksSlots bs := fun x hx => hb x (List.mem_cons_of_mem _ hx)
    rw [List.foldl_cons, List.filterMap_cons]
    cases b with
    | nil =>
      have : authBlocksStep sha valid acc [] = acc := by unfold authBlocksStep; simp
      rw [this, resolveAuthBlock_nil]
      exact ih hb' acc haw has
    | cons x xs =>
      obtain ⟨K, hK⟩ := hb (x :: xs) List.mem_cons_self
      obtain ⟨h1, h2⟩ := resolveAuthBlock_sim sha valid haw hw has (x :: xs)
      have h3 := resolveAuthBlock_restore sha valid hw hK
      have h4 := resolveAuthBlock_wf sha valid haw (x :: xs)
      cases hr : (resolveAuthBlock sha valid s (x :: xs)).1 with
      | none => exact absurd (resolveAuthBlock_none.mp hr) (by simp)
      | some e =>
        have hstep : authBlocksStep sha valid acc (x :: xs) = ((resolveAuthBlock sha valid acc.1 (x :: xs)).2, acc.2 ++ [e]) := by
          unfold authBlocksStep
          simp only [List.isEmpty_cons, Bool.false_eq_true, if_false]
          have : resolveAuthBlock sha valid acc.1 (x :: xs) = (some e, (resolveAuthBlock sha valid acc.1 (x :: xs)).2) := by
            rw [← hr, ← h1]
          rw [this]
        rw [hstep]
        obtain ⟨i1, i2, i3⟩ := ih hb' ((resolveAuthBlock sha valid acc.1 (x :: xs)).2, acc.2 ++ [e]) h4 (h2.trans h3)
        refine ⟨i1, i2, ?_⟩
        rw [i3]; simp

/-- `resolveAndAddAuthBlocks`: every block is resolved against (a state with the lookups of) the initial state, then the
    winners are registered. -/
theorem resolveAndAdd_spec (sha : ID → Bytes) (valid : Bool) {s : V1State} (hw : s.WF) {blocks : List (List Event)}
    (hb : BlocksSlots blocks) :
    (resolveAndAddAuthBlocks sha valid s blocks).2 = blocks.filterMap (fun b => (resolveAuthBlock sha valid s b).1) ∧
      (resolveAndAddAuthBlocks sha valid s blocks).1.WF ∧
      (resolveAndAddAuthBlocks sha valid s blocks).1.Sim
        ((blocks.filterMap (fun b => (resolveAuthBlock sha valid s b).1)).foldl V1State.addAuthEvent s) := by
  rw [resolveAndAddAuthBlocks_eq]
  obtain ⟨h1, h2, h3⟩ := authBlocksFold sha valid hw hb (s, []) hw (V1State.Sim.refl s)
  simp only [List.nil_append] at h3
  simp only [h3]
  exact ⟨trivial, foldl_add_wf h1 _, foldl_add_sim_same h2 _⟩
-- `hb`: a block restores the slot of its first candidate and clears that of its winner: the same slot only if the
--   candidates share one (`resolveAuthBlock_restore`).  `hw`: verdicts against states with equal lookups
--   (`v1Allowed_congr`), and re-registering the previous occupant (`lookup_some_authEff`).

/-! ## the order of the blocks and of the candidates inside the blocks is irrelevant -/

theorem eachPerm_filterMap {f f' : List Event → Option Event} {c d : List (List Event)} (h : EachPerm c d)
    (hf : ∀ b ∈ c, ∀ b', b ~ b' → f b = f' b') : c.filterMap f = d.filterMap f' := by
  induction h with
  | nil => rfl
  | cons hp _ ih =>
    rw [List.filterMap_cons, List.filterMap_cons, hf _ List.mem_cons_self _ hp,
      ih (fun b hb => hf b (List.mem_cons_of_mem _ hb))]

theorem BlocksSlots.equiv {blocks blocks' : List (List Event)} (hb : BlocksSlots blocks)
    (heq : SetsEquiv blocks blocks') : BlocksSlots blocks' := by
  intro b' hb'
  obtain ⟨b, hbm, hss⟩ := heq.sim.2 b' hb'
  obtain ⟨K, hK⟩ := hb b hbm
  exact ⟨K, fun e he => hK e ((hss e).mpr he)⟩

/-- `blocks_order_irrelevant`: one call of `resolveAndAddAuthBlocks` on two arrangements of the same blocks (blocks
    permuted, candidates permuted inside each block), against two well-formed states with equal lookups, yields the
    same winners (up to order) and again states with equal lookups. -/
theorem blocks_order_irrelevant (sha : ID → Bytes) (valid : Bool) {s s' : V1State} {blocks blocks' : List (List Event)}
    (hw : s.WF) (hw' : s'.WF) (hsim : s.Sim s') (heq : SetsEquiv blocks blocks')
    (hb : BlocksSlots blocks)
    (hdist : blocks.Pairwise (fun b1 b2 => ∀ e1 ∈ b1, ∀ e2 ∈ b2, keyOf e1 ≠ keyOf e2))
    (hinj : ∀ b ∈ blocks, ∀ x ∈ b, ∀ y ∈ b, x.depth = y.depth → sha x.eventID = sha y.eventID → x = y) :
    (resolveAndAddAuthBlocks sha valid s blocks).2 ~ (resolveAndAddAuthBlocks sha valid s' blocks').2 ∧
      (resolveAndAddAuthBlocks sha valid s blocks).1.Sim (resolveAndAddAuthBlocks sha valid s' blocks').1 ∧
      (resolveAndAddAuthBlocks sha valid s blocks).1.WF ∧ (resolveAndAddAuthBlocks sha valid s' blocks').1.WF := by
  obtain ⟨r1, w1, s1⟩ := resolveAndAdd_spec sha valid hw hb
  obtain ⟨r2, w2, s2⟩ := resolveAndAdd_spec sha valid hw' (hb.equiv heq)
  obtain ⟨c, hpc, hec⟩ := heq
  have hperm : blocks.filterMap (fun b => (resolveAuthBlock sha valid s b).1) ~
      blocks'.filterMap (fun b => (resolveAuthBlock sha valid s' b).1) := by
    refine (hpc.filterMap _).trans (Perm.of_eq (eachPerm_filterMap hec ?_))
    intro b hbc b' hbb'
    rw [resolveAuthBlock_perm sha valid s hbb' (hinj b (hpc.mem_iff.mpr hbc))]
    exact (resolveAuthBlock_sim sha valid hw hw' hsim b').1
  have hpw : (blocks.filterMap (fun b => (resolveAuthBlock sha valid s b).1)).Pairwise (fun a b => keyOf a ≠ keyOf b) := by
    refine List.Pairwise.filterMap _ ?_ hdist
    intro b1 b2 hR e1 he1 e2 he2
    exact hR e1 (resolveAuthBlock_mem he1) e2 (resolveAuthBlock_mem he2)
  refine ⟨by rw [r1, r2]; exact hperm, ?_, w1, w2⟩
  exact s1.trans ((foldl_add_sim hsim (SameSet.of_perm hperm) (slotInj_of_pairwise hpw)).trans s2.symm)
-- `hb` (the candidates of a block share one slot): a block restores the slot of its first candidate only; if it also
--   wrote a foreign slot, later blocks would see a different state than earlier ones.
-- `hdist`: winners of two blocks with the same slot would overwrite each other when registered, the later one winning.
-- `hinj`: see `sortV1_unique`.  `hw`, `hw'`: see `v1Allowed_congr`.

end V.StateRes
