/-
  (1) The auth map enters the ordering / auth-check functions of the state-resolution model ONLY through the lookups
      `findByID authMap` and through its length (used as fuel): EQUALITIES under `MapEq`.
  (2) `mainlineOrdering` is a sort by a total order: a permutation of its input that does not depend on the order
      in which (ID-distinct) events are supplied.
  Core only.
-/
import VProofs.StateResClosure
import VProofs.StateResSort
import VProofs.StateResState
namespace V.StateRes
open V Json GoJson Auth List

/-! ## A. the auth map enters only through lookups (and its length) -/

theorem senderPower_mapEq {am am' : List Event} (h : MapEq am am') (ce : Option Event) (e : Event) :
    senderPower am ce e = senderPower am' ce e := by
  unfold senderPower; rw [h.find_eq]

theorem reverseTopoAuth_mapEq {am am' : List Event} (h : MapEq am am') (ce : Option Event) (evs : List Event) :
    reverseTopoAuth am ce evs = reverseTopoAuth am' ce evs := by
  have hs : senderPower am ce = senderPower am' ce := funext (senderPower_mapEq h ce)
  unfold reverseTopoAuth; rw [hs]

theorem mainlineIter_succ (am : List Event) (fuel : Nat) (path : List ID) (e : Event) (acc : List Event) :
    mainlineIter am (fuel + 1) path e acc =
      (e.authEventIDs.filterMap (findByID am)).foldl
        (fun a p => if isPLEvent p && !path.contains p.eventID then mainlineIter am fuel (p.eventID :: path) p a else a)
        (e :: acc) := rfl

theorem mainlineIter_mapEq {am am' : List Event} (h : MapEq am am') (fuel : Nat) (path : List ID) (e : Event)
    (acc : List Event) : mainlineIter am fuel path e acc = mainlineIter am' fuel path e acc := by
  induction fuel generalizing path e acc with
  | zero => rfl
  | succ fuel ih =>
    have hstep : (fun (a : List Event) (p : Event) =>
          if isPLEvent p && !path.contains p.eventID then mainlineIter am fuel (p.eventID :: path) p a else a) =
        (fun a p => if isPLEvent p && !path.contains p.eventID then mainlineIter am' fuel (p.eventID :: path) p a else a) := by
      funext a p; rw [ih]
    rw [mainlineIter_succ, mainlineIter_succ, hstep, h.find_eq]

theorem createMainline_mapEq {am am' : List Event} (h : MapEq am am') (pl : Option Event) :
    createMainline am pl = createMainline am' pl := by
  unfold createMainline
  cases pl with
  | none => rfl
  | some p => simp only [h.1, mainlineIter_mapEq h]

/-- the inner loop of `firstMainline`, given that the recursive calls (one fuel unit less) agree -/
theorem firstMainline_go_mapEq {am am' : List Event} (ml : List Event) (fuel : Nat)
    (ih : ∀ path e st, firstMainline am ml fuel path e st = firstMainline am' ml fuel path e st) (path : List ID)
    (ps : List Event) (st : Nat × Nat) :
    firstMainline.go am ml fuel path ps st = firstMainline.go am' ml fuel path ps st := by
  induction ps generalizing st with
  | nil => simp only [firstMainline.go]
  | cons p rest ihp =>
    rw [firstMainline.go.eq_2, firstMainline.go.eq_2]
    split
    · exact ihp st
    · split
      · rfl
      · split
        · exact ihp st
        · rw [ih, ihp]

theorem firstMainline_mapEq {am am' : List Event} (h : MapEq am am') (ml : List Event) (fuel : Nat) (path : List ID)
    (e : Event) (st : Nat × Nat) : firstMainline am ml fuel path e st = firstMainline am' ml fuel path e st := by
  induction fuel generalizing path e st with
  | zero => simp only [firstMainline]
  | succ fuel ih =>
    rw [firstMainline.eq_2, firstMainline.eq_2, h.find_eq]
    exact firstMainline_go_mapEq ml fuel ih path _ st

theorem otherKey_mapEq {am am' : List Event} (h : MapEq am am') (ml : List Event) (e : Event) :
    otherKey am ml e = otherKey am' ml e := by
  unfold otherKey; rw [h.1, firstMainline_mapEq h]

theorem mainlineOrdering_mapEq {am am' : List Event} (h : MapEq am am') (ml evs : List Event) :
    mainlineOrdering am ml evs = mainlineOrdering am' ml evs := by
  have hk : otherKey am ml = otherKey am' ml := funext (otherKey_mapEq h ml)
  unfold mainlineOrdering; rw [hk]

theorem fromAuthEvents_mapEq {am am' : List Event} (h : MapEq am am') (rej : List ID) (e : Event) (t k : Bytes) :
    fromAuthEvents am rej e t k = fromAuthEvents am' rej e t k := by
  unfold fromAuthEvents; rw [h.find_eq]

theorem providerFor_mapEq {am am' : List Event} (h : MapEq am am') (rej : List ID) (s : State) (e : Event) :
    providerFor am rej s e = providerFor am' rej s e := by
  have hf : fromAuthEvents am rej e = fromAuthEvents am' rej e := by
    funext t k; exact fromAuthEvents_mapEq h rej e t k
  unfold providerFor; rw [hf]

theorem authStep_mapEq {am am' : List Event} (h : MapEq am am') (rej : List ID) (s : State) (e : Event) :
    authStep am rej s e = authStep am' rej s e := by
  unfold authStep; rw [providerFor_mapEq h]

theorem authAndApply_mapEq {am am' : List Event} (h : MapEq am am') (rej : List ID) (s : State) (evs : List Event) :
    authAndApply am rej s evs = authAndApply am' rej s evs := by
  have hs : authStep am rej = authStep am' rej := by
    funext s e; exact authStep_mapEq h rej s e
  rw [authAndApply_eq, authAndApply_eq, hs]

/-! ## B. the partial state enters the provider only through `State.get` -/

theorem lookupState_get_congr {s s' : State} (h : ∀ t k, s.get t k = s'.get t k) (t k : Bytes) :
    lookupState s t k = lookupState s' t k := by
  unfold lookupState; rw [h]

/-- the provider is built from lookups into the partial state only -/
theorem providerFor_get_congr (am : List Event) (rej : List ID) {s s' : State} (h : ∀ t k, s.get t k = s'.get t k)
    (e : Event) : providerFor am rej s e = providerFor am rej s' e := by
  have hl : lookupState s = lookupState s' := by
    funext t k; exact lookupState_get_congr h t k
  unfold providerFor; rw [hl]

/-- hence one auth-check step gives the same verdict on two states with the same lookups -/
theorem authStep_verdict_get_congr (am : List Event) (rej : List ID) {s s' : State} (h : ∀ t k, s.get t k = s'.get t k)
    (e : Event) :
    allowedFreshNoValid e (Provider.ofEvents (providerFor am rej s e)) false =
      allowedFreshNoValid e (Provider.ofEvents (providerFor am rej s' e)) false := by
  rw [providerFor_get_congr am rej h]

/-! ## C. `mainlineOrdering` is a sort by a total order -/

/-- events decorated with their sort key -/
def withOtherKey (am ml : List Event) (evs : List Event) : List (Event × OtherKey) :=
  evs.map (fun e => (e, otherKey am ml e))

theorem mainlineOrdering_eq (am ml evs : List Event) :
    mainlineOrdering am ml evs =
      (sortBy (fun (a b : Event × OtherKey) => otherLt ((fun (x : Event × OtherKey) => x.2) a) ((fun (x : Event × OtherKey) => x.2) b))
        (withOtherKey am ml evs)).map (·.1) := rfl

theorem withOtherKey_map_fst (am ml evs : List Event) : (withOtherKey am ml evs).map (·.1) = evs := by
  unfold withOtherKey
  induction evs with
  | nil => rfl
  | cons e es ih => simp only [map_cons, ih]

theorem mainlineOrdering_perm (am ml evs : List Event) : mainlineOrdering am ml evs ~ evs := by
  rw [mainlineOrdering_eq]
  have hp := (sortBy_perm (fun (a b : Event × OtherKey) => otherLt ((fun (x : Event × OtherKey) => x.2) a) ((fun (x : Event × OtherKey) => x.2) b))
    (withOtherKey am ml evs)).map (·.1)
  rw [withOtherKey_map_fst] at hp
  exact hp

theorem mem_mainlineOrdering {am ml evs : List Event} {e : Event} : e ∈ mainlineOrdering am ml evs ↔ e ∈ evs :=
  (mainlineOrdering_perm am ml evs).mem_iff

theorem length_mainlineOrdering (am ml evs : List Event) : (mainlineOrdering am ml evs).length = evs.length :=
  (mainlineOrdering_perm am ml evs).length_eq

theorem otherKey_id (am ml : List Event) (e : Event) : (otherKey am ml e).id = e.eventID := by
  unfold otherKey
  split
  rfl

theorem mem_withOtherKey {am ml evs : List Event} {x : Event × OtherKey} (hx : x ∈ withOtherKey am ml evs) :
    x.1 ∈ evs ∧ x.2 = otherKey am ml x.1 := by
  unfold withOtherKey at hx
  rw [mem_map] at hx
  obtain ⟨e, he, rfl⟩ := hx
  exact ⟨he, rfl⟩

/-- among ID-distinct events the sort key identifies the decorated event -/
theorem withOtherKey_keyInj (am ml : List Event) {l : List Event} (hn : IdNodup l) :
    KeyInj (fun (x : Event × OtherKey) => x.2) (withOtherKey am ml l) := by
  intro a ha b hb hab
  obtain ⟨ha1, ha2⟩ := mem_withOtherKey ha
  obtain ⟨hb1, hb2⟩ := mem_withOtherKey hb
  have hab' : a.2 = b.2 := hab
  have hid : a.1.eventID = b.1.eventID := by
    rw [← otherKey_id am ml a.1, ← otherKey_id am ml b.1, ← ha2, ← hb2, hab']
  have h1 : a.1 = b.1 := hn.idsIn a.1 b.1 ha1 hb1 hid
  exact Prod.ext h1 hab'

/-- a sort by a total order on distinct events: the result does not depend on the order the events are given in -/
theorem mainlineOrdering_input_order_irrelevant (am ml : List Event) {l1 l2 : List Event} (hp : l1 ~ l2) (hn : IdNodup l1) :
    mainlineOrdering am ml l1 = mainlineOrdering am ml l2 := by
  rw [mainlineOrdering_eq, mainlineOrdering_eq]
  have hp' : withOtherKey am ml l1 ~ withOtherKey am ml l2 := hp.map _
  rw [sortBy_unique (fun (x : Event × OtherKey) => x.2) otherLt_strictTotal hp' (withOtherKey_keyInj am ml hn)]

/-- the result is sorted: no later element is strictly smaller (by `otherLt` on the keys) than an earlier one -/
theorem mainlineOrdering_sorted (am ml evs : List Event) :
    (mainlineOrdering am ml evs).Pairwise (fun a b => otherLt (otherKey am ml b) (otherKey am ml a) = false) := by
  rw [mainlineOrdering_eq]
  have hs := sortBy_sorted (fun (x : Event × OtherKey) => x.2) otherLt_strictTotal (withOtherKey am ml evs)
  unfold SortedBy at hs
  rw [pairwise_map]
  refine hs.imp_of_mem ?_
  intro a b ha hb hab
  rw [mem_sortBy] at ha hb
  rw [← (mem_withOtherKey ha).2, ← (mem_withOtherKey hb).2]
  exact hab

end V.StateRes
