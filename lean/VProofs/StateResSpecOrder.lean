/-
  C10, ordering definitions: `IsPowerOrder` determines its output (uniqueness), sorted permutations are unique.
  Core only.
-/
import VModel.StateResSpec
import VProofs.StateResSort
namespace V.StateResSpec
open V Json List

variable {α : Type}

theorem Free.mono {child : α → α → Prop} {U V : List α} {x : α} (h : Free child V x) (hs : ∀ a ∈ U, a ∈ V) :
    Free child U x := fun a ha => h a (hs a ha)

/-- dropping the last element of a power order gives a power order of the input without it -/
theorem IsPowerOrder.dropLast {lt child : α → α → Prop} {input pre : List α} {x : α}
    (h : IsPowerOrder lt child input (pre ++ [x])) (input' : List α) (hin : ∀ y, y ∈ input' ↔ (y ∈ input ∧ y ≠ x)) :
    IsPowerOrder lt child input' pre := by
  have hnd := h.nodup
  rw [List.nodup_append] at hnd
  obtain ⟨hpre, _, hdisj⟩ := hnd
  refine ⟨hpre, ?_, ?_, ?_⟩
  · intro y
    rw [hin, ← h.mem]
    constructor
    · intro hy
      exact ⟨List.mem_append_left _ hy, fun e => hdisj y hy x (by simp) e⟩
    · rintro ⟨hy, hne⟩
      rcases List.mem_append.mp hy with hy | hy
      · exact hy
      · simp at hy; exact absurd hy hne
  · intro p y q e
    exact h.free p y (q ++ [x]) (by rw [e]; simp)
  · intro p y q e
    exact h.greatest p y (q ++ [x]) (by rw [e]; simp)

/-- `IsPowerOrder` determines the output: two power orders of the same input are equal
    (only the asymmetry of `lt` is needed). -/
theorem IsPowerOrder.unique {lt child : α → α → Prop} (hasym : ∀ a b, lt a b → ¬ lt b a) :
    ∀ (n : Nat) {input out₁ out₂ : List α}, out₁.length = n →
      IsPowerOrder lt child input out₁ → IsPowerOrder lt child input out₂ → out₁ = out₂ := by
  intro n
  induction n with
  | zero =>
    intro input out₁ out₂ hl h1 h2
    have e1 : out₁ = [] := List.eq_nil_of_length_eq_zero hl
    subst e1
    cases out₂ with
    | nil => rfl
    | cons y ys =>
      have : y ∈ ([] : List α) := (h1.mem y).mpr ((h2.mem y).mp (by simp))
      cases this
  | succ n ih =>
    intro input out₁ out₂ hl h1 h2
    -- split both at the end
    have hne1 : out₁ ≠ [] := by intro e; rw [e] at hl; simp at hl
    obtain ⟨p1, x1, rfl⟩ : ∃ p x, out₁ = p ++ [x] := ⟨out₁.dropLast, out₁.getLast hne1, (List.dropLast_concat_getLast hne1).symm⟩
    have hne2 : out₂ ≠ [] := by
      intro e; subst e
      have : x1 ∈ ([] : List α) := (h2.mem x1).mpr ((h1.mem x1).mp (by simp))
      cases this
    obtain ⟨p2, x2, rfl⟩ : ∃ p x, out₂ = p ++ [x] := ⟨out₂.dropLast, out₂.getLast hne2, (List.dropLast_concat_getLast hne2).symm⟩
    have hsame : ∀ y, y ∈ p1 ++ [x1] ↔ y ∈ p2 ++ [x2] := fun y => (h1.mem y).trans (h2.mem y).symm
    have hf1 : Free child (p1 ++ [x1]) x1 := h1.free p1 x1 [] rfl
    have hf2 : Free child (p2 ++ [x2]) x2 := h2.free p2 x2 [] rfl
    have hx : x1 = x2 := by
      apply Classical.byContradiction
      intro hne
      have hx2 : x2 ∈ p1 := by
        have : x2 ∈ p1 ++ [x1] := (hsame x2).mpr (by simp)
        rcases List.mem_append.mp this with h | h
        · exact h
        · simp at h; exact absurd h.symm hne
      have hx1 : x1 ∈ p2 := by
        have : x1 ∈ p2 ++ [x2] := (hsame x1).mp (by simp)
        rcases List.mem_append.mp this with h | h
        · exact h
        · simp at h; exact absurd h hne
      have l1 : lt x2 x1 := h1.greatest p1 x1 [] rfl x2 hx2 (hf2.mono (fun a ha => (hsame a).mp ha))
      have l2 : lt x1 x2 := h2.greatest p2 x2 [] rfl x1 hx1 (hf1.mono (fun a ha => (hsame a).mpr ha))
      exact hasym _ _ l1 l2
    subst hx
    have hl' : p1.length = n := by simpa using hl
    -- a common reduced input: p1 itself
    have hp1 : IsPowerOrder lt child p1 p1 := h1.dropLast p1 (by
      intro y
      have hnd := h1.nodup
      rw [List.nodup_append] at hnd
      constructor
      · intro hy
        exact ⟨(h1.mem y).mp (List.mem_append_left _ hy), fun e => hnd.2.2 y hy x1 (by simp) e⟩
      · rintro ⟨hy, hne⟩
        rcases List.mem_append.mp ((h1.mem y).mpr hy) with h | h
        · exact h
        · simp at h; exact absurd h hne)
    have hp2 : IsPowerOrder lt child p1 p2 := h2.dropLast p1 (by
      intro y
      have hnd := h1.nodup
      rw [List.nodup_append] at hnd
      constructor
      · intro hy
        exact ⟨(h1.mem y).mp (List.mem_append_left _ hy), fun e => hnd.2.2 y hy x1 (by simp) e⟩
      · rintro ⟨hy, hne⟩
        rcases List.mem_append.mp ((h1.mem y).mpr hy) with h | h
        · exact h
        · simp at h; exact absurd h hne)
    rw [ih hl' hp1 hp2]

theorem IsPowerOrder.eq_of {lt child : α → α → Prop} (hasym : ∀ a b, lt a b → ¬ lt b a) {input out₁ out₂ : List α}
    (h1 : IsPowerOrder lt child input out₁) (h2 : IsPowerOrder lt child input out₂) : out₁ = out₂ :=
  IsPowerOrder.unique hasym out₁.length rfl h1 h2

/-- the input matters only as a set -/
theorem IsPowerOrder.congr_input {lt child : α → α → Prop} {input input' out : List α}
    (h : IsPowerOrder lt child input out) (hs : ∀ x, x ∈ input ↔ x ∈ input') : IsPowerOrder lt child input' out :=
  ⟨h.nodup, fun x => (h.mem x).trans (hs x), h.free, h.greatest⟩

/-- every event comes after the parents (hence, transitively, all ancestors) it has in the input -/
theorem IsPowerOrder.topological {lt child : α → α → Prop} {input out : List α} (h : IsPowerOrder lt child input out)
    {pre post : List α} {x a : α} (e : out = pre ++ x :: post) (hc : child a x) (ha : a ∈ out) : a ∈ post := by
  rw [e] at ha
  rcases List.mem_append.mp ha with h1 | h1
  · exact absurd hc (h.free pre x post e a (List.mem_append_left _ h1))
  · rcases List.mem_cons.mp h1 with rfl | h2
    · exact absurd hc (h.free pre a post e a (by simp))
    · exact h2

end V.StateResSpec
