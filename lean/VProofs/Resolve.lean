/-
  VProofs.Resolve — lemmas relating the model of resolve.go / servername.go to the specification
  (Server-Server API "Resolving server names").
-/
import VModel.Resolve
import VProofs.Cidr
namespace V.Resolve
open V.Cidr (Str parseIP parseAddr parseAddrGo ParsedAddr isMapped mapped)

/-! ### net.ParseIP on a text without ':' yields an IPv4 address -/

theorem parseAddrGo_noColon (whole s : Str) (h : ':' ∉ s) (p : ParsedAddr) (hp : parseAddrGo whole s = some p) :
    ∃ a, p = .v4 a := by
  induction s with
  | nil => simp [parseAddrGo] at hp
  | cons c rest ih =>
    have hc : c ≠ ':' := fun e => h (by simp [e])
    have hr : ':' ∉ rest := fun e => h (by simp [e])
    unfold parseAddrGo at hp
    by_cases h1 : c = '.'
    · simp only [h1, beq_self_eq_true, ↓reduceIte] at hp
      cases hf : Cidr.parseIPv4Fields whole with
      | none => simp [hf] at hp
      | some f => simp [hf] at hp; exact ⟨_, hp.symm⟩
    · have h1' : (c == '.') = false := by simpa using h1
      have h2' : (c == ':') = false := by simpa using hc
      simp only [h1', h2', Bool.false_eq_true, ↓reduceIte] at hp
      by_cases h3 : c = '%'
      · simp [h3] at hp
      · have h3' : (c == '%') = false := by simpa using h3
        simp only [h3', Bool.false_eq_true, ↓reduceIte] at hp
        exact ih hr hp

theorem isMapped_mapped (a : Nat) (h : a < 2 ^ 32) : isMapped (mapped a) = true := by
  unfold isMapped mapped
  have : (0xFFFF * 2 ^ 32 + a) / 2 ^ 32 = 0xFFFF := by omega
  simp [this]

/-- an IP literal written without ':' is (in 16-byte form) an IPv4-mapped address -/
theorem parseIP_noColon_mapped (s : Str) (h : s.contains ':' = false) (a : Nat) (hp : parseIP s = some a) :
    isMapped a = true := by
  have hmem : ':' ∉ s := by simpa using h
  unfold parseIP at hp
  cases hq : parseAddr s with
  | none => simp [hq] at hp
  | some p =>
    simp [hq] at hp
    obtain ⟨x, hx⟩ := parseAddrGo_noColon s s hmem p hq
    subst hx
    rw [← hp]
    exact isMapped_mapped _ (Nat.mod_lt _ (Nat.two_pow_pos _))

theorem colon_not_dns (s : Str) (h : s.contains ':' = true) : s.all isDNSNameChar = false := by
  have hmem : ':' ∈ s := by simpa using h
  rw [← Bool.not_eq_true]
  intro hall
  rw [List.all_eq_true] at hall
  have := hall ':' hmem
  simp [isDNSNameChar] at this

/-! ### splitServerName and the specification's hostPort agree -/

theorem isPort_iff (p : Str) : Spec.isPort p = (parsePort p).isSome := by
  unfold Spec.isPort parsePort
  by_cases h1 : p.isEmpty <;> by_cases h2 : p.all isDigit <;> by_cases h3 : natOfDigits p > 65535 <;>
    simp [h1, h2, h3] <;> omega

/-- the host part is the same; a port is present on one side iff on the other -/
theorem split_agree (name : Str) :
    (splitServerName name).1 = (Spec.hostPort name).1 ∧
    ((splitServerName name).2.isSome = (Spec.hostPort name).2.isSome) := by
  unfold splitServerName Spec.hostPort
  cases hs : splitLastColon name with
  | none => simp
  | some hp =>
    obtain ⟨h, p⟩ := hp
    simp only []
    rw [isPort_iff]
    cases hpp : parsePort p <;> simp

end V.Resolve

namespace V.Resolve
open V.Cidr (Str parseIP)

/-- what the specification assigns to a name by steps 1 and 2 (or refusal) -/
def Spec.directResult (name : Str) : Except Err (Option (List Target)) :=
  match Spec.classify name with
  | none => .error (.other "invalid-server-name")
  | some k => .ok (Spec.direct name k)

theorem classifyHost_nobracket (c0 : Char) (t : Str) (sp : Option Str) (h : c0 ≠ '[') :
    Spec.classifyHost (c0 :: t) sp =
      (if Spec.isIPv4Literal (c0 :: t) then some (.literal (c0 :: t) sp)
       else if (c0 :: t).all isDNSNameChar then some (.named (c0 :: t) sp) else none) := by
  unfold Spec.classifyHost
  split
  · simp_all
  · simp_all
  · rfl

theorem directOf_nobracket_ip (name : Str) (c0 : Char) (t : Str) (port : Option Nat) (sp : Option Str) (a : Nat)
    (hc0 : (c0 == '[') = false) (hip : parseIP (c0 :: t) = some a) (hps : port.isSome = sp.isSome) :
    directOf name (c0 :: t) port = .ok (Spec.direct name (.literal (c0 :: t) sp)) := by
  cases port with
  | none =>
    cases sp with
    | none => simp [directOf, hc0, hip, Spec.direct, Spec.hostport, joinHostPort, port8448]
    | some _ => simp at hps
  | some pn =>
    cases sp with
    | none => simp at hps
    | some _ => simp [directOf, hc0, hip, Spec.direct]

theorem directOf_nobracket_name (name : Str) (c0 : Char) (t : Str) (port : Option Nat) (sp : Option Str)
    (hc0 : (c0 == '[') = false) (hip : parseIP (c0 :: t) = none) (hps : port.isSome = sp.isSome) :
    directOf name (c0 :: t) port = .ok (Spec.direct name (.named (c0 :: t) sp)) := by
  cases port with
  | none =>
    cases sp with
    | none => simp [directOf, hc0, hip, Spec.direct]
    | some _ => simp at hps
  | some pn =>
    cases sp with
    | none => simp at hps
    | some _ => simp [directOf, hc0, hip, Spec.direct]

theorem directOf_bracket (name : Str) (x : Char) (xs : Str) (port : Option Nat) (sp : Option Str) (a : Nat)
    (hl : (x :: xs).getLast? = some ']') (hip : parseIP (x :: xs).dropLast = some a) (hps : port.isSome = sp.isSome) :
    directOf name ('[' :: x :: xs) port = .ok (Spec.direct name (.literal (x :: xs).dropLast sp)) := by
  have hgl : ('[' :: x :: xs).getLast? = (x :: xs).getLast? := by simp [List.getLast?_cons_cons]
  cases port with
  | none =>
    cases sp with
    | none => simp [directOf, hgl, hl, hip, Spec.direct, Spec.hostport, joinHostPort, port8448]
    | some _ => simp at hps
  | some pn =>
    cases sp with
    | none => simp at hps
    | some _ => simp [directOf, hgl, hl, hip, Spec.direct]

/-- the core case analysis, with the split already done -/
theorem direct_core (name host : Str) (port : Option Nat) (sp : Option Str) (hps : port.isSome = sp.isSome) :
    (match validateHost host port with
      | none => (.error (.other "invalid-server-name") : Except Err (Option (List Target)))
      | some (host, port) => directOf name host port)
    =
    (match Spec.classifyHost host sp with
      | none => .error (.other "invalid-server-name")
      | some k => .ok (Spec.direct name k)) := by
  cases host with
  | nil => rfl
  | cons c0 t =>
    by_cases hc0 : c0 = '['
    · subst hc0
      cases t with
      | nil => simp [validateHost, Spec.classifyHost]
      | cons x xs =>
        have hgl : ('[' :: x :: xs).getLast? = (x :: xs).getLast? := by simp [List.getLast?_cons_cons]
        have hv : validateHost ('[' :: x :: xs) port =
            if (x :: xs).getLast? != some ']' then none
            else if (parseIP (x :: xs).dropLast).isNone then none else some ('[' :: x :: xs, port) := by
          simp [validateHost, hgl]
        rw [hv]
        by_cases hl : (x :: xs).getLast? = some ']'
        · have hl' : ((x :: xs).getLast? != some ']') = false := by simp [hl]
          have hs : Spec.classifyHost ('[' :: x :: xs) sp =
              if (parseIP (x :: xs).dropLast).isSome then some (.literal (x :: xs).dropLast sp) else none := by
            simp [Spec.classifyHost, hl]
          rw [hs]
          simp only [hl', Bool.false_eq_true, ↓reduceIte]
          cases hip : parseIP (x :: xs).dropLast with
          | none => simp
          | some a =>
            simp only [Option.isNone_some, Option.isSome_some, Bool.false_eq_true, ↓reduceIte]
            exact directOf_bracket name x xs port sp a hl hip hps
        · have hl' : ((x :: xs).getLast? != some ']') = true := by simpa using hl
          have hs : Spec.classifyHost ('[' :: x :: xs) sp = none := by
            unfold Spec.classifyHost
            split
            · rfl
            · rename_i rest heq
              simp only [List.cons.injEq, true_and] at heq
              subst heq
              split
              · rename_i h2; exact absurd h2 hl
              · rfl
            · rename_i h; exact absurd rfl (h (x :: xs))
          rw [hs]
          simp only [hl', ↓reduceIte]
    · have hc0' : (c0 == '[') = false := by simpa using hc0
      rw [classifyHost_nobracket c0 t sp hc0]
      have hv : validateHost (c0 :: t) port =
          match parseIP (c0 :: t) with
          | some a =>
            if Cidr.isMapped a && !(c0 :: t).contains ':' then some (c0 :: t, port)
            else if (c0 :: t).all isDNSNameChar then some (c0 :: t, port) else none
          | none => if (c0 :: t).all isDNSNameChar then some (c0 :: t, port) else none := by
        simp only [validateHost, hc0', Bool.false_eq_true, ↓reduceIte]
        split <;> rename_i heq <;> simp only [heq]
      rw [hv]
      cases hip : parseIP (c0 :: t) with
      | some a =>
        by_cases hcol : (c0 :: t).contains ':' = true
        · have hdns := colon_not_dns _ hcol
          have hlit : Spec.isIPv4Literal (c0 :: t) = false := by simp only [Spec.isIPv4Literal, hcol]; rfl
          simp only [hcol, hdns, hlit, Bool.not_true, Bool.and_false, Bool.false_eq_true, ↓reduceIte]
        · have hcol' : (c0 :: t).contains ':' = false := by simpa using hcol
          have hm := parseIP_noColon_mapped _ hcol' a hip
          have hlit : Spec.isIPv4Literal (c0 :: t) = true := by simp only [Spec.isIPv4Literal, hcol', hip]; rfl
          simp only [hcol', hm, hlit, Bool.not_false, Bool.and_true, ↓reduceIte]
          exact directOf_nobracket_ip name c0 t port sp a hc0' hip hps
      | none =>
        have hlit : Spec.isIPv4Literal (c0 :: t) = false := by simp only [Spec.isIPv4Literal, hip]; simp
        by_cases hd : (c0 :: t).all isDNSNameChar = true
        · simp only [hd, hlit, Bool.false_eq_true, ↓reduceIte]
          exact directOf_nobracket_name name c0 t port sp hc0' hip hps
        · have hd' : (c0 :: t).all isDNSNameChar = false := by simpa using hd
          simp only [hd', hlit, Bool.false_eq_true, ↓reduceIte]

end V.Resolve

namespace V.Resolve
open V.Cidr (Str parseIP)

/-- validity and steps 1, 2: the code decides what the specification decides -/
theorem resolveDirect_eq (name : Str) : resolveDirect name = Spec.directResult name := by
  unfold resolveDirect parseAndValidate Spec.directResult Spec.classify
  cases name with
  | nil => rfl
  | cons c cs =>
    obtain ⟨h1, h2⟩ := split_agree (c :: cs)
    generalize splitServerName (c :: cs) = sn at h1 h2
    generalize Spec.hostPort (c :: cs) = hp at h1 h2
    obtain ⟨host, port⟩ := sn
    obtain ⟨host', sp⟩ := hp
    simp only at h1 h2
    subst h1
    simp only [List.isEmpty_cons, Bool.false_eq_true, ↓reduceIte]
    exact direct_core (c :: cs) host port sp h2

theorem srvTarget_eq (name : Str) (r : Str × Nat) :
    srvTarget name r = if Spec.rootTarget r then none else some ⟨Spec.stripDot r.1 ++ ':' :: natStr r.2, name, name⟩ := by
  unfold srvTarget Spec.rootTarget Spec.stripDot
  by_cases hd : r.1.getLast? = some '.'
  · simp [hd]
  · simp [hd]

theorem srvTargetsGo_eq (name : Str) (rs : List (Str × Nat)) :
    srvTargetsGo name rs = Spec.srvTargets name rs := by
  unfold srvTargetsGo Spec.srvTargets
  induction rs with
  | nil => rfl
  | cons r rest ih =>
    rw [List.filterMap_cons, srvTarget_eq, List.filter_cons]
    cases hr : Spec.rootTarget r
    · simp [ih]
    · simp [ih]

/-- steps 4-6 (3.3-3.5): the SRV part of the code is the specification's, whatever the targets of the records -/
theorem handleNoWellKnown_eq (srv : Str → Str → SrvAnswer) (n : Str) (hs : Spec.SrvSane srv) :
    handleNoWellKnown srv n = .ok (Spec.srvSteps srv n) := by
  unfold handleNoWellKnown lookupSRV Spec.srvSteps
  cases h1 : srv "matrix-fed".toList n with
  | records rs =>
    cases rs with
    | nil => exact absurd rfl (hs _ _ _ h1)
    | cons r rest =>
      simp only [Spec.found, Bool.not_false, List.length_cons, gt_iff_lt, Nat.zero_lt_succ, decide_true, Bool.and_self, ↓reduceIte]
      rw [srvTargetsGo_eq]
  | dnsError => simp [Spec.found, port8448]
  | otherError => simp [Spec.found, port8448]
  | notFound =>
    simp only [Spec.found]
    cases h2 : srv "matrix".toList n with
    | records rs =>
      cases rs with
      | nil => exact absurd rfl (hs _ _ _ h2)
      | cons r rest =>
        simp only [Spec.found, Bool.not_false, List.length_cons, gt_iff_lt, Nat.zero_lt_succ, decide_true, Bool.and_self, ↓reduceIte]
        rw [srvTargetsGo_eq]
    | dnsError => simp [Spec.found, port8448]
    | otherError => simp [Spec.found, port8448]
    | notFound => simp [Spec.found, port8448]

end V.Resolve
