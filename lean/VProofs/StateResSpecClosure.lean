/-
  C10 stage 1: the breadth-first closures of the model (`authClosure`, `controlClosure`) compute reachability
  by ≥ 1 auth step inside the supplied map.  Acyclicity is NOT needed: the fuel bound is a pigeonhole on the
  IDs of the map not yet seen.  Core only.
-/
import VModel.StateResSpec
import VProofs.StateResBasic
namespace V.StateResSpec
open V Json List
open V.StateRes

/-! ## glue -/

theorem lookup_eq_findByID (m : List Event) (id : ID) : lookup m id = findByID m id := rfl

theorem idsIdentify_iff_evId (U : Event → Prop) : IDsIdentify U ↔ EvId U := Iff.rfl

theorem mem_authParents {m : List Event} {x y : Event} (h : y ∈ authParents m x) : AuthEdge (· ∈ m) x y := by
  unfold authParents at h
  obtain ⟨id, hid, hf⟩ := List.mem_filterMap.mp h
  obtain ⟨hy, he⟩ := findByID_some hf
  exact ⟨hy, he ▸ hid⟩

theorem authParents_of_edge {m : List Event} (hm : IdNodup m) {x y : Event} (h : AuthEdge (· ∈ m) x y) :
    y ∈ authParents m x := by
  unfold authParents
  exact List.mem_filterMap.mpr ⟨y.eventID, h.2, findByID_of_mem hm.idsIn h.1⟩

theorem mem_authParents_iff {m : List Event} (hm : IdNodup m) {x y : Event} :
    y ∈ authParents m x ↔ AuthEdge (· ∈ m) x y := ⟨mem_authParents, authParents_of_edge hm⟩

theorem mem_authEventsOf_iff {m : List Event} (hm : IdNodup m) {x y : Event} :
    y ∈ authEventsOf m x ↔ AuthEdge (· ∈ m) x y := mem_authParents_iff hm

theorem ReachPlus.trans {P : Event → Prop} {x y z : Event} (h1 : ReachPlus P x y) (h2 : ReachPlus P y z) : ReachPlus P x z := by
  induction h1 with
  | edge e => exact .step e h2
  | step e _ ih => exact .step e (ih h2)

theorem ReachPlus.tail {P : Event → Prop} {x y z : Event} (h1 : ReachPlus P x y) (e : AuthEdge P y z) : ReachPlus P x z :=
  h1.trans (.edge e)

theorem ReachPlus.target {P : Event → Prop} {x y : Event} (h : ReachPlus P x y) : P y := by
  induction h with
  | edge e => exact e.1
  | step _ _ ih => exact ih

theorem ReachPlus.mono {P Q : Event → Prop} (hPQ : ∀ x, P x → Q x) {x y : Event} (h : ReachPlus P x y) : ReachPlus Q x y := by
  induction h with
  | edge e => exact .edge ⟨hPQ _ e.1, e.2⟩
  | step e _ ih => exact .step ⟨hPQ _ e.1, e.2⟩ ih

/-- reachability depends on the source only through its list of auth event IDs -/
theorem ReachPlus.congr_source {P : Event → Prop} {x x' y : Event} (hx : x.authEventIDs = x'.authEventIDs)
    (h : ReachPlus P x y) : ReachPlus P x' y := by
  cases h with
  | edge e => exact .edge ⟨e.1, hx ▸ e.2⟩
  | step e r => exact .step ⟨e.1, hx ▸ e.2⟩ r

/-! ## one round of the breadth-first search -/

def nextOf (m : List Event) (frontier : List Event) : List Event := (frontier.map (authParents m)).flatten

def freshOf (m : List Event) (frontier : List Event) (seen : List ID) : List Event :=
  (eventMapFromEvents (nextOf m frontier)).filter (fun e => !seen.contains e.eventID)

theorem authClosure_zero (m : List Event) (fr : List Event) (seen : List ID) : authClosure m 0 fr seen = seen := rfl

theorem authClosure_succ (m : List Event) (fuel : Nat) (fr : List Event) (seen : List ID) :
    authClosure m (fuel + 1) fr seen =
      if (freshOf m fr seen).isEmpty then seen
      else authClosure m fuel (freshOf m fr seen) (seen ++ (freshOf m fr seen).map (·.eventID)) := rfl

theorem controlClosure_eq_authClosure (m : List Event) : ∀ (fuel : Nat) (fr : List Event) (seen : List ID),
    controlClosure m fuel fr seen = authClosure m fuel fr seen := by
  intro fuel
  induction fuel with
  | zero => intro fr seen; rfl
  | succ n ih =>
    intro fr seen
    have hp : authParents m = fun e => e.authEventIDs.filterMap (findByID m) := rfl
    unfold controlClosure authClosure
    simp only [hp, ih]

theorem mem_nextOf {m fr : List Event} {y : Event} : y ∈ nextOf m fr ↔ ∃ s ∈ fr, y ∈ authParents m s := by
  unfold nextOf
  simp only [List.mem_flatten, List.mem_map]
  constructor
  · rintro ⟨l, ⟨s, hs, rfl⟩, hy⟩; exact ⟨s, hs, hy⟩
  · rintro ⟨s, hs, hy⟩; exact ⟨_, ⟨s, hs, rfl⟩, hy⟩

theorem mem_freshOf {m fr : List Event} {seen : List ID} {f : Event} (h : f ∈ freshOf m fr seen) :
    f ∈ m ∧ f.eventID ∉ seen ∧ ∃ s ∈ fr, AuthEdge (· ∈ m) s f := by
  unfold freshOf at h
  obtain ⟨h1, h2⟩ := List.mem_filter.mp h
  obtain ⟨s, hs, hy⟩ := mem_nextOf.mp (mem_eventMap h1)
  have he := mem_authParents hy
  refine ⟨he.1, ?_, s, hs, he⟩
  simpa using h2

/-- a parent of a frontier event is already seen or is fresh -/
theorem parent_seen_or_fresh {m : List Event} (hm : IdNodup m) {fr : List Event} {seen : List ID} {s y : Event}
    (hs : s ∈ fr) (he : AuthEdge (· ∈ m) s y) : y.eventID ∈ seen ∨ y ∈ freshOf m fr seen := by
  by_cases hseen : y.eventID ∈ seen
  · exact Or.inl hseen
  · right
    have hy : y ∈ nextOf m fr := mem_nextOf.mpr ⟨s, hs, authParents_of_edge hm he⟩
    have hid : y.eventID ∈ (eventMapFromEvents (nextOf m fr)).map (·.eventID) :=
      (eventMap_ids _ _).mpr (List.mem_map_of_mem hy)
    obtain ⟨y', hy', hid'⟩ := List.mem_map.mp hid
    have hy'm : y' ∈ m := by
      obtain ⟨s', _, h'⟩ := mem_nextOf.mp (mem_eventMap hy')
      exact (mem_authParents h').1
    have : y' = y := hm.idsIn y' y hy'm he.1 hid'
    subst this
    unfold freshOf
    exact List.mem_filter.mpr ⟨hy', by simpa using hseen⟩

/-! ## soundness: everything collected is reachable -/

theorem authClosure_sound (m : List Event) : ∀ (fuel : Nat) (fr : List Event) (seen : List ID) (id : ID),
    id ∈ authClosure m fuel fr seen → id ∈ seen ∨ ∃ s ∈ fr, ∃ y, y.eventID = id ∧ ReachPlus (· ∈ m) s y := by
  intro fuel
  induction fuel with
  | zero => intro fr seen id h; exact Or.inl h
  | succ n ih =>
    intro fr seen id h
    rw [authClosure_succ] at h
    split at h
    · exact Or.inl h
    · rcases ih _ _ _ h with h1 | ⟨f, hf, y, hy, hr⟩
      · rcases List.mem_append.mp h1 with h2 | h2
        · exact Or.inl h2
        · obtain ⟨f, hf, rfl⟩ := List.mem_map.mp h2
          obtain ⟨_, _, s, hs, he⟩ := mem_freshOf hf
          exact Or.inr ⟨s, hs, f, rfl, .edge he⟩
      · obtain ⟨_, _, s, hs, he⟩ := mem_freshOf hf
        exact Or.inr ⟨s, hs, y, hy, .step he hr⟩

/-! ## completeness: the pigeonhole measure and the closedness invariant -/

/-- number of events of the map whose ID has not been seen -/
def unseen (m : List Event) (seen : List ID) : Nat := m.countP (fun x => !seen.contains x.eventID)

theorem unseen_le_length (m : List Event) (seen : List ID) : unseen m seen ≤ m.length := List.countP_le_length

theorem unseen_nil (m : List Event) : unseen m [] = m.length := by
  unfold unseen; simp

theorem countP_lt_of_imp {α : Type} {p q : α → Bool} : ∀ {l : List α}, (∀ x ∈ l, p x = true → q x = true) →
    ∀ a ∈ l, q a = true → p a = false → l.countP p < l.countP q
  | [], _, a, ha, _, _ => by cases ha
  | x :: xs, himp, a, ha, hq, hp => by
    have hle : xs.countP p ≤ xs.countP q := List.countP_mono_left (fun y hy => himp y (List.mem_cons_of_mem _ hy))
    rcases List.mem_cons.mp ha with rfl | ha'
    · rw [List.countP_cons_of_pos hq, List.countP_cons_of_neg (by simp [hp])]; omega
    · have ih := countP_lt_of_imp (fun y hy => himp y (List.mem_cons_of_mem _ hy)) a ha' hq hp
      simp only [List.countP_cons]
      have := himp x (by simp)
      cases hpx : p x <;> cases hqx : q x <;> simp_all <;> omega

theorem unseen_lt {m : List Event} {seen : List ID} {ids : List ID} {f : Event} (hf : f ∈ m) (h1 : f.eventID ∉ seen)
    (h2 : f.eventID ∈ ids) : unseen m (seen ++ ids) < unseen m seen := by
  unfold unseen
  refine countP_lt_of_imp ?_ f hf (by simpa using h1) (by simp [h2])
  intro x _ hx
  simp only [List.contains_eq_mem, List.mem_append, Bool.not_eq_eq_eq_not, Bool.not_true, decide_eq_false_iff_not,
    not_or] at hx ⊢
  exact hx.1

/-- every seen event of the map is still to be expanded (it is in the frontier) or has all its parents seen -/
def Closed (m : List Event) (fr : List Event) (seen : List ID) : Prop :=
  ∀ x ∈ m, x.eventID ∈ seen → x ∈ fr ∨ ∀ y, AuthEdge (· ∈ m) x y → y.eventID ∈ seen

theorem closed_nil (m fr : List Event) : Closed m fr [] := by
  intro x _ h; cases h

theorem closed_step {m : List Event} (hm : IdNodup m) {fr : List Event} {seen : List ID} (hc : Closed m fr seen) :
    Closed m (freshOf m fr seen) (seen ++ (freshOf m fr seen).map (·.eventID)) := by
  intro x hx hxs
  rcases List.mem_append.mp hxs with h | h
  · right
    intro y he
    rcases hc x hx h with hfr | hcl
    · rcases parent_seen_or_fresh hm (seen := seen) hfr he with h1 | h1
      · exact List.mem_append_left _ h1
      · exact List.mem_append_right _ (List.mem_map_of_mem h1)
    · exact List.mem_append_left _ (hcl y he)
  · left
    obtain ⟨f, hf, hid⟩ := List.mem_map.mp h
    have : f = x := hm.idsIn f x (mem_freshOf hf).1 hx hid
    exact this ▸ hf

/-- one round loses nothing -/
theorem advance {m : List Event} (hm : IdNodup m) {fr : List Event} {seen : List ID} (hc : Closed m fr seen)
    {x y : Event} (hr : ReachPlus (· ∈ m) x y) (hx : x ∈ fr ∨ (x ∈ m ∧ x.eventID ∈ seen)) :
    y.eventID ∈ seen ++ (freshOf m fr seen).map (·.eventID) ∨ ∃ f ∈ freshOf m fr seen, ReachPlus (· ∈ m) f y := by
  induction hr with
  | @edge x y e =>
    left
    have hfr : x ∈ fr → y.eventID ∈ seen ++ (freshOf m fr seen).map (·.eventID) := by
      intro hfr
      rcases parent_seen_or_fresh hm (seen := seen) hfr e with h1 | h1
      · exact List.mem_append_left _ h1
      · exact List.mem_append_right _ (List.mem_map_of_mem h1)
    rcases hx with hx | ⟨hxm, hxs⟩
    · exact hfr hx
    · rcases hc x hxm hxs with h | h
      · exact hfr h
      · exact List.mem_append_left _ (h y e)
  | @step x y1 z e _ ih =>
    have hy1 : y1.eventID ∈ seen ∨ y1 ∈ freshOf m fr seen := by
      rcases hx with hx | ⟨hxm, hxs⟩
      · exact parent_seen_or_fresh hm hx e
      · rcases hc x hxm hxs with h | h
        · exact parent_seen_or_fresh hm h e
        · exact Or.inl (h y1 e)
    rcases hy1 with h | h
    · exact ih (Or.inr ⟨e.1, h⟩)
    · exact Or.inr ⟨y1, h, by assumption⟩

theorem authClosure_complete {m : List Event} (hm : IdNodup m) : ∀ (fuel : Nat) (fr : List Event) (seen : List ID),
    unseen m seen < fuel → Closed m fr seen → ∀ id,
    (id ∈ seen ∨ ∃ s ∈ fr, ∃ y, y.eventID = id ∧ ReachPlus (· ∈ m) s y) → id ∈ authClosure m fuel fr seen := by
  intro fuel
  induction fuel with
  | zero => intro fr seen h; omega
  | succ n ih =>
    intro fr seen hfuel hc id hid
    rw [authClosure_succ]
    -- what one round gives
    have hadv : id ∈ seen ++ (freshOf m fr seen).map (·.eventID) ∨
        ∃ f ∈ freshOf m fr seen, ∃ y, y.eventID = id ∧ ReachPlus (· ∈ m) f y := by
      rcases hid with h | ⟨s, hs, y, hy, hr⟩
      · exact Or.inl (List.mem_append_left _ h)
      · rcases advance hm hc hr (Or.inl hs) with h | ⟨f, hf, hr'⟩
        · exact Or.inl (hy ▸ h)
        · exact Or.inr ⟨f, hf, y, hy, hr'⟩
    split
    · rename_i hemp
      have hnil : freshOf m fr seen = [] := List.isEmpty_iff.mp hemp
      rw [hnil] at hadv
      rcases hadv with h | ⟨f, hf, _⟩
      · simpa using h
      · cases hf
    · rename_i hne
      apply ih _ _ ?_ (closed_step hm hc) id hadv
      obtain ⟨f, hf⟩ : ∃ f, f ∈ freshOf m fr seen := by
        cases h : freshOf m fr seen with
        | nil => rw [h] at hne; simp at hne
        | cons a as => exact ⟨a, by simp⟩
      have := unseen_lt (m := m) (seen := seen) (ids := (freshOf m fr seen).map (·.eventID))
        (mem_freshOf hf).1 (mem_freshOf hf).2.1 (List.mem_map_of_mem hf)
      omega

/-- the general statement: with enough fuel the closure adds to `seen` exactly what is reachable from the frontier -/
theorem mem_authClosure_iff {m : List Event} (hm : IdNodup m) {fuel : Nat} {fr : List Event} {seen : List ID}
    (hfuel : unseen m seen < fuel) (hc : Closed m fr seen) (id : ID) :
    id ∈ authClosure m fuel fr seen ↔ id ∈ seen ∨ ∃ s ∈ fr, ∃ y, y.eventID = id ∧ ReachPlus (· ∈ m) s y :=
  ⟨authClosure_sound m fuel fr seen id, authClosure_complete hm fuel fr seen hfuel hc id⟩

/-- **Stage 1.** With the fuel the model uses (any fuel ≥ |map| + 1), the closure of `start` is exactly the set of IDs
    of events reachable from `start` by one or more auth steps inside the map. -/
theorem authClosure_iff_reachable {m : List Event} (hm : IdNodup m) (start : List Event) {fuel : Nat}
    (hfuel : m.length + 1 ≤ fuel) (id : ID) :
    id ∈ authClosure m fuel start [] ↔ ∃ s ∈ start, ∃ y, y.eventID = id ∧ ReachPlus (· ∈ m) s y := by
  rw [mem_authClosure_iff hm (by rw [unseen_nil]; omega) (closed_nil m start)]
  simp

theorem mem_fullAuthChain_iff {m : List Event} (hm : IdNodup m) (S : List Event) (id : ID) :
    id ∈ fullAuthChain m S ↔ ∃ y, y.eventID = id ∧ InAuthChain (· ∈ m) S y := by
  unfold fullAuthChain InAuthChain
  rw [authClosure_iff_reachable hm S (Nat.le_refl _)]
  constructor
  · rintro ⟨s, hs, y, hy, hr⟩; exact ⟨y, hy, s, hs, hr⟩
  · rintro ⟨y, hy, s, hs, hr⟩; exact ⟨s, hs, y, hy, hr⟩

/-- reflexive closure as the model computes it -/
theorem mem_reachFrom_iff {m : List Event} (hm : IdNodup m) (e : Event) (id : ID) :
    id ∈ reachFrom m e ↔ ∃ y, y.eventID = id ∧ Reach (· ∈ m) e y := by
  unfold reachFrom
  rw [mem_insertID, authClosure_iff_reachable hm [e] (Nat.le_refl _)]
  unfold Reach
  constructor
  · rintro (⟨s, hs, y, hy, hr⟩ | h)
    · simp at hs; subst hs; exact ⟨y, hy, Or.inr hr⟩
    · exact ⟨e, h.symm, Or.inl rfl⟩
  · rintro ⟨y, hy, (h | h)⟩
    · right; rw [← hy, h]
    · left; exact ⟨e, by simp, y, hy, h⟩

/-- **Stage 1 (control closure, R3).** Started from the roots with their IDs already recorded, the control closure
    adds exactly what is reachable from the roots inside the conflicted map.  `h0`: a map event carrying the ID of a
    root is that root (IDs identify events). -/
theorem controlClosure_iff {cm : List Event} (hm : IdNodup cm) (roots : List Event) (rootIDs : List ID) {fuel : Nat}
    (hfuel : cm.length + 1 ≤ fuel) (h0 : ∀ x ∈ cm, x.eventID ∈ rootIDs → x ∈ roots) (id : ID) :
    id ∈ controlClosure cm fuel roots rootIDs ↔
      id ∈ rootIDs ∨ ∃ r ∈ roots, ∃ y, y.eventID = id ∧ ReachPlus (· ∈ cm) r y := by
  rw [controlClosure_eq_authClosure]
  refine mem_authClosure_iff hm ?_ (fun x hx hs => Or.inl (h0 x hx hs)) id
  have := unseen_le_length cm rootIDs
  omega

end V.StateResSpec
