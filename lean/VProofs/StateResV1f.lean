/-
  Version 1 state resolution, part 6: the result of `resolveV1` does not depend on the order of the conflicted events
  nor on the order / multiplicity of the supplied auth events (`v1_perm_invariant`).  Core only.
-/
import VProofs.StateResV1e
namespace V.StateRes
open V Json GoJson Auth List

/-! ## the blocks of one phase for two arrangements of the conflicted events -/

theorem phaseBlocks_eq (conflicted : List Event) (p : Bytes × Bytes → Bool) :
    phaseBlocks conflicted p =
      (((groupByKey conflicted).map (·.1)).filter p).map (fun K => conflicted.filter (hasKey K)) := by
  unfold phaseBlocks
  rw [List.filter_map, List.map_map]
  apply List.map_congr_left
  intro g hg
  exact (groupByKey_group (List.mem_filter.mp hg).1).1

theorem eachPerm_map {α} {F F' : α → List Event} {L : List α} (h : ∀ x ∈ L, F x ~ F' x) : EachPerm (L.map F) (L.map F') := by
  induction L with
  | nil => exact .nil
  | cons x xs ih =>
    exact .cons (h x List.mem_cons_self) (ih (fun y hy => h y (List.mem_cons_of_mem _ hy)))

theorem phaseBlocks_equiv {conflicted conflicted' : List Event} (hc : conflicted ~ conflicted') (p : Bytes × Bytes → Bool) :
    SetsEquiv (phaseBlocks conflicted p) (phaseBlocks conflicted' p) := by
  rw [phaseBlocks_eq, phaseBlocks_eq]
  refine ⟨(((groupByKey conflicted').map (·.1)).filter p).map (fun K => conflicted.filter (hasKey K)), ?_, ?_⟩
  · exact ((groupByKey_perm_keys hc).filter p).map _
  · exact eachPerm_map (fun K _ => hc.filter _)

theorem mem_phaseBlocks {conflicted : List Event} {p : Bytes × Bytes → Bool} {b : List Event}
    (h : b ∈ phaseBlocks conflicted p) : ∃ g ∈ groupByKey conflicted, p g.1 = true ∧ b = g.2 := by
  unfold phaseBlocks at h
  obtain ⟨g, hg, rfl⟩ := List.mem_map.mp h
  exact ⟨g, (List.mem_filter.mp hg).1, (List.mem_filter.mp hg).2, rfl⟩

theorem phaseBlocks_slots (conflicted : List Event) (p : Bytes × Bytes → Bool) : BlocksSlots (phaseBlocks conflicted p) := by
  intro b hb
  obtain ⟨g, hg, _, rfl⟩ := mem_phaseBlocks hb
  exact ⟨g.1, fun e he => ((groupByKey_mem hg).mp he).2.2⟩

theorem groups_dist {G : List ((Bytes × Bytes) × List Event)} (hk : ∀ g ∈ G, ∀ e ∈ g.2, keyOf e = g.1)
    (hn : (G.map (·.1)).Nodup) :
    (G.map (·.2)).Pairwise (fun b1 b2 => ∀ e1 ∈ b1, ∀ e2 ∈ b2, keyOf e1 ≠ keyOf e2) := by
  induction G with
  | nil => exact Pairwise.nil
  | cons g G ih =>
    rw [List.map_cons, List.nodup_cons] at hn
    rw [List.map_cons, List.pairwise_cons]
    refine ⟨?_, ih (fun x hx => hk x (List.mem_cons_of_mem _ hx)) hn.2⟩
    intro b hb e1 he1 e2 he2 heq
    obtain ⟨g', hg', rfl⟩ := List.mem_map.mp hb
    apply hn.1
    rw [← hk g List.mem_cons_self e1 he1, heq, hk g' (List.mem_cons_of_mem _ hg') e2 he2]
    exact List.mem_map_of_mem hg'

theorem phaseBlocks_dist (conflicted : List Event) (p : Bytes × Bytes → Bool) :
    (phaseBlocks conflicted p).Pairwise (fun b1 b2 => ∀ e1 ∈ b1, ∀ e2 ∈ b2, keyOf e1 ≠ keyOf e2) := by
  unfold phaseBlocks
  apply groups_dist
  · intro g hg e he
    exact ((groupByKey_mem (List.mem_filter.mp hg).1).mp he).2.2
  · exact (groupByKey_keys_nodup conflicted).sublist (List.Sublist.map _ List.filter_sublist)

/-- (P3) candidates for one slot are told apart by (depth, sha1 of the event ID) -/
def CandInj (sha : ID → Bytes) (conflicted : List Event) : Prop :=
  ∀ a ∈ conflicted, ∀ b ∈ conflicted, a.stateKey.isSome → b.stateKey.isSome → keyOf a = keyOf b →
    a.depth = b.depth → sha a.eventID = sha b.eventID → a = b

theorem phaseBlocks_inj {sha : ID → Bytes} {conflicted : List Event} (h : CandInj sha conflicted) (p : Bytes × Bytes → Bool) :
    ∀ b ∈ phaseBlocks conflicted p, ∀ x ∈ b, ∀ y ∈ b, x.depth = y.depth → sha x.eventID = sha y.eventID → x = y := by
  intro b hb x hx y hy hd hs
  obtain ⟨g, hg, _, rfl⟩ := mem_phaseBlocks hb
  obtain ⟨x1, x2, x3⟩ := (groupByKey_mem hg).mp hx
  obtain ⟨y1, y2, y3⟩ := (groupByKey_mem hg).mp hy
  exact h x x1 y y1 x2 y2 (x3.trans y3.symm) hd hs

/-! ## one auth phase -/

/-- one auth phase on two arrangements of the conflicted events, against states with equal lookups -/
theorem phase_perm (sha : ID → Bytes) (valid : Bool) {s s' : V1State} {conflicted conflicted' : List Event}
    (p : Bytes × Bytes → Bool) (hw : s.WF) (hw' : s'.WF) (hsim : s.Sim s') (hc : conflicted ~ conflicted')
    (hinj : CandInj sha conflicted) :
    (phaseRun sha valid conflicted p s).2 ~ (phaseRun sha valid conflicted' p s').2 ∧
      (phaseRun sha valid conflicted p s).1.Sim (phaseRun sha valid conflicted' p s').1 ∧
      (phaseRun sha valid conflicted p s).1.WF ∧ (phaseRun sha valid conflicted' p s').1.WF :=
  blocks_order_irrelevant sha valid hw hw' hsim (phaseBlocks_equiv hc p) (phaseBlocks_slots conflicted p)
    (phaseBlocks_dist conflicted p) (phaseBlocks_inj hinj p)
-- `hinj`: see `sortV1_unique`; WF / Sim: see `blocks_order_irrelevant`.

/-! ## the `valid` flag and the initial state depend on the set of auth events only -/

def ridStep (acc : List Bytes) (e : Event) : List Bytes := if acc.contains e.roomID then acc else acc ++ [e.roomID]

theorem mem_ridFold {l : List Event} {acc : List Bytes} {x : Bytes} :
    x ∈ l.foldl ridStep acc ↔ x ∈ acc ∨ ∃ e ∈ l, e.roomID = x := by
  induction l generalizing acc with
  | nil => simp
  | cons a as ih =>
    rw [List.foldl_cons, ih]
    unfold ridStep
    split
    · rename_i h
      have ha : a.roomID ∈ acc := by simpa using h
      constructor
      · rintro (h | ⟨e, he, rfl⟩)
        · exact Or.inl h
        · exact Or.inr ⟨e, List.mem_cons_of_mem _ he, rfl⟩
      · rintro (h | ⟨e, he, rfl⟩)
        · exact Or.inl h
        · rcases List.mem_cons.mp he with rfl | he
          · exact Or.inl ha
          · exact Or.inr ⟨e, he, rfl⟩
    · simp only [List.mem_append, List.mem_cons, exists_eq_or_imp, List.not_mem_nil, or_false]
      constructor
      · rintro ((h | h) | h)
        · exact Or.inl h
        · exact Or.inr (Or.inl h.symm)
        · exact Or.inr (Or.inr h)
      · rintro (h | h | h)
        · exact Or.inl (Or.inl h)
        · exact Or.inl (Or.inr h.symm)
        · exact Or.inr h

theorem nodup_ridFold {l : List Event} {acc : List Bytes} (h : acc.Nodup) : (l.foldl ridStep acc).Nodup := by
  induction l generalizing acc with
  | nil => exact h
  | cons a as ih =>
    rw [List.foldl_cons]; apply ih
    unfold ridStep
    split
    · exact h
    · rename_i hn
      have : a.roomID ∉ acc := by simpa using hn
      rw [List.nodup_append]
      refine ⟨h, by simp, ?_⟩
      intro x hx y hy
      simp only [List.mem_singleton] at hy
      subst hy
      intro hxy; subst hxy; exact this hx

theorem v1Valid_sameSet {auth auth' : List Event} (h : SameSet auth auth') : v1Valid auth = v1Valid auth' := by
  unfold v1Valid
  have : (auth.foldl ridStep []).length = (auth'.foldl ridStep []).length := by
    refine (SameSet.perm ?_ (nodup_ridFold List.nodup_nil) (nodup_ridFold List.nodup_nil)).length_eq
    intro x
    rw [mem_ridFold, mem_ridFold]
    simp only [List.not_mem_nil, false_or]
    constructor
    · rintro ⟨e, he, rfl⟩; exact ⟨e, (h e).mp he, rfl⟩
    · rintro ⟨e, he, rfl⟩; exact ⟨e, (h e).mpr he, rfl⟩
  unfold ridStep at this
  rw [this]

-- the flag is "at most one distinct room ID among the auth events": a function of the set of auth events.

theorem v1S0_wf (auth : List Event) : (v1S0 auth).WF := foldl_add_wf V1State.WF.empty auth

theorem v1S0_sim {auth auth' : List Event} (h : SameSet auth auth') (hi : SlotInj auth) : (v1S0 auth).Sim (v1S0 auth') :=
  foldl_add_sim (V1State.Sim.refl _) h hi
-- `hi` (P1): the last auth event supplied for a slot is the one kept.

/-! ## a sequence of auth phases -/

def runPhases (sha : ID → Bytes) (valid : Bool) (conflicted : List Event) :
    List (Bytes × Bytes → Bool) → V1State → V1State × List Event
  | [], s => (s, [])
  | p :: ps, s =>
    ((runPhases sha valid conflicted ps (phaseRun sha valid conflicted p s).1).1,
      (phaseRun sha valid conflicted p s).2 ++ (runPhases sha valid conflicted ps (phaseRun sha valid conflicted p s).1).2)

theorem runPhases_perm (sha : ID → Bytes) (valid : Bool) {conflicted conflicted' : List Event} (hc : conflicted ~ conflicted')
    (hinj : CandInj sha conflicted) (ps : List (Bytes × Bytes → Bool))
    {s s' : V1State} (hw : s.WF) (hw' : s'.WF) (hsim : s.Sim s') :
    (runPhases sha valid conflicted ps s).2 ~ (runPhases sha valid conflicted' ps s').2 ∧
      (runPhases sha valid conflicted ps s).1.Sim (runPhases sha valid conflicted' ps s').1 ∧
      (runPhases sha valid conflicted ps s).1.WF ∧ (runPhases sha valid conflicted' ps s').1.WF := by
  induction ps generalizing s s' with
  | nil => exact ⟨Perm.refl _, hsim, hw, hw'⟩
  | cons p ps ih =>
    obtain ⟨r1, s1, w1, w1'⟩ := phase_perm sha valid p hw hw' hsim hc hinj
    obtain ⟨r2, s2, w2, w2'⟩ := ih w1 w1' s1
    exact ⟨r1.append r2, s2, w2, w2'⟩
-- see `phase_perm`.

theorem bool_excl_symm {a b : Bool} (h : a = true → b = false) : b = true → a = false := by
  cases a <;> cases b <;> simp_all

/-- the five auth phases of `resolveV1` -/
def v1Phases : List (Bytes × Bytes → Bool) :=
  [pSingle b!"m.room.create", pSingle b!"m.room.power_levels", pSingle b!"m.room.join_rules", pTpi, pMember]

theorem v1Phases_excl : v1Phases.Pairwise (fun p q => ∀ K, q K = true → p K = false) := by
  unfold v1Phases
  simp only [List.pairwise_cons, List.mem_cons, List.not_mem_nil, or_false, forall_eq_or_imp, forall_eq,
    false_imp_iff, implies_true, List.Pairwise.nil, and_true]
  refine ⟨⟨?_, ?_, ?_, ?_⟩, ⟨?_, ?_, ?_⟩, ⟨?_, ?_⟩, ?_⟩ <;> intro K <;> apply bool_excl_symm <;> intro h
  · exact ((classes_excl K).1 h).1
  · exact ((classes_excl K).1 h).2.1
  · exact ((classes_excl K).1 h).2.2.1
  · exact ((classes_excl K).1 h).2.2.2.1
  · exact ((classes_excl K).2.1 h).1
  · exact ((classes_excl K).2.1 h).2.1
  · exact ((classes_excl K).2.1 h).2.2.1
  · exact ((classes_excl K).2.2.1 h).1
  · exact ((classes_excl K).2.2.1 h).2.1
  · exact ((classes_excl K).2.2.2.1 h).1

theorem resolveV1_eq_phases (sha : ID → Bytes) (conflicted auth : List Event) :
    resolveV1 sha conflicted auth =
      (runPhases sha (v1Valid auth) conflicted v1Phases (v1S0 auth)).2 ++
        (phaseBlocks conflicted pOther).filterMap
          (resolveNormalBlock sha (v1Valid auth) (runPhases sha (v1Valid auth) conflicted v1Phases (v1S0 auth)).1) := by
  rw [resolveV1_eq]
  simp only [v1Phases, runPhases, List.append_assoc, List.append_nil]

/-! ## the normal blocks -/

theorem normalBlocks_perm (sha : ID → Bytes) (valid : Bool) {s s' : V1State} (hw : s.WF) (hw' : s'.WF) (hsim : s.Sim s')
    {blocks blocks' : List (List Event)} (heq : SetsEquiv blocks blocks')
    (hinj : ∀ b ∈ blocks, ∀ x ∈ b, ∀ y ∈ b, x.depth = y.depth → sha x.eventID = sha y.eventID → x = y) :
    blocks.filterMap (resolveNormalBlock sha valid s) ~ blocks'.filterMap (resolveNormalBlock sha valid s') := by
  obtain ⟨c, hpc, hec⟩ := heq
  refine (hpc.filterMap _).trans (Perm.of_eq (eachPerm_filterMap hec ?_))
  intro b hbc b' hbb'
  rw [resolveNormalBlock_perm sha valid s hbb' (hinj b (hpc.mem_iff.mpr hbc))]
  exact resolveNormalBlock_sim sha valid hw hw' hsim b'
-- `hinj`: see `sortV1_unique`; WF: see `v1Allowed_congr`.

/-! ## the result of version 1 does not depend on the order of its inputs -/

/-- `v1_perm_invariant` -/
theorem v1_perm_invariant (sha : ID → Bytes) {conflicted conflicted' auth auth' : List Event}
    (hc : conflicted ~ conflicted') (ha : SameSet auth auth')
    (P1 : ∀ a ∈ auth, ∀ b ∈ auth, a.stateKey.isSome → keyOf a = keyOf b → b.stateKey.isSome → a = b)
    (P3 : ∀ a ∈ conflicted, ∀ b ∈ conflicted, a.stateKey.isSome → b.stateKey.isSome → keyOf a = keyOf b →
      a.depth = b.depth → sha a.eventID = sha b.eventID → a = b) :
    resolveV1 sha conflicted auth ~ resolveV1 sha conflicted' auth' := by
  rw [resolveV1_eq_phases, resolveV1_eq_phases, ← v1Valid_sameSet ha]
  obtain ⟨r, s, w, w'⟩ := runPhases_perm sha (v1Valid auth) hc P3 v1Phases (v1S0_wf auth) (v1S0_wf auth') (v1S0_sim ha P1)
  exact r.append (normalBlocks_perm sha _ w w' s (phaseBlocks_equiv hc pOther) (phaseBlocks_inj P3 pOther))
-- P1: of two different supplied auth events for one slot the later one is kept, which depends on their order.
-- P3: the sort is by (depth, sha1) only and stable, so two candidates with the same pair keep their input order.
-- (The former hypothesis P2 — no supplied auth event in the slot of a conflicted event — is no longer needed: a block
--  puts the previous occupant of its slot back, and the winners registered after a phase overwrite the supplied event
--  of their slot whatever the order, since winners of one phase have pairwise distinct slots.)

end V.StateRes
