/- ListKeyIDs on the objects SignJSON returns: the listed key IDs are exactly those VerifyJSON finds a
   signature for.  Core only. -/
import VProofs.SignJSON
namespace V.Sign
open V V.Json V.GoJson List

/-! ### ListKeyIDs on the objects SignJSON returns -/

def rawEntry (e : Bytes × Bytes) : Bytes × JVal := entryToJ e
def rawInner : Inner Bytes → Inner JVal
  | none => none
  | some es => some (es.map entryToJ)
def rawName (e : Bytes × Inner Bytes) : Bytes × Inner JVal := (e.1, rawInner e.2)

theorem decodeEntries_raw : ∀ (es : List (Bytes × Bytes)) (acc : List (Bytes × JVal)),
    UniqueKeys es → (∀ e ∈ es, ∀ a ∈ acc, a.1 ≠ e.1) →
    decodeEntries (fun x => some x) (es.map entryToJ) acc = some (acc ++ es.map entryToJ)
  | [], acc, _, _ => by simp [decodeEntries]
  | (k, b) :: rest, acc, hu, hd => by
    have hfresh : ∀ a ∈ acc, a.1 ≠ k := fun a ha => hd (k, b) List.mem_cons_self a ha
    simp only [List.map_cons, entryToJ, decodeEntries, mapSet_of_fresh acc k _ hfresh]
    have := decodeEntries_raw rest (acc ++ [(k, JVal.str (b64Encode b))]) (List.Pairwise.tail hu) (by
      intro e he a ha
      rcases List.mem_append.mp ha with ha | ha
      · exact hd e (List.mem_cons_of_mem _ he) a ha
      · simp only [List.mem_singleton] at ha
        subst ha
        exact List.rel_of_pairwise_cons hu he)
    rw [this]
    simp

theorem decodeInner_raw (i : Inner Bytes) (h : InnerOk i) :
    decodeInner (fun x => some x) (innerToJVal i) = some (rawInner i) := by
  cases i with
  | none => rfl
  | some es =>
    rw [innerToJVal_some]
    simp only [decodeInner, rawInner]
    rw [decodeEntries_raw es [] (h es rfl) (fun _ _ a ha => by cases ha)]
    simp

theorem decodeNames_raw : ∀ (m : SigMap) (acc : SigMapG JVal),
    WF m → (∀ e ∈ m, ∀ a ∈ acc, a.1 ≠ e.1) →
    decodeNames (fun x => some x) (m.map nameToJ) acc = some (acc ++ m.map rawName)
  | [], acc, _, _ => by simp [decodeNames]
  | (n, i) :: rest, acc, hw, hd => by
    have hfresh : ∀ a ∈ acc, a.1 ≠ n := fun a ha => hd (n, i) List.mem_cons_self a ha
    have hi : InnerOk i := hw.2 (n, i) List.mem_cons_self
    simp only [List.map_cons, nameToJ, decodeNames, decodeInner_raw i hi, mapSet_of_fresh acc n _ hfresh]
    have := decodeNames_raw rest (acc ++ [(n, rawInner i)])
      ⟨List.Pairwise.tail hw.1, fun e he => hw.2 e (List.mem_cons_of_mem _ he)⟩ (by
      intro e he a ha
      rcases List.mem_append.mp ha with ha | ha
      · exact hd e (List.mem_cons_of_mem _ he) a ha
      · simp only [List.mem_singleton] at ha
        subst ha
        exact List.rel_of_pairwise_cons hw.1 he)
    rw [this]
    simp [rawName]

theorem mapGet_map_rawName (m : SigMap) (n : Bytes) : mapGet (m.map rawName) n = (mapGet m n).map rawInner := by
  induction m with
  | nil => rfl
  | cons x xs ih =>
    obtain ⟨k', v⟩ := x
    by_cases h : (k' == n) = true
    · simp [mapGet, rawName, h]
    · simp only [List.map_cons, rawName, mapGet, h]
      simpa [rawName] using ih

theorem mem_keys_iff_mapGet {α : Type} (es : List (Bytes × α)) (k : Bytes) :
    k ∈ es.map (·.1) ↔ (mapGet es k).isSome = true := by
  induction es with
  | nil => simp [mapGet]
  | cons x xs ih =>
    obtain ⟨k', v⟩ := x
    by_cases h : (k' == k) = true
    · have := eq_of_beq h
      subst this
      simp [mapGet]
    · have hne : k' ≠ k := by simpa using h
      have h' : (k' == k) = false := by simpa using h
      simp only [List.map_cons, List.mem_cons, mapGet, h', Bool.false_eq_true, if_false]
      rw [← ih]
      constructor
      · rintro (e | e)
        · exact absurd e.symm hne
        · exact e
      · exact Or.inr

/-- On the object SignJSON assembles, `ListKeyIDs(name)` lists exactly the key IDs for which VerifyJSON
    finds a signature of `name`. -/
theorem listKeyIDs_assemble (b : List (Bytes × JVal)) (m : SigMap) (hw : WF m) (uns : Option JVal) (n : Bytes) :
    ∃ ks, listKeyIDs n (.obj (assemble b (sigMapToJVal m) uns)) = some ks ∧
      ∀ k, k ∈ ks ↔ ((lookupIn m n k).sigAt).isSome = true := by
  unfold listKeyIDs
  simp only [getLast_assemble_sig]
  rw [sigMapToJVal_eq]
  simp only [decodeOuterInto, Option.getD_none]
  rw [decodeNames_raw m [] hw (fun _ _ a ha => by cases ha)]
  simp only [List.nil_append, Option.map_some, mapGet_map_rawName]
  unfold lookupIn
  cases hg : mapGet m n with
  | none => exact ⟨[], rfl, fun k => by simp [SigLookup.sigAt]⟩
  | some i =>
    cases i with
    | none => exact ⟨[], rfl, fun k => by simp [SigLookup.sigAt]⟩
    | some es =>
      refine ⟨(es.map entryToJ).map (·.1), rfl, fun k => ?_⟩
      have : (es.map entryToJ).map (·.1) = es.map (·.1) := by simp [entryToJ, Function.comp_def]
      rw [this, mem_keys_iff_mapGet]
      cases hm : mapGet es k <;> simp [SigLookup.sigAt, hm]

end V.Sign
