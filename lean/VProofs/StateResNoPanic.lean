/-
  VProofs.StateResNoPanic — the guards that keep each panic site of `VModel.StateResPanic` from firing.
  Core Lean only.
-/
import VProofs.StateResPanic
import VProofs.AuthRulesBase
import VProofs.StateResSort
import VProofs.StateResGroup
namespace V.SRPanic
open V V.Json V.GoJson V.Auth V.StateRes V.StateResPanic

/-! ## Preconditions -/

/-- What the event constructors guarantee about an event (`V.C18.no_panic_accessors` on the parsed form): `RoomID()`
    returns, the room ID has a domain unless the version derives it from the create event, the version is registered. -/
structure EvOK (e : Event) : Prop where
  room : EventParse.roomIDValid? e.roomID ≠ some false
  wf : AuthRules.RoomIDWellFormed e
  ver : e.row.isSome = true

theorem EvOK.roomNonempty {e : Event} (h : EvOK e) : e.roomID ≠ [] := by
  intro hn
  apply h.room
  rw [hn]
  rfl

/-! ## Leaf sites -/

theorem roomIDSite_ok {e : Event} (h : EvOK e) : roomIDSite e = .ok () := by
  unfold roomIDSite
  rw [if_neg]
  intro hc
  exact h.room (by simpa using hc)

theorem headRoomSite_ok {l : List Event} (h : ∀ e ∈ l, EvOK e) : headRoomSite l = .ok () := by
  cases l with
  | nil => rfl
  | cons e rest => exact roomIDSite_ok (h e List.mem_cons_self)

theorem versionSite_ok {e : Event} (h : EvOK e) : versionSite e = .ok () := by
  unfold versionSite
  rw [if_neg]
  intro hc
  have := h.ver
  cases hr : e.row with
  | none => rw [hr] at this; cases this
  | some r => rw [hr] at hc; cases hc

theorem addAuthEventSite_ok {e : Event} (h : EvOK e) : addAuthEventSite e = .ok () := by
  unfold addAuthEventSite
  split
  · rfl
  · exact roomIDSite_ok h

theorem forSites_ok (f : Event → Except Err Unit) {l : List Event} (h : ∀ e ∈ l, f e = .ok ()) : forSites f l = .ok () := by
  induction l with
  | nil => rfl
  | cons e rest ih =>
    simp only [forSites, h e List.mem_cons_self]
    exact ih (fun x hx => h x (List.mem_cons_of_mem _ hx))

/-! ## The recursions: the fuel is never exhausted, whatever the auth graph (cyclic or not) -/

theorem mem_insertID {s : List ID} {id x : ID} : x ∈ insertID s id ↔ x ∈ s ∨ x = id := by
  unfold insertID
  split
  · rename_i h
    have hmem : id ∈ s := List.contains_iff_mem.mp h
    constructor
    · exact Or.inl
    · rintro (h1 | rfl)
      · exact h1
      · exact hmem
  · simp

/-- events of the conflicted map whose ID is not marked yet -/
def unmarked (m : List Event) (vis : List ID) : Nat := m.countP (fun e => !vis.contains e.eventID)

theorem countP_lt_of_witness {α : Type} {p q : α → Bool} : ∀ (l : List α), (∀ x ∈ l, p x = true → q x = true) →
    (∃ x ∈ l, q x = true ∧ p x = false) → l.countP p < l.countP q := by
  intro l
  induction l with
  | nil => intro _ ⟨x, hx, _⟩; cases hx
  | cons y l ih =>
    intro himp ⟨x, hx, hq, hp⟩
    have hle : l.countP p ≤ l.countP q :=
      List.countP_mono_left (fun z hz => himp z (List.mem_cons_of_mem _ hz))
    rw [List.countP_cons, List.countP_cons]
    rcases List.mem_cons.mp hx with rfl | hxl
    · simp only [hq, hp, if_true, Bool.false_eq_true, if_false]
      omega
    · have hlt := ih (fun z hz => himp z (List.mem_cons_of_mem _ hz)) ⟨x, hxl, hq, hp⟩
      have hy : (if p y = true then 1 else 0) ≤ (if q y = true then 1 else 0) := by
        by_cases hpy : p y = true
        · rw [if_pos hpy, if_pos (himp y List.mem_cons_self hpy)]; exact Nat.le_refl _
        · rw [if_neg hpy]; exact Nat.zero_le _
      omega

theorem unmarked_mono {m : List Event} {a b : List ID} (h : ∀ x ∈ a, x ∈ b) : unmarked m b ≤ unmarked m a := by
  unfold unmarked
  apply List.countP_mono_left
  intro e _ he
  cases hc : a.contains e.eventID with
  | false => rfl
  | true =>
    have : b.contains e.eventID = true := List.contains_iff_mem.mpr (h _ (List.contains_iff_mem.mp hc))
    rw [this] at he
    cases he

/-- marking the ID of an event of the map that was not marked leaves strictly fewer unmarked events -/
theorem unmarked_insert_lt {m : List Event} {vis : List ID} {id : ID} {ev : Event} (hf : findByID m id = some ev)
    (hv : vis.contains id = false) : unmarked m (insertID vis id) < unmarked m vis := by
  obtain ⟨hm, hid⟩ := findByID_some hf
  unfold unmarked
  apply countP_lt_of_witness
  · intro e _ he
    cases hc : vis.contains e.eventID with
    | false => rfl
    | true =>
      have : (insertID vis id).contains e.eventID = true :=
        List.contains_iff_mem.mpr (mem_insertID.mpr (Or.inl (List.contains_iff_mem.mp hc)))
      rw [this] at he
      cases he
  · refine ⟨ev, hm, ?_, ?_⟩
    · rw [hid, hv]; rfl
    · have : (insertID vis id).contains ev.eventID = true :=
        List.contains_iff_mem.mpr (mem_insertID.mpr (Or.inr hid))
      rw [this]; rfl

/-- **`fullControlSet` returns for every input**: each descent marks one more event of the conflicted map first, so a
    recursion budget larger than the number of unmarked conflicted events is never used up. -/
theorem fcs_some (m : List Event) : ∀ (d : Nat) (vis : List ID) (e : Event), unmarked m vis < d →
    ∃ v, fcs m d vis e = some v ∧ ∀ x ∈ vis, x ∈ v := by
  intro d
  induction d with
  | zero => intro vis e h; omega
  | succ d ih =>
    intro vis e h
    simp only [fcs]
    suffices H : ∀ (ids : List ID) (vis' : List ID), (∀ x ∈ vis, x ∈ vis') → ∃ v,
        ids.foldlM (fun (vis : List ID) id =>
          if vis.contains id then some vis
          else match findByID m id with
            | some ev => fcs m d (insertID vis id) ev
            | none => some (insertID vis id)) vis' = some v ∧ ∀ x ∈ vis, x ∈ v from H _ vis (fun _ hx => hx)
    intro ids
    induction ids with
    | nil => intro vis' hsub; exact ⟨vis', rfl, hsub⟩
    | cons id rest ihr =>
      intro vis' hsub
      simp only [List.foldlM_cons]
      split
      · simp only [Option.bind_eq_bind, Option.bind_some]; exact ihr vis' hsub
      · rename_i hc
        have hc' : vis'.contains id = false := by simpa using hc
        split
        · rename_i ev hev
          have hlt : unmarked m (insertID vis' id) < d := by
            have h1 := unmarked_insert_lt hev hc'
            have h2 := unmarked_mono (m := m) hsub
            omega
          obtain ⟨v, hv, hvsub⟩ := ih (insertID vis' id) ev hlt
          rw [hv]
          simp only [Option.bind_eq_bind, Option.bind_some]
          exact ihr v (fun x hx => hvsub x (mem_insertID.mpr (Or.inl (hsub x hx))))
        · simp only [Option.bind_eq_bind, Option.bind_some]
          exact ihr _ (fun x hx => mem_insertID.mpr (Or.inl (hsub x hx)))

theorem unmarked_le_length (m : List Event) (vis : List ID) : unmarked m vis ≤ m.length := List.countP_le_length

theorem controlSetSite_ok (m roots : List Event) : controlSetSite m roots = .ok () := by
  unfold controlSetSite
  suffices H : ∀ (rs : List Event) (vis : List ID), ∃ v,
      rs.foldlM (fun vis p => fcs m (m.length + 2) vis p) vis = some v by
    obtain ⟨v, hv⟩ := H roots []
    rw [hv]
  intro rs
  induction rs with
  | nil => intro vis; exact ⟨vis, rfl⟩
  | cons r rest ih =>
    intro vis
    simp only [List.foldlM_cons]
    obtain ⟨v, hv, _⟩ := fcs_some m (m.length + 2) vis r (by have := unmarked_le_length m vis; omega)
    rw [hv]
    simp only [Option.bind_eq_bind, Option.bind_some]
    exact ih v

/-- the path of a mainline recursion: distinct IDs of events of the auth map -/
structure PathInv (am : List Event) (path : List ID) : Prop where
  nodup : path.Nodup
  sub : ∀ id ∈ path, id ∈ am.map (·.eventID)

theorem PathInv.nil (am : List Event) : PathInv am [] := ⟨List.nodup_nil, fun _ h => by cases h⟩

theorem PathInv.length_le {am : List Event} {path : List ID} (h : PathInv am path) : path.length ≤ am.length := by
  have := List.Nodup.length_le_of_subset h.nodup (fun x hx => h.sub x hx)
  simpa using this

theorem PathInv.cons {am : List Event} {path : List ID} (h : PathInv am path) {p : Event} (hp : p ∈ am)
    (hc : path.contains p.eventID = false) : PathInv am (p.eventID :: path) := by
  refine ⟨List.nodup_cons.mpr ⟨fun hm => ?_, h.nodup⟩, ?_⟩
  · rw [List.contains_iff_mem.mpr hm] at hc; cases hc
  · intro id hid
    rcases List.mem_cons.mp hid with rfl | hid
    · exact List.mem_map.mpr ⟨p, hp, rfl⟩
    · exact h.sub id hid

/-- **`createPowerLevelMainline`'s iterator returns for every input**: it never descends into an event it is inside
    of, so the events it is inside of are distinct events of the auth map. -/
theorem mainlineIterP_some (am : List Event) : ∀ (fuel : Nat) (path : List ID) (e : Event), PathInv am path →
    am.length + 1 ≤ fuel + path.length → ∀ acc, ∃ r, mainlineIterP am fuel path e acc = some r := by
  intro fuel
  induction fuel with
  | zero => intro path e hinv hlen; have := hinv.length_le; omega
  | succ fuel ih =>
    intro path e hinv hlen acc
    simp only [mainlineIterP]
    suffices H : ∀ (ps : List Event), (∀ p ∈ ps, p ∈ am) → ∀ a : List Event, ∃ r,
        ps.foldlM (fun a p => if isPLEvent p && !path.contains p.eventID then mainlineIterP am fuel (p.eventID :: path) p a
          else some a) a = some r by
      apply H
      intro p hp
      obtain ⟨id, _, hf⟩ := List.mem_filterMap.mp hp
      exact (findByID_some hf).1
    intro ps
    induction ps with
    | nil => intro _ a; exact ⟨a, rfl⟩
    | cons p rest ihr =>
      intro hsub a
      simp only [List.foldlM_cons]
      have hrest := ihr (fun x hx => hsub x (List.mem_cons_of_mem _ hx))
      split
      · rename_i hp
        have hc : path.contains p.eventID = false := by
          cases hcc : path.contains p.eventID with
          | false => rfl
          | true => rw [hcc] at hp; simp at hp
        obtain ⟨r, hr⟩ := ih (p.eventID :: path) p (hinv.cons (hsub p List.mem_cons_self) hc)
          (by simp only [List.length_cons]; omega) a
        rw [hr]
        simp only [Option.bind_eq_bind, Option.bind_some]
        exact hrest r
      · simp only [Option.bind_eq_bind, Option.bind_some]; exact hrest a

theorem createMainlineP_ok (am : List Event) (o : Option Event) : ∃ m, createMainlineP am o = .ok m := by
  unfold createMainlineP
  cases o with
  | none => exact ⟨_, rfl⟩
  | some pl =>
    obtain ⟨r, hr⟩ := mainlineIterP_some am (am.length + 2) [] pl (PathInv.nil am) (by simp only [List.length_nil]; omega) []
    simp only [hr]
    exact ⟨_, rfl⟩

/-- **`getFirstPowerLevelMainlineEvent`'s iterator returns for every input** (same argument) -/
theorem firstMainlineP_some (am ml : List Event) : ∀ (fuel : Nat) (path : List ID) (e : Event), PathInv am path →
    am.length + 1 ≤ fuel + path.length → ∀ st, ∃ r, firstMainlineP am ml fuel path e st = some r := by
  intro fuel
  induction fuel with
  | zero => intro path e hinv hlen; have := hinv.length_le; omega
  | succ fuel ih =>
    intro path e hinv hlen st
    rw [firstMainlineP.eq_2]
    suffices H : ∀ (ps : List Event), (∀ p ∈ ps, p ∈ am) → ∀ st : Nat × Nat, ∃ r,
        firstMainlineP.go am ml fuel path ps st = some r by
      apply H
      intro p hp
      obtain ⟨id, _, hf⟩ := List.mem_filterMap.mp hp
      exact (findByID_some hf).1
    intro ps
    induction ps with
    | nil => intro _ st; rw [firstMainlineP.go.eq_1]; exact ⟨st, rfl⟩
    | cons p rest ihr =>
      intro hsub st
      rw [firstMainlineP.go.eq_2]
      have hrest := ihr (fun x hx => hsub x (List.mem_cons_of_mem _ hx))
      split
      · exact hrest st
      · split
        · exact ⟨_, rfl⟩
        · split
          · exact hrest st
          · rename_i hc
            have hc' : path.contains p.eventID = false := by simpa using hc
            obtain ⟨r, hr⟩ := ih (p.eventID :: path) p (hinv.cons (hsub p List.mem_cons_self) hc')
              (by simp only [List.length_cons]; omega) (st.1, st.2 + 1)
            rw [hr]
            exact hrest r

theorem mainlineOrderingP_ok (am ml evs : List Event) : ∃ r, mainlineOrderingP am ml evs = .ok r := by
  unfold mainlineOrderingP
  suffices H : ∃ ks, otherKeysP am ml evs = .ok ks by
    obtain ⟨ks, hk⟩ := H
    rw [hk]
    exact ⟨_, rfl⟩
  induction evs with
  | nil => exact ⟨[], rfl⟩
  | cons e rest ih =>
    obtain ⟨ks, hks⟩ := ih
    obtain ⟨r, hr⟩ := firstMainlineP_some am ml (am.length + 2) [] e (PathInv.nil am) (by simp only [List.length_nil]; omega) (0, 0)
    simp only [otherKeysP, otherKeyP, hr, hks]
    exact ⟨_, rfl⟩

theorem reverseTopoAuthP_ok {am : List Event} {ce : Option Event} {evs : List Event} (h : ∀ e ∈ evs, EvOK e) :
    reverseTopoAuthP am ce evs = .ok (reverseTopoAuth am ce evs) := by
  unfold reverseTopoAuthP
  rw [forSites_ok versionSite (fun e he => versionSite_ok (h e he))]

/-! ## Auth checks -/

open V.AuthRules in
theorem allowedNoValid_np {e : Event} (h : EvOK e) (p : Provider) (sig : Bool) (site : String) :
    allowedFreshNoValid e p sig ≠ .panic site := by
  unfold allowedFreshNoValid
  rw [update_empty]
  cases hfo : freshOf p with
  | error v =>
    obtain ⟨w, rfl⟩ := freshOf_error hfo
    intro hc; cases hc
  | ok c =>
    simp only
    have := (np_allowed c p (fresh_of hfo) e sig h.roomNonempty h.wf).h site
    cases hca : c.allowed e sig with
    | ok u => intro hc; cases hc
    | error v =>
      simp only
      intro hc
      subst hc
      exact this hca

open V.AuthRules in
theorem allowed_np {e : Event} (h : EvOK e) (p : Provider) (sig : Bool) (site : String) :
    allowedFresh e p sig ≠ .panic site := by
  unfold allowedFresh
  split
  · intro hc; cases hc
  · exact allowedNoValid_np h p sig site

theorem authAndApplyP_ok (am : List Event) (rej : List ID) : ∀ (evs : List Event), (∀ e ∈ evs, EvOK e) →
    ∀ s, authAndApplyP am rej s evs = .ok (authAndApply am rej s evs) := by
  intro evs
  induction evs with
  | nil => intro _ s; rfl
  | cons e rest ih =>
    intro h s
    have hrest := ih (fun x hx => h x (List.mem_cons_of_mem _ hx))
    have hnp := allowedNoValid_np (h e List.mem_cons_self) (Provider.ofEvents (providerFor am rej s e)) false
    have hex : ∃ r, authAndApplyP am rej s (e :: rest) = .ok r := by
      simp only [authAndApplyP]
      split
      · rename_i site hv; exact absurd hv (hnp site)
      · exact ⟨_, hrest _⟩
      · exact ⟨_, hrest _⟩
    obtain ⟨r, hr⟩ := hex
    rw [hr, authAndApplyP_eq am rej _ _ _ hr]

theorem v1AllowedP_ok {e : Event} (h : EvOK e) (s : V1State) (valid : Bool) : v1AllowedP s valid e = .ok (v1Allowed s valid e) := by
  have hnp := allowed_np h (s.provider valid) false
  have hex : ∃ b, v1AllowedP s valid e = .ok b := by
    unfold v1AllowedP
    split
    · rename_i site hv; exact absurd hv (hnp site)
    · exact ⟨_, rfl⟩
  obtain ⟨b, hb⟩ := hex
  rw [hb, v1AllowedP_eq hb]

/-! ## The shared tail -/

theorem get_mem {s : State} {t k : Bytes} {e : Event} (h : s.get t k = some e) : ∃ x ∈ s, x.2 = e := by
  unfold State.get at h
  cases hf : s.find? (fun x => x.1 == (t, k)) with
  | none => rw [hf] at h; cases h
  | some x =>
    rw [hf] at h
    simp only [Option.map_some, Option.some.injEq] at h
    exact ⟨x, List.mem_of_find?_eq_some hf, h⟩

theorem tailP_ok {am : List Event} {rej : List ID} {ce : Option Event} {s1 : State} {ces os : List Event}
    (hce : ∀ e ∈ ces, EvOK e) (hos : ∀ e ∈ os, EvOK e) :
    tailP am rej ce s1 ces os = .ok (tail am rej ce s1 ces os) := by
  have hex : ∃ r, tailP am rej ce s1 ces os = .ok r := by
    unfold tailP
    rw [reverseTopoAuthP_ok hce]
    simp only
    rw [authAndApplyP_ok am rej _ (fun e he => hce e (reverseTopoAuth_subset _ _ he))]
    simp only
    obtain ⟨m, hm⟩ := createMainlineP_ok am
      ((authAndApply am rej s1 (reverseTopoAuth am ce ces)).get b!"m.room.power_levels" [])
    rw [hm]
    simp only
    obtain ⟨r, hr⟩ := mainlineOrderingP_ok am m os
    rw [hr]
    simp only
    have hr' := mainlineOrderingP_eq hr
    rw [authAndApplyP_ok am rej _ (fun e he => hos e (by rw [hr'] at he; exact mem_mainlineOrdering.mp he))]
    exact ⟨_, rfl⟩
  obtain ⟨r, hr⟩ := hex
  rw [hr, tailP_eq hr]

/-! ## (b) `ResolveStateConflictsV2New` -/

/-- The precondition of `resolveV2NewP_ok`.  `two` is the caller's (the number of state sets is not remote data);
    `ev` is what parsing establishes for every event.  Nothing is asked of the auth graph: it may be cyclic (room
    versions 1 and 2, whose event IDs are chosen by the sender). -/
structure PreV2 (sets : List (List Event)) (auth : List Event) : Prop where
  two : 2 ≤ sets.length
  ev : ∀ e, e ∈ sets.flatten ∨ e ∈ auth → EvOK e

theorem unconflictedFirstP_ok {algo : Nat} {am : List Event} {ce : Option Event} {u : List Event} (h : ∀ e ∈ u, EvOK e) :
    ∃ s, unconflictedFirstP algo am ce u = .ok s ∧ ∀ x ∈ s, x.2 ∈ u := by
  unfold unconflictedFirstP
  split
  · rw [reverseTopoAuthP_ok h]
    refine ⟨_, rfl, ?_⟩
    intro x hx
    rcases mem_applyEvents hx with h0 | h0
    · cases h0
    · exact reverseTopoAuth_subset _ _ h0
  · exact ⟨[], rfl, fun x hx => by cases hx⟩

/-- `resolveV2NewP` in terms of the named stages of `VProofs.StateResStages` -/
def stagedP (algo : Nat) (sets : List (List Event)) (auth : List Event) (rej : List ID) : Except Err Stages :=
  if sets.length < 2 then sitePanic "stateresolutionv2.go:246 must provide at least 2 stateSets to resolve conflicts" else
  let p := prepOf algo sets auth
  match headRoomSite p.conflicted, headRoomSite p.unconflicted, headRoomSite auth with
  | .error x, _, _ => .error x
  | _, .error x, _ => .error x
  | _, _, .error x => .error x
  | .ok (), .ok (), .ok () =>
  if p.conflicted.isEmpty && p.unconflicted.isEmpty && auth.isEmpty then
    .ok { conflicted := [], unconflicted := [], authDiff := [], control := [], others := [], controlOrder := [],
          othersOrder := [], result := [] }
  else
  match controlSetSite (eventMapFromEvents p.conflicted)
      (rootsOf (p.unconflicted.map (·.eventID)) (p.conflicted ++ p.authDiff)) with
  | .error x => .error x
  | .ok () =>
  match unconflictedFirstP algo p.authMap p.createEv p.unconflicted with
  | .error x => .error x
  | .ok s1 =>
  match tailP p.authMap rej (createFor p.createEv s1) s1 p.controlEvents p.others with
  | .error x => .error x
  | .ok (controlOrder, othersOrder, s3) =>
  .ok { conflicted := p.conflicted.map (·.eventID), unconflicted := p.unconflicted.map (·.eventID),
        authDiff := p.authDiff.map (·.eventID), control := p.controlIDs, others := p.others.map (·.eventID),
        controlOrder := controlOrder.map (·.eventID), othersOrder := othersOrder.map (·.eventID),
        result := (applyEvents s3 p.unconflicted).map (·.2.eventID) }

theorem resolveV2NewP_staged (algo : Nat) (sets : List (List Event)) (auth : List Event) (rej : List ID) :
    resolveV2NewP algo sets auth rej = stagedP algo sets auth rej := by
  unfold resolveV2NewP stagedP
  cases h : splitConflictedUnconflicted false sets with
  | mk c u =>
    simp only [prepOf, h]
    rfl

theorem resolveV2NewP_ok {algo : Nat} {sets : List (List Event)} {auth : List Event} (rej : List ID) (P : PreV2 sets auth) :
    resolveV2NewP algo sets auth rej = .ok (resolveV2New algo sets auth rej) := by
  have hex : ∃ st, resolveV2NewP algo sets auth rej = .ok st := by
    rw [resolveV2NewP_staged]
    unfold stagedP
    rw [if_neg (by have := P.two; omega)]
    simp only
    have hsub := prepOf_sub algo sets auth
    have hconf : ∀ e ∈ (prepOf algo sets auth).conflicted, e ∈ sets.flatten :=
      fun e he => (split_sub false sets (Or.inl he)).1
    have hfull : ∀ e ∈ (prepOf algo sets auth).conflicted ++ (prepOf algo sets auth).authDiff, e ∈ sets.flatten ∨ e ∈ auth :=
      fun e he => @mem_fullConflicted algo sets auth e he
    rw [headRoomSite_ok (fun e he => P.ev e (Or.inl (hconf e he))),
      headRoomSite_ok (fun e he => P.ev e (Or.inl (hsub.unconf e he))),
      headRoomSite_ok (fun e he => P.ev e (Or.inr he))]
    simp only
    split
    · exact ⟨_, rfl⟩
    · rw [controlSetSite_ok]
      simp only
      obtain ⟨s1, hs1, hs1mem⟩ := unconflictedFirstP_ok (algo := algo) (am := (prepOf algo sets auth).authMap)
        (ce := (prepOf algo sets auth).createEv) (fun e he => P.ev e (Or.inl (hsub.unconf e he)))
      rw [hs1]
      simp only
      have ht : tailP (prepOf algo sets auth).authMap rej (createFor (prepOf algo sets auth).createEv s1) s1
          (prepOf algo sets auth).controlEvents (prepOf algo sets auth).others =
          .ok (tail (prepOf algo sets auth).authMap rej (createFor (prepOf algo sets auth).createEv s1) s1
            (prepOf algo sets auth).controlEvents (prepOf algo sets auth).others) :=
        tailP_ok (fun e he => P.ev e (hsub.control e he)) (fun e he => P.ev e (hsub.others e he))
      rw [ht]
      exact ⟨_, rfl⟩
  obtain ⟨st, hst⟩ := hex
  rw [hst, resolveV2NewP_eq hst]

/-! ## (b) `ResolveStateConflictsV2` (deprecated) -/

structure PreV2Old (conflicted unconflicted auth : List Event) : Prop where
  ev : ∀ e, e ∈ conflicted ∨ e ∈ unconflicted ∨ e ∈ auth → EvOK e

/-- `resolveV2OldP` with the helper names of `VProofs.StateResStages` -/
def stagedOldP (conflicted unconflicted auth : List Event) (rej : List ID) : Except Err (List ID) :=
  match getCreateEvent auth with
  | none => .ok []
  | some _ =>
    match headRoomSite conflicted, headRoomSite unconflicted, headRoomSite auth with
    | .error x, _, _ => .error x
    | _, .error x, _ => .error x
    | _, _, .error x => .error x
    | .ok (), .ok (), .ok () =>
    match controlSetSite (eventMapFromEvents conflicted) (rootsOf (unconflicted.map (·.eventID))
        (conflicted ++ authDifferenceOld (eventMapFromEvents auth) (eventMapFromEvents conflicted))) with
    | .error x => .error x
    | .ok () =>
    match tailP (eventMapFromEvents auth) rej ((applyEvents [] unconflicted).get b!"m.room.create" []) (applyEvents [] unconflicted)
        ((controlIDsOf (eventMapFromEvents conflicted) (rootsOf (unconflicted.map (·.eventID))
            (conflicted ++ authDifferenceOld (eventMapFromEvents auth) (eventMapFromEvents conflicted)))).filterMap
          (lookupAny (conflicted ++ authDifferenceOld (eventMapFromEvents auth) (eventMapFromEvents conflicted)) (eventMapFromEvents conflicted)))
        (othersOf (unconflicted.map (·.eventID))
          (controlIDsOf (eventMapFromEvents conflicted) (rootsOf (unconflicted.map (·.eventID))
            (conflicted ++ authDifferenceOld (eventMapFromEvents auth) (eventMapFromEvents conflicted))))
          (conflicted ++ authDifferenceOld (eventMapFromEvents auth) (eventMapFromEvents conflicted))) with
    | .error x => .error x
    | .ok (_, _, s3) => .ok ((applyEvents s3 unconflicted).map (·.2.eventID))

theorem resolveV2OldP_staged (conflicted unconflicted auth : List Event) (rej : List ID) :
    resolveV2OldP conflicted unconflicted auth rej = stagedOldP conflicted unconflicted auth rej := by
  unfold resolveV2OldP stagedOldP
  rfl

theorem mem_authDifferenceOld {am cm : List Event} {e : Event} (h : e ∈ authDifferenceOld am cm) : e ∈ am := by
  unfold authDifferenceOld at h
  exact (List.mem_filter.mp h).1

theorem resolveV2OldP_ok {conflicted unconflicted auth : List Event} (rej : List ID) (P : PreV2Old conflicted unconflicted auth) :
    resolveV2OldP conflicted unconflicted auth rej = .ok (resolveV2Old conflicted unconflicted auth rej) := by
  have hex : ∃ r, resolveV2OldP conflicted unconflicted auth rej = .ok r := by
    rw [resolveV2OldP_staged]
    unfold stagedOldP
    split
    · exact ⟨_, rfl⟩
    · have hfull : ∀ e ∈ conflicted ++ authDifferenceOld (eventMapFromEvents auth) (eventMapFromEvents conflicted),
          e ∈ conflicted ∨ e ∈ unconflicted ∨ e ∈ auth := by
        intro e he
        rcases List.mem_append.mp he with h | h
        · exact Or.inl h
        · exact Or.inr (Or.inr (mem_eventMap (mem_authDifferenceOld h)))
      rw [headRoomSite_ok (fun e he => P.ev e (Or.inl he)), headRoomSite_ok (fun e he => P.ev e (Or.inr (Or.inl he))),
        headRoomSite_ok (fun e he => P.ev e (Or.inr (Or.inr he)))]
      simp only
      rw [controlSetSite_ok]
      simp only
      have hces : ∀ e ∈ (controlIDsOf (eventMapFromEvents conflicted) (rootsOf (unconflicted.map (·.eventID))
            (conflicted ++ authDifferenceOld (eventMapFromEvents auth) (eventMapFromEvents conflicted)))).filterMap
          (lookupAny (conflicted ++ authDifferenceOld (eventMapFromEvents auth) (eventMapFromEvents conflicted)) (eventMapFromEvents conflicted)),
          e ∈ conflicted ∨ e ∈ unconflicted ∨ e ∈ auth := by
        intro e he
        obtain ⟨id, _, hid⟩ := List.mem_filterMap.mp he
        unfold lookupAny at hid
        split at hid
        · rename_i x hx
          cases hid
          exact hfull _ (findByID_some hx).1
        · exact Or.inl (mem_eventMap (findByID_some hid).1)
      have hos : ∀ e ∈ othersOf (unconflicted.map (·.eventID))
          (controlIDsOf (eventMapFromEvents conflicted) (rootsOf (unconflicted.map (·.eventID))
            (conflicted ++ authDifferenceOld (eventMapFromEvents auth) (eventMapFromEvents conflicted))))
          (conflicted ++ authDifferenceOld (eventMapFromEvents auth) (eventMapFromEvents conflicted)),
          e ∈ conflicted ∨ e ∈ unconflicted ∨ e ∈ auth := by
        intro e he
        unfold othersOf at he
        exact hfull _ (mem_eventMap (List.mem_filter.mp he).1)
      rw [tailP_ok (fun e he => P.ev e (hces e he)) (fun e he => P.ev e (hos e he))]
      exact ⟨_, rfl⟩
  obtain ⟨r, hr⟩ := hex
  rw [hr, resolveV2OldP_eq hr]

/-! ## (b) version 1 -/

theorem sortV1_perm' (sha : ID → Bytes) (block : List Event) : (sortV1 sha block).Perm block := by
  unfold sortV1
  have hp := (sortBy_perm (fun (a b : Event × V1Key) => v1Lt a.2 b.2)
    (block.map (fun e => (e, ({ depth := e.depth, sha1 := sha e.eventID } : V1Key))))).map (·.1)
  rw [List.map_map] at hp
  have hid : ((fun x : Event × V1Key => x.1) ∘ fun e => (e, ({ depth := e.depth, sha1 := sha e.eventID } : V1Key))) = id := rfl
  rw [hid, List.map_id] at hp
  exact hp

theorem authBlockGoP_ne (valid : Bool) : ∀ (rest : List Event), (∀ e ∈ rest, EvOK e) → ∀ (s : V1State) (result : Event) x,
    authBlockGoP valid s result rest ≠ .error x := by
  intro rest
  induction rest with
  | nil => intro _ s result x h; simp only [authBlockGoP] at h; cases h
  | cons e more ih =>
    intro hok s result x h
    simp only [authBlockGoP] at h
    rw [v1AllowedP_ok (hok e List.mem_cons_self)] at h
    cases hv : v1Allowed s valid e with
    | true =>
      rw [hv] at h
      simp only at h
      rw [addAuthEventSite_ok (hok e List.mem_cons_self)] at h
      exact ih (fun y hy => hok y (List.mem_cons_of_mem _ hy)) _ _ x h
    | false =>
      rw [hv] at h
      cases h

theorem resolveAuthBlockP_ne {sha : ID → Bytes} {valid : Bool} {s : V1State} {evs : List Event} (hne : evs ≠ [])
    (hok : ∀ e ∈ evs, EvOK e) (x : Err) : resolveAuthBlockP sha valid s evs ≠ .error x := by
  intro h
  unfold resolveAuthBlockP at h
  have hp := sortV1_perm' sha evs
  split at h
  · rename_i hs
    rw [hs] at hp
    exact hne (List.Perm.eq_nil hp.symm)
  · rename_i first rest hs
    rw [hs] at hp
    have hfirst : EvOK first := hok first (hp.mem_iff.mp List.mem_cons_self)
    rw [addAuthEventSite_ok hfirst] at h
    simp only at h
    split at h
    · rename_i x' hgo
      exact authBlockGoP_ne valid rest (fun e he => hok e (hp.mem_iff.mp (List.mem_cons_of_mem _ he))) _ _ _ hgo
    · cases h

theorem authBlocksLoopP_ne (sha : ID → Bytes) (valid : Bool) : ∀ (blocks : List (List Event)), (∀ b ∈ blocks, ∀ e ∈ b, EvOK e) →
    ∀ acc x, authBlocksLoopP sha valid acc blocks ≠ .error x := by
  intro blocks
  induction blocks with
  | nil => intro _ acc x h; simp only [authBlocksLoopP] at h; cases h
  | cons b more ih =>
    intro hok acc x h
    simp only [authBlocksLoopP] at h
    have hrest := ih (fun b' hb' => hok b' (List.mem_cons_of_mem _ hb'))
    split at h
    · exact hrest _ _ h
    · rename_i hb
      split at h
      · rename_i x' hr
        exact resolveAuthBlockP_ne (by intro hn; rw [hn] at hb; exact hb rfl) (hok b List.mem_cons_self) _ hr
      · exact hrest _ _ h
      · exact hrest _ _ h

theorem resolveAndAddAuthBlocksP_ne {sha : ID → Bytes} {valid : Bool} {s : V1State} {blocks : List (List Event)}
    (hok : ∀ b ∈ blocks, ∀ e ∈ b, EvOK e) (x : Err) : resolveAndAddAuthBlocksP sha valid s blocks ≠ .error x := by
  intro h
  unfold resolveAndAddAuthBlocksP at h
  split at h
  · rename_i x' hl
    exact authBlocksLoopP_ne sha valid blocks hok _ _ hl
  · cases h

theorem normalFindP_ne (s : V1State) (valid : Bool) : ∀ (l : List Event), (∀ e ∈ l, EvOK e) → ∀ x, normalFindP s valid l ≠ .error x := by
  intro l
  induction l with
  | nil => intro _ x h; simp only [normalFindP] at h; cases h
  | cons e more ih =>
    intro hok x h
    simp only [normalFindP] at h
    rw [v1AllowedP_ok (hok e List.mem_cons_self)] at h
    cases hv : v1Allowed s valid e with
    | true => rw [hv] at h; cases h
    | false =>
      rw [hv] at h
      exact ih (fun y hy => hok y (List.mem_cons_of_mem _ hy)) x h

theorem normalBlocksP_ne (sha : ID → Bytes) (valid : Bool) (s : V1State) : ∀ (bs : List (List Event)), (∀ b ∈ bs, ∀ e ∈ b, EvOK e) →
    ∀ x, normalBlocksP sha valid s bs ≠ .error x := by
  intro bs
  induction bs with
  | nil => intro _ x h; simp only [normalBlocksP] at h; cases h
  | cons b more ih =>
    intro hok x h
    simp only [normalBlocksP] at h
    split at h
    · rename_i x' hr
      unfold resolveNormalBlockP at hr
      have hp := sortV1_perm' sha b
      split at hr
      · cases hr
      · rename_i first rest hs
        rw [hs] at hp
        split at hr
        · rename_i x'' hf
          refine normalFindP_ne s valid rest.reverse ?_ _ hf
          intro e he
          exact hok b List.mem_cons_self e (hp.mem_iff.mp (List.mem_cons_of_mem _ (List.mem_reverse.mp he)))
        · cases hr
        · cases hr
    · split at h
      · rename_i x' hr
        exact ih (fun b' hb' => hok b' (List.mem_cons_of_mem _ hb')) _ hr
      · cases h

theorem groups_mem {conflicted : List Event} {P : (Bytes × Bytes) × List Event → Bool} {b : List Event}
    (hb : b ∈ ((groupByKey conflicted).filter P).map (·.2)) {e : Event} (he : e ∈ b) : e ∈ conflicted := by
  obtain ⟨g, hg, rfl⟩ := List.mem_map.mp hb
  exact ((groupByKey_mem (List.mem_filter.mp hg).1).mp he).1

theorem single_mem {conflicted : List Event} {P : (Bytes × Bytes) × List Event → Bool} {b : List Event}
    (hb : b ∈ [(((groupByKey conflicted).filter P).map (·.2)).flatten]) {e : Event} (he : e ∈ b) : e ∈ conflicted := by
  simp only [List.mem_singleton] at hb
  subst hb
  obtain ⟨b', hb', he'⟩ := List.mem_flatten.mp he
  exact groups_mem hb' he'

/-- the precondition of `resolveV1P_ok`: what the two entry points establish for the conflicted events (the split keeps
    state events only) and what parsing establishes for every event -/
structure PreV1 (conflicted auth : List Event) : Prop where
  sk : ∀ e ∈ conflicted, e.stateKey.isSome = true
  evc : ∀ e ∈ conflicted, EvOK e
  eva : ∀ e ∈ auth, EvOK e

theorem resolveV1P_ok {sha : ID → Bytes} {conflicted auth : List Event} (P : PreV1 conflicted auth) :
    resolveV1P sha conflicted auth = .ok (resolveV1 sha conflicted auth) := by
  have hex : ∃ r, resolveV1P sha conflicted auth = .ok r := by
    unfold resolveV1P
    rw [forSites_ok stateKeySite (fun e he => by
      unfold stateKeySite
      have := P.sk e he
      cases hk : e.stateKey with
      | none => rw [hk] at this; cases this
      | some k => rfl)]
    simp only
    rw [forSites_ok addAuthEventSite (fun e he => addAuthEventSite_ok (P.eva e he))]
    simp only
    split
    · rename_i x hx
      exact absurd hx (resolveAndAddAuthBlocksP_ne (fun b hb e he => P.evc e (single_mem hb he)) x)
    · split
      · rename_i x hx
        exact absurd hx (resolveAndAddAuthBlocksP_ne (fun b hb e he => P.evc e (single_mem hb he)) x)
      · split
        · rename_i x hx
          exact absurd hx (resolveAndAddAuthBlocksP_ne (fun b hb e he => P.evc e (single_mem hb he)) x)
        · split
          · rename_i x hx
            exact absurd hx (resolveAndAddAuthBlocksP_ne (fun b hb e he => P.evc e (groups_mem hb he)) x)
          · split
            · rename_i x hx
              exact absurd hx (resolveAndAddAuthBlocksP_ne (fun b hb e he => P.evc e (groups_mem hb he)) x)
            · split
              · rename_i x hx
                exact absurd hx (normalBlocksP_ne sha _ _ _ (fun b hb e he => P.evc e (groups_mem hb he)) x)
              · exact ⟨_, rfl⟩
  obtain ⟨r, hr⟩ := hex
  rw [hr, resolveV1P_eq hr]

/-! ## (b) the entry points -/

theorem preV1_of_split {sets : List (List Event)} {auth : List Event}
    (hev : ∀ e, e ∈ sets.flatten ∨ e ∈ auth → EvOK e) : PreV1 (splitConflictedUnconflicted true sets).1 auth :=
  ⟨fun e he => (split_sub true sets (Or.inl he)).2, fun e he => hev e (Or.inl (split_sub true sets (Or.inl he)).1),
   fun e he => hev e (Or.inr he)⟩

theorem resolveConflictsNewP_ok {sha : ID → Bytes} {ver : Bytes} {sets : List (List Event)} {auth : List Event} (rej : List ID)
    (hev : ∀ e, e ∈ sets.flatten ∨ e ∈ auth → EvOK e)
    (htwo : ∀ row, versionRow? ver = some row → row.stateResAlgorithm ≠ 1 → 2 ≤ sets.length) :
    resolveConflictsNewP sha ver sets auth rej = .ok (resolveConflictsNew sha ver sets auth rej) := by
  have hex : ∃ r, resolveConflictsNewP sha ver sets auth rej = .ok r := by
    unfold resolveConflictsNewP
    cases hrow : versionRow? ver with
    | none => exact ⟨_, rfl⟩
    | some row =>
      simp only
      by_cases h1 : (row.stateResAlgorithm == 1) = true
      · rw [if_pos h1]
        have := resolveV1P_ok (sha := sha) (preV1_of_split hev)
        simp only [this]
        exact ⟨_, rfl⟩
      · rw [if_neg h1]
        split
        · rw [resolveV2NewP_ok rej ⟨htwo row hrow (by simpa using h1), hev⟩]
          exact ⟨_, rfl⟩
        · exact ⟨_, rfl⟩
  obtain ⟨r, hr⟩ := hex
  rw [hr, resolveConflictsNewP_eq hr]

theorem resolveConflictsOldP_ok {sha : ID → Bytes} {ver : Bytes} {events auth : List Event} (rej : List ID)
    (hev : ∀ e, e ∈ events ∨ e ∈ auth → EvOK e) :
    resolveConflictsOldP sha ver events auth rej = .ok (resolveConflictsOld sha ver events auth rej) := by
  have hev' : ∀ e, e ∈ [events].flatten ∨ e ∈ auth → EvOK e := by
    intro e he
    apply hev
    simpa using he
  have hsplit : PreV2Old (splitConflictedUnconflicted true [events]).1 (splitConflictedUnconflicted true [events]).2 auth := by
    refine ⟨?_⟩
    rintro e (he | he | he)
    · exact hev' e (Or.inl (split_sub true [events] (Or.inl he)).1)
    · exact hev' e (Or.inl (split_sub true [events] (Or.inr he)).1)
    · exact hev' e (Or.inr he)
  have hex : ∃ r, resolveConflictsOldP sha ver events auth rej = .ok r := by
    unfold resolveConflictsOldP
    cases hrow : versionRow? ver with
    | none => exact ⟨_, rfl⟩
    | some row =>
      simp only
      by_cases h1 : (row.stateResAlgorithm == 1) = true
      · rw [if_pos h1]
        have := resolveV1P_ok (sha := sha) (preV1_of_split hev')
        simp only [this]
        exact ⟨_, rfl⟩
      · rw [if_neg h1]
        split
        · rw [resolveV2OldP_ok rej hsplit]
          exact ⟨_, rfl⟩
        · exact ⟨_, rfl⟩
  obtain ⟨r, hr⟩ := hex
  rw [hr, resolveConflictsOldP_eq hr]

theorem reverseTopoAuthEntryP_ok {evs : List Event} (h : ∀ e ∈ evs, EvOK e) :
    reverseTopoAuthEntryP evs = .ok (reverseTopoAuth [] (getCreateEvent evs) evs) := by
  unfold reverseTopoAuthEntryP
  exact reverseTopoAuthP_ok h

end V.SRPanic
