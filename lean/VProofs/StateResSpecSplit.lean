/-
  C10 stage 2: `splitConflictedUnconflicted` computes the conflicted / unconflicted events as DEFINED over the
  state maps (`Conflicted`, `Unconflicted`; for version 1 the refinement R2).  Core only.
-/
import VModel.StateResSpec
import VProofs.StateResBasic
namespace V.StateResSpec
open V Json List
open V.StateRes

/-! ## groupByKey -/

abbrev Group := Key × List Event

def groupStep (acc : List Group) (e : Event) : List Group :=
  match e.stateKey with
  | none => acc
  | some k =>
    let key := (e.type, k)
    if (acc.find? (fun g => g.1 == key)).isSome then acc.map (fun g => if g.1 == key then (g.1, g.2 ++ [e]) else g)
    else acc ++ [(key, [e])]

theorem groupByKey_eq (evs : List Event) : groupByKey evs = evs.foldl groupStep [] := rfl

/-- the events of `pre` with key `k` -/
def withKey (pre : List Event) (k : Key) : List Event := pre.filter (fun e => decide (keyOf e = some k))

theorem mem_withKey {pre : List Event} {k : Key} {e : Event} : e ∈ withKey pre k ↔ e ∈ pre ∧ keyOf e = some k := by
  unfold withKey; simp

theorem withKey_append (a b : List Event) (k : Key) : withKey (a ++ b) k = withKey a k ++ withKey b k := by
  unfold withKey; rw [List.filter_append]

structure GInv (pre : List Event) (gs : List Group) : Prop where
  keys : (gs.map (·.1)).Nodup
  grp : ∀ g ∈ gs, g.2 = withKey pre g.1 ∧ g.2 ≠ []
  cover : ∀ e ∈ pre, ∀ k, keyOf e = some k → ∃ g ∈ gs, g.1 = k

theorem ginv_nil : GInv [] [] := ⟨by simp, by simp, by simp⟩

theorem keyOf_none {e : Event} (h : e.stateKey = none) : keyOf e = none := by unfold keyOf; rw [h]; rfl
theorem keyOf_some {e : Event} {k : Bytes} (h : e.stateKey = some k) : keyOf e = some (e.type, k) := by
  unfold keyOf; rw [h]; rfl

theorem ginv_step {pre : List Event} {gs : List Group} (h : GInv pre gs) (e : Event) :
    GInv (pre ++ [e]) (groupStep gs e) := by
  unfold groupStep
  cases hk : e.stateKey with
  | none =>
    have hkn := keyOf_none hk
    refine ⟨h.keys, ?_, ?_⟩
    · intro g hg
      have := h.grp g hg
      refine ⟨?_, this.2⟩
      rw [withKey_append, this.1]
      have : withKey [e] g.1 = [] := by unfold withKey; simp [hkn]
      rw [this]; simp
    · intro e' he' k hk'
      rcases List.mem_append.mp he' with h1 | h1
      · exact h.cover e' h1 k hk'
      · simp at h1; subst h1; rw [hkn] at hk'; cases hk'
  | some k =>
    have hks := keyOf_some hk
    simp only
    split
    · -- the key already has a group
      rename_i hfound
      obtain ⟨g0, hg0, hg0k⟩ : ∃ g0 ∈ gs, g0.1 = (e.type, k) := by
        rw [Option.isSome_iff_exists] at hfound
        obtain ⟨g0, hf⟩ := hfound
        exact ⟨g0, List.mem_of_find?_eq_some hf, by simpa using List.find?_some hf⟩
      refine ⟨?_, ?_, ?_⟩
      · have : (gs.map (fun g => if g.1 == (e.type, k) then (g.1, g.2 ++ [e]) else g)).map (·.1) = gs.map (·.1) := by
          rw [List.map_map]
          apply List.map_congr_left
          intro g _
          simp only [Function.comp]
          split <;> rfl
        rw [this]; exact h.keys
      · intro g' hg'
        obtain ⟨g, hg, rfl⟩ := List.mem_map.mp hg'
        have hgi := h.grp g hg
        by_cases hgk : g.1 = (e.type, k)
        · simp only [hgk, beq_self_eq_true, if_true]
          refine ⟨?_, by simp⟩
          rw [withKey_append, ← hgk, ← hgi.1]
          have : withKey [e] g.1 = [e] := by unfold withKey; simp [hks, hgk]
          rw [this]
        · have hne : (g.1 == (e.type, k)) = false := by simpa using hgk
          simp only [hne, Bool.false_eq_true, ↓reduceIte]
          refine ⟨?_, hgi.2⟩
          rw [withKey_append, ← hgi.1]
          have : withKey [e] g.1 = [] := by
            unfold withKey; simp [hks]; exact fun h => hgk h.symm
          rw [this]; simp
      · intro e' he' k' hk'
        have key : ∀ g ∈ gs, ∃ g' ∈ gs.map (fun g => if g.1 == (e.type, k) then (g.1, g.2 ++ [e]) else g), g'.1 = g.1 := by
          intro g hg
          refine ⟨_, List.mem_map_of_mem hg, ?_⟩
          split <;> rfl
        rcases List.mem_append.mp he' with h1 | h1
        · obtain ⟨g, hg, hgk⟩ := h.cover e' h1 k' hk'
          obtain ⟨g', hg', e1⟩ := key g hg
          exact ⟨g', hg', e1.trans hgk⟩
        · simp at h1; subst h1
          rw [hks] at hk'; cases hk'
          obtain ⟨g', hg', e1⟩ := key g0 hg0
          exact ⟨g', hg', e1.trans hg0k⟩
    · -- a new key
      rename_i hnot
      have hnone : ∀ g ∈ gs, g.1 ≠ (e.type, k) := by
        intro g hg hgk
        apply hnot
        rw [List.find?_isSome]
        exact ⟨g, hg, by simp [hgk]⟩
      have hpre : withKey pre (e.type, k) = [] := by
        rw [List.eq_nil_iff_forall_not_mem]
        intro x hx
        obtain ⟨hx1, hx2⟩ := mem_withKey.mp hx
        obtain ⟨g, hg, hgk⟩ := h.cover x hx1 _ hx2
        exact hnone g hg hgk
      refine ⟨?_, ?_, ?_⟩
      · rw [List.map_append, List.nodup_append]
        refine ⟨h.keys, by simp, ?_⟩
        intro a ha b hb
        simp at hb; subst hb
        obtain ⟨g, hg, rfl⟩ := List.mem_map.mp ha
        exact hnone g hg
      · intro g hg
        rcases List.mem_append.mp hg with h1 | h1
        · have hgi := h.grp g h1
          refine ⟨?_, hgi.2⟩
          rw [withKey_append, ← hgi.1]
          have : withKey [e] g.1 = [] := by
            unfold withKey; simp [hks]; exact fun h => hnone g h1 h.symm
          rw [this]; simp
        · simp at h1; subst h1
          refine ⟨?_, by simp⟩
          rw [withKey_append, hpre]
          unfold withKey; simp [hks]
      · intro e' he' k' hk'
        rcases List.mem_append.mp he' with h1 | h1
        · obtain ⟨g, hg, hgk⟩ := h.cover e' h1 k' hk'
          exact ⟨g, List.mem_append_left _ hg, hgk⟩
        · simp at h1; subst h1
          rw [hks] at hk'; cases hk'
          exact ⟨((e'.type, k), [e']), by simp, rfl⟩

theorem ginv_foldl : ∀ (evs pre : List Event) (gs : List Group), GInv pre gs → GInv (pre ++ evs) (evs.foldl groupStep gs)
  | [], pre, gs, h => by simpa using h
  | e :: es, pre, gs, h => by
    have := ginv_foldl es (pre ++ [e]) (groupStep gs e) (ginv_step h e)
    simpa using this

theorem ginv_groupByKey (evs : List Event) : GInv evs (groupByKey evs) := by
  have := ginv_foldl evs [] [] ginv_nil
  simpa [groupByKey_eq] using this

/-- membership in a group of `groupByKey` -/
theorem mem_group_iff {evs : List Event} {e : Event} :
    (∃ g ∈ groupByKey evs, e ∈ g.2) ↔ e ∈ evs ∧ keyOf e ≠ none := by
  have hI := ginv_groupByKey evs
  constructor
  · rintro ⟨g, hg, he⟩
    rw [(hI.grp g hg).1] at he
    obtain ⟨h1, h2⟩ := mem_withKey.mp he
    exact ⟨h1, by rw [h2]; simp⟩
  · rintro ⟨he, hk⟩
    obtain ⟨k, hk'⟩ := Option.ne_none_iff_exists'.mp hk
    obtain ⟨g, hg, hgk⟩ := hI.cover e he k hk'
    refine ⟨g, hg, ?_⟩
    rw [(hI.grp g hg).1, hgk]
    exact mem_withKey.mpr ⟨he, hk'⟩

/-! ## the fold over the groups -/

def splitStep (v1 : Bool) (sets : List (List Event)) (acc : List Event × List Event) (g : Group) : List Event × List Event :=
  if g.2.length > 1 then (acc.1 ++ g.2, acc.2)
  else if v1 then (acc.1, acc.2 ++ g.2)
  else g.2.foldl (fun (a : List Event × List Event) e =>
    if countID sets e.eventID == sets.length then (a.1, a.2 ++ g.2) else (a.1 ++ [e], a.2)) acc

theorem split_eq_foldl (v1 : Bool) (sets : List (List Event)) :
    splitConflictedUnconflicted v1 sets = (groupByKey (distinctStateEvents sets)).foldl (splitStep v1 sets) ([], []) := rfl

def ConfG (v1 : Bool) (sets : List (List Event)) (g : Group) (e : Event) : Prop :=
  e ∈ g.2 ∧ (g.2.length > 1 ∨ (v1 = false ∧ countID sets e.eventID ≠ sets.length))

def UnconfG (v1 : Bool) (sets : List (List Event)) (g : Group) (e : Event) : Prop :=
  e ∈ g.2 ∧ g.2.length ≤ 1 ∧ (v1 = true ∨ countID sets e.eventID = sets.length)

theorem splitStep_mem (v1 : Bool) (sets : List (List Event)) (acc : List Event × List Event) (g : Group) (e : Event) :
    (e ∈ (splitStep v1 sets acc g).1 ↔ e ∈ acc.1 ∨ ConfG v1 sets g e) ∧
    (e ∈ (splitStep v1 sets acc g).2 ↔ e ∈ acc.2 ∨ UnconfG v1 sets g e) := by
  unfold splitStep ConfG UnconfG
  obtain ⟨k, l⟩ := g
  match l with
  | [] => cases v1 <;> simp
  | [x] =>
    cases v1
    · simp only [List.length_cons, List.length_nil, Nat.zero_add, Nat.lt_irrefl, if_false, List.foldl_cons,
        List.foldl_nil, Bool.false_eq_true]
      by_cases hc : countID sets x.eventID = sets.length
      · simp only [hc, beq_self_eq_true, if_true]
        constructor
        · constructor
          · intro h; exact Or.inl h
          · rintro (h | ⟨h1, h2⟩)
            · exact h
            · simp at h1; subst h1; simp [hc] at h2
        · simp only [List.mem_append]
          constructor
          · rintro (h | h)
            · exact Or.inl h
            · simp at h; subst h; exact Or.inr ⟨by simp, by simp, Or.inr hc⟩
          · rintro (h | ⟨h1, _⟩)
            · exact Or.inl h
            · exact Or.inr h1
      · have hne : (countID sets x.eventID == sets.length) = false := by simpa using hc
        simp only [hne, Bool.false_eq_true, ↓reduceIte]
        constructor
        · simp only [List.mem_append]
          constructor
          · rintro (h | h)
            · exact Or.inl h
            · simp at h; subst h; exact Or.inr ⟨by simp, Or.inr ⟨trivial, hc⟩⟩
          · rintro (h | ⟨h1, _⟩)
            · exact Or.inl h
            · exact Or.inr h1
        · constructor
          · intro h; exact Or.inl h
          · rintro (h | ⟨h1, _, h3⟩)
            · exact h
            · simp at h1; subst h1
              rcases h3 with h3 | h3
              · cases h3
              · exact absurd h3 hc
    · simp
  | x :: y :: zs =>
    have hl : (x :: y :: zs).length > 1 := by simp
    simp only [hl, if_true]
    constructor
    · simp only [List.mem_append]
      constructor
      · rintro (h | h)
        · exact Or.inl h
        · exact Or.inr ⟨h, Or.inl trivial⟩
      · rintro (h | ⟨h, _⟩)
        · exact Or.inl h
        · exact Or.inr h
    · constructor
      · intro h; exact Or.inl h
      · rintro (h | ⟨_, h2, _⟩)
        · exact h
        · simp at h2

theorem split_foldl_mem (v1 : Bool) (sets : List (List Event)) (e : Event) :
    ∀ (gs : List Group) (acc : List Event × List Event),
    (e ∈ (gs.foldl (splitStep v1 sets) acc).1 ↔ e ∈ acc.1 ∨ ∃ g ∈ gs, ConfG v1 sets g e) ∧
    (e ∈ (gs.foldl (splitStep v1 sets) acc).2 ↔ e ∈ acc.2 ∨ ∃ g ∈ gs, UnconfG v1 sets g e)
  | [], acc => by simp
  | g :: gs, acc => by
    have ih := split_foldl_mem v1 sets e gs (splitStep v1 sets acc g)
    have hs := splitStep_mem v1 sets acc g e
    simp only [List.foldl_cons, List.mem_cons, exists_eq_or_imp]
    rw [ih.1, ih.2, hs.1, hs.2]
    constructor <;> simp only [or_assoc]

/-! ## the distinct state events -/

theorem mem_distinct_iff {sets : List (List Event)} (hids : IDsIdentify (· ∈ sets.flatten)) {e : Event} :
    e ∈ distinctStateEvents sets ↔ InSomeSet sets e ∧ keyOf e ≠ none := by
  unfold distinctStateEvents InSomeSet
  rw [List.mem_filter, (eventMap_sameSet (l := sets.flatten) hids) e, List.mem_flatten]
  have : (e.stateKey.isSome = true) ↔ keyOf e ≠ none := by
    unfold keyOf; cases e.stateKey <;> simp
  rw [this]

theorem distinct_nodup (sets : List (List Event)) : (distinctStateEvents sets).Nodup :=
  ((eventMap_idNodup sets.flatten).filter _).nodup

/-- a group has more than one member iff another distinct state event shares the key -/
theorem group_length_gt_one {D : List Event} (hD : D.Nodup) {g : Group} (hg : g ∈ groupByKey D) {e : Event} (he : e ∈ g.2) :
    g.2.length > 1 ↔ ∃ x ∈ D, keyOf x = some g.1 ∧ x ≠ e := by
  have hI := ginv_groupByKey D
  have hgw := (hI.grp g hg).1
  have hnd : g.2.Nodup := by rw [hgw]; exact List.Nodup.sublist List.filter_sublist hD
  constructor
  · intro hl
    match hgl : g.2, hl, he, hnd with
    | a :: b :: rest, _, he', hnd' =>
      have ha : a ∈ g.2 := by rw [hgl]; simp
      have hb : b ∈ g.2 := by rw [hgl]; simp
      have hab : a ≠ b := by
        intro h; subst h; simp at hnd'
      rw [hgw] at ha hb
      by_cases hae : a = e
      · exact ⟨b, (mem_withKey.mp hb).1, (mem_withKey.mp hb).2, fun h => hab (hae.trans h.symm)⟩
      · exact ⟨a, (mem_withKey.mp ha).1, (mem_withKey.mp ha).2, hae⟩
  · rintro ⟨x, hx, hxk, hxe⟩
    have hx' : x ∈ g.2 := by rw [hgw]; exact mem_withKey.mpr ⟨hx, hxk⟩
    match hgl : g.2, hx', he, hnd with
    | [], h, _, _ => cases h
    | [a], h1, h2, _ =>
      simp at h1 h2; exact absurd (h1.trans h2.symm) hxe
    | a :: b :: rest, _, _, _ => simp

/-! ## countID -/

theorem foldl_add (l : List Nat) (a : Nat) : l.foldl (· + ·) a = a + l.foldl (· + ·) 0 := by
  induction l generalizing a with
  | nil => simp
  | cons x xs ih => simp only [List.foldl_cons]; rw [ih (a + x), ih (0 + x)]; omega

theorem countID_cons (S : List Event) (sets : List (List Event)) (id : ID) :
    countID (S :: sets) id = (S.filter (fun e => e.eventID == id)).length + countID sets id := by
  unfold countID
  simp only [List.map_cons, List.foldl_cons]
  rw [foldl_add]; omega

theorem length_le_one_of_all_eq {α : Type} {l : List α} (hn : l.Nodup) (e : α) (h : ∀ x ∈ l, x = e) : l.length ≤ 1 := by
  match l, hn, h with
  | [], _, _ => simp
  | [a], _, _ => simp
  | a :: b :: rest, hn, h =>
    have ha := h a (by simp)
    have hb := h b (by simp)
    subst ha; subst hb; simp at hn

/-- in a duplicate-free state set the number of entries with `e`'s ID is 1 if `e` is there and 0 otherwise -/
theorem count_in_set {U : Event → Prop} (hU : IDsIdentify U) {S : List Event} (hS : ∀ x ∈ S, U x) (hn : S.Nodup)
    {e : Event} (he : U e) :
    (e ∈ S → (S.filter (fun x => x.eventID == e.eventID)).length = 1) ∧
    (e ∉ S → (S.filter (fun x => x.eventID == e.eventID)).length = 0) := by
  have hall : ∀ x ∈ S.filter (fun x => x.eventID == e.eventID), x = e := by
    intro x hx
    obtain ⟨h1, h2⟩ := List.mem_filter.mp hx
    exact hU x e (hS x h1) he (by simpa using h2)
  have hle := length_le_one_of_all_eq (List.Nodup.sublist List.filter_sublist hn) e hall
  constructor
  · intro hmem
    have : e ∈ S.filter (fun x => x.eventID == e.eventID) := List.mem_filter.mpr ⟨hmem, by simp⟩
    have : 0 < (S.filter (fun x => x.eventID == e.eventID)).length := List.length_pos_of_mem this
    omega
  · intro hmem
    cases hl : S.filter (fun x => x.eventID == e.eventID) with
    | nil => rfl
    | cons a as =>
      have ha : a ∈ S.filter (fun x => x.eventID == e.eventID) := by rw [hl]; simp
      have := hall a ha
      subst this
      exact absurd (List.mem_filter.mp ha).1 hmem

theorem countID_le_and_eq {U : Event → Prop} (hU : IDsIdentify U) {e : Event} (he : U e) :
    ∀ (sets : List (List Event)), (∀ S ∈ sets, ∀ x ∈ S, U x) → (∀ S ∈ sets, S.Nodup) →
      countID sets e.eventID ≤ sets.length ∧ (countID sets e.eventID = sets.length ↔ ∀ S ∈ sets, e ∈ S)
  | [], _, _ => by simp [countID]
  | S :: rest, hS, hn => by
    have ih := countID_le_and_eq hU he rest (fun S' h => hS S' (List.mem_cons_of_mem _ h))
      (fun S' h => hn S' (List.mem_cons_of_mem _ h))
    have hc := count_in_set hU (hS S (by simp)) (hn S (by simp)) he
    rw [countID_cons]
    simp only [List.length_cons, List.mem_cons, forall_eq_or_imp]
    by_cases hmem : e ∈ S
    · rw [hc.1 hmem]
      simp only [hmem, true_and]
      constructor
      · omega
      · rw [← ih.2]; omega
    · rw [hc.2 hmem]
      simp only [hmem, false_and, iff_false]
      constructor
      · omega
      · omega

/-! ## the theorems -/

theorem unconflicted_iff {sets : List (List Event)} (hids : IDsIdentify (· ∈ sets.flatten)) {e : Event} {k : Key}
    (he : InSomeSet sets e) (hk : keyOf e = some k) :
    Unconflicted sets e ↔
      (∀ x ∈ distinctStateEvents sets, keyOf x = some k → x = e) ∧ ∀ S ∈ sets, e ∈ S := by
  constructor
  · rintro ⟨_, k', hu⟩
    obtain ⟨S0, hS0, he0⟩ := he
    have hk' : k' = k := by
      have := ((hu S0 hS0 e).mpr rfl).2
      rw [hk] at this; exact (Option.some.inj this).symm
    subst hk'
    constructor
    · intro x hx hxk
      obtain ⟨⟨S, hS, hxS⟩, _⟩ := (mem_distinct_iff hids).mp hx
      exact (hu S hS x).mp ⟨hxS, hxk⟩
    · intro S hS
      exact ((hu S hS e).mpr rfl).1
  · rintro ⟨h1, h2⟩
    refine ⟨he, k, ?_⟩
    intro S hS x
    constructor
    · rintro ⟨hxS, hxk⟩
      exact h1 x ((mem_distinct_iff hids).mpr ⟨⟨S, hS, hxS⟩, by rw [hxk]; simp⟩) hxk
    · rintro rfl
      exact ⟨h2 S hS, hk⟩

/-- what the model's two outputs are, in terms of the distinct state events -/
theorem split_mem_model (v1 : Bool) {sets : List (List Event)} (hids : IDsIdentify (· ∈ sets.flatten)) (e : Event) :
    (e ∈ (splitConflictedUnconflicted v1 sets).1 ↔
      ∃ k, InSomeSet sets e ∧ keyOf e = some k ∧
        ((∃ x ∈ distinctStateEvents sets, keyOf x = some k ∧ x ≠ e) ∨
         (v1 = false ∧ countID sets e.eventID ≠ sets.length))) ∧
    (e ∈ (splitConflictedUnconflicted v1 sets).2 ↔
      ∃ k, InSomeSet sets e ∧ keyOf e = some k ∧
        (¬ (∃ x ∈ distinctStateEvents sets, keyOf x = some k ∧ x ≠ e)) ∧
         (v1 = true ∨ countID sets e.eventID = sets.length)) := by
  rw [split_eq_foldl]
  have hm := split_foldl_mem v1 sets e (groupByKey (distinctStateEvents sets)) ([], [])
  have hI := ginv_groupByKey (distinctStateEvents sets)
  have hD := distinct_nodup sets
  -- a group containing e is the group of e's key
  have hgrp : ∀ g ∈ groupByKey (distinctStateEvents sets), e ∈ g.2 →
      InSomeSet sets e ∧ keyOf e = some g.1 := by
    intro g hg he
    rw [(hI.grp g hg).1] at he
    obtain ⟨h1, h2⟩ := mem_withKey.mp he
    exact ⟨((mem_distinct_iff hids).mp h1).1, h2⟩
  have hex : ∀ k, InSomeSet sets e → keyOf e = some k →
      ∃ g ∈ groupByKey (distinctStateEvents sets), g.1 = k ∧ e ∈ g.2 := by
    intro k h1 h2
    have hd : e ∈ distinctStateEvents sets := (mem_distinct_iff hids).mpr ⟨h1, by rw [h2]; simp⟩
    obtain ⟨g, hg, hgk⟩ := hI.cover e hd k h2
    refine ⟨g, hg, hgk, ?_⟩
    rw [(hI.grp g hg).1, hgk]; exact mem_withKey.mpr ⟨hd, h2⟩
  constructor
  · rw [hm.1]
    simp only [List.not_mem_nil, false_or]
    constructor
    · rintro ⟨g, hg, he, hc⟩
      obtain ⟨h1, h2⟩ := hgrp g hg he
      refine ⟨g.1, h1, h2, ?_⟩
      rcases hc with hc | hc
      · exact Or.inl ((group_length_gt_one hD hg he).mp hc)
      · exact Or.inr hc
    · rintro ⟨k, h1, h2, hc⟩
      obtain ⟨g, hg, rfl, he⟩ := hex k h1 h2
      refine ⟨g, hg, he, ?_⟩
      rcases hc with hc | hc
      · exact Or.inl ((group_length_gt_one hD hg he).mpr hc)
      · exact Or.inr hc
  · rw [hm.2]
    simp only [List.not_mem_nil, false_or]
    constructor
    · rintro ⟨g, hg, he, hl, hc⟩
      obtain ⟨h1, h2⟩ := hgrp g hg he
      refine ⟨g.1, h1, h2, ?_, hc⟩
      intro hx
      have := (group_length_gt_one hD hg he).mpr hx
      omega
    · rintro ⟨k, h1, h2, hn, hc⟩
      obtain ⟨g, hg, rfl, he⟩ := hex k h1 h2
      refine ⟨g, hg, he, ?_, hc⟩
      have := (not_congr (group_length_gt_one hD hg he)).mpr hn
      omega

/-- **Stage 2 (v2 / v2.1).** The split computes the conflicted and the unconflicted events as defined. -/
theorem split_eq_spec (sets : List (List Event)) (hids : IDsIdentify (· ∈ sets.flatten)) (hnd : ∀ S ∈ sets, S.Nodup) :
    (∀ e, e ∈ (splitConflictedUnconflicted false sets).1 ↔ Conflicted sets e) ∧
    (∀ e, e ∈ (splitConflictedUnconflicted false sets).2 ↔ Unconflicted sets e) := by
  have hcnt : ∀ e, InSomeSet sets e → (countID sets e.eventID = sets.length ↔ ∀ S ∈ sets, e ∈ S) := by
    intro e ⟨S, hS, he⟩
    exact (countID_le_and_eq hids (List.mem_flatten.mpr ⟨S, hS, he⟩) sets
      (fun S' hS' x hx => List.mem_flatten.mpr ⟨S', hS', hx⟩) hnd).2
  have hall : ∀ e k, (¬ ∃ x ∈ distinctStateEvents sets, keyOf x = some k ∧ x ≠ e) ↔
      ∀ x ∈ distinctStateEvents sets, keyOf x = some k → x = e := by
    intro e k
    constructor
    · intro h x hx hk
      apply Classical.byContradiction
      intro hne; exact h ⟨x, hx, hk, hne⟩
    · rintro h ⟨x, hx, hk, hne⟩; exact hne (h x hx hk)
  constructor
  · intro e
    rw [(split_mem_model false hids e).1]
    unfold Conflicted
    constructor
    · rintro ⟨k, h1, h2, hc⟩
      refine ⟨h1, by rw [h2]; simp, ?_⟩
      rw [unconflicted_iff hids h1 h2, ← hall, ← hcnt e h1]
      rcases hc with hc | ⟨_, hc⟩
      · exact fun h => h.1 hc
      · exact fun h => hc h.2
    · rintro ⟨h1, h2, h3⟩
      obtain ⟨k, hk⟩ := Option.ne_none_iff_exists'.mp h2
      refine ⟨k, h1, hk, ?_⟩
      rw [unconflicted_iff hids h1 hk, ← hall, ← hcnt e h1] at h3
      apply Classical.byContradiction
      intro hno
      apply h3
      constructor
      · intro hx; exact hno (Or.inl hx)
      · apply Classical.byContradiction
        intro hne; exact hno (Or.inr ⟨rfl, hne⟩)
  · intro e
    rw [(split_mem_model false hids e).2]
    constructor
    · rintro ⟨k, h1, h2, hn, hc⟩
      rw [unconflicted_iff hids h1 h2, ← hall, ← hcnt e h1]
      rcases hc with hc | hc
      · cases hc
      · exact ⟨hn, hc⟩
    · intro hu
      have h1 := hu.1
      obtain ⟨S, hS, he⟩ := hu.1
      obtain ⟨_, k, hk⟩ := hu
      have h2 : keyOf e = some k := ((hk S hS e).mpr rfl).2
      refine ⟨k, h1, h2, ?_⟩
      have := (unconflicted_iff hids h1 h2).mp ⟨h1, k, hk⟩
      rw [← hall, ← hcnt e h1] at this
      exact ⟨this.1, Or.inr this.2⟩

/-- **Stage 2 (version 1, R2).** A key with a single candidate event overall is unconflicted. -/
theorem split_v1_eq_spec (sets : List (List Event)) (hids : IDsIdentify (· ∈ sets.flatten)) :
    (∀ e, e ∈ (splitConflictedUnconflicted true sets).1 ↔ ConflictedV1 sets e) ∧
    (∀ e, e ∈ (splitConflictedUnconflicted true sets).2 ↔ UnconflictedV1 sets e) := by
  have hD : ∀ x k, (x ∈ distinctStateEvents sets ∧ keyOf x = some k) ↔ ∃ S ∈ sets, MapsTo S k x := by
    intro x k
    constructor
    · rintro ⟨hx, hk⟩
      obtain ⟨⟨S, hS, hxS⟩, _⟩ := (mem_distinct_iff hids).mp hx
      exact ⟨S, hS, hxS, hk⟩
    · rintro ⟨S, hS, hxS, hk⟩
      exact ⟨(mem_distinct_iff hids).mpr ⟨⟨S, hS, hxS⟩, by rw [hk]; simp⟩, hk⟩
  constructor
  · intro e
    rw [(split_mem_model true hids e).1]
    unfold ConflictedV1
    constructor
    · rintro ⟨k, h1, h2, hc⟩
      refine ⟨h1, k, h2, ?_⟩
      rcases hc with ⟨x, hx, hk, hne⟩ | ⟨hc, _⟩
      · obtain ⟨S, hS, hm⟩ := (hD x k).mp ⟨hx, hk⟩
        exact ⟨S, hS, x, hm, hne⟩
      · cases hc
    · rintro ⟨h1, k, h2, S, hS, x, hm, hne⟩
      obtain ⟨hx, hk⟩ := (hD x k).mpr ⟨S, hS, hm⟩
      exact ⟨k, h1, h2, Or.inl ⟨x, hx, hk, hne⟩⟩
  · intro e
    rw [(split_mem_model true hids e).2]
    unfold UnconflictedV1
    constructor
    · rintro ⟨k, h1, h2, hn, _⟩
      refine ⟨h1, k, h2, ?_⟩
      intro S hS x hm
      apply Classical.byContradiction
      intro hne
      obtain ⟨hx, hk⟩ := (hD x k).mpr ⟨S, hS, hm⟩
      exact hn ⟨x, hx, hk, hne⟩
    · rintro ⟨h1, k, h2, hall⟩
      refine ⟨k, h1, h2, ?_, Or.inl rfl⟩
      rintro ⟨x, hx, hk, hne⟩
      obtain ⟨S, hS, hm⟩ := (hD x k).mp ⟨hx, hk⟩
      exact hne (hall S hS x hm)

end V.StateResSpec
