/-
  VProofs.RedactCongr — a redaction depends only on the members its keep struct's fields select
  (`redactObj`), i.e. — after the restriction to exact field names — only on the last member under each
  field's exact name (`redactWith`): editing, adding or removing members with other keys (e.g.
  `unsigned`, or a case variant of a field name) does not change it.  Core Lean only.
-/
import VProofs.RedactExact
import VModel.EventParse
namespace V.RedactProofs
open V V.Json V.GoJson V.Redact

theorem marshalOk_congr (fs : List Field) (kvs kvs' : Obj)
    (h : ∀ f ∈ fs, lookupField kvs f.name = lookupField kvs' f.name) : marshalOk fs kvs = marshalOk fs kvs' := by
  unfold marshalOk
  induction fs with
  | nil => rfl
  | cons f rest ih =>
    simp only [List.all_cons]
    rw [h f List.mem_cons_self, ih (fun g hg => h g (List.mem_cons_of_mem _ hg))]

/-- `redactObj` only looks at the members that match one of the keep struct's fields. -/
theorem redactObj_congr (a : Algo) (kvs kvs' : Obj) (hsel : ∀ f ∈ a.fields, sel f.name kvs = sel f.name kvs') :
    redactObj a kvs = redactObj a kvs' := by
  have hl : ∀ f ∈ a.fields, lookupField kvs f.name = lookupField kvs' f.name := by
    intro f hf; rw [lookupField_sel, lookupField_sel, hsel f hf]
  unfold redactObj
  split
  · rfl
  · cases htf : typeField a.fields with
    | none => rfl
    | some tf =>
      cases hcf : contentField a.fields with
      | none => rfl
      | some cf =>
        have h1 : decType tf.name kvs = decType tf.name kvs' := by
          rw [decType_sel, decType_sel, hsel tf (typeField_mem htf).1]
        have h2 : decContent cf.name kvs = decContent cf.name kvs' := by
          rw [decContent_sel, decContent_sel, hsel cf (contentField_mem hcf).1]
        have h3 : marshalOk a.fields kvs = marshalOk a.fields kvs' := marshalOk_congr _ _ _ hl
        have h4 : ∀ ty nc, a.fields.flatMap (emitField kvs ty nc) = a.fields.flatMap (emitField kvs' ty nc) := by
          intro ty nc
          apply flatMap_congr'
          intro f hf
          unfold emitField
          rw [hl f hf]
        simp only [h1, h2, h3, h4]

/-! ## edits of members no field selects -/

theorem sel_deleteFirst_other (n k : Bytes) (kvs : Obj) (h : matchesField k n = false) :
    sel n (EventParse.deleteFirst k kvs) = sel n kvs := by
  induction kvs with
  | nil => rfl
  | cons kv rest ih =>
    unfold EventParse.deleteFirst
    by_cases hk : kv.1 = k
    · have : (kv.1 == k) = true := by simp [hk]
      rw [if_pos this]
      simp only [sel, List.filter_cons]
      rw [hk, h]
      simp
    · have : (kv.1 == k) = false := by simp [hk]
      rw [if_neg (by simp [this])]
      simp only [sel, List.filter_cons]
      have ih' : List.filter (fun kv => matchesField kv.1 n) (EventParse.deleteFirst k rest) =
          List.filter (fun kv => matchesField kv.1 n) rest := ih
      rw [ih']

/-! ## `redactWith`: only the last member under each exact field name matters -/

/-- `redactWith` on objects that agree on every field name -/
theorem redactWith_congr (a : Algo) (kvs kvs' : Obj)
    (h : ∀ f ∈ a.fields, lookupExact kvs f.name = lookupExact kvs' f.name) :
    redactWith a (.obj kvs) = redactWith a (.obj kvs') := by
  rw [redactWith_obj, redactWith_obj, exactFields_congr a.fields kvs kvs' h]

theorem filter_setFirst_other (p : Bytes × JVal → Bool) (k : Bytes) (v : JVal) (hp : ∀ x : JVal, p (k, x) = false) :
    ∀ kvs : Obj, (EventParse.setFirst k v kvs).filter p = kvs.filter p
  | [] => by simp [EventParse.setFirst, hp]
  | kv :: rest => by
    unfold EventParse.setFirst
    split
    · rename_i hk
      have hk' : kv.1 = k := by simpa using hk
      have h1 : p kv = false := by obtain ⟨k0, x⟩ := kv; simp at hk'; rw [hk']; exact hp x
      simp [List.filter_cons, hp, h1]
    · simp only [List.filter_cons, filter_setFirst_other p k v hp rest]

theorem filter_deleteFirst_other (p : Bytes × JVal → Bool) (k : Bytes) (hp : ∀ x : JVal, p (k, x) = false) :
    ∀ kvs : Obj, (EventParse.deleteFirst k kvs).filter p = kvs.filter p
  | [] => rfl
  | kv :: rest => by
    unfold EventParse.deleteFirst
    split
    · rename_i hk
      have hk' : kv.1 = k := by simpa using hk
      have h1 : p kv = false := by obtain ⟨k0, x⟩ := kv; simp at hk'; rw [hk']; exact hp x
      simp [List.filter_cons, h1]
    · simp only [List.filter_cons, filter_deleteFirst_other p k hp rest]

theorem lookupExact_setFirst_other {n k : Bytes} (v : JVal) (kvs : Obj) (h : k ≠ n) :
    lookupExact (EventParse.setFirst k v kvs) n = lookupExact kvs n := by
  rw [lookupExact_eq, lookupExact_eq, lastSome_filter, lastSome_filter,
    filter_setFirst_other _ k v (fun x => by simp [h]) kvs]

theorem lookupExact_deleteFirst_other {n k : Bytes} (kvs : Obj) (h : k ≠ n) :
    lookupExact (EventParse.deleteFirst k kvs) n = lookupExact kvs n := by
  rw [lookupExact_eq, lookupExact_eq, lastSome_filter, lastSome_filter,
    filter_deleteFirst_other _ k (fun x => by simp [h]) kvs]

/-- a key that is not the exact name of a field of the keep struct -/
def unlisted (a : Algo) (k : Bytes) : Bool := a.fields.all (fun f => !(f.name == k))

theorem redactWith_setFirst (a : Algo) (k : Bytes) (v : JVal) (kvs : Obj) (h : unlisted a k = true) :
    redactWith a (.obj (EventParse.setFirst k v kvs)) = redactWith a (.obj kvs) := by
  apply redactWith_congr
  intro f hf
  have := List.all_eq_true.mp h f hf
  exact lookupExact_setFirst_other v kvs (fun e => by simp [e] at this)

theorem redactWith_deleteFirst (a : Algo) (k : Bytes) (kvs : Obj) (h : unlisted a k = true) :
    redactWith a (.obj (EventParse.deleteFirst k kvs)) = redactWith a (.obj kvs) := by
  apply redactWith_congr
  intro f hf
  have := List.all_eq_true.mp h f hf
  exact lookupExact_deleteFirst_other kvs (fun e => by simp [e] at this)

end V.RedactProofs
