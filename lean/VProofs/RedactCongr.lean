/-
  VProofs.RedactCongr — a redaction depends only on the members its keep struct's fields select:
  editing, adding or removing members with other keys (e.g. `unsigned`) does not change it.
  Core Lean only.
-/
import VProofs.RedactExact
import VModel.EventParse
namespace V.RedactProofs
open V V.Json V.GoJson V.Redact

theorem marshalOk_congr (fs : List Field) (kvs kvs' : Obj)
    (h : ∀ f ∈ fs, lookupField kvs f.name = lookupField kvs' f.name) : marshalOk fs kvs = marshalOk fs kvs' := by
  unfold marshalOk
  induction fs with
  | nil => rfl
  | cons f rest ih =>
    simp only [List.all_cons]
    rw [h f List.mem_cons_self, ih (fun g hg => h g (List.mem_cons_of_mem _ hg))]

/-- `redactObj` only looks at the members that match one of the keep struct's fields. -/
theorem redactObj_congr (a : Algo) (kvs kvs' : Obj) (hsel : ∀ f ∈ a.fields, sel f.name kvs = sel f.name kvs') :
    redactObj a kvs = redactObj a kvs' := by
  have hl : ∀ f ∈ a.fields, lookupField kvs f.name = lookupField kvs' f.name := by
    intro f hf; rw [lookupField_sel, lookupField_sel, hsel f hf]
  unfold redactObj
  split
  · rfl
  · cases htf : typeField a.fields with
    | none => rfl
    | some tf =>
      cases hcf : contentField a.fields with
      | none => rfl
      | some cf =>
        have h1 : decType tf.name kvs = decType tf.name kvs' := by
          rw [decType_sel, decType_sel, hsel tf (typeField_mem htf).1]
        have h2 : decContent cf.name kvs = decContent cf.name kvs' := by
          rw [decContent_sel, decContent_sel, hsel cf (contentField_mem hcf).1]
        have h3 : marshalOk a.fields kvs = marshalOk a.fields kvs' := marshalOk_congr _ _ _ hl
        have h4 : ∀ ty nc, a.fields.flatMap (emitField kvs ty nc) = a.fields.flatMap (emitField kvs' ty nc) := by
          intro ty nc
          apply flatMap_congr'
          intro f hf
          unfold emitField
          rw [hl f hf]
        simp only [h1, h2, h3, h4]

/-! ## edits of members no field selects -/

theorem sel_setFirst_other (n k : Bytes) (v : JVal) (kvs : Obj) (h : matchesField k n = false) :
    sel n (EventParse.setFirst k v kvs) = sel n kvs := by
  induction kvs with
  | nil => simp [EventParse.setFirst, sel, h]
  | cons kv rest ih =>
    unfold EventParse.setFirst
    by_cases hk : kv.1 = k
    · have : (kv.1 == k) = true := by simp [hk]
      rw [if_pos this]
      simp only [sel, List.filter_cons, h]
      rw [hk, h]
      simp
    · have : (kv.1 == k) = false := by simp [hk]
      rw [if_neg (by simp [this])]
      simp only [sel, List.filter_cons]
      have ih' : List.filter (fun kv => matchesField kv.1 n) (EventParse.setFirst k v rest) =
          List.filter (fun kv => matchesField kv.1 n) rest := ih
      rw [ih']

theorem sel_deleteFirst_other (n k : Bytes) (kvs : Obj) (h : matchesField k n = false) :
    sel n (EventParse.deleteFirst k kvs) = sel n kvs := by
  induction kvs with
  | nil => rfl
  | cons kv rest ih =>
    unfold EventParse.deleteFirst
    by_cases hk : kv.1 = k
    · have : (kv.1 == k) = true := by simp [hk]
      rw [if_pos this]
      simp only [sel, List.filter_cons]
      rw [hk, h]
      simp
    · have : (kv.1 == k) = false := by simp [hk]
      rw [if_neg (by simp [this])]
      simp only [sel, List.filter_cons]
      have ih' : List.filter (fun kv => matchesField kv.1 n) (EventParse.deleteFirst k rest) =
          List.filter (fun kv => matchesField kv.1 n) rest := ih
      rw [ih']

/-- a key no field of the keep struct matches -/
def unselected (a : Algo) (k : Bytes) : Bool := a.fields.all (fun f => !matchesField k f.name)

theorem redactObj_setFirst (a : Algo) (k : Bytes) (v : JVal) (kvs : Obj) (h : unselected a k = true) :
    redactObj a (EventParse.setFirst k v kvs) = redactObj a kvs := by
  apply redactObj_congr
  intro f hf
  have := List.all_eq_true.mp h f hf
  exact sel_setFirst_other f.name k v kvs (by simpa using this)

theorem redactObj_deleteFirst (a : Algo) (k : Bytes) (kvs : Obj) (h : unselected a k = true) :
    redactObj a (EventParse.deleteFirst k kvs) = redactObj a kvs := by
  apply redactObj_congr
  intro f hf
  have := List.all_eq_true.mp h f hf
  exact sel_deleteFirst_other f.name k kvs (by simpa using this)

end V.RedactProofs
