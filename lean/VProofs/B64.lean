/- Helper lemmas about VModel.B64 (C17): one quantum, the alphabets, JSON string bodies. -/
import VModel.B64
set_option linter.unusedSimpArgs false
namespace V.B64


/-- an alphabet whose decoding table inverts its encoding table -/
def GoodAlphabet (α : List UInt8) : Prop := ∀ i : Fin 64, decChar α (encChar α i.val) = some i.val

theorem std_good : GoodAlphabet stdAlphabet := by unfold GoodAlphabet; decide +kernel
theorem url_good : GoodAlphabet urlAlphabet := by unfold GoodAlphabet; decide +kernel

theorem dec_enc {α : List UInt8} (h : GoodAlphabet α) {i : Nat} (hi : i < 64) : decChar α (encChar α i) = some i :=
  h ⟨i, hi⟩

theorem ofNat_toNat' (a : UInt8) {n : Nat} (h : n = a.toNat) : UInt8.ofNat n = a := by
  subst h; exact UInt8.ofNat_toNat

theorem decode_quantum {α : List UInt8} (h : GoodAlphabet α) {a b c d : Nat} (ha : a < 64) (hb : b < 64) (hc : c < 64)
    (hd : d < 64) (rest : BS) :
    decodeLoop α (encChar α a :: encChar α b :: encChar α c :: encChar α d :: rest) [] =
      (decodeLoop α rest []).map (quantum3 a b c d ++ ·) := by
  simp only [decodeLoop, dec_enc h ha, dec_enc h hb, dec_enc h hc, dec_enc h hd, List.nil_append, List.cons_append]
  cases decodeLoop α rest [] <;> rfl

theorem decode_encode_with {α : List UInt8} (h : GoodAlphabet α) : ∀ bs : BS, decodeWith α (encodeWith α bs) = some bs := by
  intro bs
  unfold decodeWith
  induction bs using encodeWith.induct with
  | case1 => simp [encodeWith, decodeLoop]
  | case2 a =>
    have ha := a.toNat_lt
    have h1 : a.toNat / 4 < 64 := by omega
    have h2 : a.toNat % 4 * 16 < 64 := by omega
    simp only [encodeWith, decodeLoop, dec_enc h h1, dec_enc h h2, List.nil_append, List.cons_append]
    congr 2
    exact ofNat_toNat' a (by omega)
  | case3 a b =>
    have ha := a.toNat_lt
    have hb := b.toNat_lt
    have h1 : a.toNat / 4 < 64 := by omega
    have h2 : a.toNat % 4 * 16 + b.toNat / 16 < 64 := by omega
    have h3 : b.toNat % 16 * 4 < 64 := by omega
    simp only [encodeWith, decodeLoop, dec_enc h h1, dec_enc h h2, dec_enc h h3, List.nil_append, List.cons_append]
    congr 2
    · exact ofNat_toNat' a (by omega)
    · congr 1; exact ofNat_toNat' b (by omega)
  | case4 a b c rest ih =>
    have ha := a.toNat_lt
    have hb := b.toNat_lt
    have hc := c.toNat_lt
    have h1 : a.toNat / 4 < 64 := by omega
    have h2 : a.toNat % 4 * 16 + b.toNat / 16 < 64 := by omega
    have h3 : b.toNat % 16 * 4 + c.toNat / 64 < 64 := by omega
    have h4 : c.toNat % 64 < 64 := by omega
    rw [encodeWith, decode_quantum h h1 h2 h3 h4, ih]
    simp only [quantum3, List.cons_append, List.nil_append, Option.map_some]
    congr 2
    · exact ofNat_toNat' a (by omega)
    · congr 1
      · exact ofNat_toNat' b (by omega)
      · congr 1; exact ofNat_toNat' c (by omega)

theorem encodeWith_chars (α : List UInt8) : ∀ bs : BS, ∀ c ∈ encodeWith α bs, ∃ i : Fin 64, c = encChar α i.val := by
  intro bs
  induction bs using encodeWith.induct with
  | case1 => simp [encodeWith]
  | case2 a =>
    have ha := a.toNat_lt
    intro c hc
    simp only [encodeWith, List.mem_cons, List.not_mem_nil, or_false] at hc
    rcases hc with rfl | rfl
    · exact ⟨⟨a.toNat / 4, by omega⟩, rfl⟩
    · exact ⟨⟨a.toNat % 4 * 16, by omega⟩, rfl⟩
  | case3 a b =>
    have ha := a.toNat_lt
    have hb := b.toNat_lt
    intro c hc
    simp only [encodeWith, List.mem_cons, List.not_mem_nil, or_false] at hc
    rcases hc with rfl | rfl | rfl
    · exact ⟨⟨a.toNat / 4, by omega⟩, rfl⟩
    · exact ⟨⟨a.toNat % 4 * 16 + b.toNat / 16, by omega⟩, rfl⟩
    · exact ⟨⟨b.toNat % 16 * 4, by omega⟩, rfl⟩
  | case4 a b c rest ih =>
    have ha := a.toNat_lt
    have hb := b.toNat_lt
    have hc' := c.toNat_lt
    intro x hx
    rw [encodeWith] at hx
    simp only [List.mem_cons] at hx
    rcases hx with rfl | rfl | rfl | rfl | hx
    · exact ⟨⟨a.toNat / 4, by omega⟩, rfl⟩
    · exact ⟨⟨a.toNat % 4 * 16 + b.toNat / 16, by omega⟩, rfl⟩
    · exact ⟨⟨b.toNat % 16 * 4 + c.toNat / 64, by omega⟩, rfl⟩
    · exact ⟨⟨c.toNat % 64, by omega⟩, rfl⟩
    · exact ih x hx

def isUrlMark (c : UInt8) : Bool := c == 0x2D || c == 0x5F

theorem std_no_url_marks : ∀ i : Fin 64, isUrlMark (encChar stdAlphabet i.val) = false := by decide +kernel

theorem url_agrees_std : ∀ i : Fin 64, isUrlMark (encChar urlAlphabet i.val) = false →
    decChar stdAlphabet (encChar urlAlphabet i.val) = decChar urlAlphabet (encChar urlAlphabet i.val) := by decide +kernel

theorem decodeLoop_congr {α β : List UInt8} : ∀ (s : BS) (acc : List Nat),
    (∀ c ∈ s, decChar α c = decChar β c) → decodeLoop α s acc = decodeLoop β s acc
  | [], acc, _ => by simp [decodeLoop]
  | ch :: rest, acc, h => by
    have h0 := h ch (List.mem_cons_self ..)
    have ih := fun acc' => decodeLoop_congr rest acc' (fun c hc => h c (List.mem_cons_of_mem _ hc))
    unfold decodeLoop
    rw [h0]
    simp only [ih]


def plainJSONChar (c : UInt8) : Bool := !(c == 0x22) && !(c < 0x20) && !(c == 0x5C)

theorem jsonStringBody_plain : ∀ (s r : BS), s.all plainJSONChar = true → jsonStringBody (s ++ 0x22 :: r) = some (s, r)
  | [], r, _ => by rw [List.nil_append]; unfold jsonStringBody; simp
  | c :: cs, r, h => by
    simp only [List.all_cons, Bool.and_eq_true] at h
    obtain ⟨hc, hcs⟩ := h
    unfold plainJSONChar at hc
    simp only [Bool.and_eq_true, Bool.not_eq_true', beq_eq_false_iff_ne, decide_eq_false_iff_not] at hc
    have ih := jsonStringBody_plain cs r hcs
    simp only [List.cons_append]
    unfold jsonStringBody
    simp [hc.1.1, hc.1.2, hc.2, ih]

theorem std_plain : ∀ i : Fin 64, plainJSONChar (encChar stdAlphabet i.val) = true := by decide +kernel


end V.B64
