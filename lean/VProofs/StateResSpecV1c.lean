/-
  C10, version 1: the result the definition `V1Resolves` determines does not depend on the order in which the
  conflicted events (hence the blocks of a phase) are presented — a theorem of the definition since every block
  leaves the registered auth events as it found them (`afterBlock`).  Uses the C11 development (StateResV1*.lean:
  verdicts depend on the registered events only through slot lookups; `v1_perm_invariant`).  Core only.
-/
import VProofs.StateResSpecV1b
import VProofs.StateResV1f
namespace V.StateResSpec
open V Json List
open V.StateRes (ID resolveV1 v1_perm_invariant SameSet)

/-- the model's result is the same set of events for every presentation of the conflicted events
    (`P1`: one supplied auth event per slot; `hk`: no two conflicted events tie on (depth, SHA-1)) -/
theorem resolveV1_perm (sha : ID → Bytes) {l₁ l₂ auth : List Event} (hp : l₁ ~ l₂)
    (P1 : ∀ a ∈ auth, ∀ b ∈ auth, a.stateKey.isSome → V.StateRes.keyOf a = V.StateRes.keyOf b → b.stateKey.isSome → a = b)
    (hk : ∀ a ∈ l₁, ∀ b ∈ l₁, v1Key sha a = v1Key sha b → a = b) :
    resolveV1 sha l₁ auth ~ resolveV1 sha l₂ auth := by
  refine v1_perm_invariant sha hp (SameSet.refl auth) P1 ?_
  intro a ha b hb _ _ _ hd hs
  apply hk a ha b hb
  unfold v1Key
  rw [hd, hs]

/-- **The version-1 definition is independent of the block order**: two runs of the definition on two presentations
    of the same conflicted events pick the same events. -/
theorem V1Resolves.perm_invariant {sha : ID → Bytes} {l₁ l₂ auth r₁ r₂ : List Event} (hp : l₁ ~ l₂)
    (P1 : ∀ a ∈ auth, ∀ b ∈ auth, a.stateKey.isSome → V.StateRes.keyOf a = V.StateRes.keyOf b → b.stateKey.isSome → a = b)
    (hk : ∀ a ∈ l₁, ∀ b ∈ l₁, v1Key sha a = v1Key sha b → a = b)
    (h1 : V1Resolves sha l₁ auth r₁) (h2 : V1Resolves sha l₂ auth r₂) : r₁ ~ r₂ := by
  have hk2 : ∀ a ∈ l₂, ∀ b ∈ l₂, v1Key sha a = v1Key sha b → a = b :=
    fun a ha b hb => hk a (hp.mem_iff.mpr ha) b (hp.mem_iff.mpr hb)
  rw [resolveV1_unique hk h1, resolveV1_unique hk2 h2]
  exact resolveV1_perm sha hp P1 hk

end V.StateResSpec
