/-
  VProofs.FedCheck — helper lemmas for C14: association-list lookups, the retry loop of
  checkAllowedByAuthEvents under the provider contract, extension of the `eventsByID` map.
  Core Lean only.
-/
import VModel.FedCheck
import VModel.FedCheckSpec
namespace V.FedCheck
open V

/-! ## The provider contract -/

/-- "EventProvider returns the requested list of events": asked for ONE id it fails, returns nothing, or
    returns exactly one event, which carries that id. -/
def ProvOK (prov : Option EventProvider) : Prop :=
  ∀ p, prov = some p → ∀ id, p [id] = .error ∨ p [id] = .events [] ∨ ∃ e, p [id] = .events [e] ∧ e.eventID = id

/-- `AddEvent` of the event just added changes nothing (true of `AuthEvents`: same (type, state_key) slot,
    same room ID) -/
def AddIdem {P} (O : Oracles P) : Prop := ∀ p a, O.add (O.add p a) a = O.add p a

theorem lookup_cons_self {β} (k : Bytes) (v : β) (m : List (Bytes × β)) : ((k, v) :: m).lookup k = some v := by
  simp [List.lookup]

theorem lookup_cons_ne {β} {k id : Bytes} (v : β) (m : List (Bytes × β)) (h : id ≠ k) :
    ((k, v) :: m).lookup id = m.lookup id := by
  have : (id == k) = false := by simpa using h
  simp [List.lookup, this]

/-! ## One auth event ID under the contract -/

/-- what the retry loop amounts to under the contract -/
def stepC {P} (O : Oracles P) (prov : Option EventProvider) (ae : Bytes) (m : IdMap) (acc : P) (log : Log) : Step P :=
  match m.lookup ae with
  | some (some a) => if a.stateKey.isSome then .next m (O.add acc a) log else .fail m log
  | some none => .next m acc log
  | none =>
    match prov with
    | none => .next m acc log
    | some _ =>
      .next ((ae, Spec.provided prov ae) :: m)
        (match Spec.provided prov ae with
         | some a => O.add acc a
         | none => acc)
        (log ++ [.events [ae]])

theorem retryAE_found_some {P} (O : Oracles P) (prov : Option EventProvider) (ae : Bytes) (n : Nat) (m : IdMap) (acc : P) (log : Log)
    (a : Event) (h : m.lookup ae = some (some a)) :
    retryAE O prov ae (n + 1) m acc log = if a.stateKey.isSome then .next m (O.add acc a) log else .fail m log := by
  unfold retryAE
  simp only [h]

theorem retryAE_found_nil {P} (O : Oracles P) (prov : Option EventProvider) (ae : Bytes) (n : Nat) (m : IdMap) (acc : P) (log : Log)
    (h : m.lookup ae = some none) :
    retryAE O prov ae (n + 1) m acc log = .next m acc log := by
  unfold retryAE
  simp only [h]

theorem ensureKey_lookup (ae : Bytes) (m : IdMap) : ∃ v, (ensureKey ae m).lookup ae = some v := by
  unfold ensureKey
  cases h : m.lookup ae with
  | none => exact ⟨none, lookup_cons_self ae none m⟩
  | some v => exact ⟨v, h⟩

/-- once the requested ID is bound the retry loop leaves at once -/
theorem retryAE_bound_terminates {P} (O : Oracles P) (prov : Option EventProvider) (ae : Bytes) (n : Nat) (m : IdMap) (acc : P) (log : Log)
    (v : Option Event) (h : m.lookup ae = some v) :
    ∀ m' log', retryAE O prov ae (n + 1) m acc log ≠ .outOfFuel m' log' := by
  intro m' log'
  cases v with
  | none => rw [retryAE_found_nil O prov ae n m acc log h]; intro h'; cases h'
  | some a =>
    rw [retryAE_found_some O prov ae n m acc log a h]
    split <;> (intro h'; cases h')

/-- The `goto retryEvent` loop terminates for EVERY provider: it jumps back at most once (fuel 2 suffices). -/
theorem retryAE_terminates {P} (O : Oracles P) (prov : Option EventProvider) (ae : Bytes) (n : Nat) (m : IdMap) (acc : P) (log : Log) :
    ∀ m' log', retryAE O prov ae (n + 2) m acc log ≠ .outOfFuel m' log' := by
  intro m' log'
  cases hl : m.lookup ae with
  | some v => exact retryAE_bound_terminates O prov ae (n + 1) m acc log v hl m' log'
  | none =>
    unfold retryAE
    simp only [hl]
    cases prov with
    | none => intro h; cases h
    | some p =>
      simp only
      cases hp : p [ae] with
      | error =>
        simp only
        exact retryAE_bound_terminates O (some p) ae n _ acc _ none (lookup_cons_self ae none m) m' log'
      | events es =>
        cases es with
        | nil =>
          simp only
          exact retryAE_bound_terminates O (some p) ae n _ acc _ none (lookup_cons_self ae none m) m' log'
        | cons e es =>
          simp only
          obtain ⟨v, hv⟩ := ensureKey_lookup ae (addProvided O (e :: es) m acc).1
          exact retryAE_bound_terminates O (some p) ae n _ _ _ v hv m' log'

/-- Fuel 2 suffices when the provider answers with the requested event or nothing. -/
theorem retryAE_eq_stepC {P} (O : Oracles P) (hidem : AddIdem O) (prov : Option EventProvider) (hprov : ProvOK prov)
    (ae : Bytes) (n : Nat) (m : IdMap) (acc : P) (log : Log) :
    retryAE O prov ae (n + 2) m acc log = stepC O prov ae m acc log := by
  unfold stepC
  cases hl : m.lookup ae with
  | some v =>
    cases v with
    | none => rw [retryAE_found_nil O prov ae (n + 1) m acc log hl]
    | some a => rw [retryAE_found_some O prov ae (n + 1) m acc log a hl]
  | none =>
    unfold retryAE
    simp only [hl]
    cases hp : prov with
    | none => rfl
    | some p =>
      simp only
      have hc := hprov p hp ae
      rcases hc with he | he | ⟨e, he, hid⟩
      · simp only [he]
        rw [retryAE_found_nil O (some p) ae n _ acc _ (lookup_cons_self ae none m)]
        simp [Spec.provided, he]
      · simp only [he]
        rw [retryAE_found_nil O (some p) ae n _ acc _ (lookup_cons_self ae none m)]
        simp [Spec.provided, he]
      · simp only [he, addProvided]
        subst hid
        cases hsk : e.stateKey.isSome
        · simp only [Bool.false_eq_true, if_false, ensureKey, lookup_cons_self]
          rw [retryAE_found_nil O (some p) e.eventID n _ _ _ (lookup_cons_self e.eventID none m)]
          simp [Spec.provided, he, hsk]
        · simp only [if_true, ensureKey, lookup_cons_self]
          rw [retryAE_found_some O (some p) e.eventID n _ _ _ e (lookup_cons_self e.eventID (some e) m)]
          simp [Spec.provided, he, hsk, hidem acc e]

/-! ## Extension of the map, resolution through the map -/

/-- `m'` extends `m` by binding absent keys among `D` to what the provider supplies for them -/
structure Ext (prov : Option EventProvider) (D : Bytes → Prop) (m m' : IdMap) : Prop where
  keep : ∀ id v, m.lookup id = some v → m'.lookup id = some v
  new : ∀ id v, m'.lookup id = some v → m.lookup id = some v ∨ (m.lookup id = none ∧ v = Spec.provided prov id ∧ D id)

/-- how an ID resolves given the map and the provider -/
def resM (prov : Option EventProvider) (m : IdMap) (id : Bytes) : Option Event :=
  match m.lookup id with
  | some v => v
  | none => Spec.provided prov id

/-- the map binds `id` to an event that `AddEvent` refuses -/
def badIn (m : IdMap) (id : Bytes) : Bool :=
  match m.lookup id with
  | some (some a) => a.stateKey.isNone
  | _ => false

theorem provided_stateKey {prov : Option EventProvider} {id : Bytes} {e : Event} (h : Spec.provided prov id = some e) :
    e.stateKey.isSome = true := by
  unfold Spec.provided at h
  split at h
  · cases h
  · split at h
    · split at h
      · cases h; assumption
      · cases h
    · cases h

theorem Ext.refl (prov : Option EventProvider) (D : Bytes → Prop) (m : IdMap) : Ext prov D m m :=
  ⟨fun _ _ h => h, fun _ _ h => Or.inl h⟩

theorem Ext.mono {prov : Option EventProvider} {D D' : Bytes → Prop} {m m' : IdMap} (h : Ext prov D m m') (hD : ∀ id, D id → D' id) :
    Ext prov D' m m' := by
  refine ⟨h.keep, fun id v hv => ?_⟩
  rcases h.new id v hv with h1 | ⟨h1, h2, h3⟩
  · exact Or.inl h1
  · exact Or.inr ⟨h1, h2, hD id h3⟩

theorem Ext.trans {prov : Option EventProvider} {D : Bytes → Prop} {m1 m2 m3 : IdMap} (h12 : Ext prov D m1 m2) (h23 : Ext prov D m2 m3) :
    Ext prov D m1 m3 := by
  refine ⟨fun id v h => h23.keep id v (h12.keep id v h), fun id v h => ?_⟩
  rcases h23.new id v h with h2 | ⟨h2, hv, hd⟩
  · exact h12.new id v h2
  · cases h1 : m1.lookup id with
    | none => exact Or.inr ⟨rfl, hv, hd⟩
    | some w =>
      have := h12.keep id w h1
      rw [h2] at this
      cases this

theorem Ext.resM {prov : Option EventProvider} {D : Bytes → Prop} {m m' : IdMap} (h : Ext prov D m m') (id : Bytes) :
    resM prov m' id = resM prov m id := by
  unfold FedCheck.resM
  cases h1 : m.lookup id with
  | some v => rw [h.keep id v h1]
  | none =>
    cases h2 : m'.lookup id with
    | none => rfl
    | some v =>
      rcases h.new id v h2 with h3 | ⟨_, hv, _⟩
      · rw [h1] at h3; cases h3
      · simp [hv]

theorem Ext.badIn {prov : Option EventProvider} {D : Bytes → Prop} {m m' : IdMap} (h : Ext prov D m m') (id : Bytes) :
    badIn m' id = badIn m id := by
  unfold FedCheck.badIn
  cases h1 : m.lookup id with
  | some v => rw [h.keep id v h1]
  | none =>
    cases h2 : m'.lookup id with
    | none => rfl
    | some v =>
      rcases h.new id v h2 with h3 | ⟨_, hv, _⟩
      · rw [h1] at h3; cases h3
      · cases v with
        | none => rfl
        | some a =>
          have := provided_stateKey hv.symm
          simp only
          cases hsk : a.stateKey <;> simp_all

theorem ext_cons {prov : Option EventProvider} {D : Bytes → Prop} {m : IdMap} {ae : Bytes} (h : m.lookup ae = none) (hd : D ae) :
    Ext prov D m ((ae, Spec.provided prov ae) :: m) := by
  refine ⟨fun id v hv => ?_, fun id v hv => ?_⟩
  · by_cases hid : id = ae
    · subst hid; rw [h] at hv; cases hv
    · rw [lookup_cons_ne _ _ hid]; exact hv
  · by_cases hid : id = ae
    · subst hid
      rw [lookup_cons_self] at hv
      cases hv
      exact Or.inr ⟨h, rfl, hd⟩
    · rw [lookup_cons_ne _ _ hid] at hv
      exact Or.inl hv

/-- the accumulator after one ID -/
def accStep {P} (O : Oracles P) (res : Bytes → Option Event) (acc : P) (id : Bytes) : P :=
  match res id with
  | some a => O.add acc a
  | none => acc

theorem stepC_spec {P} (O : Oracles P) (prov : Option EventProvider) (ae : Bytes) (m : IdMap) (acc : P) (log : Log) :
    (badIn m ae = true → ∃ log', stepC O prov ae m acc log = .fail m log') ∧
    (badIn m ae = false → ∃ m' log', stepC O prov ae m acc log = .next m' (accStep O (resM prov m) acc ae) log' ∧ Ext prov (· = ae) m m') := by
  unfold stepC FedCheck.badIn accStep FedCheck.resM
  cases hl : m.lookup ae with
  | some v =>
    cases v with
    | none => exact ⟨fun h => by simp at h, fun _ => ⟨m, log, rfl, Ext.refl prov _ m⟩⟩
    | some a =>
      cases hs : a.stateKey with
      | none =>
        refine ⟨fun _ => ⟨log, by simp [hs]⟩, fun h => ?_⟩
        simp [hs] at h
      | some sk =>
        refine ⟨fun h => ?_, fun _ => ⟨m, log, by simp [hs], Ext.refl prov _ m⟩⟩
        simp [hs] at h
  | none =>
    refine ⟨fun h => by simp at h, fun _ => ?_⟩
    cases hp : prov with
    | none => exact ⟨m, log, by simp [Spec.provided], Ext.refl none _ m⟩
    | some p => exact ⟨_, _, rfl, ext_cons hl rfl⟩

/-- the accumulator after a list of IDs -/
theorem foldl_accStep_eq_authOf {P} (O : Oracles P) (res : Bytes → Option Event) (e : Event) :
    e.authEventIDs.foldl (accStep O res) O.empty = Spec.authOf O res e := rfl

theorem foldl_accStep_congr {P} (O : Oracles P) (r1 r2 : Bytes → Option Event) (h : ∀ id, r1 id = r2 id) (ids : List Bytes) (acc : P) :
    ids.foldl (accStep O r1) acc = ids.foldl (accStep O r2) acc := by
  have : r1 = r2 := funext h
  rw [this]

/-- The whole `for _, ae := range event.AuthEventIDs()` loop, given that with this fuel every retry loop
    behaves as `stepC` (true with fuel ≥ 2 under the provider contract, with fuel ≥ 1 without a provider). -/
theorem loopAE_of_step {P} (O : Oracles P) (prov : Option EventProvider) (fuel : Nat)
    (hstep : ∀ ae m acc log, retryAE O prov ae fuel m acc log = stepC O prov ae m acc log)
    (ids : List Bytes) (m : IdMap) (acc : P) (log : Log) :
    (ids.any (badIn m) = true → ∃ m' log', loopAE O prov fuel ids m acc log = .fail m' log' ∧ Ext prov (· ∈ ids) m m') ∧
    (ids.any (badIn m) = false → ∃ m' log', loopAE O prov fuel ids m acc log =
        .next m' (ids.foldl (accStep O (resM prov m)) acc) log' ∧ Ext prov (· ∈ ids) m m') := by
  induction ids generalizing m acc log with
  | nil => exact ⟨fun h => by simp at h, fun _ => ⟨m, log, rfl, Ext.refl prov _ m⟩⟩
  | cons ae rest ih =>
    unfold loopAE
    rw [hstep]
    obtain ⟨hbad, hgood⟩ := stepC_spec O prov ae m acc log
    cases hb : badIn m ae
    · obtain ⟨m1, log1, hs, hext⟩ := hgood hb
      rw [hs]
      simp only [List.any_cons, hb, Bool.false_or, List.foldl_cons]
      obtain ⟨ih1, ih2⟩ := ih m1 (accStep O (resM prov m) acc ae) log1
      have hany : rest.any (badIn m1) = rest.any (badIn m) := by
        congr 1; funext id; exact hext.badIn id
      have hext' : Ext prov (· ∈ ae :: rest) m m1 := hext.mono (fun id h => by simp [h])
      have hmono : ∀ {m2}, Ext prov (· ∈ rest) m1 m2 → Ext prov (· ∈ ae :: rest) m1 m2 :=
        fun h => h.mono (fun id h => List.mem_cons_of_mem _ h)
      refine ⟨fun h => ?_, fun h => ?_⟩
      · obtain ⟨m2, log2, h2, he2⟩ := ih1 (by rw [hany]; exact h)
        exact ⟨m2, log2, h2, hext'.trans (hmono he2)⟩
      · obtain ⟨m2, log2, h2, he2⟩ := ih2 (by rw [hany]; exact h)
        refine ⟨m2, log2, ?_, hext'.trans (hmono he2)⟩
        rw [h2, foldl_accStep_congr O (resM prov m1) (resM prov m) hext.resM]
    · obtain ⟨log1, hs⟩ := hbad hb
      rw [hs]
      simp only [List.any_cons, hb, Bool.true_or]
      exact ⟨fun _ => ⟨m, log1, rfl, Ext.refl prov _ m⟩, fun h => by simp at h⟩

/-- without an EventProvider the retry label is never taken: one unit of fuel suffices -/
theorem retryAE_none_eq_stepC {P} (O : Oracles P) (ae : Bytes) (n : Nat) (m : IdMap) (acc : P) (log : Log) :
    retryAE O none ae (n + 1) m acc log = stepC O none ae m acc log := by
  unfold stepC retryAE
  cases hl : m.lookup ae with
  | some v => cases v <;> rfl
  | none => rfl

/-- the verdict of checkAllowedByAuthEvents as a function of the map at entry -/
def caVerdict {P} (O : Oracles P) (prov : Option EventProvider) (e : Event) (m : IdMap) : CAOut :=
  if e.authEventIDs.any (badIn m) then .addErr
  else if O.allowedBy e (Spec.authOf O (resM prov m) e) then .ok else .notAllowed

theorem checkAllowed_of_step {P} (O : Oracles P) (prov : Option EventProvider) (fuel : Nat)
    (hstep : ∀ ae m acc log, retryAE O prov ae fuel m acc log = stepC O prov ae m acc log)
    (e : Event) (m : IdMap) (log : Log) :
    ∃ m' log', checkAllowed O prov fuel e m log = (caVerdict O prov e m, m', log') ∧ Ext prov (· ∈ e.authEventIDs) m m' := by
  unfold checkAllowed caVerdict
  obtain ⟨h1, h2⟩ := loopAE_of_step O prov fuel hstep e.authEventIDs m O.empty log
  cases hb : e.authEventIDs.any (badIn m)
  · obtain ⟨m', log', hl, hext⟩ := h2 hb
    rw [hl, foldl_accStep_eq_authOf]
    exact ⟨m', log', by simp, hext⟩
  · obtain ⟨m', log', hl, hext⟩ := h1 hb
    rw [hl]
    exact ⟨m', log', by simp, hext⟩

/-- checkAllowedByAuthEvents under the provider contract (fuel 2 suffices) -/
theorem checkAllowed_contract {P} (O : Oracles P) (hidem : AddIdem O) (prov : Option EventProvider) (hprov : ProvOK prov) (n : Nat)
    (e : Event) (m : IdMap) (log : Log) :
    ∃ m' log', checkAllowed O prov (n + 2) e m log = (caVerdict O prov e m, m', log') ∧ Ext prov (· ∈ e.authEventIDs) m m' :=
  checkAllowed_of_step O prov (n + 2) (fun ae m acc log => retryAE_eq_stepC O hidem prov hprov ae n m acc log) e m log

/-- checkAllowedByAuthEvents without an EventProvider (fuel 1 suffices) -/
theorem checkAllowed_noProvider {P} (O : Oracles P) (n : Nat) (e : Event) (m : IdMap) (log : Log) :
    ∃ m' log', checkAllowed O none (n + 1) e m log = (caVerdict O none e m, m', log') ∧ Ext none (· ∈ e.authEventIDs) m m' :=
  checkAllowed_of_step O none (n + 1) (fun ae m acc log => retryAE_none_eq_stepC O ae n m acc log) e m log

theorem caVerdict_ext {P} (O : Oracles P) {prov : Option EventProvider} {D : Bytes → Prop} {m m' : IdMap} (h : Ext prov D m m') (e : Event) :
    caVerdict O prov e m' = caVerdict O prov e m := by
  unfold caVerdict
  have h1 : e.authEventIDs.any (badIn m') = e.authEventIDs.any (badIn m) := by
    congr 1; funext id; exact h.badIn id
  have h2 : Spec.authOf O (resM prov m') e = Spec.authOf O (resM prov m) e := by
    have : resM prov m' = resM prov m := funext h.resM
    rw [this]
  rw [h1, h2]

end V.FedCheck
