/- Helper lemmas (C17): the model of Go's dotted-quad parser accepts exactly the specification's IPv4 texts. -/
import VProofs.Ident
set_option linter.unusedSimpArgs false

namespace V.Ident

/-- the digits of the current octet read so far are a good prefix -/
def goodPrefix (cur : BS) : Prop :=
  cur.all isDigit = true ∧ (cur.length ≥ 2 → cur.head? ≠ some 0x30) ∧ cur.foldl stepDec 0 ≤ 255

/-- what `prev` must be for a given ghost state -/
def prevOf (cur fields : BS) : Option UInt8 :=
  match cur.getLast? with
  | some d => some d
  | none => if fields.isEmpty then none else some 0x2E

theorem foldl_stepDec_append (a b : BS) (n : Nat) : (a ++ b).foldl stepDec n = b.foldl stepDec (a.foldl stepDec n) := by
  simp [List.foldl_append]

theorem isOctet_iff (o : BS) : Spec.isOctet o = true ↔
    o ≠ [] ∧ o.all isDigit = true ∧ (o.length = 1 ∨ o.head? ≠ some 0x30) ∧ o.foldl stepDec 0 ≤ 255 := by
  unfold Spec.isOctet
  rw [all_digit_eq, decValue_eq]
  simp only [Bool.and_eq_true, Bool.or_eq_true, Bool.not_eq_true', List.isEmpty_eq_false_iff, beq_iff_eq,
    decide_eq_true_eq, bne_iff_ne, ne_eq]
  constructor
  · rintro ⟨⟨⟨h1, h2⟩, h3⟩, h4⟩; exact ⟨h1, h2, h3, h4⟩
  · rintro ⟨h1, h2, h3, h4⟩; exact ⟨⟨⟨h1, h2⟩, h3⟩, h4⟩


theorem splitOn_cons_sep (sep : UInt8) (cs : BS) : Spec.splitOn sep (sep :: cs) = [] :: Spec.splitOn sep cs := by
  simp [Spec.splitOn]

theorem splitOn_cons_ne {sep c : UInt8} {cs f : BS} {fs : List BS} (hc : (c == sep) = false)
    (h : Spec.splitOn sep cs = f :: fs) : Spec.splitOn sep (c :: cs) = (c :: f) :: fs := by
  simp [Spec.splitOn, hc, h]

theorem splitOn_exists (sep : UInt8) (s : BS) : ∃ f fs, Spec.splitOn sep s = f :: fs := by
  cases h : Spec.splitOn sep s with
  | nil => exact absurd h (splitOn_ne_nil sep s)
  | cons f fs => exact ⟨f, fs, rfl⟩

set_option maxRecDepth 100000 in
theorem digit_facts (c : UInt8) : isDigit c = true → c ≠ 0x2E ∧ (c.toNat - 0x30 = 0 ↔ c = 0x30) ∧ c.toNat - 0x30 ≤ 9 := by
  revert c; apply forall_uint8; decide +kernel

theorem isOctet_of_goodPrefix {cur : BS} (hg : goodPrefix cur) (hcur : cur ≠ []) : Spec.isOctet cur = true := by
  rw [isOctet_iff]
  refine ⟨hcur, hg.1, ?_, hg.2.2⟩
  cases cur with
  | nil => exact absurd rfl hcur
  | cons a as =>
    cases as with
    | nil => left; rfl
    | cons b bs => right; exact hg.2.1 (by simp)

theorem isOctet_nil : Spec.isOctet [] = false := by decide

theorem ipv4Loop_iff : ∀ (s cur fields : BS) (prev : Option UInt8),
    goodPrefix cur → fields.length ≤ 3 → (prev.isNone || prev == some 0x2E) = cur.isEmpty →
    (cur = [] → fields ≠ [] → s ≠ []) →
    ((ipv4Loop s prev (cur.foldl stepDec 0) cur.length fields).isSome = true ↔
      ∃ f0 fs, Spec.splitOn 0x2E s = f0 :: fs ∧ Spec.isOctet (cur ++ f0) = true ∧
        (∀ g ∈ fs, Spec.isOctet g = true) ∧ fields.length + 1 + fs.length = 4)
  | [], cur, fields, prev, hg, hf, hprev, hne => by
    unfold ipv4Loop
    simp only [Spec.splitOn, List.cons.injEq, List.append_nil]
    constructor
    · intro h
      split at h
      · simp at h
      · rename_i hlt
        have hcur : cur ≠ [] := by
          intro hc
          have : fields ≠ [] := by intro hf'; rw [hf'] at hlt; simp at hlt
          exact hne hc this rfl
        refine ⟨[], [], ⟨rfl, rfl⟩, ?_, by simp, by simp; omega⟩
        rw [List.append_nil, isOctet_iff]
        refine ⟨hcur, hg.1, ?_, hg.2.2⟩
        cases cur with
        | nil => exact absurd rfl hcur
        | cons a as =>
          cases as with
          | nil => left; rfl
          | cons b bs => right; exact hg.2.1 (by simp)
    · rintro ⟨f0, fs, ⟨rfl, rfl⟩, _, _, hcount⟩
      simp at hcount
      have : ¬ fields.length < 3 := by omega
      simp [this]
  | c :: rest, cur, fields, prev, hg, hf, hprev, hne => by
    obtain ⟨g0, gs, hsp⟩ := splitOn_exists 0x2E rest
    unfold ipv4Loop
    by_cases hd : isDigit c = true
    · -- a digit continues the current octet
      obtain ⟨hnd, hz, h9⟩ := digit_facts c hd
      have hcd : (c == 0x2E) = false := by simpa using hnd
      simp only [hd, if_true]
      rw [splitOn_cons_ne hcd hsp]
      simp only [List.cons.injEq]
      by_cases hlz : (cur.length == 1 && cur.foldl stepDec 0 == 0) = true
      · -- leading zero
        simp only [hlz, if_true, Option.isSome_none, Bool.false_eq_true, false_iff]
        rintro ⟨f0, fs, ⟨rfl, rfl⟩, hoct, -, -⟩
        rw [isOctet_iff] at hoct
        simp only [Bool.and_eq_true, beq_iff_eq] at hlz
        obtain ⟨hl1, hv0⟩ := hlz
        cases cur with
        | nil => simp at hl1
        | cons a as =>
          cases as with
          | cons _ _ => simp at hl1
          | nil =>
            have ha : isDigit a = true := by have := hg.1; simpa using this
            have : a = 0x30 := by
              simp only [List.foldl_cons, List.foldl_nil, stepDec] at hv0
              exact (digit_facts a ha).2.1.mp (by omega)
            subst this
            rcases hoct.2.2.1 with h | h
            · simp at h
            · simp at h
      · simp only [hlz, Bool.false_eq_true, if_false]
        by_cases hbig : cur.foldl stepDec 0 * 10 + (c.toNat - 0x30) > 255
        · simp only [hbig, if_true, Option.isSome_none, Bool.false_eq_true, false_iff]
          rintro ⟨f0, fs, ⟨rfl, rfl⟩, hoct, -, -⟩
          rw [isOctet_iff] at hoct
          have := hoct.2.2.2
          rw [foldl_stepDec_append, List.foldl_cons] at this
          have h2 := foldl_stepDec_ge g0 (stepDec (List.foldl stepDec 0 cur) c)
          have e : stepDec (List.foldl stepDec 0 cur) c = List.foldl stepDec 0 cur * 10 + (c.toNat - 0x30) := rfl
          omega
        · simp only [hbig, if_false]
          have hcur' : (cur ++ [c]).foldl stepDec 0 = cur.foldl stepDec 0 * 10 + (c.toNat - 0x30) := by
            rw [foldl_stepDec_append]; rfl
          have hlen' : (cur ++ [c]).length = cur.length + 1 := by simp
          have hg' : goodPrefix (cur ++ [c]) := by
            refine ⟨by simp [hg.1, hd], ?_, by rw [hcur']; omega⟩
            intro hl
            cases cur with
            | nil => simp at hl
            | cons a as =>
              cases as with
              | cons b bs => simpa using hg.2.1 (by simp)
              | nil =>
                simp only [List.cons_append, List.head?_cons, ne_eq, Option.some.injEq]
                intro ha0
                subst ha0
                apply hlz
                simp [stepDec]
          have ih := ipv4Loop_iff rest (cur ++ [c]) fields (some c) hg' hf (by simp [hcd]) (by simp)
          rw [hcur', hlen'] at ih
          rw [ih, hsp]
          simp only [List.cons.injEq, List.append_assoc, List.cons_append, List.nil_append]
          constructor
          · rintro ⟨f0, fs, ⟨rfl, rfl⟩, h1, h2, h3⟩
            exact ⟨c :: g0, gs, ⟨rfl, rfl⟩, h1, h2, h3⟩
          · rintro ⟨f0, fs, ⟨rfl, rfl⟩, h1, h2, h3⟩
            exact ⟨g0, gs, ⟨rfl, rfl⟩, h1, h2, h3⟩
    · simp only [hd, Bool.false_eq_true, if_false]
      by_cases hdot : (c == 0x2E) = true
      · have hc : c = 0x2E := by simpa using hdot
        subst hc
        simp only [beq_self_eq_true, if_true]
        rw [splitOn_cons_sep, hsp]
        simp only [List.cons.injEq]
        by_cases hcur : cur = []
        · -- nothing before the dot
          subst hcur
          have hcond : (prev.isNone || rest.isEmpty || prev == some 0x2E) = true := by
            simp only [List.isEmpty_nil] at hprev
            cases ha : prev.isNone <;> cases hc : (prev == some 0x2E) <;> simp [ha, hc] at hprev ⊢
          simp only [hcond, if_true, Option.isSome_none, Bool.false_eq_true, false_iff]
          rintro ⟨f0, fs, ⟨rfl, rfl⟩, hoct, -, -⟩
          simp [isOctet_nil] at hoct
        · have hpe : (prev.isNone || prev == some 0x2E) = false := by
            rw [hprev]; simpa using hcur
          have ha : prev.isNone = false := by cases h : prev.isNone <;> simp [h] at hpe ⊢
          have hc : (prev == some 0x2E) = false := by cases h : (prev == some 0x2E) <;> simp [h, ha] at hpe ⊢
          have hoc := isOctet_of_goodPrefix hg hcur
          by_cases hrest : rest = []
          · subst hrest
            simp only [List.isEmpty_nil, Bool.or_true, Bool.true_or, if_true, Option.isSome_none, Bool.false_eq_true, false_iff]
            simp only [Spec.splitOn, List.cons.injEq] at hsp
            obtain ⟨rfl, rfl⟩ := hsp
            rintro ⟨f0, fs, ⟨rfl, rfl⟩, -, hall, -⟩
            have := hall [] (by simp)
            simp [isOctet_nil] at this
          · have hre : rest.isEmpty = false := by simpa using hrest
            simp only [ha, hre, hc, Bool.or_false, Bool.false_eq_true, if_false]
            by_cases h3 : fields.length = 3
            · simp only [h3, beq_self_eq_true, if_true, Option.isSome_none, Bool.false_eq_true, false_iff]
              rintro ⟨f0, fs, ⟨rfl, rfl⟩, -, -, hcount⟩
              simp at hcount
            · have h3' : (fields.length == 3) = false := by simpa using h3
              simp only [h3', Bool.false_eq_true, if_false]
              have ih := ipv4Loop_iff rest [] (fields ++ [UInt8.ofNat (List.foldl stepDec 0 cur)]) (some 0x2E)
                ⟨by simp, by simp, by simp⟩ (by simp; omega) (by simp) (fun _ _ => hrest)
              simp only [List.foldl_nil, List.length_nil, List.nil_append] at ih
              rw [ih, hsp]
              simp only [List.cons.injEq, List.append_nil, List.length_append, List.length_cons, List.length_nil]
              constructor
              · rintro ⟨f0, fs, ⟨rfl, rfl⟩, h1, h2, hcount⟩
                refine ⟨[], g0 :: gs, ⟨rfl, rfl⟩, by rw [List.append_nil]; exact hoc, ?_, by simp; omega⟩
                intro g hgm
                rcases List.mem_cons.mp hgm with rfl | hgm
                · exact h1
                · exact h2 g hgm
              · rintro ⟨f0, fs, ⟨rfl, rfl⟩, -, h2, hcount⟩
                refine ⟨g0, gs, ⟨rfl, rfl⟩, h2 g0 (by simp), fun g hgm => h2 g (List.mem_cons_of_mem _ hgm), by simp at hcount; omega⟩
      · -- any other character
        have hcd : (c == 0x2E) = false := by simpa using hdot
        simp only [hcd, Bool.false_eq_true, if_false, Option.isSome_none, false_iff]
        rw [splitOn_cons_ne hcd hsp]
        simp only [List.cons.injEq]
        rintro ⟨f0, fs, ⟨rfl, rfl⟩, hoct, -, -⟩
        rw [isOctet_iff] at hoct
        have := hoct.2.1
        simp [hd] at this

/-- Go's dotted-quad parser (`parseIPv4Fields` as modelled) accepts exactly the specification's IPv4 texts:
    four dec-octets without leading zeros, each at most 255, separated by single dots. -/
theorem parseIPv4_isSome_eq (s : BS) : (parseIPv4 s).isSome = Spec.isIPv4 s := by
  have h := ipv4Loop_iff s [] [] none ⟨by simp, by simp, by simp⟩ (by simp) (by simp) (fun _ h => absurd rfl h)
  simp only [List.foldl_nil, List.length_nil, List.nil_append, Nat.zero_add] at h
  unfold parseIPv4 Spec.isIPv4
  obtain ⟨f0, fs, hsp⟩ := splitOn_exists 0x2E s
  rw [hsp] at h ⊢
  cases hv : (ipv4Loop s none 0 0 []).isSome with
  | true =>
    obtain ⟨g0, gs, heq, h1, h2, h3⟩ := h.mp hv
    simp only [List.cons.injEq] at heq
    obtain ⟨rfl, rfl⟩ := heq
    symm
    simp only [Bool.and_eq_true, beq_iff_eq, List.all_eq_true, List.length_cons]
    refine ⟨by omega, ?_⟩
    intro g hg
    rcases List.mem_cons.mp hg with rfl | hg
    · exact h1
    · exact h2 g hg
  | false =>
    symm
    cases hs : ((f0 :: fs).length == 4 && (f0 :: fs).all Spec.isOctet) with
    | false => rfl
    | true =>
      simp only [Bool.and_eq_true, beq_iff_eq, List.all_eq_true, List.length_cons] at hs
      have := h.mpr ⟨f0, fs, rfl, hs.2 f0 (by simp), fun g hg => hs.2 g (List.mem_cons_of_mem _ hg), by omega⟩
      rw [hv] at this; cases this

end V.Ident
