/- UTF-8 validity through the JSON model (used by C13): a text that is valid UTF-8 parses to a value
   whose strings, keys and number literals are valid UTF-8 (`parse_utf8Ok`), sorting keeps that, and
   the canonical encoding of such a value is valid UTF-8 (`utf8Valid_encodeCanon`); hence the canonical
   JSON of a valid UTF-8 text is valid UTF-8 (`canonical_utf8`).  Core only. -/
import VProofs.JsonClosure
namespace V.Json

theorem utf8Valid_cons (a : UInt8) (rest : Bytes) : utf8Valid (a :: rest) =
    (if a < 0x80 then utf8Valid rest
    else if a < 0xC2 then false
    else if a < 0xE0 then
      match rest with
      | b :: r => (0x80 ≤ b && b < 0xC0) && utf8Valid r
      | _ => false
    else if a < 0xF0 then
      match rest with
      | b :: c :: r =>
        (0x80 ≤ b && b < 0xC0) && (0x80 ≤ c && c < 0xC0) &&
        !(a == 0xE0 && b < 0xA0) && !(a == 0xED && b ≥ 0xA0) && utf8Valid r
      | _ => false
    else if a < 0xF5 then
      match rest with
      | b :: c :: d :: r =>
        (0x80 ≤ b && b < 0xC0) && (0x80 ≤ c && c < 0xC0) && (0x80 ≤ d && d < 0xC0) &&
        !(a == 0xF0 && b < 0x90) && !(a == 0xF4 && b ≥ 0x90) && utf8Valid r
      | _ => false
    else false) := by
  conv => lhs; unfold utf8Valid
  rfl

theorem utf8Valid_append_aux : ∀ (n : Nat) (a : Bytes), a.length ≤ n → utf8Valid a = true → ∀ b, utf8Valid (a ++ b) = utf8Valid b := by
  intro n
  induction n with
  | zero =>
    intro a hl _ b
    cases a with
    | nil => rfl
    | cons _ _ => simp at hl
  | succ n ih =>
    intro a hl ha b
    cases a with
    | nil => rfl
    | cons x a' =>
      rw [utf8Valid_cons] at ha
      rw [List.cons_append, utf8Valid_cons]
      simp only [List.length_cons] at hl
      by_cases h1 : x < 0x80
      · simp only [h1, if_true] at ha ⊢
        exact ih a' (by omega) ha b
      · by_cases h2 : x < 0xC2
        · simp [h1, h2] at ha
        · by_cases h3 : x < 0xE0
          · rcases a' with _ | ⟨y, r⟩
            · simp [h1, h2, h3] at ha
            · simp only [h1, h2, h3, if_true, if_false] at ha; rw [Bool.and_eq_true] at ha
              simp only [h1, h2, h3, if_true, if_false, List.cons_append]
              simp only [List.length_cons] at hl
              rw [ih r (by omega) ha.2 b, ha.1]; simp
          · by_cases h4 : x < 0xF0
            · rcases a' with _ | ⟨y, _ | ⟨z, r⟩⟩
              · simp [h1, h2, h3, h4] at ha
              · simp [h1, h2, h3, h4] at ha
              · simp only [h1, h2, h3, h4, if_true, if_false] at ha; rw [Bool.and_eq_true] at ha
                simp only [h1, h2, h3, h4, if_true, if_false, List.cons_append]
                simp only [List.length_cons] at hl
                rw [ih r (by omega) ha.2 b, ha.1]; simp
            · by_cases h5 : x < 0xF5
              · rcases a' with _ | ⟨y, _ | ⟨z, _ | ⟨w, r⟩⟩⟩
                · simp [h1, h2, h3, h4, h5] at ha
                · simp [h1, h2, h3, h4, h5] at ha
                · simp [h1, h2, h3, h4, h5] at ha
                · simp only [h1, h2, h3, h4, h5, if_true, if_false] at ha; rw [Bool.and_eq_true] at ha
                  simp only [h1, h2, h3, h4, h5, if_true, if_false, List.cons_append]
                  simp only [List.length_cons] at hl
                  rw [ih r (by omega) ha.2 b, ha.1]; simp
              · simp [h1, h2, h3, h4, h5] at ha

theorem utf8Valid_append {a : Bytes} (ha : utf8Valid a = true) (b : Bytes) : utf8Valid (a ++ b) = utf8Valid b :=
  utf8Valid_append_aux a.length a (Nat.le_refl _) ha b

theorem utf8Valid_cons_ascii {c : UInt8} (hc : c < 0x80) (r : Bytes) : utf8Valid (c :: r) = utf8Valid r := by
  rw [utf8Valid_cons]; simp [hc]

theorem not_cont_of_ascii {c : UInt8} (hc : c < 0x80) : (decide (0x80 ≤ c) && decide (c < 0xC0)) = false := by
  rw [UInt8.lt_iff_toNat_lt] at hc
  have : ¬ (0x80 : UInt8) ≤ c := by rw [UInt8.le_iff_toNat_le]; simp at hc ⊢; omega
  simp [this]

/-- an ASCII byte is never inside a multi-byte sequence: a valid text splits around it -/
theorem utf8Valid_split_aux {c : UInt8} (hc : c < 0x80) (r : Bytes) : ∀ (n : Nat) (a : Bytes), a.length ≤ n →
    utf8Valid (a ++ c :: r) = true → utf8Valid a = true ∧ utf8Valid r = true := by
  have hnc := not_cont_of_ascii hc
  intro n
  induction n with
  | zero =>
    intro a hl h
    cases a with
    | nil => exact ⟨rfl, by rwa [List.nil_append, utf8Valid_cons_ascii hc] at h⟩
    | cons _ _ => simp at hl
  | succ n ih =>
    intro a hl h
    cases a with
    | nil => exact ⟨rfl, by rwa [List.nil_append, utf8Valid_cons_ascii hc] at h⟩
    | cons x a' =>
      rw [List.cons_append, utf8Valid_cons] at h
      rw [utf8Valid_cons]
      simp only [List.length_cons] at hl
      by_cases h1 : x < 0x80
      · simp only [h1, if_true] at h ⊢
        exact ih a' (by omega) h
      · by_cases h2 : x < 0xC2
        · simp [h1, h2] at h
        · by_cases h3 : x < 0xE0
          · rcases a' with _ | ⟨y, a''⟩
            · simp [h1, h2, h3, hnc] at h
            · simp only [h1, h2, h3, if_true, if_false, List.cons_append] at h ⊢
              rw [Bool.and_eq_true] at h
              simp only [List.length_cons] at hl
              obtain ⟨i1, i2⟩ := ih a'' (by omega) h.2
              exact ⟨by rw [h.1, i1]; rfl, i2⟩
          · by_cases h4 : x < 0xF0
            · rcases a' with _ | ⟨y, _ | ⟨z, a''⟩⟩
              · rcases r with _ | ⟨r1, r'⟩ <;> simp [h1, h2, h3, h4, hnc] at h
              · simp [h1, h2, h3, h4, hnc] at h
              · simp only [h1, h2, h3, h4, if_true, if_false, List.cons_append] at h ⊢
                rw [Bool.and_eq_true] at h
                simp only [List.length_cons] at hl
                obtain ⟨i1, i2⟩ := ih a'' (by omega) h.2
                exact ⟨by rw [h.1, i1]; rfl, i2⟩
            · by_cases h5 : x < 0xF5
              · rcases a' with _ | ⟨y, _ | ⟨z, _ | ⟨w, a''⟩⟩⟩
                · rcases r with _ | ⟨r1, _ | ⟨r2, r'⟩⟩ <;> simp [h1, h2, h3, h4, h5, hnc] at h
                · rcases r with _ | ⟨r1, r'⟩ <;> simp [h1, h2, h3, h4, h5, hnc] at h
                · simp [h1, h2, h3, h4, h5, hnc] at h
                · simp only [h1, h2, h3, h4, h5, if_true, if_false, List.cons_append] at h ⊢
                  rw [Bool.and_eq_true] at h
                  simp only [List.length_cons] at hl
                  obtain ⟨i1, i2⟩ := ih a'' (by omega) h.2
                  exact ⟨by rw [h.1, i1]; rfl, i2⟩
              · simp [h1, h2, h3, h4, h5] at h

theorem utf8Valid_split {c : UInt8} (hc : c < 0x80) {a r : Bytes} (h : utf8Valid (a ++ c :: r) = true) :
    utf8Valid a = true ∧ utf8Valid r = true := utf8Valid_split_aux hc r a.length a (Nat.le_refl _) h


/-! ### `utf8Encode` always writes valid UTF-8 -/

theorem utf8Valid_two {a b : UInt8} (a1 : ¬ a < 0x80) (a2 : ¬ a < 0xC2) (a3 : a < 0xE0) (b1 : 0x80 ≤ b) (b2 : b < 0xC0) :
    utf8Valid [a, b] = true := by
  rw [utf8Valid_cons]
  simp only [a1, a2, a3, b1, b2, if_true, if_false, decide_true, Bool.and_self, utf8Valid]

theorem utf8Valid_three {a b c : UInt8} (a1 : ¬ a < 0x80) (a2 : ¬ a < 0xC2) (a3 : ¬ a < 0xE0) (a4 : a < 0xF0)
    (b1 : 0x80 ≤ b) (b2 : b < 0xC0) (c1 : 0x80 ≤ c) (c2 : c < 0xC0)
    (d1 : (a == 0xE0 && decide (b < 0xA0)) = false) (d2 : (a == 0xED && decide (b ≥ 0xA0)) = false) :
    utf8Valid [a, b, c] = true := by
  rw [utf8Valid_cons]
  simp only [a1, a2, a3, a4, b1, b2, c1, c2, d1, d2, if_true, if_false, decide_true, Bool.and_self, Bool.not_false, utf8Valid]

theorem utf8Valid_four {a b c d : UInt8} (a1 : ¬ a < 0x80) (a2 : ¬ a < 0xC2) (a3 : ¬ a < 0xE0) (a4 : ¬ a < 0xF0) (a5 : a < 0xF5)
    (b1 : 0x80 ≤ b) (b2 : b < 0xC0) (c1 : 0x80 ≤ c) (c2 : c < 0xC0) (e1 : 0x80 ≤ d) (e2 : d < 0xC0)
    (d1 : (a == 0xF0 && decide (b < 0x90)) = false) (d2 : (a == 0xF4 && decide (b ≥ 0x90)) = false) :
    utf8Valid [a, b, c, d] = true := by
  rw [utf8Valid_cons]
  simp only [a1, a2, a3, a4, a5, b1, b2, c1, c2, e1, e2, d1, d2, if_true, if_false, decide_true, Bool.and_self, Bool.not_false, utf8Valid]

theorem utf8Valid_utf8Encode (cp : Nat) : utf8Valid (utf8Encode cp) = true := by
  unfold utf8Encode
  split
  · rename_i h
    rw [utf8Valid_cons_ascii (by rw [UInt8.lt_iff_toNat_lt]; simp; omega)]; rfl
  · split
    · rename_i h1 h2
      apply utf8Valid_two
      · rw [UInt8.lt_iff_toNat_lt]; simp; omega
      · rw [UInt8.lt_iff_toNat_lt]; simp; omega
      · rw [UInt8.lt_iff_toNat_lt]; simp; omega
      · rw [UInt8.le_iff_toNat_le]; simp; omega
      · rw [UInt8.lt_iff_toNat_lt]; simp; omega
    · split
      · decide
      · rename_i h1 h2 hs
        simp only [Bool.or_eq_true, Bool.and_eq_true, decide_eq_true_eq, not_or, not_and, Nat.not_lt] at hs
        split
        · rename_i h3
          apply utf8Valid_three
          · rw [UInt8.lt_iff_toNat_lt]; simp; omega
          · rw [UInt8.lt_iff_toNat_lt]; simp; omega
          · rw [UInt8.lt_iff_toNat_lt]; simp; omega
          · rw [UInt8.lt_iff_toNat_lt]; simp; omega
          · rw [UInt8.le_iff_toNat_le]; simp; omega
          · rw [UInt8.lt_iff_toNat_lt]; simp; omega
          · rw [UInt8.le_iff_toNat_le]; simp; omega
          · rw [UInt8.lt_iff_toNat_lt]; simp; omega
          · rw [Bool.and_eq_false_iff]
            by_cases hq : cp / 4096 = 0
            · right; rw [decide_eq_false_iff_not, UInt8.lt_iff_toNat_lt]; simp; omega
            · left; rw [beq_eq_false_iff_ne]; intro e; have := congrArg UInt8.toNat e; simp at this; omega
          · rw [Bool.and_eq_false_iff]
            by_cases hq : cp / 4096 = 13
            · right; rw [decide_eq_false_iff_not, ge_iff_le, UInt8.le_iff_toNat_le]; simp; omega
            · left; rw [beq_eq_false_iff_ne]; intro e; have := congrArg UInt8.toNat e; simp at this; omega
        · rename_i h3
          apply utf8Valid_four
          · rw [UInt8.lt_iff_toNat_lt]; simp; omega
          · rw [UInt8.lt_iff_toNat_lt]; simp; omega
          · rw [UInt8.lt_iff_toNat_lt]; simp; omega
          · rw [UInt8.lt_iff_toNat_lt]; simp; omega
          · rw [UInt8.lt_iff_toNat_lt]; simp; omega
          · rw [UInt8.le_iff_toNat_le]; simp; omega
          · rw [UInt8.lt_iff_toNat_lt]; simp; omega
          · rw [UInt8.le_iff_toNat_le]; simp; omega
          · rw [UInt8.lt_iff_toNat_lt]; simp; omega
          · rw [UInt8.le_iff_toNat_le]; simp; omega
          · rw [UInt8.lt_iff_toNat_lt]; simp; omega
          · rw [Bool.and_eq_false_iff]
            by_cases hq : cp / 262144 = 0
            · right; rw [decide_eq_false_iff_not, UInt8.lt_iff_toNat_lt]; simp; omega
            · left; rw [beq_eq_false_iff_ne]; intro e; have := congrArg UInt8.toNat e; simp at this; omega
          · rw [Bool.and_eq_false_iff]
            by_cases hq : cp / 262144 = 4
            · right; rw [decide_eq_false_iff_not, ge_iff_le, UInt8.le_iff_toNat_le]; simp; omega
            · left; rw [beq_eq_false_iff_ne]; intro e; have := congrArg UInt8.toNat e; simp at this; omega


/-! ### ASCII runs -/

def allAscii (l : Bytes) : Prop := ∀ c ∈ l, c < 0x80

theorem utf8Valid_ascii_append : ∀ (l r : Bytes), allAscii l → utf8Valid (l ++ r) = utf8Valid r
  | [], _, _ => rfl
  | c :: l, r, h => by
    rw [List.cons_append, utf8Valid_cons_ascii (h c List.mem_cons_self),
      utf8Valid_ascii_append l r (fun x hx => h x (List.mem_cons_of_mem _ hx))]

theorem utf8Valid_of_ascii (l : Bytes) (h : allAscii l) : utf8Valid l = true := by
  have := utf8Valid_ascii_append l [] h
  rw [List.append_nil] at this; rw [this]; rfl

set_option maxRecDepth 20000 in
theorem isHex_ascii : ∀ c : UInt8, isHex c = true → c < 0x80 := by
  apply byteForall; decide

set_option maxRecDepth 20000 in
theorem isWs_ascii : ∀ c : UInt8, isWs c = true → c < 0x80 := by
  apply byteForall; decide

set_option maxRecDepth 20000 in
theorem isDigit_ascii : ∀ c : UInt8, isDigit c = true → c < 0x80 := by
  apply byteForall; decide

set_option maxRecDepth 20000 in
theorem simpleEscape_ascii : ∀ e x : UInt8, simpleEscape e = some x → e < 0x80 ∧ x < 0x80 := by
  apply byteForall; intro n; revert n; decide

theorem skipWs_utf8 : ∀ s : Bytes, utf8Valid (skipWs s) = utf8Valid s
  | [] => rfl
  | c :: rest => by
    unfold skipWs
    split
    · rename_i h
      rw [skipWs_utf8 rest, utf8Valid_cons_ascii (isWs_ascii c h)]
    · rfl


/-! ### strings -/

theorem parseUEscape_utf8 {s ru du s' : Bytes} (h : parseUEscape s = some (ru, du, s')) (hu : utf8Valid s = true) :
    utf8Valid du = true ∧ utf8Valid s' = true := by
  unfold parseUEscape at h
  split at h
  · rename_i a b c2 d4 rest''
    split at h
    · rename_i hh
      simp only [Bool.and_eq_true] at hh
      obtain ⟨⟨⟨ha, hb⟩, hc⟩, hd⟩ := hh
      have hr : utf8Valid rest'' = true := by
        rwa [utf8Valid_cons_ascii (isHex_ascii _ ha), utf8Valid_cons_ascii (isHex_ascii _ hb),
          utf8Valid_cons_ascii (isHex_ascii _ hc), utf8Valid_cons_ascii (isHex_ascii _ hd)] at hu
      split at h
      · split at h
        · rename_i x y a2 b2 c3 d2 rest3
          split at h
          · rename_i hxy
            simp only [Bool.and_eq_true, beq_iff_eq] at hxy
            obtain ⟨rfl, rfl⟩ := hxy
            split at h
            · rename_i hh2
              simp only [Bool.and_eq_true] at hh2
              obtain ⟨⟨⟨ha2, hb2⟩, hc2⟩, hd2⟩ := hh2
              simp only [Option.some.injEq, Prod.mk.injEq] at h
              obtain ⟨_, rfl, rfl⟩ := h
              refine ⟨utf8Valid_utf8Encode _, ?_⟩
              rwa [utf8Valid_cons_ascii (by decide), utf8Valid_cons_ascii (by decide),
                utf8Valid_cons_ascii (isHex_ascii _ ha2), utf8Valid_cons_ascii (isHex_ascii _ hb2),
                utf8Valid_cons_ascii (isHex_ascii _ hc2), utf8Valid_cons_ascii (isHex_ascii _ hd2)] at hr
            · cases h
          · simp only [Option.some.injEq, Prod.mk.injEq] at h
            obtain ⟨_, rfl, rfl⟩ := h
            exact ⟨utf8Valid_utf8Encode _, hr⟩
        · simp only [Option.some.injEq, Prod.mk.injEq] at h
          obtain ⟨_, rfl, rfl⟩ := h
          exact ⟨utf8Valid_utf8Encode _, hr⟩
      · simp only [Option.some.injEq, Prod.mk.injEq] at h
        obtain ⟨_, rfl, rfl⟩ := h
        exact ⟨utf8Valid_utf8Encode _, hr⟩
    · cases h
  · cases h

/-- the decoded bytes of a string of a valid text are valid UTF-8, and so is what follows the string -/
theorem parseString_utf8 : ∀ (f : Nat) (s raw dec raw' dec' rest : Bytes),
    parseString f s raw dec = some (raw', dec', rest) → utf8Valid (dec ++ s) = true →
    utf8Valid dec' = true ∧ utf8Valid rest = true
  | 0, _, _, _, _, _, _, h, _ => by simp [parseString] at h
  | _ + 1, [], _, _, _, _, _, h, _ => by simp [parseString] at h
  | f + 1, c :: rest0, raw, dec, raw', dec', rest, h, hu => by
    rw [parseString_succ] at h
    split at h
    · rename_i hq
      have hc : c = 0x22 := eq_of_beq hq
      subst hc
      simp only [Option.some.injEq, Prod.mk.injEq] at h
      obtain ⟨_, rfl, rfl⟩ := h
      exact utf8Valid_split (by decide) hu
    · split at h
      · cases h
      · split at h
        · rename_i hbs
          have hc : c = 0x5C := eq_of_beq hbs
          subst hc
          obtain ⟨hd, hr0⟩ := utf8Valid_split (by decide) hu
          split at h
          · cases h
          · rename_i e rest1
            split at h
            · rename_i x hx
              obtain ⟨he, hxa⟩ := simpleEscape_ascii e x hx
              rw [utf8Valid_cons_ascii he] at hr0
              apply parseString_utf8 f _ _ _ _ _ _ h
              rw [List.append_assoc, utf8Valid_append hd]
              simpa [utf8Valid_cons_ascii hxa] using hr0
            · split at h
              · rename_i hu'
                have he : e = 0x75 := eq_of_beq hu'
                subst he
                rw [utf8Valid_cons_ascii (by decide)] at hr0
                split at h
                · rename_i ru du rest2 hpu
                  obtain ⟨hdu, hr2⟩ := parseUEscape_utf8 hpu hr0
                  apply parseString_utf8 f _ _ _ _ _ _ h
                  rw [List.append_assoc, utf8Valid_append hd, utf8Valid_append hdu]
                  exact hr2
                · cases h
              · cases h
        · apply parseString_utf8 f _ _ _ _ _ _ h
          rw [List.append_assoc]
          exact hu


/-! ### number literals are ASCII -/

theorem allAscii_append {a b : Bytes} (ha : allAscii a) (hb : allAscii b) : allAscii (a ++ b) := by
  intro c hc
  rcases List.mem_append.mp hc with h | h
  · exact ha c h
  · exact hb c h

theorem allAscii_digits {l : Bytes} (h : allDigits l) : allAscii l := fun c hc => isDigit_ascii c (h c hc)

theorem allAscii_cons {c : UInt8} {l : Bytes} (hc : c < 0x80) (hl : allAscii l) : allAscii (c :: l) := by
  intro x hx
  rcases List.mem_cons.mp hx with rfl | h
  · exact hc
  · exact hl x h

theorem allAscii_nil : allAscii [] := fun _ h => by cases h

theorem numParts_ascii {sign ip fp ep : Bytes} (h : NumParts sign ip fp ep) : allAscii (sign ++ ip ++ fp ++ ep) := by
  have h1 : allAscii sign := by
    rcases h.sign with rfl | rfl
    · exact allAscii_nil
    · exact allAscii_cons (by decide) allAscii_nil
  have h2 : allAscii ip := by
    rcases h.ip with rfl | ⟨c, ds, rfl, hc, _, hds⟩
    · exact allAscii_cons (by decide) allAscii_nil
    · exact allAscii_cons (isDigit_ascii c hc) (allAscii_digits hds)
  have h3 : allAscii fp := by
    rcases h.fp with rfl | ⟨c, ds, rfl, hds⟩
    · exact allAscii_nil
    · exact allAscii_cons (by decide) (allAscii_digits hds)
  have h4 : allAscii ep := by
    rcases h.ep with rfl | ⟨e, sg, c, ds, rfl, he, hsg, hds⟩
    · exact allAscii_nil
    · have hsg' : allAscii sg := by
        rcases hsg with rfl | rfl | rfl
        · exact allAscii_nil
        · exact allAscii_cons (by decide) allAscii_nil
        · exact allAscii_cons (by decide) allAscii_nil
      have he' : e < 0x80 := by rcases he with rfl | rfl <;> decide
      exact allAscii_cons he' (allAscii_append hsg' (allAscii_digits hds))
  exact allAscii_append (allAscii_append (allAscii_append h1 h2) h3) h4

theorem parseNumber_utf8 {s lit rest : Bytes} (h : parseNumber s = some (lit, rest)) (hu : utf8Valid s = true) :
    utf8Valid lit = true ∧ utf8Valid rest = true := by
  obtain ⟨sign, ip, fp, ep, hp, rfl, hs, _⟩ := parseNumber_parts h
  have ha := numParts_ascii hp
  rw [hs, utf8Valid_ascii_append _ _ ha] at hu
  exact ⟨utf8Valid_of_ascii _ ha, hu⟩

/-! ### values whose strings, keys and number literals are valid UTF-8 -/

mutual
def JVal.utf8Ok : JVal → Bool
  | .num lit => utf8Valid lit
  | .str s => utf8Valid s
  | .arr xs => utf8OkList xs
  | .obj kvs => utf8OkMembers kvs
  | _ => true
def utf8OkList : List JVal → Bool
  | [] => true
  | x :: xs => x.utf8Ok && utf8OkList xs
def utf8OkMembers : List (Bytes × JVal) → Bool
  | [] => true
  | (k, v) :: kvs => utf8Valid k && v.utf8Ok && utf8OkMembers kvs
end

theorem utf8OkList_append : ∀ (a b : List JVal), utf8OkList (a ++ b) = (utf8OkList a && utf8OkList b)
  | [], _ => by simp [utf8OkList]
  | x :: a, b => by simp only [List.cons_append, utf8OkList, utf8OkList_append a b, Bool.and_assoc]

theorem utf8OkMembers_append : ∀ (a b : List (Bytes × JVal)), utf8OkMembers (a ++ b) = (utf8OkMembers a && utf8OkMembers b)
  | [], _ => by simp [utf8OkMembers]
  | (k, v) :: a, b => by simp only [List.cons_append, utf8OkMembers, utf8OkMembers_append a b, Bool.and_assoc]

def UV (f : Nat) : Prop := ∀ (s : Bytes) (p : PVal) (rest : Bytes), parseValue f s = some (p, rest) →
  utf8Valid s = true → p.toJVal.utf8Ok = true ∧ utf8Valid rest = true
def UE (f : Nat) : Prop := ∀ (s : Bytes) (accl : List PVal) (p : PVal) (rest : Bytes),
  parseElems f s accl = some (p, rest) → utf8Valid s = true → utf8OkList (toJVals accl) = true →
  p.toJVal.utf8Ok = true ∧ utf8Valid rest = true
def UM (f : Nat) : Prop := ∀ (s : Bytes) (accl : List (Bytes × Bytes × PVal)) (p : PVal) (rest : Bytes),
  parseMembers f s accl = some (p, rest) → utf8Valid s = true → utf8OkMembers (toJMembers accl) = true →
  p.toJVal.utf8Ok = true ∧ utf8Valid rest = true

/-- what is left after `skipWs` yields a first byte: the tail is valid when the byte is ASCII -/
theorem skipWs_tail {s rest : Bytes} {c : UInt8} (h : skipWs s = c :: rest) (hu : utf8Valid s = true) (hc : c < 0x80) :
    utf8Valid rest = true := by
  have := skipWs_utf8 s
  rw [h, hu, utf8Valid_cons_ascii hc] at this
  exact this

theorem skipWs_valid {s : Bytes} (hu : utf8Valid s = true) : utf8Valid (skipWs s) = true := by
  rw [skipWs_utf8]; exact hu


theorem uv_step (f : Nat) (hE : UE f) (hM : UM f) : UV (f + 1) := by
  intro s p rest h hu
  rw [parseValue_succ] at h
  have hsk := skipWs_valid hu
  split at h
  · cases h
  · rename_i c rest0 hs
    rw [hs] at hsk
    split at h
    · -- object
      rename_i hc
      have hc' : c = 0x7B := eq_of_beq hc
      subst hc'
      rw [utf8Valid_cons_ascii (by decide)] at hsk
      have hsk2 := skipWs_valid hsk
      split at h
      · cases h
      · rename_i c2 rest1 hs2
        rw [hs2] at hsk2
        split at h
        · rename_i hc2
          have : c2 = 0x7D := eq_of_beq hc2
          subst this
          simp only [Option.some.injEq, Prod.mk.injEq] at h
          obtain ⟨rfl, rfl⟩ := h
          rw [utf8Valid_cons_ascii (by decide)] at hsk2
          exact ⟨rfl, hsk2⟩
        · exact hM _ _ _ _ h hsk2 rfl
    · split at h
      · -- array
        rename_i hc
        have hc' : c = 0x5B := eq_of_beq hc
        subst hc'
        rw [utf8Valid_cons_ascii (by decide)] at hsk
        have hsk2 := skipWs_valid hsk
        split at h
        · cases h
        · rename_i c2 rest1 hs2
          rw [hs2] at hsk2
          split at h
          · rename_i hc2
            have : c2 = 0x5D := eq_of_beq hc2
            subst this
            simp only [Option.some.injEq, Prod.mk.injEq] at h
            obtain ⟨rfl, rfl⟩ := h
            rw [utf8Valid_cons_ascii (by decide)] at hsk2
            exact ⟨rfl, hsk2⟩
          · exact hE _ _ _ _ h hsk2 rfl
      · split at h
        · -- string
          rename_i hc
          have hc' : c = 0x22 := eq_of_beq hc
          subst hc'
          rw [utf8Valid_cons_ascii (by decide)] at hsk
          split at h
          · rename_i raw dec rest' hps
            simp only [Option.some.injEq, Prod.mk.injEq] at h
            obtain ⟨rfl, rfl⟩ := h
            obtain ⟨h1, h2⟩ := parseString_utf8 _ _ _ _ _ _ _ hps (by simpa using hsk)
            exact ⟨by simpa [PVal.toJVal, JVal.utf8Ok] using h1, h2⟩
          · cases h
        · split at h
          · -- true
            rename_i hc
            have hc' : c = 0x74 := eq_of_beq hc
            subst hc'
            rw [utf8Valid_cons_ascii (by decide)] at hsk
            split at h
            · rename_i r u e rest'
              split at h
              · rename_i hrue
                simp only [Bool.and_eq_true, beq_iff_eq] at hrue
                obtain ⟨⟨rfl, rfl⟩, rfl⟩ := hrue
                simp only [Option.some.injEq, Prod.mk.injEq] at h
                obtain ⟨rfl, rfl⟩ := h
                rw [utf8Valid_cons_ascii (by decide), utf8Valid_cons_ascii (by decide), utf8Valid_cons_ascii (by decide)] at hsk
                exact ⟨rfl, hsk⟩
              · cases h
            · cases h
          · split at h
            · -- false
              rename_i hc
              have hc' : c = 0x66 := eq_of_beq hc
              subst hc'
              rw [utf8Valid_cons_ascii (by decide)] at hsk
              split at h
              · rename_i a l s' e rest'
                split at h
                · rename_i hx
                  simp only [Bool.and_eq_true, beq_iff_eq] at hx
                  obtain ⟨⟨⟨rfl, rfl⟩, rfl⟩, rfl⟩ := hx
                  simp only [Option.some.injEq, Prod.mk.injEq] at h
                  obtain ⟨rfl, rfl⟩ := h
                  rw [utf8Valid_cons_ascii (by decide), utf8Valid_cons_ascii (by decide), utf8Valid_cons_ascii (by decide),
                    utf8Valid_cons_ascii (by decide)] at hsk
                  exact ⟨rfl, hsk⟩
                · cases h
              · cases h
            · split at h
              · -- null
                rename_i hc
                have hc' : c = 0x6E := eq_of_beq hc
                subst hc'
                rw [utf8Valid_cons_ascii (by decide)] at hsk
                split at h
                · rename_i u l l' rest'
                  split at h
                  · rename_i hx
                    simp only [Bool.and_eq_true, beq_iff_eq] at hx
                    obtain ⟨⟨rfl, rfl⟩, rfl⟩ := hx
                    simp only [Option.some.injEq, Prod.mk.injEq] at h
                    obtain ⟨rfl, rfl⟩ := h
                    rw [utf8Valid_cons_ascii (by decide), utf8Valid_cons_ascii (by decide), utf8Valid_cons_ascii (by decide)] at hsk
                    exact ⟨rfl, hsk⟩
                  · cases h
                · cases h
              · split at h
                · -- number
                  split at h
                  · rename_i lit rest' hnum
                    simp only [Option.some.injEq, Prod.mk.injEq] at h
                    obtain ⟨rfl, rfl⟩ := h
                    obtain ⟨h1, h2⟩ := parseNumber_utf8 hnum hsk
                    exact ⟨by simpa [PVal.toJVal, JVal.utf8Ok] using h1, h2⟩
                  · cases h
                · cases h

theorem ue_step (f : Nat) (hV : UV f) (hE : UE f) : UE (f + 1) := by
  intro s accl p rest h hu hacc
  rw [parseElems_succ] at h
  split at h
  · cases h
  · rename_i v rest1 hv
    obtain ⟨hv1, hv2⟩ := hV _ _ _ hv hu
    have hacc' : utf8OkList (toJVals (accl ++ [v])) = true := by
      simp [toJVals_append, utf8OkList_append, hacc, toJVals, utf8OkList, hv1]
    have hsk := skipWs_valid hv2
    split at h
    · cases h
    · rename_i d rest' hs
      rw [hs] at hsk
      split at h
      · rename_i hd
        have : d = 0x2C := eq_of_beq hd
        subst this
        rw [utf8Valid_cons_ascii (by decide)] at hsk
        exact hE _ _ _ _ h hsk hacc'
      · split at h
        · rename_i hd
          have : d = 0x5D := eq_of_beq hd
          subst this
          rw [utf8Valid_cons_ascii (by decide)] at hsk
          simp only [Option.some.injEq, Prod.mk.injEq] at h
          obtain ⟨rfl, rfl⟩ := h
          exact ⟨by simpa [PVal.toJVal, JVal.utf8Ok] using hacc', hsk⟩
        · cases h

theorem um_step (f : Nat) (hV : UV f) (hM : UM f) : UM (f + 1) := by
  intro s accl p rest h hu hacc
  rw [parseMembers_succ] at h
  have hsk := skipWs_valid hu
  split at h
  · cases h
  · rename_i q rest0 hs
    rw [hs] at hsk
    split at h
    · rename_i hq
      have : q = 0x22 := eq_of_beq hq
      subst this
      rw [utf8Valid_cons_ascii (by decide)] at hsk
      split at h
      · cases h
      · rename_i raw dec rest1 hps
        obtain ⟨hk1, hk2⟩ := parseString_utf8 _ _ _ _ _ _ _ hps (by simpa using hsk)
        have hsk1 := skipWs_valid hk2
        split at h
        · cases h
        · rename_i col rest2 hs1
          rw [hs1] at hsk1
          split at h
          · rename_i hcol
            have : col = 0x3A := eq_of_beq hcol
            subst this
            rw [utf8Valid_cons_ascii (by decide)] at hsk1
            split at h
            · cases h
            · rename_i v rest3 hv
              obtain ⟨hv1, hv2⟩ := hV _ _ _ hv hsk1
              have hacc' : utf8OkMembers (toJMembers (accl ++ [(raw, dec, v)])) = true := by
                simp [toJMembers_append, utf8OkMembers_append, hacc, toJMembers, utf8OkMembers, hv1, hk1]
              have hsk3 := skipWs_valid hv2
              split at h
              · cases h
              · rename_i d rest4 hs3
                rw [hs3] at hsk3
                split at h
                · rename_i hd
                  have : d = 0x2C := eq_of_beq hd
                  subst this
                  rw [utf8Valid_cons_ascii (by decide)] at hsk3
                  exact hM _ _ _ _ h hsk3 hacc'
                · split at h
                  · rename_i hd
                    have : d = 0x7D := eq_of_beq hd
                    subst this
                    rw [utf8Valid_cons_ascii (by decide)] at hsk3
                    simp only [Option.some.injEq, Prod.mk.injEq] at h
                    obtain ⟨rfl, rfl⟩ := h
                    exact ⟨by simpa [PVal.toJVal, JVal.utf8Ok] using hacc', hsk3⟩
                  · cases h
          · cases h
    · cases h

theorem utf8_all : ∀ f, UV f ∧ UE f ∧ UM f
  | 0 => ⟨fun _ _ _ h => by simp [parseValue] at h, fun _ _ _ _ h => by simp [parseElems] at h,
          fun _ _ _ _ h => by simp [parseMembers] at h⟩
  | f + 1 =>
    have ih := utf8_all f
    ⟨uv_step f ih.2.1 ih.2.2, ue_step f ih.1 ih.2.1, um_step f ih.1 ih.2.2⟩

/-- every string, key and number literal of a value parsed from valid UTF-8 is valid UTF-8 -/
theorem parse_utf8Ok {t : Bytes} {p : PVal} (hp : parse t = some p) (hu : utf8Valid t = true) : p.toJVal.utf8Ok = true := by
  unfold parse at hp
  split at hp
  · rename_i v rest hv
    split at hp
    · simp only [Option.some.injEq] at hp; subst hp
      exact ((utf8_all _).1 _ _ _ hv hu).1
    · cases hp
  · cases hp


/-! ### sorting keeps the predicate -/

open List in
theorem utf8OkMembers_eq_all (l : List (Bytes × JVal)) : utf8OkMembers l = l.all (fun kv => utf8Valid kv.1 && kv.2.utf8Ok) := by
  induction l with
  | nil => rfl
  | cons x xs ih => obtain ⟨k, v⟩ := x; simp [utf8OkMembers, ih]

open List in
theorem utf8OkMembers_perm {l₁ l₂ : List (Bytes × JVal)} (h : l₁ ~ l₂) : utf8OkMembers l₁ = utf8OkMembers l₂ := by
  rw [utf8OkMembers_eq_all, utf8OkMembers_eq_all]
  induction h with
  | nil => rfl
  | cons x _ ih => simp [ih]
  | swap x y l => simp [Bool.and_left_comm]
  | trans _ _ ih1 ih2 => exact ih1.trans ih2

mutual
theorem utf8Ok_sorted : (v : JVal) → v.utf8Ok = true → v.sorted.utf8Ok = true
  | .null, _ => rfl
  | .bool _, _ => rfl
  | .num _, h => h
  | .str _, h => h
  | .arr xs, h => by
    simp only [JVal.utf8Ok] at h
    simp only [JVal.sorted, JVal.utf8Ok, utf8OkList_sorted xs h]
  | .obj kvs, h => by
    simp only [JVal.utf8Ok] at h
    simp only [JVal.sorted, JVal.utf8Ok]
    rw [utf8OkMembers_perm (sortByKey_perm _)]
    exact utf8OkMembers_sorted kvs h
theorem utf8OkList_sorted : (xs : List JVal) → utf8OkList xs = true → utf8OkList (sortedList xs) = true
  | [], _ => rfl
  | x :: xs, h => by
    simp only [utf8OkList, Bool.and_eq_true] at h
    simp only [sortedList, utf8OkList, utf8Ok_sorted x h.1, utf8OkList_sorted xs h.2, Bool.and_self]
theorem utf8OkMembers_sorted : (kvs : List (Bytes × JVal)) → utf8OkMembers kvs = true →
    utf8OkMembers (sortedMembers kvs) = true
  | [], _ => rfl
  | (k, v) :: kvs, h => by
    simp only [utf8OkMembers, Bool.and_eq_true] at h
    simp only [sortedMembers, utf8OkMembers, h.1.1, utf8Ok_sorted v h.1.2, utf8OkMembers_sorted kvs h.2, Bool.and_self]
end

/-! ### the encoding of such a value is valid UTF-8 -/

theorem esb_cons_high {c : UInt8} (h : ¬ c < 0x80) (rest : Bytes) : encodeStringBody (c :: rest) = c :: encodeStringBody rest := by
  apply esb_plain_cons
  have h' : 0x80 ≤ c.toNat := by rw [UInt8.lt_iff_toNat_lt] at h; simpa using h
  have e1 : (c == 0x22) = false := by
    rw [beq_eq_false_iff_ne]; intro e; subst e; revert h'; decide
  have e2 : (c == 0x5C) = false := by
    rw [beq_eq_false_iff_ne]; intro e; subst e; revert h'; decide
  have e3 : ¬ c < 0x20 := by rw [UInt8.lt_iff_toNat_lt]; simp; omega
  simp [plainByte, e1, e2, e3]

set_option maxRecDepth 20000 in
theorem esb_one_ascii_b : ∀ c : UInt8, c < 0x80 → (encodeStringBody [c]).all (fun x => decide (x < 0x80)) = true := by
  apply byteForall; decide

theorem esb_one_ascii (c : UInt8) (h : c < 0x80) : allAscii (encodeStringBody [c]) := by
  intro x hx
  have := List.all_eq_true.mp (esb_one_ascii_b c h) x hx
  simpa using this

theorem utf8Valid_esb_aux : ∀ (n : Nat) (s : Bytes), s.length ≤ n → utf8Valid s = true → utf8Valid (encodeStringBody s) = true := by
  intro n
  induction n with
  | zero =>
    intro s hl _
    cases s with
    | nil => rfl
    | cons _ _ => simp at hl
  | succ n ih =>
    intro s hl h
    cases s with
    | nil => rfl
    | cons x a' =>
      simp only [List.length_cons] at hl
      by_cases h1 : x < 0x80
      · rw [utf8Valid_cons_ascii h1] at h
        rw [esb_cons, utf8Valid_ascii_append _ _ (esb_one_ascii x h1)]
        exact ih a' (by omega) h
      · rw [utf8Valid_cons] at h
        rw [esb_cons_high h1, utf8Valid_cons]
        by_cases h2 : x < 0xC2
        · simp [h1, h2] at h
        · by_cases h3 : x < 0xE0
          · rcases a' with _ | ⟨y, r⟩
            · simp [h1, h2, h3] at h
            · simp only [h1, h2, h3, if_true, if_false] at h ⊢
              rw [Bool.and_eq_true] at h
              have hy : ¬ y < 0x80 := fun hy => by rw [not_cont_of_ascii hy] at h; exact absurd h.1 (by decide)
              rw [esb_cons_high hy]
              simp only [List.length_cons] at hl
              simp only [h.1, ih r (by omega) h.2, Bool.and_self]
          · by_cases h4 : x < 0xF0
            · rcases a' with _ | ⟨y, _ | ⟨z, r⟩⟩
              · simp [h1, h2, h3, h4] at h
              · simp [h1, h2, h3, h4] at h
              · simp only [h1, h2, h3, h4, if_true, if_false] at h ⊢
                rw [Bool.and_eq_true] at h
                have hyz : ¬ y < 0x80 ∧ ¬ z < 0x80 := by
                  constructor
                  · intro hy; have := h.1; simp [not_cont_of_ascii hy] at this
                  · intro hz; have := h.1; simp [not_cont_of_ascii hz] at this
                rw [esb_cons_high hyz.1, esb_cons_high hyz.2]
                simp only [List.length_cons] at hl
                simp only [h.1, ih r (by omega) h.2, Bool.and_self]
            · by_cases h5 : x < 0xF5
              · rcases a' with _ | ⟨y, _ | ⟨z, _ | ⟨w, r⟩⟩⟩
                · simp [h1, h2, h3, h4, h5] at h
                · simp [h1, h2, h3, h4, h5] at h
                · simp [h1, h2, h3, h4, h5] at h
                · simp only [h1, h2, h3, h4, h5, if_true, if_false] at h ⊢
                  rw [Bool.and_eq_true] at h
                  have hyzw : ¬ y < 0x80 ∧ ¬ z < 0x80 ∧ ¬ w < 0x80 := by
                    refine ⟨?_, ?_, ?_⟩
                    · intro hy; have := h.1; simp [not_cont_of_ascii hy] at this
                    · intro hz; have := h.1; simp [not_cont_of_ascii hz] at this
                    · intro hw; have := h.1; simp [not_cont_of_ascii hw] at this
                  rw [esb_cons_high hyzw.1, esb_cons_high hyzw.2.1, esb_cons_high hyzw.2.2]
                  simp only [List.length_cons] at hl
                  simp only [h.1, ih r (by omega) h.2, Bool.and_self]
              · simp [h1, h2, h3, h4, h5] at h

theorem utf8Valid_esb {s : Bytes} (h : utf8Valid s = true) : utf8Valid (encodeStringBody s) = true :=
  utf8Valid_esb_aux s.length s (Nat.le_refl _) h


theorem utf8Valid_joinWith {sep : UInt8} (hs : sep < 0x80) : ∀ l : List Bytes, (∀ x ∈ l, utf8Valid x = true) →
    utf8Valid (joinWith sep l) = true
  | [], _ => rfl
  | [x], h => by simpa [joinWith] using h x (by simp)
  | x :: y :: l, h => by
    have hx := h x (by simp)
    have := utf8Valid_joinWith hs (y :: l) (fun z hz => h z (List.mem_cons_of_mem _ hz))
    rw [joinWith_cons_ne sep x (List.cons_ne_nil y l), utf8Valid_append hx, utf8Valid_cons_ascii hs]
    exact this

theorem utf8Valid_wrap {o c : UInt8} (ho : o < 0x80) (hc : c < 0x80) {m : Bytes} (hm : utf8Valid m = true) :
    utf8Valid (o :: m ++ [c]) = true := by
  rw [List.cons_append, utf8Valid_cons_ascii ho, utf8Valid_append hm, utf8Valid_cons_ascii hc]; rfl

mutual
theorem utf8Valid_encode : (v : JVal) → v.utf8Ok = true → utf8Valid (encode v) = true
  | .null, _ => by decide
  | .bool true, _ => by decide
  | .bool false, _ => by decide
  | .num lit, h => by
    simp only [JVal.utf8Ok] at h
    simp only [encode, encodeNum]
    split
    · decide
    · exact h
  | .str s, h => by
    simp only [JVal.utf8Ok] at h
    simp only [encode]
    exact utf8Valid_wrap (by decide) (by decide) (utf8Valid_esb h)
  | .arr xs, h => by
    simp only [JVal.utf8Ok] at h
    simp only [encode]
    exact utf8Valid_wrap (by decide) (by decide) (utf8Valid_joinWith (by decide) _ (utf8Valid_encodeList xs h))
  | .obj kvs, h => by
    simp only [JVal.utf8Ok] at h
    simp only [encode]
    exact utf8Valid_wrap (by decide) (by decide) (utf8Valid_joinWith (by decide) _ (utf8Valid_encodeMembers kvs h))
theorem utf8Valid_encodeList : (xs : List JVal) → utf8OkList xs = true → ∀ x ∈ encodeList xs, utf8Valid x = true
  | [], _ => by intro x hx; cases hx
  | v :: xs, h => by
    simp only [utf8OkList, Bool.and_eq_true] at h
    intro x hx
    simp only [encodeList, List.mem_cons] at hx
    rcases hx with rfl | hx
    · exact utf8Valid_encode v h.1
    · exact utf8Valid_encodeList xs h.2 x hx
theorem utf8Valid_encodeMembers : (kvs : List (Bytes × JVal)) → utf8OkMembers kvs = true →
    ∀ x ∈ encodeMembers kvs, utf8Valid x = true
  | [], _ => by intro x hx; cases hx
  | (k, v) :: kvs, h => by
    simp only [utf8OkMembers, Bool.and_eq_true] at h
    intro x hx
    simp only [encodeMembers, List.mem_cons] at hx
    rcases hx with rfl | hx
    · rw [List.cons_append, List.cons_append, utf8Valid_cons_ascii (by decide), List.append_assoc,
        utf8Valid_append (utf8Valid_esb h.1.1)]
      simp only [List.cons_append, List.nil_append]
      rw [utf8Valid_cons_ascii (by decide), utf8Valid_cons_ascii (by decide)]
      exact utf8Valid_encode v h.1.2
    · exact utf8Valid_encodeMembers kvs h.2 x hx
end

/-- the canonical bytes of a value whose strings are valid UTF-8 are valid UTF-8 -/
theorem utf8Valid_encodeCanon (v : JVal) (h : v.utf8Ok = true) : utf8Valid (encodeCanon v) = true :=
  utf8Valid_encode _ (utf8Ok_sorted v h)

/-- **Canonical JSON of a UTF-8 text is UTF-8.** -/
theorem canonical_utf8 {t : Bytes} {p : PVal} (hp : parse t = some p) (hu : utf8Valid t = true) :
    utf8Valid (encodeCanon p.toJVal) = true :=
  utf8Valid_encodeCanon _ (parse_utf8Ok hp hu)

end V.Json
