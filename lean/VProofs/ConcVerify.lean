/- Lemmas about VModel.ConcVerify (several VerifyJSONs calls on one shared key database).  Core only. -/
import VModel.ConcVerify
import VProofs.KeyRing
namespace V.Conc.Verify
open V V.KeyRing List

/-! ## the shared database -/

theorem dbAnswer_nil (db : KeyMap) : dbAnswer db [] = [] := by
  unfold dbAnswer
  induction db with
  | nil => rfl
  | cons e rest ih => simp [List.filter, AList.contains, AList.lookup]

theorem dbStore_nil (db : KeyMap) : dbStore db [] = db := rfl

theorem mem_dbStore {db m : KeyMap} {e : KeyReq × KeyRes} (h : e ∈ dbStore db m) : e ∈ db ∨ e ∈ m := by
  unfold dbStore at h
  induction m generalizing db with
  | nil => exact Or.inl h
  | cons x rest ih =>
    simp only [foldl_cons] at h
    rcases ih h with h1 | h1
    · rcases AList.mem_insert h1 with h2 | h2
      · right; rw [h2]; simp
      · exact Or.inl h2
    · exact Or.inr (List.mem_cons_of_mem _ h1)

/-- after a store the entry of a key is the one it had, or one of the stored entries -/
theorem lookup_dbStore (db m : KeyMap) (q : KeyReq) :
    AList.lookup q (dbStore db m) = AList.lookup q db ∨ ∃ v, (q, v) ∈ m ∧ AList.lookup q (dbStore db m) = some v := by
  unfold dbStore
  induction m generalizing db with
  | nil => exact Or.inl rfl
  | cons x rest ih =>
    simp only [foldl_cons]
    rcases ih (AList.insert x.1 x.2 db) with h1 | ⟨v, hv, h1⟩
    · by_cases hx : x.1 = q
      · right
        refine ⟨x.2, by rw [← hx]; simp, ?_⟩
        rw [h1, ← hx]; exact AList.lookup_insert_self _ _ _
      · left; rw [h1]; exact AList.lookup_insert_ne _ _ (fun h => hx h.symm)
    · exact Or.inr ⟨v, List.mem_cons_of_mem _ hv, h1⟩

/-! ## what a caller is about to store is what its own run hands to `StoreKeys` -/

/-- every pending store is the `stored` of the sequential model run on SOME answer of the database -/
def WF (cs : List Caller) (now : Nat) (s : State) : Prop :=
  ∀ (g : Nat) (c : Caller) (r : Except CallErr (List Bool)) (m : KeyMap), cs[g]? = some c → s.pcs[g]? = some (PC.atStore r m) → ∃ snap, (localRun c now snap).2.stored = some m

theorem toStoreBarrier_atStore {out : Except CallErr (List Bool)} {tr : Trace} {r : Except CallErr (List Bool)} {m : KeyMap}
    (h : (toStoreBarrier out tr).1 = PC.atStore r m) : r = out ∧ tr.stored = some m := by
  unfold toStoreBarrier at h
  split at h
  · rename_i m' hm
    simp only [PC.atStore.injEq] at h
    exact ⟨h.1.symm, by rw [hm, h.2]⟩
  · cases h

theorem afterRead_atStore {c : Caller} {now : Nat} {snap : KeyMap} {r : Except CallErr (List Bool)} {m : KeyMap}
    (h : (afterRead c now snap).1 = PC.atStore r m) :
    r = (localRun c now snap).1 ∧ (localRun c now snap).2.stored = some m := by
  unfold afterRead at h
  simp only at h
  split at h
  · cases h
  · exact toStoreBarrier_atStore h

theorem afterFetch_atStore {c : Caller} {now : Nat} {snap : KeyMap} {r : Except CallErr (List Bool)} {m : KeyMap}
    (h : (afterFetch c now snap).1 = PC.atStore r m) :
    r = (localRun c now snap).1 ∧ (localRun c now snap).2.stored = some m := by
  unfold afterFetch at h
  exact toStoreBarrier_atStore h

theorem pcs_length_poke (cs : List Caller) (now : Nat) (s : State) (g : Nat) : (poke cs now s g).1.pcs.length = s.pcs.length := by
  unfold poke
  split
  · split <;> (try split) <;> simp
  · rfl

/-- the program counters of the callers that did not move are untouched -/
theorem pcs_poke_ne (cs : List Caller) (now : Nat) (s : State) (g g' : Nat) (h : g ≠ g') :
    (poke cs now s g).1.pcs[g']? = s.pcs[g']? := by
  unfold poke
  split
  · split <;> (try split) <;> simp [List.getElem?_set_ne h]
  · rfl

theorem wf_init (cs : List Caller) (now : Nat) (db0 : KeyMap) : WF cs now (init db0 cs.length) := by
  unfold WF
  intro g c r m _ h
  simp only [init, List.getElem?_replicate] at h
  split at h <;> cases h

theorem wf_poke {cs : List Caller} {now : Nat} {s : State} (h : WF cs now s) (g : Nat) : WF cs now (poke cs now s g).1 := by
  unfold WF at h ⊢
  intro g' c' r m hc hpc
  by_cases hg : g = g'
  · subst hg
    unfold poke at hpc
    rw [hc] at hpc
    cases hp : s.pcs[g]? with
    | none => rw [hp] at hpc; simp only at hpc; rw [hp] at hpc; cases hpc
    | some pc =>
      have hlt : g < s.pcs.length := by
        rcases Nat.lt_or_ge g s.pcs.length with h1 | h1
        · exact h1
        · rw [List.getElem?_eq_none h1] at hp; cases hp
      rw [hp] at hpc
      cases pc with
      | idle =>
        simp only at hpc
        split at hpc <;> simp [List.getElem?_set_self hlt] at hpc
      | atRead =>
        simp only [List.getElem?_set_self hlt, Option.some.injEq] at hpc
        exact ⟨_, (afterRead_atStore hpc).2⟩
      | atFetch snap =>
        simp only [List.getElem?_set_self hlt, Option.some.injEq] at hpc
        exact ⟨_, (afterFetch_atStore hpc).2⟩
      | atStore r' m' =>
        simp [List.getElem?_set_self hlt] at hpc
      | done r' =>
        simp only at hpc
        rw [hp] at hpc; cases hpc
  · rw [pcs_poke_ne cs now s g g' hg] at hpc
    exact h g' c' r m hc hpc

theorem wf_of_reachable {cs : List Caller} {now : Nat} {db0 : KeyMap} {s : State} (h : Reachable cs now db0 s) : WF cs now s := by
  induction h with
  | init => exact wf_init cs now db0
  | step g _ ih => exact wf_poke ih g

/-- the database after a move: unchanged, or (a store) the pending entries of that caller written over it -/
theorem db_poke (cs : List Caller) (now : Nat) (s : State) (g : Nat) :
    (poke cs now s g).1.db = s.db ∨
      ∃ c r m, cs[g]? = some c ∧ s.pcs[g]? = some (PC.atStore r m) ∧ (poke cs now s g).1.db = dbStore s.db m := by
  unfold poke
  cases hc : cs[g]? with
  | none => exact Or.inl rfl
  | some c =>
    cases hp : s.pcs[g]? with
    | none => exact Or.inl rfl
    | some pc =>
      cases pc with
      | idle => simp only; split <;> exact Or.inl rfl
      | atRead => exact Or.inl rfl
      | atFetch snap => exact Or.inl rfl
      | atStore r m => exact Or.inr ⟨c, r, m, rfl, rfl, rfl⟩
      | done r => exact Or.inl rfl

/-! ## one move, caller by caller -/

def nextPC (c : Caller) (now : Nat) (db : KeyMap) : PC → PC
  | .idle => if (asked c).isEmpty then .done (localRun c now []).1 else .atRead
  | .atRead => (afterRead c now (dbAnswer db (asked c))).1
  | .atFetch snap => (afterFetch c now snap).1
  | .atStore out _ => .done out
  | .done r => .done r

def nextDB (db : KeyMap) : PC → KeyMap
  | .atStore _ m => dbStore db m
  | _ => db

theorem poke_db {cs : List Caller} {now : Nat} {s : State} {g : Nat} {c : Caller} {pc : PC}
    (hc : cs[g]? = some c) (hp : s.pcs[g]? = some pc) : (poke cs now s g).1.db = nextDB s.db pc := by
  unfold poke
  rw [hc, hp]
  cases pc with
  | idle => simp only [nextDB]; split <;> rfl
  | _ => rfl

theorem poke_pc {cs : List Caller} {now : Nat} {s : State} {g : Nat} {c : Caller} {pc : PC}
    (hc : cs[g]? = some c) (hp : s.pcs[g]? = some pc) : (poke cs now s g).1.pcs[g]? = some (nextPC c now s.db pc) := by
  have hlt : g < s.pcs.length := by
    rcases Nat.lt_or_ge g s.pcs.length with h1 | h1
    · exact h1
    · rw [List.getElem?_eq_none h1] at hp; cases hp
  unfold poke
  rw [hc, hp]
  cases pc with
  | idle => simp only [nextPC]; split <;> simp [List.getElem?_set_self hlt]
  | atRead => simp [nextPC, List.getElem?_set_self hlt]
  | atFetch snap => simp [nextPC, List.getElem?_set_self hlt]
  | atStore r m => simp [nextPC, List.getElem?_set_self hlt]
  | done r => simpa [nextPC] using hp

theorem poke_none {cs : List Caller} {now : Nat} {s : State} {g : Nat} (h : cs[g]? = none ∨ s.pcs[g]? = none) :
    (poke cs now s g).1 = s := by
  unfold poke
  rcases h with h | h
  · rw [h]
  · rw [h]; cases cs[g]? <;> rfl

/-- no key requests: the call returns before it reads the database; the sequential model says the same whatever the database -/
theorem localRun_of_asked_empty {c : Caller} {now : Nat} (h : (asked c).isEmpty = true) (snap : KeyMap) :
    localRun c now snap = (.ok (results0 c.reqs), {}) := by
  unfold localRun
  rw [verifyJSONs_eq]
  have : (keyRequests0 c.reqs).isEmpty = true := h
  simp [this]

theorem runAlone_fst (c : Caller) (now : Nat) (db : KeyMap) :
    (runAlone c now db).1 = (localRun c now (dbAnswer db (asked c))).1 := rfl

theorem runAlone_snd (c : Caller) (now : Nat) (db : KeyMap) :
    (runAlone c now db).2 = match (localRun c now (dbAnswer db (asked c))).2.stored with
      | some m => dbStore db m
      | none => db := rfl

/-- the shapes of a caller's program counter when its database read saw `dv` -/
def PCInv (c : Caller) (now : Nat) (dv : KeyMap) : PC → Prop
  | .idle => True
  | .atRead => True
  | .atFetch snap => snap = dbAnswer dv (asked c)
  | .atStore r m => r = (localRun c now (dbAnswer dv (asked c))).1 ∧ (localRun c now (dbAnswer dv (asked c))).2.stored = some m
  | .done r => r = (runAlone c now dv).1

theorem toStoreBarrier_inv (c : Caller) (now : Nat) (dv : KeyMap) :
    PCInv c now dv (toStoreBarrier (localRun c now (dbAnswer dv (asked c))).1 (localRun c now (dbAnswer dv (asked c))).2).1 := by
  unfold toStoreBarrier
  split
  · rename_i m hm; exact ⟨rfl, hm⟩
  · exact runAlone_fst c now dv

theorem PCInv_next {c : Caller} {now : Nat} {dv db : KeyMap} {pc : PC} (h : PCInv c now dv pc) (hr : pc = .atRead → db = dv) :
    PCInv c now dv (nextPC c now db pc) := by
  cases pc with
  | idle =>
    simp only [nextPC]
    split
    · rename_i he
      show _ = (runAlone c now dv).1
      rw [runAlone_fst, localRun_of_asked_empty he, localRun_of_asked_empty he]
    · trivial
  | atRead =>
    rw [hr rfl]
    simp only [nextPC, afterRead]
    split
    · rfl
    · exact toStoreBarrier_inv c now dv
  | atFetch snap =>
    simp only [PCInv] at h
    subst h
    simp only [nextPC, afterFetch]
    exact toStoreBarrier_inv c now dv
  | atStore r m =>
    simp only [PCInv] at h
    exact h.1
  | done r => exact h

/-- when a caller that saw `dv` returns, what it did to the database is what running it alone on `dv` does -/
theorem nextDB_of_finish {c : Caller} {now : Nat} {dv db : KeyMap} {pc : PC} (h : PCInv c now dv pc) (hr : pc = .atRead → db = dv)
    (hnd : isDone pc = false) (hd : isDone (nextPC c now db pc) = true) : nextDB dv pc = (runAlone c now dv).2 := by
  rw [runAlone_snd]
  cases pc with
  | idle =>
    simp only [nextPC] at hd
    split at hd
    · rename_i he
      rw [localRun_of_asked_empty he]; rfl
    · cases hd
  | atRead =>
    rw [hr rfl] at hd
    simp only [nextPC, afterRead] at hd
    split at hd
    · cases hd
    · unfold toStoreBarrier at hd
      split at hd
      · cases hd
      · rename_i hn; rw [hn]; rfl
  | atFetch snap =>
    simp only [PCInv] at h
    subst h
    simp only [nextPC, afterFetch] at hd
    unfold toStoreBarrier at hd
    split at hd
    · cases hd
    · rename_i hn; rw [hn]; rfl
  | atStore r m =>
    simp only [PCInv] at h
    rw [h.2]; rfl
  | done r => cases hnd

theorem nextDB_of_not_atStore {db : KeyMap} {pc : PC} (h : ∀ r m, pc ≠ .atStore r m) : nextDB db pc = db := by
  cases pc with
  | atStore r m => exact absurd rfl (h r m)
  | _ => rfl

theorem isDone_next_of_done {c : Caller} {now : Nat} {db : KeyMap} {pc : PC} (h : isDone pc = true) : nextPC c now db pc = pc := by
  cases pc with
  | done r => rfl
  | _ => cases h

/-! ## at most one caller ever has something to store: every interleaving is a sequential execution -/

/-- the database once caller `x` has run alone on `db0` (`db0` itself if there is no caller `x`) -/
def dbAfter (cs : List Caller) (now : Nat) (db0 : KeyMap) (x : Nat) : KeyMap :=
  match cs[x]? with
  | some c => (runAlone c now db0).2
  | none => db0

def xDone (x : Nat) (s : State) : Prop := ∃ pc, s.pcs[x]? = some pc ∧ isDone pc = true

/-- the callers other than `x` never have anything to store, whatever they read -/
def Silent (cs : List Caller) (now : Nat) (x : Nat) : Prop :=
  ∀ (g : Nat) (c : Caller), g ≠ x → cs[g]? = some c →
    ∀ snap, (localRun c now snap).2.stored = none ∨ (localRun c now snap).2.stored = some []

structure Inv (cs : List Caller) (now : Nat) (db0 : KeyMap) (x : Nat) (s : State) : Prop where
  len : s.pcs.length = cs.length
  dbDone : xDone x s → s.db = dbAfter cs now db0 x
  dbNot : ¬ xDone x s → s.db = db0
  writer : ∀ (c : Caller) (pc : PC), cs[x]? = some c → s.pcs[x]? = some pc → PCInv c now db0 pc
  silent : ∀ (g : Nat) (c : Caller) (pc : PC), g ≠ x → cs[g]? = some c → s.pcs[g]? = some pc →
      PCInv c now db0 pc ∨ (xDone x s ∧ PCInv c now (dbAfter cs now db0 x) pc)

theorem inv_init (cs : List Caller) (now : Nat) (db0 : KeyMap) (x : Nat) : Inv cs now db0 x (init db0 cs.length) := by
  have hidle : ∀ (g : Nat) (pc : PC), (init db0 cs.length).pcs[g]? = some pc → pc = .idle := by
    intro g pc h
    simp only [init, List.getElem?_replicate] at h
    split at h
    · cases h; rfl
    · cases h
  refine ⟨by simp [init], ?_, fun _ => rfl, ?_, ?_⟩
  · rintro ⟨pc, hpc, hd⟩
    rw [hidle _ _ hpc] at hd; cases hd
  · intro c pc _ hpc; rw [hidle _ _ hpc]; trivial
  · intro g c pc _ _ hpc; rw [hidle _ _ hpc]; exact Or.inl trivial

theorem inv_poke {cs : List Caller} {now : Nat} {db0 : KeyMap} {x : Nat} (hsil : Silent cs now x) {s : State}
    (h : Inv cs now db0 x s) (g : Nat) : Inv cs now db0 x (poke cs now s g).1 := by
  cases hc : cs[g]? with
  | none => rw [poke_none (Or.inl hc)]; exact h
  | some c =>
  cases hp : s.pcs[g]? with
  | none => rw [poke_none (Or.inr hp)]; exact h
  | some pc =>
  have hdb := poke_db (now := now) hc hp
  have hpc := poke_pc (now := now) hc hp
  have hne := pcs_poke_ne cs now s g
  have hlen := pcs_length_poke cs now s g
  by_cases hgx : g = x
  · -- the writer moves
    subst hgx
    have hxd : xDone g s ↔ isDone pc = true := by
      constructor
      · rintro ⟨pc', h1, h2⟩; rw [hp] at h1; cases h1; exact h2
      · intro h1; exact ⟨pc, hp, h1⟩
    have hxd' : xDone g (poke cs now s g).1 ↔ isDone (nextPC c now s.db pc) = true := by
      constructor
      · rintro ⟨pc', h1, h2⟩; rw [hpc] at h1; cases h1; exact h2
      · intro h1; exact ⟨_, hpc, h1⟩
    cases hd : isDone pc with
    | true =>
      -- it had returned: nothing changes
      have hsame : nextPC c now s.db pc = pc := isDone_next_of_done hd
      have hdbs : nextDB s.db pc = s.db := nextDB_of_not_atStore (by intro r m he; rw [he] at hd; cases hd)
      rw [hsame] at hpc hxd'
      rw [hdbs] at hdb
      have hx : xDone g s := hxd.2 hd
      refine ⟨by rw [hlen]; exact h.len, fun _ => by rw [hdb]; exact h.dbDone hx, fun hn => absurd (hxd'.2 hd) hn, ?_, ?_⟩
      · intro c' pc' hc' hpc'
        rw [hpc] at hpc'; cases hpc'
        exact h.writer c' pc hc' hp
      · intro g' c' pc' hg' hc' hpc'
        rw [hne g' (Ne.symm hg')] at hpc'
        rcases h.silent g' c' pc' hg' hc' hpc' with h1 | ⟨_, h1⟩
        · exact Or.inl h1
        · exact Or.inr ⟨hxd'.2 hd, h1⟩
    | false =>
      have hnx : ¬ xDone g s := fun hx => by rw [hxd.1 hx] at hd; cases hd
      have hdb0 : s.db = db0 := h.dbNot hnx
      have hinv := h.writer c pc hc hp
      have hnext : PCInv c now db0 (nextPC c now s.db pc) := PCInv_next hinv (fun _ => hdb0)
      refine ⟨by rw [hlen]; exact h.len, ?_, ?_, ?_, ?_⟩
      · intro hx'
        have hfin := nextDB_of_finish hinv (fun _ => hdb0) hd (hxd'.1 hx')
        rw [hdb, hdb0, hfin]
        simp only [dbAfter, hc]
      · intro hnx'
        have hnd : isDone (nextPC c now s.db pc) = false := by
          cases hh : isDone (nextPC c now s.db pc) with
          | true => exact absurd (hxd'.2 hh) hnx'
          | false => rfl
        rw [hdb, nextDB_of_not_atStore, hdb0]
        intro r m he
        rw [he] at hnd
        simp [nextPC, isDone] at hnd
      · intro c' pc' hc' hpc'
        rw [hpc] at hpc'; cases hpc'
        rw [hc] at hc'; cases hc'
        exact hnext
      · intro g' c' pc' hg' hc' hpc'
        rw [hne g' (Ne.symm hg')] at hpc'
        rcases h.silent g' c' pc' hg' hc' hpc' with h1 | ⟨hx, _⟩
        · exact Or.inl h1
        · exact absurd hx hnx
  · -- a silent caller moves
    have hxsame : (poke cs now s g).1.pcs[x]? = s.pcs[x]? := hne x hgx
    have hxd' : xDone x (poke cs now s g).1 ↔ xDone x s := by
      unfold xDone; rw [hxsame]
    have hview := h.silent g c pc hgx hc hp
    have hdbs : nextDB s.db pc = s.db := by
      cases pc with
      | atStore r m =>
        have hm : m = [] := by
          rcases hview with h1 | ⟨_, h1⟩ <;>
          · simp only [PCInv] at h1
            rcases hsil g c hgx hc _ with h2 | h2
            · rw [h2] at h1; cases h1.2
            · rw [h2] at h1; simpa using h1.2.symm
        subst hm; rfl
      | _ => rfl
    rw [hdbs] at hdb
    refine ⟨by rw [hlen]; exact h.len, fun hx => by rw [hdb]; exact h.dbDone (hxd'.1 hx),
      fun hn => by rw [hdb]; exact h.dbNot (fun hx => hn (hxd'.2 hx)), ?_, ?_⟩
    · intro c' pc' hc' hpc'
      rw [hxsame] at hpc'
      exact h.writer c' pc' hc' hpc'
    · intro g' c' pc' hg' hc' hpc'
      by_cases hgg : g = g'
      · subst hgg
        rw [hpc] at hpc'; cases hpc'
        rw [hc] at hc'; cases hc'
        by_cases hread : pc = .atRead
        · -- the read fixes the view: the database as it is now
          by_cases hx : xDone x s
          · exact Or.inr ⟨hxd'.2 hx, PCInv_next (by rw [hread]; trivial) (fun _ => h.dbDone hx)⟩
          · exact Or.inl (PCInv_next (by rw [hread]; trivial) (fun _ => h.dbNot hx))
        · rcases hview with h1 | ⟨hx, h1⟩
          · exact Or.inl (PCInv_next h1 (fun he => absurd he hread))
          · exact Or.inr ⟨hxd'.2 hx, PCInv_next h1 (fun he => absurd he hread)⟩
      · rw [hne g' hgg] at hpc'
        rcases h.silent g' c' pc' hg' hc' hpc' with h1 | ⟨hx, h1⟩
        · exact Or.inl h1
        · exact Or.inr ⟨hxd'.2 hx, h1⟩

theorem inv_of_reachable {cs : List Caller} {now : Nat} {db0 : KeyMap} {x : Nat} (hsil : Silent cs now x) {s : State}
    (h : Reachable cs now db0 s) : Inv cs now db0 x s := by
  induction h with
  | init => exact inv_init cs now db0 x
  | step g _ ih => exact inv_poke hsil ih g

theorem reachable_run {cs : List Caller} {now : Nat} {db0 : KeyMap} {s : State} (h : Reachable cs now db0 s) (sched : List Nat) :
    Reachable cs now db0 (run cs now s sched) := by
  induction sched generalizing s with
  | nil => exact h
  | cons g rest ih => exact ih (Reachable.step g h)

/-! ### the sequential execution that gives the same outcome -/

theorem serial_append (cs : List Caller) (now : Nat) (l1 l2 : List Nat) (db : KeyMap) :
    serial cs now (l1 ++ l2) db =
      ((serial cs now l1 db).1 ++ (serial cs now l2 (serial cs now l1 db).2).1, (serial cs now l2 (serial cs now l1 db).2).2) := by
  induction l1 generalizing db with
  | nil => simp [serial]
  | cons g rest ih =>
    simp only [List.cons_append, serial]
    cases cs[g]? with
    | none => exact ih db
    | some c => simp only [ih, List.cons_append]

/-- what caller `g` gets when it runs alone on `db` -/
def resAt (cs : List Caller) (now : Nat) (db : KeyMap) (g : Nat) : Option (Nat × Except CallErr (List Bool)) :=
  match cs[g]? with
  | some c => some (g, (runAlone c now db).1)
  | none => none

theorem runAlone_silent {cs : List Caller} {now : Nat} {x : Nat} (hsil : Silent cs now x) {g : Nat} {c : Caller}
    (hg : g ≠ x) (hc : cs[g]? = some c) (db : KeyMap) : (runAlone c now db).2 = db := by
  rw [runAlone_snd]
  rcases hsil g c hg hc (dbAnswer db (asked c)) with h | h <;> rw [h]
  rfl

/-- callers that have nothing to store, one after the other: the database stays as it is, each gets what it gets alone -/
theorem serial_silent {cs : List Caller} {now : Nat} {x : Nat} (hsil : Silent cs now x) (l : List Nat) (hl : ∀ g ∈ l, g ≠ x) (db : KeyMap) :
    serial cs now l db = (l.filterMap (resAt cs now db), db) := by
  induction l with
  | nil => rfl
  | cons g rest ih =>
    have hrest := ih (fun g' hg' => hl g' (List.mem_cons_of_mem _ hg'))
    simp only [serial, List.filterMap_cons, resAt]
    cases hc : cs[g]? with
    | none => simp only; exact hrest
    | some c =>
      simp only
      rw [runAlone_silent hsil (hl g (by simp)) hc db, hrest]

theorem filterMap_congr' {α β} (l : List α) (f g : α → Option β) (h : ∀ x ∈ l, f x = g x) : l.filterMap f = l.filterMap g := by
  induction l with
  | nil => rfl
  | cons a rest ih =>
    simp only [List.filterMap_cons, h a (by simp)]
    rw [ih (fun x hx => h x (List.mem_cons_of_mem _ hx))]

theorem eq_nil_or_singleton {l : List Nat} {x : Nat} (hn : l.Nodup) (hx : ∀ y ∈ l, y = x) : l = [] ∨ l = [x] := by
  cases l with
  | nil => exact Or.inl rfl
  | cons a rest =>
    right
    have ha : a = x := hx a (by simp)
    subst ha
    cases rest with
    | nil => rfl
    | cons b rest' =>
      have hb : b = a := hx b (by simp)
      subst hb
      simp at hn

/-- what the callers hold in `s`, listed in the given order -/
def heldIn (s : State) (order : List Nat) : List (Nat × Except CallErr (List Bool)) :=
  order.filterMap (fun g => (resultOf s g).map (fun r => (g, r)))

theorem resultOf_done {s : State} {g : Nat} {r : Except CallErr (List Bool)} (h : s.pcs[g]? = some (PC.done r)) : resultOf s g = some r := by
  unfold resultOf; rw [h]

/-- **Every interleaving is a sequential execution** when at most one caller (`x`) ever has something to store: in a state
    in which every caller has returned, the callers' results and the database are those of running the calls one after
    the other in some order. -/
theorem serializable_of_inv {cs : List Caller} {now : Nat} {db0 : KeyMap} {x : Nat} (hsil : Silent cs now x) {s : State}
    (h : Inv cs now db0 x s) (hall : ∀ g, g < cs.length → ∃ r, s.pcs[g]? = some (PC.done r)) :
    ∃ order : List Nat, order.Perm (List.range cs.length) ∧ serial cs now order db0 = (heldIn s order, s.db) := by
  classical
  -- the callers whose result is the one they get alone on the initial database
  let A : Nat → Bool := fun g => decide (resultOf s g = (cs[g]?).map (fun c => (runAlone c now db0).1))
  let L := (List.range cs.length).filter (fun g => decide (g ≠ x))
  let X := (List.range cs.length).filter (fun g => !decide (g ≠ x))
  let LA := L.filter A
  let LB := L.filter (fun g => !A g)
  have hL : ∀ g ∈ L, g ≠ x ∧ g < cs.length := by
    intro g hg
    have := List.mem_filter.1 hg
    exact ⟨by simpa using this.2, List.mem_range.1 this.1⟩
  have hXx : ∀ g ∈ X, g = x := by
    intro g hg
    have := (List.mem_filter.1 hg).2
    simpa using this
  have hXlt : ∀ g ∈ X, g < cs.length := fun g hg => List.mem_range.1 (List.mem_filter.1 hg).1
  have hXn : X.Nodup := List.Pairwise.filter _ List.nodup_range
  refine ⟨LA ++ (X ++ LB), ?_, ?_⟩
  · -- a permutation of the callers
    have h1 : (LA ++ LB).Perm L := List.filter_append_perm A L
    have h2 : (L ++ X).Perm (List.range cs.length) := List.filter_append_perm (fun g => decide (g ≠ x)) (List.range cs.length)
    have h3 : (LA ++ (X ++ LB)).Perm (LA ++ (LB ++ X)) := List.Perm.append_left LA List.perm_append_comm
    have h4 : (LA ++ (LB ++ X)).Perm (L ++ X) := by
      rw [← List.append_assoc]; exact List.Perm.append_right X h1
    exact h3.trans (h4.trans h2)
  · -- running them in that order
    have hLAx : ∀ g ∈ LA, g ≠ x := fun g hg => (hL g (List.mem_filter.1 hg).1).1
    have hLBx : ∀ g ∈ LB, g ≠ x := fun g hg => (hL g (List.mem_filter.1 hg).1).1
    have hA : serial cs now LA db0 = (heldIn s LA, db0) := by
      rw [serial_silent hsil LA hLAx db0]
      congr 1
      unfold heldIn
      apply filterMap_congr'
      intro g hg
      have hAg : resultOf s g = (cs[g]?).map (fun c => (runAlone c now db0).1) := by
        have := (List.mem_filter.1 hg).2
        simpa [A] using this
      rw [hAg]
      unfold resAt
      cases cs[g]? <;> rfl
    -- the other silent callers read the database after caller x's store
    have hB : ∀ g ∈ LB, xDone x s ∧ resAt cs now (dbAfter cs now db0 x) g = (resultOf s g).map (fun r => (g, r)) := by
      intro g hg
      have hgL := hL g (List.mem_filter.1 hg).1
      obtain ⟨r, hr⟩ := hall g hgL.2
      have hlt : g < cs.length := hgL.2
      obtain ⟨c, hc⟩ : ∃ c, cs[g]? = some c := ⟨cs[g], List.getElem?_eq_getElem hlt⟩
      have hnA : ¬ (resultOf s g = (cs[g]?).map (fun c => (runAlone c now db0).1)) := by
        have := (List.mem_filter.1 hg).2
        simpa [A] using this
      rcases h.silent g c _ hgL.1 hc hr with h1 | ⟨hx, h1⟩
      · exfalso; apply hnA
        rw [resultOf_done hr, hc]
        simp only [PCInv] at h1
        simp [h1]
      · refine ⟨hx, ?_⟩
        simp only [PCInv] at h1
        rw [resultOf_done hr]
        simp [resAt, hc, h1]
    rw [serial_append, hA]
    simp only
    rcases eq_nil_or_singleton hXn hXx with hX | hX
    · -- there is no caller x: nobody stores anything
      have hnx : ¬ xDone x s := by
        rintro ⟨pc, hpc, _⟩
        have hxl : x < s.pcs.length := by
          rcases Nat.lt_or_ge x s.pcs.length with h1 | h1
          · exact h1
          · rw [List.getElem?_eq_none h1] at hpc; cases hpc
        rw [h.len] at hxl
        have : x ∈ X := List.mem_filter.2 ⟨List.mem_range.2 hxl, by simp⟩
        rw [hX] at this; cases this
      have hLBnil : LB = [] := by
        cases hlb : LB with
        | nil => rfl
        | cons g rest => exact absurd (hB g (by rw [hlb]; simp)).1 hnx
      rw [hX, hLBnil]
      simp only [List.append_nil, serial, h.dbNot hnx]
    · -- caller x runs between the two groups
      have hxX : x ∈ X := by rw [hX]; simp
      have hxl : x < cs.length := hXlt x hxX
      obtain ⟨c, hc⟩ : ∃ c, cs[x]? = some c := ⟨cs[x], List.getElem?_eq_getElem hxl⟩
      obtain ⟨r, hr⟩ := hall x hxl
      have hx : xDone x s := ⟨_, hr, rfl⟩
      have hw := h.writer c _ hc hr
      simp only [PCInv] at hw
      have hafter : dbAfter cs now db0 x = (runAlone c now db0).2 := by simp only [dbAfter, hc]
      have hLB : serial cs now LB (dbAfter cs now db0 x) = (heldIn s LB, dbAfter cs now db0 x) := by
        rw [serial_silent hsil LB hLBx]
        congr 1
        unfold heldIn
        apply filterMap_congr'
        intro g hg
        exact (hB g hg).2
      rw [hX]
      simp only [List.singleton_append, serial, hc, ← hafter, hLB]
      unfold heldIn
      simp only [List.filterMap_append, List.filterMap_cons, resultOf_done hr, Option.map_some, ← hw, h.dbDone hx]

end V.Conc.Verify
