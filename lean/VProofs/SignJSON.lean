/- What a successful SignJSON does to an object: the shape of the result, which signature VerifyJSON finds
   in it, and that every other signature, every signed member and `unsigned` are kept.  Core only. -/
import VProofs.SignMaps
namespace V.Sign
open V V.Json V.GoJson List

/-- the inner map SignJSON extends (empty when the name has no entry yet) -/
def innerOf (m : SigMap) (n : Bytes) : List (Bytes × Bytes) :=
  match mapGet m n with
  | some (some i) => i
  | _ => []

/-- `signatures[name][kid]` in a decoded map -/
def lookupIn (m : SigMap) (n k : Bytes) : SigLookup :=
  match mapGet m n with
  | some (some inner) =>
    match mapGet inner k with
    | some s => .found s
    | none => .noSig
  | _ => .noSig

/-- the signature bytes found, if any -/
def SigLookup.sigAt : SigLookup → Option Bytes
  | .found s => some s
  | _ => none

/-- Shape of a successful `signJSON` on an object. -/
theorem signJSON_ok_shape (S : SigScheme) (n k : Bytes) (sk : S.SK) (o : List (Bytes × JVal)) (v' : JVal)
    (h : signJSON S n k sk (.obj o) = .ok v') :
    ∃ p, readPreserve o = some p ∧
      v' = .obj (assemble (body o)
        (sigMapToJVal (mapSet (p.sigs.getD []) n (some (mapSet (innerOf (p.sigs.getD []) n) k (S.sign sk (payload o))))))
        p.unsigned) := by
  unfold signJSON at h
  simp only at h
  cases hd : readPreserve o with
  | none => simp [hd] at h
  | some p =>
    simp only [hd, Option.map_some] at h
    refine ⟨p, rfl, ?_⟩
    cases hg : mapGet (p.sigs.getD []) n with
    | none =>
      simp only [hg, Except.ok.injEq] at h
      rw [← h]
      simp [innerOf, hg, mapSet, membersOf, payload]
    | some i =>
      cases i with
      | none =>
        simp only [hg, Except.ok.injEq] at h
        rw [← h]
        simp [innerOf, hg, mapSet, membersOf, payload]
      | some inner =>
        simp only [hg, Except.ok.injEq] at h
        rw [← h]
        simp [innerOf, hg, membersOf, payload]

/-- signing an object never fails once the `preserve` struct has been decoded, and never panics -/
theorem signJSON_no_panic (S : SigScheme) (n k : Bytes) (sk : S.SK) (v : JVal) (site : String) :
    signJSON S n k sk v ≠ .error (.panic site) := by
  unfold signJSON
  simp only
  split
  · simp [errUnmarshal]
  · split <;> simp

theorem wf_set (m : SigMap) (n k sig : Bytes) (hw : WF m) :
    WF (mapSet m n (some (mapSet (innerOf m n) k sig))) := by
  apply wf_mapSet m n _ hw
  intro es hes
  cases hes
  apply uniqueKeys_mapSet
  unfold innerOf
  cases hg : mapGet m n with
  | none => exact Pairwise.nil
  | some i =>
    cases i with
    | none => exact Pairwise.nil
    | some inner => exact hw.2 (n, some inner) (mem_of_mapGet hg) inner rfl

/-- In the object SignJSON assembles, VerifyJSON's lookup is a lookup in the marshalled map. -/
theorem sigLookup_assemble (b : List (Bytes × JVal)) (m : SigMap) (hw : WF m) (uns : Option JVal) (n k : Bytes) :
    sigLookup (assemble b (sigMapToJVal m) uns) n k = lookupIn m n k := by
  have hd := decode_sigMapToJVal m hw
  unfold sigLookup
  rw [getLast_assemble_sig]
  rw [sigMapToJVal_eq] at hd ⊢
  simp only [hd]
  unfold lookupIn
  cases mapGet m n with
  | none => rfl
  | some i => cases i <;> rfl

theorem lookupIn_set_same (m : SigMap) (i : List (Bytes × Bytes)) (n k sig : Bytes) :
    lookupIn (mapSet m n (some (mapSet i k sig))) n k = .found sig := by
  unfold lookupIn
  rw [mapGet_mapSet_same]
  simp only [mapGet_mapSet_same]

theorem lookupIn_set_other (m : SigMap) (n k sig n' k' : Bytes) (hne : (n', k') ≠ (n, k)) :
    (lookupIn (mapSet m n (some (mapSet (innerOf m n) k sig))) n' k').sigAt = (lookupIn m n' k').sigAt := by
  by_cases hn : n' = n
  · subst hn
    have hk : k' ≠ k := fun e => hne (by rw [e])
    unfold lookupIn
    rw [mapGet_mapSet_same]
    simp only [mapGet_mapSet_ne _ k k' sig hk]
    unfold innerOf
    cases hg : mapGet m n' with
    | none => simp [mapGet, SigLookup.sigAt]
    | some i =>
      cases i with
      | none => simp [mapGet, SigLookup.sigAt]
      | some inner => rfl
  · unfold lookupIn
    rw [mapGet_mapSet_ne _ n n' _ hn]

/-- The signatures SignJSON preserves are the ones VerifyJSON would have found, and `unsigned` is the member. -/
theorem preserve_lookup (o : List (Bytes × JVal)) (p : Preserve) (hd : readPreserve o = some p) :
    (∀ n k, (sigLookup o n k).sigAt = (lookupIn (p.sigs.getD []) n k).sigAt) ∧ p.unsigned = getLast o kUnsigned := by
  unfold readPreserve at hd
  simp only [Option.map_eq_some_iff] at hd
  obtain ⟨s, hs, hp⟩ := hd
  subst hp
  refine ⟨fun n k => ?_, rfl⟩
  cases hg : getLast o kSignatures with
  | none =>
    simp only [hg, Option.some.injEq] at hs
    subst hs
    simp [sigLookup, hg, lookupIn, mapGet, SigLookup.sigAt]
  | some v =>
    simp only [hg] at hs
    cases v with
    | obj ms =>
      simp only [decodeOuterInto, Option.getD_some, Option.map_eq_some_iff] at hs
      obtain ⟨r, hr, he⟩ := hs
      subst he
      simp only [sigLookup, hg, decodeOuterInto, Option.getD_none, hr, Option.map_some, Option.getD_some]
      rfl
    | null =>
      simp only [decodeOuterInto, Option.some.injEq] at hs
      subst hs
      simp [sigLookup, hg, lookupIn, mapGet, SigLookup.sigAt]
    | bool b => simp [decodeOuterInto] at hs
    | num l => simp [decodeOuterInto] at hs
    | str s' => simp [decodeOuterInto] at hs
    | arr xs => simp [decodeOuterInto] at hs

theorem uniqueKeys_body (o : List (Bytes × JVal)) (hu : UniqueKeys o) : UniqueKeys (body o) :=
  (hu.sublist List.filter_sublist).sublist List.filter_sublist

theorem mem_body {o : List (Bytes × JVal)} {kv : Bytes × JVal} (h : kv ∈ body o) : kv ∈ o :=
  (List.mem_filter.mp (List.mem_filter.mp h).1).1

theorem uniqueKeys_assemble (o : List (Bytes × JVal)) (hu : UniqueKeys o) (sigs : JVal) (uns : Option JVal) :
    UniqueKeys (assemble (body o) sigs uns) := by
  unfold assemble UniqueKeys
  have hb := uniqueKeys_body o hu
  have hns := body_no_sig o
  have hnu := body_no_uns o
  cases uns with
  | none =>
    simp only [List.append_nil]
    rw [List.pairwise_append]
    refine ⟨hb, List.pairwise_singleton _ _, ?_⟩
    intro a ha b hb'
    simp only [List.mem_singleton] at hb'
    subst hb'
    exact hns a ha
  | some u =>
    rw [List.pairwise_append]
    refine ⟨?_, List.pairwise_singleton _ _, ?_⟩
    · rw [List.pairwise_append]
      refine ⟨hb, List.pairwise_singleton _ _, ?_⟩
      intro a ha b hb'
      simp only [List.mem_singleton] at hb'
      subst hb'
      exact hns a ha
    · intro a ha b hb'
      simp only [List.mem_singleton] at hb'
      subst hb'
      rcases List.mem_append.mp ha with ha | ha
      · exact hnu a ha
      · simp only [List.mem_singleton] at ha
        subst ha
        exact kSig_ne_kUns

/-- the map SignJSON extends (the decoded one, or an empty one when it is nil) is well formed -/
theorem wf_getD (o : List (Bytes × JVal)) (p : Preserve) (hd : readPreserve o = some p) :
    WF (p.sigs.getD []) := by
  cases hs : p.sigs with
  | none => exact wf_nil
  | some m => exact readPreserve_wf o p hd m hs

/-- **Everything a successful SignJSON does to an object.** -/
theorem sign_effect (S : SigScheme) (n k : Bytes) (sk : S.SK) (o : List (Bytes × JVal)) (v' : JVal)
    (h : signJSON S n k sk (.obj o) = .ok v') :
    ∃ o', v' = .obj o' ∧ (UniqueKeys o → UniqueKeys o') ∧ body o' = body o ∧
      getLast o' kUnsigned = getLast o kUnsigned ∧
      sigLookup o' n k = .found (S.sign sk (payload o)) ∧
      ∀ n' k', (n', k') ≠ (n, k) → (sigLookup o' n' k').sigAt = (sigLookup o n' k').sigAt := by
  obtain ⟨p, hd, hv⟩ := signJSON_ok_shape S n k sk o v' h
  have hwm : WF (p.sigs.getD []) := wf_getD o p hd
  have hw' := wf_set (p.sigs.getD []) n k (S.sign sk (payload o)) hwm
  obtain ⟨hlook, huns⟩ := preserve_lookup o p hd
  refine ⟨_, hv, fun hu => uniqueKeys_assemble o hu _ _, body_assemble o _ _, ?_, ?_, ?_⟩
  · rw [getLast_assemble_uns, huns]
  · rw [sigLookup_assemble _ _ hw', lookupIn_set_same]
  · intro n' k' hne
    rw [sigLookup_assemble _ _ hw', lookupIn_set_other _ n k _ n' k' hne, hlook]

end V.Sign
