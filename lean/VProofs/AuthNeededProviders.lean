/-
  VProofs.AuthNeededProviders — C09: what `NewAuthEvents` (Provider.ofEvents) answers, as order-independent data:
  the last event with a given (type, state_key), and the Valid() bit.
-/
import VProofs.AuthNeeded
namespace V.AuthNeeded
open V V.Json V.GoJson V.Auth V.StateRes V.AuthRules

/-- the key predicate of a lookup -/
def isKey (t k : Bytes) (e : Event) : Bool := e.type == t && e.stateKey == some k

/-- the last event of the list with the given key -/
def lastWith (t k : Bytes) (l : List Event) : Option Event :=
  l.foldl (fun r e => if isKey t k e then some e else r) none

def stepEvents (acc : List Event) (e : Event) : List Event :=
  acc.filter (fun x => !(x.type == e.type && x.stateKey == e.stateKey)) ++ [e]

theorem find_congr {α} (p1 p2 : α → Bool) (l : List α) (h : ∀ x ∈ l, p1 x = p2 x) : l.find? p1 = l.find? p2 := by
  induction l with
  | nil => rfl
  | cons a rest ih =>
    simp only [List.find?_cons, h a (List.mem_cons_self ..)]
    rw [ih (fun x hx => h x (List.mem_cons_of_mem _ hx))]

theorem key_same {t k : Bytes} {x e : Event} (hx : isKey t k x = true) (he : isKey t k e = true) :
    (x.type == e.type && x.stateKey == e.stateKey) = true := by
  unfold isKey at hx he
  simp only [Bool.and_eq_true, beq_iff_eq] at hx he ⊢
  exact ⟨hx.1.trans he.1.symm, hx.2.trans he.2.symm⟩

theorem key_of_same {t k : Bytes} {x e : Event} (hx : isKey t k x = true)
    (hs : (x.type == e.type && x.stateKey == e.stateKey) = true) : isKey t k e = true := by
  unfold isKey at hx ⊢
  simp only [Bool.and_eq_true, beq_iff_eq] at hx hs ⊢
  exact ⟨hs.1 ▸ hx.1, hs.2 ▸ hx.2⟩

theorem find_step (t k : Bytes) (acc : List Event) (e : Event) :
    (stepEvents acc e).find? (isKey t k) = if isKey t k e then some e else acc.find? (isKey t k) := by
  unfold stepEvents
  rw [List.find?_append, List.find?_filter]
  by_cases hk : isKey t k e = true
  · have : acc.find? (fun a => decide ((!(a.type == e.type && a.stateKey == e.stateKey)) = true ∧ isKey t k a = true)) = none := by
      rw [List.find?_eq_none]
      intro x _ hkx
      simp only [decide_eq_true_eq, Bool.not_eq_true'] at hkx
      have := key_same hkx.2 hk
      rw [this] at hkx
      exact absurd hkx.1 (by simp)
    rw [this]
    simp only [hk, if_true, List.find?_cons, Option.none_or]
  · have hk' : isKey t k e = false := by simpa using hk
    have : acc.find? (fun a => decide ((!(a.type == e.type && a.stateKey == e.stateKey)) = true ∧ isKey t k a = true)) = acc.find? (isKey t k) := by
      apply find_congr
      intro x _
      by_cases hx : isKey t k x = true
      · have : (x.type == e.type && x.stateKey == e.stateKey) = false := by
          rw [Bool.eq_false_iff]
          intro hs
          exact hk (key_of_same hx hs)
        simp [this, hx]
      · have hx' : isKey t k x = false := by simpa using hx
        simp [hx']
    rw [this]
    simp only [hk', Bool.false_eq_true, if_false, List.find?_cons, List.find?_nil, Option.or_none]

theorem find_foldl (t k : Bytes) (l : List Event) : ∀ acc : List Event,
    (l.foldl stepEvents acc).find? (isKey t k) = l.foldl (fun r e => if isKey t k e then some e else r) (acc.find? (isKey t k)) := by
  induction l with
  | nil => intro acc; rfl
  | cons e rest ih =>
    intro acc
    simp only [List.foldl_cons]
    rw [ih, find_step]

/-- `NewAuthEvents(l).get(type, state_key)` is the last event of `l` with that key -/
theorem get_ofEvents (l : List Event) (t k : Bytes) (ident : Nat := 0) : (Provider.ofEvents l ident).get t k = lastWith t k l := by
  unfold Provider.get Provider.ofEvents lastWith
  exact find_foldl t k l []

theorem foldl_last (t k : Bytes) (l : List Event) : ∀ r : Option Event,
    l.foldl (fun r e => if isKey t k e then some e else r) r = ((l.filter (isKey t k)).getLast?).or r := by
  induction l with
  | nil => intro r; simp
  | cons e rest ih =>
    intro r
    simp only [List.foldl_cons, ih, List.filter_cons]
    by_cases hk : isKey t k e = true
    · simp only [hk, if_true]
      cases hl : (rest.filter (isKey t k)).getLast? with
      | none =>
        have : rest.filter (isKey t k) = [] := by simpa using hl
        simp [this]
      | some x =>
        have hne : rest.filter (isKey t k) ≠ [] := by
          intro h; rw [h] at hl; cases hl
        rw [List.getLast?_cons_of_ne_nil hne] <;> simp [hl]
    · simp only [hk, if_false, Bool.false_eq_true]

theorem lastWith_eq (t k : Bytes) (l : List Event) : lastWith t k l = (l.filter (isKey t k)).getLast? := by
  unfold lastWith
  rw [foldl_last]
  simp

/-- no two events of the list have the same (type, state_key) -/
def DistinctKeys (l : List Event) : Prop :=
  l.Pairwise (fun a b => (a.type == b.type && a.stateKey == b.stateKey) = false)

theorem filter_key_short {t k : Bytes} {l : List Event} (h : DistinctKeys l) : (l.filter (isKey t k)).length ≤ 1 := by
  have hp : (l.filter (isKey t k)).Pairwise (fun a b => (a.type == b.type && a.stateKey == b.stateKey) = false) :=
    List.Pairwise.sublist List.filter_sublist h
  cases hf : l.filter (isKey t k) with
  | nil => simp
  | cons a rest =>
    cases rest with
    | nil => simp
    | cons b rest' =>
      exfalso
      rw [hf] at hp
      have hab := (List.pairwise_cons.mp hp).1 b (List.mem_cons_self ..)
      have ha : isKey t k a = true := by
        have : a ∈ l.filter (isKey t k) := by rw [hf]; exact List.mem_cons_self ..
        exact (List.mem_filter.mp this).2
      have hb : isKey t k b = true := by
        have : b ∈ l.filter (isKey t k) := by rw [hf]; exact List.mem_cons_of_mem _ (List.mem_cons_self ..)
        exact (List.mem_filter.mp this).2
      rw [key_same ha hb] at hab
      cases hab

theorem perm_short_eq {α} {l1 l2 : List α} (hp : l1.Perm l2) (h : l1.length ≤ 1) : l1 = l2 := by
  cases l1 with
  | nil => exact (List.Perm.nil_eq hp)
  | cons a r1 =>
    cases r1 with
    | nil =>
      have := hp.length_eq
      cases l2 with
      | nil => simp at this
      | cons b r2 =>
        cases r2 with
        | nil =>
          have hm : a ∈ [b] := hp.subset (List.mem_cons_self ..)
          simp at hm; rw [hm]
        | cons c r3 => simp at this
    | cons b r => simp at h

/-- insertion order does not matter when the keys are pairwise distinct -/
theorem lastWith_perm {l1 l2 : List Event} (hp : l1.Perm l2) (hd : DistinctKeys l1) (t k : Bytes) :
    lastWith t k l1 = lastWith t k l2 := by
  rw [lastWith_eq, lastWith_eq]
  have := perm_short_eq (hp.filter (isKey t k)) (filter_key_short hd)
  rw [this]

/-! ### the Valid() bit -/

def stepRooms (acc : List Bytes) (e : Event) : List Bytes := if acc.contains e.roomID then acc else acc ++ [e.roomID]

theorem rooms_mem (l : List Event) : ∀ (acc : List Bytes) (r : Bytes),
    r ∈ l.foldl stepRooms acc ↔ (r ∈ acc ∨ ∃ e ∈ l, e.roomID = r) := by
  induction l with
  | nil => intro acc r; simp
  | cons e rest ih =>
    intro acc r
    simp only [List.foldl_cons, ih, List.mem_cons, exists_eq_or_imp]
    unfold stepRooms
    by_cases hc : acc.contains e.roomID = true
    · simp only [hc, if_true]
      have : e.roomID ∈ acc := by simpa using hc
      constructor
      · rintro (h | h)
        · exact Or.inl h
        · exact Or.inr (Or.inr h)
      · rintro (h | h | h)
        · exact Or.inl h
        · exact Or.inl (h ▸ this)
        · exact Or.inr h
    · simp only [hc, if_false, Bool.false_eq_true, List.mem_append, List.mem_singleton]
      constructor
      · rintro ((h | h) | h)
        · exact Or.inl h
        · exact Or.inr (Or.inl h.symm)
        · exact Or.inr (Or.inr h)
      · rintro (h | h | h)
        · exact Or.inl (Or.inl h)
        · exact Or.inl (Or.inr h.symm)
        · exact Or.inr h

theorem rooms_nodup (l : List Event) : ∀ acc : List Bytes, acc.Nodup → (l.foldl stepRooms acc).Nodup := by
  induction l with
  | nil => intro acc h; exact h
  | cons e rest ih =>
    intro acc h
    simp only [List.foldl_cons]
    apply ih
    unfold stepRooms
    by_cases hc : acc.contains e.roomID = true
    · simp only [hc, if_true]; exact h
    · simp only [hc, if_false, Bool.false_eq_true]
      have : e.roomID ∉ acc := by simpa using hc
      rw [List.nodup_append]
      refine ⟨h, by simp, ?_⟩
      intro a ha b hb
      simp at hb
      subst hb
      intro hab; subst hab
      exact this ha

/-- all events are of one room -/
def SameRoom (l : List Event) : Prop := ∀ a ∈ l, ∀ b ∈ l, a.roomID = b.roomID

theorem nodup_short {l : List Bytes} (hn : l.Nodup) (h : ∀ a ∈ l, ∀ b ∈ l, a = b) : l.length ≤ 1 := by
  cases l with
  | nil => simp
  | cons a rest =>
    cases rest with
    | nil => simp
    | cons b r =>
      exfalso
      have hab := h a (List.mem_cons_self ..) b (List.mem_cons_of_mem _ (List.mem_cons_self ..))
      rw [hab] at hn
      simp at hn

/-- `NewAuthEvents(l).Valid()` holds exactly when all events are of one room -/
theorem valid_ofEvents (l : List Event) (ident : Nat := 0) : (Provider.ofEvents l ident).valid = true ↔ SameRoom l := by
  unfold Provider.valid Provider.ofEvents
  simp only [decide_eq_true_eq]
  have hm := rooms_mem l []
  have hn := rooms_nodup l [] List.nodup_nil
  change (l.foldl stepRooms []).length ≤ 1 ↔ SameRoom l
  constructor
  · intro hlen a ha b hb
    have h1 : a.roomID ∈ l.foldl stepRooms [] := (hm _).mpr (Or.inr ⟨a, ha, rfl⟩)
    have h2 : b.roomID ∈ l.foldl stepRooms [] := (hm _).mpr (Or.inr ⟨b, hb, rfl⟩)
    cases hl : l.foldl stepRooms [] with
    | nil => rw [hl] at h1; cases h1
    | cons x rest =>
      cases rest with
      | nil =>
        rw [hl] at h1 h2
        simp at h1 h2
        rw [h1, h2]
      | cons y r => rw [hl] at hlen; simp at hlen
  · intro hs
    apply nodup_short hn
    intro a ha b hb
    rcases (hm a).mp ha with h | ⟨ea, hea, rfl⟩
    · cases h
    rcases (hm b).mp hb with h | ⟨eb, heb, rfl⟩
    · cases h
    exact hs ea hea eb heb

theorem valid_perm {l1 l2 : List Event} (hp : l1.Perm l2) (i1 i2 : Nat) :
    (Provider.ofEvents l1 i1).valid = (Provider.ofEvents l2 i2).valid := by
  have h : SameRoom l1 ↔ SameRoom l2 := by
    constructor
    · intro h a ha b hb; exact h a (hp.symm.subset ha) b (hp.symm.subset hb)
    · intro h a ha b hb; exact h a (hp.subset ha) b (hp.subset hb)
  rw [Bool.eq_iff_iff, valid_ofEvents l1 i1, valid_ofEvents l2 i2]
  exact h

/-! ### adding / removing unrelated events, and the selection of the needed events -/

theorem lastWith_filter (t k : Bytes) (l : List Event) (keep : Event → Bool) (h : ∀ e, isKey t k e = true → keep e = true) :
    lastWith t k (l.filter keep) = lastWith t k l := by
  rw [lastWith_eq, lastWith_eq, List.filter_filter]
  congr 1
  apply List.filter_congr
  intro x _
  by_cases hx : isKey t k x = true
  · simp [hx, h x hx]
  · have : isKey t k x = false := by simpa using hx
    simp [this]

theorem lastWith_append (t k : Bytes) (l x : List Event) (h : ∀ e ∈ x, isKey t k e = false) :
    lastWith t k (l ++ x) = lastWith t k l := by
  rw [lastWith_eq, lastWith_eq, List.filter_append]
  have : x.filter (isKey t k) = [] := by
    rw [List.filter_eq_nil_iff]
    intro a ha; simp [h a ha]
  rw [this, List.append_nil]

theorem get_isKey {p : Provider} {t k : Bytes} {x : Event} (h : p.get t k = some x) : isKey t k x = true ∧ x ∈ p.events := by
  unfold Provider.get at h
  exact ⟨List.find?_some h, List.mem_of_find?_eq_some h⟩

theorem isKey_inj {t k t' k' : Bytes} {x : Event} (h : isKey t k x = true) (h' : isKey t' k' x = true) : t = t' ∧ k = k' := by
  unfold isKey at h h'
  simp only [Bool.and_eq_true, beq_iff_eq] at h h'
  refine ⟨h.1.symm.trans h'.1, ?_⟩
  have := h.2.symm.trans h'.2
  exact Option.some.inj this

/-- the provider built from the selected events answers the needed lookups as the full provider does -/
theorem get_select (p : Provider) (e : Event) (t k : Bytes) (hn : (t, k) ∈ neededPairs (stateNeeded e)) (ident : Nat := 0) :
    (Provider.ofEvents (selectNeeded p e) ident).get t k = p.get t k := by
  rw [get_ofEvents _ t k ident, lastWith_eq]
  have hsel : ∀ x ∈ selectNeeded p e, isKey t k x = true → p.get t k = some x := by
    intro x hx hk
    unfold selectNeeded at hx
    obtain ⟨tk, _, hg⟩ := List.mem_filterMap.mp hx
    obtain ⟨hk', _⟩ := get_isKey hg
    obtain ⟨rfl, rfl⟩ := isKey_inj hk' hk
    exact hg
  cases hg : p.get t k with
  | none =>
    have : (selectNeeded p e).filter (isKey t k) = [] := by
      rw [List.filter_eq_nil_iff]
      intro x hx hk
      rw [hsel x hx hk] at hg; cases hg
    rw [this]; rfl
  | some v =>
    have hv : v ∈ (selectNeeded p e).filter (isKey t k) := by
      rw [List.mem_filter]
      refine ⟨?_, (get_isKey hg).1⟩
      unfold selectNeeded
      exact List.mem_filterMap.mpr ⟨(t, k), hn, hg⟩
    have hne : (selectNeeded p e).filter (isKey t k) ≠ [] := List.ne_nil_of_mem hv
    rw [List.getLast?_eq_getLast hne]
    have hl := List.getLast_mem hne
    rw [List.mem_filter] at hl
    have := hsel _ hl.1 hl.2
    rw [hg] at this
    rw [← Option.some.inj this]

theorem select_subset (p : Provider) (e : Event) : ∀ x ∈ selectNeeded p e, x ∈ p.events := by
  intro x hx
  unfold selectNeeded at hx
  obtain ⟨tk, _, hg⟩ := List.mem_filterMap.mp hx
  exact (get_isKey hg).2

theorem events_subset (l : List Event) : ∀ (acc : List Event) (x : Event), x ∈ l.foldl stepEvents acc → x ∈ acc ∨ x ∈ l := by
  induction l with
  | nil => intro acc x h; exact Or.inl h
  | cons e rest ih =>
    intro acc x h
    simp only [List.foldl_cons] at h
    rcases ih _ x h with h' | h'
    · unfold stepEvents at h'
      simp only [List.mem_append, List.mem_filter, List.mem_singleton] at h'
      rcases h' with h' | h'
      · exact Or.inl h'.1
      · exact Or.inr (h' ▸ List.mem_cons_self ..)
    · exact Or.inr (List.mem_cons_of_mem _ h')

theorem ofEvents_events_subset (l : List Event) (ident : Nat) : ∀ x ∈ (Provider.ofEvents l ident).events, x ∈ l := by
  intro x hx
  rcases events_subset l [] x hx with h | h
  · cases h
  · exact h

end V.AuthNeeded
