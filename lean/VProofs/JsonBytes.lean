/- Byte-level facts for the C01 proofs: which bytes `encodeStringBody` copies, what `utf8Encode`
   produces, and how the escapes written by `compactUnicodeEscape` relate to `encodeStringBody`.
   Core only. -/
import VModel.Json
namespace V.Json

/-- Case analysis over all 256 byte values. -/
theorem byteForall {P : UInt8 → Prop} (h : ∀ n : Fin 256, P (UInt8.ofNat n)) : ∀ c, P c := by
  intro c
  have := h ⟨c.toNat, c.toNat_lt⟩
  simpa using this

/-! ### `encodeStringBody` -/

theorem esb_nil : encodeStringBody [] = [] := rfl

theorem esb_append : ∀ a b : Bytes, encodeStringBody (a ++ b) = encodeStringBody a ++ encodeStringBody b
  | [], b => rfl
  | c :: a, b => by
    simp only [List.cons_append, encodeStringBody, esb_append a b, List.append_assoc]

/-- A byte `encodeStringBody` writes unchanged. -/
def plainByte (c : UInt8) : Bool := !(c == 0x22) && !(c == 0x5C) && !(c < 0x20)

theorem esb_plain_cons (c : UInt8) (rest : Bytes) (h : plainByte c = true) :
    encodeStringBody (c :: rest) = c :: encodeStringBody rest := by
  simp only [plainByte, Bool.and_eq_true, Bool.not_eq_true', beq_eq_false_iff_ne, ne_eq,
    decide_eq_false_iff_not] at h
  obtain ⟨⟨h1, h2⟩, h3⟩ := h
  have h8 : c ≠ 0x08 := by intro e; subst e; exact h3 (by decide)
  have h9 : c ≠ 0x09 := by intro e; subst e; exact h3 (by decide)
  have hA : c ≠ 0x0A := by intro e; subst e; exact h3 (by decide)
  have hC : c ≠ 0x0C := by intro e; subst e; exact h3 (by decide)
  have hD : c ≠ 0x0D := by intro e; subst e; exact h3 (by decide)
  simp [encodeStringBody, h1, h2, h3, h8, h9, hA, hC, hD]

theorem esb_plain : ∀ l : Bytes, (∀ c ∈ l, plainByte c = true) → encodeStringBody l = l
  | [], _ => rfl
  | c :: l, h => by
    rw [esb_plain_cons c l (h c List.mem_cons_self), esb_plain l (fun x hx => h x (List.mem_cons_of_mem _ hx))]

theorem esb_quote : encodeStringBody [0x22] = [0x5C, 0x22] := by decide
theorem esb_backslash : encodeStringBody [0x5C] = [0x5C, 0x5C] := by decide
theorem esb_slash : encodeStringBody [0x2F] = [0x2F] := by decide
theorem esb_b : encodeStringBody [0x08] = [0x5C, 0x62] := by decide
theorem esb_f : encodeStringBody [0x0C] = [0x5C, 0x66] := by decide
theorem esb_n : encodeStringBody [0x0A] = [0x5C, 0x6E] := by decide
theorem esb_r : encodeStringBody [0x0D] = [0x5C, 0x72] := by decide
theorem esb_t : encodeStringBody [0x09] = [0x5C, 0x74] := by decide

/-! ### `utf8Encode` -/

theorem ofNat_plain (n : Nat) (h1 : 0x20 ≤ n % 256) (h2 : n % 256 ≠ 0x22) (h3 : n % 256 ≠ 0x5C) :
    plainByte (UInt8.ofNat n) = true := by
  have e1 : (UInt8.ofNat n == 0x22) = false := by
    rw [beq_eq_false_iff_ne]; intro e
    have := congrArg UInt8.toNat e; simp at this; omega
  have e2 : (UInt8.ofNat n == 0x5C) = false := by
    rw [beq_eq_false_iff_ne]; intro e
    have := congrArg UInt8.toNat e; simp at this; omega
  have e3 : ¬ (UInt8.ofNat n < 0x20) := by
    rw [UInt8.lt_iff_toNat_lt]; simp; omega
  simp [plainByte, e1, e2, e3]

/-- Every code point from U+0020 up, other than `"` and `\`, is written by bytes that
    `encodeStringBody` copies unchanged. -/
theorem utf8Encode_plain (cp : Nat) (h1 : 0x20 ≤ cp) (h2 : cp ≠ 0x22) (h3 : cp ≠ 0x5C) :
    ∀ c ∈ utf8Encode cp, plainByte c = true := by
  intro c hc
  unfold utf8Encode at hc
  split at hc
  · simp only [List.mem_singleton] at hc; subst hc
    exact ofNat_plain _ (by omega) (by omega) (by omega)
  · split at hc
    · simp only [List.mem_cons, List.not_mem_nil, or_false] at hc
      rcases hc with rfl | rfl <;> exact ofNat_plain _ (by omega) (by omega) (by omega)
    · split at hc
      · simp only [List.mem_cons, List.not_mem_nil, or_false] at hc
        rcases hc with rfl | rfl | rfl <;> decide
      · rename_i hs
        simp only [Bool.or_eq_true, Bool.and_eq_true, decide_eq_true_eq, not_or, not_and, Nat.not_lt] at hs
        split at hc
        · simp only [List.mem_cons, List.not_mem_nil, or_false] at hc
          rcases hc with rfl | rfl | rfl <;> exact ofNat_plain _ (by omega) (by omega) (by omega)
        · simp only [List.mem_cons, List.not_mem_nil, or_false] at hc
          rcases hc with rfl | rfl | rfl | rfl <;> exact ofNat_plain _ (by omega) (by omega) (by omega)

theorem esb_utf8Encode (cp : Nat) (h1 : 0x20 ≤ cp) (h2 : cp ≠ 0x22) (h3 : cp ≠ 0x5C) :
    encodeStringBody (utf8Encode cp) = utf8Encode cp :=
  esb_plain _ (utf8Encode_plain cp h1 h2 h3)

theorem decodeSurrogates_ge (hi lo : Nat) : 0xFFFD ≤ decodeSurrogates hi lo := by
  unfold decodeSurrogates; split <;> omega

/-! ### The escapes `compactUnicodeEscape` writes for code points below U+0020, `"` and `\` -/

theorem esb_control : ∀ cp, cp < 0x20 →
    encodeStringBody (utf8Encode cp) =
      if escapeLetter cp == 0x75 then
        [0x5C, escapeLetter cp, 0x30, 0x30, UInt8.ofNat (0x30 + cp / 16), hexDigitLower (cp % 16)]
      else [0x5C, escapeLetter cp] := by
  decide

theorem esb_cp_quote : encodeStringBody (utf8Encode 0x22) = [0x5C, UInt8.ofNat 0x22] := by decide
theorem esb_cp_backslash : encodeStringBody (utf8Encode 0x5C) = [0x5C, UInt8.ofNat 0x5C] := by decide

/-! ### hex digits -/

set_option maxRecDepth 20000 in
theorem hexVal_le (c : UInt8) : hexVal c ≤ 15 := by
  revert c; apply byteForall; decide

theorem hex4_lt (a b c d : UInt8) : hex4 a b c d < 65536 := by
  have := hexVal_le a; have := hexVal_le b; have := hexVal_le c; have := hexVal_le d
  unfold hex4; omega

end V.Json
