/-
  C10 stage 7b: composition.  `resolveV2New` (algorithms 2 and 3 = v2 and v2.1) computes a state that `Resolves`
  according to the definition: conflicted / unconflicted split, auth difference (+ conflicted subgraph), control
  closure, reverse topological power ordering, iterative auth checks, mainline ordering, final assembly (R6).
  Core only.
-/
import VProofs.StateResSpecSplit
import VProofs.StateResSpecAuthDiff
import VProofs.StateResSpecControl
import VProofs.StateResSpecKahn2
import VProofs.StateResSpecState
namespace V.StateResSpec
open V Json GoJson Auth List
open V.StateRes

/-! ## the body of `resolveV2New`, returning the final state -/

def modelRoomCreate (unconflicted auth conflicted : List Event) : Option Event :=
  match getCreateEvent unconflicted with
  | some c => some c
  | none => match getCreateEvent auth with
    | some c => some c
    | none => getCreateEvent conflicted

def modelCreateFor (s : State) (createEv : Option Event) : Option Event :=
  match s.get b!"m.room.create" [] with
  | some c => some c
  | none => createEv

def resolveV2State (algo : Nat) (sets : List (List Event)) (auth : List Event) (rejected : List ID) : State :=
  let conflicted := (splitConflictedUnconflicted false sets).1
  let unconflicted := (splitConflictedUnconflicted false sets).2
  let authMap := eventMapFromEvents auth
  let confMap := eventMapFromEvents conflicted
  let createEv := modelRoomCreate unconflicted auth conflicted
  let unconfIDs := unconflicted.map (·.eventID)
  let full := conflicted ++ authDifferenceNew algo authMap conflicted sets
  let controlEvents := controlEventsOf full confMap unconfIDs
  let others := othersOf full confMap unconfIDs
  let s1 : State := if algo == 2 then applyEvents [] (reverseTopoAuth authMap createEv unconflicted) else []
  let controlOrder := reverseTopoAuth authMap (modelCreateFor s1 createEv) controlEvents
  let s2 := authAndApply authMap rejected s1 controlOrder
  let mainline := createMainline authMap (s2.get b!"m.room.power_levels" [])
  let othersOrder := mainlineOrdering authMap mainline others
  let s3 := authAndApply authMap rejected s2 othersOrder
  applyEvents s3 unconflicted

/-- nothing supplied at all: every stage is empty -/
theorem resolveV2State_empty (algo : Nat) (sets : List (List Event)) (rejected : List ID)
    (h1 : (splitConflictedUnconflicted false sets).1 = []) (h2 : (splitConflictedUnconflicted false sets).2 = []) :
    resolveV2State algo sets [] rejected = [] := by
  unfold resolveV2State
  simp only [h1, h2]
  have hm : eventMapFromEvents ([] : List Event) = [] := rfl
  have had : authDifferenceNew algo [] [] sets = [] := by
    rw [authDifferenceNew_eq]
    have : resolveID [] [] = fun _ => none := by funext id; rfl
    rw [this]; simp
  simp only [hm, had, List.append_nil, List.map_nil]
  have hc : controlEventsOf [] [] [] = [] := rfl
  have ho : othersOf [] [] [] = [] := rfl
  have hk : ∀ c, reverseTopoAuth [] c [] = [] := fun _ => rfl
  simp only [hc, ho, hk]
  have hs1 : (if (algo == 2) = true then applyEvents [] [] else ([] : State)) = [] := by split <;> rfl
  rw [hs1]
  rfl

theorem resolveV2New_result (algo : Nat) (sets : List (List Event)) (auth : List Event) (rejected : List ID) :
    (resolveV2New algo sets auth rejected).result = (resolveV2State algo sets auth rejected).map (·.2.eventID) := by
  unfold resolveV2New
  split
  rename_i c u heq
  have h1 : (splitConflictedUnconflicted false sets).1 = c := by rw [heq]
  have h2 : (splitConflictedUnconflicted false sets).2 = u := by rw [heq]
  split
  · rename_i hc
    simp only [Bool.and_eq_true, List.isEmpty_iff] at hc
    obtain ⟨⟨hc1, hc2⟩, hc3⟩ := hc
    subst hc3
    rw [resolveV2State_empty algo sets rejected (h1.trans hc1) (h2.trans hc2)]
    rfl
  · subst h1; subst h2
    rfl

/-! ## congruences of the set-valued definitions -/

theorem ReachPlus.congr {P Q : Event → Prop} (h : ∀ x, P x ↔ Q x) {x y : Event} : ReachPlus P x y ↔ ReachPlus Q x y :=
  ⟨ReachPlus.mono (fun x => (h x).mp), ReachPlus.mono (fun x => (h x).mpr)⟩

theorem Reach.congr {P Q : Event → Prop} (h : ∀ x, P x ↔ Q x) {x y : Event} : Reach P x y ↔ Reach Q x y := by
  unfold Reach; rw [ReachPlus.congr h]

theorem ConflictedSubgraph.congr {P C C' : Event → Prop} (h : ∀ x, C x ↔ C' x) {sets : List (List Event)} {x : Event} :
    ConflictedSubgraph P C sets x ↔ ConflictedSubgraph P C' sets x := by
  unfold ConflictedSubgraph
  simp only [h]

theorem ControlSet.congr {c c' f f' u u' : Event → Prop} (hc : ∀ x, c x ↔ c' x) (hf : ∀ x, f x ↔ f' x)
    (hu : ∀ x, u x ↔ u' x) {x : Event} : ControlSet c f u x ↔ ControlSet c' f' u' x := by
  unfold ControlSet ControlRoot
  simp only [hf, hu, Reach.congr hc]

theorem OtherSet.congr {c c' f f' u u' : Event → Prop} (hc : ∀ x, c x ↔ c' x) (hf : ∀ x, f x ↔ f' x)
    (hu : ∀ x, u x ↔ u' x) {x : Event} : OtherSet c f u x ↔ OtherSet c' f' u' x := by
  unfold OtherSet
  simp only [hf, hu, ControlSet.congr hc hf hu]

/-! ## what the rank gives -/

theorem ranked_lt {evs : List Event} {rk : ID → Nat} (hrk : ∀ e ∈ evs, ∀ p ∈ e.authEventIDs, rk p < rk e.eventID)
    {P : Event → Prop} (hP : ∀ x, P x → x ∈ evs) {x y : Event} (h : ReachPlus P x y) (hx : x ∈ evs) :
    rk y.eventID < rk x.eventID := by
  induction h with
  | edge e => exact hrk _ hx _ e.2
  | step e _ ih => exact Nat.lt_trans (ih (hP _ e.1)) (hrk _ hx _ e.2)

theorem ranked_acyclic {evs : List Event} (hr : Ranked evs) {P : Event → Prop} (hP : ∀ x, P x → x ∈ evs) : Acyclic P := by
  obtain ⟨rk, hrk⟩ := hr
  intro x h
  exact Nat.lt_irrefl _ (ranked_lt hrk hP h (hP x h.target))

theorem ranked_kahn {evs : List Event} (hr : Ranked evs) (l : List Event) (hl : ∀ e ∈ l, e ∈ evs) :
    ∃ rk : ID → Nat, ∀ e ∈ l, ∀ p ∈ e.authEventIDs, (∃ e' ∈ l, e'.eventID = p) → rk p < rk e.eventID := by
  obtain ⟨rk, hrk⟩ := hr
  exact ⟨rk, fun e he p hp _ => hrk e (hl e he) p hp⟩

theorem modelCreateFor_eq {s : State} {f : SMap} (h : StateRel s f) (c : Option Event) :
    modelCreateFor s c = createFor f c := by
  unfold modelCreateFor createFor
  rw [h]
  cases f (b!"m.room.create", []) <;> rfl

theorem modelRoomCreate_eq (u a c : List Event) : modelRoomCreate u a c = roomCreate u a c := rfl

/-! ## the composition -/

theorem resolveV2State_resolves (algo : Nat) (halgo : algo = 2 ∨ algo = 3) (sets : List (List Event)) (auth : List Event)
    (rejected : List ID) (hwf : WF sets auth) (hr : Ranked (sets.flatten ++ auth)) :
    ∃ result : SMap, Resolves algo sets (eventMapFromEvents auth) auth rejected result ∧
      StateRel (resolveV2State algo sets auth rejected) result ∧ KeysNodup (resolveV2State algo sets auth rejected) := by
  obtain ⟨conf, hconf⟩ : ∃ c, c = (splitConflictedUnconflicted false sets).1 := ⟨_, rfl⟩
  obtain ⟨unconf, hunconf⟩ : ∃ c, c = (splitConflictedUnconflicted false sets).2 := ⟨_, rfl⟩
  obtain ⟨m, hm⟩ : ∃ c, c = eventMapFromEvents auth := ⟨_, rfl⟩
  obtain ⟨cm, hcm⟩ : ∃ c, c = eventMapFromEvents conf := ⟨_, rfl⟩
  obtain ⟨full, hfull⟩ : ∃ c, c = conf ++ authDifferenceNew algo m conf sets := ⟨_, rfl⟩
  obtain ⟨ctl, hctl⟩ : ∃ c, c = controlEventsOf full cm (unconf.map (·.eventID)) := ⟨_, rfl⟩
  obtain ⟨oth, hoth⟩ : ∃ c, c = othersOf full cm (unconf.map (·.eventID)) := ⟨_, rfl⟩
  obtain ⟨cre, hcre⟩ : ∃ c, c = modelRoomCreate unconf auth conf := ⟨_, rfl⟩
  obtain ⟨uo, huo⟩ : ∃ c, c = reverseTopoAuth m cre unconf := ⟨_, rfl⟩
  obtain ⟨s1, hs1⟩ : ∃ c : State, c = if algo == 2 then applyEvents [] uo else [] := ⟨_, rfl⟩
  obtain ⟨co, hco⟩ : ∃ c, c = reverseTopoAuth m (modelCreateFor s1 cre) ctl := ⟨_, rfl⟩
  obtain ⟨s2, hs2⟩ : ∃ c, c = authAndApply m rejected s1 co := ⟨_, rfl⟩
  obtain ⟨ml, hml⟩ : ∃ c, c = createMainline m (s2.get b!"m.room.power_levels" []) := ⟨_, rfl⟩
  obtain ⟨oo, hoo⟩ : ∃ c, c = mainlineOrdering m ml oth := ⟨_, rfl⟩
  obtain ⟨s3, hs3⟩ : ∃ c, c = authAndApply m rejected s2 oo := ⟨_, rfl⟩
  have hres : resolveV2State algo sets auth rejected = applyEvents s3 unconf := by
    subst hs3 hoo hml hs2 hco hs1 huo hcre hoth hctl hfull hcm hm hunconf hconf
    rfl
  rw [hres, ← hm]
  -- the universe of supplied events
  have hU : IDsIdentify (fun e => e ∈ sets.flatten ++ auth) := hwf.ids
  have hflat : ∀ x, InSomeSet sets x → x ∈ sets.flatten ++ auth := by
    rintro x ⟨S, hS, hx⟩; exact List.mem_append_left _ (List.mem_flatten.mpr ⟨S, hS, hx⟩)
  have hidsF : IDsIdentify (fun e => e ∈ sets.flatten) :=
    fun a b ha hb => hU a b (List.mem_append_left _ ha) (List.mem_append_left _ hb)
  have hnd : ∀ S ∈ sets, S.Nodup := fun S hS => (hwf.maps S hS).1
  obtain ⟨hsc, hsu⟩ := split_eq_spec sets hidsF hnd
  rw [← hconf] at hsc
  rw [← hunconf] at hsu
  -- the auth map
  have hmN : IdNodup m := hm ▸ eventMap_idNodup auth
  have hmA : ∀ x ∈ m, x ∈ auth := fun x hx => mem_eventMap (hm ▸ hx)
  have hmU : ∀ x ∈ m, x ∈ sets.flatten ++ auth := fun x hx => List.mem_append_right _ (hmA x hx)
  have hSU : ∀ S ∈ sets, ∀ x ∈ S, x ∈ sets.flatten ++ auth := fun S hS x hx => hflat x ⟨S, hS, hx⟩
  have hconfU : ∀ x ∈ conf, x ∈ sets.flatten ++ auth := fun x hx => hflat x ((hsc x).mp hx).1
  have hunconfU : ∀ x ∈ unconf, x ∈ sets.flatten ++ auth := fun x hx => hflat x ((hsu x).mp hx).1
  have hac : Acyclic (· ∈ m) := ranked_acyclic hr hmU
  -- the conflicted map
  have hcmN : IdNodup cm := hcm ▸ eventMap_idNodup conf
  have hcmS : ∀ x, x ∈ cm ↔ x ∈ conf := by
    intro x; rw [hcm]
    exact eventMap_sameSet (fun a b ha hb => hU a b (hconfU a ha) (hconfU b hb)) x
  have hcmU : ∀ x ∈ cm, x ∈ sets.flatten ++ auth := fun x hx => hconfU x ((hcmS x).mp hx)
  -- the full conflicted set
  have hfullS : ∀ x, x ∈ full ↔ FullConflicted algo (· ∈ m) sets x := by
    intro x
    rw [hfull, List.mem_append, hsc]
    unfold FullConflicted
    rcases halgo with rfl | rfl
    · rw [authDifference_eq_spec hmN]
      simp
    · rw [authDifference21_eq_spec hU hmN hmU hSU hconfU, ConflictedSubgraph.congr hsc]
      simp
  have hfullU : ∀ x ∈ full, x ∈ sets.flatten ++ auth := by
    intro x hx
    rcases (hfullS x).mp hx with h | h | ⟨_, h⟩
    · exact hflat x h.1
    · obtain ⟨⟨S, _, s, _, hreach⟩, _⟩ := h
      exact hmU x hreach.target
    · obtain ⟨S, hS, o, ho, _, hro, _⟩ := h
      rcases hro.source_or_mem with h' | h'
      · exact h' ▸ hSU S hS o ho
      · exact hmU x h'
  -- control events and the rest
  have hctlS : ∀ x, x ∈ ctl ↔ ControlSet (Conflicted sets) (FullConflicted algo (· ∈ m) sets) (Unconflicted sets) x := by
    intro x
    rw [hctl, controlSet_eq_spec hU hfullU hcmU hcmN]
    exact ControlSet.congr (fun y => (hcmS y).trans (hsc y)) hfullS hsu
  have hothS : ∀ x, x ∈ oth ↔ OtherSet (Conflicted sets) (FullConflicted algo (· ∈ m) sets) (Unconflicted sets) x := by
    intro x
    rw [hoth, otherSet_eq_spec hU hfullU hcmU hcmN]
    exact OtherSet.congr (fun y => (hcmS y).trans (hsc y)) hfullS hsu
  have hothN : oth.Nodup := (hoth ▸ othersOf_idNodup full cm _).nodup
  have hctlU : ∀ x ∈ ctl, x ∈ sets.flatten ++ auth := by
    intro x hx
    have := (controlSet_eq_spec hU hfullU hcmU hcmN x).mp (hctl ▸ hx)
    exact (this.inU hfullU hcmU).1
  -- orderings
  have hkU : IsReverseTopoPowerOrder m cre unconf uo := huo ▸
    reverseTopoAuth_is_power_order m cre unconf (fun a ha b hb => hU a b (hunconfU a ha) (hunconfU b hb))
      (ranked_kahn hr unconf hunconfU)
  -- the state after the first step (R6)
  obtain ⟨f1, hf1def, hrel1, hk1⟩ : ∃ f1 : SMap, f1 = (if algo = 2 then applyAll SMap.empty uo else SMap.empty) ∧
      StateRel s1 f1 ∧ KeysNodup s1 := by
    refine ⟨_, rfl, ?_⟩
    rcases halgo with rfl | rfl
    · have := applyEvents_rel uo stateRel_nil keysNodup_nil
      simpa [hs1] using this
    · simp only [hs1]
      exact ⟨stateRel_nil, keysNodup_nil⟩
  have hkC : IsReverseTopoPowerOrder m (createFor f1 (roomCreate unconf auth conf)) ctl co := by
    rw [← modelRoomCreate_eq, ← hcre, ← modelCreateFor_eq hrel1, hco]
    exact reverseTopoAuth_is_power_order m _ ctl (fun a ha b hb => hU a b (hctlU a ha) (hctlU b hb))
      (ranked_kahn hr ctl hctlU)
  obtain ⟨hrel2, hk2⟩ := authAndApply_rel m rejected co hrel1 hk1
  rw [← hs2] at hrel2 hk2
  have hML : IsMainline m (iterAuth m rejected f1 co (b!"m.room.power_levels", [])) ml := by
    rw [← hrel2, hml]
    exact mainline_eq_spec hac _
  have hMO : IsMainlineOrder m ml oth oo := hoo ▸ mainlineOrdering_eq_spec hac ml oth
  obtain ⟨hrel3, hk3⟩ := authAndApply_rel m rejected oo hrel2 hk2
  rw [← hs3] at hrel3 hk3
  obtain ⟨hrel4, hk4⟩ := applyEvents_rel unconf hrel3 hk3
  refine ⟨_, ⟨⟨conf, unconf, ctl, oth, uo, co, oo, ml, hsc, hsu, hctlS, hothS, hothN, ?_, ?_⟩⟩, hrel4, hk4⟩
  · rw [← modelRoomCreate_eq, ← hcre]; exact hkU
  · rw [← hf1def]
    exact ⟨hkC, hML, hMO, rfl⟩

end V.StateResSpec
