/-
  Version 1 state resolution (stateresolution.go) of the model, part 1: the sort by (depth, sha1), the two
  block resolvers pick a member of their block, `resolveAndAddAuthBlocks` yields one winner per non-empty
  block.  Core only.
-/
import VProofs.StateResBasic
import VProofs.StateResSort
namespace V.StateRes
open V Json GoJson Auth List

/-! ## sortV1 -/

/-- the sort key of `conflictedEventSorter` -/
def v1Key (sha : ID → Bytes) (e : Event) : V1Key := { depth := e.depth, sha1 := sha e.eventID }

theorem sortV1_eq (sha : ID → Bytes) (evs : List Event) :
    sortV1 sha evs = (sortBy (fun (a b : Event × V1Key) => v1Lt (Prod.snd a) (Prod.snd b))
      (evs.map (fun e => (e, v1Key sha e)))).map (·.1) := rfl

theorem sortV1_perm (sha : ID → Bytes) (evs : List Event) : sortV1 sha evs ~ evs := by
  rw [sortV1_eq]
  have h := (sortBy_perm (fun (a b : Event × V1Key) => v1Lt (Prod.snd a) (Prod.snd b))
    (evs.map (fun e => (e, v1Key sha e)))).map (·.1)
  rw [List.map_map] at h
  have e : ((fun (x : Event × V1Key) => x.1) ∘ fun e => (e, v1Key sha e)) = id := rfl
  rw [e, List.map_id] at h
  exact h

theorem mem_sortV1 {sha : ID → Bytes} {evs : List Event} {e : Event} : e ∈ sortV1 sha evs ↔ e ∈ evs :=
  (sortV1_perm sha evs).mem_iff

theorem sortV1_eq_nil {sha : ID → Bytes} {evs : List Event} : sortV1 sha evs = [] ↔ evs = [] := by
  constructor
  · intro h; have := (sortV1_perm sha evs).length_eq; rw [h] at this
    exact List.eq_nil_of_length_eq_zero this.symm
  · rintro rfl; rfl

/-- Sorting two arrangements of the same candidates gives the same list. -/
theorem sortV1_unique (sha : ID → Bytes) {evs evs' : List Event} (hp : evs ~ evs')
    (hk : ∀ a ∈ evs, ∀ b ∈ evs, a.depth = b.depth → sha a.eventID = sha b.eventID → a = b) :
    sortV1 sha evs = sortV1 sha evs' := by
  rw [sortV1_eq, sortV1_eq]
  congr 1
  refine sortBy_unique (k := Prod.snd) v1Lt_strictTotal (hp.map _) ?_
  intro a ha b hb hab
  obtain ⟨x, hx, rfl⟩ := List.mem_map.mp ha
  obtain ⟨y, hy, rfl⟩ := List.mem_map.mp hb
  simp only [v1Key, V1Key.mk.injEq] at hab
  rw [hk x hx y hy hab.1 hab.2]
-- `hk`: the comparator looks at (depth, sha1 of the event ID) only; two different candidates with the same pair
-- would keep their input order (the sort is stable), so the result would depend on the arrangement.

/-! ## The block resolvers pick a member of the block -/

theorem go_mem (valid : Bool) (s : V1State) (r : Event) (rest : List Event) :
    (resolveAuthBlock.go valid s r rest).1 ∈ r :: rest := by
  induction rest generalizing s r with
  | nil => simp [resolveAuthBlock.go]
  | cons e more ih =>
    unfold resolveAuthBlock.go
    split
    · have := ih (s.addAuthEvent e) e
      exact List.mem_cons_of_mem _ this
    · exact List.mem_cons_self

/-- what the slot held before the block is put back once the block is resolved -/
def restorePrev (prev : Option Event) (s : V1State) : V1State :=
  match prev with
  | some p => s.addAuthEvent p
  | none => s

theorem resolveAuthBlock_eq (sha : ID → Bytes) (valid : Bool) (s : V1State) (evs : List Event) :
    resolveAuthBlock sha valid s evs =
      match sortV1 sha evs with
      | [] => (none, s)
      | first :: rest =>
        (some (resolveAuthBlock.go valid (s.addAuthEvent first) first rest).1,
         restorePrev (s.authEventAt first.type (first.stateKey.getD []))
          ((resolveAuthBlock.go valid (s.addAuthEvent first) first rest).2.removeAuthEvent
           (resolveAuthBlock.go valid (s.addAuthEvent first) first rest).1.type
           ((resolveAuthBlock.go valid (s.addAuthEvent first) first rest).1.stateKey.getD []))) := by
  unfold resolveAuthBlock
  split
  · rename_i h; rw [h]
  · rename_i h; rw [h]; rfl

theorem resolveAuthBlock_mem {sha : ID → Bytes} {valid : Bool} {s : V1State} {evs : List Event} {e : Event}
    (h : (resolveAuthBlock sha valid s evs).1 = some e) : e ∈ evs := by
  rw [resolveAuthBlock_eq] at h
  split at h
  · cases h
  · rename_i first rest hs
    simp only [Option.some.injEq] at h
    rw [← mem_sortV1 (sha := sha), hs, ← h]
    exact go_mem _ _ _ _

theorem resolveAuthBlock_none {sha : ID → Bytes} {valid : Bool} {s : V1State} {evs : List Event} :
    (resolveAuthBlock sha valid s evs).1 = none ↔ evs = [] := by
  rw [resolveAuthBlock_eq]
  split
  · rename_i hs; simp [sortV1_eq_nil.mp hs]
  · rename_i first rest hs
    simp only [reduceCtorEq, false_iff]
    intro h; rw [h] at hs; cases hs

theorem resolveAuthBlock_nil (sha : ID → Bytes) (valid : Bool) (s : V1State) :
    resolveAuthBlock sha valid s [] = (none, s) := rfl

theorem resolveNormalBlock_mem {sha : ID → Bytes} {valid : Bool} {s : V1State} {evs : List Event} {e : Event}
    (h : resolveNormalBlock sha valid s evs = some e) : e ∈ evs := by
  unfold resolveNormalBlock at h
  split at h
  · cases h
  · rename_i first rest hs
    rw [← mem_sortV1 (sha := sha), hs]
    split at h
    · rename_i x hx
      simp only [Option.some.injEq] at h; subst h
      have := List.mem_of_find?_eq_some hx
      exact List.mem_cons_of_mem _ (List.mem_reverse.mp this)
    · simp only [Option.some.injEq] at h; subst h; exact List.mem_cons_self

theorem resolveNormalBlock_none {sha : ID → Bytes} {valid : Bool} {s : V1State} {evs : List Event} :
    resolveNormalBlock sha valid s evs = none ↔ evs = [] := by
  unfold resolveNormalBlock
  split
  · rename_i hs; simp [sortV1_eq_nil.mp hs]
  · rename_i first rest hs
    have : evs ≠ [] := by intro h; rw [h] at hs; cases hs
    split <;> simp [this]

/-! ## One winner per non-empty block -/

/-- `rs` picks one member from every non-empty block of `bs`, in order -/
inductive Picks : List (List Event) → List Event → Prop
  | nil : Picks [] []
  | skip {bs : List (List Event)} {rs : List Event} : Picks bs rs → Picks ([] :: bs) rs
  | cons {b : List Event} {bs : List (List Event)} {e : Event} {rs : List Event} :
      e ∈ b → Picks bs rs → Picks (b :: bs) (e :: rs)

theorem Picks.append {bs bs' : List (List Event)} {rs rs' : List Event} (h : Picks bs rs) (h' : Picks bs' rs') :
    Picks (bs ++ bs') (rs ++ rs') := by
  induction h with
  | nil => exact h'
  | skip _ ih => exact .skip ih
  | cons he _ ih => exact .cons he ih

theorem Picks.mem {bs : List (List Event)} {rs : List Event} (h : Picks bs rs) {e : Event} (he : e ∈ rs) :
    ∃ b ∈ bs, e ∈ b := by
  induction h with
  | nil => cases he
  | skip _ ih => obtain ⟨b, hb, h'⟩ := ih he; exact ⟨b, List.mem_cons_of_mem _ hb, h'⟩
  | cons hb _ ih =>
    rcases List.mem_cons.mp he with rfl | he
    · exact ⟨_, List.mem_cons_self, hb⟩
    · obtain ⟨b, hb', h'⟩ := ih he; exact ⟨b, List.mem_cons_of_mem _ hb', h'⟩

/-- when the blocks are the (non-empty) groups of a keyed list, the winners carry exactly the keys of the groups -/
theorem Picks.map_key {G : List ((Bytes × Bytes) × List Event)} {rs : List Event}
    (hG : ∀ g ∈ G, g.2 ≠ [] ∧ ∀ e ∈ g.2, keyOf e = g.1) (h : Picks (G.map (·.2)) rs) :
    rs.map keyOf = G.map (·.1) := by
  induction G generalizing rs with
  | nil => cases h; rfl
  | cons g G ih =>
    have hg := hG g List.mem_cons_self
    have hG' : ∀ g ∈ G, g.2 ≠ [] ∧ ∀ e ∈ g.2, keyOf e = g.1 := fun x hx => hG x (List.mem_cons_of_mem _ hx)
    rw [List.map_cons] at h
    generalize hb : g.2 = b at h
    cases h with
    | skip h' => exact absurd hb hg.1
    | cons he h' =>
      subst hb
      rw [List.map_cons, List.map_cons, ih hG' h', hg.2 _ he]
-- `hG`: an empty group would contribute no winner; a group with mixed keys has no key to speak of.

theorem Picks.of_flatten_single {l : List (List Event)} {rs : List Event} (hl : l.length ≤ 1)
    (h : Picks [l.flatten] rs) : Picks l rs := by
  match l, hl with
  | [], _ =>
    simp only [List.flatten_nil] at h
    cases h with
    | skip h' => cases h'; exact .nil
    | cons he _ => cases he
  | [b], _ => simpa using h
  | _ :: _ :: _, hl => simp at hl

/-- the fold step of `resolveAndAddAuthBlocks` (the lambda of the model, verbatim) -/
def authBlocksStep (sha : ID → Bytes) (valid : Bool) (acc : V1State × List Event) (block : List Event) :
    V1State × List Event :=
  if block.isEmpty then acc else
    match resolveAuthBlock sha valid acc.1 block with
    | (some e, st) => (st, acc.2 ++ [e])
    | (none, st) => (st, acc.2)

theorem resolveAndAddAuthBlocks_eq (sha : ID → Bytes) (valid : Bool) (s : V1State) (blocks : List (List Event)) :
    resolveAndAddAuthBlocks sha valid s blocks =
      ((blocks.foldl (authBlocksStep sha valid) (s, [])).2.foldl V1State.addAuthEvent
          (blocks.foldl (authBlocksStep sha valid) (s, [])).1,
        (blocks.foldl (authBlocksStep sha valid) (s, [])).2) := rfl

theorem authBlocksStep_picks (sha : ID → Bytes) (valid : Bool) (blocks : List (List Event)) (acc : V1State × List Event) :
    ∃ rs, (blocks.foldl (authBlocksStep sha valid) acc).2 = acc.2 ++ rs ∧ Picks blocks rs := by
  induction blocks generalizing acc with
  | nil => exact ⟨[], by simp, .nil⟩
  | cons b bs ih =>
    rw [List.foldl_cons]
    obtain ⟨rs, h1, h2⟩ := ih (authBlocksStep sha valid acc b)
    rw [h1]
    unfold authBlocksStep
    cases b with
    | nil => exact ⟨rs, by simp, .skip h2⟩
    | cons x xs =>
      simp only [List.isEmpty_cons, Bool.false_eq_true, if_false]
      cases hr : (resolveAuthBlock sha valid acc.1 (x :: xs)).1 with
      | none => exact absurd (resolveAuthBlock_none.mp hr) (by simp)
      | some e =>
        have he := resolveAuthBlock_mem hr
        refine ⟨e :: rs, ?_, .cons he h2⟩
        have : resolveAuthBlock sha valid acc.1 (x :: xs) = (some e, (resolveAuthBlock sha valid acc.1 (x :: xs)).2) := by
          rw [← hr]
        rw [this]; simp

/-- `resolveAndAddAuthBlocks` yields one winner per non-empty block, each a member of its block. -/
theorem resolveAndAddAuthBlocks_picks (sha : ID → Bytes) (valid : Bool) (s : V1State) (blocks : List (List Event)) :
    Picks blocks (resolveAndAddAuthBlocks sha valid s blocks).2 := by
  rw [resolveAndAddAuthBlocks_eq]
  obtain ⟨rs, h1, h2⟩ := authBlocksStep_picks sha valid blocks (s, [])
  simp only [h1, List.nil_append]
  exact h2

/-- the normal blocks likewise -/
theorem resolveNormal_picks (sha : ID → Bytes) (valid : Bool) (s : V1State) (blocks : List (List Event)) :
    Picks blocks (blocks.filterMap (resolveNormalBlock sha valid s)) := by
  induction blocks with
  | nil => exact .nil
  | cons b bs ih =>
    rw [List.filterMap_cons]
    cases hr : resolveNormalBlock sha valid s b with
    | none => rw [resolveNormalBlock_none.mp hr]; exact .skip ih
    | some e => exact .cons (resolveNormalBlock_mem hr) ih

end V.StateRes
