/-
  Version 1 state resolution, part 2: the resolver state as a finite map from auth slots to events.
  `V1State.lookup` is the slot lookup, `V1State.WF` the representation invariant, `V1State.Sim` = same lookups.
  `addAuthEvent` / `removeAuthEvent` are point updates of the lookup function; under WF the provider seen by the
  auth checks answers exactly the lookup function.  Core only.
-/
import VProofs.StateResV1
namespace V.StateRes
open V Json GoJson Auth List

/-! ## association lists with optional values (`map[string]PDU` holding nil entries) -/

/-- the entry stored under `k`; a `nil` entry counts like an absent one -/
def lookupOpt (m : List (Bytes × Option Event)) (k : Bytes) : Option Event :=
  m.findSome? (fun x => if x.1 == k then x.2 else none)

theorem lookupOpt_nil (k : Bytes) : lookupOpt [] k = none := rfl

theorem lookupOpt_filter_ne (m : List (Bytes × Option Event)) (k k' : Bytes) :
    lookupOpt (m.filter (fun x => x.1 != k)) k' = if k' == k then none else lookupOpt m k' := by
  unfold lookupOpt
  induction m with
  | nil => simp
  | cons x xs ih =>
    rw [List.filter_cons]
    by_cases hx : x.1 = k
    · have : (x.1 != k) = false := by simp [hx]
      rw [this]; simp only [Bool.false_eq_true, if_false]
      rw [ih, List.findSome?_cons]
      by_cases hk : k' = k
      · simp [hk]
      · have : (x.1 == k') = false := by rw [hx]; simpa using fun h => hk h.symm
        simp [hk, this]
    · have : (x.1 != k) = true := by simp [hx]
      rw [this]; simp only [if_true]
      rw [List.findSome?_cons, List.findSome?_cons, ih]
      by_cases hk : k' = k
      · subst hk; simp [hx]
      · simp [hk]

theorem lookupOpt_setOpt (m : List (Bytes × Option Event)) (k : Bytes) (v : Option Event) (k' : Bytes) :
    lookupOpt (setOpt m k v) k' = if k' == k then v else lookupOpt m k' := by
  unfold setOpt
  have h1 := lookupOpt_filter_ne m k k'
  unfold lookupOpt at *
  rw [List.findSome?_append, h1]
  by_cases hk : k' = k
  · subst hk; simp
  · have : ¬ k = k' := fun h => hk h.symm
    simp [hk, this]

theorem setOpt_keys_nodup {m : List (Bytes × Option Event)} (k : Bytes) (v : Option Event)
    (h : (m.map (·.1)).Nodup) : ((setOpt m k v).map (·.1)).Nodup := by
  unfold setOpt
  rw [List.map_append, List.nodup_append]
  refine ⟨List.Nodup.sublist (List.Sublist.map _ List.filter_sublist) h, by simp, ?_⟩
  intro a ha b hb
  obtain ⟨x, hx, rfl⟩ := List.mem_map.mp ha
  simp only [List.map_cons, List.map_nil, List.mem_singleton] at hb
  subst hb
  simpa using (List.mem_filter.mp hx).2

theorem mem_setOpt {m : List (Bytes × Option Event)} {k : Bytes} {v : Option Event} {x : Bytes × Option Event}
    (h : x ∈ setOpt m k v) : x ∈ m ∨ x = (k, v) := by
  unfold setOpt at h
  rcases List.mem_append.mp h with h | h
  · exact Or.inl (List.mem_filter.mp h).1
  · exact Or.inr (by simpa using h)

/-! ## the five type constants are pairwise different -/

theorem ne_create_pl : (b!"m.room.create" : Bytes) ≠ b!"m.room.power_levels" := by decide
theorem ne_create_jr : (b!"m.room.create" : Bytes) ≠ b!"m.room.join_rules" := by decide
theorem ne_create_member : (b!"m.room.create" : Bytes) ≠ b!"m.room.member" := by decide
theorem ne_create_tpi : (b!"m.room.create" : Bytes) ≠ b!"m.room.third_party_invite" := by decide
theorem ne_pl_jr : (b!"m.room.power_levels" : Bytes) ≠ b!"m.room.join_rules" := by decide
theorem ne_pl_member : (b!"m.room.power_levels" : Bytes) ≠ b!"m.room.member" := by decide
theorem ne_pl_tpi : (b!"m.room.power_levels" : Bytes) ≠ b!"m.room.third_party_invite" := by decide
theorem ne_jr_member : (b!"m.room.join_rules" : Bytes) ≠ b!"m.room.member" := by decide
theorem ne_jr_tpi : (b!"m.room.join_rules" : Bytes) ≠ b!"m.room.third_party_invite" := by decide
theorem ne_member_tpi : (b!"m.room.member" : Bytes) ≠ b!"m.room.third_party_invite" := by decide

/-! ## slot lookup, generic in the five type constants (so that `simp` never has to compare byte literals) -/

theorem stateKeyEquals_iff {e : Event} {k : Bytes} : e.stateKeyEquals k = true ↔ e.stateKey = some k := by
  unfold Event.stateKeyEquals; simp

/-- five pairwise different constants -/
structure D5 (c1 c2 c3 c4 c5 : Bytes) : Prop where
  h12 : c1 ≠ c2
  h13 : c1 ≠ c3
  h14 : c1 ≠ c4
  h15 : c1 ≠ c5
  h23 : c2 ≠ c3
  h24 : c2 ≠ c4
  h25 : c2 ≠ c5
  h34 : c3 ≠ c4
  h35 : c3 ≠ c5
  h45 : c4 ≠ c5

section generic
variable (c1 c2 c3 c4 c5 : Bytes)

def lookupG (s : V1State) (t k : Bytes) : Option Event :=
  if t = c1 then (if k = [] then s.create else none)
  else if t = c2 then (if k = [] then s.pl else none)
  else if t = c3 then (if k = [] then s.jr else none)
  else if t = c4 then lookupOpt s.members k
  else if t = c5 then lookupOpt s.tpis k
  else none

def addG (s : V1State) (e : Event) : V1State :=
  if e.stateKey.isNone then s
  else if e.type == c1 then (if e.stateKeyEquals [] then { s with create := some e } else s)
  else if e.type == c2 then (if e.stateKeyEquals [] then { s with pl := some e } else s)
  else if e.type == c3 then (if e.stateKeyEquals [] then { s with jr := some e } else s)
  else if e.type == c4 then { s with members := setOpt s.members (e.stateKey.getD []) (some e) }
  else if e.type == c5 then { s with tpis := setOpt s.tpis (e.stateKey.getD []) (some e) }
  else s

def removeG (s : V1State) (t k : Bytes) : V1State :=
  if t == c1 then (if k.isEmpty then { s with create := none } else s)
  else if t == c2 then (if k.isEmpty then { s with pl := none } else s)
  else if t == c3 then (if k.isEmpty then { s with jr := none } else s)
  else if t == c4 then { s with members := setOpt s.members k none }
  else if t == c5 then { s with tpis := setOpt s.tpis k none }
  else s

def isAuthSlotG (t k : Bytes) : Prop :=
  (t = c1 ∧ k = []) ∨ (t = c2 ∧ k = []) ∨ (t = c3 ∧ k = []) ∨ t = c4 ∨ t = c5

def authEffG (e : Event) (t k : Bytes) : Prop := e.stateKey = some k ∧ e.type = t ∧ isAuthSlotG c1 c2 c3 c4 c5 t k

instance (t k : Bytes) : Decidable (isAuthSlotG c1 c2 c3 c4 c5 t k) := by unfold isAuthSlotG; infer_instance
instance (e : Event) (t k : Bytes) : Decidable (authEffG c1 c2 c3 c4 c5 e t k) := by unfold authEffG; infer_instance

variable {c1 c2 c3 c4 c5}

theorem addG_none {s : V1State} {e : Event} (hs : e.stateKey = none) : addG c1 c2 c3 c4 c5 s e = s := by
  unfold addG; simp [hs]

theorem addG_some {s : V1State} {e : Event} {k0 : Bytes} (hs : e.stateKey = some k0) :
    addG c1 c2 c3 c4 c5 s e =
      if e.type = c1 then (if k0 = [] then { s with create := some e } else s)
      else if e.type = c2 then (if k0 = [] then { s with pl := some e } else s)
      else if e.type = c3 then (if k0 = [] then { s with jr := some e } else s)
      else if e.type = c4 then { s with members := setOpt s.members k0 (some e) }
      else if e.type = c5 then { s with tpis := setOpt s.tpis k0 (some e) }
      else s := by
  unfold addG
  simp only [stateKeyEquals_iff, hs, Option.isNone_some, Option.getD_some, beq_iff_eq, Option.some.injEq,
    Bool.false_eq_true, if_false]

theorem lookupG_addG_eff (hd : D5 c1 c2 c3 c4 c5) (s : V1State) {e : Event} {t k : Bytes}
    (h : authEffG c1 c2 c3 c4 c5 e t k) : lookupG c1 c2 c3 c4 c5 (addG c1 c2 c3 c4 c5 s e) t k = some e := by
  obtain ⟨h12, h13, h14, h15, h23, h24, h25, h34, h35, h45⟩ := hd
  obtain ⟨hs, ht, hslot⟩ := h
  rw [addG_some hs]
  unfold isAuthSlotG at hslot
  unfold lookupG
  grind [lookupOpt_setOpt]

theorem lookupG_addG_not (hd : D5 c1 c2 c3 c4 c5) (s : V1State) {e : Event} {t k : Bytes}
    (h : ¬ authEffG c1 c2 c3 c4 c5 e t k) :
    lookupG c1 c2 c3 c4 c5 (addG c1 c2 c3 c4 c5 s e) t k = lookupG c1 c2 c3 c4 c5 s t k := by
  obtain ⟨h12, h13, h14, h15, h23, h24, h25, h34, h35, h45⟩ := hd
  cases hs : e.stateKey with
  | none => rw [addG_none hs]
  | some k0 =>
    rw [addG_some hs]
    unfold authEffG isAuthSlotG at h
    rw [hs] at h
    unfold lookupG
    grind [lookupOpt_setOpt]

theorem lookupG_removeG (hd : D5 c1 c2 c3 c4 c5) (s : V1State) (t0 k0 t k : Bytes) :
    lookupG c1 c2 c3 c4 c5 (removeG c1 c2 c3 c4 c5 s t0 k0) t k =
      if t = t0 ∧ k = k0 then none else lookupG c1 c2 c3 c4 c5 s t k := by
  obtain ⟨h12, h13, h14, h15, h23, h24, h25, h34, h35, h45⟩ := hd
  unfold removeG
  simp only [beq_iff_eq, List.isEmpty_iff]
  split
  · split <;> (unfold lookupG; grind)
  split
  · split <;> (unfold lookupG; grind)
  split
  · split <;> (unfold lookupG; grind)
  split
  · unfold lookupG; grind [lookupOpt_setOpt]
  split
  · unfold lookupG; grind [lookupOpt_setOpt]
  · unfold lookupG; grind

theorem lookupG_none_of_not_slot {s : V1State} {t k : Bytes} (h : ¬ isAuthSlotG c1 c2 c3 c4 c5 t k) :
    lookupG c1 c2 c3 c4 c5 s t k = none := by
  unfold isAuthSlotG at h
  unfold lookupG
  grind

theorem lookupG_empty (t k : Bytes) : lookupG c1 c2 c3 c4 c5 {} t k = none := by
  unfold lookupG
  simp only [lookupOpt_nil]
  grind

/-- representation invariant of the resolver state -/
structure WFG (c1 c2 c3 c4 c5 : Bytes) (s : V1State) : Prop where
  create : ∀ e, s.create = some e → e.type = c1 ∧ e.stateKey = some []
  pl : ∀ e, s.pl = some e → e.type = c2 ∧ e.stateKey = some []
  jr : ∀ e, s.jr = some e → e.type = c3 ∧ e.stateKey = some []
  members : ∀ x ∈ s.members, ∀ e, x.2 = some e → e.type = c4 ∧ e.stateKey = some x.1
  tpis : ∀ x ∈ s.tpis, ∀ e, x.2 = some e → e.type = c5 ∧ e.stateKey = some x.1
  membersKeys : (s.members.map (·.1)).Nodup
  tpisKeys : (s.tpis.map (·.1)).Nodup

theorem WFG.empty : WFG c1 c2 c3 c4 c5 {} where
  create := fun _ h => by cases h
  pl := fun _ h => by cases h
  jr := fun _ h => by cases h
  members := fun _ h => by cases h
  tpis := fun _ h => by cases h
  membersKeys := List.nodup_nil
  tpisKeys := List.nodup_nil

theorem setOpt_wf {T : Bytes} {m : List (Bytes × Option Event)} {k : Bytes} {v : Option Event}
    (hm : ∀ x ∈ m, ∀ e, x.2 = some e → e.type = T ∧ e.stateKey = some x.1)
    (hv : ∀ e, v = some e → e.type = T ∧ e.stateKey = some k) :
    ∀ x ∈ setOpt m k v, ∀ e, x.2 = some e → e.type = T ∧ e.stateKey = some x.1 := by
  intro x hx e he
  rcases mem_setOpt hx with hx | rfl
  · exact hm x hx e he
  · exact hv e he

theorem WFG.addG {s : V1State} (h : WFG c1 c2 c3 c4 c5 s) (e : Event) : WFG c1 c2 c3 c4 c5 (addG c1 c2 c3 c4 c5 s e) := by
  cases hs : e.stateKey with
  | none => rw [addG_none hs]; exact h
  | some k0 =>
    rw [addG_some hs]
    split
    · rename_i ht; split
      · rename_i hk; subst hk
        exact { h with create := fun x hx => by simp only [Option.some.injEq] at hx; subst hx; exact ⟨ht, hs⟩ }
      · exact h
    split
    · rename_i ht; split
      · rename_i hk; subst hk
        exact { h with pl := fun x hx => by simp only [Option.some.injEq] at hx; subst hx; exact ⟨ht, hs⟩ }
      · exact h
    split
    · rename_i ht; split
      · rename_i hk; subst hk
        exact { h with jr := fun x hx => by simp only [Option.some.injEq] at hx; subst hx; exact ⟨ht, hs⟩ }
      · exact h
    split
    · rename_i ht
      exact { h with
        members := setOpt_wf h.members (fun x hx => by simp only [Option.some.injEq] at hx; subst hx; exact ⟨ht, hs⟩)
        membersKeys := setOpt_keys_nodup _ _ h.membersKeys }
    split
    · rename_i ht
      exact { h with
        tpis := setOpt_wf h.tpis (fun x hx => by simp only [Option.some.injEq] at hx; subst hx; exact ⟨ht, hs⟩)
        tpisKeys := setOpt_keys_nodup _ _ h.tpisKeys }
    exact h

theorem WFG.removeG {s : V1State} (h : WFG c1 c2 c3 c4 c5 s) (t k : Bytes) :
    WFG c1 c2 c3 c4 c5 (removeG c1 c2 c3 c4 c5 s t k) := by
  unfold V.StateRes.removeG
  split
  · split
    · exact { h with create := fun _ hx => by cases hx }
    · exact h
  split
  · split
    · exact { h with pl := fun _ hx => by cases hx }
    · exact h
  split
  · split
    · exact { h with jr := fun _ hx => by cases hx }
    · exact h
  split
  · exact { h with
      members := setOpt_wf h.members (fun _ hx => by cases hx)
      membersKeys := setOpt_keys_nodup _ _ h.membersKeys }
  split
  · exact { h with
      tpis := setOpt_wf h.tpis (fun _ hx => by cases hx)
      tpisKeys := setOpt_keys_nodup _ _ h.tpisKeys }
  exact h

theorem lookupOpt_some {m : List (Bytes × Option Event)} {k : Bytes} {p : Event} (h : lookupOpt m k = some p) :
    ∃ x ∈ m, x.1 = k ∧ x.2 = some p := by
  unfold lookupOpt at h
  obtain ⟨x, hx, hf⟩ := List.exists_of_findSome?_eq_some h
  by_cases hk : x.1 = k
  · exact ⟨x, hx, hk, by simpa [hk] using hf⟩
  · simp [hk] at hf

/-- in a well-formed state an event found under a slot is a state event of exactly that slot -/
theorem lookupG_some_eff {s : V1State} (h : WFG c1 c2 c3 c4 c5 s) {t k : Bytes} {p : Event}
    (hl : lookupG c1 c2 c3 c4 c5 s t k = some p) : authEffG c1 c2 c3 c4 c5 p t k := by
  unfold lookupG at hl
  unfold authEffG isAuthSlotG
  split at hl
  · rename_i ht; split at hl
    · rename_i hk; obtain ⟨a, b⟩ := h.create p hl; exact ⟨hk ▸ b, ht ▸ a, Or.inl ⟨ht, hk⟩⟩
    · cases hl
  split at hl
  · rename_i ht; split at hl
    · rename_i hk; obtain ⟨a, b⟩ := h.pl p hl; exact ⟨hk ▸ b, ht ▸ a, Or.inr (Or.inl ⟨ht, hk⟩)⟩
    · cases hl
  split at hl
  · rename_i ht; split at hl
    · rename_i hk; obtain ⟨a, b⟩ := h.jr p hl; exact ⟨hk ▸ b, ht ▸ a, Or.inr (Or.inr (Or.inl ⟨ht, hk⟩))⟩
    · cases hl
  split at hl
  · rename_i ht
    obtain ⟨x, hx, hxk, hxp⟩ := lookupOpt_some hl
    obtain ⟨a, b⟩ := h.members x hx p hxp
    exact ⟨hxk ▸ b, ht ▸ a, Or.inr (Or.inr (Or.inr (Or.inl ht)))⟩
  split at hl
  · rename_i ht
    obtain ⟨x, hx, hxk, hxp⟩ := lookupOpt_some hl
    obtain ⟨a, b⟩ := h.tpis x hx p hxp
    exact ⟨hxk ▸ b, ht ▸ a, Or.inr (Or.inr (Or.inr (Or.inr ht)))⟩
  cases hl

/-! ## the provider answers the lookup function -/

theorem find_slot {T : Bytes} {o : Option Event} (ho : ∀ e, o = some e → e.type = T ∧ e.stateKey = some []) (t k : Bytes) :
    o.toList.find? (fun e => e.type == t && e.stateKey == some k) = if t = T ∧ k = [] then o else none := by
  cases o with
  | none => simp
  | some e =>
    obtain ⟨h1, h2⟩ := ho e rfl
    simp only [Option.toList_some, List.find?_cons, List.find?_nil, h1, h2]
    by_cases h : T = t ∧ [] = k
    · obtain ⟨rfl, rfl⟩ := h; simp
    · have h' : ¬ (t = T ∧ k = []) := fun ⟨a, b⟩ => h ⟨a.symm, b.symm⟩
      rw [if_neg h']
      have : (T == t && some ([] : Bytes) == some k) = false := by
        rw [Bool.eq_false_iff]; intro hh; simp only [Bool.and_eq_true, beq_iff_eq, Option.some.injEq] at hh; exact h hh
      rw [this]

theorem find_keyed {T : Bytes} {m : List (Bytes × Option Event)}
    (hm : ∀ x ∈ m, ∀ e, x.2 = some e → e.type = T ∧ e.stateKey = some x.1) (t k : Bytes) :
    (m.filterMap (·.2)).find? (fun e => e.type == t && e.stateKey == some k) = if t = T then lookupOpt m k else none := by
  induction m with
  | nil => simp [lookupOpt_nil]
  | cons x xs ih =>
    have ih' := ih (fun y hy => hm y (List.mem_cons_of_mem _ hy))
    unfold lookupOpt at *
    rw [List.filterMap_cons, List.findSome?_cons]
    cases hx : x.2 with
    | none =>
      simp only []
      rw [ih']
      by_cases h : x.1 == k <;> simp [h]
    | some e =>
      obtain ⟨h1, h2⟩ := hm x List.mem_cons_self e hx
      simp only [List.find?_cons, h1, h2, ih']
      by_cases ht : T = t
      · subst ht
        by_cases hk : x.1 = k
        · simp [hk]
        · have hk' : (x.1 == k) = false := by simpa using hk
          simp [hk']
      · have ht' : ¬ t = T := fun h => ht h.symm
        have ht'' : (T == t) = false := by simpa using ht
        simp [ht', ht'']

theorem provider_getG (hd : D5 c1 c2 c3 c4 c5) {s : V1State} (h : WFG c1 c2 c3 c4 c5 s) (valid : Bool) (t k : Bytes) :
    (s.provider valid).get t k = lookupG c1 c2 c3 c4 c5 s t k := by
  obtain ⟨h12, h13, h14, h15, h23, h24, h25, h34, h35, h45⟩ := hd
  unfold V1State.provider Provider.get lookupG
  simp only [List.find?_append, find_slot h.create, find_slot h.pl, find_slot h.jr, find_keyed h.members, find_keyed h.tpis]
  grind

end generic
end V.StateRes
