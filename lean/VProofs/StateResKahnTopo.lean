/-
  Kahn's algorithm of VModel.StateRes (`kahn`, `kahnLoop`): the loop invariant.
  The output is a permutation of the distinct input events (always); for acyclic input nothing is left over and
  the output is a topological order (StateResKahnTopo2.lean).  Core only.
-/
import VProofs.StateResKahnSim2
namespace V.StateRes
open V Json GoJson Auth List

section
variable {κ : Type}

/-! ## Counting children: how often `id` is listed as a parent by the nodes of `l` -/

def cnt (parents : Event → List ID) (id : ID) (l : List (KNode κ)) : Nat :=
  (l.flatMap (fun n => parents n.ev)).count id

theorem cnt_nil (parents : Event → List ID) (id : ID) : cnt parents id ([] : List (KNode κ)) = 0 := rfl

theorem cnt_cons (parents : Event → List ID) (id : ID) (n : KNode κ) (l : List (KNode κ)) :
    cnt parents id (n :: l) = (parents n.ev).count id + cnt parents id l := by
  unfold cnt; rw [List.flatMap_cons, List.count_append]

theorem cnt_append (parents : Event → List ID) (id : ID) (l l' : List (KNode κ)) :
    cnt parents id (l ++ l') = cnt parents id l + cnt parents id l' := by
  unfold cnt; rw [List.flatMap_append, List.count_append]

theorem cnt_perm (parents : Event → List ID) (id : ID) {l l' : List (KNode κ)} (h : l ~ l') :
    cnt parents id l = cnt parents id l' := (h.flatMap_right _).count_eq id

theorem cnt_eq_zero {parents : Event → List ID} {id : ID} {l : List (KNode κ)} :
    cnt parents id l = 0 ↔ ∀ n ∈ l, id ∉ parents n.ev := by
  unfold cnt; rw [List.count_eq_zero]; simp [List.mem_flatMap]

theorem cnt_pos {parents : Event → List ID} {id : ID} {l : List (KNode κ)} :
    0 < cnt parents id l ↔ ∃ n ∈ l, id ∈ parents n.ev := by
  unfold cnt; rw [List.count_pos_iff, List.mem_flatMap]

/-! ## Closed form of the initial in-degree table -/

theorem getD_kDegOf_kBump (deg : List (ID × Nat)) (id : ID) (by_ : Nat) (x : ID) :
    (kDegOf (kBump deg id by_) x).getD 0 = (kDegOf deg x).getD 0 + (if x = id then by_ else 0) := by
  rw [kDegOf_kBump]
  by_cases h : x = id
  · subst h; simp
  · simp [h]

theorem isSome_kDegOf_kBump {deg : List (ID × Nat)} {id : ID} {by_ : Nat} {x : ID}
    (h : (kDegOf deg x).isSome ∨ x = id) : (kDegOf (kBump deg id by_) x).isSome := by
  rw [kDegOf_kBump]
  by_cases hx : x = id
  · simp [hx]
  · rcases h with h | h
    · simp [hx, h]
    · exact absurd h hx

theorem getD_kDegOf_kBumpFold (ps : List ID) (d : List (ID × Nat)) (x : ID) :
    (kDegOf (ps.foldl (fun d pid => kBump d pid 1) d) x).getD 0 = (kDegOf d x).getD 0 + ps.count x := by
  induction ps generalizing d with
  | nil => simp
  | cons p ps ih =>
    rw [List.foldl_cons, ih, getD_kDegOf_kBump, List.count_cons]
    by_cases h : x = p
    · subst h; simp; omega
    · have : ¬ p = x := fun h' => h h'.symm
      simp [h, this]

theorem isSome_kDegOf_kBumpFold (ps : List ID) {d : List (ID × Nat)} {x : ID}
    (h : (kDegOf d x).isSome ∨ x ∈ ps) : (kDegOf (ps.foldl (fun d pid => kBump d pid 1) d) x).isSome := by
  induction ps generalizing d with
  | nil =>
    rcases h with h | h
    · exact h
    · cases h
  | cons p ps ih =>
    rw [List.foldl_cons]
    apply ih
    rcases h with h | h
    · exact Or.inl (isSome_kDegOf_kBump (Or.inl h))
    · rcases List.mem_cons.mp h with h | h
      · exact Or.inl (isSome_kDegOf_kBump (Or.inr h))
      · exact Or.inr h

/-- the outer-fold step of `kahnInDeg` -/
def inDegStep (parents : Event → List ID) (deg : List (ID × Nat)) (n : KNode κ) : List (ID × Nat) :=
  (parents n.ev).foldl (fun d pid => kBump d pid 1) (kBump deg n.ev.eventID 0)

theorem kahnInDeg_fold (parents : Event → List ID) (nodes : List (KNode κ)) :
    kahnInDeg parents nodes = nodes.foldl (inDegStep parents) [] := rfl

theorem getD_kDegOf_inDegStep (parents : Event → List ID) (deg : List (ID × Nat)) (n : KNode κ) (x : ID) :
    (kDegOf (inDegStep parents deg n) x).getD 0 = (kDegOf deg x).getD 0 + (parents n.ev).count x := by
  unfold inDegStep
  rw [getD_kDegOf_kBumpFold, getD_kDegOf_kBump]
  simp

theorem isSome_kDegOf_inDegStep {parents : Event → List ID} {deg : List (ID × Nat)} {n : KNode κ} {x : ID}
    (h : (kDegOf deg x).isSome ∨ x = n.ev.eventID ∨ x ∈ parents n.ev) : (kDegOf (inDegStep parents deg n) x).isSome := by
  unfold inDegStep
  apply isSome_kDegOf_kBumpFold
  rcases h with h | h | h
  · exact Or.inl (isSome_kDegOf_kBump (Or.inl h))
  · exact Or.inl (isSome_kDegOf_kBump (Or.inr h))
  · exact Or.inr h

theorem getD_kDegOf_inDegFold (parents : Event → List ID) (nodes : List (KNode κ)) (d : List (ID × Nat)) (x : ID) :
    (kDegOf (nodes.foldl (inDegStep parents) d) x).getD 0 = (kDegOf d x).getD 0 + cnt parents x nodes := by
  induction nodes generalizing d with
  | nil => simp [cnt_nil]
  | cons n ns ih => rw [List.foldl_cons, ih, getD_kDegOf_inDegStep, cnt_cons]; omega

theorem isSome_kDegOf_inDegFold {parents : Event → List ID} (nodes : List (KNode κ)) {d : List (ID × Nat)} {x : ID}
    (h : (kDegOf d x).isSome ∨ ∃ n ∈ nodes, x = n.ev.eventID ∨ x ∈ parents n.ev) :
    (kDegOf (nodes.foldl (inDegStep parents) d) x).isSome := by
  induction nodes generalizing d with
  | nil =>
    rcases h with h | ⟨n, hn, _⟩
    · exact h
    · cases hn
  | cons a as ih =>
    rw [List.foldl_cons]
    apply ih
    rcases h with h | ⟨n, hn, h⟩
    · exact Or.inl (isSome_kDegOf_inDegStep (Or.inl h))
    · rcases List.mem_cons.mp hn with rfl | hn
      · exact Or.inl (isSome_kDegOf_inDegStep (Or.inr h))
      · exact Or.inr ⟨n, hn, h⟩

/-- **the initial table counts the children**: the entry of `x` is the number of times `x` is listed as a parent -/
theorem getD_kDegOf_kahnInDeg (parents : Event → List ID) (nodes : List (KNode κ)) (x : ID) :
    (kDegOf (kahnInDeg parents nodes) x).getD 0 = cnt parents x nodes := by
  rw [kahnInDeg_fold, getD_kDegOf_inDegFold]; simp [kDegOf_nil]

/-- every node ID and every parent ID has an entry -/
theorem isSome_kDegOf_kahnInDeg {parents : Event → List ID} {nodes : List (KNode κ)} {x : ID}
    (h : ∃ n ∈ nodes, x = n.ev.eventID ∨ x ∈ parents n.ev) : (kDegOf (kahnInDeg parents nodes) x).isSome := by
  rw [kahnInDeg_fold]; exact isSome_kDegOf_inDegFold nodes (Or.inr h)

theorem kDegOf_kahnInDeg {parents : Event → List ID} {nodes : List (KNode κ)} {x : ID}
    (h : ∃ n ∈ nodes, x = n.ev.eventID ∨ x ∈ parents n.ev) :
    kDegOf (kahnInDeg parents nodes) x = some (cnt parents x nodes) := by
  have h1 := getD_kDegOf_kahnInDeg parents nodes x
  have h2 := isSome_kDegOf_kahnInDeg h
  cases hd : kDegOf (kahnInDeg parents nodes) x with
  | none => rw [hd] at h2; cases h2
  | some v => rw [hd] at h1; simpa using h1

/-! ## ID-distinct node lists -/

theorem KIdNodup.perm {l l' : List (KNode κ)} (h : KIdNodup l) (hp : l ~ l') : KIdNodup l' := by
  unfold KIdNodup at *; exact (hp.map _).nodup_iff.mp h

theorem KIdNodup.sublist {l l' : List (KNode κ)} (h : KIdNodup l) (hs : l' <+ l) : KIdNodup l' := by
  unfold KIdNodup at *; exact List.Nodup.sublist (hs.map _) h

theorem KIdNodup.eq_of_id {l : List (KNode κ)} (h : KIdNodup l) {a b : KNode κ} (ha : a ∈ l) (hb : b ∈ l)
    (hid : a.ev.eventID = b.ev.eventID) : a = b := by
  induction l with
  | nil => cases ha
  | cons x xs ih =>
    unfold KIdNodup at h ih
    rw [List.map_cons, List.nodup_cons] at h
    rcases List.mem_cons.mp ha with rfl | ha' <;> rcases List.mem_cons.mp hb with rfl | hb'
    · rfl
    · exact absurd (hid ▸ List.mem_map.mpr ⟨b, hb', rfl⟩) h.1
    · exact absurd (hid ▸ List.mem_map.mpr ⟨a, ha', rfl⟩) h.1
    · exact ih h.2 ha' hb'

/-- taking the node with ID `pid` out of an ID-distinct list -/
theorem find_filter_perm {l : List (KNode κ)} (h : KIdNodup l) {pid : ID} {m : KNode κ}
    (hf : l.find? (fun n => n.ev.eventID == pid) = some m) :
    l ~ m :: l.filter (fun n => n.ev.eventID != pid) := by
  induction l with
  | nil => cases hf
  | cons a as ih =>
    have hnd := h
    unfold KIdNodup at hnd
    rw [List.map_cons, List.nodup_cons] at hnd
    rw [List.find?_cons] at hf
    by_cases ha : a.ev.eventID = pid
    · have hb : (a.ev.eventID == pid) = true := by simpa using ha
      rw [hb] at hf
      have : a = m := by simpa using hf
      subst this
      have hall : as.filter (fun n => n.ev.eventID != pid) = as := by
        rw [List.filter_eq_self]
        intro n hn
        have : n.ev.eventID ≠ pid := fun hc => hnd.1 (List.mem_map.mpr ⟨n, hn, hc.trans ha.symm⟩)
        simpa using this
      rw [List.filter_cons]
      simp [ha, hall]
    · have hb : (a.ev.eventID == pid) = false := by simpa using ha
      rw [hb] at hf
      have hp := ih (h.sublist (List.sublist_cons_self _ _)) hf
      rw [List.filter_cons]
      have : (a.ev.eventID != pid) = true := by simpa using ha
      rw [this]
      exact (hp.cons a).trans (List.Perm.swap _ _ _)

/-! ## The inner fold (decrementing the parents of the popped node)

`R` = the unplaced nodes other than the popped one (fixed during the fold), `qs` = the parent IDs still to be processed. -/

structure InnerInv (parents : Event → List ID) (R : List (KNode κ)) (qs : List ID) (acc : KAcc κ) : Prop where
  perm : acc.2.1 ++ acc.2.2 ~ R
  deg : ∀ id, (kDegOf acc.1 id).getD 0 = cnt parents id R + qs.count id
  ni : ∀ n ∈ acc.2.2, kDegOf acc.1 n.ev.eventID = some 0
  pos : ∀ n ∈ acc.2.1, kDegOf acc.1 n.ev.eventID ≠ some 0
  dom : ∀ n ∈ acc.2.1, (kDegOf acc.1 n.ev.eventID).isSome

theorem getD_kDegOf_decMap (deg : List (ID × Nat)) (pid x : ID) :
    (kDegOf (decMap deg pid) x).getD 0 = (kDegOf deg x).getD 0 - (if x = pid then 1 else 0) := by
  rw [kDegOf_decMap]
  by_cases h : x = pid
  · simp only [h, if_true]; cases kDegOf deg pid <;> simp
  · simp [h]

theorem isSome_kDegOf_decMap (deg : List (ID × Nat)) (pid x : ID) :
    (kDegOf (decMap deg pid) x).isSome = (kDegOf deg x).isSome := by
  rw [kDegOf_decMap]; split <;> simp

theorem kDecStep_inner {parents : Event → List ID} {R : List (KNode κ)} (hR : KIdNodup R) {pid : ID} {qs : List ID}
    {acc : KAcc κ} (h : InnerInv parents R (pid :: qs) acc) : InnerInv parents R qs (kDecStep acc pid) := by
  obtain ⟨deg, rem, ni⟩ := acc
  obtain ⟨hperm, hdeg, hni, hpos, hdom⟩ := h
  simp only at hperm hdeg hni hpos hdom
  have hdeg' : ∀ id, (kDegOf (decMap deg pid) id).getD 0 = cnt parents id R + qs.count id := by
    intro id
    rw [getD_kDegOf_decMap, hdeg id, List.count_cons]
    by_cases hx : id = pid
    · subst hx; simp
    · have : ¬ pid = id := fun h' => hx h'.symm
      simp [hx, this]
  have hni' : ∀ n ∈ ni, kDegOf (decMap deg pid) n.ev.eventID = some 0 := by
    intro n hn
    rw [kDegOf_decMap, hni n hn]; split <;> rfl
  have hdom' : ∀ n ∈ rem, (kDegOf (decMap deg pid) n.ev.eventID).isSome := by
    intro n hn; rw [isSome_kDegOf_decMap]; exact hdom n hn
  have hpos' : ∀ n ∈ rem, n.ev.eventID ≠ pid → kDegOf (decMap deg pid) n.ev.eventID ≠ some 0 := by
    intro n hn hne; rw [kDegOf_decMap, if_neg hne]; exact hpos n hn
  rw [kDecStep_eq]
  split
  · rename_i hc
    have hc' : kDegOf (decMap deg pid) pid = some 0 := by simpa using hc
    split
    · rename_i m hm
      have hmid : m.ev.eventID = pid := by simpa using List.find?_some hm
      have hremnd : KIdNodup rem := (hR.perm hperm.symm).sublist (List.sublist_append_left _ _)
      have hp := find_filter_perm hremnd hm
      refine ⟨?_, hdeg', ?_, ?_, ?_⟩
      · show rem.filter (fun n => n.ev.eventID != pid) ++ (ni ++ [m]) ~ R
        refine List.Perm.trans ?_ hperm
        refine List.Perm.trans ?_ (hp.symm.append_right ni)
        rw [← List.append_assoc]
        refine List.Perm.trans List.perm_append_comm ?_
        simp
      · intro n hn
        rcases List.mem_append.mp hn with hn | hn
        · exact hni' n hn
        · have : n = m := by simpa using hn
          rw [this, hmid]; exact hc'
      · intro n hn
        obtain ⟨hn1, hn2⟩ := List.mem_filter.mp hn
        exact hpos' n hn1 (by simpa using hn2)
      · intro n hn
        exact hdom' n (List.mem_filter.mp hn).1
    · rename_i hnone
      rw [List.find?_eq_none] at hnone
      refine ⟨hperm, hdeg', hni', ?_, hdom'⟩
      intro n hn
      exact hpos' n hn (by simpa using hnone n hn)
  · rename_i hc
    have hc' : kDegOf (decMap deg pid) pid ≠ some 0 := by simpa using hc
    refine ⟨hperm, hdeg', hni', ?_, hdom'⟩
    intro n hn
    by_cases hne : n.ev.eventID = pid
    · rw [hne]; exact hc'
    · exact hpos' n hn hne

theorem decFold_inner {parents : Event → List ID} {R : List (KNode κ)} (hR : KIdNodup R) (ps : List ID)
    {acc : KAcc κ} (h : InnerInv parents R ps acc) : InnerInv parents R [] (ps.foldl kDecStep acc) := by
  induction ps generalizing acc with
  | nil => exact h
  | cons p ps ih => rw [List.foldl_cons]; exact ih (kDecStep_inner hR h)

/-! ## The loop invariant -/

/-- `rem` = waiting, `ni` = ready (no unplaced child), `graph` = placed; `d` = number of unplaced children -/
structure KLoopInv (parents : Event → List ID) (nodes rem : List (KNode κ)) (d : List (ID × Nat)) (ni graph : List (KNode κ)) :
    Prop where
  perm : rem ++ ni ++ graph ~ nodes
  deg : ∀ id, (kDegOf d id).getD 0 = cnt parents id (rem ++ ni)
  ready : ∀ n ∈ ni, kDegOf d n.ev.eventID = some 0
  pos : ∀ n ∈ rem, kDegOf d n.ev.eventID ≠ some 0
  dom : ∀ n ∈ rem, (kDegOf d n.ev.eventID).isSome
  placed : ∀ g ∈ graph, ∀ n ∈ rem ++ ni, g.ev.eventID ∉ parents n.ev
  topo : graph.Pairwise (fun a b => b.ev.eventID ∉ parents a.ev)

/-- one iteration of `kahnLoop` keeps the invariant -/
theorem kahn_step (r : KNode κ → KNode κ → Bool) {parents : Event → List ID} {nodes : List (KNode κ)} (hnd : KIdNodup nodes)
    {rem : List (KNode κ)} {d : List (ID × Nat)} {ni₀ graph : List (KNode κ)} {node : KNode κ}
    (h : KLoopInv parents nodes rem d (ni₀ ++ [node]) graph) :
    KLoopInv parents nodes ((parents node.ev).foldl kDecStep (d, rem, ni₀)).2.1 ((parents node.ev).foldl kDecStep (d, rem, ni₀)).1
      (sortBy r ((parents node.ev).foldl kDecStep (d, rem, ni₀)).2.2) (node :: graph) := by
  have hall : rem ++ (ni₀ ++ [node]) ++ graph = (rem ++ ni₀) ++ (node :: graph) := by simp
  have hRnd : KIdNodup (rem ++ ni₀) := by
    have := hnd.perm h.perm.symm
    rw [hall] at this
    exact this.sublist (List.sublist_append_left _ _)
  have hnode : node ∈ rem ++ (ni₀ ++ [node]) := by simp
  have hnode0 : kDegOf d node.ev.eventID = some 0 := h.ready node (by simp)
  have hnochild : ∀ n ∈ rem ++ (ni₀ ++ [node]), node.ev.eventID ∉ parents n.ev := by
    have h1 := h.deg node.ev.eventID
    rw [hnode0] at h1
    exact cnt_eq_zero.mp (by simpa using h1.symm)
  have h0 : InnerInv parents (rem ++ ni₀) (parents node.ev) (d, rem, ni₀) := by
    refine ⟨List.Perm.refl _, ?_, fun n hn => h.ready n (List.mem_append_left _ hn), h.pos, h.dom⟩
    intro id
    show (kDegOf d id).getD 0 = _
    rw [h.deg id, ← List.append_assoc, cnt_append, cnt_cons, cnt_nil]; omega
  have hf := decFold_inner hRnd _ h0
  generalize (parents node.ev).foldl kDecStep (d, rem, ni₀) = s at hf ⊢
  obtain ⟨d', rem', ni'⟩ := s
  obtain ⟨fperm, fdeg, fni, fpos, fdom⟩ := hf
  simp only at fperm fdeg fni fpos fdom ⊢
  have hp : rem' ++ sortBy r ni' ~ rem ++ ni₀ := ((sortBy_perm r ni').append_left rem').trans fperm
  have hsub : ∀ n ∈ rem' ++ sortBy r ni', n ∈ rem ++ (ni₀ ++ [node]) := by
    intro n hn
    have := hp.mem_iff.mp hn
    rw [← List.append_assoc]; exact List.mem_append_left _ this
  refine ⟨?_, ?_, ?_, fpos, fdom, ?_, ?_⟩
  · exact (hp.append_right _).trans (hall ▸ h.perm)
  · intro id
    rw [fdeg id, cnt_perm parents id hp]; simp
  · intro n hn; exact fni n ((mem_sortBy r).mp hn)
  · intro g hg n hn
    rcases List.mem_cons.mp hg with rfl | hg
    · exact hnochild n (hsub n hn)
    · exact h.placed g hg n (hsub n hn)
  · rw [List.pairwise_cons]
    exact ⟨fun b hb => h.placed b hb node hnode, h.topo⟩

/-- the loop ends with nothing ready, the invariant still holds (the fuel never runs out) -/
theorem kahnLoop_inv (lt : κ → κ → Bool) (parents : Event → List ID) {nodes : List (KNode κ)} (hnd : KIdNodup nodes) :
    ∀ (fuel : Nat) (rem : List (KNode κ)) (d : List (ID × Nat)) (ni graph : List (KNode κ)),
      KLoopInv parents nodes rem d ni graph → nodes.length < fuel + graph.length →
      ∃ d', KLoopInv parents nodes (kahnLoop lt parents fuel rem d ni graph).1 d' [] (kahnLoop lt parents fuel rem d ni graph).2 := by
  intro fuel
  induction fuel with
  | zero =>
    intro rem d ni graph h hf
    have := h.perm.length_eq
    simp only [List.length_append] at this
    omega
  | succ fuel ih =>
    intro rem d ni graph h hf
    rw [kahnLoop_succ]
    cases hrev : ni.reverse with
    | nil =>
      have : ni = [] := by simpa using hrev
      subst this
      exact ⟨d, h⟩
    | cons node restRev =>
      have hni : ni = restRev.reverse ++ [node] := by
        have := congrArg List.reverse hrev
        simpa using this
      subst hni
      simp only
      refine ih _ _ _ _ (kahn_step _ hnd h) ?_
      simp only [List.length_cons]; omega

/-- the invariant holds initially -/
theorem kahn_init (r : KNode κ → KNode κ → Bool) (parents : Event → List ID) (nodes : List (KNode κ)) :
    KLoopInv parents nodes (kahnRemaining (kahnInDeg parents nodes) nodes) (kahnInDeg parents nodes)
      (sortBy r (kahnZero (kahnInDeg parents nodes) nodes)) [] := by
  have hp : kahnRemaining (kahnInDeg parents nodes) nodes ++ sortBy r (kahnZero (kahnInDeg parents nodes) nodes) ~ nodes := by
    refine ((sortBy_perm r _).append_left _).trans ?_
    refine List.perm_append_comm.trans ?_
    exact List.filter_append_perm _ _
  refine ⟨by simpa using hp, ?_, ?_, ?_, ?_, ?_, List.Pairwise.nil⟩
  · intro id
    rw [getD_kDegOf_kahnInDeg, cnt_perm parents id hp]
  · intro n hn
    have := (List.mem_filter.mp ((mem_sortBy r).mp hn)).2
    simpa using this
  · intro n hn
    have := (List.mem_filter.mp hn).2
    simpa using this
  · intro n hn
    exact isSome_kDegOf_kahnInDeg ⟨n, (List.mem_filter.mp hn).1, Or.inl rfl⟩
  · intro g hg; cases hg

/-- **the result of the loop**, started as `kahn` starts it: nothing ready, invariant holds -/
theorem kahnLoop_final (lt : κ → κ → Bool) (parents : Event → List ID) (nodes0 : List (KNode κ)) :
    ∃ d', KLoopInv parents (kNodes nodes0)
      (kahnLoop lt parents ((kNodes nodes0).length + 1)
        (kahnRemaining (kahnInDeg parents (kNodes nodes0)) (kNodes nodes0))
        (kahnInDeg parents (kNodes nodes0))
        (sortBy (fun a b => lt a.key b.key) (kahnZero (kahnInDeg parents (kNodes nodes0)) (kNodes nodes0))) []).1 d' []
      (kahnLoop lt parents ((kNodes nodes0).length + 1)
        (kahnRemaining (kahnInDeg parents (kNodes nodes0)) (kNodes nodes0))
        (kahnInDeg parents (kNodes nodes0))
        (sortBy (fun a b => lt a.key b.key) (kahnZero (kahnInDeg parents (kNodes nodes0)) (kNodes nodes0))) []).2 :=
  kahnLoop_inv lt parents (kNodes_idNodup nodes0) _ _ _ _ _ (kahn_init _ parents _) (by simp)

end
end V.StateRes
