/-
  The resolved-state association list of VModel.StateRes (`State.get` / `State.set` / `applyEvents` /
  `authAndApply`): one entry per (type, state_key) slot, entries are supplied events, and the state reached by
  applying events with pairwise distinct slots does not depend on the order they are applied in.  Core only.
-/
import VProofs.StateResBasic
namespace V.StateRes
open V Json GoJson Auth List

/-- one entry per slot, and every entry sits in the slot of its event -/
structure StateWF (s : State) : Prop where
  nodup : (s.map (·.1)).Nodup
  slot : ∀ x ∈ s, hasKey x.1 x.2 = true

theorem stateWF_nil : StateWF [] := ⟨by simp, fun _ h => by cases h⟩

/-! ## get / set -/

theorem State.get_nil (t k : Bytes) : State.get [] t k = none := rfl

theorem State.get_cons (x : (Bytes × Bytes) × Event) (s : State) (t k : Bytes) :
    State.get (x :: s) t k = if x.1 = (t, k) then some x.2 else State.get s t k := by
  unfold State.get
  rw [List.find?_cons]
  by_cases h : x.1 = (t, k)
  · simp [h]
  · have : (x.1 == (t, k)) = false := by simpa using h
    simp [this, h]

theorem State.get_eq_some_of_mem {s : State} (hn : (s.map (·.1)).Nodup) {t k : Bytes} {e : Event}
    (h : ((t, k), e) ∈ s) : s.get t k = some e := by
  induction s with
  | nil => cases h
  | cons x xs ih =>
    rw [State.get_cons]
    simp only [List.map_cons, List.nodup_cons] at hn
    rcases List.mem_cons.mp h with rfl | h'
    · simp
    · have : x.1 ≠ (t, k) := by
        intro heq; apply hn.1; rw [heq]
        exact List.mem_map_of_mem (f := (·.1)) h'
      rw [if_neg this]; exact ih hn.2 h'

theorem State.mem_of_get_eq_some {s : State} {t k : Bytes} {e : Event} (h : s.get t k = some e) : ((t, k), e) ∈ s := by
  induction s with
  | nil => cases h
  | cons x xs ih =>
    rw [State.get_cons] at h
    split at h
    · rename_i heq
      cases h
      have : x = ((t, k), x.2) := by rw [← heq]
      rw [← this]; exact List.mem_cons_self
    · exact List.mem_cons_of_mem _ (ih h)

theorem State.get_eq_some_iff {s : State} (hn : (s.map (·.1)).Nodup) {t k : Bytes} {e : Event} :
    s.get t k = some e ↔ ((t, k), e) ∈ s := ⟨State.mem_of_get_eq_some, State.get_eq_some_of_mem hn⟩

theorem State.get_eq_none_iff {s : State} {t k : Bytes} : s.get t k = none ↔ (t, k) ∉ s.map (·.1) := by
  induction s with
  | nil => simp [State.get_nil]
  | cons x xs ih =>
    rw [State.get_cons]
    by_cases h : x.1 = (t, k)
    · simp [h]
    · simp only [if_neg h, ih, List.map_cons, List.mem_cons, not_or]
      constructor
      · intro h'; exact ⟨fun h'' => h h''.symm, h'⟩
      · intro h'; exact h'.2

theorem State.isSome_find_iff {s : State} {t k : Bytes} :
    (s.find? (fun x => x.1 == (t, k))).isSome ↔ (t, k) ∈ s.map (·.1) := by
  simp only [List.find?_isSome, beq_iff_eq, List.mem_map]

/-- `set` on a slot that is present: replace in place -/
def State.replace (s : State) (t k : Bytes) (e : Event) : State :=
  s.map (fun x => if x.1 == (t, k) then ((t, k), e) else x)

theorem State.set_eq (s : State) (t k : Bytes) (e : Event) :
    s.set t k e = if (t, k) ∈ s.map (·.1) then s.replace t k e else s ++ [((t, k), e)] := by
  unfold State.set State.replace
  by_cases h : (t, k) ∈ s.map (·.1)
  · rw [if_pos h, if_pos (State.isSome_find_iff.mpr h)]
  · rw [if_neg h, if_neg (fun h' => h (State.isSome_find_iff.mp h'))]

theorem State.replace_keys (s : State) (t k : Bytes) (e : Event) : (s.replace t k e).map (·.1) = s.map (·.1) := by
  unfold State.replace
  rw [List.map_map]
  apply List.map_congr_left
  intro x _
  simp only [Function.comp]
  split
  · rename_i h; exact (by simpa using h : x.1 = (t, k)).symm
  · rfl

theorem State.mem_replace {s : State} {t k : Bytes} {e : Event} {x} (h : x ∈ s.replace t k e) :
    x = ((t, k), e) ∨ (x ∈ s ∧ x.1 ≠ (t, k)) := by
  unfold State.replace at h
  obtain ⟨y, hy, rfl⟩ := List.mem_map.mp h
  split
  · exact Or.inl rfl
  · rename_i hne; exact Or.inr ⟨hy, by simpa using hne⟩

theorem State.set_keys (s : State) (t k : Bytes) (e : Event) :
    (s.set t k e).map (·.1) = if (t, k) ∈ s.map (·.1) then s.map (·.1) else s.map (·.1) ++ [(t, k)] := by
  rw [State.set_eq]
  split
  · exact State.replace_keys s t k e
  · simp

theorem State.mem_set {s : State} {t k : Bytes} {e : Event} {x} (h : x ∈ s.set t k e) :
    x = ((t, k), e) ∨ (x ∈ s ∧ x.1 ≠ (t, k)) := by
  rw [State.set_eq] at h
  split at h
  · exact State.mem_replace h
  · rename_i hn
    rcases List.mem_append.mp h with h' | h'
    · refine Or.inr ⟨h', ?_⟩
      intro heq; apply hn; rw [← heq]; exact List.mem_map_of_mem (f := (·.1)) h'
    · exact Or.inl (by simpa using h')

theorem State.set_nodup {s : State} (hn : (s.map (·.1)).Nodup) (t k : Bytes) (e : Event) :
    ((s.set t k e).map (·.1)).Nodup := by
  rw [State.set_keys]
  split
  · exact hn
  · rename_i h
    rw [List.nodup_append]
    refine ⟨hn, by simp, ?_⟩
    intro a ha b hb
    simp only [List.mem_singleton] at hb
    subst hb; intro heq; subst heq; exact h ha

theorem State.get_replace (s : State) (t k : Bytes) (e : Event) (t' k' : Bytes) :
    (s.replace t k e).get t' k' = if (t', k') = (t, k) then (if (t, k) ∈ s.map (·.1) then some e else none) else s.get t' k' := by
  induction s with
  | nil => simp [State.replace, State.get_nil]
  | cons x xs ih =>
    have hcons : State.replace (x :: xs) t k e = (if x.1 == (t, k) then ((t, k), e) else x) :: State.replace xs t k e := rfl
    rw [hcons, State.get_cons, State.get_cons, ih]
    by_cases hx : x.1 = (t, k)
    · have hb : (x.1 == (t, k)) = true := by simpa using hx
      simp only [hb, if_true, List.map_cons, List.mem_cons, hx, true_or]
      by_cases hq : (t', k') = (t, k)
      · simp [hq]
      · have : ¬ (t, k) = (t', k') := fun h => hq h.symm
        simp [hq, this]
    · have hb : (x.1 == (t, k)) = false := by simpa using hx
      simp only [hb, Bool.false_eq_true, if_false, List.map_cons, List.mem_cons]
      by_cases hq : (t', k') = (t, k)
      · have h2 : ¬ (t, k) = x.1 := fun h => hx h.symm
        simp only [hq, hx, h2, if_false, if_true, false_or]
      · simp [hq]

theorem State.get_set (s : State) (t k : Bytes) (e : Event) (t' k' : Bytes) :
    (s.set t k e).get t' k' = if (t', k') = (t, k) then some e else s.get t' k' := by
  rw [State.set_eq]
  by_cases hm : (t, k) ∈ s.map (·.1)
  · rw [if_pos hm, State.get_replace, if_pos hm]
  · rw [if_neg hm]
    induction s with
    | nil =>
      rw [List.nil_append, State.get_cons, State.get_nil]
      by_cases hq : (t', k') = (t, k)
      · simp [hq]
      · have : ¬ (t, k) = (t', k') := fun h => hq h.symm
        simp [hq, this]
    | cons x xs ih =>
      simp only [List.map_cons, List.mem_cons, not_or] at hm
      rw [List.cons_append, State.get_cons, State.get_cons, ih hm.2]
      by_cases hx : x.1 = (t', k')
      · have : ¬ (t', k') = (t, k) := by rw [← hx]; exact fun h => hm.1 h.symm
        simp [hx, this]
      · simp [hx]

theorem StateWF.set {s : State} (h : StateWF s) {e : Event} {k : Bytes} (hk : e.stateKey = some k) :
    StateWF (s.set e.type k e) := by
  refine ⟨State.set_nodup h.nodup _ _ _, ?_⟩
  intro x hx
  rcases State.mem_set hx with rfl | ⟨hx', _⟩
  · exact hasKey_iff.mpr ⟨hk, rfl⟩
  · exact h.slot x hx'

/-! ## applyEvents -/

def applyStep (st : State) (e : Event) : State :=
  match e.stateKey with
  | none => st
  | some k => st.set e.type k e

theorem applyEvents_eq (s : State) (evs : List Event) : applyEvents s evs = evs.foldl applyStep s := rfl

theorem applyEvents_nil (s : State) : applyEvents s [] = s := rfl

theorem applyEvents_cons (s : State) (e : Event) (evs : List Event) :
    applyEvents s (e :: evs) = applyEvents (applyStep s e) evs := rfl

theorem applyEvents_append (s : State) (a b : List Event) : applyEvents s (a ++ b) = applyEvents (applyEvents s a) b := by
  simp only [applyEvents_eq, List.foldl_append]

theorem StateWF.applyStep {s : State} (h : StateWF s) (e : Event) : StateWF (applyStep s e) := by
  unfold V.StateRes.applyStep
  cases hk : e.stateKey with
  | none => exact h
  | some k => exact h.set hk

theorem StateWF.applyEvents {s : State} (h : StateWF s) (evs : List Event) : StateWF (applyEvents s evs) := by
  induction evs generalizing s with
  | nil => exact h
  | cons e es ih => rw [applyEvents_cons]; exact ih (h.applyStep e)

theorem mem_applyStep {s : State} {e : Event} {x} (h : x ∈ applyStep s e) : x ∈ s ∨ x.2 = e := by
  unfold applyStep at h
  cases hk : e.stateKey with
  | none => rw [hk] at h; exact Or.inl h
  | some k =>
    rw [hk] at h
    rcases State.mem_set h with rfl | ⟨h', _⟩
    · exact Or.inr rfl
    · exact Or.inl h'

/-- every entry of the new state was there before or is one of the applied events -/
theorem mem_applyEvents {s : State} {evs : List Event} {x} (h : x ∈ applyEvents s evs) : x ∈ s ∨ x.2 ∈ evs := by
  induction evs generalizing s with
  | nil => exact Or.inl h
  | cons e es ih =>
    rw [applyEvents_cons] at h
    rcases ih h with h' | h'
    · rcases mem_applyStep h' with h'' | h''
      · exact Or.inl h''
      · exact Or.inr (h'' ▸ List.mem_cons_self)
    · exact Or.inr (List.mem_cons_of_mem _ h')

theorem get_applyStep (s : State) (e : Event) (t k : Bytes) :
    (applyStep s e).get t k = if hasKey (t, k) e then some e else s.get t k := by
  unfold applyStep
  cases hk : e.stateKey with
  | none =>
    have : hasKey (t, k) e = false := by simp [hasKey, hk]
    simp [this]
  | some k' =>
    simp only [State.get_set]
    by_cases hq : (t, k) = (e.type, k')
    · have : hasKey (t, k) e = true := by
        rw [hq]; exact hasKey_iff.mpr ⟨hk, rfl⟩
      rw [if_pos hq, this]; rfl
    · have : hasKey (t, k) e = false := by
        cases hh : hasKey (t, k) e with
        | false => rfl
        | true =>
          obtain ⟨h1, h2⟩ := hasKey_iff.mp hh
          rw [hk] at h1; simp only [Option.some.injEq] at h1
          exact absurd (by simp [h1, h2]) hq
      simp [hq, this]

/-- the events that are state events occupy pairwise distinct slots -/
def DistinctSlots (evs : List Event) : Prop :=
  evs.Pairwise (fun a b => ∀ key, ¬ (hasKey key a = true ∧ hasKey key b = true))

theorem distinctSlots_of_keys {evs : List Event} (h : (evs.map keyOf).Nodup) : DistinctSlots evs := by
  unfold DistinctSlots
  rw [List.nodup_iff_pairwise_ne, List.pairwise_map] at h
  refine h.imp ?_
  intro a b hne key ⟨ha, hb⟩
  apply hne
  have ha' := hasKey_iff.mp ha
  have hb' := hasKey_iff.mp hb
  unfold keyOf; rw [ha'.1, hb'.1, ha'.2, hb'.2]

theorem DistinctSlots.perm {evs evs' : List Event} (hp : evs ~ evs') (h : DistinctSlots evs) : DistinctSlots evs' := by
  unfold DistinctSlots at *
  refine hp.pairwise h ?_
  intro a b hab key ⟨h1, h2⟩
  exact hab key ⟨h2, h1⟩

/-- applying events with pairwise distinct slots: the slot of an applied event holds that event, the other slots are untouched -/
theorem get_applyEvents {evs : List Event} (hd : DistinctSlots evs) (s : State) (t k : Bytes) (r : Option Event) :
    (applyEvents s evs).get t k = r ↔
      (∃ e ∈ evs, hasKey (t, k) e = true ∧ r = some e) ∨ ((∀ e ∈ evs, hasKey (t, k) e = false) ∧ s.get t k = r) := by
  induction evs generalizing s with
  | nil => simp [applyEvents_nil]
  | cons e es ih =>
    unfold DistinctSlots at hd
    rw [List.pairwise_cons] at hd
    rw [applyEvents_cons, ih hd.2, get_applyStep]
    by_cases he : hasKey (t, k) e = true
    · have hes : ∀ x ∈ es, hasKey (t, k) x = false := by
        intro x hx
        cases hh : hasKey (t, k) x with
        | false => rfl
        | true => exact absurd ⟨he, hh⟩ (hd.1 x hx (t, k))
      simp only [he, if_true]
      constructor
      · rintro (⟨x, hx, hxk, _⟩ | ⟨_, h⟩)
        · rw [hes x hx] at hxk; cases hxk
        · exact Or.inl ⟨e, List.mem_cons_self, he, h.symm⟩
      · rintro (⟨x, hx, hxk, hr⟩ | ⟨h, _⟩)
        · rcases List.mem_cons.mp hx with rfl | hx'
          · exact Or.inr ⟨hes, hr.symm⟩
          · rw [hes x hx'] at hxk; cases hxk
        · have := h e List.mem_cons_self; rw [he] at this; cases this
    · have he' : hasKey (t, k) e = false := by simpa using he
      simp only [he', Bool.false_eq_true, if_false]
      constructor
      · rintro (⟨x, hx, hxk, hr⟩ | ⟨h, hr⟩)
        · exact Or.inl ⟨x, List.mem_cons_of_mem _ hx, hxk, hr⟩
        · refine Or.inr ⟨?_, hr⟩
          intro x hx
          rcases List.mem_cons.mp hx with rfl | hx'
          · exact he'
          · exact h x hx'
      · rintro (⟨x, hx, hxk, hr⟩ | ⟨h, hr⟩)
        · rcases List.mem_cons.mp hx with rfl | hx'
          · rw [he'] at hxk; cases hxk
          · exact Or.inl ⟨x, hx', hxk, hr⟩
        · exact Or.inr ⟨fun x hx => h x (List.mem_cons_of_mem _ hx), hr⟩

/-- **order of application is irrelevant for events in distinct slots**: same lookups -/
theorem get_applyEvents_perm {evs evs' : List Event} (hp : evs ~ evs') (hd : DistinctSlots evs) (s : State) (t k : Bytes) :
    (applyEvents s evs).get t k = (applyEvents s evs').get t k := by
  have h1 := (get_applyEvents hd s t k ((applyEvents s evs').get t k))
  rw [h1]
  have h2 := (get_applyEvents (hd.perm hp) s t k ((applyEvents s evs').get t k)).mp rfl
  rcases h2 with ⟨e, he, hk, hr⟩ | ⟨h, hr⟩
  · exact Or.inl ⟨e, hp.mem_iff.mpr he, hk, hr⟩
  · exact Or.inr ⟨fun e he => h e (hp.mem_iff.mp he), hr⟩

/-- well-formed states with the same lookups are permutations of each other -/
theorem StateWF.perm_of_get {s s' : State} (h : StateWF s) (h' : StateWF s') (hg : ∀ t k, s.get t k = s'.get t k) : s ~ s' := by
  have nd : ∀ {u : State}, (u.map (·.1)).Nodup → u.Nodup := by
    intro u hu
    rw [List.nodup_iff_pairwise_ne, List.pairwise_map] at hu
    exact hu.imp (fun hne heq => hne (congrArg (·.1) heq))
  refine SameSet.perm ?_ (nd h.nodup) (nd h'.nodup)
  intro x
  obtain ⟨⟨t, k⟩, e⟩ := x
  rw [← State.get_eq_some_iff h.nodup, ← State.get_eq_some_iff h'.nodup, hg]

theorem applyEvents_perm {evs evs' : List Event} (hp : evs ~ evs') (hd : DistinctSlots evs) {s : State} (hs : StateWF s) :
    applyEvents s evs ~ applyEvents s evs' :=
  (hs.applyEvents evs).perm_of_get (hs.applyEvents evs') (fun t k => get_applyEvents_perm hp hd s t k)

/-! ## authAndApply -/

def authStep (authMap : List Event) (rejected : List ID) (st : State) (e : Event) : State :=
  match allowedFreshNoValid e (Provider.ofEvents (providerFor authMap rejected st e)) false with
  | .ok => applyEvents st [e]
  | _ => st

theorem authAndApply_eq (authMap : List Event) (rejected : List ID) (s : State) (evs : List Event) :
    authAndApply authMap rejected s evs = evs.foldl (authStep authMap rejected) s := rfl

theorem StateWF.authStep {s : State} (h : StateWF s) (authMap : List Event) (rejected : List ID) (e : Event) :
    StateWF (authStep authMap rejected s e) := by
  unfold V.StateRes.authStep
  split
  · exact h.applyEvents [e]
  · exact h

theorem StateWF.authAndApply {s : State} (h : StateWF s) (authMap : List Event) (rejected : List ID) (evs : List Event) :
    StateWF (authAndApply authMap rejected s evs) := by
  rw [authAndApply_eq]
  induction evs generalizing s with
  | nil => exact h
  | cons e es ih => rw [List.foldl_cons]; exact ih (h.authStep authMap rejected e)

theorem mem_authAndApply {authMap : List Event} {rejected : List ID} {s : State} {evs : List Event} {x}
    (h : x ∈ authAndApply authMap rejected s evs) : x ∈ s ∨ x.2 ∈ evs := by
  rw [authAndApply_eq] at h
  induction evs generalizing s with
  | nil => exact Or.inl h
  | cons e es ih =>
    rw [List.foldl_cons] at h
    rcases ih h with h' | h'
    · unfold authStep at h'
      split at h'
      · rcases mem_applyEvents h' with h'' | h''
        · exact Or.inl h''
        · exact Or.inr (by simp only [List.mem_singleton] at h''; rw [h'']; exact List.mem_cons_self)
      · exact Or.inl h'
    · exact Or.inr (List.mem_cons_of_mem _ h')

end V.StateRes
