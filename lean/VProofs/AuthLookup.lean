/-
  AuthLookup — the auth verdict of the model depends on the auth-event provider ONLY through its lookups
  (`Provider.get t k`) and, for `allowedFresh`, the `Valid()` gate (`Provider.roomIDs`).
  `Provider.ident` is irrelevant for a fresh context.  Core Lean only.
-/
import VModel.Auth
namespace V.Auth
open V Json GoJson List

/-- two providers that answer every lookup alike -/
def Provider.LookupEq (p q : Provider) : Prop := (∀ t k, p.get t k = q.get t k) ∧ p.roomIDs = q.roomIDs

/-- the same cache, another provider -/
def Ctx.withProv (a : Ctx) (q : Provider) : Ctx := { a with provider := q }

/-- all cached fields equal, providers lookup-equal and equally `Valid()` -/
def CtxSim (a b : Ctx) : Prop :=
  b = a.withProv b.provider ∧ (∀ t k, a.provider.get t k = b.provider.get t k) ∧ a.provider.valid = b.provider.valid

/-! ### the check functions read the provider only through lookups -/

theorem memberFromProvider_congr {p q : Provider} (h : ∀ t k, p.get t k = q.get t k) (u : Bytes) :
    memberFromProvider p u = memberFromProvider q u := by
  unfold memberFromProvider Provider.member
  rw [h]

theorem userPowerLevel_withProv (a : Ctx) (q : Provider) (u : Bytes) :
    (a.withProv q).userPowerLevel u = a.userPowerLevel u := rfl

theorem createEventAllowed_withProv (a : Ctx) (q : Provider) (e : Event) :
    (a.withProv q).createEventAllowed e = a.createEventAllowed e := rfl

theorem aliasEventAllowed_withProv (a : Ctx) (q : Provider) (e : Event) :
    (a.withProv q).aliasEventAllowed e = a.aliasEventAllowed e := rfl

theorem commonChecks_withProv (a : Ctx) (q : Provider) (m : MemberContent) (e : Event) :
    (a.withProv q).commonChecks m e = a.commonChecks m e := rfl

theorem checkPowerLevelEvent_withProv (a : Ctx) (q : Provider) (e : Event) (o n : PowerLevels) :
    (a.withProv q).checkPowerLevelEvent e o n = a.checkPowerLevelEvent e o n := rfl

theorem powerLevelsEventAllowed_withProv (a : Ctx) (q : Provider) (e : Event)
    (h : ∀ t k, a.provider.get t k = q.get t k) :
    (a.withProv q).powerLevelsEventAllowed e = a.powerLevelsEventAllowed e := by
  unfold Ctx.powerLevelsEventAllowed
  rw [show (a.withProv q).provider = q from rfl, ← memberFromProvider_congr h]
  rfl

theorem redactEventAllowed_withProv (a : Ctx) (q : Provider) (e : Event)
    (h : ∀ t k, a.provider.get t k = q.get t k) :
    (a.withProv q).redactEventAllowed e = a.redactEventAllowed e := by
  unfold Ctx.redactEventAllowed
  rw [show (a.withProv q).provider = q from rfl, ← memberFromProvider_congr h]
  rfl

theorem defaultEventAllowed_withProv (a : Ctx) (q : Provider) (e : Event)
    (h : ∀ t k, a.provider.get t k = q.get t k) :
    (a.withProv q).defaultEventAllowed e = a.defaultEventAllowed e := by
  unfold Ctx.defaultEventAllowed
  rw [show (a.withProv q).provider = q from rfl, ← memberFromProvider_congr h]
  rfl

/-- the same membership allower over the re-provided context -/
def MembershipAllower.withProv (m : MembershipAllower) (q : Provider) : MembershipAllower :=
  { m with ctx := m.ctx.withProv q }

theorem restrictedJoin_withProv (m : MembershipAllower) (q : Provider)
    (h : ∀ t k, m.ctx.provider.get t k = q.get t k) :
    (m.withProv q).restrictedJoin = m.restrictedJoin := by
  unfold MembershipAllower.restrictedJoin
  rw [show (m.withProv q).ctx.provider.member (m.withProv q).newMember.authorisedVia
        = m.ctx.provider.member m.newMember.authorisedVia from (h _ _).symm]
  rfl

theorem allowedSelf_withProv (m : MembershipAllower) (q : Provider)
    (h : ∀ t k, m.ctx.provider.get t k = q.get t k) :
    (m.withProv q).allowedSelf = m.allowedSelf := by
  unfold MembershipAllower.allowedSelf
  rw [restrictedJoin_withProv m q h]
  rfl

theorem allowedOther_withProv (m : MembershipAllower) (q : Provider) :
    (m.withProv q).allowedOther = m.allowedOther := rfl

theorem allowedSelf_mk_withProv (a : Ctx) (q : Provider) (h : ∀ t k, a.provider.get t k = q.get t k)
    (row : VGen.VersionRow) (ver : Bytes) (n : Nat) (t s : Bytes) (sm om nm : MemberContent) (jr : Bytes) :
    MembershipAllower.allowedSelf ⟨a.withProv q, row, ver, n, t, s, sm, om, nm, jr⟩
      = MembershipAllower.allowedSelf ⟨a, row, ver, n, t, s, sm, om, nm, jr⟩ :=
  allowedSelf_withProv ⟨a, row, ver, n, t, s, sm, om, nm, jr⟩ q h

theorem memberEventAllowed_withProv (a : Ctx) (q : Provider) (e : Event) (sig : Bool)
    (h : ∀ t k, a.provider.get t k = q.get t k) :
    (a.withProv q).memberEventAllowed e sig = a.memberEventAllowed e sig := by
  unfold Ctx.memberEventAllowed
  have hm : ∀ u, memberFromProvider (a.withProv q).provider u = memberFromProvider a.provider u :=
    fun u => (memberFromProvider_congr h u).symm
  have ht : ∀ tok, (a.withProv q).provider.thirdPartyInvite tok = a.provider.thirdPartyInvite tok :=
    fun tok => (h _ _).symm
  simp only [hm, ht]
  simp only [allowedSelf_mk_withProv a q h]
  rfl

theorem dispatch_withProv (a : Ctx) (q : Provider) (e : Event) (sig : Bool)
    (h : ∀ t k, a.provider.get t k = q.get t k) :
    (a.withProv q).dispatch e sig = a.dispatch e sig := by
  unfold Ctx.dispatch Ctx.dispatchPL
  rw [createEventAllowed_withProv, aliasEventAllowed_withProv, memberEventAllowed_withProv a q e sig h,
    powerLevelsEventAllowed_withProv a q e h, redactEventAllowed_withProv a q e h, defaultEventAllowed_withProv a q e h]
  rfl

theorem allowed_withProv (a : Ctx) (q : Provider) (e : Event) (sig : Bool)
    (h : ∀ t k, a.provider.get t k = q.get t k) (hv : a.provider.valid = q.valid) :
    (a.withProv q).allowed e sig = a.allowed e sig := by
  unfold Ctx.allowed
  rw [dispatch_withProv a q e sig h, show (a.withProv q).provider = q from rfl, hv]

/-- `Ctx.allowed` gives the same answer on similar contexts -/
theorem allowed_sim {a b : Ctx} (h : CtxSim a b) (e : Event) (sig : Bool) : b.allowed e sig = a.allowed e sig := by
  rw [h.1]; exact allowed_withProv a _ e sig h.2.1 h.2.2

/-! ### `update` reads the provider only through lookups -/

theorem refreshCreate_withProv (a : Ctx) (r p q : Provider) (h : p.create = q.create) :
    (a.withProv r).refreshCreate q = (a.refreshCreate p).map (·.withProv r) := by
  unfold Ctx.refreshCreate
  rw [← h, show (a.withProv r).createEvent = a.createEvent from rfl]
  split
  · cases createInfo p.create with
    | error v => rfl
    | ok x => rfl
  · rfl

theorem refreshPL_withProv (a : Ctx) (r p q : Provider) (h : p.powerLevels = q.powerLevels) :
    (a.withProv r).refreshPL q = (a.refreshPL p).map (·.withProv r) := by
  unfold Ctx.refreshPL
  rw [← h, show (a.withProv r).plEvent = a.plEvent from rfl, show (a.withProv r).createEvent = a.createEvent from rfl]
  split
  · cases plInfo p.powerLevels (senderOfOpt a.createEvent) with
    | error v => rfl
    | ok x => rfl
  · rfl

theorem refreshJR_withProv (a : Ctx) (r p q : Provider) (h : p.joinRules = q.joinRules) :
    (a.withProv r).refreshJR q = (a.refreshJR p).withProv r := by
  unfold Ctx.refreshJR
  rw [← h, show (a.withProv r).jrEvent = a.jrEvent from rfl]
  split <;> rfl

theorem switchProvider_fresh (p q : Provider) :
    ({} : Ctx).switchProvider q = (({} : Ctx).switchProvider p).withProv q := rfl

theorem refreshCreate_provider {a b : Ctx} {p : Provider} (h : a.refreshCreate p = .ok b) : b.provider = a.provider := by
  unfold Ctx.refreshCreate at h
  split at h
  · split at h
    · cases h; rfl
    · cases h
  · cases h; rfl

theorem refreshPL_provider {a b : Ctx} {p : Provider} (h : a.refreshPL p = .ok b) : b.provider = a.provider := by
  unfold Ctx.refreshPL at h
  split at h
  · split at h
    · cases h; rfl
    · cases h
  · cases h; rfl

theorem refreshJR_provider (a : Ctx) (p : Provider) : (a.refreshJR p).provider = a.provider := by
  unfold Ctx.refreshJR
  split <;> rfl

theorem switchProvider_provider (a : Ctx) (p : Provider) : (a.switchProvider p).provider = p := by
  unfold Ctx.switchProvider
  split <;> rfl

/-- the provider stored by `update p` is `p` -/
theorem update_provider {a b : Ctx} {p : Provider} (h : a.update p = .ok b) : b.provider = p := by
  unfold Ctx.update at h
  simp only [bind, Except.bind, pure, Except.pure] at h
  split at h
  · cases h
  · rename_i a2 h2
    split at h
    · cases h
    · rename_i a3 h3
      cases h
      rw [refreshJR_provider, refreshPL_provider h3, refreshCreate_provider h2, switchProvider_provider]

/-- a fresh context updated with `q` is the one updated with `p`, re-provided (when create / power-levels /
    join-rules lookups agree); in particular both fail with the same verdict. -/
theorem update_fresh_withProv (p q : Provider) (h : ∀ t k, p.get t k = q.get t k) :
    ({} : Ctx).update q = (({} : Ctx).update p).map (·.withProv q) := by
  unfold Ctx.update
  simp only [bind, Except.bind, pure, Except.pure]
  rw [switchProvider_fresh p q, refreshCreate_withProv _ q p q (h _ _)]
  cases (({} : Ctx).switchProvider p).refreshCreate p with
  | error v => rfl
  | ok a2 =>
    simp only [Except.map]
    rw [refreshPL_withProv a2 q p q (h _ _)]
    cases a2.refreshPL p with
    | error v => rfl
    | ok a3 =>
      simp only [Except.map]
      rw [refreshJR_withProv a3 q p q (h _ _)]

theorem update_fresh_sim (p q : Provider) (h : ∀ t k, p.get t k = q.get t k) (hv : p.valid = q.valid) :
    (∃ v, ({} : Ctx).update p = .error v ∧ ({} : Ctx).update q = .error v) ∨
    (∃ a b, ({} : Ctx).update p = .ok a ∧ ({} : Ctx).update q = .ok b ∧ CtxSim a b) := by
  have hq := update_fresh_withProv p q h
  cases hp : ({} : Ctx).update p with
  | error v => rw [hp] at hq; exact Or.inl ⟨v, rfl, hq⟩
  | ok a =>
    rw [hp] at hq
    refine Or.inr ⟨a, a.withProv q, rfl, hq, rfl, ?_, ?_⟩
    · rw [update_provider hp]; exact h
    · rw [update_provider hp]; exact hv

/-! ### main theorems -/

theorem allowedFreshNoValid_lookup_congr (e : Event) (p q : Provider) (sig : Bool) (h : p.LookupEq q) :
    allowedFreshNoValid e p sig = allowedFreshNoValid e q sig := by
  have hv : p.valid = q.valid := by unfold Provider.valid; rw [h.2]
  unfold allowedFreshNoValid
  rcases update_fresh_sim p q h.1 hv with ⟨v, hp, hq⟩ | ⟨a, b, hp, hq, hs⟩
  · rw [hp, hq]
  · rw [hp, hq]; simp only; rw [allowed_sim hs]

theorem allowedFresh_lookup_congr (e : Event) (p q : Provider) (sig : Bool) (h : p.LookupEq q) :
    allowedFresh e p sig = allowedFresh e q sig := by
  have hv : p.valid = q.valid := by unfold Provider.valid; rw [h.2]
  have := allowedFreshNoValid_lookup_congr e p q sig h
  unfold allowedFreshNoValid at this
  unfold allowedFresh
  rw [hv, this]

/-! ### lookups do not depend on the order of the events -/

theorem find?_perm_of_pairwise {α} (P : α → Bool) {l l' : List α} (hp : l ~ l')
    (hk : l.Pairwise (fun a b => ¬ (P a = true ∧ P b = true))) : l.find? P = l'.find? P := by
  induction hp with
  | nil => rfl
  | cons x _ ih =>
    rw [pairwise_cons] at hk
    rw [find?_cons, find?_cons, ih hk.2]
  | swap x y l =>
    rw [pairwise_cons] at hk
    have hxy := hk.1 x (mem_cons_self)
    simp only [find?_cons]
    cases hx : P x <;> cases hy : P y <;> simp_all
  | trans h1 _ ih1 ih2 =>
    rw [ih1 hk]
    exact ih2 ((h1.pairwise_iff (fun h hc => h ⟨hc.2, hc.1⟩)).1 hk)

/-- lookups in a provider whose events have pairwise distinct (type, state_key) do not depend on the order of the events -/
theorem Provider.get_perm {evs evs' : List Event} (hp : evs ~ evs')
    (hk : evs.Pairwise (fun a b => ¬ (a.type = b.type ∧ a.stateKey = b.stateKey))) (r : List Bytes) (i j : Nat) (t k : Bytes) :
    ({ events := evs, roomIDs := r, ident := i } : Provider).get t k = ({ events := evs', roomIDs := r, ident := j } : Provider).get t k := by
  unfold Provider.get
  apply find?_perm_of_pairwise _ hp
  refine hk.imp ?_
  intro a b hab hc
  simp only [Bool.and_eq_true, beq_iff_eq] at hc
  exact hab ⟨hc.1.1.trans hc.2.1.symm, hc.1.2.trans hc.2.2.symm⟩

end V.Auth
