/-
  VProofs.EventAccessors — what the untrusted constructors guarantee about an accepted event, as far
  as the panic sites of the accessors (VModel.EventAccessors, VModel.EventParse) need it.
  Core Lean only.
-/
import VModel.EventAccessors
import VProofs.EventParse
import VProofs.B64
import VProofs.AuthRulesNoPanic
import VProps.C04
namespace V.AccProofs
open V V.Json V.GoJson V.Redact V.EventParse V.RedactProofs V.EventProofs V.EventAccessors

/-! ## Table facts (regenerated room-version table) -/

/-- what the accessors rely on, per registered version: the three constructor columns name the same
    struct; format-1 structs go with event format 1, the later structs with hashed event IDs; the
    domain-less struct (eventV3) with URL-safe IDs; the function-valued columns the accessors call are set. -/
def rowOk (row : VGen.VersionRow) : Bool :=
  match fmtOfName row.newEventFromUntrustedJSONFunc with
  | none => false
  | some fmt =>
    fmtOfName row.newEventFromTrustedJSONFunc == some fmt &&
    (if fmt == .v1 then row.eventFormat == 1
     else row.eventFormat == 2 && (row.eventIDFormat == 2 || row.eventIDFormat == 3)) &&
    (if fmt == .v3 then row.eventIDFormat == 3 else true) &&
    row.parsePowerLevelsFunc != "" &&
    (enforces row).isSome

theorem table_rowOk : ∀ row ∈ VGen.roomVersions, rowOk row = true := by
  decide

theorem rowOf_mem {ver : Bytes} {row : VGen.VersionRow} (h : rowOf ver = some row) : row ∈ VGen.roomVersions :=
  List.mem_of_find?_eq_some h

structure RowFacts (row : VGen.VersionRow) (fmt : Fmt) : Prop where
  trusted : fmtOfName row.newEventFromTrustedJSONFunc = some fmt
  v1 : fmt = .v1 → row.eventFormat = 1
  hashed : fmt ≠ .v1 → row.eventFormat = 2 ∧ (row.eventIDFormat = 2 ∨ row.eventIDFormat = 3)
  v3 : fmt = .v3 → row.eventIDFormat = 3
  ppl : row.parsePowerLevelsFunc ≠ ""
  enf : ∃ b, enforces row = some b

theorem rowFacts {ver : Bytes} {row : VGen.VersionRow} {fmt : Fmt} (h : rowOf ver = some row)
    (hf : fmtOfName row.newEventFromUntrustedJSONFunc = some fmt) : RowFacts row fmt := by
  have := table_rowOk row (rowOf_mem h)
  unfold rowOk at this
  rw [hf] at this
  simp only [Bool.and_eq_true, beq_iff_eq, bne_iff_ne, ne_eq] at this
  obtain ⟨⟨⟨⟨h1, h2⟩, h3⟩, h4⟩, h5⟩ := this
  refine ⟨h1, ?_, ?_, ?_, h4, ?_⟩
  · intro hv; subst hv; simpa using h2
  · intro hv
    rw [if_neg hv] at h2
    simpa using h2
  · intro hv; subst hv; simpa using h3
  · cases he : enforces row with
    | none => rw [he] at h5; cases h5
    | some b => exact ⟨b, rfl⟩

/-! ## The room-ID check every constructor runs -/

theorem checkRoom_setID (fmt : Fmt) (f : Fields) (x : Bytes) : checkRoom fmt { f with eventIDRaw := x } = checkRoom fmt f := rfl

theorem construct_checkRoom {fmt : Fmt} {ver : Bytes} {red : Bool} {text : Bytes} {j : JVal} {e : PDU}
    (h : construct fmt ver red text j = .ok e) : checkRoom fmt e.f = .ok () ∧ e.fmt = fmt := by
  unfold construct at h
  split at h
  · rename_i kvs
    simp only at h
    split at h
    · cases h
    · split at h
      · cases h
      · split at h
        · cases h
        · rename_i hc
          cases h
          exact ⟨hc, rfl⟩
  · obtain ⟨x, hx⟩ := checkRoom_default fmt
    rw [hx] at h
    cases h
  · cases h

theorem sameButID_checkRoom {e e' : PDU} (h : SameButID e e') (hc : checkRoom e.fmt e.f = .ok ()) :
    checkRoom e'.fmt e'.f = .ok () := by
  unfold SameButID at h
  rw [h]
  exact hc

/-- What the accessors need to know about an event `NewEventFromUntrustedJSON` returned. -/
structure Inv (H : Bytes → Bytes) (ver : Bytes) (row : VGen.VersionRow) (e : PDU) : Prop where
  hrow : rowOf ver = some row
  hver : e.ver = ver
  hfmt : fmtOfName row.newEventFromUntrustedJSONFunc = some e.fmt
  room : checkRoom e.fmt e.f = .ok ()
  fields : checkFields e = .ok ()
  hid : e.fmt ≠ .v1 → referenceID H row ver (.obj e.obj) = .ok e.f.eventIDRaw

/-- The same without `CheckFields`: what holds of an event `NewEventFromTrustedJSON` returned as well. -/
structure TInv (H : Bytes → Bytes) (ver : Bytes) (row : VGen.VersionRow) (e : PDU) : Prop where
  hrow : rowOf ver = some row
  hver : e.ver = ver
  hfmt : fmtOfName row.newEventFromUntrustedJSONFunc = some e.fmt
  room : checkRoom e.fmt e.f = .ok ()
  hid : e.fmt ≠ .v1 → referenceID H row ver (.obj e.obj) = .ok e.f.eventIDRaw

theorem Inv.toTInv {H : Bytes → Bytes} {ver : Bytes} {row : VGen.VersionRow} {e : PDU} (I : Inv H ver row e) : TInv H ver row e :=
  ⟨I.hrow, I.hver, I.hfmt, I.room, I.hid⟩

theorem inv_of_accepted {H : Bytes → Bytes} {ver text : Bytes} {e : PDU} (h : parseUntrusted H ver text = .ok e) :
    ∃ row, Inv H ver row e := by
  obtain ⟨row', fmt', p', kvs', hrow', hfmt', _, _, hA, hef, _⟩ := C04.parseUntrusted_cases h
  obtain ⟨row, fmt, p, e0, R, hfin⟩ := C04.parseUntrusted_ok h
  have e1 : row' = row := by have := R.hrow; rw [hrow'] at this; exact Option.some.inj this
  subst e1
  have e2 : fmt' = fmt := by have := R.hfmt; rw [hfmt'] at this; exact Option.some.inj this
  subst e2
  obtain ⟨hc0, hf0⟩ := construct_checkRoom R.hcons
  have hreset : checkRoom (resetID fmt' e0).fmt (resetID fmt' e0).f = .ok () ∧ (resetID fmt' e0).fmt = fmt' := by
    unfold resetID
    split
    · exact ⟨by rw [hf0]; exact hc0, hf0⟩
    · exact ⟨by rw [hf0]; exact hc0, hf0⟩
  have hidr : e.fmt ≠ .v1 → referenceID H row' ver (.obj e.obj) = .ok e.f.eventIDRaw := by
    intro hne
    obtain ⟨row2, hrow2, hid⟩ := hA.hid hne
    have : row2 = row' := by rw [hrow'] at hrow2; exact (Option.some.inj hrow2).symm
    subst this
    exact hid
  obtain ⟨_, out⟩ := C04.finishUntrusted_ok hfin
  refine ⟨row', hrow', hA.hver, by rw [hef]; exact hfmt', ?_, ?_, hidr⟩
  · cases out with
    | intact hh hid =>
      obtain ⟨hs, _, _⟩ := idAndChecks_ok hid
      exact sameButID_checkRoom hs hreset.1
    | redactedSame hh r0 hr hsame hid =>
      obtain ⟨hs, _, _⟩ := idAndChecks_ok hid
      exact sameButID_checkRoom hs hreset.1
    | redactedReparsed hh r0 hr hdiff ht hcf =>
      obtain ⟨fmt2, e2, _, hc2, hs, _⟩ := trustedCore_ok ht
      obtain ⟨hc, hf⟩ := construct_checkRoom hc2
      exact sameButID_checkRoom hs (by rw [hf]; exact hc)
  · cases out with
    | intact hh hid => exact (idAndChecks_ok hid).2.2
    | redactedSame hh r0 hr hsame hid => exact (idAndChecks_ok hid).2.2
    | redactedReparsed hh r0 hr hdiff ht hcf => exact hcf

/-! ## Hashed event IDs -/

theorem encodeWith_length (α : List UInt8) : ∀ bs : Bytes, (B64.encodeWith α bs).length = (bs.length * 4 + 2) / 3 := by
  intro bs
  induction bs using B64.encodeWith.induct with
  | case1 => simp [B64.encodeWith]
  | case2 a => simp [B64.encodeWith]
  | case3 a b => simp [B64.encodeWith]
  | case4 a b c rest ih =>
    rw [B64.encodeWith]
    simp only [List.length_cons, ih]
    omega

/-- the ID of a hashed format: `$` and the base64 of the digest -/
theorem referenceID_shape {H : Bytes → Bytes} {row : VGen.VersionRow} {ver : Bytes} {j : JVal} {id : Bytes}
    (hfmt : row.eventFormat = 2) (h : referenceID H row ver j = .ok id) :
    ∃ d, (row.eventIDFormat = 2 ∧ id = 0x24 :: B64.encodeWith B64.stdAlphabet (H d)) ∨
         (row.eventIDFormat = 3 ∧ id = 0x24 :: B64.encodeWith B64.urlAlphabet (H d)) := by
  unfold referenceID at h
  split at h
  · cases h
  · rename_i r hr
    simp only at h
    have h1 : (row.eventFormat == 1) = false := by rw [hfmt]; rfl
    have h2 : (row.eventFormat == 2) = true := by rw [hfmt]; rfl
    rw [if_neg (by simp [h1]), if_pos h2] at h
    split at h
    · rename_i h3
      exact ⟨_, Or.inl ⟨by simpa using h3, (Except.ok.inj h).symm⟩⟩
    · split at h
      · rename_i h3
        exact ⟨_, Or.inr ⟨by simpa using h3, (Except.ok.inj h).symm⟩⟩
      · cases h
  · cases h

theorem urlChars_ok : ∀ i : Fin 64, isB64UrlChar (B64.encChar B64.urlAlphabet i.val) = true ∧
    B64.encChar B64.urlAlphabet i.val ≠ 0x3A := by
  decide

/-- `!` followed by the URL-safe base64 of a 32-byte digest is a room ID `spec.NewRoomID` accepts -/
theorem roomIDValid_hashed (d : Bytes) (hd : d.length = 32) :
    roomIDValid? (0x21 :: B64.encodeWith B64.urlAlphabet d) = some true := by
  have hlen : (B64.encodeWith B64.urlAlphabet d).length = 43 := by rw [encodeWith_length, hd]
  have hchars := B64.encodeWith_chars B64.urlAlphabet d
  have hall : (B64.encodeWith B64.urlAlphabet d).all isB64UrlChar = true := by
    rw [List.all_eq_true]
    intro c hc
    obtain ⟨i, rfl⟩ := hchars c hc
    exact (urlChars_ok i).1
  have hnc : (0x21 :: B64.encodeWith B64.urlAlphabet d).contains 0x3A = false := by
    rw [Bool.eq_false_iff]
    intro hcon
    rw [List.contains_iff_mem] at hcon
    rcases List.mem_cons.mp hcon with h | h
    · exact absurd h (by decide)
    · obtain ⟨i, hi⟩ := hchars _ h
      exact (urlChars_ok i).2 hi.symm
  unfold roomIDValid?
  have hl : (0x21 :: B64.encodeWith B64.urlAlphabet d).length = 44 := by simp [hlen]
  rw [if_neg (by rw [hl]; decide)]
  simp only [hnc, Bool.not_false, if_true, hlen, hall, beq_self_eq_true, Bool.and_self]

/-! ## Accessors of an accepted event -/

/-- the hash function returns 32 bytes (SHA-256 does) -/
def Len32 (H : Bytes → Bytes) : Prop := ∀ x, (H x).length = 32

/-- the stored ID of a hashed format is `$` + base64 -/
theorem id_shapeT {H : Bytes → Bytes} {ver : Bytes} {row : VGen.VersionRow} {e : PDU} (I : TInv H ver row e) (hv : e.fmt ≠ .v1) :
    ∃ d, (row.eventIDFormat = 2 ∧ e.f.eventIDRaw = 0x24 :: B64.encodeWith B64.stdAlphabet (H d)) ∨
         (row.eventIDFormat = 3 ∧ e.f.eventIDRaw = 0x24 :: B64.encodeWith B64.urlAlphabet (H d)) :=
  referenceID_shape ((rowFacts I.hrow I.hfmt).hashed hv).1 (I.hid hv)

theorem id_shape {H : Bytes → Bytes} {ver : Bytes} {row : VGen.VersionRow} {e : PDU} (I : Inv H ver row e) (hv : e.fmt ≠ .v1) :
    ∃ d, (row.eventIDFormat = 2 ∧ e.f.eventIDRaw = 0x24 :: B64.encodeWith B64.stdAlphabet (H d)) ∨
         (row.eventIDFormat = 3 ∧ e.f.eventIDRaw = 0x24 :: B64.encodeWith B64.urlAlphabet (H d)) :=
  id_shapeT I.toTInv hv

theorem eventID_okT {H : Bytes → Bytes} {ver : Bytes} {row : VGen.VersionRow} {e : PDU} (I : TInv H ver row e) :
    eventID H e = .ok e.f.eventIDRaw := by
  unfold eventID
  by_cases hv : e.fmt = .v1
  · simp [hv]
  · obtain ⟨d, ⟨_, h⟩ | ⟨_, h⟩⟩ := id_shapeT I hv <;> simp [h]

theorem eventID_ok {H : Bytes → Bytes} {ver : Bytes} {row : VGen.VersionRow} {e : PDU} (I : Inv H ver row e) :
    eventID H e = .ok e.f.eventIDRaw := eventID_okT I.toTInv

theorem checkRoom_valid {fmt : Fmt} {f : Fields} (h : checkRoom fmt f = .ok ()) (hc : (fmt == .v3 && isCreateF f) = false) :
    roomIDValid? f.roomID = some true ∧ f.roomID ≠ [] := by
  unfold checkRoom at h
  split at h
  · rename_i h3
    rw [h3] at hc
    simp only [Bool.true_and] at hc
    unfold checkRoomIDV3 at h
    rw [if_neg (by simp [hc])] at h
    split at h
    · rename_i rest hr
      split at h
      · cases h
      · rename_i hv; exact ⟨hv, by rw [hr]; exact List.cons_ne_nil _ _⟩
      · cases h
    · cases h
  · unfold checkRoomIDField at h
    split at h
    · split at h <;> cases h
    · rename_i hid
      split at h
      · cases h
      · rename_i hv
        refine ⟨hv, ?_⟩
        intro hnil
        rw [hnil] at hid
        simp [checkID] at hid
      · cases h

theorem roomID_okT {H : Bytes → Bytes} (hH : Len32 H) {ver : Bytes} {row : VGen.VersionRow} {e : PDU} (I : TInv H ver row e) :
    ∃ rid, roomID H e = .ok rid := by
  unfold roomID
  by_cases hc : (e.fmt == .v3 && isCreate e) = true
  · rw [if_pos hc, eventID_okT I]
    simp only [Bool.and_eq_true, beq_iff_eq] at hc
    have hne : e.fmt ≠ .v1 := by rw [hc.1]; intro h; cases h
    have h3 := (rowFacts I.hrow I.hfmt).v3 hc.1
    obtain ⟨d, ⟨h2, _⟩ | ⟨_, h⟩⟩ := id_shapeT I hne
    · rw [h3] at h2; cases h2
    · rw [h]
      simp only [newRoomIDOrPanic, roomIDValid_hashed (H d) (hH d)]
      exact ⟨_, rfl⟩
  · rw [if_neg hc]
    have hc' : (e.fmt == .v3 && isCreateF e.f) = false := by simpa [isCreate] using hc
    obtain ⟨hv, _⟩ := checkRoom_valid I.room hc'
    simp only [newRoomIDOrPanic, hv]
    exact ⟨_, rfl⟩

theorem roomID_ok {H : Bytes → Bytes} (hH : Len32 H) {ver : Bytes} {row : VGen.VersionRow} {e : PDU} (I : Inv H ver row e) :
    ∃ rid, roomID H e = .ok rid := roomID_okT hH I.toTInv

theorem authEventIDs_okT {H : Bytes → Bytes} {ver : Bytes} {row : VGen.VersionRow} {e : PDU} (I : TInv H ver row e) :
    ∃ l, authEventIDs e = .ok l := by
  unfold authEventIDs
  split
  · exact ⟨_, rfl⟩
  · exact ⟨_, rfl⟩
  · rename_i h3
    split
    · exact ⟨_, rfl⟩
    · rename_i hc
      have hc' : (e.fmt == .v3 && isCreateF e.f) = false := by
        have : isCreateF e.f = false := by simpa [isCreate] using hc
        rw [this, Bool.and_false]
      obtain ⟨_, hne⟩ := checkRoom_valid I.room hc'
      split
      · rename_i hnil; exact absurd hnil hne
      · exact ⟨_, rfl⟩

theorem authEventIDs_ok {H : Bytes → Bytes} {ver : Bytes} {row : VGen.VersionRow} {e : PDU} (I : Inv H ver row e) :
    ∃ l, authEventIDs e = .ok l := authEventIDs_okT I.toTInv

/-- calls that cannot end in a panic whatever the event -/
theorem cls_ok {α : Type} (x : α) (site : String) : cls (.ok x : Except Err α) ≠ .error (.panic site) := by
  intro h; cases h

theorem cls_of_ok {α : Type} {r : Except Err α} (h : ∃ x, r = .ok x) (site : String) : cls r ≠ .error (.panic site) := by
  obtain ⟨x, rfl⟩ := h
  exact cls_ok x site

theorem membership_np (e : PDU) (site : String) : cls (membership e) ≠ .error (.panic site) := by
  unfold membership
  split
  · intro h; cases h
  · split <;> (intro h; cases h)

theorem joinRule_np (e : PDU) (site : String) : cls (joinRule e) ≠ .error (.panic site) := by
  unfold joinRule
  split
  · intro h; cases h
  · split
    · intro h; cases h
    · intro h; cases h
    · simp only
      split <;> (intro h; cases h)
    · intro h; cases h

theorem historyVisibility_np (e : PDU) (site : String) : cls (historyVisibility e) ≠ .error (.panic site) := by
  unfold historyVisibility
  split
  · intro h; cases h
  · split <;> (intro h; cases h)

theorem powerLevels_np {ver : Bytes} {row : VGen.VersionRow} {fmt : Fmt} {e : PDU} (hrow : rowOf ver = some row) (hv : e.ver = ver)
    (hf : fmtOfName row.newEventFromUntrustedJSONFunc = some fmt) (site : String) : cls (powerLevels e) ≠ .error (.panic site) := by
  unfold powerLevels
  split
  · intro h; cases h
  · rw [hv, hrow]
    simp only
    have hp := (rowFacts hrow hf).ppl
    rw [if_neg (by simpa using hp)]
    split
    · split <;> (intro h; cases h)
    · split
      · have hnp := (AuthRules.np_parsePowerLevels e.f.content Auth.PowerLevels.defaults).h
        split
        · intro h; cases h
        · rename_i s hs; exact absurd hs (hnp s)
        · intro h; cases h
        · intro h; cases h
      · intro h; cases h

theorem setUnsigned_np (e : PDU) (u : JVal) (site : String) : cls (setUnsigned e u) ≠ .error (.panic site) := by
  unfold setUnsigned
  split
  · intro h; cases h
  · simp only
    split <;> (intro h; cases h)

theorem toHeadered_npT {H : Bytes → Bytes} {ver : Bytes} {row : VGen.VersionRow} {e : PDU} (I : TInv H ver row e) (site : String) :
    cls (toHeadered H e) ≠ .error (.panic site) := by
  unfold toHeadered
  rw [eventID_okT I]
  intro h; cases h

theorem toHeadered_np {H : Bytes → Bytes} {ver : Bytes} {row : VGen.VersionRow} {e : PDU} (I : Inv H ver row e) (site : String) :
    cls (toHeadered H e) ≠ .error (.panic site) := toHeadered_npT I.toTInv site

/-! ## Events from the trusted constructors -/

/-- `NewEventFromTrustedJSON`: the room-ID check passed and the ID of a hashed format is the reference hash of the
    event, whatever `event_id` member the trusted JSON carries (the V2 / V3 constructors reset the field) -/
theorem tinv_of_trusted {H : Bytes → Bytes} {ver text : Bytes} {red : Bool} {e : PDU} (h : parseTrusted H ver red text = .ok e) :
    ∃ row, TInv H ver row e := by
  unfold parseTrusted at h
  split at h
  · cases h
  · rename_i row hrow
    split at h
    · cases h
    · rename_i p hp
      obtain ⟨fmt, e0, hfmt, hc, hs, hid⟩ := trustedCore_ok h
      -- the table: the trusted and untrusted constructor columns name the same struct
      have hrowok := table_rowOk row (rowOf_mem hrow)
      unfold rowOk at hrowok
      cases hu : fmtOfName row.newEventFromUntrustedJSONFunc with
      | none => rw [hu] at hrowok; cases hrowok
      | some fmt' =>
        have F := rowFacts hrow hu
        have hff : fmt' = fmt := by have := F.trusted; rw [hfmt] at this; exact (Option.some.inj this).symm
        subst hff
        obtain ⟨hroom, hf0⟩ := construct_checkRoom hc
        obtain ⟨kvs, _, hv0, _⟩ := construct_ok hc
        have hfe : e.fmt = e0.fmt := by rw [hs]
        have hve : e.ver = e0.ver := by rw [hs]
        have hoe : e.obj = e0.obj := by rw [hs]
        refine ⟨row, hrow, by rw [hve, hv0], by rw [hfe, hf0]; exact hu, sameButID_checkRoom hs (by rw [hf0]; exact hroom), ?_⟩
        intro hne
        have := hid (by rw [← hfe]; exact hne)
        rw [hv0] at this
        rw [hoe]; exact this

theorem checkFields_np {H : Bytes → Bytes} {ver : Bytes} {row : VGen.VersionRow} {e : PDU} (T : TInv H ver row e) (site : String) :
    checkFields e ≠ .error (.panic site) := by
  unfold checkFields
  obtain ⟨l, hl⟩ := authEventIDs_okT T
  rw [hl]
  simp only
  repeat' split
  all_goals (intro h; first | cases h | (unfold byteLimitErr at h; split at h <;> cases h))

end V.AccProofs
