/- Number literals: the grammar `parseNumber` accepts, as an explicit decomposition
   (sign, integer part, fraction, exponent), in both directions.  Core only. -/
import VModel.Json
namespace V.Json

def allDigits (l : Bytes) : Prop := ∀ c ∈ l, isDigit c = true

/-- The first byte (if any) satisfies `P`. -/
def headOk (P : UInt8 → Bool) : Bytes → Bool
  | [] => true
  | c :: _ => P c

@[simp] theorem headOk_nil (P : UInt8 → Bool) : headOk P [] = true := rfl
@[simp] theorem headOk_cons (P : UInt8 → Bool) (c : UInt8) (r : Bytes) : headOk P (c :: r) = P c := rfl

/-! ### `takeDigits` -/

theorem takeDigits_spec : ∀ (s d r : Bytes), takeDigits s = (d, r) →
    s = d ++ r ∧ allDigits d ∧ headOk (fun c => !isDigit c) r = true
  | [], d, r, h => by
    simp only [takeDigits, Prod.mk.injEq] at h
    obtain ⟨rfl, rfl⟩ := h
    exact ⟨rfl, (fun _ hc => by cases hc), rfl⟩
  | c :: s, d, r, h => by
    unfold takeDigits at h
    split at h
    · rename_i hc
      generalize hq : takeDigits s = q at h
      obtain ⟨d0, r0⟩ := q
      simp only [Prod.mk.injEq] at h
      obtain ⟨rfl, rfl⟩ := h
      obtain ⟨h1, h2, h3⟩ := takeDigits_spec s d0 r0 hq
      refine ⟨by simp [h1], ?_, h3⟩
      intro x hx
      rcases List.mem_cons.mp hx with rfl | hx
      · exact hc
      · exact h2 x hx
    · rename_i hc
      simp only [Prod.mk.injEq] at h
      obtain ⟨rfl, rfl⟩ := h
      exact ⟨rfl, (fun _ hx => by cases hx), by simpa using hc⟩

theorem takeDigits_append : ∀ (d r : Bytes), allDigits d → headOk (fun c => !isDigit c) r = true →
    takeDigits (d ++ r) = (d, r)
  | [], [], _, _ => rfl
  | [], c :: r, _, h => by
    simp only [headOk_cons, Bool.not_eq_true'] at h
    simp [takeDigits, h]
  | c :: d, r, hd, h => by
    have hc : isDigit c = true := hd c List.mem_cons_self
    have := takeDigits_append d r (fun x hx => hd x (List.mem_cons_of_mem _ hx)) h
    simp [takeDigits, hc, this]

/-! ### The parts of a literal -/

def IntPart (ip : Bytes) : Prop :=
  ip = [0x30] ∨ ∃ c ds, ip = c :: ds ∧ isDigit c = true ∧ (c == 0x30) = false ∧ allDigits ds
def FracPart (fp : Bytes) : Prop :=
  fp = [] ∨ ∃ c ds, fp = 0x2E :: c :: ds ∧ allDigits (c :: ds)
def ExpSign (sg : Bytes) : Prop := sg = [] ∨ sg = [0x2B] ∨ sg = [0x2D]
def ExpPart (ep : Bytes) : Prop :=
  ep = [] ∨ ∃ e sg c ds, ep = e :: sg ++ c :: ds ∧ (e = 0x65 ∨ e = 0x45) ∧ ExpSign sg ∧ allDigits (c :: ds)
def SignPart (sg : Bytes) : Prop := sg = [] ∨ sg = [0x2D]

def notDot (c : UInt8) : Bool := !(c == 0x2E)
def notE (c : UInt8) : Bool := !(c == 0x65 || c == 0x45)
def notDigit (c : UInt8) : Bool := !isDigit c
def notMinus (c : UInt8) : Bool := !(c == 0x2D)

theorem parseSign_spec {s sg s1 : Bytes} (h : parseSign s = (sg, s1)) :
    s = sg ++ s1 ∧ SignPart sg ∧ (sg = [] → headOk notMinus s1 = true) := by
  unfold parseSign at h
  split at h
  · simp only [Prod.mk.injEq] at h; obtain ⟨rfl, rfl⟩ := h
    exact ⟨rfl, Or.inl rfl, fun _ => rfl⟩
  · rename_i c r
    split at h
    · rename_i hc
      have := eq_of_beq hc; subst this
      simp only [Prod.mk.injEq] at h; obtain ⟨rfl, rfl⟩ := h
      exact ⟨rfl, Or.inr rfl, (fun h => by cases h)⟩
    · rename_i hc
      simp only [Prod.mk.injEq] at h; obtain ⟨rfl, rfl⟩ := h
      exact ⟨rfl, Or.inl rfl, fun _ => by simpa [notMinus] using hc⟩

theorem parseInt_spec {s ip s2 : Bytes} (h : parseInt s = some (ip, s2)) : s = ip ++ s2 ∧ IntPart ip := by
  unfold parseInt at h
  split at h
  · cases h
  · rename_i c r
    split at h
    · rename_i hc
      have := eq_of_beq hc; subst this
      simp only [Option.some.injEq, Prod.mk.injEq] at h; obtain ⟨rfl, rfl⟩ := h
      exact ⟨rfl, Or.inl rfl⟩
    · rename_i hc
      split at h
      · rename_i hd
        simp only [Option.some.injEq] at h
        obtain ⟨h1, h2, _⟩ := takeDigits_spec _ _ _ h
        refine ⟨h1, Or.inr ?_⟩
        cases ip with
        | nil =>
          simp only [List.nil_append] at h1
          subst h1
          simp [takeDigits, hd] at h
        | cons c' ds =>
          simp only [List.cons_append, List.cons.injEq] at h1
          obtain ⟨rfl, _⟩ := h1
          exact ⟨c, ds, rfl, hd, by simpa using hc, fun x hx => h2 x (List.mem_cons_of_mem _ hx)⟩
      · cases h

theorem parseFrac_spec {s fp s3 : Bytes} (h : parseFrac s = some (fp, s3)) :
    s = fp ++ s3 ∧ FracPart fp ∧ (fp = [] → headOk notDot s3 = true) ∧ (fp ≠ [] → headOk notDigit s3 = true) := by
  unfold parseFrac at h
  split at h
  · simp only [Option.some.injEq, Prod.mk.injEq] at h; obtain ⟨rfl, rfl⟩ := h
    exact ⟨rfl, Or.inl rfl, fun _ => rfl, fun h => absurd rfl h⟩
  · rename_i c r
    split at h
    · rename_i hc
      have := eq_of_beq hc; subst this
      generalize hq : takeDigits r = q at h
      obtain ⟨d, r'⟩ := q
      simp only at h
      split at h
      · cases h
      · rename_i hne
        simp only [Option.some.injEq, Prod.mk.injEq] at h; obtain ⟨rfl, rfl⟩ := h
        obtain ⟨h1, h2, h3⟩ := takeDigits_spec _ _ _ hq
        cases d with
        | nil => simp at hne
        | cons x ds =>
          exact ⟨by simp [h1], Or.inr ⟨x, ds, rfl, h2⟩, (fun h => by cases h), fun _ => h3⟩
    · rename_i hc
      simp only [Option.some.injEq, Prod.mk.injEq] at h; obtain ⟨rfl, rfl⟩ := h
      exact ⟨rfl, Or.inl rfl, fun _ => by simpa [notDot] using hc, fun h => absurd rfl h⟩

theorem parseExpSign_spec {r sg r1 : Bytes} (h : parseExpSign r = (sg, r1)) :
    r = sg ++ r1 ∧ ExpSign sg := by
  unfold parseExpSign at h
  split at h
  · simp only [Prod.mk.injEq] at h; obtain ⟨rfl, rfl⟩ := h
    exact ⟨rfl, Or.inl rfl⟩
  · rename_i g r1'
    split at h
    · rename_i hg
      simp only [Prod.mk.injEq] at h; obtain ⟨rfl, rfl⟩ := h
      simp only [Bool.or_eq_true, beq_iff_eq] at hg
      rcases hg with rfl | rfl
      · exact ⟨rfl, Or.inr (Or.inl rfl)⟩
      · exact ⟨rfl, Or.inr (Or.inr rfl)⟩
    · simp only [Prod.mk.injEq] at h; obtain ⟨rfl, rfl⟩ := h
      exact ⟨rfl, Or.inl rfl⟩

theorem parseExp_spec {s ep s4 : Bytes} (h : parseExp s = some (ep, s4)) :
    s = ep ++ s4 ∧ ExpPart ep ∧ (ep = [] → headOk notE s4 = true) ∧ (ep ≠ [] → headOk notDigit s4 = true) := by
  unfold parseExp at h
  split at h
  · simp only [Option.some.injEq, Prod.mk.injEq] at h; obtain ⟨rfl, rfl⟩ := h
    exact ⟨rfl, Or.inl rfl, fun _ => rfl, fun h => absurd rfl h⟩
  · rename_i e r
    split at h
    · rename_i he
      generalize hsr : parseExpSign r = sr at h
      obtain ⟨sg, r1⟩ := sr
      simp only at h
      generalize hq : takeDigits r1 = q at h
      obtain ⟨d, r2⟩ := q
      simp only at h
      split at h
      · cases h
      · rename_i hne
        simp only [Option.some.injEq, Prod.mk.injEq] at h; obtain ⟨rfl, rfl⟩ := h
        obtain ⟨h1, h2, h3⟩ := takeDigits_spec _ _ _ hq
        obtain ⟨g1, g2⟩ := parseExpSign_spec hsr
        simp only [Bool.or_eq_true, beq_iff_eq] at he
        cases d with
        | nil => simp at hne
        | cons x ds =>
          exact ⟨by simp [g1, h1], Or.inr ⟨e, sg, x, ds, rfl, he, g2, h2⟩, (fun h => by cases h), fun _ => h3⟩
    · rename_i he
      simp only [Option.some.injEq, Prod.mk.injEq] at h; obtain ⟨rfl, rfl⟩ := h
      exact ⟨rfl, Or.inl rfl, fun _ => by simpa [notE] using he, fun h => absurd rfl h⟩

/-- The decomposition of a literal the parser accepted. -/
structure NumParts (sign ip fp ep : Bytes) : Prop where
  sign : SignPart sign
  ip : IntPart ip
  fp : FracPart fp
  ep : ExpPart ep

theorem parseNumber_parts {s lit s4 : Bytes} (h : parseNumber s = some (lit, s4)) :
    ∃ sign ip fp ep, NumParts sign ip fp ep ∧ lit = sign ++ ip ++ fp ++ ep ∧ s = lit ++ s4 ∧
      (fp = [] → ep = [] → headOk notDot s4 = true ∧ headOk notE s4 = true) := by
  unfold parseNumber at h
  generalize hss : parseSign s = ss at h
  obtain ⟨sign, s1⟩ := ss
  simp only at h
  split at h
  · cases h
  · rename_i ip s2 hi
    split at h
    · cases h
    · rename_i fp s3 hf
      split at h
      · cases h
      · rename_i ep s4' he
        simp only [Option.some.injEq, Prod.mk.injEq] at h; obtain ⟨rfl, rfl⟩ := h
        obtain ⟨a1, a2, _⟩ := parseSign_spec hss
        obtain ⟨b1, b2⟩ := parseInt_spec hi
        obtain ⟨c1, c2, c3, _⟩ := parseFrac_spec hf
        obtain ⟨d1, d2, d3, _⟩ := parseExp_spec he
        refine ⟨sign, ip, fp, ep, ⟨a2, b2, c2, d2⟩, rfl, by simp [a1, b1, c1, d1], ?_⟩
        intro hfp hep
        subst hfp hep
        simp only [List.nil_append] at c1 d1
        subst d1 c1
        exact ⟨c3 rfl, d3 rfl⟩

/-! ### From the parts back to the parser -/

/-- A byte that cannot continue a number literal. -/
def numStop (c : UInt8) : Bool := !isDigit c && !(c == 0x2E) && !(c == 0x65) && !(c == 0x45)

theorem digit_facts {c : UInt8} (h : isDigit c = true) :
    (c == 0x2D) = false ∧ (c == 0x2B) = false ∧ (c == 0x2E) = false ∧ (c == 0x65) = false ∧ (c == 0x45) = false
      ∧ (c == 0x22) = false ∧ ¬ c ≤ 0x20 := by
  simp only [isDigit, Bool.and_eq_true, decide_eq_true_eq] at h
  simp only [beq_eq_false_iff_ne, ne_eq]
  refine ⟨?_, ?_, ?_, ?_, ?_, ?_, ?_⟩ <;> grind

theorem parseSign_of {sg : Bytes} (X : Bytes) (h : SignPart sg) (hx : sg = [] → headOk notMinus X = true) :
    parseSign (sg ++ X) = (sg, X) := by
  rcases h with rfl | rfl
  · have := hx rfl
    cases X with
    | nil => rfl
    | cons c r =>
      simp only [headOk_cons, notMinus, Bool.not_eq_true'] at this
      simp [parseSign, this]
  · simp [parseSign]

theorem parseInt_of {ip : Bytes} (X : Bytes) (h : IntPart ip) (hx : headOk notDigit X = true) :
    parseInt (ip ++ X) = some (ip, X) := by
  rcases h with rfl | ⟨c, ds, rfl, hc, hz, hds⟩
  · simp [parseInt]
  · have : takeDigits (c :: ds ++ X) = (c :: ds, X) :=
      takeDigits_append (c :: ds) X (by
        intro x hx'
        rcases List.mem_cons.mp hx' with rfl | hx'
        · exact hc
        · exact hds x hx') hx
    simp only [List.cons_append] at this
    simp [parseInt, hz, hc, this]

theorem parseFrac_of {fp : Bytes} (X : Bytes) (h : FracPart fp) (hx : fp = [] → headOk notDot X = true)
    (hd : headOk notDigit X = true) : parseFrac (fp ++ X) = some (fp, X) := by
  rcases h with rfl | ⟨c, ds, rfl, hds⟩
  · have := hx rfl
    cases X with
    | nil => rfl
    | cons c r =>
      simp only [headOk_cons, notDot, Bool.not_eq_true'] at this
      simp [parseFrac, this]
  · have : takeDigits (c :: ds ++ X) = (c :: ds, X) := takeDigits_append (c :: ds) X hds hd
    simp only [List.cons_append] at this
    simp [parseFrac, this]

theorem parseExpSign_of {sg : Bytes} (c : UInt8) (X : Bytes) (h : ExpSign sg) (hc : isDigit c = true) :
    parseExpSign (sg ++ c :: X) = (sg, c :: X) := by
  obtain ⟨h1, h2, _⟩ := digit_facts hc
  rcases h with rfl | rfl | rfl
  · simp [parseExpSign, h1, h2]
  · simp [parseExpSign]
  · simp [parseExpSign]

theorem parseExp_of {ep : Bytes} (X : Bytes) (h : ExpPart ep) (hx : ep = [] → headOk notE X = true)
    (hd : headOk notDigit X = true) : parseExp (ep ++ X) = some (ep, X) := by
  rcases h with rfl | ⟨e, sg, c, ds, rfl, he, hsg, hds⟩
  · have := hx rfl
    cases X with
    | nil => rfl
    | cons c r =>
      simp only [headOk_cons, notE, Bool.not_eq_true'] at this
      simp only [List.nil_append, parseExp, this]
      rfl
  · have h1 : takeDigits (c :: ds ++ X) = (c :: ds, X) := takeDigits_append (c :: ds) X hds hd
    have h2 := parseExpSign_of c (ds ++ X) hsg (hds c List.mem_cons_self)
    have he' : (e == 0x65 || e == 0x45) = true := by rcases he with rfl | rfl <;> rfl
    simp only [List.cons_append] at h1
    simp only [List.cons_append, List.append_assoc, parseExp, he', ↓reduceIte, h2, h1]
    simp

theorem parseNumber_of_parts {sign ip fp ep : Bytes} (s4 : Bytes) (h : NumParts sign ip fp ep)
    (hs : headOk numStop s4 = true) :
    parseNumber (sign ++ ip ++ fp ++ ep ++ s4) = some (sign ++ ip ++ fp ++ ep, s4) := by
  have s1 : headOk notDigit s4 = true ∧ headOk notDot s4 = true ∧ headOk notE s4 = true := by
    cases s4 with
    | nil => exact ⟨rfl, rfl, rfl⟩
    | cons c r =>
      simp only [headOk_cons, numStop, Bool.and_eq_true, Bool.not_eq_true'] at hs
      obtain ⟨⟨⟨a, b⟩, c'⟩, d⟩ := hs
      simp [notDigit, notDot, notE, a, b, c', d]
  -- head conditions of the successive rests
  have e1 : headOk notDigit (ep ++ s4) = true ∧ headOk notDot (ep ++ s4) = true := by
    rcases h.ep with rfl | ⟨e, sg, c, ds, rfl, he, _, _⟩
    · exact ⟨s1.1, s1.2.1⟩
    · rcases he with rfl | rfl <;> exact ⟨rfl, rfl⟩
  have f1 : headOk notDigit (fp ++ (ep ++ s4)) = true := by
    rcases h.fp with rfl | ⟨c, ds, rfl, _⟩
    · exact e1.1
    · rfl
  have i1 : headOk notMinus (ip ++ (fp ++ (ep ++ s4))) = true := by
    rcases h.ip with rfl | ⟨c, ds, rfl, hc, _, _⟩
    · rfl
    · simp [notMinus, (digit_facts hc).1]
  unfold parseNumber
  simp only [List.append_assoc]
  rw [parseSign_of _ h.sign (fun _ => i1)]
  simp only []
  rw [parseInt_of _ h.ip f1]
  simp only []
  rw [parseFrac_of _ h.fp (fun _ => e1.2) e1.1]
  simp only []
  rw [parseExp_of _ h.ep (fun _ => s1.2.2) s1.1]

/-- What the parser accepts at the head of an input is a complete literal on its own. -/
theorem parseNumber_isNumLit {s lit s4 : Bytes} (h : parseNumber s = some (lit, s4)) : isNumLit lit = true := by
  obtain ⟨sign, ip, fp, ep, hp, rfl, _, _⟩ := parseNumber_parts h
  have := parseNumber_of_parts [] hp rfl
  simp only [List.append_nil] at this
  simp only [isNumLit, this, beq_self_eq_true]

/-- A complete literal is still recognised when followed by a byte that cannot continue a number. -/
theorem parseNumber_append {lit : Bytes} (rest : Bytes) (h : isNumLit lit = true) (hs : headOk numStop rest = true) :
    parseNumber (lit ++ rest) = some (lit, rest) := by
  simp only [isNumLit, beq_iff_eq] at h
  obtain ⟨sign, ip, fp, ep, hp, rfl, _, _⟩ := parseNumber_parts h
  exact parseNumber_of_parts rest hp hs

/-- The first byte of a literal is `-` or a digit. -/
theorem isNumLit_head {lit : Bytes} (h : isNumLit lit = true) :
    ∃ c l, lit = c :: l ∧ (c == 0x2D || isDigit c) = true := by
  simp only [isNumLit, beq_iff_eq] at h
  obtain ⟨sign, ip, fp, ep, hp, rfl, _, _⟩ := parseNumber_parts h
  rcases hp.sign with rfl | rfl
  · rcases hp.ip with rfl | ⟨c, ds, rfl, hc, _, _⟩
    · exact ⟨0x30, _, rfl, rfl⟩
    · exact ⟨c, _, rfl, by simp [hc]⟩
  · exact ⟨0x2D, _, rfl, rfl⟩

end V.Json
