/-
  The set-valued stages of the EXECUTABLE rendering `VModel/StateResSpecExec.lean` compute the Prop-level
  definitions of `VModel/StateResSpec.lean`, for well-formed input (event IDs identify events).
  Part 1: `memID` / `distinct`, unconflicted / conflicted, reachability by saturation and the reach table.
  Core only.
-/
import VModel.StateResSpecExec
import VProofs.StateResSpecClosure
namespace V.StateResSpec.Exec
open V Json List
open V.StateRes (ID IdNodup IdsIn EvId isControlEvent)
open V.StateResSpec

/-! ## sameID / memID -/

theorem sameID_iff {a b : Event} : sameID a b = true ↔ a.eventID = b.eventID := by
  unfold sameID; exact beq_iff_eq

theorem sameID_comm (a b : Event) : sameID a b = sameID b a := by
  rw [Bool.eq_iff_iff, sameID_iff, sameID_iff]; exact eq_comm

theorem sameID_refl (a : Event) : sameID a a = true := sameID_iff.mpr rfl

/-- `memID` is membership by event ID -/
theorem memID_iff {l : List Event} {e : Event} : memID l e = true ↔ ∃ x ∈ l, x.eventID = e.eventID := by
  unfold memID
  rw [List.any_eq_true]
  constructor
  · rintro ⟨x, hx, h⟩; exact ⟨x, hx, (sameID_iff.mp h).symm⟩
  · rintro ⟨x, hx, h⟩; exact ⟨x, hx, sameID_iff.mpr h.symm⟩

theorem memID_eq_false {l : List Event} {e : Event} : memID l e = false ↔ ∀ x ∈ l, x.eventID ≠ e.eventID := by
  rw [← Bool.not_eq_true, memID_iff]
  constructor
  · intro h x hx he; exact h ⟨x, hx, he⟩
  · rintro h ⟨x, hx, he⟩; exact h x hx he

theorem memID_of_mem {l : List Event} {e : Event} (h : e ∈ l) : memID l e = true := memID_iff.mpr ⟨e, h, rfl⟩

theorem memID_cons (a : Event) (l : List Event) (e : Event) : memID (a :: l) e = (sameID e a || memID l e) := by
  unfold memID; rw [List.any_cons]

/-- where IDs identify events, `memID` is membership -/
theorem memID_iff_mem {U : Event → Prop} (hU : IDsIdentify U) {l : List Event} (hl : ∀ x ∈ l, U x) {e : Event} (he : U e) :
    memID l e = true ↔ e ∈ l := by
  constructor
  · intro h
    obtain ⟨x, hx, hid⟩ := memID_iff.mp h
    exact hU x e (hl x hx) he hid ▸ hx
  · exact memID_of_mem

/-! ## distinct -/

theorem distinct_nil : distinct [] = [] := rfl

theorem distinct_cons (e : Event) (es : List Event) :
    distinct (e :: es) = e :: (distinct es).filter (fun x => !sameID e x) := rfl

theorem mem_of_mem_distinct : ∀ {l : List Event} {x : Event}, x ∈ distinct l → x ∈ l
  | [], _, h => by cases h
  | e :: es, x, h => by
    rw [distinct_cons] at h
    rcases List.mem_cons.mp h with rfl | h
    · exact List.mem_cons_self
    · exact List.mem_cons_of_mem _ (mem_of_mem_distinct (List.mem_filter.mp h).1)

theorem distinct_subset {l : List Event} {P : Event → Prop} (h : ∀ x ∈ l, P x) : ∀ x ∈ distinct l, P x :=
  fun x hx => h x (mem_of_mem_distinct hx)

theorem distinct_idNodup : ∀ (l : List Event), IdNodup (distinct l)
  | [] => by simp [IdNodup, distinct]
  | e :: es => by
    have ih : IdNodup ((distinct es).filter (fun x => !sameID e x)) := (distinct_idNodup es).filter _
    rw [distinct_cons]
    unfold IdNodup at *
    rw [List.map_cons, List.nodup_cons]
    refine ⟨?_, ih⟩
    intro hmem
    obtain ⟨x, hx, hid⟩ := List.mem_map.mp hmem
    have := (List.mem_filter.mp hx).2
    rw [sameID_iff.mpr hid.symm] at this
    cases this

/-- every ID of `l` is an ID of `distinct l` -/
theorem memID_distinct : ∀ (l : List Event) (e : Event), memID (distinct l) e = memID l e
  | [], _ => rfl
  | a :: as, e => by
    rw [distinct_cons, memID_cons, memID_cons]
    by_cases h : sameID e a = true
    · simp [h]
    · have hf : sameID e a = false := by simpa using h
      rw [hf, Bool.false_or, Bool.false_or, ← memID_distinct as e]
      rw [Bool.eq_iff_iff, memID_iff, memID_iff]
      constructor
      · rintro ⟨x, hx, hid⟩; exact ⟨x, (List.mem_filter.mp hx).1, hid⟩
      · rintro ⟨x, hx, hid⟩
        refine ⟨x, List.mem_filter.mpr ⟨hx, ?_⟩, hid⟩
        have : sameID a x = false := by
          rw [← Bool.not_eq_true, sameID_iff]
          intro h'; rw [← Bool.not_eq_true, sameID_iff] at hf; exact hf (hid.symm.trans h'.symm)
        simp [this]

theorem exists_id_distinct {l : List Event} {e : Event} (h : e ∈ l) : ∃ x ∈ distinct l, x.eventID = e.eventID := by
  have := memID_of_mem h
  rw [← memID_distinct] at this
  exact memID_iff.mp this

theorem mem_distinct_of_mem {U : Event → Prop} (hU : IDsIdentify U) {l : List Event} (hl : ∀ x ∈ l, U x) {x : Event}
    (h : x ∈ l) : x ∈ distinct l := by
  obtain ⟨y, hy, hid⟩ := exists_id_distinct h
  exact hU y x (hl y (mem_of_mem_distinct hy)) (hl x h) hid ▸ hy

/-- where IDs identify events, `distinct` keeps the set -/
theorem mem_distinct_iff' {U : Event → Prop} (hU : IDsIdentify U) {l : List Event} (hl : ∀ x ∈ l, U x) {x : Event} :
    x ∈ distinct l ↔ x ∈ l := ⟨mem_of_mem_distinct, mem_distinct_of_mem hU hl⟩

theorem filter_notSameID_of_not_memID {l : List Event} {e : Event} (h : memID l e = false) :
    l.filter (fun x => !sameID e x) = l := by
  rw [List.filter_eq_self]
  intro x hx
  have := memID_eq_false.mp h x hx
  have h' : sameID e x = false := by
    rw [← Bool.not_eq_true, sameID_iff]; exact fun h'' => this h''.symm
  simp [h']

/-- a list with distinct IDs is left alone -/
theorem distinct_of_idNodup : ∀ {l : List Event}, IdNodup l → distinct l = l
  | [], _ => rfl
  | e :: es, h => by
    unfold IdNodup at h
    rw [List.map_cons, List.nodup_cons] at h
    rw [distinct_cons, distinct_of_idNodup (l := es) h.2, filter_notSameID_of_not_memID]
    rw [memID_eq_false]
    intro x hx hid
    exact h.1 (hid ▸ List.mem_map_of_mem hx)

/-- `distinct` of a concatenation: the second part loses what the first already has (by ID) -/
theorem distinct_append : ∀ (a b : List Event),
    distinct (a ++ b) = distinct a ++ (distinct b).filter (fun x => !memID a x)
  | [], b => by
    rw [List.nil_append, distinct_nil, List.nil_append, List.filter_eq_self.mpr]
    intro x _; rfl
  | e :: a, b => by
    rw [List.cons_append, distinct_cons, distinct_append a b, List.filter_append, distinct_cons, List.cons_append,
      List.filter_filter]
    congr 2
    apply List.filter_congr
    intro x _
    rw [memID_cons, sameID_comm x e]
    cases sameID e x <;> cases memID a x <;> rfl

/-! ## unconflicted / conflicted -/

theorem keyOf_beq {a b : Event} : (keyOf a == keyOf b) = true ↔ keyOf a = keyOf b := beq_iff_eq

theorem mem_flatten_of {sets : List (List Event)} {S : List Event} {x : Event} (hS : S ∈ sets) (hx : x ∈ S) :
    x ∈ sets.flatten := List.mem_flatten.mpr ⟨S, hS, hx⟩

theorem inSomeSet_iff {sets : List (List Event)} {e : Event} : InSomeSet sets e ↔ e ∈ sets.flatten := by
  unfold InSomeSet
  rw [List.mem_flatten]

theorem isUnconflicted_iff {sets : List (List Event)} (hids : IDsIdentify (· ∈ sets.flatten)) (e : Event)
    (he : e ∈ sets.flatten) : isUnconflicted sets e = true ↔ Unconflicted sets e := by
  unfold isUnconflicted Unconflicted UnconflictedAt MapsTo
  simp only [Bool.and_eq_true, List.all_eq_true, Bool.or_eq_true, Bool.not_eq_eq_eq_not,
    Bool.not_true]
  constructor
  · rintro ⟨⟨hk, _⟩, hall⟩
    refine ⟨inSomeSet_iff.mpr he, ?_⟩
    obtain ⟨k, hk'⟩ := Option.isSome_iff_exists.mp hk
    refine ⟨k, ?_⟩
    intro S hS x
    obtain ⟨hmem, hS'⟩ := hall S hS
    have heS : e ∈ S := by
      obtain ⟨y, hy, hid⟩ := memID_iff.mp hmem
      exact hids y e (mem_flatten_of hS hy) he hid ▸ hy
    constructor
    · rintro ⟨hx, hkx⟩
      rcases hS' x hx with h | h
      · rw [← Bool.not_eq_true, keyOf_beq, hkx, hk'] at h; exact absurd rfl h
      · exact hids x e (mem_flatten_of hS hx) he (sameID_iff.mp h)
    · rintro rfl; exact ⟨heS, hk'⟩
  · rintro ⟨hin, k, hat⟩
    obtain ⟨S0, hS0, _⟩ := hin
    have hk : keyOf e = some k := ((hat S0 hS0 e).mpr rfl).2
    refine ⟨⟨by rw [hk]; rfl, ?_⟩, ?_⟩
    · cases sets with
      | nil => cases hS0
      | cons _ _ => rfl
    · intro S hS
      refine ⟨memID_of_mem ((hat S hS e).mpr rfl).1, ?_⟩
      intro x hx
      by_cases hkx : keyOf x = keyOf e
      · right
        have : x = e := (hat S hS x).mp ⟨hx, hkx.trans hk⟩
        rw [this]; exact sameID_refl e
      · left
        rw [← Bool.not_eq_true, keyOf_beq]; exact hkx

theorem mem_stateEvents_iff {sets : List (List Event)} (hids : IDsIdentify (· ∈ sets.flatten)) {x : Event} :
    x ∈ stateEvents sets ↔ x ∈ sets.flatten ∧ (keyOf x).isSome = true := by
  unfold stateEvents
  rw [List.mem_filter, mem_distinct_iff' hids (fun _ h => h)]

theorem keyOf_isSome_of_unconflicted {sets : List (List Event)} {x : Event} (h : Unconflicted sets x) :
    (keyOf x).isSome = true := by
  obtain ⟨⟨S, hS, _⟩, k, hat⟩ := h
  rw [((hat S hS x).mpr rfl).2]; rfl

theorem mem_unconflicted_iff {sets : List (List Event)} (hids : IDsIdentify (· ∈ sets.flatten)) {x : Event} :
    x ∈ unconflicted sets ↔ Unconflicted sets x := by
  unfold unconflicted
  rw [List.mem_filter, mem_stateEvents_iff hids]
  constructor
  · rintro ⟨⟨hx, _⟩, hu⟩; exact (isUnconflicted_iff hids x hx).mp hu
  · intro h
    have hx := inSomeSet_iff.mp h.1
    exact ⟨⟨hx, keyOf_isSome_of_unconflicted h⟩, (isUnconflicted_iff hids x hx).mpr h⟩

theorem mem_conflicted_iff {sets : List (List Event)} (hids : IDsIdentify (· ∈ sets.flatten)) {x : Event} :
    x ∈ conflicted sets ↔ Conflicted sets x := by
  unfold conflicted Conflicted
  rw [List.mem_filter, mem_stateEvents_iff hids, inSomeSet_iff]
  constructor
  · rintro ⟨⟨hx, hk⟩, hu⟩
    refine ⟨hx, ?_, ?_⟩
    · intro h; rw [h] at hk; cases hk
    · intro h
      rw [(isUnconflicted_iff hids x hx).mpr h] at hu; cases hu
  · rintro ⟨hx, hk, hu⟩
    refine ⟨⟨hx, Option.isSome_iff_ne_none.mpr hk⟩, ?_⟩
    cases h : isUnconflicted sets x with
    | false => rfl
    | true => exact absurd ((isUnconflicted_iff hids x hx).mp h) hu

/-- the conflicted events as computed have distinct IDs -/
theorem conflicted_idNodup (sets : List (List Event)) : IdNodup (conflicted sets) :=
  ((distinct_idNodup _).filter _).filter _

theorem unconflicted_idNodup (sets : List (List Event)) : IdNodup (unconflicted sets) :=
  ((distinct_idNodup _).filter _).filter _

/-! ## reachability by saturation -/

theorem mem_parentsIn_iff {m : List Event} {x y : Event} : y ∈ parentsIn m x ↔ AuthEdge (· ∈ m) x y := by
  unfold parentsIn AuthEdge
  rw [List.mem_filter, List.contains_iff_mem]

/-- the parents (inside `m`) of the events of `S` -/
def parentsOf (m S : List Event) : List Event := (S.map (parentsIn m)).flatten

theorem mem_parentsOf {m S : List Event} {y : Event} : y ∈ parentsOf m S ↔ ∃ s ∈ S, AuthEdge (· ∈ m) s y := by
  unfold parentsOf
  simp only [List.mem_flatten, List.mem_map]
  constructor
  · rintro ⟨l, ⟨s, hs, rfl⟩, hy⟩; exact ⟨s, hs, mem_parentsIn_iff.mp hy⟩
  · rintro ⟨s, hs, hy⟩; exact ⟨_, ⟨s, hs, rfl⟩, mem_parentsIn_iff.mpr hy⟩

theorem parentsOf_sub {m S : List Event} : ∀ y ∈ parentsOf m S, y ∈ m := by
  intro y hy
  obtain ⟨_, _, he⟩ := mem_parentsOf.mp hy
  exact he.1

/-- one round of the saturation -/
def roundOf (m S : List Event) : List Event := distinct (S ++ parentsOf m S)

/-- what a round adds to a set with distinct IDs -/
def extraOf (m S : List Event) : List Event := (distinct (parentsOf m S)).filter (fun x => !memID S x)

theorem saturate_zero (m S : List Event) : saturate m 0 S = S := rfl

theorem saturate_succ (m : List Event) (n : Nat) (S : List Event) :
    saturate m (n + 1) S = if (roundOf m S).length == S.length then S else saturate m n (roundOf m S) := rfl

theorem roundOf_eq {m S : List Event} (hS : IdNodup S) : roundOf m S = S ++ extraOf m S := by
  unfold roundOf extraOf
  rw [distinct_append, distinct_of_idNodup hS]

theorem mem_roundOf {m S : List Event} {y : Event} (h : y ∈ roundOf m S) : y ∈ S ∨ ∃ s ∈ S, AuthEdge (· ∈ m) s y := by
  unfold roundOf at h
  rcases List.mem_append.mp (mem_of_mem_distinct h) with h | h
  · exact Or.inl h
  · exact Or.inr (mem_parentsOf.mp h)

theorem mem_extraOf {m S : List Event} {f : Event} (h : f ∈ extraOf m S) : f ∈ m ∧ memID S f = false := by
  unfold extraOf at h
  obtain ⟨h1, h2⟩ := List.mem_filter.mp h
  exact ⟨parentsOf_sub _ (mem_of_mem_distinct h1), by simpa using h2⟩

/-- soundness: everything in the saturation is in the start set or reachable from it -/
theorem saturate_sound (m : List Event) : ∀ (n : Nat) (S : List Event) (y : Event),
    y ∈ saturate m n S → y ∈ S ∨ ∃ s ∈ S, ReachPlus (· ∈ m) s y := by
  intro n
  induction n with
  | zero => intro S y h; exact Or.inl h
  | succ n ih =>
    intro S y h
    rw [saturate_succ] at h
    split at h
    · exact Or.inl h
    · rcases ih _ _ h with h1 | ⟨z, hz, hr⟩
      · rcases mem_roundOf h1 with h2 | ⟨s, hs, he⟩
        · exact Or.inl h2
        · exact Or.inr ⟨s, hs, .edge he⟩
      · rcases mem_roundOf hz with h2 | ⟨s, hs, he⟩
        · exact Or.inr ⟨z, h2, hr⟩
        · exact Or.inr ⟨s, hs, .step he hr⟩

/-- number of events of the map not (by ID) in `S`: the pigeonhole measure -/
def unseenBy (m S : List Event) : Nat := m.countP (fun x => !memID S x)

theorem unseenBy_le (m S : List Event) : unseenBy m S ≤ m.length := List.countP_le_length

/-- `S` is closed under parents inside `m` -/
def ClosedIn (m S : List Event) : Prop := ∀ s ∈ S, ∀ y, AuthEdge (· ∈ m) s y → y ∈ S

theorem closedIn_reach {m R : List Event} (hc : ClosedIn m R) {s y : Event} (hs : s ∈ R) (h : ReachPlus (· ∈ m) s y) :
    y ∈ R := by
  induction h with
  | edge e => exact hc _ hs _ e
  | step e _ ih => exact ih (hc _ hs _ e)

theorem memID_congr {S : List Event} {a b : Event} (h : a.eventID = b.eventID) : memID S a = memID S b := by
  rw [Bool.eq_iff_iff, memID_iff, memID_iff, h]

/-- a round that adds nothing: the set is closed -/
theorem closedIn_of_extra_nil {m S : List Event} (hm : IdNodup m) (hSm : ∀ x ∈ S, x ∈ m) (h : extraOf m S = []) :
    ClosedIn m S := by
  intro s hs y he
  obtain ⟨y', hy', hid⟩ := exists_id_distinct (mem_parentsOf.mpr ⟨s, hs, he⟩)
  have hmem : memID S y' = true := by
    cases hc : memID S y' with
    | true => rfl
    | false =>
      have : y' ∈ extraOf m S := List.mem_filter.mpr ⟨hy', by simp [hc]⟩
      rw [h] at this; cases this
  rw [memID_congr hid] at hmem
  exact (memID_iff_mem hm.idsIn hSm he.1).mp hmem

theorem unseenBy_lt {m S E : List Event} {f : Event} (hf : f ∈ E) (hfm : f ∈ m) (hfS : memID S f = false) :
    unseenBy m (S ++ E) < unseenBy m S := by
  unfold unseenBy
  refine countP_lt_of_imp ?_ f hfm (by simp [hfS]) ?_
  · intro x _ hx
    have h1 : memID (S ++ E) x = false := by simpa using hx
    have h2 : memID S x = false := by
      rw [memID_eq_false] at h1 ⊢
      intro z hz; exact h1 z (List.mem_append_left _ hz)
    simp [h2]
  · have : memID (S ++ E) f = true := memID_of_mem (List.mem_append_right _ hf)
    simp [this]

/-- completeness: with enough rounds the saturation is closed under parents and contains the start set -/
theorem saturate_closed {m : List Event} (hm : IdNodup m) : ∀ (n : Nat) (S : List Event),
    (∀ x ∈ S, x ∈ m) → IdNodup S → unseenBy m S ≤ n →
    ClosedIn m (saturate m n S) ∧ ∀ x ∈ S, x ∈ saturate m n S := by
  intro n
  induction n with
  | zero =>
    intro S hSm _ hn
    refine ⟨?_, fun x hx => hx⟩
    have h0 : unseenBy m S = 0 := by omega
    unfold unseenBy at h0
    rw [List.countP_eq_zero] at h0
    intro s _ y he
    have : memID S y = true := by simpa using h0 y he.1
    exact (memID_iff_mem hm.idsIn hSm he.1).mp this
  | succ n ih =>
    intro S hSm hS hn
    rw [saturate_succ, roundOf_eq hS, List.length_append]
    cases hE : extraOf m S with
    | nil =>
      simp only [List.length_nil, Nat.add_zero, beq_self_eq_true, if_true]
      exact ⟨closedIn_of_extra_nil hm hSm hE, fun x hx => hx⟩
    | cons f fs =>
      have hne : (S.length + (f :: fs).length == S.length) = false := by
        rw [beq_eq_false_iff_ne, List.length_cons]; omega
      rw [hne]
      simp only [Bool.false_eq_true, if_false]
      have hfE : f ∈ extraOf m S := by rw [hE]; exact List.mem_cons_self
      obtain ⟨hfm, hfS⟩ := mem_extraOf hfE
      have hlt := unseenBy_lt (m := m) (S := S) (E := extraOf m S) hfE hfm hfS
      rw [hE] at hlt
      have hsub : ∀ x ∈ S ++ f :: fs, x ∈ m := by
        intro x hx
        rcases List.mem_append.mp hx with h | h
        · exact hSm x h
        · exact (mem_extraOf (hE ▸ h)).1
      have hnd : IdNodup (S ++ f :: fs) := by
        rw [← hE, ← roundOf_eq hS]; exact distinct_idNodup _
      obtain ⟨hc, hin⟩ := ih (S ++ f :: fs) hsub hnd (by omega)
      exact ⟨hc, fun x hx => hin x (List.mem_append_left _ hx)⟩

/-- **Saturation = reachability.** -/
theorem mem_reachPlus_iff {m : List Event} (hm : IdNodup m) (x y : Event) :
    y ∈ reachPlus m x ↔ ReachPlus (· ∈ m) x y := by
  unfold reachPlus
  have hsub : ∀ z ∈ distinct (parentsIn m x), z ∈ m :=
    distinct_subset (fun z hz => (mem_parentsIn_iff.mp hz).1)
  constructor
  · intro h
    rcases saturate_sound m _ _ _ h with h1 | ⟨s, hs, hr⟩
    · exact .edge (mem_parentsIn_iff.mp (mem_of_mem_distinct h1))
    · exact .step (mem_parentsIn_iff.mp (mem_of_mem_distinct hs)) hr
  · intro h
    obtain ⟨hc, hin⟩ := saturate_closed hm m.length _ hsub (distinct_idNodup _) (unseenBy_le _ _)
    have hstart : ∀ z, AuthEdge (· ∈ m) x z → z ∈ saturate m m.length (distinct (parentsIn m x)) := by
      intro z he
      apply hin
      exact mem_distinct_of_mem hm.idsIn (fun z hz => (mem_parentsIn_iff.mp hz).1) (mem_parentsIn_iff.mpr he)
    cases h with
    | edge e => exact hstart _ e
    | step e r => exact closedIn_reach hc (hstart _ e) r

/-! ## the reach table -/

theorem find_reachTable {m Ul : List Event} (hUl : IdsIn Ul) {x : Event} (hx : x ∈ Ul) :
    (reachTable m Ul).find? (fun r => r.1 == x.eventID) = some (x.eventID, (reachPlus m x).map (·.eventID)) := by
  unfold reachTable
  rw [List.find?_map]
  have : Ul.find? ((fun r => r.1 == x.eventID) ∘ fun x => (x.eventID, (reachPlus m x).map (·.eventID)))
      = V.StateRes.findByID Ul x.eventID := rfl
  rw [this, V.StateRes.findByID_of_mem hUl hx]
  rfl

/-- a table lookup answers by the ID of the target -/
theorem plus_iff_exists {m Ul : List Event} (hm : IdNodup m) (hUl : IdsIn Ul) {x : Event} (hx : x ∈ Ul) (y : Event) :
    (reachTable m Ul).plus x y = true ↔ ∃ y', y'.eventID = y.eventID ∧ ReachPlus (· ∈ m) x y' := by
  unfold ReachTable.plus
  rw [find_reachTable hUl hx]
  simp only [List.contains_iff_mem, List.mem_map]
  constructor
  · rintro ⟨y', hy', hid⟩; exact ⟨y', hid, (mem_reachPlus_iff hm x y').mp hy'⟩
  · rintro ⟨y', hid, hr⟩; exact ⟨y', (mem_reachPlus_iff hm x y').mpr hr, hid⟩

/-- an event absent (by ID) from the table reaches nothing -/
theorem plus_of_not_memID {m Ul : List Event} {x : Event} (hx : memID Ul x = false) (y : Event) :
    (reachTable m Ul).plus x y = false := by
  unfold ReachTable.plus
  have : (reachTable m Ul).find? (fun r => r.1 == x.eventID) = none := by
    rw [List.find?_eq_none]
    intro r hr
    unfold reachTable at hr
    obtain ⟨z, hz, rfl⟩ := List.mem_map.mp hr
    have := memID_eq_false.mp hx z hz
    simpa using this
  rw [this]

/-- the general form: `y` is the only event of `m` with its ID -/
theorem plus_iff_of_unique {m Ul : List Event} (hm : IdNodup m) (hUl : IdsIn Ul) {x : Event} (hx : x ∈ Ul) {y : Event}
    (hy : ∀ y' ∈ m, y'.eventID = y.eventID → y' = y) :
    (reachTable m Ul).plus x y = true ↔ ReachPlus (· ∈ m) x y := by
  rw [plus_iff_exists hm hUl hx]
  constructor
  · rintro ⟨y', hid, hr⟩; exact hy y' hr.target hid ▸ hr
  · intro h; exact ⟨y, rfl, h⟩

/-- **The table computes `ReachPlus`** (target among the events of the map). -/
theorem plus_iff {m Ul : List Event} (hm : IdNodup m) (hUl : IdsIn Ul) {x : Event} (hx : x ∈ Ul) {y : Event}
    (hy : y ∈ m) : (reachTable m Ul).plus x y = true ↔ ReachPlus (· ∈ m) x y :=
  plus_iff_of_unique hm hUl hx (fun y' hy' hid => hm.idsIn y' y hy' hy hid)

/-- the same inside a universe where IDs identify events -/
theorem plus_iff_in {U : Event → Prop} (hU : IDsIdentify U) {m Ul : List Event} (hm : IdNodup m) (hmU : ∀ x ∈ m, U x)
    (hUlU : ∀ x ∈ Ul, U x) {x : Event} (hx : x ∈ Ul) {y : Event} (hy : U y) :
    (reachTable m Ul).plus x y = true ↔ ReachPlus (· ∈ m) x y :=
  plus_iff_of_unique hm (EvId.mono hU hUlU) hx (fun y' hy' hid => hU y' y (hmU y' hy') hy hid)

/-- **The table computes `Reach`.** -/
theorem star_iff_in {U : Event → Prop} (hU : IDsIdentify U) {m Ul : List Event} (hm : IdNodup m) (hmU : ∀ x ∈ m, U x)
    (hUlU : ∀ x ∈ Ul, U x) {x : Event} (hx : x ∈ Ul) {y : Event} (hy : U y) :
    (reachTable m Ul).star x y = true ↔ Reach (· ∈ m) x y := by
  unfold ReachTable.star Reach
  rw [Bool.or_eq_true, plus_iff_in hU hm hmU hUlU hx hy, sameID_iff]
  constructor
  · rintro (h | h)
    · exact Or.inl (hU x y (hUlU x hx) hy h)
    · exact Or.inr h
  · rintro (h | h)
    · exact Or.inl (h ▸ rfl)
    · exact Or.inr h

end V.StateResSpec.Exec
