/- VProofs.WellKnown — lemmas about the model of LookupWellKnown. -/
import VModel.WellKnown
namespace V.WellKnown

/-- the Cache-Control loop computes "the last well-formed max-age, if any" -/
theorem applyCacheControl_eq (now : Int) (l : List Str) (e0 : Int) :
    applyCacheControl now l e0 =
      match (l.filterMap Spec.maxAgeOf).getLast? with
      | some age => wrap64 (age + now)
      | none => e0 := by
  induction l generalizing e0 with
  | nil => rfl
  | cons kv rest ih =>
    unfold applyCacheControl
    simp only [List.filterMap_cons, Spec.maxAgeOf]
    cases hs : splitEq (trimSpaces kv) [] with
    | none => simp only [ih]
    | some p =>
      obtain ⟨k, v⟩ := p
      simp only []
      by_cases hk : isMaxAge k = true
      · simp only [hk, ↓reduceIte]
        cases hv : parseInt64 v with
        | none => simp only [ih]
        | some age =>
          simp only [ih]
          cases hr : (List.filterMap Spec.maxAgeOf rest).getLast? with
          | none =>
            have : List.filterMap Spec.maxAgeOf rest = [] := List.getLast?_eq_none_iff.mp hr
            simp [this]
          | some a2 =>
            have hne : List.filterMap Spec.maxAgeOf rest ≠ [] := by
              intro h; rw [h] at hr; simp at hr
            rw [List.getLast?_cons_of_ne_nil hne] at *
            simp [hr]
      · have hk' : isMaxAge k = false := by simpa using hk
        simp only [hk', Bool.false_eq_true, ↓reduceIte, ih]

theorem maxAge_nil : Spec.maxAge [] = none := by
  simp [Spec.maxAge, splitComma, Spec.maxAgeOf, trimSpaces, dropSpaces, splitEq]

/-- strings.Split distributes over a comma-joined text -/
theorem splitComma_append (a b cur : Str) :
    splitComma (a ++ ',' :: b) cur = splitComma a cur ++ splitComma b [] := by
  induction a generalizing cur with
  | nil => simp [splitComma]
  | cons c rest ih =>
    simp only [List.cons_append, splitComma]
    by_cases hc : (c == ',') = true
    · simp only [hc, if_true, List.cons_append]
      rw [ih]
    · simp only [hc, Bool.false_eq_true, if_false]
      exact ih _

theorem splitComma_join (lines : List Str) (h : lines ≠ []) :
    splitComma (joinComma lines) [] = lines.flatMap (fun l => splitComma l []) := by
  induction lines with
  | nil => exact absurd rfl h
  | cons l rest ih =>
    cases rest with
    | nil => simp [joinComma]
    | cons l2 rest2 =>
      have := ih (by simp)
      simp only [joinComma, List.flatMap_cons] at this ⊢
      rw [splitComma_append, this]

/-- the directives of all Cache-Control lines are the directives of the comma-joined header -/
theorem maxAgeLines_eq (lines : List Str) (h : lines ≠ []) : Spec.maxAgeLines lines = Spec.maxAge (joinComma lines) := by
  unfold Spec.maxAgeLines Spec.maxAge
  rw [splitComma_join lines h]

/-- the lifetime the code computes is the specification's: max-age — on whichever header line — in preference to Expires -/
theorem expiryOf_eq (r : Reply) (now : Int) (et : Option Int) : expiryOf r now et = Spec.lifetime r now et := by
  unfold expiryOf Spec.lifetime
  have hlines : Spec.maxAgeLines r.cacheControl = Spec.maxAge (joinComma r.cacheControl) := by
    by_cases hl : r.cacheControl = []
    · rw [hl]
      simp [Spec.maxAgeLines, joinComma, maxAge_nil]
    · exact maxAgeLines_eq _ hl
  rw [hlines]
  simp only
  by_cases hc : (joinComma r.cacheControl).isEmpty = true
  · have : joinComma r.cacheControl = [] := by simpa using hc
    rw [this, maxAge_nil]
    simp only [List.isEmpty_nil, Bool.not_true, Bool.false_eq_true, ↓reduceIte]
    by_cases he : r.expires.isEmpty = true
    · simp [he]
    · have he' : r.expires.isEmpty = false := by simpa using he
      simp only [he', Bool.not_false, ↓reduceIte, Bool.false_eq_true]
      cases et <;> rfl
  · have hc' : (joinComma r.cacheControl).isEmpty = false := by simpa using hc
    simp only [hc', Bool.not_false, ↓reduceIte]
    rw [applyCacheControl_eq]
    unfold Spec.maxAge
    cases (List.filterMap Spec.maxAgeOf (splitComma (joinComma r.cacheControl) [])).getLast? with
    | some a => rfl
    | none =>
      simp only []
      by_cases he : r.expires.isEmpty = true
      · simp [he]
      · have he' : r.expires.isEmpty = false := by simpa using he
        simp only [he', Bool.not_false, ↓reduceIte, Bool.false_eq_true]
        cases et <;> rfl

/-- the declared Content-Length does not by itself refuse the reply -/
def declaredOK (r : Reply) : Prop :=
  match parseInt64 r.contentLength with
  | some l => ¬ (l > (maxSize : Int))
  | none => True

theorem lookup_ok_iff (r : Reply) (now : Int) (et : Option Int) (decode : Bytes → Decoded) (res : Result) :
    lookup r now et decode = .ok res ↔
      r.status = 200 ∧ declaredOK r ∧ r.body.length ≤ maxSize ∧
      decode r.body = .ok res.newAddress ∧ res.newAddress ≠ [] ∧ res.cacheExpiresAt = expiryOf r now et := by
  unfold lookup declaredOK
  by_cases hs : r.status = 200
  · simp only [hs, bne_self_eq_false, Bool.false_eq_true, ↓reduceIte, true_and]
    cases hcl : parseInt64 r.contentLength with
    | some l =>
      by_cases hl : l > (maxSize : Int)
      · simp [hl]
      · simp only [hl, decide_false, Bool.false_eq_true, ↓reduceIte, not_false_eq_true, true_and]
        by_cases hb : r.body.length ≤ maxSize
        · have ht : List.take (maxSize + 1) r.body = r.body := List.take_of_length_le (by omega)
          have hb' : ¬ (r.body.length > maxSize) := by omega
          simp only [ht, hb', decide_false, Bool.false_eq_true, ↓reduceIte, hb, true_and]
          cases hd : decode r.body with
          | error => simp
          | ok addr =>
            by_cases ha : addr.isEmpty = true
            · have : addr = [] := by simpa using ha
              subst this
              simp
              intro h h2; exact absurd h h2
            · have ha' : addr.isEmpty = false := by simpa using ha
              have hne : addr ≠ [] := by intro h; rw [h] at ha'; simp at ha'
              simp only [ha', Bool.false_eq_true, ↓reduceIte, Except.ok.injEq, Decoded.ok.injEq]
              constructor
              · intro h; subst h; exact ⟨rfl, hne, rfl⟩
              · intro ⟨h1, _, h3⟩; cases res; simp_all
        · have hlen : maxSize < min (maxSize + 1) (List.length r.body) := by omega
          simp [hlen, hb]
    | none =>
      simp only [Bool.false_eq_true, ↓reduceIte, true_and]
      by_cases hb : r.body.length ≤ maxSize
      · have ht : List.take (maxSize + 1) r.body = r.body := List.take_of_length_le (by omega)
        have hb' : ¬ (r.body.length > maxSize) := by omega
        simp only [ht, hb', decide_false, Bool.false_eq_true, ↓reduceIte, hb, true_and]
        cases hd : decode r.body with
        | error => simp
        | ok addr =>
          by_cases ha : addr.isEmpty = true
          · have : addr = [] := by simpa using ha
            subst this
            simp
            intro h h2; exact absurd h h2
          · have ha' : addr.isEmpty = false := by simpa using ha
            have hne : addr ≠ [] := by intro h; rw [h] at ha'; simp at ha'
            simp only [ha', Bool.false_eq_true, ↓reduceIte, Except.ok.injEq, Decoded.ok.injEq]
            constructor
            · intro h; subst h; exact ⟨rfl, hne, rfl⟩
            · intro ⟨h1, _, h3⟩; cases res; simp_all
      · have hlen : maxSize < min (maxSize + 1) (List.length r.body) := by omega
        simp [hlen, hb]
  · have hs' : (r.status != 200) = true := by simpa using hs
    simp [hs', hs]

end V.WellKnown
