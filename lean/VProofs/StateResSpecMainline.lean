/-
  C10, mainline stages: the model (`createMainline`, `mainlinePos`, `firstMainline`, `otherKey`,
  `mainlineOrdering` of VModel.StateRes) computes what VModel.StateResSpec defines (`IsMainline`, `posOf`,
  `MainlinePosSteps`, `IsMainlineOrder`), for an acyclic auth map; each of the definitions determines its
  output.  The fuel of the model's loops is justified by a depth bound obtained from acyclicity (pigeonhole).
  The model's two recursions carry the cycle guard of the code (`path` = the events the iterator is inside of); on an
  acyclic auth map the guard never fires (§2b), so they equal the plain recursions `mainlineIterU` / `firstMainlineU`
  the definition describes, about which §3–§5 reason.
  Core only.
-/
import VModel.StateResSpec
import VProofs.StateResSort
import VProofs.StateResBasic
import VProofs.StateResSpecClosure
namespace V.StateResSpec
open V Json
open V.StateRes (ID findByID isPLEvent mainlineIter createMainline mainlinePos firstMainline otherKey otherLt
  OtherKey insertBy sortBy mainlineOrdering findByID_some StrictTotal sortBy_perm mem_sortBy sortBy_sorted
  SortedBy KeyInj sorted_unique otherLt_strictTotal)

/-! ## 0. The two recursions without the cycle guard -/

/-- `StateRes.mainlineIter` without the `path` guard -/
def mainlineIterU (authMap : List Event) : Nat → Event → List Event → List Event
  | 0, _, acc => acc
  | fuel + 1, e, acc =>
    (e.authEventIDs.filterMap (findByID authMap)).foldl
      (fun a p => if isPLEvent p then mainlineIterU authMap fuel p a else a) (e :: acc)

/-- `StateRes.firstMainline` without the `path` guard -/
def firstMainlineU (authMap mainline : List Event) : Nat → Event → Nat × Nat → Nat × Nat
  | 0, _, st => st
  | fuel + 1, e, st =>
    let rec go (ps : List Event) (st : Nat × Nat) : Nat × Nat :=
      match ps with
      | [] => st
      | p :: rest =>
        if !isPLEvent p then go rest st
        else match mainlinePos mainline p.eventID with
          | some pos => (pos, st.2)
          | none => go rest (firstMainlineU authMap mainline fuel p (st.1, st.2 + 1))
    go (e.authEventIDs.filterMap (findByID authMap)) st

variable {m ml : List Event}

/-! ## 1. Glue between the spec's lookups and the model's -/

theorem authEventsOf_eq (m : List Event) (e : Event) :
    authEventsOf m e = e.authEventIDs.filterMap (findByID m) := rfl

theorem plParents_eq (m : List Event) (e : Event) :
    plParents m e = (e.authEventIDs.filterMap (findByID m)).filter isPLEvent := rfl

theorem authEdge_of_mem_authEventsOf {x y : Event} (h : y ∈ authEventsOf m x) : AuthEdge (· ∈ m) x y := by
  rw [authEventsOf_eq, List.mem_filterMap] at h
  obtain ⟨id, hid, hf⟩ := h
  obtain ⟨hy, rfl⟩ := findByID_some hf
  exact ⟨hy, hid⟩

theorem mem_plParents {e p : Event} (h : p ∈ plParents m e) : AuthEdge (· ∈ m) e p ∧ isPLEvent p = true := by
  unfold plParents at h
  rw [List.mem_filter] at h
  exact ⟨authEdge_of_mem_authEventsOf h.1, h.2⟩

/-! ## 2. Depth bound from acyclicity -/

theorem ReachPlus.snoc {P : Event → Prop} {x y z : Event} (h : ReachPlus P x y) (e : AuthEdge P y z) :
    ReachPlus P x z := by
  induction h with
  | edge h => exact .step h (.edge e)
  | step h _ ih => exact .step h (ih e)

theorem Reach.snoc {P : Event → Prop} {x y z : Event} (h : Reach P x y) (e : AuthEdge P y z) :
    ReachPlus P x z := by
  rcases h with rfl | h
  · exact .edge e
  · exact h.snoc e

/-- every chain of power-levels auth events starting at `e` has fewer than `n` links after `e` -/
inductive DepthLE (m : List Event) : Event → Nat → Prop
  | mk {e : Event} {n : Nat} : (∀ p ∈ plParents m e, DepthLE m p n) → DepthLE m e (n + 1)

theorem DepthLE.mono {e : Event} {n n' : Nat} (h : DepthLE m e n) (hn : n ≤ n') : DepthLE m e n' := by
  induction h generalizing n' with
  | mk _ ih =>
    cases n' with
    | zero => omega
    | succ k => exact .mk (fun p hp => ih p hp (by omega))

theorem DepthLE.parents {e : Event} {n : Nat} (h : DepthLE m e (n + 1)) : ∀ p ∈ plParents m e, DepthLE m p n := by
  cases h with
  | mk h => exact h

theorem DepthLE.not_zero {e : Event} (h : DepthLE m e 0) : False := by cases h

/-- one more visited event: a power-levels parent of `e` is new, and the visited list still fits in `m` -/
theorem visited_extend (hac : Acyclic (· ∈ m)) {vis : List Event} {e p : Event} (hnd : vis.Nodup)
    (hsub : ∀ v ∈ vis, v ∈ m) (hreach : ∀ v ∈ vis, Reach (· ∈ m) v e) (hp : p ∈ plParents m e) :
    (p :: vis).Nodup ∧ (∀ v ∈ p :: vis, v ∈ m) ∧ (∀ v ∈ p :: vis, Reach (· ∈ m) v p) ∧
      vis.length + 1 ≤ m.length := by
  have hedge : AuthEdge (· ∈ m) e p := (mem_plParents hp).1
  have hnotin : p ∉ vis := fun hv => hac p ((hreach p hv).snoc hedge)
  have hnd' : (p :: vis).Nodup := List.nodup_cons.mpr ⟨hnotin, hnd⟩
  have hsub' : ∀ v ∈ p :: vis, v ∈ m := by
    intro v hv
    rcases List.mem_cons.mp hv with rfl | hv
    · exact hedge.1
    · exact hsub v hv
  refine ⟨hnd', hsub', ?_, ?_⟩
  · intro v hv
    rcases List.mem_cons.mp hv with rfl | hv
    · exact Or.inl rfl
    · exact Or.inr ((hreach v hv).snoc hedge)
  · have := List.Nodup.length_le_of_subset hnd' (fun v hv => hsub' v hv)
    simpa using this

theorem depthLE_aux (hac : Acyclic (· ∈ m)) : ∀ (n : Nat) (vis : List Event) (e : Event), vis.Nodup →
    (∀ v ∈ vis, v ∈ m) → (∀ v ∈ vis, Reach (· ∈ m) v e) → m.length - vis.length ≤ n → DepthLE m e (n + 1) := by
  intro n
  induction n with
  | zero =>
    intro vis e hnd hsub hreach hlen
    refine .mk (fun p hp => ?_)
    have := (visited_extend hac hnd hsub hreach hp).2.2.2
    omega
  | succ n ih =>
    intro vis e hnd hsub hreach hlen
    refine .mk (fun p hp => ?_)
    obtain ⟨h1, h2, h3, h4⟩ := visited_extend hac hnd hsub hreach hp
    exact ih (p :: vis) p h1 h2 h3 (by simp only [List.length_cons]; omega)

/-- In an acyclic auth map, chains of power-levels auth events are no longer than the map. -/
theorem depthLE_of_acyclic (hac : Acyclic (· ∈ m)) (e : Event) : DepthLE m e (m.length + 1) :=
  depthLE_aux hac m.length [] e List.nodup_nil (fun _ h => by cases h) (fun _ h => by cases h) (by simp)

/-! ## 2b. On an acyclic auth map the cycle guard of the model never fires -/

/-- every ID on the path names an event of the map that reaches `e` -/
def PathOK (m : List Event) (path : List ID) (e : Event) : Prop :=
  ∀ id ∈ path, ∃ v, findByID m id = some v ∧ Reach (· ∈ m) v e

theorem pathOK_nil (e : Event) : PathOK m [] e := fun _ h => by cases h

/-- a parent of `e` found in the map is not on the path (that would close a cycle), and the path extended by it is
    again a path of ancestors -/
theorem guard_silent (hac : Acyclic (· ∈ m)) {path : List ID} {e p : Event}
    (hp : p ∈ e.authEventIDs.filterMap (findByID m)) (hok : PathOK m path e) :
    path.contains p.eventID = false ∧ PathOK m (p.eventID :: path) p := by
  obtain ⟨pid, hpid, hf⟩ := List.mem_filterMap.mp hp
  obtain ⟨hpm, hpe⟩ := findByID_some hf
  have hedge : AuthEdge (· ∈ m) e p := ⟨hpm, hpe ▸ hpid⟩
  have hfp : findByID m p.eventID = some p := by rw [hpe]; exact hf
  constructor
  · cases hc : path.contains p.eventID with
    | false => rfl
    | true =>
      have hmem : p.eventID ∈ path := List.contains_iff_mem.mp hc
      obtain ⟨v, hv, hr⟩ := hok _ hmem
      rw [hfp] at hv
      cases hv
      exact (hac p (hr.snoc hedge)).elim
  · intro id hid
    rcases List.mem_cons.mp hid with rfl | hid
    · exact ⟨p, hfp, Or.inl rfl⟩
    · obtain ⟨v, hv, hr⟩ := hok id hid
      exact ⟨v, hv, Or.inr (hr.snoc hedge)⟩

theorem foldl_congr_mem {α β : Type} {f g : α → β → α} : ∀ (l : List β) (a : α),
    (∀ a, ∀ b ∈ l, f a b = g a b) → l.foldl f a = l.foldl g a := by
  intro l
  induction l with
  | nil => intro a _; rfl
  | cons b l ih =>
    intro a h
    rw [List.foldl_cons, List.foldl_cons, h a b List.mem_cons_self]
    exact ih _ (fun a' b' hb' => h a' b' (List.mem_cons_of_mem _ hb'))

/-- `createPowerLevelMainline`'s guarded iterator is the plain recursion on an acyclic auth map -/
theorem mainlineIter_eq_U (hac : Acyclic (· ∈ m)) : ∀ (fuel : Nat) (path : List ID) (e : Event) (acc : List Event),
    PathOK m path e → mainlineIter m fuel path e acc = mainlineIterU m fuel e acc := by
  intro fuel
  induction fuel with
  | zero => intro path e acc _; rfl
  | succ fuel ih =>
    intro path e acc hok
    show List.foldl _ _ _ = List.foldl _ _ _
    apply foldl_congr_mem
    intro a p hp
    obtain ⟨hc, hok'⟩ := guard_silent hac hp hok
    simp only [hc, Bool.not_false, Bool.and_true]
    split
    · exact ih _ _ _ hok'
    · rfl

theorem firstMainline_go_eq_U (hac : Acyclic (· ∈ m)) {fuel : Nat}
    (ih : ∀ path e st, PathOK m path e → firstMainline m ml fuel path e st = firstMainlineU m ml fuel e st)
    {path : List ID} {e : Event} (hok : PathOK m path e) : ∀ (ps : List Event) (st : Nat × Nat),
    (∀ p ∈ ps, p ∈ e.authEventIDs.filterMap (findByID m)) →
    V.StateRes.firstMainline.go m ml fuel path ps st = firstMainlineU.go m ml fuel ps st := by
  intro ps
  induction ps with
  | nil => intro st _; rw [V.StateRes.firstMainline.go.eq_1, firstMainlineU.go.eq_1]
  | cons p rest ihr =>
    intro st hsub
    have hrest := fun st' => ihr st' (fun q hq => hsub q (List.mem_cons_of_mem _ hq))
    obtain ⟨hc, hok'⟩ := guard_silent hac (hsub p List.mem_cons_self) hok
    rw [V.StateRes.firstMainline.go.eq_2, firstMainlineU.go.eq_2, hc]
    by_cases hpl : (!isPLEvent p) = true
    · rw [if_pos hpl, if_pos hpl]
      exact hrest st
    · rw [if_neg hpl, if_neg hpl]
      cases hpos : mainlinePos ml p.eventID with
      | some pos => rfl
      | none =>
        simp only [Bool.false_eq_true, if_false]
        rw [ih _ _ _ hok']
        exact hrest _

/-- `getFirstPowerLevelMainlineEvent`'s guarded iterator is the plain recursion on an acyclic auth map -/
theorem firstMainline_eq_U (hac : Acyclic (· ∈ m)) : ∀ (fuel : Nat) (path : List ID) (e : Event) (st : Nat × Nat),
    PathOK m path e → firstMainline m ml fuel path e st = firstMainlineU m ml fuel e st := by
  intro fuel
  induction fuel with
  | zero => intro path e st _; rw [V.StateRes.firstMainline.eq_1, firstMainlineU.eq_1]
  | succ fuel ih =>
    intro path e st hok
    rw [V.StateRes.firstMainline.eq_2, firstMainlineU.eq_2]
    exact firstMainline_go_eq_U hac ih hok _ st (fun _ h => h)

/-! ## 3. Mainline -/

theorem MainlineOf.unique {ps l₁ l₂ : List Event} (h1 : MainlineOf m ps l₁) (h2 : MainlineOf m ps l₂) : l₁ = l₂ := by
  induction h1 generalizing l₂ with
  | nil => cases h2; rfl
  | cons _ _ ihp ihps =>
    cases h2 with
    | cons hp' hps' => rw [ihp hp', ihps hps']

/-- the model's loop tests `isPLEvent` inside a fold over all auth events: same as folding over `plParents` -/
theorem mainlineIter_succ (m : List Event) (fuel : Nat) (e : Event) (acc : List Event) :
    mainlineIterU m (fuel + 1) e acc = (plParents m e).foldl (fun a p => mainlineIterU m fuel p a) (e :: acc) := by
  rw [plParents_eq, List.foldl_filter]
  rfl

/-- the inner fold, given the result for the recursive calls -/
theorem mainline_fold {fuel : Nat}
    (ih : ∀ e, DepthLE m e fuel → ∃ lp, MainlineOf m (plParents m e) lp ∧ ∀ acc, mainlineIterU m fuel e acc = lp ++ e :: acc) :
    ∀ ps : List Event, (∀ p ∈ ps, DepthLE m p fuel) →
      ∃ l, MainlineOf m ps l ∧ ∀ acc, ps.foldl (fun a p => mainlineIterU m fuel p a) acc = l ++ acc := by
  intro ps
  induction ps with
  | nil => intro _; exact ⟨[], .nil, fun acc => rfl⟩
  | cons p ps ihps =>
    intro hd
    obtain ⟨lp, hlp, hiter⟩ := ih p (hd p List.mem_cons_self)
    obtain ⟨l, hl, hfold⟩ := ihps (fun q hq => hd q (List.mem_cons_of_mem _ hq))
    refine ⟨l ++ (lp ++ [p]), .cons hlp hl, fun acc => ?_⟩
    rw [List.foldl_cons, hiter, hfold]
    simp only [List.append_assoc, List.cons_append, List.nil_append]

theorem mainlineIter_spec : ∀ (fuel : Nat) (e : Event), DepthLE m e fuel →
    ∃ lp, MainlineOf m (plParents m e) lp ∧ ∀ acc, mainlineIterU m fuel e acc = lp ++ e :: acc := by
  intro fuel
  induction fuel with
  | zero => intro e h; exact h.not_zero.elim
  | succ fuel ih =>
    intro e h
    obtain ⟨l, hl, hfold⟩ := mainline_fold ih (plParents m e) h.parents
    exact ⟨l, hl, fun acc => by rw [mainlineIter_succ, hfold]⟩

theorem mainlineOf_singleton {e : Event} {lp : List Event} (h : MainlineOf m (plParents m e) lp) :
    MainlineOf m [e] (lp ++ [e]) := by
  have := MainlineOf.cons h (MainlineOf.nil (m := m))
  simpa using this

/-- `createPowerLevelMainline` computes the mainline of the definition. -/
theorem mainline_eq_spec (hac : Acyclic (· ∈ m)) (pl : Option Event) : IsMainline m pl (createMainline m pl) := by
  cases pl with
  | none => rfl
  | some e =>
    obtain ⟨lp, hlp, hiter⟩ := mainlineIter_spec (m.length + 2) e ((depthLE_of_acyclic hac e).mono (by omega))
    show MainlineOf m [e] (mainlineIter m (m.length + 2) [] e [])
    rw [mainlineIter_eq_U hac _ _ _ _ (pathOK_nil e), hiter]
    exact mainlineOf_singleton hlp

theorem IsMainline.unique {pl : Option Event} {l₁ l₂ : List Event} (h1 : IsMainline m pl l₁) (h2 : IsMainline m pl l₂) :
    l₁ = l₂ := by
  cases pl with
  | none => rw [show l₁ = [] from h1, show l₂ = [] from h2]
  | some e => exact MainlineOf.unique h1 h2

/-- normal case: the mainline is the chain of power-levels ancestors, oldest first -/
theorem mainline_of_chain {e : Event} {c : List Event} (h : PLChain m e c) : MainlineOf m [e] c.reverse := by
  induction h with
  | @root e h0 =>
    have : MainlineOf m (plParents m e) [] := by rw [h0]; exact .nil
    simpa using mainlineOf_singleton this
  | @step e p c h1 _ ih =>
    have : MainlineOf m (plParents m e) c.reverse := by rw [h1]; exact ih
    simpa using mainlineOf_singleton this

theorem createMainline_of_chain (hac : Acyclic (· ∈ m)) {e : Event} {c : List Event} (h : PLChain m e c) :
    createMainline m (some e) = c.reverse :=
  IsMainline.unique (mainline_eq_spec hac (some e)) (mainline_of_chain h)

/-! ## 4. Position map -/

theorem foldl_lastMatch {α β : Type} (q : α → Bool) (f : α → β) (xs : List α) (acc : Option β) :
    xs.foldl (fun (a : Option β) x => if q x then some (f x) else a) acc
      = (((xs.filter q).getLast?).map f).or acc := by
  induction xs generalizing acc with
  | nil => rfl
  | cons x xs ih =>
    rw [List.foldl_cons, ih, List.filter_cons]
    by_cases hq : q x = true
    · simp only [hq, if_true, List.getLast?_cons]
      cases (xs.filter q).getLast? <;> simp
    · simp only [hq]; rfl

/-- the model's position map (later entries overwrite) is "index of the last entry with that ID" -/
theorem mainlinePos_eq_posOf (ml : List Event) (id : ID) : mainlinePos ml id = posOf ml id := by
  unfold mainlinePos posOf
  rw [foldl_lastMatch (fun (x : Event × Nat) => x.1.eventID == id) (fun x => x.2)]
  simp

/-! ## 5. Walk -/

theorem Walk.unique {ps : List Event} {st r₁ r₂ : Nat × Nat} (h1 : Walk m ml ps st r₁) (h2 : Walk m ml ps st r₂) :
    r₁ = r₂ := by
  induction h1 generalizing r₂ with
  | nil => cases h2; rfl
  | hit hp =>
    cases h2 with
    | hit hp' => rw [hp] at hp'; cases hp'; rfl
    | miss hn _ _ => rw [hp] at hn; cases hn
  | miss hn _ _ ih1 ih2 =>
    cases h2 with
    | hit hp' => rw [hn] at hp'; cases hp'
    | miss _ hw1' hw2' =>
      have := ih1 hw1'
      subst this
      exact ih2 hw2'

/-- the inner loop over all auth events (with the `isPLEvent` test inside) against `Walk` over the filtered list -/
theorem firstMainline_go {fuel : Nat}
    (ih : ∀ e st, DepthLE m e fuel → Walk m ml (plParents m e) st (firstMainlineU m ml fuel e st)) :
    ∀ (ps : List Event) (st : Nat × Nat), (∀ p ∈ ps.filter isPLEvent, DepthLE m p fuel) →
      Walk m ml (ps.filter isPLEvent) st (firstMainlineU.go m ml fuel ps st) := by
  intro ps
  induction ps with
  | nil => intro st _; rw [firstMainlineU.go.eq_1]; exact .nil
  | cons p rest ihr =>
    intro st hd
    rw [firstMainlineU.go.eq_2, List.filter_cons]
    by_cases hpl : isPLEvent p = true
    · simp only [hpl, Bool.not_true, Bool.false_eq_true, if_false, if_true]
      rw [List.filter_cons, if_pos hpl] at hd
      rw [mainlinePos_eq_posOf]
      cases hpos : posOf ml p.eventID with
      | some pos => exact .hit hpos
      | none =>
        exact .miss hpos (ih p _ (hd p List.mem_cons_self))
          (ihr _ (fun q hq => hd q (List.mem_cons_of_mem _ hq)))
    · have hpl' : isPLEvent p = false := by simpa using hpl
      rw [List.filter_cons, if_neg hpl] at hd
      simp only [hpl', Bool.not_false, if_true, Bool.false_eq_true, if_false]
      exact ihr st hd

theorem firstMainline_spec : ∀ (fuel : Nat) (e : Event) (st : Nat × Nat), DepthLE m e fuel →
    Walk m ml (plParents m e) st (firstMainlineU m ml fuel e st) := by
  intro fuel
  induction fuel with
  | zero => intro e st h; exact h.not_zero.elim
  | succ fuel ih =>
    intro e st h
    rw [firstMainlineU.eq_2, plParents_eq]
    exact firstMainline_go ih _ st h.parents

/-- `getFirstPowerLevelMainlineEvent` computes the (position, steps) of the definition. -/
theorem posSteps_eq_spec (hac : Acyclic (· ∈ m)) (e : Event) :
    MainlinePosSteps m ml e (firstMainline m ml (m.length + 2) [] e (0, 0)) := by
  rw [firstMainline_eq_U hac _ _ _ _ (pathOK_nil e)]
  exact firstMainline_spec (m.length + 2) e (0, 0) ((depthLE_of_acyclic hac e).mono (by omega))

theorem MainlinePosSteps.unique {e : Event} {r₁ r₂ : Nat × Nat} (h1 : MainlinePosSteps m ml e r₁)
    (h2 : MainlinePosSteps m ml e r₂) : r₁ = r₂ := Walk.unique h1 h2

/-- normal case: the walk follows the chain of power-levels ancestors -/
theorem walk_of_chainWalk {e : Event} {n : Nat} {r : Nat × Nat} (h : ChainWalk m ml e n r) :
    Walk m ml (plParents m e) (0, n) r := by
  induction h with
  | none h0 => rw [h0]; exact .nil
  | hit h1 hp => rw [h1]; exact Walk.hit (st := (0, _)) hp
  | miss h1 hn _ ih => rw [h1]; exact Walk.miss (st := (0, _)) hn ih .nil

theorem posSteps_of_chainWalk {e : Event} {r : Nat × Nat} (h : ChainWalk m ml e 0 r) : MainlinePosSteps m ml e r :=
  walk_of_chainWalk h

theorem firstMainline_of_chainWalk (hac : Acyclic (· ∈ m)) {e : Event} {r : Nat × Nat} (h : ChainWalk m ml e 0 r) :
    firstMainline m ml (m.length + 2) [] e (0, 0) = r :=
  MainlinePosSteps.unique (posSteps_eq_spec hac e) (posSteps_of_chainWalk h)

/-! ## 6. Mainline ordering -/

theorem otherKey_eq (m ml : List Event) (e : Event) :
    otherKey m ml e = otherKeyOf e (firstMainline m ml (m.length + 2) [] e (0, 0)) := rfl

theorem isSortedBy_iff_sortedBy {α κ : Type} (lt : κ → κ → Bool) (key : α → κ) (l : List α) :
    IsSortedBy lt key l ↔ SortedBy lt key l := Iff.rfl

/-- `mainlineOrdering` computes the sorted arrangement of the definition. -/
theorem mainlineOrdering_eq_spec (hac : Acyclic (· ∈ m)) (ml evs : List Event) :
    IsMainlineOrder m ml evs (mainlineOrdering m ml evs) := by
  unfold mainlineOrdering
  refine ⟨?_, fun e => otherKey m ml e, ?_, ?_⟩
  · have hp := (sortBy_perm (fun (a b : Event × OtherKey) => otherLt a.2 b.2)
      (evs.map (fun e => (e, otherKey m ml e)))).map (·.1)
    rw [List.map_map] at hp
    have hid : ((fun x : Event × OtherKey => x.1) ∘ fun e => (e, otherKey m ml e)) = id := rfl
    rw [hid, List.map_id] at hp
    exact hp
  · intro e _
    exact ⟨_, posSteps_eq_spec hac e, otherKey_eq m ml e⟩
  · have hs := sortBy_sorted (fun (x : Event × OtherKey) => x.2) otherLt_strictTotal
      (evs.map (fun e => (e, otherKey m ml e)))
    unfold IsSortedBy
    rw [List.pairwise_map]
    refine List.Pairwise.imp_of_mem ?_ hs
    intro a b ha hb hab
    have ha' := (mem_sortBy _).mp ha
    have hb' := (mem_sortBy _).mp hb
    rw [List.mem_map] at ha' hb'
    obtain ⟨x, _, rfl⟩ := ha'
    obtain ⟨y, _, rfl⟩ := hb'
    exact hab

/-- the definition determines the ordering (event IDs identify the events of the input) -/
theorem IsMainlineOrder.unique {input out₁ out₂ : List Event}
    (hid : ∀ a ∈ input, ∀ b ∈ input, a.eventID = b.eventID → a = b)
    (h1 : IsMainlineOrder m ml input out₁) (h2 : IsMainlineOrder m ml input out₂) : out₁ = out₂ := by
  obtain ⟨hp1, k1, hk1, hs1⟩ := h1
  obtain ⟨hp2, k2, hk2, hs2⟩ := h2
  have hagree : ∀ e ∈ input, k2 e = k1 e := by
    intro e he
    obtain ⟨r1, hw1, e1⟩ := hk1 e he
    obtain ⟨r2, hw2, e2⟩ := hk2 e he
    rw [e1, e2, MainlinePosSteps.unique hw1 hw2]
  have hs2' : SortedBy otherLt k1 out₂ := by
    refine List.Pairwise.imp_of_mem ?_ hs2
    intro a b ha hb hab
    rw [← hagree a (hp2.mem_iff.mp ha), ← hagree b (hp2.mem_iff.mp hb)]
    exact hab
  have hinj : KeyInj k1 out₁ := by
    intro a ha b hb hab
    have ha' := hp1.mem_iff.mp ha
    have hb' := hp1.mem_iff.mp hb
    obtain ⟨ra, _, ea⟩ := hk1 a ha'
    obtain ⟨rb, _, eb⟩ := hk1 b hb'
    rw [ea, eb] at hab
    exact hid a ha' b hb' (congrArg OtherKey.id hab)
  exact sorted_unique k1 otherLt_strictTotal (hp1.trans hp2.symm) hinj hs1 hs2'

/-- hence: the model's ordering is the only one satisfying the definition -/
theorem mainlineOrdering_unique (hac : Acyclic (· ∈ m)) {ml evs out : List Event}
    (hid : ∀ a ∈ evs, ∀ b ∈ evs, a.eventID = b.eventID → a = b) (h : IsMainlineOrder m ml evs out) :
    out = mainlineOrdering m ml evs :=
  IsMainlineOrder.unique hid h (mainlineOrdering_eq_spec hac ml evs)

end V.StateResSpec
