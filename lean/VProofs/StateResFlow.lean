/-
  The part of state resolution v2 that the current entry point (`resolveV2New`) and the deprecated one
  (`resolveV2Old`) share: from (conflicted, unconflicted, auth map, create event, auth difference) to the control set
  and the remaining conflicted events (`mkPrep`), then ordering, iterative auth checks and re-application of the
  unconflicted events starting from some partial state (`flowFrom`).  Both depend on their inputs only as sets
  (`mkPrep_sim`) and on the starting state only through its lookups (`flowFrom_sim`).  Core only.
-/
import VProofs.StateResWF
namespace V.StateRes
open V Json GoJson Auth List

/-- everything computed before the partial state is touched, from the split and the auth difference -/
def mkPrep (c u am : List Event) (ce : Option Event) (d : List Event) : Prep :=
  let confMap := eventMapFromEvents c
  let unconfIDs := u.map (·.eventID)
  let full := c ++ d
  let controlIDs := controlIDsOf confMap (rootsOf unconfIDs full)
  { conflicted := c, unconflicted := u, authMap := am, createEv := ce, authDiff := d, controlIDs := controlIDs,
    controlEvents := controlIDs.filterMap (lookupAny full confMap), others := othersOf unconfIDs controlIDs full }

theorem prepOf_eq_mkPrep (algo : Nat) (sets : List (List Event)) (auth : List Event) :
    prepOf algo sets auth =
      mkPrep (splitConflictedUnconflicted false sets).1 (splitConflictedUnconflicted false sets).2 (eventMapFromEvents auth)
        (createEvOf (splitConflictedUnconflicted false sets).2 auth (splitConflictedUnconflicted false sets).1)
        (authDifferenceNew algo (eventMapFromEvents auth) (splitConflictedUnconflicted false sets).1 sets) := rfl

/-- control events and other events are conflicted events or events of the auth difference -/
theorem mkPrep_control_sub {c u am : List Event} {ce : Option Event} {d : List Event} {e : Event}
    (h : e ∈ (mkPrep c u am ce d).controlEvents) : e ∈ c ∨ e ∈ d := by
  simp only [mkPrep] at h
  obtain ⟨id, _, hid⟩ := List.mem_filterMap.mp h
  unfold lookupAny at hid
  split at hid
  · rename_i x hx
    cases hid
    exact List.mem_append.mp (findByID_some hx).1
  · exact Or.inl (mem_eventMap (findByID_some hid).1)

theorem mkPrep_others_sub {c u am : List Event} {ce : Option Event} {d : List Event} {e : Event}
    (h : e ∈ (mkPrep c u am ce d).others) : e ∈ c ∨ e ∈ d := by
  simp only [mkPrep, othersOf] at h
  exact List.mem_append.mp (mem_eventMap (List.mem_filter.mp h).1)

/-- what two preparations of the same input (presented differently) have in common -/
structure PrepSim (U : Event → Prop) (p p' : Prep) : Prop where
  inU : (∀ x ∈ p.unconflicted, U x) ∧ (∀ x ∈ p'.unconflicted, U x) ∧ (∀ x ∈ p.controlEvents, U x) ∧ (∀ x ∈ p'.controlEvents, U x)
  conflicted : SameSet p.conflicted p'.conflicted
  unconflicted : p.unconflicted ~ p'.unconflicted
  slots : DistinctSlots p.unconflicted
  authMap : MapEq p.authMap p'.authMap
  createEv : p.createEv = p'.createEv
  authDiff : SameSet p.authDiff p'.authDiff
  controlIDs : SameSet p.controlIDs p'.controlIDs
  controlEvents : SameSet p.controlEvents p'.controlEvents
  others : p.others ~ p'.others
  othersNodup : IdNodup p.others

/-- **The control set and the remaining conflicted events depend on the inputs only as sets.** -/
theorem mkPrep_sim {U : Event → Prop} (hU : EvId U) {c c' u u' am am' : List Event} (ce : Option Event) {d d' : List Event}
    (hcU : ∀ x ∈ c, U x) (hcU' : ∀ x ∈ c', U x) (huU : ∀ x ∈ u, U x) (huU' : ∀ x ∈ u', U x)
    (hdU : ∀ x ∈ d, U x) (hdU' : ∀ x ∈ d', U x)
    (hc : SameSet c c') (hu : u ~ u') (hslots : DistinctSlots u) (ham : MapEq am am') (hd : SameSet d d') :
    PrepSim U (mkPrep c u am ce d) (mkPrep c' u' am' ce d') := by
  have hcm : MapEq (eventMapFromEvents c) (eventMapFromEvents c') := eventMap_mapEq hU hcU hcU' hc
  have hfull : SameSet (c ++ d) (c' ++ d') := hc.append hd
  have hfullU : ∀ x ∈ c ++ d, U x := fun x hx => (List.mem_append.mp hx).elim (hcU x) (hdU x)
  have hfullU' : ∀ x ∈ c' ++ d', U x := fun x hx => (List.mem_append.mp hx).elim (hcU' x) (hdU' x)
  have huid : SameSet (u.map (·.eventID)) (u'.map (·.eventID)) := (SameSet.of_perm hu).map _
  have hroots : SameSet (rootsOf (u.map (·.eventID)) (c ++ d)) (rootsOf (u'.map (·.eventID)) (c' ++ d')) := by
    unfold rootsOf
    intro x
    simp only [List.mem_filter, hfull x, huid.contains]
  have hcids : SameSet (controlIDsOf (eventMapFromEvents c) (rootsOf (u.map (·.eventID)) (c ++ d)))
      (controlIDsOf (eventMapFromEvents c') (rootsOf (u'.map (·.eventID)) (c' ++ d'))) := by
    unfold controlIDsOf
    rw [controlClosure_mapEq hcm, hcm.1]
    apply controlClosure_sameSet _ _ hroots
    intro id
    rw [eventMap_ids, eventMap_ids]
    exact (hroots.map _) id
  have hlook : ∀ id, lookupAny (c ++ d) (eventMapFromEvents c) id = lookupAny (c' ++ d') (eventMapFromEvents c') id := by
    intro id
    unfold lookupAny
    rw [findByID_congr hU hfullU hfullU' hfull id, hcm.2 id]
  have hce : SameSet (mkPrep c u am ce d).controlEvents (mkPrep c' u' am' ce d').controlEvents := by
    simp only [mkPrep]
    intro x
    simp only [List.mem_filterMap, hlook]
    constructor
    · rintro ⟨id, hid, hx⟩; exact ⟨id, (hcids id).mp hid, hx⟩
    · rintro ⟨id, hid, hx⟩; exact ⟨id, (hcids id).mpr hid, hx⟩
  have hot : SameSet (mkPrep c u am ce d).others (mkPrep c' u' am' ce d').others := by
    simp only [mkPrep, othersOf]
    intro x
    simp only [List.mem_filter, huid.contains, hcids.contains]
    have := (eventMap_sameSet (hU.mono hfullU)).trans (hfull.trans (eventMap_sameSet (hU.mono hfullU')).symm)
    rw [this x]
  have hotn : IdNodup (mkPrep c u am ce d).others := by
    simp only [mkPrep, othersOf]; exact (eventMap_idNodup _).filter _
  have hotn' : IdNodup (mkPrep c' u' am' ce d').others := by
    simp only [mkPrep, othersOf]; exact (eventMap_idNodup _).filter _
  refine ⟨⟨huU, huU', ?_, ?_⟩, hc, hu, hslots, ham, rfl, hd, hcids, hce, hot.perm hotn.nodup hotn'.nodup, hotn⟩
  · intro x hx
    exact (mkPrep_control_sub hx).elim (hcU x) (hdU x)
  · intro x hx
    exact (mkPrep_control_sub hx).elim (hcU' x) (hdU' x)

/-! ## The flow from a partial state -/

def controlOrderFrom (p : Prep) (s1 : State) : List Event :=
  reverseTopoAuth p.authMap (createFor p.createEv s1) p.controlEvents

def stateS2From (p : Prep) (rej : List ID) (s1 : State) : State :=
  authAndApply p.authMap rej s1 (controlOrderFrom p s1)

def othersOrderFrom (p : Prep) (rej : List ID) (s1 : State) : List Event :=
  mainlineOrdering p.authMap (createMainline p.authMap ((stateS2From p rej s1).get b!"m.room.power_levels" [])) p.others

def stateS3From (p : Prep) (rej : List ID) (s1 : State) : State :=
  authAndApply p.authMap rej (stateS2From p rej s1) (othersOrderFrom p rej s1)

/-- ordering of the control events, iterative auth checks, mainline ordering of the others, iterative auth checks,
    re-application of the unconflicted events — starting from the partial state `s1` -/
def flowFrom (p : Prep) (rej : List ID) (s1 : State) : State :=
  applyEvents (stateS3From p rej s1) p.unconflicted

theorem stateS4_eq_flowFrom (algo : Nat) (p : Prep) (rej : List ID) : stateS4 algo p rej = flowFrom p rej (stateS1 algo p) := rfl

/-- two partial states that are maps with the same lookups -/
structure StateEq (s s' : State) : Prop where
  wf : StateWF s
  wf' : StateWF s'
  get : ∀ t k, s.get t k = s'.get t k

theorem StateEq.refl {s : State} (h : StateWF s) : StateEq s s := ⟨h, h, fun _ _ => rfl⟩

theorem StateEq.perm {s s' : State} (h : StateEq s s') : s ~ s' := h.wf.perm_of_get h.wf' h.get

theorem StateEq.applyStep {s s' : State} (h : StateEq s s') (e : Event) : StateEq (applyStep s e) (applyStep s' e) :=
  ⟨h.wf.applyStep e, h.wf'.applyStep e, fun t k => by rw [get_applyStep, get_applyStep, h.get]⟩

theorem StateEq.authStep {s s' : State} (h : StateEq s s') (am : List Event) (rej : List ID) (e : Event) :
    StateEq (authStep am rej s e) (authStep am rej s' e) := by
  unfold V.StateRes.authStep
  rw [authStep_verdict_get_congr am rej h.get e]
  split
  · exact h.applyStep e
  · exact h

theorem StateEq.authAndApply {s s' : State} (h : StateEq s s') (am : List Event) (rej : List ID) (evs : List Event) :
    StateEq (authAndApply am rej s evs) (authAndApply am rej s' evs) := by
  rw [authAndApply_eq, authAndApply_eq]
  induction evs generalizing s s' with
  | nil => exact h
  | cons e es ih => rw [List.foldl_cons, List.foldl_cons]; exact ih (h.authStep am rej e)

theorem createFor_stateEq {s s' : State} (h : StateEq s s') (c : Option Event) : createFor c s = createFor c s' := by
  unfold createFor; rw [h.get]

/-- applying two arrangements of events with distinct slots to two maps with the same lookups -/
theorem StateEq.applyEvents_perm {s s' : State} (h : StateEq s s') {evs evs' : List Event} (hp : evs ~ evs')
    (hd : DistinctSlots evs) : StateEq (applyEvents s evs) (applyEvents s' evs') := by
  refine ⟨h.wf.applyEvents _, h.wf'.applyEvents _, fun t k => ?_⟩
  rw [get_applyEvents_perm hp hd s t k]
  rw [get_applyEvents (hd.perm hp) s t k]
  have h2 := (get_applyEvents (hd.perm hp) s' t k ((applyEvents s' evs').get t k)).mp rfl
  rcases h2 with ⟨e, he, hk, hr⟩ | ⟨hn, hr⟩
  · exact Or.inl ⟨e, he, hk, hr⟩
  · exact Or.inr ⟨hn, by rw [h.get]; exact hr⟩

section flow
variable {U : Event → Prop} (hU : EvId U) {p p' : Prep} (h : PrepSim U p p') (rej : List ID) {s1 s1' : State} (hs : StateEq s1 s1')

include hU h hs in
theorem controlOrderFrom_sim : controlOrderFrom p s1 = controlOrderFrom p' s1' := by
  unfold controlOrderFrom
  rw [createFor_stateEq hs, reverseTopoAuth_mapEq h.authMap, h.createEv]
  exact reverseTopoAuth_input_order_irrelevant _ _
    (hU.mono (fun x hx => by
      rcases List.mem_append.mp hx with hx | hx
      · exact h.inU.2.2.1 x hx
      · exact h.inU.2.2.2 x hx)) h.controlEvents

include hU h hs in
theorem stateS2From_sim : StateEq (stateS2From p rej s1) (stateS2From p' rej s1') := by
  unfold stateS2From
  rw [controlOrderFrom_sim hU h hs, authAndApply_mapEq h.authMap]
  exact hs.authAndApply _ _ _

include hU h hs in
theorem othersOrderFrom_sim : othersOrderFrom p rej s1 = othersOrderFrom p' rej s1' := by
  unfold othersOrderFrom
  rw [(stateS2From_sim hU h rej hs).get, createMainline_mapEq h.authMap, mainlineOrdering_mapEq h.authMap]
  exact mainlineOrdering_input_order_irrelevant _ _ h.others h.othersNodup

include hU h hs in
theorem stateS3From_sim : StateEq (stateS3From p rej s1) (stateS3From p' rej s1') := by
  unfold stateS3From
  rw [othersOrderFrom_sim hU h rej hs, authAndApply_mapEq h.authMap]
  exact (stateS2From_sim hU h rej hs).authAndApply _ _ _

include hU h hs in
/-- **The flow depends on the preparation only as sets and on the starting state only through its lookups.** -/
theorem flowFrom_sim : StateEq (flowFrom p rej s1) (flowFrom p' rej s1') := by
  unfold flowFrom
  exact (stateS3From_sim hU h rej hs).applyEvents_perm h.unconflicted h.slots

end flow

/-- the flow keeps the state a map, whatever it starts from -/
theorem flowFrom_wf (p : Prep) (rej : List ID) {s1 : State} (h : StateWF s1) : StateWF (flowFrom p rej s1) :=
  ((h.authAndApply _ _ _).authAndApply _ _ _).applyEvents _

/-- every entry of the final state was in the starting state or is an unconflicted / control / other event -/
theorem mem_flowFrom {p : Prep} {rej : List ID} {s1 : State} {x} (h : x ∈ flowFrom p rej s1) :
    x ∈ s1 ∨ x.2 ∈ p.unconflicted ∨ x.2 ∈ p.controlEvents ∨ x.2 ∈ p.others := by
  unfold flowFrom at h
  rcases mem_applyEvents h with h3 | h3
  · unfold stateS3From at h3
    rcases mem_authAndApply h3 with h2 | h2
    · unfold stateS2From at h2
      rcases mem_authAndApply h2 with h1 | h1
      · exact Or.inl h1
      · exact Or.inr (Or.inr (Or.inl (reverseTopoAuth_subset _ _ h1)))
    · exact Or.inr (Or.inr (Or.inr (mem_mainlineOrdering.mp h2)))
  · exact Or.inr (Or.inl h3)

/-- the unconflicted events (distinct slots) are all in the final state -/
theorem flowFrom_keeps_unconflicted (p : Prep) (rej : List ID) (s1 : State) (hd : DistinctSlots p.unconflicted)
    {u : Event} (hu : u ∈ p.unconflicted) (hk : u.stateKey.isSome) : (keyOf u, u) ∈ flowFrom p rej s1 := by
  apply State.mem_of_get_eq_some
  unfold flowFrom
  exact (get_applyEvents hd _ _ _ _).mpr (Or.inl ⟨u, hu, hasKey_keyOf hk, rfl⟩)

end V.StateRes
