/- The insertion sort by key used by the JSON model: permutation, sortedness, and uniqueness of the
   result for distinct keys (so the result does not depend on the order members were given in, nor
   on the sorting algorithm the Go code uses). Core only. -/
import VProofs.Order
namespace V.Json
open List

variable {α : Type}

/-- `a` may come before `b`. -/
def KeyLe (a b : Bytes × α) : Prop := bytesLt b.1 a.1 = false

theorem insertByKey_perm (m : Bytes × α) : ∀ l, insertByKey m l ~ m :: l
  | [] => by simp [insertByKey]
  | x :: xs => by
    unfold insertByKey
    split
    · exact Perm.refl _
    · exact ((insertByKey_perm m xs).cons x).trans (Perm.swap m x xs)

theorem sortByKey_perm : ∀ l : List (Bytes × α), sortByKey l ~ l
  | [] => by simp [sortByKey]
  | m :: ms => by
    unfold sortByKey
    exact (insertByKey_perm m _).trans ((sortByKey_perm ms).cons m)

theorem KeyLe_trans {a b c : Bytes × α} (h1 : KeyLe a b) (h2 : KeyLe b c) : KeyLe a c := by
  unfold KeyLe at *
  cases h : bytesLt c.1 a.1 with
  | false => rfl
  | true =>
    -- c < a; a ≤ b means ¬ b < a. If c < a then (b ≤ c so ¬ c < b)...
    exfalso
    cases hab : bytesLt a.1 b.1 with
    | true =>
      have := bytesLt_trans _ _ _ h hab
      simp [this] at h2
    | false =>
      have e : a.1 = b.1 := bytesLt_total _ _ hab h1
      rw [e] at h
      simp [h] at h2

theorem insertByKey_sorted (m : Bytes × α) : ∀ l, l.Pairwise KeyLe → (insertByKey m l).Pairwise KeyLe
  | [], _ => by simp [insertByKey]
  | x :: xs, h => by
    unfold insertByKey
    split
    · rename_i hlt
      have hmx : KeyLe m x := bytesLt_asymm _ _ hlt
      refine Pairwise.cons ?_ h
      intro y hy
      rcases List.mem_cons.mp hy with rfl | hy
      · exact hmx
      · exact KeyLe_trans hmx (rel_of_pairwise_cons h hy)
    · rename_i hnlt
      have hxm : KeyLe x m := by simpa [KeyLe] using hnlt
      refine Pairwise.cons ?_ (insertByKey_sorted m xs h.tail)
      intro y hy
      have : y ∈ m :: xs := (insertByKey_perm m xs).subset hy
      rcases List.mem_cons.mp this with rfl | hy
      · exact hxm
      · exact rel_of_pairwise_cons h hy

theorem sortByKey_sorted : ∀ l : List (Bytes × α), (sortByKey l).Pairwise KeyLe
  | [] => by simp [sortByKey]
  | m :: ms => by
    unfold sortByKey
    exact insertByKey_sorted m _ (sortByKey_sorted ms)

/-- Distinct keys. -/
def NodupKeys (l : List (Bytes × α)) : Prop := (l.map (·.1)).Nodup

theorem eq_of_key_eq_of_nodup {l : List (Bytes × α)} (hn : NodupKeys l) {a b : Bytes × α}
    (ha : a ∈ l) (hb : b ∈ l) (hk : a.1 = b.1) : a = b := by
  induction l with
  | nil => cases ha
  | cons x xs ih =>
    unfold NodupKeys at hn
    simp only [List.map_cons, List.nodup_cons] at hn
    rcases List.mem_cons.mp ha with rfl | ha' <;> rcases List.mem_cons.mp hb with rfl | hb'
    · rfl
    · exact absurd (hk ▸ List.mem_map_of_mem (f := (·.1)) hb') hn.1
    · exact absurd (hk ▸ List.mem_map_of_mem (f := (·.1)) ha') hn.1
    · exact ih hn.2 ha' hb'

/-- For distinct keys, sorting any two arrangements of the same members gives the same list. -/
theorem sortByKey_unique {l₁ l₂ : List (Bytes × α)} (hp : l₁ ~ l₂) (hn : NodupKeys l₁) :
    sortByKey l₁ = sortByKey l₂ := by
  have p : sortByKey l₁ ~ sortByKey l₂ := (sortByKey_perm l₁).trans (hp.trans (sortByKey_perm l₂).symm)
  refine Perm.eq_of_pairwise ?_ (sortByKey_sorted l₁) (sortByKey_sorted l₂) p
  intro a b ha hb hab hba
  have ha' : a ∈ l₁ := (sortByKey_perm l₁).subset ha
  have hb' : b ∈ l₁ := hp.symm.subset ((sortByKey_perm l₂).subset hb)
  exact eq_of_key_eq_of_nodup hn ha' hb' (bytesLt_total _ _ hba hab)

/-- Strictly increasing keys: what "sorted by code point, no duplicates" means. -/
def StrictSorted (l : List (Bytes × α)) : Prop := l.Pairwise (fun a b => bytesLt a.1 b.1 = true)

theorem sortByKey_strict {l : List (Bytes × α)} (hn : NodupKeys l) : StrictSorted (sortByKey l) := by
  have hs := sortByKey_sorted l
  have hn' : NodupKeys (sortByKey l) := by
    unfold NodupKeys at *
    exact ((sortByKey_perm l).map _).nodup_iff.mpr hn
  unfold StrictSorted
  unfold NodupKeys at hn'
  generalize sortByKey l = s at hs hn'
  induction s with
  | nil => exact Pairwise.nil
  | cons x xs ih =>
    simp only [List.map_cons, List.nodup_cons] at hn'
    refine Pairwise.cons ?_ (ih hs.tail hn'.2)
    intro y hy
    have hle : KeyLe x y := rel_of_pairwise_cons hs hy
    cases h : bytesLt x.1 y.1 with
    | true => rfl
    | false =>
      have : x.1 = y.1 := bytesLt_total _ _ h hle
      exact absurd (this ▸ List.mem_map_of_mem (f := (·.1)) hy) hn'.1

/-- Sorting an already strictly sorted list changes nothing (idempotence of the normal form). -/
theorem sortByKey_of_strict : ∀ {l : List (Bytes × α)}, StrictSorted l → sortByKey l = l
  | [], _ => rfl
  | x :: xs, h => by
    unfold sortByKey
    have htl : StrictSorted xs := Pairwise.tail h
    rw [sortByKey_of_strict htl]
    cases xs with
    | nil => rfl
    | cons y ys =>
      have : bytesLt x.1 y.1 = true := rel_of_pairwise_cons h List.mem_cons_self
      simp [insertByKey, this]

end V.Json
