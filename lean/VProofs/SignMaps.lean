/- Lemmas about the association-list maps of VModel.Sign: lookup after assignment, unique keys, and the
   round trip `decode (marshal m) = m` of signature maps (needs the base64 round trip).  Core only. -/
import VProofs.SignB64
namespace V.Sign
open V V.Json V.GoJson List

variable {α : Type}

/-! ### mapGet / mapSet -/

theorem mapGet_append (a b : List (Bytes × α)) (k : Bytes) :
    mapGet (a ++ b) k = match mapGet a k with
      | some x => some x
      | none => mapGet b k := by
  induction a with
  | nil => rfl
  | cons x xs ih =>
    obtain ⟨k', v⟩ := x
    by_cases h : (k' == k) = true
    · simp [mapGet, h]
    · simp [mapGet, h, ih]

theorem mapGet_filter_same (m : List (Bytes × α)) (k : Bytes) :
    mapGet (m.filter (fun kv => kv.1 != k)) k = none := by
  induction m with
  | nil => rfl
  | cons x xs ih =>
    obtain ⟨k', v⟩ := x
    by_cases h : k' = k
    · subst h; simp [List.filter, ih]
    · have h1 : (k' != k) = true := by simpa using h
      have h2 : (k' == k) = false := by simpa using h
      simp [List.filter, h1, mapGet, h2, ih]

theorem mapGet_filter_other (m : List (Bytes × α)) (k k' : Bytes) (hne : k' ≠ k) :
    mapGet (m.filter (fun kv => kv.1 != k)) k' = mapGet m k' := by
  induction m with
  | nil => rfl
  | cons x xs ih =>
    obtain ⟨k0, v⟩ := x
    by_cases h : k0 = k
    · subst h
      have h2 : (k0 == k') = false := by simpa using (fun e => hne e.symm)
      simp [List.filter, mapGet, h2, ih]
    · have h1 : (k0 != k) = true := by simpa using h
      simp only [List.filter, h1, mapGet, ih]

theorem mapGet_mapSet_same (m : List (Bytes × α)) (k : Bytes) (v : α) : mapGet (mapSet m k v) k = some v := by
  unfold mapSet
  rw [mapGet_append, mapGet_filter_same]
  simp [mapGet]

theorem mapGet_mapSet_ne (m : List (Bytes × α)) (k k' : Bytes) (v : α) (hne : k' ≠ k) :
    mapGet (mapSet m k v) k' = mapGet m k' := by
  unfold mapSet
  rw [mapGet_append, mapGet_filter_other m k k' hne]
  have h2 : (k == k') = false := by simpa using (fun e => hne e.symm)
  cases mapGet m k' with
  | some x => rfl
  | none => simp [mapGet, h2]

theorem mem_of_mapGet {m : List (Bytes × α)} {k : Bytes} {v : α} (h : mapGet m k = some v) : (k, v) ∈ m := by
  induction m with
  | nil => cases h
  | cons x xs ih =>
    obtain ⟨k', v'⟩ := x
    by_cases hk : (k' == k) = true
    · simp only [mapGet, hk, if_true, Option.some.injEq] at h
      have := eq_of_beq hk
      subst this; subst h
      exact List.mem_cons_self
    · simp only [mapGet, hk] at h
      exact List.mem_cons_of_mem _ (ih h)

/-- no two entries with the same key -/
def UniqueKeys (m : List (Bytes × α)) : Prop := m.Pairwise (fun a b => a.1 ≠ b.1)

theorem uniqueKeys_nil : UniqueKeys ([] : List (Bytes × α)) := Pairwise.nil

theorem mapSet_of_fresh (m : List (Bytes × α)) (k : Bytes) (v : α) (h : ∀ kv ∈ m, kv.1 ≠ k) :
    mapSet m k v = m ++ [(k, v)] := by
  unfold mapSet
  rw [List.filter_eq_self.mpr]
  intro kv hkv
  simpa using h kv hkv

theorem uniqueKeys_mapSet (m : List (Bytes × α)) (k : Bytes) (v : α) (h : UniqueKeys m) : UniqueKeys (mapSet m k v) := by
  unfold mapSet UniqueKeys
  rw [List.pairwise_append]
  refine ⟨h.sublist List.filter_sublist, List.pairwise_singleton _ _, ?_⟩
  intro a ha b hb
  simp only [List.mem_singleton] at hb
  subst hb
  have := (List.mem_filter.mp ha).2
  simpa using this

theorem mem_mapSet {m : List (Bytes × α)} {k : Bytes} {v : α} {e : Bytes × α} (h : e ∈ mapSet m k v) :
    e ∈ m ∨ e = (k, v) := by
  unfold mapSet at h
  rcases List.mem_append.mp h with h | h
  · exact Or.inl (List.mem_filter.mp h).1
  · exact Or.inr (by simpa using h)

/-! ### getLast / eraseKey / body -/

theorem getLast_append (a b : List (Bytes × α)) (k : Bytes) :
    getLast (a ++ b) k = match getLast b k with
      | some x => some x
      | none => getLast a k := by
  induction a with
  | nil => simp only [List.nil_append, getLast]; cases getLast b k <;> rfl
  | cons x xs ih =>
    obtain ⟨k', v⟩ := x
    simp only [List.cons_append, getLast, ih]
    cases getLast b k with
    | some y => rfl
    | none => rfl

theorem getLast_none_of_no_key (o : List (Bytes × α)) (k : Bytes) (h : ∀ kv ∈ o, kv.1 ≠ k) : getLast o k = none := by
  induction o with
  | nil => rfl
  | cons x xs ih =>
    obtain ⟨k', v⟩ := x
    have h1 : (k' == k) = false := by simpa using h (k', v) List.mem_cons_self
    simp [getLast, ih (fun kv hkv => h kv (List.mem_cons_of_mem _ hkv)), h1]

theorem eraseKey_no_key (k : Bytes) (o : List (Bytes × α)) : ∀ kv ∈ eraseKey k o, kv.1 ≠ k := by
  intro kv h
  have := (List.mem_filter.mp h).2
  simpa using this

theorem eraseKey_of_no_key (k : Bytes) (o : List (Bytes × α)) (h : ∀ kv ∈ o, kv.1 ≠ k) : eraseKey k o = o := by
  unfold eraseKey
  rw [List.filter_eq_self]
  intro kv hkv
  simpa using h kv hkv

theorem eraseKey_append (k : Bytes) (a b : List (Bytes × α)) : eraseKey k (a ++ b) = eraseKey k a ++ eraseKey k b := by
  unfold eraseKey; exact List.filter_append ..

theorem getLast_eraseKey_ne (k k' : Bytes) (o : List (Bytes × α)) (hne : k' ≠ k) :
    getLast (eraseKey k o) k' = getLast o k' := by
  induction o with
  | nil => rfl
  | cons x xs ih =>
    obtain ⟨k0, v⟩ := x
    by_cases h : k0 = k
    · subst h
      have h2 : (k0 == k') = false := by simpa using (fun e => hne e.symm)
      have : eraseKey k0 ((k0, v) :: xs) = eraseKey k0 xs := by simp [eraseKey, List.filter]
      rw [this, ih]
      simp only [getLast, h2]
      cases getLast xs k' <;> rfl
    · have h1 : (k0 != k) = true := by simpa using h
      have : eraseKey k ((k0, v) :: xs) = (k0, v) :: eraseKey k xs := by simp [eraseKey, List.filter, h1]
      rw [this]
      simp only [getLast, ih]

theorem kSig_ne_kUns : kSignatures ≠ kUnsigned := by decide

theorem body_no_sig (o : List (Bytes × JVal)) : ∀ kv ∈ body o, kv.1 ≠ kSignatures := by
  intro kv h
  unfold body at h
  have h' := (List.mem_filter.mp h).1
  exact eraseKey_no_key kSignatures o kv h'

theorem body_no_uns (o : List (Bytes × JVal)) : ∀ kv ∈ body o, kv.1 ≠ kUnsigned :=
  eraseKey_no_key kUnsigned _

theorem body_assemble (o : List (Bytes × JVal)) (sigs : JVal) (uns : Option JVal) :
    body (assemble (body o) sigs uns) = body o := by
  have e1 : eraseKey kSignatures (body o) = body o := eraseKey_of_no_key _ _ (body_no_sig o)
  have e2 : eraseKey kUnsigned (body o) = body o := eraseKey_of_no_key _ _ (body_no_uns o)
  have hne : (kUnsigned != kSignatures) = true := by decide
  unfold assemble
  cases uns with
  | none =>
    show eraseKey kUnsigned (eraseKey kSignatures (body o ++ [(kSignatures, sigs)] ++ [])) = body o
    simp only [List.append_nil, eraseKey_append, e1]
    have e3 : eraseKey kSignatures [(kSignatures, sigs)] = [] := by simp [eraseKey, List.filter]
    have e0 : eraseKey kUnsigned ([] : List (Bytes × JVal)) = [] := rfl
    rw [e3, e0, List.append_nil, e2]
  | some u =>
    show eraseKey kUnsigned (eraseKey kSignatures (body o ++ [(kSignatures, sigs)] ++ [(kUnsigned, u)])) = body o
    simp only [eraseKey_append, e1]
    have e3 : eraseKey kSignatures [(kSignatures, sigs)] = [] := by simp [eraseKey, List.filter]
    have e4 : eraseKey kSignatures [(kUnsigned, u)] = [(kUnsigned, u)] := by simp [eraseKey, List.filter, hne]
    have e5 : eraseKey kUnsigned [(kUnsigned, u)] = [] := by simp [eraseKey, List.filter]
    have e0 : eraseKey kUnsigned ([] : List (Bytes × JVal)) = [] := rfl
    rw [e3, e4, e0, List.append_nil, e2, e5, List.append_nil]

theorem getLast_assemble_sig (b : List (Bytes × JVal)) (sigs : JVal) (uns : Option JVal) :
    getLast (assemble b sigs uns) kSignatures = some sigs := by
  unfold assemble
  have h1 : (kUnsigned == kSignatures) = false := by decide
  cases uns with
  | none => simp [getLast_append, getLast]
  | some u => simp [getLast_append, getLast, h1]

theorem getLast_assemble_uns (o : List (Bytes × JVal)) (sigs : JVal) (uns : Option JVal) :
    getLast (assemble (body o) sigs uns) kUnsigned = uns := by
  unfold assemble
  have h1 : (kSignatures == kUnsigned) = false := by decide
  have h2 := getLast_none_of_no_key (body o) kUnsigned (body_no_uns o)
  cases uns with
  | none => simp [getLast_append, getLast, h1, h2]
  | some u => simp [getLast_append, getLast]

/-! ### decoding what was marshalled -/

def entryToJ (e : Bytes × Bytes) : Bytes × JVal := (e.1, JVal.str (b64Encode e.2))
def nameToJ (e : Bytes × Inner Bytes) : Bytes × JVal := (e.1, innerToJVal e.2)

theorem innerToJVal_some (es : List (Bytes × Bytes)) : innerToJVal (some es) = .obj (es.map entryToJ) := rfl
theorem sigMapToJVal_eq (m : SigMap) : sigMapToJVal m = .obj (m.map nameToJ) := rfl

theorem decodeEntries_roundtrip : ∀ (es acc : List (Bytes × Bytes)),
    UniqueKeys es → (∀ e ∈ es, ∀ a ∈ acc, a.1 ≠ e.1) →
    decodeEntries decodeSigVal (es.map entryToJ) acc = some (acc ++ es)
  | [], acc, _, _ => by simp [decodeEntries]
  | (k, b) :: rest, acc, hu, hd => by
    have hfresh : ∀ a ∈ acc, a.1 ≠ k := fun a ha => hd (k, b) List.mem_cons_self a ha
    simp only [List.map_cons, entryToJ, decodeEntries, decodeSigVal, b64Decode_encode, mapSet_of_fresh acc k b hfresh]
    rw [decodeEntries_roundtrip rest (acc ++ [(k, b)]) (List.Pairwise.tail hu)]
    · simp
    · intro e he a ha
      rcases List.mem_append.mp ha with ha | ha
      · exact hd e (List.mem_cons_of_mem _ he) a ha
      · simp only [List.mem_singleton] at ha
        subst ha
        exact List.rel_of_pairwise_cons hu he

/-- inner maps have unique keys -/
def InnerOk (i : Inner Bytes) : Prop := ∀ es, i = some es → UniqueKeys es

theorem decodeInner_roundtrip (i : Inner Bytes) (h : InnerOk i) : decodeInner decodeSigVal (innerToJVal i) = some i := by
  cases i with
  | none => rfl
  | some es =>
    rw [innerToJVal_some]
    simp only [decodeInner]
    rw [decodeEntries_roundtrip es [] (h es rfl) (fun _ _ a ha => by cases ha)]
    simp

/-- a signature map as the decoder builds it: unique names, unique key IDs under every name -/
def WF (m : SigMap) : Prop := UniqueKeys m ∧ ∀ e ∈ m, InnerOk e.2

theorem wf_nil : WF [] := ⟨Pairwise.nil, fun _ h => by cases h⟩

theorem decodeNames_roundtrip : ∀ (m acc : SigMap),
    WF m → (∀ e ∈ m, ∀ a ∈ acc, a.1 ≠ e.1) →
    decodeNames decodeSigVal (m.map nameToJ) acc = some (acc ++ m)
  | [], acc, _, _ => by simp [decodeNames]
  | (n, i) :: rest, acc, hw, hd => by
    have hfresh : ∀ a ∈ acc, a.1 ≠ n := fun a ha => hd (n, i) List.mem_cons_self a ha
    have hi : InnerOk i := hw.2 (n, i) List.mem_cons_self
    simp only [List.map_cons, nameToJ, decodeNames, decodeInner_roundtrip i hi, mapSet_of_fresh acc n i hfresh]
    rw [decodeNames_roundtrip rest (acc ++ [(n, i)]) ⟨List.Pairwise.tail hw.1, fun e he => hw.2 e (List.mem_cons_of_mem _ he)⟩]
    · simp
    · intro e he a ha
      rcases List.mem_append.mp ha with ha | ha
      · exact hd e (List.mem_cons_of_mem _ he) a ha
      · simp only [List.mem_singleton] at ha
        subst ha
        exact List.rel_of_pairwise_cons hw.1 he

/-- **What VerifyJSON reads back is the map SignJSON marshalled.** -/
theorem decode_sigMapToJVal (m : SigMap) (h : WF m) :
    decodeOuterInto decodeSigVal none (sigMapToJVal m) = some (some m) := by
  rw [sigMapToJVal_eq]
  simp only [decodeOuterInto, Option.getD_none]
  rw [decodeNames_roundtrip m [] h (fun _ _ a ha => by cases ha)]
  simp

/-! ### the decoder only builds well-formed maps -/

theorem decodeEntries_unique (dv : JVal → Option α) : ∀ (es : List (Bytes × JVal)) (acc r : List (Bytes × α)),
    UniqueKeys acc → decodeEntries dv es acc = some r → UniqueKeys r
  | [], acc, r, hu, h => by simp only [decodeEntries, Option.some.injEq] at h; subst h; exact hu
  | (k, v) :: rest, acc, r, hu, h => by
    simp only [decodeEntries] at h
    cases hv : dv v with
    | none => simp [hv] at h
    | some x =>
      simp only [hv] at h
      exact decodeEntries_unique dv rest _ r (uniqueKeys_mapSet acc k x hu) h

theorem decodeInner_ok (v : JVal) (i : Inner Bytes) (h : decodeInner decodeSigVal v = some i) : InnerOk i := by
  intro es hes
  subst hes
  cases v with
  | obj kvs =>
    simp only [decodeInner, Option.map_eq_some_iff] at h
    obtain ⟨r, hr, he⟩ := h
    cases he
    exact decodeEntries_unique _ kvs [] _ Pairwise.nil hr
  | null => simp [decodeInner] at h
  | bool b => simp [decodeInner] at h
  | num l => simp [decodeInner] at h
  | str s => simp [decodeInner] at h
  | arr xs => simp [decodeInner] at h

theorem wf_mapSet (m : SigMap) (n : Bytes) (i : Inner Bytes) (hw : WF m) (hi : InnerOk i) : WF (mapSet m n i) := by
  refine ⟨uniqueKeys_mapSet m n i hw.1, fun e he => ?_⟩
  rcases mem_mapSet he with he | he
  · exact hw.2 e he
  · subst he; exact hi

theorem decodeNames_wf : ∀ (ms : List (Bytes × JVal)) (acc r : SigMap),
    WF acc → decodeNames decodeSigVal ms acc = some r → WF r
  | [], acc, r, hw, h => by simp only [decodeNames, Option.some.injEq] at h; subst h; exact hw
  | (n, v) :: rest, acc, r, hw, h => by
    simp only [decodeNames] at h
    cases hv : decodeInner decodeSigVal v with
    | none => simp [hv] at h
    | some i =>
      simp only [hv] at h
      exact decodeNames_wf rest _ r (wf_mapSet acc n i hw (decodeInner_ok v i hv)) h

theorem decodeOuterInto_wf (base : Option SigMap) (v : JVal) (m : SigMap)
    (hb : ∀ b, base = some b → WF b) (h : decodeOuterInto decodeSigVal base v = some (some m)) : WF m := by
  cases v with
  | obj ms =>
    simp only [decodeOuterInto, Option.map_eq_some_iff] at h
    obtain ⟨r, hr, he⟩ := h
    cases he
    refine decodeNames_wf ms _ _ ?_ hr
    cases base with
    | none => exact wf_nil
    | some b => exact hb b rfl
  | null => simp [decodeOuterInto] at h
  | bool b => simp [decodeOuterInto] at h
  | num l => simp [decodeOuterInto] at h
  | str s => simp [decodeOuterInto] at h
  | arr xs => simp [decodeOuterInto] at h

theorem readPreserve_wf (o : List (Bytes × JVal)) (p : Preserve) (h : readPreserve o = some p) :
    ∀ m, p.sigs = some m → WF m := by
  unfold readPreserve at h
  simp only [Option.map_eq_some_iff] at h
  obtain ⟨s, hs, hp⟩ := h
  subst hp
  intro m hm
  simp only at hm
  subst hm
  cases hg : getLast o kSignatures with
  | none =>
    simp only [hg, Option.some.injEq] at hs
    cases hs
    exact wf_nil
  | some v =>
    simp only [hg] at hs
    exact decodeOuterInto_wf (some []) v m (fun b hb => by cases hb; exact wf_nil) hs

end V.Sign
