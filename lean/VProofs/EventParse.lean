/-
  VProofs.EventParse — what the event constructors of VModel.EventParse return, stage by stage.
  Core Lean only.
-/
import VModel.EventParse
import VProofs.RedactExact
namespace V.EventProofs
open V V.Json V.GoJson V.Redact V.EventParse V.RedactProofs

/-- members of the value an event text denotes (`[]` for `null`) -/
def objOf : JVal → EventParse.Obj
  | .obj kvs => kvs
  | _ => []

/-- everything the accessors report, except the stored event ID, is what the struct decoding of
    format `sfmt` reads from `e.obj` -/
def FieldsFrom (sfmt : Fmt) (e : PDU) : Prop :=
  e.f = { (decodeFields sfmt e.obj).f with eventIDRaw := e.f.eventIDRaw }

/-- everything the accessors report, except the stored event ID, is decoded from `e.obj` -/
def FieldsFromJSON (e : PDU) : Prop := ∃ sfmt, FieldsFrom sfmt e

theorem decodeFields_nil (fmt : Fmt) : (decodeFields fmt []).f = {} := by
  cases fmt <;> rfl

theorem checkRoom_default (fmt : Fmt) : ∃ x, checkRoom fmt {} = .error x := by
  cases fmt
  · exact ⟨errOther, rfl⟩
  · exact ⟨errOther, rfl⟩
  · exact ⟨errOther, rfl⟩

/-- A constructor only succeeds on a JSON object (the text `null` leaves the zero struct, whose
    room ID is refused); the event holds the given text, the object's members and the fields decoded
    from them. -/
theorem construct_ok {fmt : Fmt} {ver : Bytes} {red : Bool} {text : Bytes} {j : JVal} {e : PDU}
    (h : construct fmt ver red text j = .ok e) :
    ∃ kvs, j = .obj kvs ∧ e.ver = ver ∧ e.fmt = fmt ∧ e.redacted = red ∧ e.json = text ∧ e.obj = kvs ∧
      e.f = (decodeFields fmt kvs).f := by
  unfold construct at h
  split at h
  · rename_i kvs
    simp only at h
    split at h
    · cases h
    · split at h
      · cases h
      · split at h
        · cases h
        · cases h
          exact ⟨kvs, rfl, rfl, rfl, rfl, rfl, rfl, rfl⟩
  · obtain ⟨x, hx⟩ := checkRoom_default fmt
    rw [hx] at h
    cases h
  · cases h

/-- an event that differs from `e` at most in the stored event ID -/
def SameButID (e e' : PDU) : Prop := e' = { e with f := { e.f with eventIDRaw := e'.f.eventIDRaw } }

theorem populate_ok {H : Bytes → Bytes} {row : VGen.VersionRow} {e e' : PDU} (h : populateEventID H row e = .ok e') :
    SameButID e e' ∧ (e.fmt ≠ .v1 → e.f.eventIDRaw = [] → referenceID H row e.ver (.obj e.obj) = .ok e'.f.eventIDRaw) := by
  unfold populateEventID at h
  split at h
  · rename_i hv1
    cases h
    exact ⟨rfl, fun hne => absurd (by simpa using hv1) hne⟩
  · split at h
    · rename_i hne
      cases h
      refine ⟨rfl, fun _ he => ?_⟩
      rw [he] at hne; simp at hne
    · split at h
      · cases h
      · cases h
      · rename_i id hid
        cases h
        exact ⟨rfl, fun _ _ => hid⟩

theorem sameButID_fieldsFrom {sfmt : Fmt} {e e' : PDU} (h : SameButID e e') (hs : FieldsFrom sfmt e) : FieldsFrom sfmt e' := by
  unfold FieldsFrom at hs ⊢
  unfold SameButID at h
  have hobj : e'.obj = e.obj := by rw [h]
  rw [hobj]
  have hf' : e'.f = { e.f with eventIDRaw := e'.f.eventIDRaw } := by
    conv => lhs; rw [h]
  rw [hf', hs]

theorem sameButID_fields {e e' : PDU} (h : SameButID e e') (hf : FieldsFromJSON e) : FieldsFromJSON e' := by
  obtain ⟨sfmt, hs⟩ := hf
  exact ⟨sfmt, sameButID_fieldsFrom h hs⟩

theorem idAndChecks_ok {H : Bytes → Bytes} {row : VGen.VersionRow} {e e' : PDU} (h : idAndChecks H row e = .ok e') :
    SameButID e e' ∧ (e.fmt ≠ .v1 → e.f.eventIDRaw = [] → referenceID H row e.ver (.obj e.obj) = .ok e'.f.eventIDRaw) ∧
    checkFields e' = .ok () := by
  unfold idAndChecks at h
  split at h
  · cases h
  · rename_i e1 hp
    split at h
    · cases h
    · rename_i hc
      cases h
      obtain ⟨h1, h2⟩ := populate_ok hp
      exact ⟨h1, h2, hc⟩

theorem resetID_same (fmt : Fmt) (e0 : PDU) : SameButID e0 (resetID fmt e0) := by
  unfold resetID SameButID
  split <;> rfl

theorem resetID_empty {fmt : Fmt} (hv : fmt ≠ .v1) (e0 : PDU) : (resetID fmt e0).f.eventIDRaw = [] := by
  unfold resetID
  rw [if_neg (by simpa using hv)]

theorem sameButID_trans {a b c : PDU} (h1 : SameButID a b) (h2 : SameButID b c) : SameButID a c := by
  unfold SameButID at *
  rw [h2, h1]

/-- The trusted constructors: the struct decoding and the room-ID check of `construct`; the V2 / V3 constructors then
    drop whatever the decoding put into the stored ID and compute it (the reference hash of the event). -/
theorem trustedCore_ok {H : Bytes → Bytes} {row : VGen.VersionRow} {ver : Bytes} {red : Bool} {text : Bytes} {j : JVal} {e : PDU}
    (h : trustedCore H row ver red text j = .ok e) :
    ∃ fmt e0, fmtOfName row.newEventFromTrustedJSONFunc = some fmt ∧ construct fmt ver red text j = .ok e0 ∧
      SameButID e0 e ∧ (e0.fmt ≠ .v1 → referenceID H row e0.ver (.obj e0.obj) = .ok e.f.eventIDRaw) := by
  unfold trustedCore at h
  split at h
  · cases h
  · rename_i fmt hf
    split at h
    · cases h
    · rename_i e0 hc
      obtain ⟨h1, h2⟩ := populate_ok h
      obtain ⟨_, _, _, hfmt0, _⟩ := construct_ok hc
      refine ⟨fmt, e0, hf, hc, sameButID_trans (resetID_same fmt e0) h1, ?_⟩
      intro hne
      have hne' : fmt ≠ .v1 := by rw [← hfmt0]; exact hne
      have hr := resetID_same fmt e0
      have hfm : (resetID fmt e0).fmt = e0.fmt := by rw [hr]
      have hvr : (resetID fmt e0).ver = e0.ver := by rw [hr]
      have hob : (resetID fmt e0).obj = e0.obj := by rw [hr]
      have := h2 (by rw [hfm]; exact hne) (resetID_empty hne' e0)
      rw [hvr, hob] at this
      exact this

theorem lastSome_none_iff (p : Bytes × JVal → Bool) (kvs : EventParse.Obj) : lastSome p kvs = none ↔ ∀ kv ∈ kvs, p kv = false := by
  constructor
  · intro h
    induction kvs with
    | nil => intro kv hkv; cases hkv
    | cons x rest ih =>
      rw [lastSome_cons] at h
      cases hr : lastSome p rest with
      | some v => rw [hr] at h; cases h
      | none =>
        rw [hr] at h
        simp only at h
        intro kv hkv
        rcases List.mem_cons.mp hkv with rfl | hm
        · cases hp : p kv
          · rfl
          · rw [hp] at h; cases h
        · exact ih hr kv hm
  · exact lastSome_none_of_forall p kvs

theorem deleteFirst_absent (k : Bytes) (kvs : EventParse.Obj) (h : lookupExact kvs k = none) : deleteFirst k kvs = kvs := by
  rw [lookupExact_eq, lastSome_none_iff] at h
  induction kvs with
  | nil => rfl
  | cons kv rest ih =>
    have hk := h kv List.mem_cons_self
    simp only [deleteFirst, hk, Bool.false_eq_true, if_false]
    rw [ih (fun x hx => h x (List.mem_cons_of_mem _ hx))]

end V.EventProofs

namespace V.EventProofs
open V V.Json V.GoJson V.Redact V.EventParse V.RedactProofs

/-! ## the redacted JSON without `event_id` decodes to an empty stored ID -/

theorem deleteFirst_removes (k : Bytes) (l : EventParse.Obj) (h : (keysOf l).Nodup) : ∀ kv ∈ deleteFirst k l, kv.1 ≠ k := by
  induction l with
  | nil => intro kv hkv; cases hkv
  | cons x rest ih =>
    have hnd := List.nodup_cons.mp (show (x.1 :: keysOf rest).Nodup from h)
    intro kv hkv
    unfold deleteFirst at hkv
    by_cases hx : x.1 = k
    · have : (x.1 == k) = true := by simp [hx]
      rw [if_pos this] at hkv
      intro hk
      apply hnd.1
      rw [hx, ← hk]
      exact List.mem_map.mpr ⟨kv, hkv, rfl⟩
    · have : (x.1 == k) = false := by simp [hx]
      rw [if_neg (by simp [this])] at hkv
      rcases List.mem_cons.mp hkv with rfl | hm
      · exact hx
      · exact ih hnd.2 kv hm

theorem deleteFirst_sub (k : Bytes) (l : EventParse.Obj) : ∀ kv ∈ deleteFirst k l, kv ∈ l := by
  induction l with
  | nil => intro kv hkv; cases hkv
  | cons x rest ih =>
    intro kv hkv
    unfold deleteFirst at hkv
    split at hkv
    · exact List.mem_cons_of_mem _ hkv
    · rcases List.mem_cons.mp hkv with rfl | hm
      · exact List.mem_cons_self
      · exact List.mem_cons_of_mem _ (ih kv hm)

/-- After dropping `event_id` from a redaction's output, no member is read into the struct's
    `event_id` field (there is no case variant of it left). -/
theorem no_event_id_member {a : Algo} (hT : tablesOk a = true)
    (hev : a.fields.any (fun f => f.name == b!"event_id") = true)
    {kvs : RedactProofs.Obj} {rk : RedactProofs.Obj} (h : redactObj a kvs = .ok (.obj rk)) :
    members (deleteFirst b!"event_id" rk) b!"event_id" = [] := by
  obtain ⟨tf, cf, F, hv⟩ := redactObj_ok h
  have hr : rk = outputOf a kvs tf cf := by injection hv
  obtain ⟨hdist, _, _, _⟩ := tablesOk_parts hT
  obtain ⟨g, hg, hgn⟩ := List.any_eq_true.mp hev
  have hgn' : g.name = b!"event_id" := by simpa using hgn
  have hnd : (keysOf rk).Nodup := by rw [hr]; exact output_keys_nodup hdist kvs tf cf
  unfold members
  rw [filter_eq_nil_of]
  · rfl
  · intro kv hkv
    have hmem : kv ∈ rk := deleteFirst_sub _ _ kv hkv
    have hne : kv.1 ≠ b!"event_id" := deleteFirst_removes _ _ hnd kv hkv
    cases hm : matchesField kv.1 b!"event_id"
    · rfl
    · exfalso
      rw [hr] at hmem
      obtain ⟨f, hf, hfn⟩ := output_keys hmem
      have hfold := matchesField_fold hm
      rw [hfn, ← hgn'] at hfold
      have := foldDistinct_inj hdist hf hg hfold
      apply hne
      rw [hfn, this, hgn']

end V.EventProofs
