/-
  Version 1 state resolution, part 7: the public entry point `resolveConflictsNew` for room versions using state
  resolution algorithm 1: the resolved conflicted events followed by the unconflicted events.  Core only.
-/
import VProofs.StateResV1f
import VProofs.StateResSplit
namespace V.StateRes
open V Json GoJson Auth List

/-- the resolved state for algorithm 1, as events -/
def v1Resolved (sha : ID → Bytes) (sets : List (List Event)) (auth : List Event) : List Event :=
  resolveV1 sha (splitConflictedUnconflicted true sets).1 auth ++ (splitConflictedUnconflicted true sets).2

theorem resolveConflictsNew_v1 (sha : ID → Bytes) (ver : Bytes) (sets : List (List Event)) (auth : List Event)
    (rejected : List ID) {row : VGen.VersionRow} (hv : versionRow? ver = some row) (ha : row.stateResAlgorithm = 1) :
    resolveConflictsNew sha ver sets auth rejected = some ((v1Resolved sha sets auth).map (·.eventID)) := by
  unfold resolveConflictsNew
  rw [hv]
  simp only [ha, beq_self_eq_true, if_true]
  rfl
-- `hv`, `ha`: the room version exists and uses state resolution algorithm 1 (room version "1").

/-- Every event of the result occurs in one of the state sets and is a state event. -/
theorem v1Resolved_subset_inputs {sha : ID → Bytes} {sets : List (List Event)} {auth : List Event} {e : Event}
    (h : e ∈ v1Resolved sha sets auth) : e ∈ sets.flatten ∧ e.stateKey.isSome := by
  unfold v1Resolved at h
  rcases List.mem_append.mp h with h | h
  · exact split_sub true sets (Or.inl (v1_result_subset_inputs h).1)
  · exact split_sub true sets (Or.inr h)

/-- The result holds at most one event per (type, state_key). -/
theorem v1Resolved_unique_keys (sha : ID → Bytes) (sets : List (List Event)) (auth : List Event) :
    ((v1Resolved sha sets auth).map keyOf).Nodup := by
  unfold v1Resolved
  rw [List.map_append, List.nodup_append]
  refine ⟨v1_result_unique_keys sha _ auth, split_unconflicted_keys true sets, ?_⟩
  intro K hK K' hK' heq
  subst heq
  obtain ⟨a, ha, rfl⟩ := List.mem_map.mp hK
  obtain ⟨b, hb, hab⟩ := List.mem_map.mp hK'
  have ha' := (v1_result_subset_inputs ha).1
  obtain ⟨_, hc⟩ := (mem_split_conflicted true sets a).mp ha'
  obtain ⟨_, hl, _⟩ := (mem_split_unconflicted true sets b).mp hb
  rw [hab] at hl
  rcases hc with hc | ⟨hc, _⟩
  · omega
  · cases hc

/-- Exactly the (type, state_key) pairs of the state events of the state sets are resolved. -/
theorem v1Resolved_keys_complete (sha : ID → Bytes) {sets : List (List Event)} (auth : List Event)
    (hid : IdsIn sets.flatten) (K : Bytes × Bytes) :
    K ∈ (v1Resolved sha sets auth).map keyOf ↔ ∃ e ∈ sets.flatten, e.stateKey.isSome ∧ keyOf e = K := by
  constructor
  · intro h
    obtain ⟨e, he, rfl⟩ := List.mem_map.mp h
    obtain ⟨h1, h2⟩ := v1Resolved_subset_inputs he
    exact ⟨e, h1, h2, rfl⟩
  · rintro ⟨e, he, hs, rfl⟩
    have hd : e ∈ dse sets := by
      rw [dse_eq, List.mem_filter]; exact ⟨mem_eventMap_of_mem hid he, hs⟩
    unfold v1Resolved
    rw [List.map_append, List.mem_append]
    rcases split_cover true sets hd with h | h
    · exact Or.inl ((v1_result_keys_complete sha _ auth _).mpr ⟨e, h, hs, rfl⟩)
    · exact Or.inr (List.mem_map_of_mem h)
-- `hid`: the split keeps the first event per event ID; two different events with one ID could have different keys.

/-- **Order independence of `ResolveConflictsNew` for algorithm 1**: rearranging the state sets, the events inside each
    state set, and the auth events (also repeating them) permutes the result. -/
theorem v1Resolved_perm_invariant (sha : ID → Bytes) {U : Event → Prop} (hU : EvId U) {sets sets' : List (List Event)}
    {auth auth' : List Event} (hs : ∀ s ∈ sets, ∀ x ∈ s, U x) (h : SetsEquiv sets sets') (ha : SameSet auth auth')
    (P1 : ∀ a ∈ auth, ∀ b ∈ auth, a.stateKey.isSome → keyOf a = keyOf b → b.stateKey.isSome → a = b)
    (P3 : ∀ a ∈ (splitConflictedUnconflicted true sets).1, ∀ b ∈ (splitConflictedUnconflicted true sets).1,
      a.stateKey.isSome → b.stateKey.isSome → keyOf a = keyOf b → a.depth = b.depth → sha a.eventID = sha b.eventID → a = b) :
    v1Resolved sha sets auth ~ v1Resolved sha sets' auth' := by
  obtain ⟨h1, h2⟩ := split_perm_invariant_perm hU true hs h
  exact (v1_perm_invariant sha h1 ha P1 P3).append h2
-- `hU`/`hs`: the split identifies events by ID; P1, P3: see `v1_perm_invariant`.

theorem resolveConflictsNew_v1_perm_invariant (sha : ID → Bytes) (ver : Bytes) {row : VGen.VersionRow}
    (hv : versionRow? ver = some row) (hr : row.stateResAlgorithm = 1) {U : Event → Prop} (hU : EvId U)
    {sets sets' : List (List Event)} {auth auth' : List Event} (rejected rejected' : List ID)
    (hs : ∀ s ∈ sets, ∀ x ∈ s, U x) (h : SetsEquiv sets sets') (ha : SameSet auth auth')
    (P1 : ∀ a ∈ auth, ∀ b ∈ auth, a.stateKey.isSome → keyOf a = keyOf b → b.stateKey.isSome → a = b)
    (P3 : ∀ a ∈ (splitConflictedUnconflicted true sets).1, ∀ b ∈ (splitConflictedUnconflicted true sets).1,
      a.stateKey.isSome → b.stateKey.isSome → keyOf a = keyOf b → a.depth = b.depth → sha a.eventID = sha b.eventID → a = b) :
    ∃ l l', resolveConflictsNew sha ver sets auth rejected = some l ∧
      resolveConflictsNew sha ver sets' auth' rejected' = some l' ∧ l ~ l' :=
  ⟨_, _, resolveConflictsNew_v1 sha ver sets auth rejected hv hr, resolveConflictsNew_v1 sha ver sets' auth' rejected' hv hr,
    (v1Resolved_perm_invariant sha hU hs h ha P1 P3).map _⟩

/-- no event occurs twice in the result -/
theorem v1Resolved_nodup (sha : ID → Bytes) (sets : List (List Event)) (auth : List Event) :
    (v1Resolved sha sets auth).Nodup := by
  have h := v1Resolved_unique_keys sha sets auth
  rw [List.nodup_iff_pairwise_ne, List.pairwise_map] at h
  exact h.imp (fun hne heq => hne (congrArg keyOf heq))

end V.StateRes
