/- L1: on a text the parser accepts, `CompactJSON` produces the compact rendering of the parsed
   value in the text's own member order — `encode p.toJVal` — provided no string has a lone
   surrogate escape.  Core only. -/
import VProofs.JsonStr
import VProofs.JsonNumCompact
namespace V.Json

/-! ### whitespace and punctuation -/

theorem isWs_le {c : UInt8} (h : isWs c = true) : c ≤ 0x20 ∧ (c == 0x65 || c == 0x45) = false := by
  simp only [isWs, Bool.or_eq_true, beq_iff_eq] at h
  rcases h with ((rfl | rfl) | rfl) | rfl <;> exact ⟨by decide, by decide⟩

theorem compact_skipWs : ∀ (s : Bytes) (prev : Option UInt8) (acc : Bytes),
    ∃ prev', (prevOk prev → prevOk prev') ∧ compactAll prev s acc = compactAll prev' (skipWs s) acc
  | [], prev, acc => ⟨prev, id, rfl⟩
  | c :: s, prev, acc => by
    unfold skipWs
    split
    · rename_i hc
      obtain ⟨h1, h2⟩ := isWs_le hc
      obtain ⟨p', hp', e⟩ := compact_skipWs s (some c) acc
      exact ⟨p', fun _ => hp' (prevOk_some h2), by rw [compactAll_ws _ _ _ _ h1, e]⟩
    · exact ⟨prev, id, rfl⟩

/-- Bytes that are copied outside strings and are not exponent markers. -/
def punct (c : UInt8) : Bool :=
  c == 0x7B || c == 0x7D || c == 0x5B || c == 0x5D || c == 0x2C || c == 0x3A

theorem punct_facts {c : UInt8} (h : punct c = true) :
    ¬ c ≤ 0x20 ∧ (c == 0x2D) = false ∧ (c == 0x22) = false ∧ (c == 0x65 || c == 0x45) = false := by
  simp only [punct, Bool.or_eq_true, beq_iff_eq] at h
  rcases h with ((((rfl | rfl) | rfl) | rfl) | rfl) | rfl <;> exact ⟨by decide, by decide, by decide, by decide⟩

theorem compact_punct {c : UInt8} (h : punct c = true) (prev : Option UInt8) (r acc : Bytes) :
    compactAll prev (c :: r) acc = compactAll (some c) r (acc ++ [c]) ∧ prevOk (some c) := by
  obtain ⟨h1, h2, h3, h4⟩ := punct_facts h
  exact ⟨compactAll_copy prev c r acc h1 h2 h3, prevOk_some h4⟩

/-- skip whitespace, then copy one punctuation byte -/
theorem compact_ws_punct {s r : Bytes} {c : UInt8} (hs : skipWs s = c :: r) (h : punct c = true)
    (prev : Option UInt8) (acc : Bytes) :
    compactAll prev s acc = compactAll (some c) r (acc ++ [c]) ∧ prevOk (some c) := by
  obtain ⟨p', _, e⟩ := compact_skipWs s prev acc
  obtain ⟨e2, ok⟩ := compact_punct h p' r acc
  exact ⟨by rw [e, hs, e2], ok⟩

/-! ### the statement -/

/-- Compacting `s` from a position not preceded by an exponent marker consumes it down to `rest`
    and appends `out`. -/
def CVal (s rest out : Bytes) : Prop :=
  ∀ (prev : Option UInt8) (acc : Bytes), prevOk prev →
    ∃ prev', compactAll prev s acc = compactAll prev' rest (acc ++ out)

theorem joinWith_cons_ne (sep : UInt8) (x : Bytes) {l : List Bytes} (h : l ≠ []) :
    joinWith sep (x :: l) = x ++ sep :: joinWith sep l := by
  cases l with
  | nil => exact absurd rfl h
  | cons y ys => rfl

theorem encodeList_toJVals_ne {xs : List PVal} (h : xs ≠ []) : encodeList (toJVals xs) ≠ [] := by
  cases xs with
  | nil => exact absurd rfl h
  | cons x xs => simp [toJVals, encodeList]

theorem encodeMembers_toJMembers_ne {kvs : List (Bytes × Bytes × PVal)} (h : kvs ≠ []) :
    encodeMembers (toJMembers kvs) ≠ [] := by
  cases kvs with
  | nil => exact absurd rfl h
  | cons x xs => obtain ⟨r, d, v⟩ := x; simp [toJMembers, encodeMembers]

/-- the three literals -/
theorem CRun_lit (tok : Bytes) (h : tok = [0x74, 0x72, 0x75, 0x65] ∨ tok = [0x66, 0x61, 0x6C, 0x73, 0x65] ∨
    tok = [0x6E, 0x75, 0x6C, 0x6C]) : CRun tok tok := by
  have k : ∀ c : UInt8, (¬ c ≤ 0x20 ∧ (c == 0x2D) = false ∧ (c == 0x22) = false) → CRun [c] [c] :=
    fun c h => CRun_copy c h.1 h.2.1 h.2.2
  rcases h with rfl | rfl | rfl
  · exact CRun_cons (k _ (by decide)) (CRun_cons (k _ (by decide)) (CRun_cons (k _ (by decide)) (k _ (by decide))))
  · exact CRun_cons (k _ (by decide)) (CRun_cons (k _ (by decide)) (CRun_cons (k _ (by decide))
      (CRun_cons (k _ (by decide)) (k _ (by decide)))))
  · exact CRun_cons (k _ (by decide)) (CRun_cons (k _ (by decide)) (CRun_cons (k _ (by decide)) (k _ (by decide))))

/-! ### the induction on the parser's fuel -/

def PV (f : Nat) : Prop := ∀ (s : Bytes) (p : PVal) (rest : Bytes), parseValue f s = some (p, rest) →
  p.surrogatesOk = true → CVal s rest (encode p.toJVal)

def PE (f : Nat) : Prop := ∀ (s : Bytes) (accl : List PVal) (p : PVal) (rest : Bytes),
  parseElems f s accl = some (p, rest) →
  ∃ xs, xs ≠ [] ∧ p = .arr (accl ++ xs) ∧
    (surrogatesOkList xs = true → CVal s rest (joinWith 0x2C (encodeList (toJVals xs)) ++ [0x5D]))

def PM (f : Nat) : Prop := ∀ (s : Bytes) (accl : List (Bytes × Bytes × PVal)) (p : PVal) (rest : Bytes),
  parseMembers f s accl = some (p, rest) →
  ∃ kvs, kvs ≠ [] ∧ p = .obj (accl ++ kvs) ∧
    (surrogatesOkMembers kvs = true → CVal s rest (joinWith 0x2C (encodeMembers (toJMembers kvs)) ++ [0x7D]))

theorem pe_step (f : Nat) (hV : PV f) (hE : PE f) : PE (f + 1) := by
  intro s accl p rest h
  unfold parseElems at h
  split at h
  · cases h
  · rename_i v rest1 hv
    split at h
    · cases h
    · rename_i d rest' hws
      split at h
      · rename_i hd
        have hd' : d = 0x2C := eq_of_beq hd
        subst hd'
        obtain ⟨xs', hne, hp, hc⟩ := hE _ _ _ _ h
        refine ⟨v :: xs', by simp, by simp [hp], ?_⟩
        intro hs prev acc hprev
        simp only [surrogatesOkList, Bool.and_eq_true] at hs
        obtain ⟨p1, e1⟩ := hV _ _ _ hv hs.1 prev acc hprev
        obtain ⟨e2, ok2⟩ := compact_ws_punct hws (by decide) p1 (acc ++ encode v.toJVal)
        obtain ⟨p3, e3⟩ := hc hs.2 _ (acc ++ encode v.toJVal ++ [0x2C]) ok2
        refine ⟨p3, ?_⟩
        rw [e1, e2, e3]
        congr 1
        simp only [toJVals, encodeList, joinWith_cons_ne _ _ (encodeList_toJVals_ne hne)]
        simp
      · split at h
        · rename_i hd
          have hd' : d = 0x5D := eq_of_beq hd
          subst hd'
          simp only [Option.some.injEq, Prod.mk.injEq] at h
          obtain ⟨rfl, rfl⟩ := h
          refine ⟨[v], by simp, rfl, ?_⟩
          intro hs prev acc hprev
          simp only [surrogatesOkList, Bool.and_eq_true] at hs
          obtain ⟨p1, e1⟩ := hV _ _ _ hv hs.1 prev acc hprev
          obtain ⟨e2, _⟩ := compact_ws_punct hws (by decide) p1 (acc ++ encode v.toJVal)
          refine ⟨some 0x5D, ?_⟩
          rw [e1, e2]
          congr 1
          simp [toJVals, encodeList, joinWith]
        · cases h

theorem pm_step (f : Nat) (hV : PV f) (hM : PM f) : PM (f + 1) := by
  intro s accl p rest h
  unfold parseMembers at h
  split at h
  · cases h
  · rename_i q rest0 hws0
    split at h
    · rename_i hq
      have hq' : q = 0x22 := eq_of_beq hq
      subst hq'
      split at h
      · cases h
      · rename_i raw dec rest1 hstr
        split at h
        · cases h
        · rename_i col rest2 hws1
          split at h
          · rename_i hcol
            have hcol' : col = 0x3A := eq_of_beq hcol
            subst hcol'
            split at h
            · cases h
            · rename_i v rest3 hv
              split at h
              · cases h
              · rename_i d rest4 hws3
                -- common prefix: the member `"key":value`
                have member : noLoneSurr raw = true → v.surrogatesOk = true →
                    ∀ (prev : Option UInt8) (acc : Bytes), ∃ p3, compactAll prev s acc =
                      compactAll p3 rest3 (acc ++ (0x22 :: encodeStringBody dec ++ [0x22, 0x3A] ++ encode v.toJVal)) := by
                  intro hraw hvs prev acc
                  obtain ⟨p0, _, e0⟩ := compact_skipWs s prev acc
                  obtain ⟨es, _⟩ := parseString_compact hstr hraw (acc ++ [0x22])
                  have e1 := compactAll_string p0 rest0 acc _ _ es
                  obtain ⟨e2, ok2⟩ := compact_ws_punct hws1 (by decide) (some 0x22)
                    (acc ++ [0x22] ++ encodeStringBody dec ++ [0x22])
                  obtain ⟨p3, e3⟩ := hV _ _ _ hv hvs _ (acc ++ [0x22] ++ encodeStringBody dec ++ [0x22] ++ [0x3A]) ok2
                  refine ⟨p3, ?_⟩
                  rw [e0, hws0, e1, e2, e3]
                  congr 1
                  simp
                split at h
                · rename_i hd
                  have hd' : d = 0x2C := eq_of_beq hd
                  subst hd'
                  obtain ⟨kvs', hne, hp, hc⟩ := hM _ _ _ _ h
                  refine ⟨(raw, dec, v) :: kvs', by simp, by simp [hp], ?_⟩
                  intro hs prev acc _
                  simp only [surrogatesOkMembers, Bool.and_eq_true] at hs
                  obtain ⟨p3, e3⟩ := member hs.1.1 hs.1.2 prev acc
                  obtain ⟨e4, ok4⟩ := compact_ws_punct hws3 (by decide) p3
                    (acc ++ (0x22 :: encodeStringBody dec ++ [0x22, 0x3A] ++ encode v.toJVal))
                  obtain ⟨p5, e5⟩ := hc hs.2 _
                    (acc ++ (0x22 :: encodeStringBody dec ++ [0x22, 0x3A] ++ encode v.toJVal) ++ [0x2C]) ok4
                  refine ⟨p5, ?_⟩
                  rw [e3, e4, e5]
                  congr 1
                  simp only [toJMembers, encodeMembers, joinWith_cons_ne _ _ (encodeMembers_toJMembers_ne hne)]
                  simp
                · split at h
                  · rename_i hd
                    have hd' : d = 0x7D := eq_of_beq hd
                    subst hd'
                    simp only [Option.some.injEq, Prod.mk.injEq] at h
                    obtain ⟨rfl, rfl⟩ := h
                    refine ⟨[(raw, dec, v)], by simp, rfl, ?_⟩
                    intro hs prev acc _
                    simp only [surrogatesOkMembers, Bool.and_eq_true] at hs
                    obtain ⟨p3, e3⟩ := member hs.1.1 hs.1.2 prev acc
                    obtain ⟨e4, _⟩ := compact_ws_punct hws3 (by decide) p3
                      (acc ++ (0x22 :: encodeStringBody dec ++ [0x22, 0x3A] ++ encode v.toJVal))
                    refine ⟨some 0x7D, ?_⟩
                    rw [e3, e4]
                    congr 1
                    simp [toJMembers, encodeMembers, joinWith]
                  · cases h
          · cases h
    · cases h

theorem pv_step (f : Nat) (hE : PE f) (hM : PM f) : PV (f + 1) := by
  intro s p rest h hs prev acc hprev
  unfold parseValue at h
  obtain ⟨p0, ok0, e0⟩ := compact_skipWs s prev acc
  have ok0 := ok0 hprev
  split at h
  · cases h
  · rename_i c rest0 hws0
    rw [e0, hws0]
    split at h
    · -- object
      rename_i hc
      have hc' : c = 0x7B := eq_of_beq hc
      subst hc'
      obtain ⟨e1, _⟩ := compact_punct (c := 0x7B) (by decide) p0 rest0 acc
      obtain ⟨p2, ok2, e2⟩ := compact_skipWs rest0 (some 0x7B) (acc ++ [0x7B])
      have ok2 := ok2 (prevOk_some (by decide))
      split at h
      · cases h
      · rename_i c2 rest' hws1
        split at h
        · rename_i hc2
          have hc2' : c2 = 0x7D := eq_of_beq hc2
          subst hc2'
          simp only [Option.some.injEq, Prod.mk.injEq] at h
          obtain ⟨rfl, rfl⟩ := h
          obtain ⟨e3, _⟩ := compact_punct (c := 0x7D) (by decide) p2 rest' (acc ++ [0x7B])
          refine ⟨some 0x7D, ?_⟩
          rw [e1, e2, hws1, e3]
          congr 1
          simp [PVal.toJVal, toJMembers, encode, encodeMembers, joinWith]
        · obtain ⟨kvs, _, hp, hc⟩ := hM _ _ _ _ h
          subst hp
          simp only [List.nil_append, PVal.surrogatesOk] at hs
          obtain ⟨p3, e3⟩ := hc hs p2 (acc ++ [0x7B]) ok2
          refine ⟨p3, ?_⟩
          rw [e1, e2, hws1, e3]
          congr 1
          simp [PVal.toJVal, encode]
    · split at h
      · -- array
        rename_i hc
        have hc' : c = 0x5B := eq_of_beq hc
        subst hc'
        obtain ⟨e1, _⟩ := compact_punct (c := 0x5B) (by decide) p0 rest0 acc
        obtain ⟨p2, ok2, e2⟩ := compact_skipWs rest0 (some 0x5B) (acc ++ [0x5B])
        have ok2 := ok2 (prevOk_some (by decide))
        split at h
        · cases h
        · rename_i c2 rest' hws1
          split at h
          · rename_i hc2
            have hc2' : c2 = 0x5D := eq_of_beq hc2
            subst hc2'
            simp only [Option.some.injEq, Prod.mk.injEq] at h
            obtain ⟨rfl, rfl⟩ := h
            obtain ⟨e3, _⟩ := compact_punct (c := 0x5D) (by decide) p2 rest' (acc ++ [0x5B])
            refine ⟨some 0x5D, ?_⟩
            rw [e1, e2, hws1, e3]
            congr 1
            simp [PVal.toJVal, toJVals, encode, encodeList, joinWith]
          · obtain ⟨xs, _, hp, hc⟩ := hE _ _ _ _ h
            subst hp
            simp only [List.nil_append, PVal.surrogatesOk] at hs
            obtain ⟨p3, e3⟩ := hc hs p2 (acc ++ [0x5B]) ok2
            refine ⟨p3, ?_⟩
            rw [e1, e2, hws1, e3]
            congr 1
            simp [PVal.toJVal, encode]
      · split at h
        · -- string
          rename_i hc
          have hc' : c = 0x22 := eq_of_beq hc
          subst hc'
          split at h
          · rename_i raw dec rest' hstr
            simp only [Option.some.injEq, Prod.mk.injEq] at h
            obtain ⟨rfl, rfl⟩ := h
            simp only [PVal.surrogatesOk] at hs
            obtain ⟨es, _⟩ := parseString_compact hstr hs (acc ++ [0x22])
            refine ⟨some 0x22, ?_⟩
            rw [compactAll_string p0 rest0 acc _ _ es]
            congr 1
            simp [PVal.toJVal, encode]
          · cases h
        · split at h
          · -- true
            rename_i hc
            have hc' : c = 0x74 := eq_of_beq hc
            subst hc'
            split at h
            · rename_i r u e rest'
              split at h
              · rename_i hlit
                simp only [Bool.and_eq_true, beq_iff_eq] at hlit
                obtain ⟨⟨rfl, rfl⟩, rfl⟩ := hlit
                simp only [Option.some.injEq, Prod.mk.injEq] at h
                obtain ⟨rfl, rfl⟩ := h
                obtain ⟨p1, e1⟩ := CRun_lit [0x74, 0x72, 0x75, 0x65] (Or.inl rfl) p0 rest' acc
                exact ⟨p1, e1⟩
              · cases h
            · cases h
          · split at h
            · -- false
              rename_i hc
              have hc' : c = 0x66 := eq_of_beq hc
              subst hc'
              split at h
              · rename_i a l s' e rest'
                split at h
                · rename_i hlit
                  simp only [Bool.and_eq_true, beq_iff_eq] at hlit
                  obtain ⟨⟨⟨rfl, rfl⟩, rfl⟩, rfl⟩ := hlit
                  simp only [Option.some.injEq, Prod.mk.injEq] at h
                  obtain ⟨rfl, rfl⟩ := h
                  obtain ⟨p1, e1⟩ := CRun_lit [0x66, 0x61, 0x6C, 0x73, 0x65] (Or.inr (Or.inl rfl)) p0 rest' acc
                  exact ⟨p1, e1⟩
                · cases h
              · cases h
            · split at h
              · -- null
                rename_i hc
                have hc' : c = 0x6E := eq_of_beq hc
                subst hc'
                split at h
                · rename_i u l l' rest'
                  split at h
                  · rename_i hlit
                    simp only [Bool.and_eq_true, beq_iff_eq] at hlit
                    obtain ⟨⟨rfl, rfl⟩, rfl⟩ := hlit
                    simp only [Option.some.injEq, Prod.mk.injEq] at h
                    obtain ⟨rfl, rfl⟩ := h
                    obtain ⟨p1, e1⟩ := CRun_lit [0x6E, 0x75, 0x6C, 0x6C] (Or.inr (Or.inr rfl)) p0 rest' acc
                    exact ⟨p1, e1⟩
                  · cases h
                · cases h
              · split at h
                · -- number
                  split at h
                  · rename_i lit rest' hnum
                    simp only [Option.some.injEq, Prod.mk.injEq] at h
                    obtain ⟨rfl, rfl⟩ := h
                    exact parseNumber_compact hnum ok0 acc
                  · cases h
                · cases h

theorem compact_all : ∀ f, PV f ∧ PE f ∧ PM f
  | 0 => ⟨fun _ _ _ h => by simp [parseValue] at h, fun _ _ _ _ h => by simp [parseElems] at h,
          fun _ _ _ _ h => by simp [parseMembers] at h⟩
  | f + 1 =>
    have ih := compact_all f
    ⟨pv_step f ih.2.1 ih.2.2, pe_step f ih.1 ih.2.1, pm_step f ih.1 ih.2.2⟩

/-- **L1.** A text the parser accepts, whose strings have no lone surrogate escape, is compacted to
    the compact rendering of the parsed value in the text's own member order. -/
theorem compact_of_parse {t : Bytes} {p : PVal} (hp : parse t = some p) (hs : p.surrogatesOk = true) :
    compact t = .ok (encode p.toJVal) := by
  unfold parse at hp
  split at hp
  · rename_i v rest hv
    split at hp
    · rename_i hrest
      simp only [Option.some.injEq] at hp
      subst hp
      obtain ⟨p1, e1⟩ := (compact_all _).1 _ _ _ hv hs none [] prevOk_none
      obtain ⟨p2, _, e2⟩ := compact_skipWs rest p1 ([] ++ encode v.toJVal)
      have : skipWs rest = [] := by simpa using hrest
      rw [compact_eq_compactAll, e1, e2, this, compactAll_nil]
      simp
    · cases hp
  · cases hp

end V.Json
