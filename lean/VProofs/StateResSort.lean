/-
  The insertion sort `sortBy` of VModel.StateRes, for a comparator that is a strict total order on a key:
  permutation, sortedness, uniqueness of the result (so the result does not depend on the order the
  elements were given in, nor on the sorting algorithm the Go code uses), and the three comparators of the
  library (`powerLt`, `otherLt`, `v1Lt`) are strict total orders on their keys.  Core only.
-/
import VModel.StateRes
import VProofs.Order
namespace V.StateRes
open V Json List

/-- `lt` is a strict total order (as a Boolean comparator) -/
structure StrictTotal {κ : Type} (lt : κ → κ → Bool) : Prop where
  irrefl : ∀ a, lt a a = false
  trans : ∀ a b c, lt a b = true → lt b c = true → lt a c = true
  total : ∀ a b, lt a b = false → lt b a = false → a = b

theorem StrictTotal.asymm {κ} {lt : κ → κ → Bool} (h : StrictTotal lt) (a b : κ) (hab : lt a b = true) : lt b a = false := by
  cases hba : lt b a with
  | false => rfl
  | true => have := h.trans a b a hab hba; rw [h.irrefl] at this; cases this

/-- `a` may come before `b`: not (b < a) -/
theorem StrictTotal.le_trans {κ} {lt : κ → κ → Bool} (h : StrictTotal lt) {a b c : κ}
    (h1 : lt b a = false) (h2 : lt c b = false) : lt c a = false := by
  cases hca : lt c a with
  | false => rfl
  | true =>
    exfalso
    cases hab : lt a b with
    | true => have := h.trans _ _ _ hca hab; simp [this] at h2
    | false =>
      have e : a = b := h.total _ _ hab h1
      subst e; simp [hca] at h2

section generic
variable {α : Type}

theorem insertBy_perm (r : α → α → Bool) (x : α) : ∀ l, insertBy r x l ~ x :: l
  | [] => by simp [insertBy]
  | y :: ys => by
    unfold insertBy
    split
    · exact Perm.refl _
    · exact ((insertBy_perm r x ys).cons y).trans (Perm.swap x y ys)

theorem sortBy_perm (r : α → α → Bool) : ∀ l : List α, sortBy r l ~ l
  | [] => by simp [sortBy]
  | x :: xs => by
    unfold sortBy
    exact (insertBy_perm r x _).trans ((sortBy_perm r xs).cons x)

theorem mem_sortBy (r : α → α → Bool) {l : List α} {x : α} : x ∈ sortBy r l ↔ x ∈ l := (sortBy_perm r l).mem_iff

theorem length_sortBy (r : α → α → Bool) (l : List α) : (sortBy r l).length = l.length := (sortBy_perm r l).length_eq

variable {κ : Type} {lt : κ → κ → Bool} (k : α → κ)

/-- sorted: no element is strictly less (by key) than an earlier one -/
def SortedBy (lt : κ → κ → Bool) (k : α → κ) (l : List α) : Prop := l.Pairwise (fun a b => lt (k b) (k a) = false)

theorem insertBy_sorted (h : StrictTotal lt) (x : α) :
    ∀ l, SortedBy lt k l → SortedBy lt k (insertBy (fun a b => lt (k a) (k b)) x l)
  | [], _ => by simp [insertBy, SortedBy]
  | y :: ys, hs => by
    unfold insertBy
    split
    · rename_i hlt
      have hxy : lt (k y) (k x) = false := h.asymm _ _ hlt
      refine Pairwise.cons ?_ hs
      intro z hz
      rcases List.mem_cons.mp hz with rfl | hz
      · exact hxy
      · exact h.le_trans hxy (rel_of_pairwise_cons hs hz)
    · rename_i hnlt
      have hyx : lt (k x) (k y) = false := by simpa using hnlt
      refine Pairwise.cons ?_ (insertBy_sorted h x ys hs.tail)
      intro z hz
      have : z ∈ x :: ys := (insertBy_perm _ x ys).subset hz
      rcases List.mem_cons.mp this with rfl | hz
      · exact hyx
      · exact rel_of_pairwise_cons hs hz

theorem sortBy_sorted (h : StrictTotal lt) : ∀ l : List α, SortedBy lt k (sortBy (fun a b => lt (k a) (k b)) l)
  | [] => by simp [sortBy, SortedBy]
  | x :: xs => by
    unfold sortBy
    exact insertBy_sorted k h x _ (sortBy_sorted h xs)

/-- the key identifies the element among the members of `l` -/
def KeyInj (k : α → κ) (l : List α) : Prop := ∀ a ∈ l, ∀ b ∈ l, k a = k b → a = b

theorem KeyInj.perm {l l' : List α} (hp : l ~ l') (h : KeyInj k l) : KeyInj k l' :=
  fun a ha b hb => h a (hp.mem_iff.mpr ha) b (hp.mem_iff.mpr hb)

/-- two sorted arrangements of the same members coincide -/
theorem sorted_unique (h : StrictTotal lt) {l₁ l₂ : List α} (hp : l₁ ~ l₂) (hk : KeyInj k l₁)
    (h1 : SortedBy lt k l₁) (h2 : SortedBy lt k l₂) : l₁ = l₂ := by
  refine Perm.eq_of_pairwise ?_ h1 h2 hp
  intro a b ha hb hab hba
  exact hk a ha b (hp.mem_iff.mpr hb) (h.total _ _ hba hab)

/-- For a total order on keys that identify the members, sorting any two arrangements of the same members gives
    the same list. -/
theorem sortBy_unique (h : StrictTotal lt) {l₁ l₂ : List α} (hp : l₁ ~ l₂) (hk : KeyInj k l₁) :
    sortBy (fun a b => lt (k a) (k b)) l₁ = sortBy (fun a b => lt (k a) (k b)) l₂ := by
  refine sorted_unique k h ((sortBy_perm _ l₁).trans (hp.trans (sortBy_perm _ l₂).symm)) ?_
    (sortBy_sorted k h l₁) (sortBy_sorted k h l₂)
  exact KeyInj.perm k (sortBy_perm _ l₁).symm hk

/-- strictly increasing keys -/
def StrictSortedBy (lt : κ → κ → Bool) (k : α → κ) (l : List α) : Prop := l.Pairwise (fun a b => lt (k a) (k b) = true)

theorem StrictSortedBy.sorted (h : StrictTotal lt) {l : List α} (hs : StrictSortedBy lt k l) : SortedBy lt k l :=
  hs.imp (fun hab => h.asymm _ _ hab)

theorem sortBy_strict (h : StrictTotal lt) {l : List α} (hn : (l.map k).Nodup) :
    StrictSortedBy lt k (sortBy (fun a b => lt (k a) (k b)) l) := by
  have hs := sortBy_sorted k h l
  have hn' : ((sortBy (fun a b => lt (k a) (k b)) l).map k).Nodup := ((sortBy_perm _ l).map k).nodup_iff.mpr hn
  unfold StrictSortedBy
  generalize sortBy (fun a b => lt (k a) (k b)) l = s at hs hn'
  induction s with
  | nil => exact Pairwise.nil
  | cons x xs ih =>
    simp only [List.map_cons, List.nodup_cons] at hn'
    refine Pairwise.cons ?_ (ih hs.tail hn'.2)
    intro y hy
    have hle : lt (k y) (k x) = false := rel_of_pairwise_cons hs hy
    cases hxy : lt (k x) (k y) with
    | true => rfl
    | false =>
      have : k x = k y := h.total _ _ hxy hle
      exact absurd (this ▸ List.mem_map_of_mem (f := k) hy) hn'.1

/-- sorting a strictly sorted list changes nothing -/
theorem sortBy_of_strict : ∀ {l : List α}, StrictSortedBy lt k l → sortBy (fun a b => lt (k a) (k b)) l = l
  | [], _ => rfl
  | x :: xs, h => by
    unfold sortBy
    rw [sortBy_of_strict (l := xs) (Pairwise.tail h)]
    cases xs with
    | nil => rfl
    | cons y ys =>
      have : lt (k x) (k y) = true := rel_of_pairwise_cons h List.mem_cons_self
      simp [insertBy, this]

end generic

/-! ## The comparators of the library are strict total orders -/

theorem powerLt_iff (a b : PowerKey) : powerLt a b = true ↔
    a.power > b.power ∨ (a.power = b.power ∧ (a.ts < b.ts ∨ (a.ts = b.ts ∧ bytesLt a.id b.id = true))) := by
  unfold powerLt
  split
  · rename_i h; simp only [true_iff]; exact Or.inl h
  · split
    · constructor
      · intro h; cases h
      · rintro (h | ⟨h, _⟩) <;> omega
    · have e : a.power = b.power := by omega
      split
      · rename_i h; simp only [true_iff]; exact Or.inr ⟨e, Or.inl h⟩
      · split
        · constructor
          · intro h; cases h
          · rintro (h | ⟨_, h | ⟨h, _⟩⟩) <;> omega
        · have e2 : a.ts = b.ts := by omega
          constructor
          · intro h; exact Or.inr ⟨e, Or.inr ⟨e2, h⟩⟩
          · rintro (h | ⟨_, h | ⟨_, h⟩⟩)
            · omega
            · omega
            · exact h

theorem powerLt_strictTotal : StrictTotal powerLt where
  irrefl a := by
    cases h : powerLt a a with
    | false => rfl
    | true =>
      rcases (powerLt_iff a a).mp h with h | ⟨_, h | ⟨_, h⟩⟩
      · omega
      · omega
      · rw [bytesLt_irrefl] at h; cases h
  trans a b c h1 h2 := by
    rw [powerLt_iff] at *
    rcases h1 with h1 | ⟨e1, h1 | ⟨f1, h1⟩⟩ <;> rcases h2 with h2 | ⟨e2, h2 | ⟨f2, h2⟩⟩
    · left; omega
    · left; omega
    · left; omega
    · left; omega
    · right; exact ⟨by omega, Or.inl (by omega)⟩
    · right; exact ⟨by omega, Or.inl (by omega)⟩
    · left; omega
    · right; exact ⟨by omega, Or.inl (by omega)⟩
    · right; exact ⟨by omega, Or.inr ⟨by omega, bytesLt_trans _ _ _ h1 h2⟩⟩
  total a b h1 h2 := by
    have n1 : ¬ _ := fun h => by have := (powerLt_iff a b).mpr h; rw [h1] at this; cases this
    have n2 : ¬ _ := fun h => by have := (powerLt_iff b a).mpr h; rw [h2] at this; cases this
    have p : a.power = b.power := by
      rcases Int.lt_trichotomy a.power b.power with h | h | h
      · exact absurd (Or.inl h) n2
      · exact h
      · exact absurd (Or.inl h) n1
    have t : a.ts = b.ts := by
      rcases Nat.lt_trichotomy a.ts b.ts with h | h | h
      · exact absurd (Or.inr ⟨p, Or.inl h⟩) n1
      · exact h
      · exact absurd (Or.inr ⟨p.symm, Or.inl h⟩) n2
    have i : a.id = b.id := by
      apply bytesLt_total
      · cases h : bytesLt a.id b.id with
        | false => rfl
        | true => exact absurd (Or.inr ⟨p, Or.inr ⟨t, h⟩⟩) n1
      · cases h : bytesLt b.id a.id with
        | false => rfl
        | true => exact absurd (Or.inr ⟨p.symm, Or.inr ⟨t.symm, h⟩⟩) n2
    cases a; cases b; simp only [PowerKey.mk.injEq] at *; exact ⟨p, t, i⟩

theorem otherLt_iff (a b : OtherKey) : otherLt a b = true ↔
    a.pos < b.pos ∨ (a.pos = b.pos ∧ (a.steps < b.steps ∨ (a.steps = b.steps ∧
      (a.ts < b.ts ∨ (a.ts = b.ts ∧ bytesLt a.id b.id = true))))) := by
  unfold otherLt
  split
  · rename_i h; simp only [true_iff]; exact Or.inl h
  · split
    · constructor
      · intro h; cases h
      · rintro (h | ⟨h, _⟩) <;> omega
    · have e : a.pos = b.pos := by omega
      split
      · rename_i h; simp only [true_iff]; exact Or.inr ⟨e, Or.inl h⟩
      · split
        · constructor
          · intro h; cases h
          · rintro (h | ⟨_, h | ⟨h, _⟩⟩) <;> omega
        · have e2 : a.steps = b.steps := by omega
          split
          · rename_i h; simp only [true_iff]; exact Or.inr ⟨e, Or.inr ⟨e2, Or.inl h⟩⟩
          · split
            · constructor
              · intro h; cases h
              · rintro (h | ⟨_, h | ⟨_, h | ⟨h, _⟩⟩⟩) <;> omega
            · have e3 : a.ts = b.ts := by omega
              constructor
              · intro h; exact Or.inr ⟨e, Or.inr ⟨e2, Or.inr ⟨e3, h⟩⟩⟩
              · rintro (h | ⟨_, h | ⟨_, h | ⟨_, h⟩⟩⟩)
                · omega
                · omega
                · omega
                · exact h

/-- (pos, steps, ts) as one lexicographic rank -/
theorem otherLt_strictTotal : StrictTotal otherLt where
  irrefl a := by
    cases h : otherLt a a with
    | false => rfl
    | true =>
      rcases (otherLt_iff a a).mp h with h | ⟨_, h | ⟨_, h | ⟨_, h⟩⟩⟩
      · omega
      · omega
      · omega
      · rw [bytesLt_irrefl] at h; cases h
  trans a b c h1 h2 := by
    rw [otherLt_iff] at *
    rcases h1 with h1 | ⟨e1, h1 | ⟨f1, h1 | ⟨g1, h1⟩⟩⟩ <;> rcases h2 with h2 | ⟨e2, h2 | ⟨f2, h2 | ⟨g2, h2⟩⟩⟩
    · left; omega
    · left; omega
    · left; omega
    · left; omega
    · left; omega
    · right; exact ⟨by omega, Or.inl (by omega)⟩
    · right; exact ⟨by omega, Or.inl (by omega)⟩
    · right; exact ⟨by omega, Or.inl (by omega)⟩
    · left; omega
    · right; exact ⟨by omega, Or.inl (by omega)⟩
    · right; exact ⟨by omega, Or.inr ⟨by omega, Or.inl (by omega)⟩⟩
    · right; exact ⟨by omega, Or.inr ⟨by omega, Or.inl (by omega)⟩⟩
    · left; omega
    · right; exact ⟨by omega, Or.inl (by omega)⟩
    · right; exact ⟨by omega, Or.inr ⟨by omega, Or.inl (by omega)⟩⟩
    · right; exact ⟨by omega, Or.inr ⟨by omega, Or.inr ⟨by omega, bytesLt_trans _ _ _ h1 h2⟩⟩⟩
  total a b h1 h2 := by
    have n1 : ¬ _ := fun h => by have := (otherLt_iff a b).mpr h; rw [h1] at this; cases this
    have n2 : ¬ _ := fun h => by have := (otherLt_iff b a).mpr h; rw [h2] at this; cases this
    have p : a.pos = b.pos := by
      rcases Nat.lt_trichotomy a.pos b.pos with h | h | h
      · exact absurd (Or.inl h) n1
      · exact h
      · exact absurd (Or.inl h) n2
    have s : a.steps = b.steps := by
      rcases Nat.lt_trichotomy a.steps b.steps with h | h | h
      · exact absurd (Or.inr ⟨p, Or.inl h⟩) n1
      · exact h
      · exact absurd (Or.inr ⟨p.symm, Or.inl h⟩) n2
    have t : a.ts = b.ts := by
      rcases Nat.lt_trichotomy a.ts b.ts with h | h | h
      · exact absurd (Or.inr ⟨p, Or.inr ⟨s, Or.inl h⟩⟩) n1
      · exact h
      · exact absurd (Or.inr ⟨p.symm, Or.inr ⟨s.symm, Or.inl h⟩⟩) n2
    have i : a.id = b.id := by
      apply bytesLt_total
      · cases h : bytesLt a.id b.id with
        | false => rfl
        | true => exact absurd (Or.inr ⟨p, Or.inr ⟨s, Or.inr ⟨t, h⟩⟩⟩) n1
      · cases h : bytesLt b.id a.id with
        | false => rfl
        | true => exact absurd (Or.inr ⟨p.symm, Or.inr ⟨s.symm, Or.inr ⟨t.symm, h⟩⟩⟩) n2
    cases a; cases b; simp only [OtherKey.mk.injEq] at *; exact ⟨p, s, t, i⟩

theorem v1Lt_iff (a b : V1Key) : v1Lt a b = true ↔
    a.depth < b.depth ∨ (a.depth = b.depth ∧ bytesLt b.sha1 a.sha1 = true) := by
  unfold v1Lt
  by_cases d : a.depth = b.depth
  · simp only [d, beq_self_eq_true, if_true]
    constructor
    · intro h; exact Or.inr ⟨trivial, h⟩
    · rintro (h | ⟨_, h⟩)
      · omega
      · exact h
  · have n : (a.depth == b.depth) = false := by simpa using d
    rw [n]; simp only [Bool.false_eq_true, if_false, decide_eq_true_eq]
    constructor
    · exact Or.inl
    · rintro (h | ⟨h, _⟩)
      · exact h
      · exact absurd h d

theorem v1Lt_strictTotal : StrictTotal v1Lt where
  irrefl a := by
    cases h : v1Lt a a with
    | false => rfl
    | true =>
      rcases (v1Lt_iff a a).mp h with h | ⟨_, h⟩
      · omega
      · rw [bytesLt_irrefl] at h; cases h
  trans a b c h1 h2 := by
    rw [v1Lt_iff] at *
    rcases h1 with h1 | ⟨e1, h1⟩ <;> rcases h2 with h2 | ⟨e2, h2⟩
    · left; omega
    · left; omega
    · left; omega
    · right; exact ⟨by omega, bytesLt_trans _ _ _ h2 h1⟩
  total a b h1 h2 := by
    have n1 : ¬ _ := fun h => by have := (v1Lt_iff a b).mpr h; rw [h1] at this; cases this
    have n2 : ¬ _ := fun h => by have := (v1Lt_iff b a).mpr h; rw [h2] at this; cases this
    have p : a.depth = b.depth := by
      rcases Int.lt_trichotomy a.depth b.depth with h | h | h
      · exact absurd (Or.inl h) n1
      · exact h
      · exact absurd (Or.inl h) n2
    have i : a.sha1 = b.sha1 := by
      apply bytesLt_total
      · cases h : bytesLt a.sha1 b.sha1 with
        | false => rfl
        | true => exact absurd (Or.inr ⟨p.symm, h⟩) n2
      · cases h : bytesLt b.sha1 a.sha1 with
        | false => rfl
        | true => exact absurd (Or.inr ⟨p, h⟩) n1
    cases a; cases b; simp only [V1Key.mk.injEq] at *; exact ⟨p, i⟩

end V.StateRes
