/-
  Basic facts about the small helpers of VModel.StateRes: lookups by event ID, `eventMapFromEvents`,
  `insertID` / `unionIDs`, and the resolved-state association list (`State.get` / `State.set` /
  `applyEvents`).  Core only.
-/
import VModel.StateRes
namespace V.StateRes
open V Json GoJson Auth List

/-- the two lists hold the same elements (order and multiplicity ignored) -/
def SameSet {α} (a b : List α) : Prop := ∀ x, x ∈ a ↔ x ∈ b

theorem SameSet.refl {α} (a : List α) : SameSet a a := fun _ => Iff.rfl
theorem SameSet.symm {α} {a b : List α} (h : SameSet a b) : SameSet b a := fun x => (h x).symm
theorem SameSet.trans {α} {a b c : List α} (h : SameSet a b) (h' : SameSet b c) : SameSet a c :=
  fun x => (h x).trans (h' x)
theorem SameSet.of_perm {α} {a b : List α} (h : a ~ b) : SameSet a b := fun _ => h.mem_iff

theorem SameSet.filter {α} {a b : List α} (p : α → Bool) (h : SameSet a b) : SameSet (a.filter p) (b.filter p) := by
  intro x; simp only [List.mem_filter, h x]

theorem SameSet.map {α β} {a b : List α} (f : α → β) (h : SameSet a b) : SameSet (a.map f) (b.map f) := by
  intro x; simp only [List.mem_map, h _]

theorem SameSet.append {α} {a b c d : List α} (h : SameSet a b) (h' : SameSet c d) : SameSet (a ++ c) (b ++ d) := by
  intro x; simp only [List.mem_append, h x, h' x]

theorem SameSet.filterMap {α β} {a b : List α} (f : α → Option β) (h : SameSet a b) :
    SameSet (a.filterMap f) (b.filterMap f) := by
  intro x; simp only [List.mem_filterMap, h _]

theorem SameSet.flatMap {α β} {a b : List α} (f : α → List β) (h : SameSet a b) :
    SameSet (a.flatMap f) (b.flatMap f) := by
  intro x; simp only [List.mem_flatMap, h _]

theorem SameSet.isEmpty {α} {a b : List α} (h : SameSet a b) : a.isEmpty = b.isEmpty := by
  cases a with
  | nil => cases b with
    | nil => rfl
    | cons y ys => exact absurd ((h y).mpr List.mem_cons_self) (by simp)
  | cons x xs => cases b with
    | nil => exact absurd ((h x).mp List.mem_cons_self) (by simp)
    | cons y ys => rfl

theorem SameSet.contains {a b : List ID} (h : SameSet a b) (x : ID) : a.contains x = b.contains x := by
  rw [Bool.eq_iff_iff]; simp only [List.contains_iff_mem, h x]

theorem SameSet.any {α} {a b : List α} (h : SameSet a b) (p : α → Bool) : a.any p = b.any p := by
  rw [Bool.eq_iff_iff]; simp only [List.any_eq_true, h _]

theorem SameSet.all {α} {a b : List α} (h : SameSet a b) (p : α → Bool) : a.all p = b.all p := by
  rw [Bool.eq_iff_iff]; simp only [List.all_eq_true, h _]

/-- nodup lists with the same elements are permutations of each other -/
theorem SameSet.perm {α} {a b : List α} (h : SameSet a b) (ha : a.Nodup) (hb : b.Nodup) : a ~ b :=
  (List.perm_ext_iff_of_nodup ha hb).mpr h

/-- within `U`, the event ID identifies the event (`V.C09.Ids` for events of one room version) -/
def EvId (U : Event → Prop) : Prop := ∀ x y, U x → U y → x.eventID = y.eventID → x = y

/-- the events of `l` are identified by their IDs -/
abbrev IdsIn (l : List Event) : Prop := EvId (· ∈ l)

theorem EvId.mono {U V : Event → Prop} (h : EvId U) (hV : ∀ x, V x → U x) : EvId V :=
  fun x y hx hy => h x y (hV x hx) (hV y hy)

/-- distinct event IDs -/
def IdNodup (l : List Event) : Prop := (l.map (·.eventID)).Nodup

theorem IdNodup.nodup {l : List Event} (h : IdNodup l) : l.Nodup := by
  unfold IdNodup at h
  rw [List.nodup_iff_pairwise_ne, List.pairwise_map] at h
  exact h.imp (fun {a b} hne heq => hne (congrArg Event.eventID heq))

theorem IdNodup.idsIn {l : List Event} (h : IdNodup l) : IdsIn l := by
  intro x y hx hy hxy
  induction l with
  | nil => cases hx
  | cons a as ih =>
    unfold IdNodup at h
    simp only [List.map_cons, List.nodup_cons, List.mem_map, not_exists, not_and] at h
    rcases List.mem_cons.mp hx with rfl | hx' <;> rcases List.mem_cons.mp hy with rfl | hy'
    · rfl
    · exact absurd hxy.symm (h.1 y hy')
    · exact absurd hxy (h.1 x hx')
    · exact ih h.2 hx' hy'

theorem IdNodup.filter {l : List Event} (p : Event → Bool) (h : IdNodup l) : IdNodup (l.filter p) := by
  unfold IdNodup at *
  exact List.Nodup.sublist (List.Sublist.map _ List.filter_sublist) h

theorem IdNodup.perm {l l' : List Event} (hp : l ~ l') (h : IdNodup l) : IdNodup l' := by
  unfold IdNodup at *
  exact (hp.map _).nodup_iff.mp h

/-! ## findByID -/

theorem findByID_some {m : List Event} {id : ID} {e : Event} (h : findByID m id = some e) : e ∈ m ∧ e.eventID = id := by
  unfold findByID at h
  exact ⟨List.mem_of_find?_eq_some h, by simpa using List.find?_some h⟩

theorem findByID_eq_none {m : List Event} {id : ID} : findByID m id = none ↔ ∀ e ∈ m, e.eventID ≠ id := by
  unfold findByID; simp

theorem findByID_isSome {m : List Event} {id : ID} : (findByID m id).isSome ↔ ∃ e ∈ m, e.eventID = id := by
  unfold findByID; simp

theorem findByID_nil (id : ID) : findByID [] id = none := rfl

theorem findByID_cons (a : Event) (m : List Event) (id : ID) :
    findByID (a :: m) id = if a.eventID == id then some a else findByID m id := by
  unfold findByID; rw [List.find?_cons]; split <;> simp_all

theorem findByID_append (m m' : List Event) (id : ID) :
    findByID (m ++ m') id = (findByID m id).or (findByID m' id) := by
  unfold findByID; rw [List.find?_append]

theorem findByID_of_mem {m : List Event} (hm : IdsIn m) {e : Event} (he : e ∈ m) : findByID m e.eventID = some e := by
  cases h : findByID m e.eventID with
  | none => exact absurd rfl (findByID_eq_none.mp h e he)
  | some x =>
    obtain ⟨hx, hid⟩ := findByID_some h
    rw [hm x e hx he hid]

/-- a lookup by ID depends only on the set of events, provided IDs identify events -/
theorem findByID_congr {U : Event → Prop} (hU : EvId U) {m m' : List Event} (_hm : ∀ x ∈ m, U x) (hm' : ∀ x ∈ m', U x)
    (h : SameSet m m') (id : ID) : findByID m id = findByID m' id := by
  cases h1 : findByID m id with
  | none =>
    symm; rw [findByID_eq_none] at *
    intro e he; exact h1 e ((h e).mpr he)
  | some x =>
    obtain ⟨hx, hid⟩ := findByID_some h1
    have hx' : x ∈ m' := (h x).mp hx
    have hI : IdsIn m' := hU.mono hm'
    rw [← hid, findByID_of_mem hI hx']

/-! ## eventMapFromEvents: first occurrence per ID -/

def dedupStep (acc : List Event) (e : Event) : List Event :=
  if (findByID acc e.eventID).isSome then acc else acc ++ [e]

theorem eventMapFromEvents_eq (l : List Event) : eventMapFromEvents l = l.foldl dedupStep [] := rfl

theorem dedupFold_mem {l acc : List Event} {e : Event} (h : e ∈ l.foldl dedupStep acc) : e ∈ acc ∨ e ∈ l := by
  induction l generalizing acc with
  | nil => exact Or.inl h
  | cons a as ih =>
    rw [List.foldl_cons] at h
    rcases ih h with h' | h'
    · unfold dedupStep at h'
      split at h'
      · exact Or.inl h'
      · rcases List.mem_append.mp h' with h'' | h''
        · exact Or.inl h''
        · exact Or.inr (by simp_all)
    · exact Or.inr (List.mem_cons_of_mem _ h')

theorem dedupFold_acc_sub {l acc : List Event} {e : Event} (h : e ∈ acc) : e ∈ l.foldl dedupStep acc := by
  induction l generalizing acc with
  | nil => exact h
  | cons a as ih =>
    rw [List.foldl_cons]; apply ih
    unfold dedupStep; split
    · exact h
    · exact List.mem_append_left _ h

theorem dedupFold_idNodup {l acc : List Event} (h : IdNodup acc) : IdNodup (l.foldl dedupStep acc) := by
  induction l generalizing acc with
  | nil => exact h
  | cons a as ih =>
    rw [List.foldl_cons]; apply ih
    unfold dedupStep; split
    · exact h
    · rename_i hn
      have hn' : findByID acc a.eventID = none := by simpa using hn
      rw [findByID_eq_none] at hn'
      unfold IdNodup at *
      rw [List.map_append, List.nodup_append]
      refine ⟨h, by simp, ?_⟩
      intro x hx y hy
      simp only [List.map_cons, List.map_nil, List.mem_singleton] at hy
      obtain ⟨e, he, rfl⟩ := List.mem_map.mp hx
      rw [hy]; exact hn' e he

theorem dedupFold_find (l acc : List Event) (id : ID) :
    findByID (l.foldl dedupStep acc) id = (findByID acc id).or (findByID l id) := by
  induction l generalizing acc with
  | nil => simp [findByID_nil]
  | cons a as ih =>
    rw [List.foldl_cons, ih, findByID_cons]
    unfold dedupStep
    by_cases hs : (findByID acc a.eventID).isSome
    · simp only [hs, if_true]
      by_cases ha : a.eventID == id
      · have : a.eventID = id := by simpa using ha
        subst this
        simp only [ha, if_true]
        cases h : findByID acc a.eventID with
        | none => simp [h] at hs
        | some x => simp
      · simp [ha]
    · have hn : findByID acc a.eventID = none := by simpa using hs
      rw [if_neg hs, findByID_append, findByID_cons, findByID_nil]
      by_cases ha : a.eventID == id
      · have : a.eventID = id := by simpa using ha
        subst this
        simp [hn]
      · simp only [ha]
        cases findByID acc id <;> simp

theorem mem_eventMap {l : List Event} {e : Event} (h : e ∈ eventMapFromEvents l) : e ∈ l := by
  rcases dedupFold_mem (acc := []) h with h' | h'
  · cases h'
  · exact h'

theorem eventMap_idNodup (l : List Event) : IdNodup (eventMapFromEvents l) :=
  dedupFold_idNodup (acc := []) (by simp [IdNodup])

/-- looking an ID up in the event map = first occurrence in the list -/
theorem findByID_eventMap (l : List Event) (id : ID) : findByID (eventMapFromEvents l) id = findByID l id := by
  rw [eventMapFromEvents_eq, dedupFold_find, findByID_nil]; simp

theorem mem_eventMap_of_mem {l : List Event} (hl : IdsIn l) {e : Event} (h : e ∈ l) : e ∈ eventMapFromEvents l := by
  have := findByID_of_mem hl h
  rw [← findByID_eventMap] at this
  exact (findByID_some this).1

theorem eventMap_sameSet {l : List Event} (hl : IdsIn l) : SameSet (eventMapFromEvents l) l :=
  fun _ => ⟨mem_eventMap, mem_eventMap_of_mem hl⟩

theorem eventMap_idsIn (l : List Event) : IdsIn (eventMapFromEvents l) := (eventMap_idNodup l).idsIn

/-- an ID of the list is an ID of the event map (no hypothesis needed) -/
theorem eventMap_ids (l : List Event) (id : ID) :
    id ∈ (eventMapFromEvents l).map (·.eventID) ↔ id ∈ l.map (·.eventID) := by
  simp only [List.mem_map]
  constructor
  · rintro ⟨e, he, rfl⟩; exact ⟨e, mem_eventMap he, rfl⟩
  · rintro ⟨e, he, rfl⟩
    have : (findByID l e.eventID).isSome := findByID_isSome.mpr ⟨e, he, rfl⟩
    rw [← findByID_eventMap] at this
    obtain ⟨x, hx, hid⟩ := findByID_isSome.mp this
    exact ⟨x, hx, hid⟩

/-- event maps of two lists with the same events are permutations of each other -/
theorem eventMap_perm {U : Event → Prop} (hU : EvId U) {l l' : List Event} (hl : ∀ x ∈ l, U x) (hl' : ∀ x ∈ l', U x)
    (h : SameSet l l') : eventMapFromEvents l ~ eventMapFromEvents l' := by
  refine SameSet.perm ?_ (eventMap_idNodup l).nodup (eventMap_idNodup l').nodup
  exact (eventMap_sameSet (hU.mono hl)).trans (h.trans (eventMap_sameSet (hU.mono hl')).symm)

theorem eventMap_of_idNodup {l : List Event} (h : IdNodup l) : eventMapFromEvents l = l := by
  rw [eventMapFromEvents_eq]
  suffices ∀ acc, IdNodup (acc ++ l) → l.foldl dedupStep acc = acc ++ l by simpa using this [] (by simpa using h)
  clear h
  intro acc
  induction l generalizing acc with
  | nil => intro _; simp
  | cons a as ih =>
    intro hn
    have hstep : dedupStep acc a = acc ++ [a] := by
      unfold dedupStep
      have : findByID acc a.eventID = none := by
        rw [findByID_eq_none]; intro e he heq
        unfold IdNodup at hn
        rw [List.map_append, List.nodup_append] at hn
        exact hn.2.2 _ (List.mem_map_of_mem he) _ (List.mem_map_of_mem List.mem_cons_self) heq
      simp [this]
    rw [List.foldl_cons, hstep, ih (acc ++ [a]) (by simpa using hn)]; simp

/-! ## insertID / unionIDs -/

theorem mem_insertID {s : List ID} {id x : ID} : x ∈ insertID s id ↔ x ∈ s ∨ x = id := by
  unfold insertID; split
  · rename_i h
    have : id ∈ s := by simpa using h
    constructor
    · exact Or.inl
    · rintro (h' | rfl); exact h'; exact this
  · simp

theorem nodup_insertID {s : List ID} (id : ID) (h : s.Nodup) : (insertID s id).Nodup := by
  unfold insertID; split
  · exact h
  · rename_i hn
    have : id ∉ s := by simpa using hn
    rw [List.nodup_append]; refine ⟨h, by simp, ?_⟩
    intro a ha b hb; simp at hb; subst hb; intro heq; subst heq; exact this ha

theorem mem_unionIDs {a b : List ID} {x : ID} : x ∈ unionIDs a b ↔ x ∈ a ∨ x ∈ b := by
  unfold unionIDs
  induction b generalizing a with
  | nil => simp
  | cons y ys ih => rw [List.foldl_cons, ih, mem_insertID]; simp only [List.mem_cons, or_assoc]

theorem nodup_unionIDs {a : List ID} (b : List ID) (h : a.Nodup) : (unionIDs a b).Nodup := by
  unfold unionIDs
  induction b generalizing a with
  | nil => exact h
  | cons y ys ih => rw [List.foldl_cons]; exact ih (nodup_insertID y h)

theorem mem_foldl_unionIDs {ls : List (List ID)} {a : List ID} {x : ID} :
    x ∈ ls.foldl unionIDs a ↔ x ∈ a ∨ ∃ l ∈ ls, x ∈ l := by
  induction ls generalizing a with
  | nil => simp
  | cons l ls ih =>
    rw [List.foldl_cons, ih, mem_unionIDs]
    simp only [List.mem_cons, exists_eq_or_imp, or_assoc]

theorem nodup_foldl_unionIDs {a : List ID} (ls : List (List ID)) (h : a.Nodup) : (ls.foldl unionIDs a).Nodup := by
  induction ls generalizing a with
  | nil => exact h
  | cons l ls ih => rw [List.foldl_cons]; exact ih (nodup_unionIDs l h)

/-! ## Event maps that answer alike; state-set lists that are rearrangements of each other -/

/-- two event maps that answer every lookup alike and have the same size (the closures use the size as fuel) -/
def MapEq (m m' : List Event) : Prop := m.length = m'.length ∧ ∀ id, findByID m id = findByID m' id

theorem MapEq.refl (m : List Event) : MapEq m m := ⟨rfl, fun _ => rfl⟩
theorem MapEq.symm {m m' : List Event} (h : MapEq m m') : MapEq m' m := ⟨h.1.symm, fun id => (h.2 id).symm⟩

theorem eventMap_mapEq {U : Event → Prop} (hU : EvId U) {l l' : List Event} (hl : ∀ x ∈ l, U x) (hl' : ∀ x ∈ l', U x)
    (h : SameSet l l') : MapEq (eventMapFromEvents l) (eventMapFromEvents l') := by
  refine ⟨(eventMap_perm hU hl hl' h).length_eq, fun id => ?_⟩
  rw [findByID_eventMap, findByID_eventMap]
  exact findByID_congr hU hl hl' h id

/-- every state set of one list has the same events as some state set of the other, and conversely -/
def SetsSim (a b : List (List Event)) : Prop :=
  (∀ s ∈ a, ∃ s' ∈ b, SameSet s s') ∧ (∀ s' ∈ b, ∃ s ∈ a, SameSet s s')

theorem SetsSim.refl (a : List (List Event)) : SetsSim a a :=
  ⟨fun s hs => ⟨s, hs, SameSet.refl s⟩, fun s hs => ⟨s, hs, SameSet.refl s⟩⟩

/-- corresponding state sets are permutations of each other -/
inductive EachPerm : List (List Event) → List (List Event) → Prop
  | nil : EachPerm [] []
  | cons {s s' : List Event} {c b : List (List Event)} : s ~ s' → EachPerm c b → EachPerm (s :: c) (s' :: b)

/-- `b` is `a` with the state sets permuted and the events inside each state set permuted -/
def SetsEquiv (a b : List (List Event)) : Prop := ∃ c, a ~ c ∧ EachPerm c b

theorem SetsEquiv.refl (a : List (List Event)) : SetsEquiv a a := by
  refine ⟨a, Perm.refl a, ?_⟩
  induction a with
  | nil => exact .nil
  | cons x xs ih => exact .cons (Perm.refl x) ih

theorem forall₂_perm_length {c b : List (List Event)} (h : EachPerm c b) : c.length = b.length := by
  induction h with
  | nil => rfl
  | cons _ _ ih => simp [ih]

theorem forall₂_perm_flatten {c b : List (List Event)} (h : EachPerm c b) : c.flatten ~ b.flatten := by
  induction h with
  | nil => exact Perm.refl _
  | cons h1 _ ih => simp only [List.flatten_cons]; exact h1.append ih

theorem forall₂_perm_sim {c b : List (List Event)} (h : EachPerm c b) : SetsSim c b := by
  induction h with
  | nil => exact ⟨fun _ h => absurd h (by simp), fun _ h => absurd h (by simp)⟩
  | cons h1 _ ih =>
    constructor
    · intro s hs
      rcases List.mem_cons.mp hs with rfl | hs
      · exact ⟨_, List.mem_cons_self, SameSet.of_perm h1⟩
      · obtain ⟨s', hs', h'⟩ := ih.1 s hs
        exact ⟨s', List.mem_cons_of_mem _ hs', h'⟩
    · intro s hs
      rcases List.mem_cons.mp hs with rfl | hs
      · exact ⟨_, List.mem_cons_self, SameSet.of_perm h1⟩
      · obtain ⟨s', hs', h'⟩ := ih.2 s hs
        exact ⟨s', List.mem_cons_of_mem _ hs', h'⟩

theorem SetsEquiv.length_eq {a b : List (List Event)} (h : SetsEquiv a b) : a.length = b.length := by
  obtain ⟨c, hp, hf⟩ := h
  rw [hp.length_eq, forall₂_perm_length hf]

theorem SetsEquiv.flatten_perm {a b : List (List Event)} (h : SetsEquiv a b) : a.flatten ~ b.flatten := by
  obtain ⟨c, hp, hf⟩ := h
  exact hp.flatten.trans (forall₂_perm_flatten hf)

theorem SetsEquiv.sim {a b : List (List Event)} (h : SetsEquiv a b) : SetsSim a b := by
  obtain ⟨c, hp, hf⟩ := h
  have := forall₂_perm_sim hf
  constructor
  · intro s hs
    exact this.1 s (hp.mem_iff.mp hs)
  · intro s' hs'
    obtain ⟨s, hs, h'⟩ := this.2 s' hs'
    exact ⟨s, hp.mem_iff.mpr hs, h'⟩

theorem countID_eq (sets : List (List Event)) (id : ID) :
    countID sets id = (sets.flatten.filter (fun e => e.eventID == id)).length := by
  unfold countID
  suffices ∀ n, (sets.map (fun s => (s.filter (fun e => e.eventID == id)).length)).foldl (· + ·) n
      = n + (sets.flatten.filter (fun e => e.eventID == id)).length by simpa using this 0
  induction sets with
  | nil => intro n; simp
  | cons s ss ih =>
    intro n
    simp only [List.map_cons, List.foldl_cons, List.flatten_cons, List.filter_append, List.length_append]
    rw [ih]; omega

theorem SetsEquiv.countID_eq {a b : List (List Event)} (h : SetsEquiv a b) (id : ID) : countID a id = countID b id := by
  rw [V.StateRes.countID_eq, V.StateRes.countID_eq]
  exact (h.flatten_perm.filter _).length_eq

/-! ## The (type, state_key) slot of a state event -/

/-- the (type, state_key) slot of a state event -/
def keyOf (e : Event) : Bytes × Bytes := (e.type, e.stateKey.getD [])

/-- `e` is a state event occupying slot `key` -/
def hasKey (key : Bytes × Bytes) (e : Event) : Bool := e.stateKey.isSome && keyOf e == key

theorem hasKey_iff {key : Bytes × Bytes} {e : Event} : hasKey key e = true ↔ e.stateKey = some key.2 ∧ e.type = key.1 := by
  unfold hasKey keyOf
  cases h : e.stateKey with
  | none => simp
  | some k =>
    simp only [Option.isSome_some, Option.getD_some, Bool.true_and, beq_iff_eq]
    constructor
    · intro h'; subst h'; exact ⟨rfl, rfl⟩
    · rintro ⟨h1, h2⟩; cases h1; rw [h2]

theorem hasKey_keyOf {e : Event} (h : e.stateKey.isSome) : hasKey (keyOf e) e = true := by
  unfold hasKey; simp [h]

end V.StateRes
