/-
  Kahn's algorithm of VModel.StateRes: the output only contains input events, and it does not depend on the
  order (or duplication) in which the input nodes are given (simulation of two runs of `kahnLoop`).  Core only.
-/
import VProofs.StateResKahnSim
namespace V.StateRes
open V Json GoJson Auth List

section
variable {κ : Type}

abbrev KAcc (κ : Type) := List (ID × Nat) × List (KNode κ) × List (KNode κ)

/-! ## Where the nodes come from -/

theorem kDecStep_rem_sub (acc : KAcc κ) (pid : ID) {n : KNode κ} (h : n ∈ (kDecStep acc pid).2.1) : n ∈ acc.2.1 := by
  obtain ⟨deg, rem, ni⟩ := acc
  rw [kDecStep_eq] at h
  split at h
  · split at h
    · exact (List.mem_filter.mp h).1
    · exact h
  · exact h

theorem kDecStep_sub (acc : KAcc κ) (pid : ID) {n : KNode κ}
    (h : n ∈ (kDecStep acc pid).2.1 ∨ n ∈ (kDecStep acc pid).2.2) : n ∈ acc.2.1 ∨ n ∈ acc.2.2 := by
  obtain ⟨deg, rem, ni⟩ := acc
  rw [kDecStep_eq] at h
  split at h
  · split at h
    · rename_i m hm
      rcases h with h | h
      · exact Or.inl (List.mem_filter.mp h).1
      · rcases List.mem_append.mp h with h | h
        · exact Or.inr h
        · have : n = m := by simpa using h
          subst this
          exact Or.inl (List.mem_of_find?_eq_some hm)
    · exact h
  · exact h

theorem decFold_rem_sub (pids : List ID) (acc : KAcc κ) {n : KNode κ} (h : n ∈ (pids.foldl kDecStep acc).2.1) : n ∈ acc.2.1 := by
  induction pids generalizing acc with
  | nil => exact h
  | cons p ps ih => rw [List.foldl_cons] at h; exact kDecStep_rem_sub acc p (ih _ h)

theorem decFold_sub (pids : List ID) (acc : KAcc κ) {n : KNode κ}
    (h : n ∈ (pids.foldl kDecStep acc).2.1 ∨ n ∈ (pids.foldl kDecStep acc).2.2) : n ∈ acc.2.1 ∨ n ∈ acc.2.2 := by
  induction pids generalizing acc with
  | nil => exact h
  | cons p ps ih => rw [List.foldl_cons] at h; exact kDecStep_sub acc p (ih _ h)

theorem kahnLoop_rem_sub (lt : κ → κ → Bool) (parents : Event → List ID) :
    ∀ (fuel : Nat) (rem : List (KNode κ)) (deg : List (ID × Nat)) (ni graph : List (KNode κ)) {n : KNode κ},
      n ∈ (kahnLoop lt parents fuel rem deg ni graph).1 → n ∈ rem := by
  intro fuel
  induction fuel with
  | zero => intro rem deg ni graph n h; exact h
  | succ fuel ih =>
    intro rem deg ni graph n h
    rw [kahnLoop_succ] at h
    split at h
    · exact h
    · exact decFold_rem_sub _ _ (ih _ _ _ _ h)

theorem kahnLoop_sub (lt : κ → κ → Bool) (parents : Event → List ID) :
    ∀ (fuel : Nat) (rem : List (KNode κ)) (deg : List (ID × Nat)) (ni graph : List (KNode κ)) {n : KNode κ},
      n ∈ (kahnLoop lt parents fuel rem deg ni graph).1 ∨ n ∈ (kahnLoop lt parents fuel rem deg ni graph).2 →
      n ∈ rem ∨ n ∈ ni ∨ n ∈ graph := by
  intro fuel
  induction fuel with
  | zero =>
    intro rem deg ni graph n h
    rcases h with h | h
    · exact Or.inl h
    · exact Or.inr (Or.inr h)
  | succ fuel ih =>
    intro rem deg ni graph n h
    rw [kahnLoop_succ] at h
    split at h
    · rcases h with h | h
      · exact Or.inl h
      · exact Or.inr (Or.inr h)
    · rename_i node restRev hrev
      have hni : ∀ m, m = node ∨ m ∈ restRev.reverse → m ∈ ni := by
        intro m hm
        have : m ∈ ni.reverse := by rw [hrev]; simpa using hm
        simpa using this
      rcases ih _ _ _ _ h with h' | h' | h'
      · rcases decFold_sub _ _ (Or.inl h') with h'' | h''
        · exact Or.inl h''
        · exact Or.inr (Or.inl (hni n (Or.inr h'')))
      · rw [mem_sortBy] at h'
        rcases decFold_sub _ _ (Or.inr h') with h'' | h''
        · exact Or.inl h''
        · exact Or.inr (Or.inl (hni n (Or.inr h'')))
      · rcases List.mem_cons.mp h' with rfl | h''
        · exact Or.inr (Or.inl (hni n (Or.inl rfl)))
        · exact Or.inr (Or.inr h'')

theorem kahn_start_sub (lt : κ → κ → Bool) {d : List (ID × Nat)} {nodes : List (KNode κ)} {n : KNode κ}
    (h : n ∈ kahnRemaining d nodes ∨ n ∈ sortBy (fun a b => lt a.key b.key) (kahnZero d nodes) ∨ n ∈ ([] : List (KNode κ))) :
    n ∈ nodes := by
  rcases h with h1 | h1 | h1
  · exact (List.mem_filter.mp h1).1
  · rw [mem_sortBy] at h1
    exact (List.mem_filter.mp h1).1
  · cases h1

/-- every event of the output is the event of an input node -/
theorem kahn_subset (lt : κ → κ → Bool) (parents : Event → List ID) (nodes0 : List (KNode κ)) {e : Event}
    (h : e ∈ kahn lt parents nodes0) : ∃ n ∈ nodes0, n.ev = e := by
  rw [kahn_eq] at h
  unfold kahnOut at h
  obtain ⟨n, hn, rfl⟩ := List.mem_map.mp h
  refine ⟨n, mem_kNodes ?_, rfl⟩
  rcases List.mem_append.mp hn with h1 | h1
  · exact kahn_start_sub lt (kahnLoop_sub lt parents _ _ _ _ _ (Or.inl ((mem_sortBy _).mp h1)))
  · exact kahn_start_sub lt (kahnLoop_sub lt parents _ _ _ _ _ (Or.inr h1))

/-! ## Simulation of two runs -/

/-- in a universe where the ID identifies the node, a lookup by ID finds the same node in any rearrangement -/
theorem find_node_perm {U : KNode κ → Prop} (hU : KId U) {rem rem' : List (KNode κ)} (hp : rem ~ rem')
    (hin : ∀ n ∈ rem, U n) (pid : ID) :
    rem.find? (fun n => n.ev.eventID == pid) = rem'.find? (fun n => n.ev.eventID == pid) := by
  cases h1 : rem.find? (fun n => n.ev.eventID == pid) with
  | none =>
    symm; rw [List.find?_eq_none] at *
    intro n hn; exact h1 n (hp.mem_iff.mpr hn)
  | some n =>
    have hn : n ∈ rem := List.mem_of_find?_eq_some h1
    have hid : n.ev.eventID = pid := by simpa using List.find?_some h1
    cases h2 : rem'.find? (fun n => n.ev.eventID == pid) with
    | none =>
      rw [List.find?_eq_none] at h2
      exact absurd (by simpa using hid) (h2 n (hp.mem_iff.mp hn))
    | some n' =>
      have hn' : n' ∈ rem := hp.mem_iff.mpr (List.mem_of_find?_eq_some h2)
      have hid' : n'.ev.eventID = pid := by simpa using List.find?_some h2
      rw [hU n n' (hin n hn) (hin n' hn') (hid.trans hid'.symm)]

/-- two inner-loop states that correspond -/
structure AccSim (U : KNode κ → Prop) (a a' : KAcc κ) : Prop where
  deg : KDegEq a.1 a'.1
  rem : a.2.1 ~ a'.2.1
  ni : a.2.2 = a'.2.2
  inU : ∀ n ∈ a.2.1, U n

theorem kDecStep_sim {U : KNode κ → Prop} (hU : KId U) {a a' : KAcc κ} (h : AccSim U a a') (pid : ID) :
    AccSim U (kDecStep a pid) (kDecStep a' pid) := by
  obtain ⟨deg, rem, ni⟩ := a
  obtain ⟨deg', rem', ni'⟩ := a'
  obtain ⟨hd, hr, hn, hin⟩ := h
  simp only at hd hr hn hin
  subst hn
  rw [kDecStep_eq, kDecStep_eq, hd.decMap pid pid, find_node_perm hU hr hin pid]
  split
  · cases rem'.find? (fun n => n.ev.eventID == pid) with
    | none => exact ⟨hd.decMap pid, hr, rfl, hin⟩
    | some m =>
      exact ⟨hd.decMap pid, hr.filter _, rfl, fun n hn => hin n (List.mem_filter.mp hn).1⟩
  · exact ⟨hd.decMap pid, hr, rfl, hin⟩

theorem decFold_sim {U : KNode κ → Prop} (hU : KId U) (pids : List ID) {a a' : KAcc κ} (h : AccSim U a a') :
    AccSim U (pids.foldl kDecStep a) (pids.foldl kDecStep a') := by
  induction pids generalizing a a' with
  | nil => exact h
  | cons p ps ih => rw [List.foldl_cons, List.foldl_cons]; exact ih (kDecStep_sim hU h p)

theorem kahnLoop_sim (lt : κ → κ → Bool) (parents : Event → List ID) {U : KNode κ → Prop} (hU : KId U) :
    ∀ (fuel : Nat) (rem rem' : List (KNode κ)) (deg deg' : List (ID × Nat)) (ni graph : List (KNode κ)),
      rem ~ rem' → (∀ n ∈ rem, U n) → KDegEq deg deg' →
      (kahnLoop lt parents fuel rem deg ni graph).1 ~ (kahnLoop lt parents fuel rem' deg' ni graph).1 ∧
      (kahnLoop lt parents fuel rem deg ni graph).2 = (kahnLoop lt parents fuel rem' deg' ni graph).2 := by
  intro fuel
  induction fuel with
  | zero => intro rem rem' deg deg' ni graph hr _ _; exact ⟨hr, rfl⟩
  | succ fuel ih =>
    intro rem rem' deg deg' ni graph hr hin hd
    rw [kahnLoop_succ, kahnLoop_succ]
    generalize ni.reverse = r
    cases r with
    | nil => exact ⟨hr, rfl⟩
    | cons node restRev =>
      have hs : AccSim U ((parents node.ev).foldl kDecStep (deg, rem, restRev.reverse))
          ((parents node.ev).foldl kDecStep (deg', rem', restRev.reverse)) :=
        decFold_sim hU _ ⟨hd, hr, rfl, hin⟩
      simp only
      rw [hs.ni]
      exact ih _ _ _ _ _ _ hs.rem hs.inU hs.deg

theorem kahnZero_perm {d d' : List (ID × Nat)} (hd : KDegEq d d') {nodes nodes' : List (KNode κ)} (hp : nodes ~ nodes') :
    kahnZero d nodes ~ kahnZero d' nodes' := by
  unfold kahnZero
  have : nodes.filter (fun n => kDegOf d n.ev.eventID == some 0) = nodes.filter (fun n => kDegOf d' n.ev.eventID == some 0) :=
    List.filter_congr (fun n _ => by rw [hd])
  rw [this]; exact hp.filter _

theorem kahnRemaining_perm {d d' : List (ID × Nat)} (hd : KDegEq d d') {nodes nodes' : List (KNode κ)} (hp : nodes ~ nodes') :
    kahnRemaining d nodes ~ kahnRemaining d' nodes' := by
  unfold kahnRemaining
  have : nodes.filter (fun n => !(kDegOf d n.ev.eventID == some 0)) = nodes.filter (fun n => !(kDegOf d' n.ev.eventID == some 0)) :=
    List.filter_congr (fun n _ => by rw [hd])
  rw [this]; exact hp.filter _

/-- **Kahn's ordering does not depend on the order or duplication of its input.**
    Same ID ⇒ same node within the two inputs; the key determines the ID (keys contain the ID as last tie-break). -/
theorem kahn_input_order_irrelevant (lt : κ → κ → Bool) (hlt : StrictTotal lt) (parents : Event → List ID)
    (n1 n2 : List (KNode κ))
    (hids : ∀ a ∈ n1 ++ n2, ∀ b ∈ n1 ++ n2, a.ev.eventID = b.ev.eventID → a = b)
    (hkey : ∀ a ∈ n1, ∀ b ∈ n1, a.key = b.key → a.ev.eventID = b.ev.eventID)
    (hset : SameSet n1 n2) :
    kahn lt parents n1 = kahn lt parents n2 := by
  have hU : KId (fun n => n ∈ n1 ++ n2) := fun a b ha hb h => hids a ha b hb h
  have hl1 : ∀ n ∈ n1, n ∈ n1 ++ n2 := fun n hn => List.mem_append_left _ hn
  have hl2 : ∀ n ∈ n2, n ∈ n1 ++ n2 := fun n hn => List.mem_append_right _ hn
  have hp : kNodes n1 ~ kNodes n2 := kNodes_perm hU hl1 hl2 hset
  have hd : KDegEq (kahnInDeg parents (kNodes n1)) (kahnInDeg parents (kNodes n2)) := kahnInDeg_perm parents hp
  have hkeyInj : ∀ l : List (KNode κ), (∀ n ∈ l, n ∈ n1) → KeyInj KNode.key l :=
    fun l hl a ha b hb hk => hids a (hl1 a (hl a ha)) b (hl1 b (hl b hb)) (hkey a (hl a ha) b (hl b hb) hk)
  have hz : sortBy (fun a b => lt a.key b.key) (kahnZero (kahnInDeg parents (kNodes n1)) (kNodes n1))
      = sortBy (fun a b => lt a.key b.key) (kahnZero (kahnInDeg parents (kNodes n2)) (kNodes n2)) :=
    sortBy_unique KNode.key hlt (kahnZero_perm hd hp)
      (hkeyInj _ (fun n hn => mem_kNodes (List.mem_filter.mp hn).1))
  have hrem := kahnRemaining_perm hd hp
  have hremU : ∀ n ∈ kahnRemaining (kahnInDeg parents (kNodes n1)) (kNodes n1), n ∈ n1 ++ n2 :=
    fun n hn => hl1 n (mem_kNodes (List.mem_filter.mp hn).1)
  rw [kahn_eq, kahn_eq, hp.length_eq, hz]
  obtain ⟨h1, h2⟩ := kahnLoop_sim lt parents hU ((kNodes n2).length + 1) _ _ _ _
    (sortBy (fun a b => lt a.key b.key) (kahnZero (kahnInDeg parents (kNodes n2)) (kNodes n2))) [] hrem hremU hd
  unfold kahnOut
  rw [h2, sortBy_unique KNode.key hlt h1
    (hkeyInj _ (fun n hn => mem_kNodes (List.mem_filter.mp (kahnLoop_rem_sub lt parents _ _ _ _ _ hn)).1))]

end

/-! ## The two instances used by the library -/

def authNode (authMap : List Event) (createEv : Option Event) (e : Event) : KNode PowerKey :=
  { ev := e, key := { power := senderPower authMap createEv e, ts := e.originServerTS, id := e.eventID } }

def prevNode (e : Event) : KNode OtherKey :=
  { ev := e, key := ({ pos := 0, steps := 0, ts := e.originServerTS, id := e.eventID } : OtherKey) }

theorem reverseTopoAuth_eq_kahn (authMap : List Event) (createEv : Option Event) (evs : List Event) :
    reverseTopoAuth authMap createEv evs = kahn powerLt (fun e => e.authEventIDs) (evs.map (authNode authMap createEv)) := rfl

theorem reverseTopoPrev_eq_kahn (evs : List Event) :
    reverseTopoPrev evs = kahn otherLt (fun e => e.prevEventIDs) (evs.map prevNode) := rfl

/-- nodes built from events by a function that stores the event: IDs identify nodes when they identify events -/
theorem mapNode_ids {κ : Type} (mk : Event → KNode κ) (hmk : ∀ e, (mk e).ev = e) {l1 l2 : List Event} (hU : IdsIn (l1 ++ l2)) :
    ∀ a ∈ l1.map mk ++ l2.map mk, ∀ b ∈ l1.map mk ++ l2.map mk, a.ev.eventID = b.ev.eventID → a = b := by
  intro a ha b hb hab
  rw [← List.map_append] at ha hb
  obtain ⟨x, hx, rfl⟩ := List.mem_map.mp ha
  obtain ⟨y, hy, rfl⟩ := List.mem_map.mp hb
  rw [hmk, hmk] at hab
  rw [hU x y hx hy hab]

theorem reverseTopoAuth_input_order_irrelevant (authMap : List Event) (createEv : Option Event) {l1 l2 : List Event}
    (hU : IdsIn (l1 ++ l2)) (h : SameSet l1 l2) :
    reverseTopoAuth authMap createEv l1 = reverseTopoAuth authMap createEv l2 := by
  rw [reverseTopoAuth_eq_kahn, reverseTopoAuth_eq_kahn]
  refine kahn_input_order_irrelevant powerLt powerLt_strictTotal _ _ _
    (mapNode_ids (authNode authMap createEv) (fun _ => rfl) hU) ?_ (h.map _)
  intro a ha b hb hk
  obtain ⟨x, _, rfl⟩ := List.mem_map.mp ha
  obtain ⟨y, _, rfl⟩ := List.mem_map.mp hb
  exact congrArg PowerKey.id hk

theorem reverseTopoPrev_input_order_irrelevant {l1 l2 : List Event} (hU : IdsIn (l1 ++ l2)) (h : SameSet l1 l2) :
    reverseTopoPrev l1 = reverseTopoPrev l2 := by
  rw [reverseTopoPrev_eq_kahn, reverseTopoPrev_eq_kahn]
  refine kahn_input_order_irrelevant otherLt otherLt_strictTotal _ _ _
    (mapNode_ids prevNode (fun _ => rfl) hU) ?_ (h.map _)
  intro a ha b hb hk
  obtain ⟨x, _, rfl⟩ := List.mem_map.mp ha
  obtain ⟨y, _, rfl⟩ := List.mem_map.mp hb
  exact congrArg OtherKey.id hk

theorem reverseTopoAuth_subset (authMap : List Event) (createEv : Option Event) {l : List Event} {e : Event}
    (h : e ∈ reverseTopoAuth authMap createEv l) : e ∈ l := by
  rw [reverseTopoAuth_eq_kahn] at h
  obtain ⟨n, hn, rfl⟩ := kahn_subset _ _ _ h
  obtain ⟨x, hx, rfl⟩ := List.mem_map.mp hn
  exact hx

theorem reverseTopoPrev_subset {l : List Event} {e : Event} (h : e ∈ reverseTopoPrev l) : e ∈ l := by
  rw [reverseTopoPrev_eq_kahn] at h
  obtain ⟨n, hn, rfl⟩ := kahn_subset _ _ _ h
  obtain ⟨x, hx, rfl⟩ := List.mem_map.mp hn
  exact hx

end V.StateRes
