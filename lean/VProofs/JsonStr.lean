/- Strings: what `compactString` makes of a string body that `parseString` accepts (L1, string part).
   Core only. -/
import VProofs.JsonFuel
import VProofs.JsonBytes
namespace V.Json

/-! ### `compactUnicodeEscape` on the escapes a valid string can contain -/

theorem cue_nonsurr (a b c d : UInt8) (rest : Bytes) (h : isSurrogate (hex4 a b c d) = false) :
    compactUnicodeEscape (a :: b :: c :: d :: rest) = .ok (encodeStringBody (utf8Encode (hex4 a b c d)), rest) := by
  unfold compactUnicodeEscape
  simp only []
  split
  · rename_i h1
    rw [esb_control _ h1]
    split <;> rfl
  · rename_i h1
    split
    · rename_i h2
      simp only [Bool.or_eq_true, beq_iff_eq] at h2
      rcases h2 with h2 | h2 <;> rw [h2] <;> first | rw [esb_cp_quote] | rw [esb_cp_backslash]
    · rename_i h2
      simp only [Bool.or_eq_true, beq_iff_eq, not_or] at h2
      simp only [h, Bool.false_eq_true, ↓reduceIte]
      rw [esb_utf8Encode _ (by omega) h2.2 h2.1]

theorem isSurrogate_ge {cp : Nat} (h : isSurrogate cp = true) : 0xD800 ≤ cp := by
  simp [isSurrogate] at h; omega

theorem cue_pair (a b c d a2 b2 c2 d2 : UInt8) (rest : Bytes) (h : isSurrogate (hex4 a b c d) = true) :
    compactUnicodeEscape (a :: b :: c :: d :: 0x5C :: 0x75 :: a2 :: b2 :: c2 :: d2 :: rest) =
      .ok (encodeStringBody (utf8Encode (decodeSurrogates (hex4 a b c d) (hex4 a2 b2 c2 d2))), rest) := by
  have hge := isSurrogate_ge h
  have h1 : ¬ hex4 a b c d < 0x20 := by omega
  have h2 : (hex4 a b c d == 0x5C || hex4 a b c d == 0x22) = false := by
    simp only [Bool.or_eq_false_iff, beq_eq_false_iff_ne]; omega
  have hd := decodeSurrogates_ge (hex4 a b c d) (hex4 a2 b2 c2 d2)
  rw [esb_utf8Encode _ (by omega) (by omega) (by omega)]
  unfold compactUnicodeEscape
  simp [h1, h2, h]

/-! ### `noLoneSurr` step by step -/

theorem noLoneSurr_cons (c : UInt8) (rest : Bytes) :
    noLoneSurr (c :: rest) =
      if c == 0x5C then
        match rest with
        | [] => true
        | e :: rest1 =>
          if e == 0x75 then
            match rest1 with
            | a :: b :: c2 :: d :: rest2 =>
              if isSurrogate (hex4 a b c2 d) then
                match rest2 with
                | x :: y :: _ :: _ :: _ :: _ :: rest3 => x == 0x5C && y == 0x75 && noLoneSurr rest3
                | _ => false
              else noLoneSurr rest2
            | _ => true
          else noLoneSurr rest1
      else noLoneSurr rest := by
  conv => lhs; unfold noLoneSurr
  rfl

theorem noLoneSurr_byte (c : UInt8) (r : Bytes) (h : (c == 0x5C) = false) :
    noLoneSurr (c :: r) = noLoneSurr r := by
  rw [noLoneSurr_cons]; simp [h]

theorem noLoneSurr_esc (e : UInt8) (r : Bytes) (h : (e == 0x75) = false) :
    noLoneSurr (0x5C :: e :: r) = noLoneSurr r := by
  rw [noLoneSurr_cons]; simp [h]

theorem noLoneSurr_u (a b c d : UInt8) (r : Bytes) (h : isSurrogate (hex4 a b c d) = false) :
    noLoneSurr (0x5C :: 0x75 :: a :: b :: c :: d :: r) = noLoneSurr r := by
  rw [noLoneSurr_cons]; simp [h]

theorem noLoneSurr_pair (a b c d a2 b2 c2 d2 : UInt8) (r : Bytes) (h : isSurrogate (hex4 a b c d) = true) :
    noLoneSurr (0x5C :: 0x75 :: a :: b :: c :: d :: 0x5C :: 0x75 :: a2 :: b2 :: c2 :: d2 :: r) = noLoneSurr r := by
  rw [noLoneSurr_cons]; simp [h]

/-- Does the input start with `\u` and four more bytes? -/
def uEscHead : Bytes → Bool
  | x :: y :: _ :: _ :: _ :: _ :: _ => x == 0x5C && y == 0x75
  | _ => false

theorem uEscHead_prefix (r q : Bytes) (h : uEscHead (r ++ q) = false) : uEscHead r = false := by
  rcases r with _ | ⟨x, _ | ⟨y, _ | ⟨a, _ | ⟨b, _ | ⟨c, _ | ⟨d, r⟩⟩⟩⟩⟩⟩ <;> first | rfl | exact h

theorem noLoneSurr_lone (a b c d : UInt8) (r : Bytes) (h : isSurrogate (hex4 a b c d) = true)
    (hu : uEscHead r = false) : noLoneSurr (0x5C :: 0x75 :: a :: b :: c :: d :: r) = false := by
  rw [noLoneSurr_cons]
  simp only [beq_self_eq_true, ↓reduceIte, h]
  rcases r with _ | ⟨x, _ | ⟨y, _ | ⟨a, _ | ⟨b, _ | ⟨c, _ | ⟨d, r⟩⟩⟩⟩⟩⟩ <;> try rfl
  simp only [uEscHead] at hu
  simp [hu]

/-! ### The per-item lemmas -/

/-- The compactor turns the raw string body `r` (followed by the closing quote) into the canonical
    spelling of its decoding `d` — provided `r` has no lone surrogate escape. -/
def StrOK (r d : Bytes) : Prop :=
  noLoneSurr r = true → ∀ rest acc : Bytes,
    compactStr (r ++ 0x22 :: rest) acc = .ok (acc ++ encodeStringBody d ++ [0x22], rest)

theorem strOK_nil : StrOK [] [] := by
  intro _ rest acc
  simp [compactStr_quote, esb_nil]

theorem strOK_plain (c : UInt8) {r d : Bytes} (h1 : (c == 0x22) = false) (h2 : ¬ c < 0x20) (h3 : (c == 0x5C) = false)
    (ih : StrOK r d) : StrOK (c :: r) (c :: d) := by
  intro hn rest acc
  rw [noLoneSurr_byte c r h3] at hn
  rw [List.cons_append, compactStr_byte c _ _ h3 h1, ih hn,
    esb_plain_cons c d (by simp [plainByte, h1, h2, h3])]
  simp

theorem strOK_slash {r d : Bytes} (ih : StrOK r d) : StrOK (0x5C :: 0x2F :: r) (0x2F :: d) := by
  intro hn rest acc
  rw [noLoneSurr_esc _ r (by decide)] at hn
  rw [List.cons_append, List.cons_append, compactStr_slash, ih hn, esb_plain_cons 0x2F d (by decide)]
  simp

theorem strOK_esc (e x : UInt8) {r d : Bytes} (h1 : (e == 0x75) = false) (h2 : (e == 0x2F) = false)
    (hx : encodeStringBody [x] = [0x5C, e]) (ih : StrOK r d) : StrOK (0x5C :: e :: r) (x :: d) := by
  intro hn rest acc
  rw [noLoneSurr_esc _ r h1] at hn
  rw [List.cons_append, List.cons_append, compactStr_esc e _ _ h1 h2, ih hn]
  have : encodeStringBody (x :: d) = [0x5C, e] ++ encodeStringBody d := by
    rw [← hx, ← esb_append]; rfl
  rw [this]; simp

theorem strOK_u (a b c d4 : UInt8) {r d : Bytes} (h : isSurrogate (hex4 a b c d4) = false) (ih : StrOK r d) :
    StrOK (0x5C :: 0x75 :: a :: b :: c :: d4 :: r) (utf8Encode (hex4 a b c d4) ++ d) := by
  intro hn rest acc
  rw [noLoneSurr_u a b c d4 r h] at hn
  simp only [List.cons_append]
  rw [compactStr_u _ _ _ _ (cue_nonsurr a b c d4 _ h), ih hn, esb_append]
  simp

theorem strOK_pair (a b c d4 a2 b2 c2 d2 : UInt8) {r d : Bytes} (h : isSurrogate (hex4 a b c d4) = true)
    (ih : StrOK r d) :
    StrOK (0x5C :: 0x75 :: a :: b :: c :: d4 :: 0x5C :: 0x75 :: a2 :: b2 :: c2 :: d2 :: r)
      (utf8Encode (decodeSurrogates (hex4 a b c d4) (hex4 a2 b2 c2 d2)) ++ d) := by
  intro hn rest acc
  rw [noLoneSurr_pair a b c d4 a2 b2 c2 d2 r h] at hn
  simp only [List.cons_append]
  rw [compactStr_u _ _ _ _ (cue_pair a b c d4 a2 b2 c2 d2 _ h), ih hn, esb_append]
  simp

theorem strOK_lone (a b c d4 : UInt8) {r d' : Bytes} (h : isSurrogate (hex4 a b c d4) = true)
    (hu : uEscHead r = false) : StrOK (0x5C :: 0x75 :: a :: b :: c :: d4 :: r) d' := by
  intro hn
  rw [noLoneSurr_lone a b c d4 r h hu] at hn
  cases hn

/-! ### What `parseString` accepts -/

theorem parseString_succ (f : Nat) (c : UInt8) (rest raw dec : Bytes) :
    parseString (f + 1) (c :: rest) raw dec =
    if c == 0x22 then some (raw, dec, rest)
    else if c < 0x20 then none
    else if c == 0x5C then
      match rest with
      | [] => none
      | e :: rest' =>
        match simpleEscape e with
        | some x => parseString f rest' (raw ++ [c, e]) (dec ++ [x])
        | none =>
          if e == 0x75 then
            match parseUEscape rest' with
            | some (ru, du, rest'') => parseString f rest'' (raw ++ c :: e :: ru) (dec ++ du)
            | none => none
          else none
    else parseString f rest (raw ++ [c]) (dec ++ [c]) := by
  conv => lhs; unfold parseString
  rfl

/-- The two-character escapes: the compactor keeps them, except `\/` which becomes `/`. -/
theorem simpleEscape_strOK (e x : UInt8) {r d : Bytes} (h : simpleEscape e = some x) (ih : StrOK r d) :
    StrOK (0x5C :: e :: r) (x :: d) := by
  unfold simpleEscape at h
  repeat' split at h
  all_goals first
    | (rename_i he; have he' := eq_of_beq he; subst he'
       simp only [Option.some.injEq] at h; subst h
       first
         | exact strOK_slash ih
         | exact strOK_esc _ _ (by decide) (by decide) (by decide) ih)
    | (cases h; done)

theorem parseUEscape_strOK {s ru du s' : Bytes} (h : parseUEscape s = some (ru, du, s')) :
    s = ru ++ s' ∧ ∀ r q d, s' = r ++ q → StrOK r d → StrOK (0x5C :: 0x75 :: ru ++ r) (du ++ d) := by
  unfold parseUEscape at h
  split at h
  · rename_i a b c2 d4 rest''
    split at h
    · split at h
      · rename_i hs
        split at h
        · rename_i x y a2 b2 c3 d2 rest3
          split at h
          · rename_i hxy
            simp only [Bool.and_eq_true, beq_iff_eq] at hxy
            obtain ⟨rfl, rfl⟩ := hxy
            split at h
            · simp only [Option.some.injEq, Prod.mk.injEq] at h
              obtain ⟨rfl, rfl, rfl⟩ := h
              exact ⟨by simp, fun r q d _ ih => strOK_pair a b c2 d4 a2 b2 c3 d2 hs ih⟩
            · cases h
          · rename_i hxy
            simp only [Option.some.injEq, Prod.mk.injEq] at h
            obtain ⟨rfl, rfl, rfl⟩ := h
            refine ⟨by simp, fun r q d hrq _ => strOK_lone a b c2 d4 hs (uEscHead_prefix r q ?_)⟩
            rw [← hrq]; simpa [uEscHead] using hxy
        · rename_i hno
          simp only [Option.some.injEq, Prod.mk.injEq] at h
          obtain ⟨rfl, rfl, rfl⟩ := h
          refine ⟨by simp, fun r q d hrq _ => strOK_lone a b c2 d4 hs (uEscHead_prefix r q ?_)⟩
          rw [← hrq]
          unfold uEscHead
          split
          · exact absurd rfl (hno _ _ _ _ _ _ _)
          · rfl
      · rename_i hs
        simp only [Option.some.injEq, Prod.mk.injEq] at h
        obtain ⟨rfl, rfl, rfl⟩ := h
        exact ⟨by simp, fun r q d _ ih => strOK_u a b c2 d4 (by simpa using hs) ih⟩
    · cases h
  · cases h

/-- A string body accepted by the parser splits the input as `r ++ '"' :: rest`; `r` is the raw
    spelling returned, and the compactor maps it to the canonical spelling of the decoding. -/
theorem parseString_strOK : ∀ (f : Nat) (s raw dec raw' dec' rest : Bytes),
    parseString f s raw dec = some (raw', dec', rest) →
    ∃ r d, raw' = raw ++ r ∧ dec' = dec ++ d ∧ s = r ++ 0x22 :: rest ∧ StrOK r d
  | 0, _, _, _, _, _, _, h => by simp [parseString] at h
  | _ + 1, [], _, _, _, _, _, h => by simp [parseString] at h
  | f + 1, c :: rest0, raw, dec, raw', dec', rest, h => by
    rw [parseString_succ] at h
    split at h
    · -- closing quote
      rename_i hq
      simp only [Option.some.injEq, Prod.mk.injEq] at h
      obtain ⟨rfl, rfl, rfl⟩ := h
      exact ⟨[], [], by simp, by simp, by simp [eq_of_beq hq], strOK_nil⟩
    · rename_i hq
      split at h
      · cases h
      · rename_i hlt
        split at h
        · rename_i hbs
          have hc : c = 0x5C := eq_of_beq hbs
          subst hc
          split at h
          · cases h
          · rename_i e rest1
            split at h
            · rename_i x hx
              obtain ⟨r, d, h1, h2, h3, h4⟩ := parseString_strOK f _ _ _ _ _ _ h
              exact ⟨0x5C :: e :: r, x :: d, by simp [h1], by simp [h2], by simp [h3],
                simpleEscape_strOK e x hx h4⟩
            · split at h
              · rename_i hu
                have he : e = 0x75 := eq_of_beq hu
                subst he
                split at h
                · rename_i ru du rest2 hpu
                  obtain ⟨r, d, h1, h2, h3, h4⟩ := parseString_strOK f _ _ _ _ _ _ h
                  obtain ⟨hs, hk⟩ := parseUEscape_strOK hpu
                  exact ⟨0x5C :: 0x75 :: ru ++ r, du ++ d, by simp [h1], by simp [h2], by simp [hs, h3],
                    hk r _ d h3 h4⟩
                · cases h
              · cases h
        · rename_i hbs
          obtain ⟨r, d, h1, h2, h3, h4⟩ := parseString_strOK f _ _ _ _ _ _ h
          exact ⟨c :: r, c :: d, by simp [h1], by simp [h2], by simp [h3],
            strOK_plain c (by simpa using hq) hlt (by simpa using hbs) h4⟩

/-- The form used for a complete string (`raw = dec = []`). -/
theorem parseString_compact {f : Nat} {s raw dec rest : Bytes} (h : parseString f s [] [] = some (raw, dec, rest))
    (hn : noLoneSurr raw = true) (acc : Bytes) :
    compactStr s acc = .ok (acc ++ encodeStringBody dec ++ [0x22], rest) ∧ s = raw ++ 0x22 :: rest := by
  obtain ⟨r, d, h1, h2, h3, h4⟩ := parseString_strOK f _ _ _ _ _ _ h
  simp only [List.nil_append] at h1 h2
  subst h1 h2
  exact ⟨h3 ▸ h4 hn rest acc, h3⟩

end V.Json
