/-
  C10, Kahn's algorithm, part 2: the inner fold of one iteration (`StepInv`), the loop invariant in exact-count
  form (`KInv`, preserved by `kahn_iter`), the loop as a whole (`kahnLoop_run`), and the corollaries:
  `kahnNodes_perm` (no hypothesis), no strays / `kahnNodes_topological` (acyclic input),
  `kahnNodes_is_power_order` (strict total order on keys identifying the nodes, acyclic input) and the
  event-level `reverseTopoAuth_is_power_order`.  Core only.
-/
import VProofs.StateResSpecKahn
namespace V.StateRes
open V Json List
open V.StateResSpec (Free IsPowerOrder)

variable {κ : Type}

/-! ## (b) The inner fold of one iteration -/

/-- Invariant of the `foldl` over the parents of the popped node: `Q` are the parents still to be processed,
    `U'` the unplaced nodes without the popped one, `K` the (constant) key set of the table. -/
structure StepInv (parents : Event → List ID) (K : List ID) (U' : List (KNode κ)) (Q : List ID)
    (s : List (ID × Nat) × List (KNode κ) × List (KNode κ)) : Prop where
  keys : keysOf s.1 = K
  val : ∀ id, degVal s.1 id = childCount parents U' id + Q.count id
  perm : (s.2.1 ++ s.2.2) ~ U'
  pos : ∀ n ∈ s.2.1, 0 < degVal s.1 n.ev.eventID
  zero : ∀ n ∈ s.2.2, degVal s.1 n.ev.eventID = 0

theorem decStep_inv {parents : Event → List ID} {K : List ID} {U' : List (KNode κ)} {p : ID} {Q : List ID}
    {s : List (ID × Nat) × List (KNode κ) × List (KNode κ)}
    (hU : NodeIdNodup U') (hK : ∀ n ∈ U', n.ev.eventID ∈ K) (h : StepInv parents K U' (p :: Q) s) :
    StepInv parents K U' Q (decStep s p) := by
  obtain ⟨deg, rem, ni⟩ := s
  have hkeys : keysOf (decTable deg p) = K := by rw [keysOf_decTable]; exact h.keys
  have hv : ∀ id, degVal (decTable deg p) id = childCount parents U' id + Q.count id := by
    intro id
    have := h.val id
    simp only [] at this
    rw [degVal_decTable, this, List.count_cons]
    by_cases e : id = p
    · subst e; simp
    · have e' : (p == id) = false := by
        have : ¬ p = id := fun e'' => e e''.symm
        simpa using this
      simp [e, e']
  have hle : ∀ id, degVal (decTable deg p) id ≤ degVal deg id := by
    intro id; rw [degVal_decTable]; omega
  have hne : ∀ id, id ≠ p → degVal (decTable deg p) id = degVal deg id := by
    intro id e; rw [degVal_decTable, if_neg e]; omega
  have hpos := h.pos
  have hzero := h.zero
  have hperm := h.perm
  simp only [] at hpos hzero hperm
  have hzero' : ∀ n ∈ ni, degVal (decTable deg p) n.ev.eventID = 0 := by
    intro n hn
    have := hle n.ev.eventID
    rw [hzero n hn] at this; omega
  unfold decStep
  simp only []
  split
  · rename_i h0
    rw [degOf_beq_zero] at h0
    split
    · rename_i n hn
      have hmem : n ∈ rem := List.mem_of_find?_eq_some hn
      have hid : n.ev.eventID = p := by simpa using List.find?_some hn
      have hremU : NodeIdNodup rem := by
        have := hU.perm hperm.symm
        unfold NodeIdNodup at *
        rw [List.map_append, List.nodup_append] at this
        exact this.1
      refine ⟨hkeys, hv, ?_, ?_, ?_⟩
      · simp only []
        have h1 : rem ~ n :: rem.filter (fun m => m.ev.eventID != p) := by
          have := filter_ne_perm hremU hmem
          rw [hid] at this; exact this
        have h2 : rem.filter (fun m => m.ev.eventID != p) ++ (ni ++ [n]) ~
            n :: (rem.filter (fun m => m.ev.eventID != p) ++ ni) := by
          rw [← List.append_assoc]; exact perm_append_comm (l₂ := [n])
        exact h2.trans ((h1.append_right ni).symm.trans hperm)
      · intro m hm
        simp only [List.mem_filter] at hm
        have : m.ev.eventID ≠ p := by simpa using hm.2
        rw [hne _ this]; exact hpos m hm.1
      · intro m hm
        rcases List.mem_append.mp hm with hm | hm
        · exact hzero' m hm
        · simp only [List.mem_singleton] at hm
          subst hm; rw [hid]; exact h0.2
    · rename_i hn
      rw [List.find?_eq_none] at hn
      refine ⟨hkeys, hv, hperm, ?_, hzero'⟩
      intro m hm
      have : m.ev.eventID ≠ p := by simpa using hn m hm
      rw [hne _ this]; exact hpos m hm
  · rename_i h0
    rw [degOf_beq_zero] at h0
    refine ⟨hkeys, hv, hperm, ?_, hzero'⟩
    intro m hm
    by_cases e : m.ev.eventID = p
    · have hk : p ∈ keysOf (decTable deg p) := by
        rw [hkeys, ← e]
        exact hK m (hperm.mem_iff.mp (List.mem_append_left _ hm))
      rw [e]
      have : ¬ degVal (decTable deg p) p = 0 := fun hz => h0 ⟨hk, hz⟩
      exact Nat.pos_of_ne_zero this
    · rw [hne _ e]; exact hpos m hm

theorem foldl_decStep_inv {parents : Event → List ID} {K : List ID} {U' : List (KNode κ)}
    (hU : NodeIdNodup U') (hK : ∀ n ∈ U', n.ev.eventID ∈ K) :
    ∀ (Q : List ID) (s : List (ID × Nat) × List (KNode κ) × List (KNode κ)),
      StepInv parents K U' Q s → StepInv parents K U' [] (Q.foldl decStep s)
  | [], _, h => h
  | _ :: Q, _, h => foldl_decStep_inv hU hK Q _ (decStep_inv hU hK h)


/-! ## (b) The loop invariant (exact-count form) -/

/-- Invariant of `kahnLoop` for the state (remaining `R`, table `D`, noIncoming `N`); `U = R ++ N` are the
    unplaced nodes.  (Sortedness of `N` is re-established by `sortBy` in every iteration and is kept apart,
    so that the permutation result needs no hypothesis on `lt`.) -/
structure KInv (parents : Event → List ID) (R : List (KNode κ)) (D : List (ID × Nat)) (N : List (KNode κ)) : Prop where
  keysNodup : (keysOf D).Nodup
  keysN : ∀ n ∈ R ++ N, n.ev.eventID ∈ keysOf D
  keysP : ∀ n ∈ R ++ N, ∀ p ∈ parents n.ev, p ∈ keysOf D
  val : ∀ id, degVal D id = childCount parents (R ++ N) id
  zeroN : ∀ n ∈ N, childCount parents (R ++ N) n.ev.eventID = 0
  posR : ∀ n ∈ R, 0 < childCount parents (R ++ N) n.ev.eventID
  idNodup : NodeIdNodup (R ++ N)

/-- (I1) in lookup form: every key of the table holds the exact child count among the unplaced nodes -/
theorem KInv.lookup {parents : Event → List ID} {R N : List (KNode κ)} {D : List (ID × Nat)} (h : KInv parents R D N)
    {id : ID} (hk : id ∈ keysOf D) :
    (D.find? (fun d => d.1 == id)).map (·.2) = some (childCount parents (R ++ N) id) := by
  have := degOf_eq_some (D := D) (id := id) (v := childCount parents (R ++ N) id)
  unfold degOf at this
  exact this.mpr ⟨hk, h.val id⟩

/-- one iteration preserves the invariant; the unplaced nodes lose exactly the popped node -/
theorem kahn_iter (lt : κ → κ → Bool) {parents : Event → List ID} {R noInc : List (KNode κ)} {node : KNode κ}
    {D : List (ID × Nat)} (h : KInv parents R D (noInc ++ [node])) :
    KInv parents ((parents node.ev).foldl decStep (D, R, noInc)).2.1 ((parents node.ev).foldl decStep (D, R, noInc)).1
        (sortBy (fun a b => lt a.key b.key) ((parents node.ev).foldl decStep (D, R, noInc)).2.2) ∧
      (((parents node.ev).foldl decStep (D, R, noInc)).2.1 ++ ((parents node.ev).foldl decStep (D, R, noInc)).2.2)
        ~ (R ++ noInc) := by
  have hsub : ∀ n ∈ R ++ noInc, n ∈ R ++ (noInc ++ [node]) := by
    intro n hn; rw [← List.append_assoc]; exact List.mem_append_left _ hn
  have hU : NodeIdNodup (R ++ noInc) := by
    have := h.idNodup
    unfold NodeIdNodup at *
    rw [← List.append_assoc, List.map_append, List.nodup_append] at this
    exact this.1
  have hK : ∀ n ∈ R ++ noInc, n.ev.eventID ∈ keysOf D := fun n hn => h.keysN n (hsub n hn)
  have hcc : ∀ id, childCount parents (R ++ (noInc ++ [node])) id =
      childCount parents (R ++ noInc) id + (parents node.ev).count id := by
    intro id
    rw [← List.append_assoc, childCount_append _ (R ++ noInc), childCount_cons, childCount_nil]; omega
  have h0 : StepInv parents (keysOf D) (R ++ noInc) (parents node.ev) (D, R, noInc) := by
    refine ⟨rfl, ?_, Perm.refl _, ?_, ?_⟩
    · intro id; rw [← hcc]; exact h.val id
    · intro n hn
      show 0 < degVal D n.ev.eventID
      rw [h.val]; exact h.posR n hn
    · intro n hn
      show degVal D n.ev.eventID = 0
      rw [h.val]; exact h.zeroN n (List.mem_append_left _ hn)
  have hf := foldl_decStep_inv hU hK _ _ h0
  generalize (parents node.ev).foldl decStep (D, R, noInc) = s at hf ⊢
  obtain ⟨deg2, rem2, ni2⟩ := s
  have hperm : rem2 ++ ni2 ~ R ++ noInc := hf.perm
  have hkeys : keysOf deg2 = keysOf D := hf.keys
  have hval : ∀ id, degVal deg2 id = childCount parents (R ++ noInc) id := by
    intro id; have := hf.val id; simpa using this
  have hperm' : rem2 ++ sortBy (fun a b => lt a.key b.key) ni2 ~ R ++ noInc :=
    ((sortBy_perm _ ni2).append_left rem2).trans hperm
  have hmem : ∀ n ∈ rem2 ++ sortBy (fun a b => lt a.key b.key) ni2, n ∈ R ++ (noInc ++ [node]) :=
    fun n hn => hsub n (hperm'.mem_iff.mp hn)
  have hcc' : ∀ id, childCount parents (rem2 ++ sortBy (fun a b => lt a.key b.key) ni2) id = degVal deg2 id := by
    intro id; rw [hval, childCount_perm parents hperm']
  refine ⟨⟨?_, ?_, ?_, ?_, ?_, ?_, ?_⟩, hperm⟩
  · show (keysOf deg2).Nodup
    rw [hkeys]; exact h.keysNodup
  · intro n hn
    show n.ev.eventID ∈ keysOf deg2
    rw [hkeys]; exact h.keysN n (hmem n hn)
  · intro n hn p hp
    show p ∈ keysOf deg2
    rw [hkeys]; exact h.keysP n (hmem n hn) p hp
  · intro id; exact (hcc' id).symm
  · intro n hn
    rw [hcc']
    exact hf.zero n ((mem_sortBy _).mp hn)
  · intro n hn
    rw [hcc']
    exact hf.pos n hn
  · exact hU.perm hperm'.symm

/-! ## Backward greedy runs -/

/-- `out` read from its END is a greedy run over the unplaced elements, `S` being the elements that are
    never placed (strays): every element is free among the elements unplaced at that moment and `lt`-greatest
    of the free ones. -/
def GreedyRun {α : Type} (lt child : α → α → Prop) (S out : List α) : Prop :=
  ∀ pre x post, out = pre ++ x :: post →
    Free child (S ++ pre ++ [x]) x ∧ ∀ y ∈ S ++ pre, Free child (S ++ pre ++ [x]) y → lt y x

theorem GreedyRun.nil {α : Type} (lt child : α → α → Prop) (S : List α) : GreedyRun lt child S [] := by
  intro pre x post e
  cases pre <;> cases e

theorem GreedyRun.snoc {α : Type} {lt child : α → α → Prop} {S out : List α} {x : α} (h : GreedyRun lt child S out)
    (hf : Free child (S ++ out ++ [x]) x) (hg : ∀ y ∈ S ++ out, Free child (S ++ out ++ [x]) y → lt y x) :
    GreedyRun lt child S (out ++ [x]) := by
  intro pre y post e
  rcases eq_nil_or_snoc post with rfl | ⟨post', z, rfl⟩
  · have := List.append_inj' e rfl
    obtain ⟨e1, e2⟩ := this
    cases e2; subst e1
    exact ⟨hf, hg⟩
  · have e' : out ++ [x] = (pre ++ y :: post') ++ [z] := by rw [e]; simp
    have := List.append_inj' e' rfl
    exact h pre y post' this.1


/-! ## The loop as a whole -/

/-- What `kahnLoop` returns from a state satisfying the invariant, with enough fuel: the graph grows by the
    list `placed`; strays and placed nodes together are the unplaced nodes; every stray still has a child
    among the strays; and (for a strict total order on keys that identify the unplaced nodes, `N` sorted)
    `placed` is a backward greedy run. -/
theorem kahnLoop_run (lt : κ → κ → Bool) (parents : Event → List ID) :
    ∀ (fuel : Nat) (R : List (KNode κ)) (D : List (ID × Nat)) (N G : List (KNode κ)),
      KInv parents R D N → R.length + N.length ≤ fuel →
      ∃ placed, (kahnLoop lt parents fuel R D N G).2 = placed ++ G ∧
        ((kahnLoop lt parents fuel R D N G).1 ++ placed) ~ (R ++ N) ∧
        (∀ n ∈ (kahnLoop lt parents fuel R D N G).1,
          0 < childCount parents (kahnLoop lt parents fuel R D N G).1 n.ev.eventID) ∧
        GreedyRun (fun _ _ => True) (fun a x => x.ev.eventID ∈ parents a.ev)
          (kahnLoop lt parents fuel R D N G).1 placed ∧
        (StrictTotal lt → KeyInj KNode.key (R ++ N) → SortedBy lt KNode.key N →
          GreedyRun (fun a b => lt a.key b.key = true) (fun a x => x.ev.eventID ∈ parents a.ev)
            (kahnLoop lt parents fuel R D N G).1 placed) := by
  intro fuel
  induction fuel with
  | zero =>
    intro R D N G h hl
    have hN : N = [] := List.eq_nil_of_length_eq_zero (by omega)
    subst hN
    rw [kahnLoop_nil]
    refine ⟨[], rfl, Perm.refl _, ?_, GreedyRun.nil _ _ _, fun _ _ _ => GreedyRun.nil _ _ _⟩
    intro n hn
    have := h.posR n hn
    simpa using this
  | succ fuel ih =>
    intro R D N G h hl
    rcases eq_nil_or_snoc N with rfl | ⟨noInc, node, rfl⟩
    · rw [kahnLoop_nil]
      refine ⟨[], rfl, Perm.refl _, ?_, GreedyRun.nil _ _ _, fun _ _ _ => GreedyRun.nil _ _ _⟩
      intro n hn
      have := h.posR n hn
      simpa using this
    · rw [kahnLoop_snoc]
      obtain ⟨hinv, hperm⟩ := kahn_iter lt h
      generalize (parents node.ev).foldl decStep (D, R, noInc) = s at hinv hperm ⊢
      obtain ⟨deg2, rem2, ni2⟩ := s
      simp only [] at hinv hperm ⊢
      have hlen : rem2.length + (sortBy (fun a b => lt a.key b.key) ni2).length ≤ fuel := by
        have := hperm.length_eq
        rw [length_sortBy]
        simp only [List.length_append, List.length_cons, List.length_nil] at this hl
        omega
      obtain ⟨placed', hG, hP, hpos, hfr, hgr⟩ := ih rem2 deg2 (sortBy (fun a b => lt a.key b.key) ni2) (node :: G) hinv hlen
      generalize kahnLoop lt parents fuel rem2 deg2 (sortBy (fun a b => lt a.key b.key) ni2) (node :: G) = res
        at hG hP hpos hfr hgr ⊢
      have hperm' : rem2 ++ sortBy (fun a b => lt a.key b.key) ni2 ~ R ++ noInc :=
        ((sortBy_perm _ ni2).append_left rem2).trans hperm
      have hP' : res.1 ++ placed' ~ R ++ noInc := hP.trans hperm'
      -- every element of `res.1 ++ placed' ++ [node]` is an unplaced node of the current state
      have hmemU : ∀ a ∈ res.1 ++ placed' ++ [node], a ∈ R ++ (noInc ++ [node]) := by
        intro a ha
        rw [← List.append_assoc]
        rcases List.mem_append.mp ha with ha | ha
        · exact List.mem_append_left _ (hP'.mem_iff.mp ha)
        · exact List.mem_append_right _ ha
      have hmemU' : ∀ a ∈ R ++ (noInc ++ [node]), a ∈ res.1 ++ placed' ++ [node] := by
        intro a ha
        rw [← List.append_assoc] at ha
        rcases List.mem_append.mp ha with ha | ha
        · exact List.mem_append_left _ (hP'.mem_iff.mpr ha)
        · exact List.mem_append_right _ ha
      have hfreeNode : Free (fun a x => x.ev.eventID ∈ parents a.ev) (res.1 ++ placed' ++ [node]) node := by
        intro a ha
        have hz := h.zeroN node (by simp)
        rw [childCount_eq_zero] at hz
        exact hz a (hmemU a ha)
      refine ⟨placed' ++ [node], ?_, ?_, hpos, hfr.snoc hfreeNode (fun _ _ _ => trivial), ?_⟩
      · rw [hG]; simp
      · rw [← List.append_assoc, ← List.append_assoc]
        exact hP'.append_right [node]
      · intro hlt hkey hsorted
        have hkey' : KeyInj KNode.key (rem2 ++ sortBy (fun a b => lt a.key b.key) ni2) := by
          intro a ha b hb
          have ha' : a ∈ R ++ (noInc ++ [node]) := by
            rw [← List.append_assoc]; exact List.mem_append_left _ (hperm'.mem_iff.mp ha)
          have hb' : b ∈ R ++ (noInc ++ [node]) := by
            rw [← List.append_assoc]; exact List.mem_append_left _ (hperm'.mem_iff.mp hb)
          exact hkey a ha' b hb'
        have hg := hgr hlt hkey' (sortBy_sorted KNode.key hlt ni2)
        refine hg.snoc hfreeNode ?_
        · intro y hy hfree
          have hyU : y ∈ R ++ noInc := hP'.mem_iff.mp hy
          have hz : childCount parents (R ++ (noInc ++ [node])) y.ev.eventID = 0 := by
            rw [childCount_eq_zero]
            intro a ha
            exact hfree a (hmemU' a ha)
          have hyN : y ∈ noInc := by
            rcases List.mem_append.mp hyU with hyR | hyN
            · have := h.posR y hyR; omega
            · exact hyN
          have hle : lt node.key y.key = false := by
            unfold SortedBy at hsorted
            rw [List.pairwise_append] at hsorted
            exact hsorted.2.2 y hyN node (by simp)
          cases hyx : lt y.key node.key with
          | true => rfl
          | false =>
            exfalso
            have hk : y.key = node.key := hlt.total _ _ hyx hle
            have hyn : y = node := hkey y (List.mem_append_right _ (List.mem_append_left _ hyN)) node (by simp) hk
            have hnd := h.idNodup.nodup
            rw [List.nodup_append] at hnd
            have hnd2 := hnd.2.1
            rw [List.nodup_append] at hnd2
            exact hnd2.2.2 y hyN node (by simp) hyn


/-! ## The initial state -/

theorem kahn_init_inv (lt : κ → κ → Bool) (parents : Event → List ID) (nodes : List (KNode κ)) (hn : NodeIdNodup nodes) :
    KInv parents
      (nodes.filter (fun n => !(degOf (initDeg parents nodes) n.ev.eventID == some 0)))
      (initDeg parents nodes)
      (sortBy (fun a b => lt a.key b.key) (nodes.filter (fun n => degOf (initDeg parents nodes) n.ev.eventID == some 0))) ∧
    (nodes.filter (fun n => !(degOf (initDeg parents nodes) n.ev.eventID == some 0)) ++
      sortBy (fun a b => lt a.key b.key) (nodes.filter (fun n => degOf (initDeg parents nodes) n.ev.eventID == some 0)))
      ~ nodes := by
  generalize hD : initDeg parents nodes = D
  have hperm : (nodes.filter (fun n => !(degOf D n.ev.eventID == some 0)) ++
      sortBy (fun a b => lt a.key b.key) (nodes.filter (fun n => degOf D n.ev.eventID == some 0))) ~ nodes :=
    ((sortBy_perm _ _).append_left _).trans
      (perm_append_comm.trans (List.filter_append_perm (fun n => degOf D n.ev.eventID == some 0) nodes))
  have hcc : ∀ id, childCount parents (nodes.filter (fun n => !(degOf D n.ev.eventID == some 0)) ++
      sortBy (fun a b => lt a.key b.key) (nodes.filter (fun n => degOf D n.ev.eventID == some 0))) id = degVal D id := by
    intro id; rw [childCount_perm parents hperm, ← hD, degVal_initDeg]
  have hkN : ∀ n ∈ nodes, n.ev.eventID ∈ keysOf D := by
    intro n hn; rw [← hD, mem_keysOf_initDeg]; exact Or.inl ⟨n, hn, rfl⟩
  refine ⟨⟨?_, ?_, ?_, ?_, ?_, ?_, ?_⟩, hperm⟩
  · rw [← hD]; exact initDeg_keys_nodup parents nodes
  · intro n hn; exact hkN n (hperm.mem_iff.mp hn)
  · intro n hn p hp
    rw [← hD, mem_keysOf_initDeg]; exact Or.inr ⟨n, hperm.mem_iff.mp hn, hp⟩
  · intro id; exact (hcc id).symm
  · intro n hn
    rw [hcc]
    have := (mem_sortBy _).mp hn
    simp only [List.mem_filter] at this
    exact (degOf_beq_zero.mp this.2).2
  · intro n hn
    rw [hcc]
    simp only [List.mem_filter, Bool.not_eq_true'] at hn
    have hne : ¬ (degOf D n.ev.eventID == some 0) = true := by rw [hn.2]; simp
    rw [degOf_beq_zero] at hne
    exact Nat.pos_of_ne_zero (fun hz => hne ⟨hkN n hn.1, hz⟩)
  · exact hn.perm hperm.symm

/-- `kahnNodes` = sorted strays followed by a backward greedy run over the deduped nodes -/
theorem kahnNodes_run (lt : κ → κ → Bool) (parents : Event → List ID) (nodes0 : List (KNode κ)) :
    ∃ rem placed, kahnNodes lt parents nodes0 = sortBy (fun a b => lt a.key b.key) rem ++ placed ∧
      (rem ++ placed) ~ dedupNodes nodes0 ∧
      (∀ n ∈ rem, 0 < childCount parents rem n.ev.eventID) ∧
      GreedyRun (fun _ _ => True) (fun a x => x.ev.eventID ∈ parents a.ev) rem placed ∧
      (StrictTotal lt → KeyInj KNode.key (dedupNodes nodes0) →
        GreedyRun (fun a b => lt a.key b.key = true) (fun a x => x.ev.eventID ∈ parents a.ev) rem placed) := by
  obtain ⟨hinv, hperm⟩ := kahn_init_inv lt parents (dedupNodes nodes0) (dedupNodes_idNodup nodes0)
  have hlen := hperm.length_eq
  simp only [List.length_append] at hlen
  obtain ⟨placed, hG, hP, hpos, hfr, hgr⟩ := kahnLoop_run lt parents ((dedupNodes nodes0).length + 1) _ _ _ [] hinv (by omega)
  refine ⟨_, placed, ?_, hP.trans hperm, hpos, hfr, ?_⟩
  · unfold kahnNodes
    simp only []
    rw [hG, List.append_nil]
  · intro hlt hkey
    refine hgr hlt ?_ (sortBy_sorted KNode.key hlt _)
    intro a ha b hb
    exact hkey a (hperm.mem_iff.mp ha) b (hperm.mem_iff.mp hb)

/-! ## (c) Corollaries -/

/-- the output enumerates the deduped nodes: no hypothesis on `lt`, no acyclicity (the fuel never runs out) -/
theorem kahnNodes_perm (lt : κ → κ → Bool) (parents : Event → List ID) (nodes0 : List (KNode κ)) :
    (kahnNodes lt parents nodes0) ~ (dedupNodes nodes0) := by
  obtain ⟨rem, placed, he, hP, _⟩ := kahnNodes_run lt parents nodes0
  rw [he]
  exact ((sortBy_perm _ rem).append_right placed).trans hP

theorem kahnNodes_idNodup (lt : κ → κ → Bool) (parents : Event → List ID) (nodes0 : List (KNode κ)) :
    NodeIdNodup (kahnNodes lt parents nodes0) :=
  (dedupNodes_idNodup nodes0).perm (kahnNodes_perm lt parents nodes0).symm

theorem exists_max {α} (f : α → Nat) : ∀ (l : List α), l ≠ [] → ∃ n ∈ l, ∀ m ∈ l, f m ≤ f n
  | [], h => absurd rfl h
  | [x], _ => ⟨x, by simp, by simp⟩
  | x :: y :: ys, _ => by
    obtain ⟨n, hn, hmax⟩ := exists_max f (y :: ys) (by simp)
    by_cases hx : f x ≤ f n
    · refine ⟨n, List.mem_cons_of_mem _ hn, ?_⟩
      intro m hm
      rcases List.mem_cons.mp hm with rfl | hm
      · exact hx
      · exact hmax m hm
    · refine ⟨x, List.mem_cons_self, ?_⟩
      intro m hm
      rcases List.mem_cons.mp hm with rfl | hm
      · exact Nat.le_refl _
      · have := hmax m hm; omega

/-- in an acyclic graph, a set of nodes each of which has a child in the set is empty -/
theorem strays_nil {parents : Event → List ID} {rem : List (KNode κ)}
    (hpos : ∀ n ∈ rem, 0 < childCount parents rem n.ev.eventID)
    (hacyc : ∃ rk : ID → Nat, ∀ n ∈ rem, ∀ p ∈ parents n.ev, (∃ n' ∈ rem, n'.ev.eventID = p) → rk p < rk n.ev.eventID) :
    rem = [] := by
  apply Classical.byContradiction
  intro hne
  obtain ⟨rk, hrk⟩ := hacyc
  obtain ⟨n, hn, hmax⟩ := exists_max (fun n => rk n.ev.eventID) rem hne
  obtain ⟨a, ha, hp⟩ := childCount_pos.mp (hpos n hn)
  have h1 := hrk a ha _ hp ⟨n, hn, rfl⟩
  have h2 : rk a.ev.eventID ≤ rk n.ev.eventID := hmax a ha
  omega

/-- acyclic input: no strays, the output is the backward greedy run -/
theorem kahnNodes_run_acyclic (lt : κ → κ → Bool) (parents : Event → List ID) (nodes0 : List (KNode κ))
    (hacyc : ∃ rk : ID → Nat, ∀ n ∈ nodes0, ∀ p ∈ parents n.ev, (∃ n' ∈ nodes0, n'.ev.eventID = p) → rk p < rk n.ev.eventID) :
    GreedyRun (fun _ _ => True) (fun a x => x.ev.eventID ∈ parents a.ev) [] (kahnNodes lt parents nodes0) ∧
    (StrictTotal lt → KeyInj KNode.key (dedupNodes nodes0) →
      GreedyRun (fun a b => lt a.key b.key = true) (fun a x => x.ev.eventID ∈ parents a.ev) [] (kahnNodes lt parents nodes0)) := by
  obtain ⟨rem, placed, he, hP, hpos, hfr, hgr⟩ := kahnNodes_run lt parents nodes0
  have hsub : ∀ n ∈ rem, n ∈ nodes0 := fun n hn => mem_dedupNodes (hP.mem_iff.mp (List.mem_append_left _ hn))
  have hrem : rem = [] := by
    apply strays_nil hpos
    obtain ⟨rk, hrk⟩ := hacyc
    refine ⟨rk, ?_⟩
    intro n hn p hp ⟨n', hn', e⟩
    exact hrk n (hsub n hn) p hp ⟨n', hsub n' hn', e⟩
  subst hrem
  have : kahnNodes lt parents nodes0 = placed := by rw [he]; rfl
  rw [this]
  exact ⟨hfr, hgr⟩

/-- under acyclicity nothing is a stray: the `kahnLoop` call of `kahn` ends with `rem = []` -/
theorem kahn_no_strays (lt : κ → κ → Bool) (parents : Event → List ID) (nodes0 : List (KNode κ))
    (hacyc : ∃ rk : ID → Nat, ∀ n ∈ nodes0, ∀ p ∈ parents n.ev, (∃ n' ∈ nodes0, n'.ev.eventID = p) → rk p < rk n.ev.eventID) :
    (kahnLoop lt parents ((dedupNodes nodes0).length + 1)
      ((dedupNodes nodes0).filter (fun n => !(degOf (initDeg parents (dedupNodes nodes0)) n.ev.eventID == some 0)))
      (initDeg parents (dedupNodes nodes0))
      (sortBy (fun a b => lt a.key b.key)
        ((dedupNodes nodes0).filter (fun n => degOf (initDeg parents (dedupNodes nodes0)) n.ev.eventID == some 0))) []).1 = [] := by
  obtain ⟨hinv, hperm⟩ := kahn_init_inv lt parents (dedupNodes nodes0) (dedupNodes_idNodup nodes0)
  have hlen := hperm.length_eq
  simp only [List.length_append] at hlen
  obtain ⟨placed, _, hP, hpos, _⟩ := kahnLoop_run lt parents ((dedupNodes nodes0).length + 1) _ _ _ [] hinv (by omega)
  have hsub : ∀ n ∈ (kahnLoop lt parents ((dedupNodes nodes0).length + 1) _ _ _ []).1, n ∈ nodes0 :=
    fun n hn => mem_dedupNodes ((hP.trans hperm).mem_iff.mp (List.mem_append_left _ hn))
  apply strays_nil hpos
  obtain ⟨rk, hrk⟩ := hacyc
  refine ⟨rk, ?_⟩
  intro n hn p hp ⟨n', hn', e⟩
  exact hrk n (hsub n hn) p hp ⟨n', hsub n' hn', e⟩

/-- acyclic input: reading `out = pre ++ x :: post`, no node of `pre ++ [x]` has `x` among its parents
    (every node comes after its parents present in the input); no hypothesis on `lt` -/
theorem kahnNodes_topological (lt : κ → κ → Bool) (parents : Event → List ID) (nodes0 : List (KNode κ))
    (hacyc : ∃ rk : ID → Nat, ∀ n ∈ nodes0, ∀ p ∈ parents n.ev, (∃ n' ∈ nodes0, n'.ev.eventID = p) → rk p < rk n.ev.eventID)
    {pre post : List (KNode κ)} {x : KNode κ} (e : kahnNodes lt parents nodes0 = pre ++ x :: post) :
    ∀ a ∈ pre ++ [x], x.ev.eventID ∉ parents a.ev := by
  have := ((kahnNodes_run_acyclic lt parents nodes0 hacyc).1 pre x post e).1
  intro a ha
  exact this a ha

/-! ## (d) The main theorem, node level -/

theorem kahnNodes_is_power_order (lt : κ → κ → Bool) (parents : Event → List ID) (nodes0 : List (KNode κ))
    (hlt : StrictTotal lt)
    (hid : ∀ n ∈ nodes0, ∀ n' ∈ nodes0, n.ev.eventID = n'.ev.eventID → n = n')
    (hkey : ∀ n ∈ nodes0, ∀ n' ∈ nodes0, n.key = n'.key → n = n')
    (hacyc : ∃ rk : ID → Nat, ∀ n ∈ nodes0, ∀ p ∈ parents n.ev, (∃ n' ∈ nodes0, n'.ev.eventID = p) → rk p < rk n.ev.eventID) :
    V.StateResSpec.IsPowerOrder (fun a b => lt a.key b.key = true) (fun a x => x.ev.eventID ∈ parents a.ev) nodes0
      (kahnNodes lt parents nodes0) := by
  have hperm := kahnNodes_perm lt parents nodes0
  have hk : KeyInj KNode.key (dedupNodes nodes0) :=
    fun a ha b hb => hkey a (mem_dedupNodes ha) b (mem_dedupNodes hb)
  have hg := (kahnNodes_run_acyclic lt parents nodes0 hacyc).2 hlt hk
  refine ⟨(kahnNodes_idNodup lt parents nodes0).nodup, ?_, ?_, ?_⟩
  · intro x; rw [hperm.mem_iff]; exact mem_dedupNodes_iff hid
  · intro pre x post e
    simpa using (hg pre x post e).1
  · intro pre x post e y hy hf
    have := (hg pre x post e).2 y (by simpa using hy) (by simpa using hf)
    exact this

end V.StateRes

/-! ## (e) Event level -/

namespace V.StateResSpec
open V Json List
open V.StateRes (ID PowerKey powerLt KNode kahnNodes kahn_eq_map StrictTotal powerLt_strictTotal kahnNodes_is_power_order)

theorem lookup_fun_eq_findByID : lookup = V.StateRes.findByID := rfl

/-- the specification's sender power is the model's -/
theorem senderPower_eq (m : List Event) (createEv : Option Event) (e : Event) :
    senderPower m createEv e = V.StateRes.senderPower m createEv e := rfl

/-- the Kahn node of an event for the power ordering -/
def powerNode (m : List Event) (createEv : Option Event) (e : Event) : KNode PowerKey :=
  { ev := e, key := powerKey m createEv e }

theorem reverseTopoAuth_eq (m : List Event) (createEv : Option Event) (evs : List Event) :
    V.StateRes.reverseTopoAuth m createEv evs =
      (kahnNodes powerLt (fun e => e.authEventIDs) (evs.map (powerNode m createEv))).map (·.ev) := rfl

/-- transfer of a power order of nodes `mk e` to the events -/
theorem IsPowerOrder.map_ev {κ : Type} (mk : Event → KNode κ) (hmk : ∀ e, (mk e).ev = e)
    {ltN childN : KNode κ → KNode κ → Prop} {ltE childE : Event → Event → Prop}
    (hlt : ∀ a b, ltN (mk a) (mk b) → ltE a b) (hch : ∀ a b, childN (mk a) (mk b) ↔ childE a b)
    {evs : List Event} {out : List (KNode κ)} (h : IsPowerOrder ltN childN (evs.map mk) out) :
    IsPowerOrder ltE childE evs (out.map (·.ev)) := by
  have hx : ∀ x ∈ out, mk x.ev = x := by
    intro x hx
    obtain ⟨e, _, rfl⟩ := List.mem_map.mp ((h.mem x).mp hx)
    rw [hmk]
  have hout : (out.map (·.ev)).map mk = out := by
    rw [List.map_map]
    conv => rhs; rw [← List.map_id out]
    exact List.map_congr_left (fun x hx' => hx x hx')
  generalize hE : out.map (·.ev) = outE at hout
  subst hout
  have hsplit : ∀ pre x post, outE = pre ++ x :: post →
      outE.map mk = pre.map mk ++ mk x :: post.map mk := by
    intro pre x post e; rw [e]; simp
  refine ⟨?_, ?_, ?_, ?_⟩
  · have := h.nodup
    rw [List.nodup_iff_pairwise_ne, List.pairwise_map] at this
    rw [List.nodup_iff_pairwise_ne]
    exact this.imp (fun {a b} hne heq => hne (by rw [heq]))
  · intro e
    constructor
    · intro he
      have : mk e ∈ evs.map mk := (h.mem _).mp (List.mem_map_of_mem he)
      obtain ⟨e', he', heq⟩ := List.mem_map.mp this
      have : e' = e := by rw [← hmk e', heq, hmk]
      rw [← this]; exact he'
    · intro he
      have : mk e ∈ outE.map mk := (h.mem _).mpr (List.mem_map_of_mem he)
      obtain ⟨e', he', heq⟩ := List.mem_map.mp this
      have : e' = e := by rw [← hmk e', heq, hmk]
      rw [← this]; exact he'
  · intro pre x post e a ha
    have hf := h.free _ _ _ (hsplit pre x post e)
    have hm : mk a ∈ pre.map mk ++ [mk x] := by
      have := List.mem_map_of_mem (f := mk) ha
      simpa using this
    exact fun hc => hf (mk a) hm ((hch a x).mpr hc)
  · intro pre x post e y hy hfree
    apply hlt
    refine h.greatest _ _ _ (hsplit pre x post e) (mk y) (List.mem_map_of_mem hy) ?_
    intro a' ha'
    have : a' ∈ (pre ++ [x]).map mk := by simpa using ha'
    obtain ⟨a, ha, rfl⟩ := List.mem_map.mp this
    exact fun hc => hfree a ha ((hch a y).mp hc)

/-- (e) `reverseTopoAuth` computes THE reverse topological power ordering of its input -/
theorem reverseTopoAuth_is_power_order (m : List Event) (createEv : Option Event) (evs : List Event)
    (hid : ∀ a ∈ evs, ∀ b ∈ evs, a.eventID = b.eventID → a = b)
    (hacyc : ∃ rk : ID → Nat, ∀ e ∈ evs, ∀ p ∈ e.authEventIDs, (∃ e' ∈ evs, e'.eventID = p) → rk p < rk e.eventID) :
    IsReverseTopoPowerOrder m createEv evs (V.StateRes.reverseTopoAuth m createEv evs) := by
  rw [reverseTopoAuth_eq]
  unfold IsReverseTopoPowerOrder
  refine IsPowerOrder.map_ev (powerNode m createEv) (fun _ => rfl)
    (ltN := fun a b => powerLt a.key b.key = true) (childN := fun a x => x.ev.eventID ∈ a.ev.authEventIDs)
    (fun a b h => h) (fun a b => Iff.rfl) ?_
  apply kahnNodes_is_power_order powerLt (fun e => e.authEventIDs) _ powerLt_strictTotal
  · intro n hn n' hn' e
    obtain ⟨a, ha, rfl⟩ := List.mem_map.mp hn
    obtain ⟨b, hb, rfl⟩ := List.mem_map.mp hn'
    rw [hid a ha b hb e]
  · intro n hn n' hn' e
    obtain ⟨a, ha, rfl⟩ := List.mem_map.mp hn
    obtain ⟨b, hb, rfl⟩ := List.mem_map.mp hn'
    have : a.eventID = b.eventID := congrArg PowerKey.id e
    rw [hid a ha b hb this]
  · obtain ⟨rk, hrk⟩ := hacyc
    refine ⟨rk, ?_⟩
    intro n hn p hp ⟨n', hn', e⟩
    obtain ⟨a, ha, rfl⟩ := List.mem_map.mp hn
    obtain ⟨b, hb, rfl⟩ := List.mem_map.mp hn'
    exact hrk a ha p hp ⟨b, hb, e⟩

end V.StateResSpec
