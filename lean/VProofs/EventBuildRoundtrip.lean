/-
  VProofs.EventBuildRoundtrip — lemmas for C03's `build_roundtrip`: what the canonical text of a
  value reads back as, which predicates survive canonicalisation, the number literals `Build`
  writes, the members `Build` signs, the content hash over them, and redaction of a canonicalised
  event.  Core Lean only.
-/
import VProofs.EventParse
import VModel.EventBuild
import VProofs.B64
import VProofs.JsonClosure
import VProofs.RedactCongr
import VProps.C01
namespace V.BuildProofs
open V V.Json V.GoJson V.Redact V.EventParse V.RedactProofs V.EventProofs V.EventBuild

/-! ## Canonical value of an object -/

/-- a member with its value in canonical form -/
def cm (kv : Bytes × JVal) : Bytes × JVal := (kv.1, kv.2.sorted.normNums)

/-- the members of the canonical form of an object -/
def canonMembers (l : EventParse.Obj) : EventParse.Obj := normNumsMembers (sortByKey (sortedMembers l))

theorem canon_obj (l : EventParse.Obj) : (JVal.obj l).sorted.normNums = .obj (canonMembers l) := rfl

theorem canonMembers_perm (l : EventParse.Obj) : (canonMembers l).Perm (l.map cm) := by
  unfold canonMembers
  rw [normNumsMembers_eq_map, sortedMembers_eq_map']
  have := (sortByKey_perm (l.map (fun kv => (kv.1, kv.2.sorted)))).map (fun kv : Bytes × JVal => (kv.1, kv.2.normNums))
  have e : l.map cm = (l.map (fun kv => (kv.1, kv.2.sorted))).map (fun kv : Bytes × JVal => (kv.1, kv.2.normNums)) := by
    simp [List.map_map, cm, Function.comp_def]
  rw [e]; exact this

theorem keysOf_map_cm (l : EventParse.Obj) : keysOf (l.map cm) = keysOf l := by
  simp [keysOf, cm, List.map_map, Function.comp_def]

theorem canonMembers_keys_perm (l : EventParse.Obj) : (keysOf (canonMembers l)).Perm (keysOf l) := by
  have := (canonMembers_perm l).map (·.1)
  rw [← keysOf_map_cm l]
  exact this

/-- the canonical text of an object reads back as its canonical form -/
theorem parse_canon_text {l : EventParse.Obj} (hn : (JVal.obj l).numsOk = true) {p : PVal}
    (hp : parse (encodeCanon (.obj l)) = some p) : p.toJVal = .obj (canonMembers l) := by
  obtain ⟨h1, h2⟩ := parse_encodeCanon (.obj l) hn
  rw [h1] at hp
  rw [← Option.some.inj hp, h2, canon_obj]

theorem all_perm {α : Type} (p : α → Bool) {l₁ l₂ : List α} (h : l₁.Perm l₂) : l₁.all p = l₂.all p := by
  induction h with
  | nil => rfl
  | cons x _ ih => simp [ih]
  | swap x y l => simp [Bool.and_left_comm]
  | trans _ _ ih1 ih2 => exact ih1.trans ih2

/-! ### predicates that survive canonicalisation -/

theorem jNoDupMembers_eq_all : ∀ l : List (Bytes × JVal), jNoDupMembers l = l.all (fun kv => kv.2.noDupKeys)
  | [] => rfl
  | (k, v) :: l => by simp [jNoDupMembers, jNoDupMembers_eq_all l]

theorem jNumbersOkMembers_eq_all : ∀ l : List (Bytes × JVal), jNumbersOkMembers l = l.all (fun kv => jNumbersOk kv.2)
  | [] => rfl
  | (k, v) :: l => by simp [jNumbersOkMembers, jNumbersOkMembers_eq_all l]

theorem noDupIn_perm {a b : List Bytes} (h : a.Perm b) (ha : noDupIn a = true) : noDupIn b = true :=
  (noDupIn_iff_nodup b).mpr (h.nodup_iff.mp ((noDupIn_iff_nodup a).mp ha))

mutual
theorem noDup_sorted : (v : JVal) → v.noDupKeys = true → v.sorted.noDupKeys = true
  | .null, _ => rfl
  | .bool _, _ => rfl
  | .num _, _ => rfl
  | .str _, _ => rfl
  | .arr xs, h => by
    simp only [JVal.noDupKeys] at h
    simp only [JVal.sorted, JVal.noDupKeys, noDup_sortedList xs h]
  | .obj kvs, h => by
    simp only [JVal.noDupKeys, Bool.and_eq_true] at h
    simp only [JVal.sorted, JVal.noDupKeys, Bool.and_eq_true]
    constructor
    · apply noDupIn_perm (((sortByKey_perm (sortedMembers kvs)).map (·.1)).symm)
      rw [sortedMembers_keys']; exact h.1
    · rw [jNoDupMembers_eq_all, all_perm _ (sortByKey_perm _), ← jNoDupMembers_eq_all]
      exact noDup_sortedMembers kvs h.2
theorem noDup_sortedList : (xs : List JVal) → jNoDupList xs = true → jNoDupList (sortedList xs) = true
  | [], _ => rfl
  | x :: xs, h => by
    simp only [jNoDupList, Bool.and_eq_true] at h
    simp only [sortedList, jNoDupList, noDup_sorted x h.1, noDup_sortedList xs h.2, Bool.and_self]
theorem noDup_sortedMembers : (kvs : List (Bytes × JVal)) → jNoDupMembers kvs = true → jNoDupMembers (sortedMembers kvs) = true
  | [], _ => rfl
  | (k, v) :: kvs, h => by
    simp only [jNoDupMembers, Bool.and_eq_true] at h
    simp only [sortedMembers, jNoDupMembers, noDup_sorted v h.1, noDup_sortedMembers kvs h.2, Bool.and_self]
end

theorem normNumsMembers_keys (kvs : List (Bytes × JVal)) : (normNumsMembers kvs).map (·.1) = kvs.map (·.1) := by
  rw [normNumsMembers_eq_map]; simp [List.map_map, Function.comp_def]

mutual
theorem noDup_normNums : (v : JVal) → v.noDupKeys = true → v.normNums.noDupKeys = true
  | .null, _ => rfl
  | .bool _, _ => rfl
  | .num _, _ => rfl
  | .str _, _ => rfl
  | .arr xs, h => by
    simp only [JVal.noDupKeys] at h
    simp only [JVal.normNums, JVal.noDupKeys, noDup_normNumsList xs h]
  | .obj kvs, h => by
    simp only [JVal.noDupKeys, Bool.and_eq_true] at h
    simp only [JVal.normNums, JVal.noDupKeys, Bool.and_eq_true, normNumsMembers_keys]
    exact ⟨h.1, noDup_normNumsMembers kvs h.2⟩
theorem noDup_normNumsList : (xs : List JVal) → jNoDupList xs = true → jNoDupList (normNumsList xs) = true
  | [], _ => rfl
  | x :: xs, h => by
    simp only [jNoDupList, Bool.and_eq_true] at h
    simp only [normNumsList, jNoDupList, noDup_normNums x h.1, noDup_normNumsList xs h.2, Bool.and_self]
theorem noDup_normNumsMembers : (kvs : List (Bytes × JVal)) → jNoDupMembers kvs = true → jNoDupMembers (normNumsMembers kvs) = true
  | [], _ => rfl
  | (k, v) :: kvs, h => by
    simp only [jNoDupMembers, Bool.and_eq_true] at h
    simp only [normNumsMembers, jNoDupMembers, noDup_normNums v h.1, noDup_normNumsMembers kvs h.2, Bool.and_self]
end

theorem noDup_canon (v : JVal) (h : v.noDupKeys = true) : v.sorted.normNums.noDupKeys = true :=
  noDup_normNums _ (noDup_sorted v h)

mutual
theorem jNum_sorted : (v : JVal) → jNumbersOk v = true → jNumbersOk v.sorted = true
  | .null, _ => rfl
  | .bool _, _ => rfl
  | .num _, h => h
  | .str _, _ => rfl
  | .arr xs, h => by
    simp only [jNumbersOk] at h
    simp only [JVal.sorted, jNumbersOk, jNum_sortedList xs h]
  | .obj kvs, h => by
    simp only [jNumbersOk] at h
    simp only [JVal.sorted, jNumbersOk]
    rw [jNumbersOkMembers_eq_all, all_perm _ (sortByKey_perm _), ← jNumbersOkMembers_eq_all]
    exact jNum_sortedMembers kvs h
theorem jNum_sortedList : (xs : List JVal) → jNumbersOkList xs = true → jNumbersOkList (sortedList xs) = true
  | [], _ => rfl
  | x :: xs, h => by
    simp only [jNumbersOkList, Bool.and_eq_true] at h
    simp only [sortedList, jNumbersOkList, jNum_sorted x h.1, jNum_sortedList xs h.2, Bool.and_self]
theorem jNum_sortedMembers : (kvs : List (Bytes × JVal)) → jNumbersOkMembers kvs = true → jNumbersOkMembers (sortedMembers kvs) = true
  | [], _ => rfl
  | (k, v) :: kvs, h => by
    simp only [jNumbersOkMembers, Bool.and_eq_true] at h
    simp only [sortedMembers, jNumbersOkMembers, jNum_sorted v h.1, jNum_sortedMembers kvs h.2, Bool.and_self]
end

theorem numOk_encodeNum {lit : Bytes} (h : numOk lit = true) : encodeNum lit = lit := by
  unfold encodeNum
  split
  · rename_i he
    have : lit = [0x2D, 0x30] := by simpa using he
    subst this
    exact absurd h (by decide)
  · rfl

mutual
theorem jNum_normNums : (v : JVal) → jNumbersOk v = true → v.normNums = v
  | .null, _ => rfl
  | .bool _, _ => rfl
  | .num lit, h => by
    simp only [jNumbersOk] at h
    simp only [JVal.normNums, numOk_encodeNum h]
  | .str _, _ => rfl
  | .arr xs, h => by
    simp only [jNumbersOk] at h
    simp only [JVal.normNums, jNum_normNumsList xs h]
  | .obj kvs, h => by
    simp only [jNumbersOk] at h
    simp only [JVal.normNums, jNum_normNumsMembers kvs h]
theorem jNum_normNumsList : (xs : List JVal) → jNumbersOkList xs = true → normNumsList xs = xs
  | [], _ => rfl
  | x :: xs, h => by
    simp only [jNumbersOkList, Bool.and_eq_true] at h
    simp only [normNumsList, jNum_normNums x h.1, jNum_normNumsList xs h.2]
theorem jNum_normNumsMembers : (kvs : List (Bytes × JVal)) → jNumbersOkMembers kvs = true → normNumsMembers kvs = kvs
  | [], _ => rfl
  | (k, v) :: kvs, h => by
    simp only [jNumbersOkMembers, Bool.and_eq_true] at h
    simp only [normNumsMembers, jNum_normNums v h.1, jNum_normNumsMembers kvs h.2]
end

theorem jNum_canon (v : JVal) (h : jNumbersOk v = true) : jNumbersOk v.sorted.normNums = true := by
  have h1 := jNum_sorted v h
  rw [jNum_normNums _ h1]; exact h1

mutual
theorem jNumbersOk_toJVal : (p : PVal) → jNumbersOk p.toJVal = p.numbersOk
  | .null => rfl
  | .bool _ => rfl
  | .num _ => rfl
  | .str _ _ => rfl
  | .arr xs => by simp only [PVal.toJVal, jNumbersOk, PVal.numbersOk, jNumbersOk_toJVals xs]
  | .obj kvs => by simp only [PVal.toJVal, jNumbersOk, PVal.numbersOk, jNumbersOk_toJMembers kvs]
theorem jNumbersOk_toJVals : (xs : List PVal) → jNumbersOkList (toJVals xs) = numbersOkList xs
  | [] => rfl
  | x :: xs => by simp only [toJVals, jNumbersOkList, numbersOkList, jNumbersOk_toJVal x, jNumbersOk_toJVals xs]
theorem jNumbersOk_toJMembers : (kvs : List (Bytes × Bytes × PVal)) → jNumbersOkMembers (toJMembers kvs) = numbersOkMembers kvs
  | [] => rfl
  | (r, d, v) :: kvs => by
    simp only [toJMembers, jNumbersOkMembers, numbersOkMembers, jNumbersOk_toJVal v, jNumbersOk_toJMembers kvs]
end

/-! ## The number literals `Build` writes (`depth`, `origin_server_ts`) -/

def digitByte (d : Nat) : UInt8 := UInt8.ofNat (Nat.digitChar d).toNat

theorem digitByte_facts : ∀ d, d < 10 → isDigit (digitByte d) = true ∧ (d ≠ 0 → (digitByte d == 0x30) = false) := by
  decide

theorem natDigits_eq (n : Nat) :
    natDigits n = if n < 10 then [digitByte n] else natDigits (n / 10) ++ [digitByte (n % 10)] := by
  unfold natDigits
  rw [Nat.toDigits_eq_if (by decide)]
  split <;> simp [digitByte]

theorem natDigits_shape : ∀ n : Nat, allDigits (natDigits n) ∧
    (0 < n → ∃ c ds, natDigits n = c :: ds ∧ (c == 0x30) = false) := by
  intro n
  induction n using Nat.strongRecOn with
  | _ n ih =>
    rw [natDigits_eq]
    by_cases h : n < 10
    · rw [if_pos h]
      refine ⟨?_, fun hp => ⟨_, [], rfl, (digitByte_facts n h).2 (by omega)⟩⟩
      intro c hc
      rcases List.mem_singleton.mp hc with rfl
      exact (digitByte_facts n h).1
    · rw [if_neg h]
      obtain ⟨ih1, ih2⟩ := ih (n / 10) (by omega)
      refine ⟨?_, fun _ => ?_⟩
      · intro c hc
        rcases List.mem_append.mp hc with hc | hc
        · exact ih1 c hc
        · rcases List.mem_singleton.mp hc with rfl
          exact (digitByte_facts (n % 10) (Nat.mod_lt _ (by decide))).1
      · obtain ⟨c, ds, he, hz⟩ := ih2 (by omega)
        exact ⟨c, ds ++ [digitByte (n % 10)], by rw [he]; rfl, hz⟩

theorem natDigits_intPart (n : Nat) : IntPart (natDigits n) := by
  obtain ⟨h1, h2⟩ := natDigits_shape n
  by_cases hn : n = 0
  · subst hn; exact Or.inl (by decide)
  · obtain ⟨c, ds, he, hz⟩ := h2 (by omega)
    rw [he] at h1 ⊢
    exact Or.inr ⟨c, ds, rfl, h1 c List.mem_cons_self, hz, fun x hx => h1 x (List.mem_cons_of_mem _ hx)⟩

theorem natDigits_isNumLit (n : Nat) : isNumLit (natDigits n) = true := by
  have := parseNumber_of_parts (sign := []) (ip := natDigits n) (fp := []) (ep := []) []
    ⟨Or.inl rfl, natDigits_intPart n, Or.inl rfl, Or.inl rfl⟩ rfl
  simp only [List.append_nil, List.nil_append] at this
  simp only [isNumLit, this, beq_self_eq_true]

theorem intLit_isNumLit (i : Int) : isNumLit (intLit i) = true := by
  cases i with
  | ofNat n => exact natDigits_isNumLit n
  | negSucc n =>
    have := parseNumber_of_parts (sign := [0x2D]) (ip := natDigits (n + 1)) (fp := []) (ep := []) []
      ⟨Or.inr rfl, natDigits_intPart (n + 1), Or.inl rfl, Or.inl rfl⟩ rfl
    simp only [List.append_nil] at this
    simp only [intLit, isNumLit]
    simp only [List.cons_append, List.nil_append] at this
    simp only [this, beq_self_eq_true]

/-! ## The members `Build` signs -/

/-- `json.Marshal(&eventStruct)` (the `members` of `signedMembers`) -/
def membersOf (pe : Proto) (content : JVal) (prev auth : List JVal) (eventID : Bytes) (now : Nat) (origin : Bytes) : EventParse.Obj :=
  [(b!"sender", .str pe.sender)] ++
  (if pe.roomID.isEmpty then [] else [(b!"room_id", .str pe.roomID)]) ++
  [(b!"type", .str pe.type)] ++
  (match pe.stateKey with
    | some sk => [(b!"state_key", .str sk)]
    | none => []) ++
  [(b!"prev_events", .arr prev), (b!"auth_events", .arr auth)] ++
  (if pe.redacts.isEmpty then [] else [(b!"redacts", .str pe.redacts)]) ++
  [(b!"depth", .num (intLit pe.depth))] ++
  (match pe.signatures with
    | some s => [(b!"signatures", s)]
    | none => []) ++
  [(b!"content", content)] ++
  (match pe.unsigned with
    | some u => [(b!"unsigned", u)]
    | none => []) ++
  [(b!"event_id", .str eventID), (b!"origin_server_ts", .num (natDigits now)), (b!"origin", .str origin)] ++
  (if pe.stateKey.isSome then [(b!"prev_state", .arr [])] else [])

/-- the members the content hash covers -/
def hashP (kv : Bytes × JVal) : Bool := !(kv.1 == b!"signatures" || kv.1 == b!"unsigned" || kv.1 == b!"hashes")

/-- the reference lists `Build` marshals -/
def RefsOf (row : VGen.VersionRow) (pe : Proto) (prev auth : List JVal) : Prop :=
  if row.eventFormat == 1 then refsV1 pe.prev = .ok prev ∧ refsV1 pe.auth = .ok auth
  else prev = pe.prev.map JVal.str ∧ auth = pe.auth.map JVal.str

/-- `signedMembers` inverted -/
theorem signedMembers_ok {H : Bytes → Bytes} {row : VGen.VersionRow} {ver : Bytes} {pe : Proto} {now : Nat}
    {origin kid rand16 sig : Bytes} {signed : EventParse.Obj}
    (h : signedMembers H row ver pe now origin kid rand16 sig = .ok signed) :
    ∃ content prev auth eid ms sigs ns, pe.content = some content ∧ RefsOf row pe prev auth ∧
      ms = (if row.eventFormat == 2 then deleteFirst b!"event_id" (membersOf pe content prev auth eid now origin)
            else membersOf pe content prev auth eid now origin) ∧
      signaturesOf ver (.obj (setFirst b!"hashes"
        (.obj [(b!"sha256", .str (B64.encode (H (encodeCanon (.obj (ms.filter hashP))))))]) ms)) = .ok sigs ∧
      (∀ s, sigs = some s → sigsCanonical s = true) ∧
      addSignature sigs origin kid sig = some ns ∧
      signed = setFirst b!"signatures" ns (setFirst b!"hashes"
        (.obj [(b!"sha256", .str (B64.encode (H (encodeCanon (.obj (ms.filter hashP))))))]) ms) := by
  unfold signedMembers at h
  split at h
  · cases h
  · split at h
    · cases h
    · rename_i content hcontent
      simp only at h
      split at h
      · cases h
      · rename_i prev auth hrefs
        split at h
        · split at h <;> cases h
        · cases h
        · rename_i sigs hsigs
          have hfin : ∀ ns, addSignature sigs origin kid sig = some ns → (∀ s, sigs = some s → sigsCanonical s = true) →
              RefsOf row pe prev auth := by
            intro _ _ _
            unfold RefsOf
            split at hrefs
            · rename_i hf
              rw [if_pos hf]
              split at hrefs
              · rename_i p a hp ha
                cases hrefs
                exact ⟨hp, ha⟩
              · cases hrefs
              · cases hrefs
            · rename_i hf
              rw [if_neg hf]
              cases hrefs
              exact ⟨rfl, rfl⟩
          cases sigs with
          | none =>
            simp only [Bool.false_eq_true, if_false] at h
            split at h
            · cases h
            · rename_i ns hns
              cases h
              exact ⟨content, prev, auth, _, _, none, ns, hcontent, hfin ns hns (fun s hs => (by cases hs)), rfl, hsigs,
                (fun s hs => (by cases hs)), hns, rfl⟩
          | some s0 =>
            simp only at h
            split at h
            · cases h
            · rename_i hcanon
              split at h
              · cases h
              · rename_i ns hns
                cases h
                have hc : ∀ s, some s0 = some s → sigsCanonical s = true := by
                  intro s hs
                  cases hs
                  simpa using hcanon
                exact ⟨content, prev, auth, _, _, some s0, ns, hcontent, hfin ns hns hc, rfl, hsigs, hc, hns, rfl⟩

/-! ### `setFirst` / `deleteFirst` -/

theorem mem_setFirst {k : Bytes} {v : JVal} : ∀ {l : EventParse.Obj} {kv : Bytes × JVal}, kv ∈ setFirst k v l → kv = (k, v) ∨ kv ∈ l
  | [], kv, h => by
    simp only [setFirst, List.mem_singleton] at h
    exact Or.inl h
  | x :: rest, kv, h => by
    unfold setFirst at h
    split at h
    · rcases List.mem_cons.mp h with h | h
      · exact Or.inl h
      · exact Or.inr (List.mem_cons_of_mem _ h)
    · rcases List.mem_cons.mp h with h | h
      · exact Or.inr (by rw [h]; exact List.mem_cons_self)
      · rcases mem_setFirst h with h | h
        · exact Or.inl h
        · exact Or.inr (List.mem_cons_of_mem _ h)

theorem mem_setFirst_self (k : Bytes) (v : JVal) : ∀ l : EventParse.Obj, (k, v) ∈ setFirst k v l
  | [] => by simp [setFirst]
  | x :: rest => by
    unfold setFirst
    split
    · exact List.mem_cons_self
    · exact List.mem_cons_of_mem _ (mem_setFirst_self k v rest)

theorem mem_setFirst_of_ne {k : Bytes} {v : JVal} {kv : Bytes × JVal} (hne : kv.1 ≠ k) :
    ∀ {l : EventParse.Obj}, kv ∈ l → kv ∈ setFirst k v l
  | [], h => by cases h
  | x :: rest, h => by
    unfold setFirst
    split
    · rename_i hx
      rcases List.mem_cons.mp h with h | h
      · exfalso; apply hne; rw [h]; simpa using hx
      · exact List.mem_cons_of_mem _ h
    · rcases List.mem_cons.mp h with h | h
      · rw [h]; exact List.mem_cons_self
      · exact List.mem_cons_of_mem _ (mem_setFirst_of_ne hne h)

/-- replacing a member the filter drops does not change the filtered list -/
theorem filter_setFirst (P : Bytes × JVal → Bool) (k : Bytes) (v : JVal) (hP : ∀ kv : Bytes × JVal, kv.1 = k → P kv = false) :
    ∀ l : EventParse.Obj, (setFirst k v l).filter P = l.filter P
  | [] => by simp [setFirst, hP (k, v) rfl]
  | x :: rest => by
    unfold setFirst
    split
    · rename_i hx
      have hx' : x.1 = k := by simpa using hx
      simp [List.filter_cons, hP (k, v) rfl, hP x hx']
    · simp only [List.filter_cons, filter_setFirst P k v hP rest]

theorem deleteFirst_sublist (k : Bytes) : ∀ l : EventParse.Obj, List.Sublist (deleteFirst k l) l
  | [] => List.Sublist.refl _
  | x :: rest => by
    unfold deleteFirst
    split
    · exact List.sublist_cons_self _ _
    · exact (deleteFirst_sublist k rest).cons_cons _

theorem deleteFirst_eq_filter (k : Bytes) : ∀ l : EventParse.Obj, (keysOf l).Nodup → deleteFirst k l = l.filter (fun kv => !(kv.1 == k))
  | [], _ => rfl
  | x :: rest, h => by
    have hnd := List.nodup_cons.mp (show (x.1 :: keysOf rest).Nodup from h)
    unfold deleteFirst
    split
    · rename_i hx
      have hx' : x.1 = k := by simpa using hx
      simp only [List.filter_cons, hx, Bool.not_true, Bool.false_eq_true, if_false]
      symm
      apply filter_eq_self_of
      intro y hy
      simp only [Bool.not_eq_true', beq_eq_false_iff_ne, ne_eq]
      intro hyk
      apply hnd.1
      rw [hx', ← hyk]
      exact List.mem_map.mpr ⟨y, hy, rfl⟩
    · rename_i hx
      have hx' : (x.1 == k) = false := by simpa using hx
      simp only [List.filter_cons, hx', Bool.not_false, if_true]
      rw [deleteFirst_eq_filter k rest hnd.2]

theorem deleteFirst_nodup (k : Bytes) (l : EventParse.Obj) (h : (keysOf l).Nodup) : (keysOf (deleteFirst k l)).Nodup :=
  ((deleteFirst_sublist k l).map (fun kv : Bytes × JVal => kv.1)).nodup h

theorem deleteKeys_nodup (ks : List Bytes) : ∀ l : EventParse.Obj, (keysOf l).Nodup → (keysOf (deleteKeys ks l)).Nodup := by
  unfold deleteKeys
  induction ks with
  | nil => intro l h; exact h
  | cons k rest ih => intro l h; exact ih _ (deleteFirst_nodup k l h)

theorem deleteKeys_eq_filter (ks : List Bytes) : ∀ l : EventParse.Obj, (keysOf l).Nodup →
    deleteKeys ks l = l.filter (fun kv => !ks.contains kv.1) := by
  induction ks with
  | nil =>
    intro l _
    simp only [deleteKeys, List.foldl_nil, List.contains_nil, Bool.not_false]
    exact (filter_eq_self_of _ l (fun _ _ => rfl)).symm
  | cons k rest ih =>
    intro l h
    have : deleteKeys (k :: rest) l = deleteKeys rest (deleteFirst k l) := rfl
    rw [this, ih _ (deleteFirst_nodup k l h), deleteFirst_eq_filter k l h, List.filter_filter]
    apply List.filter_congr
    intro x _
    simp only [List.contains_cons]
    cases h1 : (x.1 == k) <;> simp

/-! ### keys of the signed members -/

def buildKeys : List Bytes := [b!"sender", b!"room_id", b!"type", b!"state_key", b!"prev_events", b!"auth_events", b!"redacts",
  b!"depth", b!"signatures", b!"content", b!"unsigned", b!"event_id", b!"origin_server_ts", b!"origin", b!"prev_state"]

theorem membersOf_keys (pe : Proto) (content : JVal) (prev auth : List JVal) (eid : Bytes) (now : Nat) (origin : Bytes) :
    List.Sublist (keysOf (membersOf pe content prev auth eid now origin)) buildKeys := by
  have e : buildKeys = [b!"sender"] ++ [b!"room_id"] ++ [b!"type"] ++ [b!"state_key"] ++ [b!"prev_events", b!"auth_events"] ++
      [b!"redacts"] ++ [b!"depth"] ++ [b!"signatures"] ++ [b!"content"] ++ [b!"unsigned"] ++
      [b!"event_id", b!"origin_server_ts", b!"origin"] ++ [b!"prev_state"] := rfl
  rw [e]
  unfold membersOf keysOf
  simp only [List.map_append]
  repeat' apply List.Sublist.append
  all_goals first
    | exact List.Sublist.refl _
    | (split <;> simp)

theorem buildKeys_nodup : buildKeys.Nodup := by decide

/-! ### number literals of the signed members -/

/-- The three raw-JSON inputs of a proto-event are JSON values: their number literals follow the
    JSON grammar (true of every value a text denotes: `parse_numsOk`). -/
structure ProtoOk (pe : Proto) : Prop where
  content : ∀ c, pe.content = some c → c.numsOk = true
  unsigned : ∀ u, pe.unsigned = some u → u.numsOk = true
  signatures : ∀ s, pe.signatures = some s → s.numsOk = true

theorem numsOkList_map_str : ∀ l : List Bytes, numsOkList (l.map JVal.str) = true
  | [] => rfl
  | x :: xs => by simp [numsOkList, JVal.numsOk, numsOkList_map_str xs]

theorem refsV1_numsOk : ∀ (ids : List Bytes) (out : List JVal), refsV1 ids = .ok out → numsOkList out = true
  | [], out, h => by
    simp only [refsV1, List.mapM_nil, pure, Except.pure] at h
    cases h; rfl
  | id :: ids, out, h => by
    simp only [refsV1, List.mapM_cons, bind, Except.bind] at h
    split at h
    · cases h
    · rename_i x hx
      split at h
      · cases h
      · rename_i rest hrest
        simp only [pure, Except.pure] at h
        cases h
        have ih := refsV1_numsOk ids rest hrest
        split at hx
        · cases hx
        · cases hx
          simp [numsOkList, JVal.numsOk, numsOkMembers, ih]

theorem refsOf_numsOk {row : VGen.VersionRow} {pe : Proto} {prev auth : List JVal} (h : RefsOf row pe prev auth) :
    numsOkList prev = true ∧ numsOkList auth = true := by
  unfold RefsOf at h
  split at h
  · exact ⟨refsV1_numsOk _ _ h.1, refsV1_numsOk _ _ h.2⟩
  · rw [h.1, h.2]; exact ⟨numsOkList_map_str _, numsOkList_map_str _⟩

theorem membersOf_numsOk {pe : Proto} (hpe : ProtoOk pe) {content : JVal} (hc : pe.content = some content)
    {prev auth : List JVal} (hp : numsOkList prev = true) (ha : numsOkList auth = true) (eid : Bytes) (now : Nat) (origin : Bytes) :
    ∀ kv ∈ membersOf pe content prev auth eid now origin, kv.2.numsOk = true := by
  have h1 := hpe.content content hc
  unfold membersOf
  simp only [List.forall_mem_append, List.forall_mem_cons, List.not_mem_nil, false_imp_iff, implies_true, and_true, JVal.numsOk,
    hp, ha, h1, intLit_isNumLit, natDigits_isNumLit, numsOkList]
  have h2 := hpe.signatures
  have h3 := hpe.unsigned
  and_intros
  all_goals first
    | trivial
    | (split <;> simp_all [JVal.numsOk, numsOkList])

theorem sigsCanonical_numsOk {s : JVal} (h : sigsCanonical s = true) : s.numsOk = true := by
  unfold sigsCanonical at h
  split at h
  · rename_i m
    simp only [JVal.numsOk, numsOkMembers_eq_all, List.all_eq_true] at h ⊢
    intro kv hkv
    have := h kv hkv
    split at this
    · rename_i km hkm
      rw [hkm]
      simp only [JVal.numsOk, numsOkMembers_eq_all, List.all_eq_true] at this ⊢
      intro x hx
      have := this x hx
      split at this
      · rename_i sx hsx; rw [hsx]; rfl
      · cases this
    · cases this
  · cases h

theorem setKey_all {P : Bytes × JVal → Prop} {m : EventParse.Obj} {k : Bytes} {v : JVal} (hm : ∀ kv ∈ m, P kv) (hv : P (k, v)) :
    ∀ kv ∈ setKey m k v, P kv := by
  unfold setKey
  split
  · intro kv hkv
    obtain ⟨x, hx, rfl⟩ := List.mem_map.mp hkv
    split
    · exact hv
    · exact hm x hx
  · intro kv hkv
    rcases List.mem_append.mp hkv with h | h
    · exact hm kv h
    · rcases List.mem_singleton.mp h with rfl
      exact hv

theorem numsOk_obj_of_forall {m : EventParse.Obj} (h : ∀ kv ∈ m, kv.2.numsOk = true) : (JVal.obj m).numsOk = true := by
  simp only [JVal.numsOk, numsOkMembers_eq_all, List.all_eq_true]
  exact h

theorem numsOk_obj_forall {m : EventParse.Obj} (h : (JVal.obj m).numsOk = true) : ∀ kv ∈ m, kv.2.numsOk = true := by
  simp only [JVal.numsOk, numsOkMembers_eq_all, List.all_eq_true] at h
  exact h

theorem mapGet_mem' {m : EventParse.Obj} {k : Bytes} {v : JVal} (h : mapGet m k = some v) : (k, v) ∈ m := by
  unfold mapGet at h
  cases hf : m.find? (fun kv => kv.1 == k) with
  | none => simp [hf] at h
  | some kv =>
    simp only [hf, Option.map_some, Option.some.injEq] at h
    have h1 := List.mem_of_find?_eq_some hf
    have h2 := List.find?_some hf
    have : kv = (k, v) := by
      have : kv.1 = k := by simpa using h2
      rw [← this, ← h]
    rw [← this]; exact h1

theorem addSignature_numsOk {sigs : Option JVal} {name kid sig : Bytes} {ns : JVal}
    (hs : ∀ s, sigs = some s → s.numsOk = true) (h : addSignature sigs name kid sig = some ns) : ns.numsOk = true := by
  unfold addSignature at h
  split at h
  · cases h; rfl
  · rename_i m
    have hm := numsOk_obj_forall (hs _ rfl)
    split at h
    · cases h
      apply numsOk_obj_of_forall
      intro kv hkv
      rcases List.mem_append.mp hkv with h1 | h1
      · exact hm kv h1
      · rcases List.mem_singleton.mp h1 with rfl; rfl
    · rename_i km hkm
      cases h
      apply numsOk_obj_of_forall
      apply setKey_all hm
      apply numsOk_obj_of_forall
      have hkm' := numsOk_obj_forall (hm _ (mapGet_mem' hkm))
      exact setKey_all hkm' rfl
    · cases h
  · cases h

/-! ### what `Build` signs: keys, content hash, redactability, number literals -/

structure SignedFacts (H : Bytes → Bytes) (row : VGen.VersionRow) (ver : Bytes) (signed : EventParse.Obj) : Prop where
  keys : ∀ kv ∈ signed, kv.1 = b!"hashes" ∨ kv.1 ∈ buildKeys
  noEventID : (row.eventFormat == 2) = true → ∀ kv ∈ signed, kv.1 ≠ b!"event_id"
  hash : (b!"hashes", JVal.obj [(b!"sha256", .str (B64.encode (H (encodeCanon (.obj (signed.filter hashP))))))]) ∈ signed
  redactable : ∃ withHash ns r, signed = setFirst b!"signatures" ns withHash ∧ redactJSON ver (.obj withHash) = .ok r

theorem hashP_key (k : Bytes) (hk : k = b!"signatures" ∨ k = b!"hashes") : ∀ kv : Bytes × JVal, kv.1 = k → hashP kv = false := by
  intro kv h
  rcases hk with rfl | rfl <;> simp [hashP, h]

theorem signedFacts {H : Bytes → Bytes} {row : VGen.VersionRow} {ver : Bytes} {pe : Proto} {now : Nat}
    {origin kid rand16 sig : Bytes} {signed : EventParse.Obj}
    (h : signedMembers H row ver pe now origin kid rand16 sig = .ok signed) : SignedFacts H row ver signed := by
  obtain ⟨content, prev, auth, eid, ms, sigs, ns, _, _, hms, hsigs, _, _, hsigned⟩ := signedMembers_ok h
  have hsub : List.Sublist (keysOf ms) buildKeys := by
    rw [hms]
    split
    · exact ((deleteFirst_sublist _ _).map _).trans (membersOf_keys ..)
    · exact membersOf_keys ..
  have hfilter : signed.filter hashP = ms.filter hashP := by
    rw [hsigned, filter_setFirst hashP _ _ (hashP_key _ (Or.inl rfl)), filter_setFirst hashP _ _ (hashP_key _ (Or.inr rfl))]
  refine ⟨?_, ?_, ?_, ?_⟩
  · intro kv hkv
    rw [hsigned] at hkv
    rcases mem_setFirst hkv with rfl | hkv
    · exact Or.inr (by show b!"signatures" ∈ buildKeys; decide)
    · rcases mem_setFirst hkv with rfl | hkv
      · exact Or.inl rfl
      · exact Or.inr (hsub.subset (List.mem_map.mpr ⟨kv, hkv, rfl⟩))
  · intro hf kv hkv
    rw [hsigned] at hkv
    rcases mem_setFirst hkv with rfl | hkv
    · show b!"signatures" ≠ b!"event_id"; decide
    · rcases mem_setFirst hkv with rfl | hkv
      · show b!"hashes" ≠ b!"event_id"; decide
      · rw [hms, if_pos hf] at hkv
        have hnd : (keysOf (membersOf pe content prev auth eid now origin)).Nodup := (membersOf_keys ..).nodup buildKeys_nodup
        exact deleteFirst_removes _ _ hnd kv hkv
  · rw [hfilter, hsigned]
    exact mem_setFirst_of_ne (by show b!"hashes" ≠ b!"signatures"; decide) (mem_setFirst_self _ _ _)
  · generalize setFirst b!"hashes" _ ms = wh at hsigs hsigned
    unfold signaturesOf at hsigs
    cases hr : redactJSON ver (.obj wh) with
    | error x => rw [hr] at hsigs; cases hsigs
    | ok r => exact ⟨wh, ns, r, hsigned, hr⟩

theorem signed_numsOk {H : Bytes → Bytes} {row : VGen.VersionRow} {ver : Bytes} {pe : Proto} {now : Nat}
    {origin kid rand16 sig : Bytes} {signed : EventParse.Obj} (hpe : ProtoOk pe)
    (h : signedMembers H row ver pe now origin kid rand16 sig = .ok signed) : (JVal.obj signed).numsOk = true := by
  obtain ⟨content, prev, auth, eid, ms, sigs, ns, hc, hrefs, hms, _, hcanon, hns, hsigned⟩ := signedMembers_ok h
  obtain ⟨hp, ha⟩ := refsOf_numsOk hrefs
  have hmem := membersOf_numsOk hpe hc hp ha eid now origin
  have hmsn : ∀ kv ∈ ms, kv.2.numsOk = true := by
    rw [hms]
    split
    · intro kv hkv; exact hmem kv ((deleteFirst_sublist _ _).subset hkv)
    · exact hmem
  have hnsn : ns.numsOk = true := addSignature_numsOk (fun s hs => sigsCanonical_numsOk (hcanon s hs)) hns
  apply numsOk_obj_of_forall
  intro kv hkv
  rw [hsigned] at hkv
  rcases mem_setFirst hkv with rfl | hkv
  · exact hnsn
  · rcases mem_setFirst hkv with rfl | hkv
    · rfl
    · exact hmsn kv hkv

/-! ## Size: dropping members does not lengthen the canonical text -/

def wsum : List Bytes → Nat
  | [] => 0
  | x :: xs => x.length + 1 + wsum xs

theorem joinWith_length (sep : UInt8) : ∀ xs : List Bytes, (joinWith sep xs).length = wsum xs - 1
  | [] => rfl
  | [x] => by simp [joinWith, wsum]
  | x :: y :: ys => by
    have ih := joinWith_length sep (y :: ys)
    simp only [joinWith, List.length_append, List.length_cons] at ih ⊢
    simp only [wsum] at ih ⊢
    omega

theorem wsum_perm {a b : List Bytes} (h : a.Perm b) : wsum a = wsum b := by
  induction h with
  | nil => rfl
  | cons x _ ih => simp [wsum, ih]
  | swap x y l => simp only [wsum]; omega
  | trans _ _ ih1 ih2 => exact ih1.trans ih2

theorem wsum_sublist {a b : List Bytes} (h : List.Sublist a b) : wsum a ≤ wsum b := by
  induction h with
  | slnil => exact Nat.le_refl _
  | cons x _ ih => simp only [wsum]; omega
  | cons_cons x _ ih => simp only [wsum]; omega

theorem encodeCanon_obj_length (l : EventParse.Obj) :
    (encodeCanon (.obj l)).length = 2 + (wsum (encodeMembers (sortedMembers l)) - 1) := by
  unfold encodeCanon
  simp only [JVal.sorted, encode, List.length_cons, List.length_append, List.length_nil, joinWith_length]
  have hp : (encodeMembers (sortByKey (sortedMembers l))).Perm (encodeMembers (sortedMembers l)) := by
    rw [encodeMembers_eq_map, encodeMembers_eq_map]
    exact (sortByKey_perm _).map _
  rw [wsum_perm hp]
  omega

theorem encodeCanon_sublist_length {l' l : EventParse.Obj} (h : List.Sublist l' l) :
    (encodeCanon (.obj l')).length ≤ (encodeCanon (.obj l)).length := by
  rw [encodeCanon_obj_length, encodeCanon_obj_length]
  have hs : List.Sublist (encodeMembers (sortedMembers l')) (encodeMembers (sortedMembers l)) := by
    rw [encodeMembers_eq_map, encodeMembers_eq_map, sortedMembers_eq_map', sortedMembers_eq_map']
    exact (h.map _).map _
  have := wsum_sublist hs
  omega

theorem deleteKeys_sublist (ks : List Bytes) : ∀ l : EventParse.Obj, List.Sublist (deleteKeys ks l) l := by
  unfold deleteKeys
  induction ks with
  | nil => intro l; exact List.Sublist.refl _
  | cons k rest ih => intro l; exact (ih _).trans (deleteFirst_sublist k l)

/-! ## The canonical members of what `Build` signed -/

theorem encodeCanon_canon (v : JVal) (hd : v.noDupKeys = true) : encodeCanon v.sorted.normNums = encodeCanon v := by
  rw [encodeCanon_normNums, encodeCanon_sorted v hd]

theorem keys_nodup_of_noDup {l : EventParse.Obj} (h : (JVal.obj l).noDupKeys = true) : (keysOf l).Nodup := by
  simp only [JVal.noDupKeys, Bool.and_eq_true] at h
  exact nodup_of_noDupIn _ h.1

/-- two presentations of the same object (member order, values in canonical form) have the same canonical bytes -/
theorem encodeCanon_of_perm_cm {A B : EventParse.Obj} (hp : A.Perm (B.map cm)) (hB : (JVal.obj B).noDupKeys = true) :
    encodeCanon (.obj A) = encodeCanon (.obj B) := by
  rw [← encodeCanon_canon _ hB, canon_obj]
  have hp' : A.Perm (canonMembers B) := hp.trans (canonMembers_perm B).symm
  apply C01.canon_member_order_irrelevant _ _ hp'
  unfold NodupKeys
  have := (hp.map (·.1)).nodup_iff.mpr (by
    have := keysOf_map_cm B
    unfold keysOf at this
    rw [this]; exact keys_nodup_of_noDup hB)
  exact this

theorem getFirst_of_mem {l : EventParse.Obj} (hn : (keysOf l).Nodup) {k : Bytes} {v : JVal} (h : (k, v) ∈ l) :
    getFirst l k = some v := by
  induction l with
  | nil => cases h
  | cons x rest ih =>
    have hnd := List.nodup_cons.mp (show (x.1 :: keysOf rest).Nodup from hn)
    unfold getFirst
    rcases List.mem_cons.mp h with h | h
    · subst h; simp
    · have hx : (x.1 == k) = false := by
        simp only [beq_eq_false_iff_ne, ne_eq]
        intro hxe
        apply hnd.1
        rw [hxe]
        exact List.mem_map.mpr ⟨(k, v), h, rfl⟩
      simp only [List.find?_cons, hx]
      exact ih hnd.2 h

theorem b64_decode_encode (bs : Bytes) : B64.decode (B64.encode bs) = some bs := by
  unfold B64.decode B64.encode
  have : (B64.encodeWith B64.stdAlphabet bs).any (fun c => c == 0x2D || c == 0x5F) = false := by
    rw [List.any_eq_false]
    intro c hc
    obtain ⟨i, rfl⟩ := B64.encodeWith_chars _ _ c hc
    have := B64.std_no_url_marks i
    unfold B64.isUrlMark at this
    simp [this]
  simp only [this, Bool.false_eq_true, if_false]
  exact B64.decode_encode_with B64.std_good bs

/-! ## The content hash `Build` wrote is the one the receiver recomputes -/

def allKeys : List Bytes := b!"hashes" :: buildKeys

theorem strip_contains : ∀ fmt : Fmt, ∀ k ∈ allKeys,
    (stripKeys fmt).contains k = (k == b!"unsigned" || (!(fmt == Fmt.v1) && k == b!"event_id")) := by
  intro fmt
  cases fmt <;> decide

theorem hashKeys_contains : ∀ k ∈ allKeys,
    [b!"signatures", b!"unsigned", b!"hashes"].contains k = (k == b!"signatures" || k == b!"unsigned" || k == b!"hashes") := by
  decide

theorem noDupKeys_filter {l : EventParse.Obj} (P : Bytes × JVal → Bool) (h : (JVal.obj l).noDupKeys = true) :
    (JVal.obj (l.filter P)).noDupKeys = true := by
  simp only [JVal.noDupKeys, Bool.and_eq_true] at h ⊢
  constructor
  · apply (noDupIn_iff_nodup _).mpr
    exact ((List.filter_sublist (l := l)).map _).nodup (nodup_of_noDupIn _ h.1)
  · rw [jNoDupMembers_eq_all, List.all_eq_true] at h ⊢
    intro x hx
    exact h.2 x (List.mem_filter.mp hx).1

theorem hv_canon (x : Bytes) : (JVal.obj [(b!"sha256", JVal.str x)]).sorted.normNums = JVal.obj [(b!"sha256", JVal.str x)] := by
  simp [JVal.sorted, sortedMembers, sortByKey, insertByKey, JVal.normNums, normNumsMembers]

theorem contentHash_canon (H : Bytes → Bytes) (fmt : Fmt) {signed : EventParse.Obj} (hd : (JVal.obj signed).noDupKeys = true)
    (hk : ∀ kv ∈ signed, kv.1 ∈ allKeys) (hev : fmt ≠ .v1 → ∀ kv ∈ signed, kv.1 ≠ b!"event_id")
    (hh : (b!"hashes", JVal.obj [(b!"sha256", .str (B64.encode (H (encodeCanon (.obj (signed.filter hashP))))))]) ∈ signed) :
    contentHashOk H (deleteKeys (stripKeys fmt) (canonMembers signed)) = true := by
  have hSn : (keysOf (canonMembers signed)).Nodup :=
    (canonMembers_keys_perm signed).nodup_iff.mpr (keys_nodup_of_noDup hd)
  have hKn := deleteKeys_nodup (stripKeys fmt) _ hSn
  have hKe := deleteKeys_eq_filter (stripKeys fmt) _ hSn
  -- the hashes member survives canonicalisation and the receiver's stripping
  have hmemS : (b!"hashes", JVal.obj [(b!"sha256", .str (B64.encode (H (encodeCanon (.obj (signed.filter hashP))))))]) ∈
      canonMembers signed := by
    apply (canonMembers_perm signed).symm.subset
    have := List.mem_map_of_mem (f := cm) hh
    simp only [cm, hv_canon] at this
    exact this
  have hmemK : (b!"hashes", JVal.obj [(b!"sha256", .str (B64.encode (H (encodeCanon (.obj (signed.filter hashP))))))]) ∈
      deleteKeys (stripKeys fmt) (canonMembers signed) := by
    rw [hKe]
    apply List.mem_filter.mpr
    refine ⟨hmemS, ?_⟩
    show (!(stripKeys fmt).contains b!"hashes") = true
    cases fmt <;> decide
  -- the hashed members: the same filter on both sides
  have hbytes : hashedBytes (deleteKeys (stripKeys fmt) (canonMembers signed)) = encodeCanon (.obj (signed.filter hashP)) := by
    unfold hashedBytes
    rw [deleteKeys_eq_filter _ _ hKn, hKe, List.filter_filter]
    apply encodeCanon_of_perm_cm _ (noDupKeys_filter hashP hd)
    refine ((canonMembers_perm signed).filter _).trans ?_
    rw [List.filter_map]
    apply List.Perm.of_eq
    congr 1
    apply List.filter_congr
    intro kv hkv
    have hka := hk kv hkv
    simp only [Function.comp, cm]
    rw [strip_contains fmt kv.1 hka, hashKeys_contains kv.1 hka]
    unfold hashP
    have hfe : (!(fmt == Fmt.v1) && kv.1 == b!"event_id") = false := by
      by_cases hf : fmt = .v1
      · subst hf; simp
      · have := hev hf kv hkv; simp [this]
    rw [hfe]
    generalize (kv.1 == b!"signatures") = b1
    generalize (kv.1 == b!"unsigned") = b2
    generalize (kv.1 == b!"hashes") = b3
    cases b1 <;> cases b2 <;> cases b3 <;> rfl
  unfold contentHashOk claimedHash
  rw [getFirst_of_mem hKn hmemK]
  simp only [getFirst, List.find?_cons, beq_self_eq_true, Option.map_some, b64_decode_encode, hbytes]

/-! ## Redaction of a canonicalised event succeeds when redaction of the event does -/

theorem intSafe_encodeNum {lit : Bytes} (h : intSafe lit = true) : intSafe (encodeNum lit) = true := by
  unfold encodeNum
  split
  · decide
  · exact h

theorem ifaceOkMembers_eq_all : ∀ l : List (Bytes × JVal), ifaceOkMembers l = l.all (fun kv => utf8Valid kv.1 && ifaceOk kv.2)
  | [] => rfl
  | (k, v) :: l => by simp [ifaceOkMembers, ifaceOkMembers_eq_all l, Bool.and_assoc]

mutual
theorem iface_sorted : (v : JVal) → ifaceOk v = true → ifaceOk v.sorted = true
  | .null, _ => rfl
  | .bool _, _ => rfl
  | .num _, h => h
  | .str _, h => h
  | .arr xs, h => by
    simp only [ifaceOk] at h
    simp only [JVal.sorted, ifaceOk, iface_sortedList xs h]
  | .obj kvs, h => by
    simp only [ifaceOk, Bool.and_eq_true] at h
    simp only [JVal.sorted, ifaceOk, Bool.and_eq_true]
    constructor
    · apply noDupIn_perm (((sortByKey_perm (sortedMembers kvs)).map (·.1)).symm)
      rw [sortedMembers_keys']; exact h.1
    · rw [ifaceOkMembers_eq_all, all_perm _ (sortByKey_perm _), ← ifaceOkMembers_eq_all]
      exact iface_sortedMembers kvs h.2
theorem iface_sortedList : (xs : List JVal) → ifaceOkList xs = true → ifaceOkList (sortedList xs) = true
  | [], _ => rfl
  | x :: xs, h => by
    simp only [ifaceOkList, Bool.and_eq_true] at h
    simp only [sortedList, ifaceOkList, iface_sorted x h.1, iface_sortedList xs h.2, Bool.and_self]
theorem iface_sortedMembers : (kvs : List (Bytes × JVal)) → ifaceOkMembers kvs = true → ifaceOkMembers (sortedMembers kvs) = true
  | [], _ => rfl
  | (k, v) :: kvs, h => by
    simp only [ifaceOkMembers, Bool.and_eq_true] at h
    simp only [sortedMembers, ifaceOkMembers, h.1.1, iface_sorted v h.1.2, iface_sortedMembers kvs h.2, Bool.and_self]
end

mutual
theorem iface_normNums : (v : JVal) → ifaceOk v = true → ifaceOk v.normNums = true
  | .null, _ => rfl
  | .bool _, _ => rfl
  | .num _, h => by
    simp only [ifaceOk] at h
    simp only [JVal.normNums, ifaceOk, intSafe_encodeNum h]
  | .str _, h => h
  | .arr xs, h => by
    simp only [ifaceOk] at h
    simp only [JVal.normNums, ifaceOk, iface_normNumsList xs h]
  | .obj kvs, h => by
    simp only [ifaceOk, Bool.and_eq_true] at h
    simp only [JVal.normNums, ifaceOk, Bool.and_eq_true, normNumsMembers_keys]
    exact ⟨h.1, iface_normNumsMembers kvs h.2⟩
theorem iface_normNumsList : (xs : List JVal) → ifaceOkList xs = true → ifaceOkList (normNumsList xs) = true
  | [], _ => rfl
  | x :: xs, h => by
    simp only [ifaceOkList, Bool.and_eq_true] at h
    simp only [normNumsList, ifaceOkList, iface_normNums x h.1, iface_normNumsList xs h.2, Bool.and_self]
theorem iface_normNumsMembers : (kvs : List (Bytes × JVal)) → ifaceOkMembers kvs = true → ifaceOkMembers (normNumsMembers kvs) = true
  | [], _ => rfl
  | (k, v) :: kvs, h => by
    simp only [ifaceOkMembers, Bool.and_eq_true] at h
    simp only [normNumsMembers, ifaceOkMembers, h.1.1, iface_normNums v h.1.2, iface_normNumsMembers kvs h.2, Bool.and_self]
end

theorem iface_canon (v : JVal) (h : ifaceOk v = true) : ifaceOk v.sorted.normNums = true :=
  iface_normNums _ (iface_sorted v h)

/-! ### float range scan -/

theorem worst_ok {a b : NumClass} : a.worst b = .ok ↔ a = .ok ∧ b = .ok := by
  cases a <;> cases b <;> simp [NumClass.worst]

theorem floatScanMembers_ok : ∀ l : List (Bytes × JVal), floatScanMembers l = .ok ↔ ∀ kv ∈ l, floatScan kv.2 = .ok
  | [] => by simp [floatScanMembers]
  | (k, v) :: l => by
    simp only [floatScanMembers, worst_ok, floatScanMembers_ok l, List.forall_mem_cons]

theorem floatClass_encodeNum {lit : Bytes} (h : floatClass lit = .ok) : floatClass (encodeNum lit) = .ok := by
  unfold encodeNum
  split
  · decide
  · exact h

mutual
theorem float_sorted : (v : JVal) → floatScan v = .ok → floatScan v.sorted = .ok
  | .null, _ => rfl
  | .bool _, _ => rfl
  | .num _, h => h
  | .str _, _ => rfl
  | .arr xs, h => by
    simp only [floatScan] at h
    simp only [JVal.sorted, floatScan, float_sortedList xs h]
  | .obj kvs, h => by
    simp only [floatScan] at h
    simp only [JVal.sorted, floatScan]
    rw [floatScanMembers_ok]
    intro kv hkv
    have := (floatScanMembers_ok _).mp (float_sortedMembers kvs h)
    exact this kv ((sortByKey_perm _).subset hkv)
theorem float_sortedList : (xs : List JVal) → floatScanList xs = .ok → floatScanList (sortedList xs) = .ok
  | [], _ => rfl
  | x :: xs, h => by
    simp only [floatScanList, worst_ok] at h
    simp only [sortedList, floatScanList, worst_ok]
    exact ⟨float_sorted x h.1, float_sortedList xs h.2⟩
theorem float_sortedMembers : (kvs : List (Bytes × JVal)) → floatScanMembers kvs = .ok → floatScanMembers (sortedMembers kvs) = .ok
  | [], _ => rfl
  | (k, v) :: kvs, h => by
    simp only [floatScanMembers, worst_ok] at h
    simp only [sortedMembers, floatScanMembers, worst_ok]
    exact ⟨float_sorted v h.1, float_sortedMembers kvs h.2⟩
end

mutual
theorem float_normNums : (v : JVal) → floatScan v = .ok → floatScan v.normNums = .ok
  | .null, _ => rfl
  | .bool _, _ => rfl
  | .num _, h => by
    simp only [floatScan] at h
    simp only [JVal.normNums, floatScan, floatClass_encodeNum h]
  | .str _, _ => rfl
  | .arr xs, h => by
    simp only [floatScan] at h
    simp only [JVal.normNums, floatScan, float_normNumsList xs h]
  | .obj kvs, h => by
    simp only [floatScan] at h
    simp only [JVal.normNums, floatScan, float_normNumsMembers kvs h]
theorem float_normNumsList : (xs : List JVal) → floatScanList xs = .ok → floatScanList (normNumsList xs) = .ok
  | [], _ => rfl
  | x :: xs, h => by
    simp only [floatScanList, worst_ok] at h
    simp only [normNumsList, floatScanList, worst_ok]
    exact ⟨float_normNums x h.1, float_normNumsList xs h.2⟩
theorem float_normNumsMembers : (kvs : List (Bytes × JVal)) → floatScanMembers kvs = .ok → floatScanMembers (normNumsMembers kvs) = .ok
  | [], _ => rfl
  | (k, v) :: kvs, h => by
    simp only [floatScanMembers, worst_ok] at h
    simp only [normNumsMembers, floatScanMembers, worst_ok]
    exact ⟨float_normNums v h.1, float_normNumsMembers kvs h.2⟩
end

theorem floatScanMembers_canon (m : EventParse.Obj) (h : floatScanMembers m = .ok) : floatScanMembers (canonMembers m) = .ok :=
  float_normNumsMembers _ (by
    have := float_sorted (.obj m) (by simpa [floatScan] using h)
    simpa [JVal.sorted, floatScan] using this)

/-! ### members selected by a struct field, before and after canonicalisation -/

/-- no two top-level keys are case variants of each other -/
def FoldNodup (kvs : EventParse.Obj) : Prop := (kvs.map (fun kv => foldBytes kv.1)).Nodup

theorem sel_length_le_one {kvs : EventParse.Obj} (hfd : FoldNodup kvs) (n : Bytes) : (sel n kvs).length ≤ 1 := by
  induction kvs with
  | nil => simp [sel]
  | cons x rest ih =>
    have hnd := List.nodup_cons.mp (show (foldBytes x.1 :: rest.map (fun kv => foldBytes kv.1)).Nodup from hfd)
    unfold sel
    rw [List.filter_cons]
    split
    · rename_i hx
      have : rest.filter (fun kv => matchesField kv.1 n) = [] := by
        apply filter_eq_nil_of
        intro y hy
        cases hm : matchesField y.1 n
        · rfl
        · exfalso
          apply hnd.1
          rw [matchesField_fold hx, ← matchesField_fold hm]
          exact List.mem_map.mpr ⟨y, hy, rfl⟩
      simp [this]
    · exact ih hnd.2

theorem sel_canon {kvs : EventParse.Obj} (hfd : FoldNodup kvs) (n : Bytes) : sel n (canonMembers kvs) = (sel n kvs).map cm := by
  have hp : (sel n (canonMembers kvs)).Perm ((sel n kvs).map cm) := by
    unfold sel
    refine ((canonMembers_perm kvs).filter _).trans ?_
    rw [List.filter_map]
    exact List.Perm.of_eq rfl
  have hl := sel_length_le_one hfd n
  match h : sel n kvs with
  | [] => rw [h] at hp; simpa using hp.eq_nil
  | [x] => rw [h] at hp; exact List.perm_singleton.mp hp
  | _ :: _ :: _ => rw [h] at hl; simp at hl

theorem typeStep_cm (acc : Dec Bytes) (kv : Bytes × JVal) : typeStep acc (cm kv) = typeStep acc kv := by
  obtain ⟨k, v⟩ := kv
  cases v <;> rfl

theorem foldl_typeStep_cm (l : EventParse.Obj) (acc : Dec Bytes) : (l.map cm).foldl typeStep acc = l.foldl typeStep acc := by
  induction l generalizing acc with
  | nil => rfl
  | cons x rest ih => simp only [List.map_cons, List.foldl_cons, typeStep_cm, ih]

theorem decType_canon {kvs : EventParse.Obj} (hfd : FoldNodup kvs) (n : Bytes) : decType n (canonMembers kvs) = decType n kvs := by
  rw [decType_sel, decType_sel, sel_canon hfd, foldl_typeStep_cm]

theorem lookupField_canon {kvs : EventParse.Obj} (hfd : FoldNodup kvs) (n : Bytes) :
    lookupField (canonMembers kvs) n = (lookupField kvs n).map (fun v => v.sorted.normNums) := by
  rw [lookupField_sel, lookupField_sel, sel_canon hfd, List.getLast?_map]
  cases (sel n kvs).getLast? <;> rfl

theorem worst_ok_left (x : NumClass) : NumClass.worst .ok x = x := by cases x <;> rfl

theorem canonMembers_nodup {m : EventParse.Obj} (h : (keysOf m).Nodup) : (keysOf (canonMembers m)).Nodup :=
  (canonMembers_keys_perm m).nodup_iff.mpr h

theorem decContent_canon {kvs : EventParse.Obj} (hfd : FoldNodup kvs) (hd : jNoDupMembers kvs = true) (n : Bytes) :
    (decContent n (canonMembers kvs)).err = (decContent n kvs).err ∧
    ((decContent n kvs).cls = .ok → (decContent n (canonMembers kvs)).cls = .ok) ∧
    (decContent n (canonMembers kvs)).val = (decContent n kvs).val.map canonMembers := by
  rw [decContent_sel, decContent_sel, sel_canon hfd]
  have hl := sel_length_le_one hfd n
  match h : sel n kvs with
  | [] => exact ⟨rfl, fun _ => rfl, rfl⟩
  | [x] =>
    have hx : x ∈ kvs := (List.mem_filter.mp (by rw [show sel n kvs = kvs.filter _ from rfl] at h; rw [h]; exact List.mem_singleton.mpr rfl)).1
    rw [jNoDupMembers_eq_all, List.all_eq_true] at hd
    have hxd := hd x hx
    obtain ⟨k, v⟩ := x
    cases v with
    | obj m =>
      have hm : (keysOf m).Nodup := keys_nodup_of_noDup hxd
      simp only [List.map_cons, List.map_nil, List.foldl_cons, List.foldl_nil, cm, canon_obj, contentStep, Option.getD_none,
        mergeInto_nil_of_nodup m hm, mergeInto_nil_of_nodup _ (canonMembers_nodup hm), worst_ok_left, Option.map_some]
      exact ⟨trivial, floatScanMembers_canon m, trivial⟩
    | null => exact ⟨rfl, fun _ => rfl, rfl⟩
    | bool _ => exact ⟨rfl, fun _ => rfl, rfl⟩
    | num _ => exact ⟨rfl, fun _ => rfl, rfl⟩
    | str _ => exact ⟨rfl, fun _ => rfl, rfl⟩
    | arr _ => exact ⟨rfl, fun _ => rfl, rfl⟩
  | _ :: _ :: _ => rw [h] at hl; simp at hl

theorem mapGet_canon {m : EventParse.Obj} (hm : (keysOf m).Nodup) (k : Bytes) :
    mapGet (canonMembers m) k = (mapGet m k).map (fun v => v.sorted.normNums) := by
  cases h : mapGet m k with
  | some v =>
    have hmem : (k, v.sorted.normNums) ∈ canonMembers m :=
      (canonMembers_perm m).symm.subset (List.mem_map_of_mem (f := cm) (mapGet_mem' h))
    exact getFirst_of_mem (canonMembers_nodup hm) hmem
  | none =>
    unfold mapGet at h ⊢
    have h1 : m.find? (fun kv => kv.1 == k) = none := by
      cases hf : m.find? (fun kv => kv.1 == k) with
      | none => rfl
      | some x => rw [hf] at h; cases h
    have h2 : (canonMembers m).find? (fun kv => kv.1 == k) = none := by
      rw [List.find?_eq_none] at h1 ⊢
      intro x hx
      obtain ⟨y, hy, rfl⟩ := List.mem_map.mp ((canonMembers_perm m).subset hx)
      exact h1 y hy
    rw [h2]; rfl

theorem modelled_cm {kv : Bytes × JVal} (h : (utf8Valid kv.1 && ifaceOk kv.2) = true) :
    (utf8Valid (cm kv).1 && ifaceOk (cm kv).2) = true := by
  simp only [Bool.and_eq_true] at h ⊢
  exact ⟨h.1, iface_canon _ h.2⟩

theorem contentModelled_canon (ct : CTable) (ty : Bytes) {m : EventParse.Obj} (hm : (keysOf m).Nodup)
    (h : contentModelled (newContent ct ty (some m)) = true) :
    contentModelled (newContent ct ty (some (canonMembers m))) = true := by
  unfold newContent at h ⊢
  split
  · rename_i hct
    rw [hct] at h
    simp only [contentModelled, Option.getD_some, List.all_eq_true] at h ⊢
    intro x hx
    obtain ⟨y, hy, rfl⟩ := List.mem_map.mp ((canonMembers_perm m).subset hx)
    exact modelled_cm (h y hy)
  · rename_i keys hne hct
    rw [hct] at h
    have h' : contentModelled (some (keys.filterMap (fun k => (mapGet ((some m).getD []) k).map (fun v => (k, v))))) = true := by
      split at h
      · rename_i heq; cases heq; exact absurd rfl hne
      · rename_i heq; cases heq; exact h
      · rename_i heq; cases heq
    simp only [contentModelled, Option.getD_some, List.all_eq_true] at h' ⊢
    have hfm : keys.filterMap (fun k => (mapGet (canonMembers m) k).map (fun v => (k, v))) =
        (keys.filterMap (fun k => (mapGet m k).map (fun v => (k, v)))).map cm := by
      rw [List.map_filterMap]
      apply filterMap_congr'
      intro k _
      rw [mapGet_canon hm]
      cases mapGet m k <;> rfl
    rw [hfm]
    intro x hx
    obtain ⟨y, hy, rfl⟩ := List.mem_map.mp hx
    exact modelled_cm (h' y hy)
  · rename_i hct
    rw [hct] at h
    exact h

/-- **Redaction survives canonicalisation.**  If an event (no two top-level keys case variants of
    each other, no duplicate keys inside) can be redacted, so can its canonical form. -/
theorem redactObj_canon {a : Algo} {kvs : EventParse.Obj} (hfd : FoldNodup kvs) (hd : (JVal.obj kvs).noDupKeys = true)
    {v : JVal} (h : redactObj a kvs = .ok v) : ∃ v', redactObj a (canonMembers kvs) = .ok v' := by
  obtain ⟨tf, cf, F, _⟩ := redactObj_ok h
  have hdm : jNoDupMembers kvs = true := by
    simp only [JVal.noDupKeys, Bool.and_eq_true] at hd; exact hd.2
  have hT := decType_canon hfd tf.name
  obtain ⟨c1, c2, c3⟩ := decContent_canon hfd hdm cf.name
  refine ⟨_, redactObj_of (tf := tf) (cf := cf) ⟨F.htf, F.hcf, F.noUnknown, by rw [hT]; exact F.terr, by rw [c1]; exact F.cerr,
    c2 F.ccls, by rw [hT]; exact F.tutf, ?_, ?_⟩⟩
  · rw [hT, c3]
    have hcm := F.cmod
    cases hv : (decContent cf.name kvs).val with
    | none => rw [hv] at hcm; exact hcm
    | some m =>
      rw [hv] at hcm
      exact contentModelled_canon _ _ (decContent_nodup _ _ _ hv) hcm
  · have hm := F.mok
    simp only [marshalOk, List.all_eq_true] at hm ⊢
    intro f hf
    have := hm f hf
    simp only [Bool.or_eq_true] at this ⊢
    rcases this with h1 | h1
    · exact Or.inl h1
    · refine Or.inr ?_
      rw [lookupField_canon hfd]
      cases hl : lookupField kvs f.name with
      | none => rw [hl] at h1; cases h1
      | some _ => rfl


/-! ### … and so does `redactWith` (the restriction to exact field names comes first) -/

theorem lookupExact_of_mem {l : EventParse.Obj} (hn : (keysOf l).Nodup) {k : Bytes} {v : JVal} (h : (k, v) ∈ l) :
    lookupExact l k = some v := by
  have hf := filter_key_nodup l k hn
  have hm : (k, v) ∈ l.filter (fun kv => kv.1 == k) := List.mem_filter.mpr ⟨h, by simp⟩
  rw [hf] at hm
  cases hl : lookupExact l k with
  | none => rw [hl] at hm; cases hm
  | some w =>
    rw [hl] at hm
    simp only [List.mem_singleton, Prod.mk.injEq, true_and] at hm
    rw [hm]

theorem lookupExact_canon {l : EventParse.Obj} (hn : (keysOf l).Nodup) (n : Bytes) :
    lookupExact (canonMembers l) n = (lookupExact l n).map (fun v => v.sorted.normNums) := by
  cases h : lookupExact l n with
  | some v =>
    have hmem : (n, v.sorted.normNums) ∈ canonMembers l :=
      (canonMembers_perm l).symm.subset (List.mem_map_of_mem (f := cm) (lookupExact_mem h))
    exact lookupExact_of_mem (canonMembers_nodup hn) hmem
  | none =>
    rw [lookupExact_eq, lastSome_none_iff] at h
    rw [lookupExact_eq]
    apply lastSome_none_of_forall
    intro x hx
    obtain ⟨y, hy, rfl⟩ := List.mem_map.mp ((canonMembers_perm l).subset hx)
    exact h y hy

theorem foldNodup_exactFields {fs : List Field} (hd : foldDistinct fs = true) (kvs : EventParse.Obj) :
    FoldNodup (exactFields fs kvs) := by
  unfold FoldNodup
  have hs := (exactFields_keys_sublist fs kvs).map foldBytes
  have e1 : (keysOf (exactFields fs kvs)).map foldBytes = (exactFields fs kvs).map (fun kv => foldBytes kv.1) := by
    simp [keysOf, List.map_map]
  have e2 : (fs.map (·.name)).map foldBytes = fs.map (fun f => foldBytes f.name) := by simp [List.map_map]
  rw [e1, e2] at hs
  exact hs.nodup ((noDupIn_iff_nodup _).mp hd)

theorem noDupKeys_exactFields {fs : List Field} (hd : foldDistinct fs = true) {kvs : EventParse.Obj}
    (h : (JVal.obj kvs).noDupKeys = true) : (JVal.obj (exactFields fs kvs)).noDupKeys = true := by
  simp only [JVal.noDupKeys, Bool.and_eq_true] at h ⊢
  refine ⟨(noDupIn_iff_nodup _).mpr (exactFields_nodup hd kvs), ?_⟩
  rw [jNoDupMembers_eq_all, List.all_eq_true] at h ⊢
  intro kv hkv
  obtain ⟨f, _, _, hl⟩ := exactFields_mem hkv
  exact h.2 (f.name, kv.2) (lookupExact_mem hl)

/-- **`RedactEventJSON` survives canonicalisation.**  If an event without duplicate keys can be redacted, so
    can its canonical form. -/
theorem redactWith_canon {a : Algo} (hT : tablesOk a = true) {kvs : EventParse.Obj} (hd : (JVal.obj kvs).noDupKeys = true)
    {v : JVal} (h : redactWith a (.obj kvs) = .ok v) : ∃ v', redactWith a (.obj (canonMembers kvs)) = .ok v' := by
  obtain ⟨hdist, _, _, _⟩ := tablesOk_parts hT
  have hnd := names_nodup hdist
  have hfd := foldNodup_exactFields hdist kvs
  have h' : redactObj a (exactFields a.fields kvs) = .ok v := h
  obtain ⟨v', hv'⟩ := redactObj_canon hfd (noDupKeys_exactFields hdist hd) h'
  refine ⟨v', ?_⟩
  rw [redactWith_obj, ← hv']
  apply redactObj_congr
  intro f hf
  rw [sel_canon hfd, sel_wf (exactFields_wf hdist kvs) hf, sel_wf (exactFields_wf hdist (canonMembers kvs)) hf,
    lookupExact_exactFields hnd kvs hf, lookupExact_exactFields hnd (canonMembers kvs) hf,
    lookupExact_canon (keys_nodup_of_noDup hd)]
  cases lookupExact kvs f.name <;> rfl

/-! ## Tables over the keys `Build` writes -/

theorem allKeys_fold_inj : ∀ a ∈ allKeys, ∀ b ∈ allKeys, foldBytes a = foldBytes b → a = b := by decide

theorem allKeys_no_underscore : ∀ k ∈ allKeys, hasUnderscoreKey (.obj [(k, .null)]) = false := by decide

theorem allKeys_event_id : ∀ k ∈ allKeys, matchesField k b!"event_id" = (k == b!"event_id") := by decide

theorem allKeys_no_header : ∀ k ∈ allKeys, (k == b!"_event_id") = false ∧ (k == b!"_room_version") = false := by decide

theorem foldNodup_of_keys {l : EventParse.Obj} (hk : ∀ kv ∈ l, kv.1 ∈ allKeys) (hn : (keysOf l).Nodup) : FoldNodup l := by
  unfold FoldNodup
  induction l with
  | nil => exact List.nodup_nil
  | cons x rest ih =>
    have hnd := List.nodup_cons.mp (show (x.1 :: keysOf rest).Nodup from hn)
    rw [List.map_cons, List.nodup_cons]
    refine ⟨?_, ih (fun kv h => hk kv (List.mem_cons_of_mem _ h)) hnd.2⟩
    intro hmem
    obtain ⟨y, hy, he⟩ := List.mem_map.mp hmem
    have := allKeys_fold_inj y.1 (hk y (List.mem_cons_of_mem _ hy)) x.1 (hk x List.mem_cons_self) he
    apply hnd.1
    rw [← this]
    exact List.mem_map.mpr ⟨y, hy, rfl⟩

theorem canon_keys {l : EventParse.Obj} {L : List Bytes} (hk : ∀ kv ∈ l, kv.1 ∈ L) : ∀ kv ∈ canonMembers l, kv.1 ∈ L := by
  intro kv hkv
  obtain ⟨y, hy, rfl⟩ := List.mem_map.mp ((canonMembers_perm l).subset hkv)
  exact hk y hy

theorem canon_key_ne {l : EventParse.Obj} {k : Bytes} (hk : ∀ kv ∈ l, kv.1 ≠ k) : ∀ kv ∈ canonMembers l, kv.1 ≠ k := by
  intro kv hkv
  obtain ⟨y, hy, rfl⟩ := List.mem_map.mp ((canonMembers_perm l).subset hkv)
  exact hk y hy

theorem hasUnderscoreKey_false {l : EventParse.Obj} (hk : ∀ kv ∈ l, kv.1 ∈ allKeys) : hasUnderscoreKey (.obj l) = false := by
  simp only [hasUnderscoreKey, List.any_eq_false]
  intro kv hkv
  have := allKeys_no_underscore kv.1 (hk kv hkv)
  simp only [hasUnderscoreKey, List.any_cons, List.any_nil, Bool.or_false] at this
  rw [this]
  exact Bool.false_ne_true

theorem allKeys_no_variant : ∀ k ∈ allKeys, structFieldNames.any (fun n => k != n && foldBytes k == foldBytes n) = false := by decide

/-- the keys `Build` writes are exact names: none is a case variant of a struct field name -/
theorem hasFieldVariant_false {l : EventParse.Obj} (hk : ∀ kv ∈ l, kv.1 ∈ allKeys) : hasFieldVariant (.obj l) = false := by
  simp only [hasFieldVariant, List.any_eq_false]
  intro kv hkv
  have := allKeys_no_variant kv.1 (hk kv hkv)
  rw [this]
  exact Bool.false_ne_true

/-! ## The receiver's stripping on an event without local keys -/

def strip4 : List Bytes := [b!"outlier", b!"destinations", b!"age_ts", b!"unsigned"]

theorem deleteFirst_none (k : Bytes) : ∀ l : EventParse.Obj, (∀ kv ∈ l, kv.1 ≠ k) → deleteFirst k l = l
  | [], _ => rfl
  | x :: rest, h => by
    have hx : (x.1 == k) = false := by simpa using h x List.mem_cons_self
    simp only [deleteFirst, hx, Bool.false_eq_true, if_false]
    rw [deleteFirst_none k rest (fun kv hkv => h kv (List.mem_cons_of_mem _ hkv))]

/-- with no `event_id` member (later formats), stripping removes at most the four local keys -/
theorem stripKeys_eq (fmt : Fmt) (l : EventParse.Obj) (hev : fmt ≠ .v1 → ∀ kv ∈ l, kv.1 ≠ b!"event_id") :
    deleteKeys (stripKeys fmt) l = deleteKeys strip4 l := by
  by_cases hf : fmt = .v1
  · subst hf; rfl
  · have : stripKeys fmt = strip4 ++ [b!"event_id"] := by
      unfold stripKeys
      have : (fmt == Fmt.v1) = false := by simp [hf]
      simp [this, strip4]
    rw [this]
    unfold deleteKeys
    rw [List.foldl_append]
    simp only [List.foldl_cons, List.foldl_nil]
    apply deleteFirst_none
    intro kv hkv
    exact hev hf kv ((deleteKeys_sublist strip4 l).subset hkv)

theorem members_deleteFirst_other (n k : Bytes) (kvs : EventParse.Obj) (h : matchesField k n = false) :
    members (deleteFirst k kvs) n = members kvs n := by
  have := sel_deleteFirst_other n k kvs h
  unfold members
  unfold sel at this
  rw [this]

theorem members_deleteKeys (ks : List Bytes) (n : Bytes) (kvs : EventParse.Obj) (h : ∀ k ∈ ks, matchesField k n = false) :
    members (deleteKeys ks kvs) n = members kvs n := by
  unfold deleteKeys
  induction ks generalizing kvs with
  | nil => rfl
  | cons k rest ih =>
    simp only [List.foldl_cons]
    rw [ih _ (fun x hx => h x (List.mem_cons_of_mem _ hx)), members_deleteFirst_other n k kvs (h k List.mem_cons_self)]

/-- the struct fields other than `unsigned`, by JSON name -/
def decodedNames : List Bytes := [b!"room_id", b!"sender", b!"type", b!"state_key", b!"content", b!"redacts", b!"depth",
  b!"origin_server_ts", b!"prev_events", b!"auth_events", b!"event_id", b!"msc4354_sticky", b!"sticky"]

theorem strip4_keeps : ∀ k ∈ strip4, ∀ n ∈ decodedNames, matchesField k n = false := by decide

/-- removing the four local keys changes nothing the struct decoding reads, except `unsigned` -/
theorem decode_strip4 (fmt : Fmt) (kvs : EventParse.Obj) :
    (decodeFields fmt (deleteKeys strip4 kvs)).err = (decodeFields fmt kvs).err ∧
    (decodeFields fmt (deleteKeys strip4 kvs)).unmodelled = (decodeFields fmt kvs).unmodelled ∧
    (decodeFields fmt (deleteKeys strip4 kvs)).f =
      { (decodeFields fmt kvs).f with unsigned := (decodeFields fmt (deleteKeys strip4 kvs)).f.unsigned } := by
  have hm : ∀ n ∈ decodedNames, members (deleteKeys strip4 kvs) n = members kvs n :=
    fun n hn => members_deleteKeys _ n kvs (fun k hk => strip4_keeps k hk n hn)
  have h1 := hm b!"room_id" (by decide)
  have h2 := hm b!"sender" (by decide)
  have h3 := hm b!"type" (by decide)
  have h4 := hm b!"state_key" (by decide)
  have h5 := hm b!"content" (by decide)
  have h6 := hm b!"redacts" (by decide)
  have h7 := hm b!"depth" (by decide)
  have h8 := hm b!"origin_server_ts" (by decide)
  have h9 := hm b!"prev_events" (by decide)
  have h10 := hm b!"auth_events" (by decide)
  have h11 := hm b!"event_id" (by decide)
  have h12 := hm b!"msc4354_sticky" (by decide)
  have h13 := hm b!"sticky" (by decide)
  refine ⟨?_, ?_, ?_⟩ <;> simp only [decodeFields, h1, h2, h3, h4, h5, h6, h7, h8, h9, h10, h11, h12, h13]

/-! ## Constructors, forwards -/

theorem construct_intro {fmt : Fmt} {ver : Bytes} {red : Bool} {text : Bytes} {kvs : EventParse.Obj}
    (h1 : (decodeFields fmt kvs).err = false) (h2 : (decodeFields fmt kvs).unmodelled = false)
    (h3 : checkRoom fmt (decodeFields fmt kvs).f = .ok ()) :
    construct fmt ver red text (.obj kvs) =
      .ok { ver := ver, fmt := fmt, redacted := red, json := text, obj := kvs, f := (decodeFields fmt kvs).f } := by
  unfold construct
  simp only [h1, h2, h3, Bool.false_eq_true, if_false]

theorem construct_obj_inv {fmt : Fmt} {ver : Bytes} {red : Bool} {text : Bytes} {kvs : EventParse.Obj} {e : PDU}
    (h : construct fmt ver red text (.obj kvs) = .ok e) :
    (decodeFields fmt kvs).err = false ∧ (decodeFields fmt kvs).unmodelled = false ∧
    checkRoom fmt (decodeFields fmt kvs).f = .ok () ∧
    e = { ver := ver, fmt := fmt, redacted := red, json := text, obj := kvs, f := (decodeFields fmt kvs).f } := by
  unfold construct at h
  simp only at h
  split at h
  · cases h
  · rename_i h1
    split at h
    · cases h
    · rename_i h2
      split at h
      · cases h
      · rename_i h3
        cases h
        exact ⟨by simpa using h1, by simpa using h2, h3, rfl⟩

theorem trustedCore_inv {H : Bytes → Bytes} {row : VGen.VersionRow} {ver : Bytes} {red : Bool} {text : Bytes} {j : JVal} {e : PDU}
    (h : trustedCore H row ver red text j = .ok e) :
    ∃ fmt e0, fmtOfName row.newEventFromTrustedJSONFunc = some fmt ∧ construct fmt ver red text j = .ok e0 ∧
      populateEventID H row (resetID fmt e0) = .ok e := by
  unfold trustedCore at h
  split at h
  · cases h
  · rename_i fmt hf
    split at h
    · cases h
    · rename_i e0 hc
      exact ⟨fmt, e0, hf, hc, h⟩

theorem populate_v1 {H : Bytes → Bytes} {row : VGen.VersionRow} {e : PDU} (hv : e.fmt = .v1) : populateEventID H row e = .ok e := by
  unfold populateEventID
  simp [hv]

theorem populate_later {H : Bytes → Bytes} {row : VGen.VersionRow} {e : PDU} (hv : e.fmt ≠ .v1) (hr : e.f.eventIDRaw = [])
    {id : Bytes} (hid : referenceID H row e.ver (.obj e.obj) = .ok id) :
    populateEventID H row e = .ok { e with f := { e.f with eventIDRaw := id } } := by
  unfold populateEventID
  have : (e.fmt == Fmt.v1) = false := by simp [hv]
  simp only [this, Bool.false_eq_true, if_false, hr, List.isEmpty_nil, Bool.not_true, hid]

theorem populate_later_inv {H : Bytes → Bytes} {row : VGen.VersionRow} {e e' : PDU} (hv : e.fmt ≠ .v1) (hr : e.f.eventIDRaw = [])
    (h : populateEventID H row e = .ok e') :
    referenceID H row e.ver (.obj e.obj) = .ok e'.f.eventIDRaw ∧ e' = { e with f := { e.f with eventIDRaw := e'.f.eventIDRaw } } := by
  obtain ⟨hs, hid⟩ := populate_ok h
  exact ⟨hid hv hr, hs⟩

/-! ## `CheckFields` only looks at the listed fields and the size -/

theorem checkFields_size {e : PDU} (h : checkFields e = .ok ()) : e.json.length ≤ maxEventLength := by
  unfold checkFields at h
  split at h
  · cases h
  · split at h
    · cases h
    · split at h
      · cases h
      · rename_i hl; omega

/-! ## `NewEventFromUntrustedJSON`, forwards (the branch where the content hash matches) -/

/-- the event the untrusted constructor returns for a text denoting `.obj S` whose hash matches -/
def received (ver : Bytes) (fmt : Fmt) (K : EventParse.Obj) (id : Bytes) : PDU :=
  { ver := ver, fmt := fmt, redacted := false, json := encodeCanon (.obj K), obj := K,
    f := { (decodeFields fmt K).f with eventIDRaw := id } }

theorem parseUntrusted_intro {H : Bytes → Bytes} {ver text : Bytes} {row : VGen.VersionRow} {fmt : Fmt} {enf : Bool} {p : PVal}
    {S : EventParse.Obj} {id : Bytes}
    (hrow : rowOf ver = some row) (hfmt : fmtOfName row.newEventFromUntrustedJSONFunc = some fmt) (henf : enforces row = some enf)
    (hp : parse text = some p) (hpj : p.toJVal = .obj S)
    (hus : hasUnderscoreKey (.obj S) = false) (hnum : (enf && !p.numbersOk) = false) (hnd : (JVal.obj S).noDupKeys = true)
    (hnv : hasFieldVariant (.obj S) = false)
    (d1 : (decodeFields fmt (deleteKeys (stripKeys fmt) S)).err = false)
    (d2 : (decodeFields fmt (deleteKeys (stripKeys fmt) S)).unmodelled = false)
    (d3 : checkRoom fmt (decodeFields fmt (deleteKeys (stripKeys fmt) S)).f = .ok ())
    (hsize : (encodeCanon (.obj (deleteKeys (stripKeys fmt) S))).length ≤ maxEventLength)
    (hhash : contentHashOk H (deleteKeys (stripKeys fmt) S) = true)
    (hred : fmt = .v1 → ∃ r, redactJSON ver (.obj (deleteKeys (stripKeys fmt) S)) = .ok r)
    (hid : fmt ≠ .v1 → referenceID H row ver (.obj (deleteKeys (stripKeys fmt) S)) = .ok id)
    (hidv1 : fmt = .v1 → id = (decodeFields fmt (deleteKeys (stripKeys fmt) S)).f.eventIDRaw)
    (hcf : checkFields (received ver fmt (deleteKeys (stripKeys fmt) S) id) = .ok ()) :
    parseUntrusted H ver text = .ok (received ver fmt (deleteKeys (stripKeys fmt) S) id) := by
  unfold parseUntrusted
  simp only [hrow, hfmt, henf, hp, hpj, hus, hnum, hnd, hnv, Bool.false_eq_true, if_false, Bool.not_true]
  have hst : stripped fmt (.obj S) = .obj (deleteKeys (stripKeys fmt) S) := rfl
  rw [hst, construct_intro d1 d2 d3]
  simp only
  unfold finishUntrusted
  rw [if_neg (by omega)]
  by_cases hf : fmt = .v1
  · subst hf
    obtain ⟨r, hr⟩ := hred rfl
    have hidr := hidv1 rfl
    subst hidr
    simp only [resetID, beq_self_eq_true, if_true, hhash, redactableV1, hr, idAndChecks, populateEventID]
    split
    · rename_i x hx
      have : Except.error x = Except.ok () := hx.symm.trans hcf
      cases this
    · rfl
  · have hb : (fmt == Fmt.v1) = false := by simp [hf]
    have hidr := hid hf
    simp only [resetID, hb, Bool.false_eq_true, if_false, hhash, if_true, redactableV1, idAndChecks, populateEventID,
      List.isEmpty_nil, Bool.not_true, hidr]
    split
    · rename_i x hx
      have : Except.error x = Except.ok () := hx.symm.trans hcf
      cases this
    · rfl

/-! ## The trusted constructor, by shape -/

theorem trustedCore_shape {H : Bytes → Bytes} {row : VGen.VersionRow} {ver : Bytes} {red : Bool} {text : Bytes}
    {kvs : EventParse.Obj} {e : PDU} (h : trustedCore H row ver red text (.obj kvs) = .ok e) :
    ∃ fmt id, fmtOfName row.newEventFromTrustedJSONFunc = some fmt ∧
      (decodeFields fmt kvs).err = false ∧ (decodeFields fmt kvs).unmodelled = false ∧
      checkRoom fmt (decodeFields fmt kvs).f = .ok () ∧
      e = { ver := ver, fmt := fmt, redacted := red, json := text, obj := kvs,
            f := { (decodeFields fmt kvs).f with eventIDRaw := id } } ∧
      (fmt = .v1 → id = (decodeFields fmt kvs).f.eventIDRaw) ∧
      (fmt ≠ .v1 → referenceID H row ver (.obj kvs) = .ok id) := by
  obtain ⟨fmt, e0, hf, hc, hpop⟩ := trustedCore_inv h
  obtain ⟨d1, d2, d3, he0⟩ := construct_obj_inv hc
  subst he0
  by_cases hv : fmt = .v1
  · subst hv
    have hr : resetID Fmt.v1 { ver := ver, fmt := Fmt.v1, redacted := red, json := text, obj := kvs, f := (decodeFields Fmt.v1 kvs).f } =
        { ver := ver, fmt := Fmt.v1, redacted := red, json := text, obj := kvs, f := (decodeFields Fmt.v1 kvs).f } := rfl
    rw [hr, populate_v1 rfl] at hpop
    cases hpop
    exact ⟨Fmt.v1, _, hf, d1, d2, d3, rfl, fun _ => rfl, fun hne => absurd rfl hne⟩
  · have hb : (fmt == Fmt.v1) = false := by simp [hv]
    have hr : resetID fmt { ver := ver, fmt := fmt, redacted := red, json := text, obj := kvs, f := (decodeFields fmt kvs).f } =
        { ver := ver, fmt := fmt, redacted := red, json := text, obj := kvs, f := { (decodeFields fmt kvs).f with eventIDRaw := [] } } := by
      simp [resetID, hb]
    rw [hr] at hpop
    obtain ⟨hs, hid⟩ := populate_ok hpop
    refine ⟨fmt, e.f.eventIDRaw, hf, d1, d2, d3, hs, fun h1 => absurd h1 hv, fun _ => ?_⟩
    exact hid hv rfl

theorem members_event_id_nil {S : EventParse.Obj} (hk : ∀ kv ∈ S, kv.1 ∈ allKeys) (hne : ∀ kv ∈ S, kv.1 ≠ b!"event_id") :
    members S b!"event_id" = [] := by
  unfold members
  rw [filter_eq_nil_of]
  · rfl
  · intro kv hkv
    rw [allKeys_event_id kv.1 (hk kv hkv)]
    simpa using hne kv hkv

theorem eventIDRaw_nil (fmt : Fmt) {S : EventParse.Obj} (h : members S b!"event_id" = []) :
    (decodeFields fmt S).f.eventIDRaw = [] := by
  simp only [decodeFields, h, seqString, List.foldl_nil]

/-! ## The headered form -/

theorem setFirst_absent (k : Bytes) (v : JVal) : ∀ l : EventParse.Obj, (∀ kv ∈ l, (kv.1 == k) = false) → setFirst k v l = l ++ [(k, v)]
  | [], _ => rfl
  | x :: rest, h => by
    have hx := h x List.mem_cons_self
    simp only [setFirst, hx, Bool.false_eq_true, if_false, List.cons_append]
    rw [setFirst_absent k v rest (fun kv hkv => h kv (List.mem_cons_of_mem _ hkv))]

theorem deleteFirst_append_absent (k : Bytes) (v : JVal) : ∀ l : EventParse.Obj, (∀ kv ∈ l, (kv.1 == k) = false) →
    deleteFirst k (l ++ [(k, v)]) = l
  | [], _ => by simp [deleteFirst]
  | x :: rest, h => by
    have hx := h x List.mem_cons_self
    simp only [List.cons_append, deleteFirst, hx, Bool.false_eq_true, if_false]
    rw [deleteFirst_append_absent k v rest (fun kv hkv => h kv (List.mem_cons_of_mem _ hkv))]

theorem getFirst_append_absent (k : Bytes) (v : JVal) : ∀ l : EventParse.Obj, (∀ kv ∈ l, (kv.1 == k) = false) →
    getFirst (l ++ [(k, v)]) k = some v
  | [], _ => by simp [getFirst]
  | x :: rest, h => by
    have hx := h x List.mem_cons_self
    have ih := getFirst_append_absent k v rest (fun kv hkv => h kv (List.mem_cons_of_mem _ hkv))
    unfold getFirst at ih ⊢
    simp only [List.cons_append, List.find?_cons, hx]
    exact ih

/-- `NewEventFromHeaderedJSON` on a text denoting an event's members followed by the two header
    members, as `ToHeaderedJSON` writes them -/
theorem parseHeadered_intro {red : Bool} {th : Bytes} {p : PVal} {S : EventParse.Obj} {id ver : Bytes}
    {row : VGen.VersionRow} {fmt : Fmt}
    (hp : parse th = some p)
    (hpv : p.toJVal = .obj (setFirst b!"_event_id" (.str id) (setFirst b!"_room_version" (.str ver) S)))
    (hno : ∀ kv ∈ S, (kv.1 == b!"_event_id") = false ∧ (kv.1 == b!"_room_version") = false)
    (hrow : rowOf ver = some row) (hwid : fmtOfName row.newEventFromTrustedJSONWithEventIDFunc = some fmt)
    (d1 : (decodeFields fmt S).err = false) (d2 : (decodeFields fmt S).unmodelled = false)
    (d3 : checkRoom fmt (decodeFields fmt S).f = .ok ()) :
    parseHeadered red th = .ok { ver := ver, fmt := fmt, redacted := red, json := encodeCanon (.obj S), obj := S,
                                 f := { (decodeFields fmt S).f with eventIDRaw := id } } := by
  have h1 : setFirst b!"_room_version" (.str ver) S = S ++ [(b!"_room_version", .str ver)] :=
    setFirst_absent _ _ S (fun kv hkv => (hno kv hkv).2)
  have hno2 : ∀ kv ∈ S ++ [(b!"_room_version", JVal.str ver)], (kv.1 == b!"_event_id") = false := by
    intro kv hkv
    rcases List.mem_append.mp hkv with h | h
    · exact (hno kv h).1
    · rcases List.mem_singleton.mp h with rfl
      show (b!"_room_version" == b!"_event_id") = false
      decide
  have h2 : setFirst b!"_event_id" (.str id) (S ++ [(b!"_room_version", .str ver)]) =
      (S ++ [(b!"_room_version", .str ver)]) ++ [(b!"_event_id", .str id)] := setFirst_absent _ _ _ hno2
  rw [h1, h2] at hpv
  have g1 : getFirst ((S ++ [(b!"_room_version", JVal.str ver)]) ++ [(b!"_event_id", JVal.str id)]) b!"_event_id" = some (.str id) :=
    getFirst_append_absent _ _ _ hno2
  have g2 : getFirst ((S ++ [(b!"_room_version", JVal.str ver)]) ++ [(b!"_event_id", JVal.str id)]) b!"_room_version" =
      some (.str ver) := by
    have := getFirst_append_absent b!"_room_version" (.str ver) S (fun kv hkv => (hno kv hkv).2)
    unfold getFirst at this ⊢
    rw [List.find?_append]
    cases hf : List.find? (fun kv => kv.1 == b!"_room_version") (S ++ [(b!"_room_version", JVal.str ver)]) with
    | none => rw [hf] at this; cases this
    | some x => rw [hf] at this; simpa using this
  have g3 : deleteFirst b!"_room_version" (deleteFirst b!"_event_id"
      ((S ++ [(b!"_room_version", JVal.str ver)]) ++ [(b!"_event_id", JVal.str id)])) = S := by
    rw [deleteFirst_append_absent _ _ _ hno2, deleteFirst_append_absent _ _ S (fun kv hkv => (hno kv hkv).2)]
  unfold parseHeadered
  simp only [hp, hpv, gjsonString, g1, g2, hrow, g3, trustedWithIDCore, hwid, construct_intro d1 d2 d3]

/-! ### a text denoting the headered value exists: its compact rendering -/

mutual
theorem normNums_idem : (v : JVal) → v.normNums.normNums = v.normNums
  | .null => rfl
  | .bool _ => rfl
  | .num lit => by simp only [JVal.normNums, encodeNum_idem]
  | .str _ => rfl
  | .arr xs => by simp only [JVal.normNums, normNumsList_idem xs]
  | .obj kvs => by simp only [JVal.normNums, normNumsMembers_idem kvs]
theorem normNumsList_idem : (xs : List JVal) → normNumsList (normNumsList xs) = normNumsList xs
  | [] => rfl
  | x :: xs => by simp only [normNumsList, normNums_idem x, normNumsList_idem xs]
theorem normNumsMembers_idem : (kvs : List (Bytes × JVal)) → normNumsMembers (normNumsMembers kvs) = normNumsMembers kvs
  | [] => rfl
  | (k, v) :: kvs => by simp only [normNumsMembers, normNums_idem v, normNumsMembers_idem kvs]
end

theorem canonMembers_normalised (l : EventParse.Obj) : normNumsMembers (canonMembers l) = canonMembers l := by
  unfold canonMembers; rw [normNumsMembers_idem]

theorem normNumsMembers_append (a b : List (Bytes × JVal)) : normNumsMembers (a ++ b) = normNumsMembers a ++ normNumsMembers b := by
  rw [normNumsMembers_eq_map, normNumsMembers_eq_map, normNumsMembers_eq_map, List.map_append]

/-- the compact rendering of the headered value of an event with normalised, grammatical members
    (as every parsed canonical text has) denotes exactly that value -/
theorem headered_text {S : EventParse.Obj} (hn : numsOkMembers S = true) (hnn : normNumsMembers S = S) (id ver : Bytes)
    (hno : ∀ kv ∈ S, (kv.1 == b!"_event_id") = false ∧ (kv.1 == b!"_room_version") = false) :
    ∃ p, parse (encode (.obj (setFirst b!"_event_id" (.str id) (setFirst b!"_room_version" (.str ver) S)))) = some p ∧
      p.toJVal = .obj (setFirst b!"_event_id" (.str id) (setFirst b!"_room_version" (.str ver) S)) := by
  have h1 : setFirst b!"_room_version" (.str ver) S = S ++ [(b!"_room_version", .str ver)] :=
    setFirst_absent _ _ S (fun kv hkv => (hno kv hkv).2)
  have hno2 : ∀ kv ∈ S ++ [(b!"_room_version", JVal.str ver)], (kv.1 == b!"_event_id") = false := by
    intro kv hkv
    rcases List.mem_append.mp hkv with h | h
    · exact (hno kv h).1
    · rcases List.mem_singleton.mp h with rfl
      show (b!"_room_version" == b!"_event_id") = false
      decide
  rw [h1, setFirst_absent _ _ _ hno2]
  refine ⟨_, parse_encode _ ?_, ?_⟩
  · simp only [JVal.numsOk, numsOkMembers_append, hn, numsOkMembers, Bool.and_self]
  · rw [ofJVal_toJVal]
    simp only [JVal.normNums, normNumsMembers_append, hnn, normNumsMembers]

end V.BuildProofs
