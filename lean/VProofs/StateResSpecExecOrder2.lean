/-
  C10, the EXECUTABLE rendering of the definition (`VModel/StateResSpecExec.lean`) against the Prop-level definition
  (`VModel/StateResSpec.lean`), part 2: the mainline (`mainlineOf`, `mainline`), position / steps (`walk`, `posSteps`),
  the mainline ordering (`mainlineOrder`) and the partial state as an association list (`AMap`) against the map `SMap`
  (`applyOneA`, `authStepA` and their folds).  Core only.
-/
import VProofs.StateResSpecExecOrder
import VProofs.StateResSpecMainline
import VProofs.StateResSpecState
namespace V.StateResSpec.Exec
open V Json GoJson Auth List
open V.StateRes (ID isPLEvent OtherKey otherLt insertBy sortBy sortBy_perm mem_sortBy sortBy_sorted otherLt_strictTotal
  SortedBy)
open V.StateResSpec

variable {m ml : List Event}

/-! ## 2. Mainline -/

theorem mainlineOf_zero (m : List Event) (ps : List Event) : mainlineOf m 0 ps = [] := by
  unfold mainlineOf; rfl

theorem mainlineOf_succ (m : List Event) (n : Nat) (ps : List Event) :
    mainlineOf m (n + 1) ps = ps.foldr (fun p acc => acc ++ (mainlineOf m n (plParents m p) ++ [p])) [] := by
  rw [mainlineOf]

/-- the fold of one level, given the result for the recursive calls -/
theorem mainlineOf_fold {n : Nat}
    (ih : ∀ ps, (∀ p ∈ ps, DepthLE m p n) → MainlineOf m ps (mainlineOf m n ps)) :
    ∀ ps : List Event, (∀ p ∈ ps, DepthLE m p (n + 1)) →
      MainlineOf m ps (ps.foldr (fun p acc => acc ++ (mainlineOf m n (plParents m p) ++ [p])) [])
  | [], _ => .nil
  | p :: ps, hd => by
    rw [List.foldr_cons]
    exact .cons (ih _ (hd p List.mem_cons_self).parents)
      (mainlineOf_fold ih ps (fun q hq => hd q (List.mem_cons_of_mem _ hq)))

/-- `mainlineOf` with fuel `n` computes the recursive description, for events whose power-levels chains have
    fewer than `n` links -/
theorem mainlineOf_spec : ∀ (n : Nat) (ps : List Event), (∀ p ∈ ps, DepthLE m p n) →
    MainlineOf m ps (mainlineOf m n ps) := by
  intro n
  induction n with
  | zero =>
    intro ps hd
    cases ps with
    | nil => rw [mainlineOf_zero]; exact .nil
    | cons p ps => exact (hd p List.mem_cons_self).not_zero.elim
  | succ n ih =>
    intro ps hd
    rw [mainlineOf_succ]
    exact mainlineOf_fold ih ps hd

/-- **Mainline.** -/
theorem mainline_is_mainline (hac : Acyclic (· ∈ m)) (pl : Option Event) : IsMainline m pl (mainline m pl) := by
  cases pl with
  | none => rfl
  | some e =>
    show MainlineOf m [e] (mainlineOf m (m.length + 3) [e])
    apply mainlineOf_spec
    intro p hp
    rw [List.mem_singleton.mp hp]
    exact (depthLE_of_acyclic hac e).mono (by omega)

theorem mainline_unique (hac : Acyclic (· ∈ m)) {pl : Option Event} {l : List Event} (h : IsMainline m pl l) :
    l = mainline m pl := IsMainline.unique h (mainline_is_mainline hac pl)

/-! ## 3. Position / steps -/

theorem walk_zero (m ml : List Event) (ps : List Event) (st : Nat × Nat) : walk m ml 0 ps st = st := by
  unfold walk; rfl

theorem walk_succ (m ml : List Event) (n : Nat) (ps : List Event) (st : Nat × Nat) :
    walk m ml (n + 1) ps st = walkList m ml (walk m ml n) ps st := by
  rw [walk]

/-- one list, given the result for the walks one level down -/
theorem walkList_spec {n : Nat}
    (ih : ∀ ps st, (∀ p ∈ ps, DepthLE m p n) → Walk m ml ps st (walk m ml n ps st)) :
    ∀ (ps : List Event) (st : Nat × Nat), (∀ p ∈ ps, DepthLE m p (n + 1)) →
      Walk m ml ps st (walkList m ml (walk m ml n) ps st)
  | [], st, _ => by rw [walkList]; exact .nil
  | p :: rest, st, hd => by
    rw [walkList]
    cases hpos : posOf ml p.eventID with
    | some pos => exact .hit hpos
    | none =>
      exact .miss hpos (ih _ _ (hd p List.mem_cons_self).parents)
        (walkList_spec ih rest _ (fun q hq => hd q (List.mem_cons_of_mem _ hq)))

theorem walk_spec : ∀ (n : Nat) (ps : List Event) (st : Nat × Nat), (∀ p ∈ ps, DepthLE m p n) →
    Walk m ml ps st (walk m ml n ps st) := by
  intro n
  induction n with
  | zero =>
    intro ps st hd
    cases ps with
    | nil => rw [walk_zero]; exact .nil
    | cons p ps => exact (hd p List.mem_cons_self).not_zero.elim
  | succ n ih =>
    intro ps st hd
    rw [walk_succ]
    exact walkList_spec ih ps st hd

/-- **Position / steps.** -/
theorem posSteps_spec (hac : Acyclic (· ∈ m)) (e : Event) : MainlinePosSteps m ml e (posSteps m ml e) := by
  show Walk m ml (plParents m e) (0, 0) (walk m ml (m.length + 3) (plParents m e) (0, 0))
  apply walk_spec
  intro p hp
  exact ((depthLE_of_acyclic hac e).parents p hp).mono (by omega)

theorem posSteps_unique (hac : Acyclic (· ∈ m)) {e : Event} {r : Nat × Nat} (h : MainlinePosSteps m ml e r) :
    r = posSteps m ml e := MainlinePosSteps.unique h (posSteps_spec hac e)

/-! ## 4. Mainline order -/

theorem insertSortedK_eq (x : Event × OtherKey) : ∀ l : List (Event × OtherKey),
    insertSortedK x l = insertBy (fun a b => otherLt a.2 b.2) x l
  | [] => rfl
  | y :: ys => by
    rw [insertSortedK, insertBy, insertSortedK_eq x ys]

theorem foldr_insertSortedK : ∀ l : List (Event × OtherKey),
    l.foldr insertSortedK [] = sortBy (fun a b => otherLt a.2 b.2) l
  | [] => rfl
  | x :: xs => by
    rw [List.foldr_cons, foldr_insertSortedK xs, insertSortedK_eq, sortBy]

/-- **Mainline order.** -/
theorem mainlineOrder_spec (hac : Acyclic (· ∈ m)) (ml input : List Event) :
    IsMainlineOrder m ml input (mainlineOrder m ml input) := by
  unfold mainlineOrder
  rw [foldr_insertSortedK]
  refine ⟨?_, fun e => otherKeyOf e (posSteps m ml e), ?_, ?_⟩
  · have hp := (sortBy_perm (fun (a b : Event × OtherKey) => otherLt a.2 b.2)
      (input.map (fun e => (e, otherKeyOf e (posSteps m ml e))))).map (·.1)
    rw [List.map_map] at hp
    have hid : ((fun x : Event × OtherKey => x.1) ∘ fun e => (e, otherKeyOf e (posSteps m ml e))) = id := rfl
    rw [hid, List.map_id] at hp
    exact hp
  · intro e _
    exact ⟨_, posSteps_spec hac e, rfl⟩
  · have hs := sortBy_sorted (fun (x : Event × OtherKey) => x.2) otherLt_strictTotal
      (input.map (fun e => (e, otherKeyOf e (posSteps m ml e))))
    unfold IsSortedBy
    rw [List.pairwise_map]
    refine List.Pairwise.imp_of_mem ?_ hs
    intro a b ha hb hab
    have ha' := (mem_sortBy _).mp ha
    have hb' := (mem_sortBy _).mp hb
    rw [List.mem_map] at ha' hb'
    obtain ⟨x, _, rfl⟩ := ha'
    obtain ⟨y, _, rfl⟩ := hb'
    exact hab

theorem mainlineOrder_unique (hac : Acyclic (· ∈ m)) {ml input out : List Event}
    (hid : ∀ a ∈ input, ∀ b ∈ input, a.eventID = b.eventID → a = b) (h : IsMainlineOrder m ml input out) :
    out = mainlineOrder m ml input :=
  IsMainlineOrder.unique hid h (mainlineOrder_spec hac ml input)

/-! ## 5. The partial state: association list vs map -/

/-- the keys of the association list are pairwise distinct -/
def AKeysNodup (s : AMap) : Prop := (s.map (·.1)).Nodup

theorem aKeysNodup_nil : AKeysNodup [] := List.nodup_nil

theorem AMap.toSMap_nil : AMap.toSMap [] = SMap.empty := rfl

theorem AMap.find_set (k : Key) (e : Event) (k' : Key) : ∀ s : AMap,
    ((s.filter (fun x => !(x.1 == k)) ++ [(k, e)]).find? (fun x => x.1 == k')).map (·.2) =
      if k' = k then some e else (s.find? (fun x => x.1 == k')).map (·.2)
  | [] => by
    by_cases h : k' = k
    · simp [h]
    · have : (k == k') = false := by simpa using fun h' => h h'.symm
      simp [h, this]
  | x :: xs => by
    have ih := AMap.find_set k e k' xs
    by_cases hxk : x.1 = k
    · have hb : (x.1 == k) = true := by simpa using hxk
      rw [List.filter_cons, hb]
      simp only [Bool.not_true, Bool.false_eq_true, if_false]
      rw [ih]
      by_cases h : k' = k
      · simp [h]
      · have : (x.1 == k') = false := by rw [hxk]; simpa using fun h' => h h'.symm
        simp only [h, if_false, List.find?_cons, this]
    · have hb : (x.1 == k) = false := by simpa using hxk
      rw [List.filter_cons, hb]
      simp only [Bool.not_false, if_true, List.cons_append, List.find?_cons]
      by_cases hxk' : x.1 = k'
      · have hb' : (x.1 == k') = true := by simpa using hxk'
        have : k' ≠ k := fun h => hxk (hxk'.trans h)
        simp only [hb', this, if_false]
      · have hb' : (x.1 == k') = false := by simpa using hxk'
        simp only [hb']
        exact ih

theorem AMap.toSMap_set (s : AMap) (k : Key) (e : Event) : (s.set k e).toSMap = s.toSMap.set k e := by
  funext k'
  exact AMap.find_set k e k' s

theorem aKeysNodup_set {s : AMap} (h : AKeysNodup s) (k : Key) (e : Event) : AKeysNodup (s.set k e) := by
  unfold AKeysNodup AMap.set at *
  rw [List.map_append, List.nodup_append]
  refine ⟨(List.filter_sublist.map _).nodup h, by simp, ?_⟩
  intro a ha b hb
  simp only [List.map_cons, List.map_nil, List.mem_singleton] at hb
  subst hb
  obtain ⟨x, hx, rfl⟩ := List.mem_map.mp ha
  have := (List.mem_filter.mp hx).2
  simpa using this

theorem applyOneA_toSMap (s : AMap) (e : Event) : (applyOneA s e).toSMap = applyOne s.toSMap e := by
  unfold applyOneA applyOne
  cases keyOf e with
  | none => rfl
  | some k => exact AMap.toSMap_set s k e

theorem applyOneA_keysNodup {s : AMap} (h : AKeysNodup s) (e : Event) : AKeysNodup (applyOneA s e) := by
  unfold applyOneA
  cases keyOf e with
  | none => exact h
  | some k => exact aKeysNodup_set h k e

theorem authStepA_toSMap (m : List Event) (rej : List ID) (s : AMap) (e : Event) :
    (authStepA m rej s e).toSMap = authStep m rej s.toSMap e := by
  unfold authStepA authStep
  generalize allowedFresh e (Provider.ofEvents (providerEvents m rej s.toSMap e)) false = v
  cases v with
  | ok => exact applyOneA_toSMap s e
  | _ => rfl

theorem authStepA_keysNodup (m : List Event) (rej : List ID) {s : AMap} (h : AKeysNodup s) (e : Event) :
    AKeysNodup (authStepA m rej s e) := by
  unfold authStepA
  generalize allowedFresh e (Provider.ofEvents (providerEvents m rej s.toSMap e)) false = v
  cases v with
  | ok => exact applyOneA_keysNodup h e
  | _ => exact h

theorem foldl_applyOneA_toSMap : ∀ (l : List Event) (s : AMap),
    (l.foldl applyOneA s).toSMap = applyAll s.toSMap l
  | [], _ => rfl
  | e :: es, s => by
    rw [List.foldl_cons, foldl_applyOneA_toSMap es, applyOneA_toSMap]
    rfl

theorem foldl_applyOneA_keysNodup : ∀ (l : List Event) {s : AMap}, AKeysNodup s → AKeysNodup (l.foldl applyOneA s)
  | [], _, h => h
  | e :: es, _, h => foldl_applyOneA_keysNodup es (applyOneA_keysNodup h e)

theorem foldl_authStepA_toSMap (m : List Event) (rej : List ID) : ∀ (l : List Event) (s : AMap),
    (l.foldl (authStepA m rej) s).toSMap = iterAuth m rej s.toSMap l
  | [], _ => rfl
  | e :: es, s => by
    rw [List.foldl_cons, foldl_authStepA_toSMap m rej es, authStepA_toSMap]
    rfl

theorem foldl_authStepA_keysNodup (m : List Event) (rej : List ID) : ∀ (l : List Event) {s : AMap},
    AKeysNodup s → AKeysNodup (l.foldl (authStepA m rej) s)
  | [], _, h => h
  | e :: es, _, h => foldl_authStepA_keysNodup m rej es (authStepA_keysNodup m rej h e)

/-- with distinct keys, the IDs listed by the association list are the IDs of the values of the map -/
theorem amap_ids_iff {s : AMap} (hk : AKeysNodup s) (id : ID) :
    id ∈ s.map (·.2.eventID) ↔ ∃ k e, s.toSMap k = some e ∧ e.eventID = id :=
  result_ids_iff (s := s) (f := s.toSMap) hk (fun _ _ => rfl) id

/-- the state pipeline of `resolve` (two rounds of iterative auth checks, then the unconflicted events re-applied),
    read as a map, is the pipeline of `Resolves`; the keys stay pairwise distinct -/
theorem pipeline_toSMap (m : List Event) (rej : List ID) (s1 : AMap) (ctlOrder othOrder unconf : List Event) :
    (unconf.foldl applyOneA (othOrder.foldl (authStepA m rej) (ctlOrder.foldl (authStepA m rej) s1))).toSMap =
      applyAll (iterAuth m rej (iterAuth m rej s1.toSMap ctlOrder) othOrder) unconf := by
  rw [foldl_applyOneA_toSMap, foldl_authStepA_toSMap, foldl_authStepA_toSMap]

theorem pipeline_keysNodup (m : List Event) (rej : List ID) {s1 : AMap} (h : AKeysNodup s1)
    (ctlOrder othOrder unconf : List Event) :
    AKeysNodup (unconf.foldl applyOneA (othOrder.foldl (authStepA m rej) (ctlOrder.foldl (authStepA m rej) s1))) :=
  foldl_applyOneA_keysNodup _ (foldl_authStepA_keysNodup m rej _ (foldl_authStepA_keysNodup m rej _ h))

/-- the initial state of algorithm 2: the unconflicted events applied to the empty state -/
theorem initial_toSMap (l : List Event) : (l.foldl applyOneA ([] : AMap)).toSMap = applyAll SMap.empty l := by
  rw [foldl_applyOneA_toSMap]; rfl

end V.StateResSpec.Exec
