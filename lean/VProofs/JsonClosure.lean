/- Closure properties of the canonical encoding: sorting preserves grammatical numbers and is
   idempotent on values without duplicate keys; the canonical bytes read back; injectivity.  Core only. -/
import VProofs.JsonCanon
namespace V.Json
open List

/-! ### `numsOk` is preserved by sorting -/

theorem numsOkMembers_eq_all (l : List (Bytes × JVal)) : numsOkMembers l = l.all (fun kv => kv.2.numsOk) := by
  induction l with
  | nil => rfl
  | cons x xs ih => obtain ⟨k, v⟩ := x; simp [numsOkMembers, ih]

theorem numsOkMembers_perm {l₁ l₂ : List (Bytes × JVal)} (h : l₁ ~ l₂) : numsOkMembers l₁ = numsOkMembers l₂ := by
  rw [numsOkMembers_eq_all, numsOkMembers_eq_all]
  induction h with
  | nil => rfl
  | cons x _ ih => simp [ih]
  | swap x y l => simp [Bool.and_left_comm]
  | trans _ _ ih1 ih2 => exact ih1.trans ih2

mutual
theorem numsOk_sorted : (v : JVal) → v.numsOk = true → v.sorted.numsOk = true
  | .null, _ => rfl
  | .bool _, _ => rfl
  | .num _, h => h
  | .str _, _ => rfl
  | .arr xs, h => by
    simp only [JVal.numsOk] at h
    simp only [JVal.sorted, JVal.numsOk, numsOkList_sorted xs h]
  | .obj kvs, h => by
    simp only [JVal.numsOk] at h
    simp only [JVal.sorted, JVal.numsOk]
    rw [numsOkMembers_perm (sortByKey_perm _)]
    exact numsOkMembers_sorted kvs h
theorem numsOkList_sorted : (xs : List JVal) → numsOkList xs = true → numsOkList (sortedList xs) = true
  | [], _ => rfl
  | x :: xs, h => by
    simp only [numsOkList, Bool.and_eq_true] at h
    simp only [sortedList, numsOkList, numsOk_sorted x h.1, numsOkList_sorted xs h.2, Bool.and_self]
theorem numsOkMembers_sorted : (kvs : List (Bytes × JVal)) → numsOkMembers kvs = true →
    numsOkMembers (sortedMembers kvs) = true
  | [], _ => rfl
  | (k, v) :: kvs, h => by
    simp only [numsOkMembers, Bool.and_eq_true] at h
    simp only [sortedMembers, numsOkMembers, numsOk_sorted v h.1, numsOkMembers_sorted kvs h.2, Bool.and_self]
end

/-! ### sorting is idempotent when keys are distinct -/

theorem nodup_of_noDupIn : ∀ ks : List Bytes, noDupIn ks = true → ks.Nodup
  | [], _ => List.nodup_nil
  | k :: ks, h => by
    simp only [noDupIn, Bool.and_eq_true, Bool.not_eq_true', List.contains_eq_mem, decide_eq_false_iff_not] at h
    exact List.nodup_cons.mpr ⟨h.1, nodup_of_noDupIn ks h.2⟩

theorem sortedMembers_keys' (kvs : List (Bytes × JVal)) : (sortedMembers kvs).map (·.1) = kvs.map (·.1) := by
  rw [sortedMembers_eq_map']; simp [Function.comp_def]

mutual
theorem sorted_idem : (v : JVal) → v.noDupKeys = true → v.sorted.sorted = v.sorted
  | .null, _ => rfl
  | .bool _, _ => rfl
  | .num _, _ => rfl
  | .str _, _ => rfl
  | .arr xs, h => by
    simp only [JVal.noDupKeys] at h
    simp only [JVal.sorted, sortedList_idem xs h]
  | .obj kvs, h => by
    simp only [JVal.noDupKeys, Bool.and_eq_true] at h
    have hn : NodupKeys (sortedMembers kvs) := by
      unfold NodupKeys; rw [sortedMembers_keys']; exact nodup_of_noDupIn _ h.1
    simp only [JVal.sorted]
    rw [sortedMembers_eq_map' (sortByKey _),
      ← sortByKey_map (fun kv : Bytes × JVal => (kv.1, kv.2.sorted)) (fun _ => rfl),
      ← sortedMembers_eq_map', sortedMembers_idem kvs h.2, sortByKey_of_strict (sortByKey_strict hn)]
theorem sortedList_idem : (xs : List JVal) → jNoDupList xs = true → sortedList (sortedList xs) = sortedList xs
  | [], _ => rfl
  | x :: xs, h => by
    simp only [jNoDupList, Bool.and_eq_true] at h
    simp only [sortedList, sorted_idem x h.1, sortedList_idem xs h.2]
theorem sortedMembers_idem : (kvs : List (Bytes × JVal)) → jNoDupMembers kvs = true →
    sortedMembers (sortedMembers kvs) = sortedMembers kvs
  | [], _ => rfl
  | (k, v) :: kvs, h => by
    simp only [jNoDupMembers, Bool.and_eq_true] at h
    simp only [sortedMembers, sorted_idem v h.1, sortedMembers_idem kvs h.2]
end

theorem encodeCanon_sorted (v : JVal) (h : v.noDupKeys = true) : encodeCanon v.sorted = encodeCanon v := by
  unfold encodeCanon; rw [sorted_idem v h]

/-! ### the canonical bytes read back -/

/-- The canonical bytes of a value are valid JSON denoting the same value (members sorted, `-0` as `0`). -/
theorem parse_encodeCanon (v : JVal) (hv : v.numsOk = true) :
    parse (encodeCanon v) = some (ofJVal v.sorted) ∧ (ofJVal v.sorted).toJVal = v.sorted.normNums :=
  ⟨parse_encode v.sorted (numsOk_sorted v hv), ofJVal_toJVal v.sorted⟩

/-- Different values (up to member order and `-0`) have different canonical bytes. -/
theorem encodeCanon_inj (v w : JVal) (hv : v.numsOk = true) (hw : w.numsOk = true)
    (h : encodeCanon v = encodeCanon w) : v.sorted.normNums = w.sorted.normNums := by
  have h1 := (parse_encodeCanon v hv).1
  have h2 := (parse_encodeCanon w hw).1
  rw [h, h2] at h1
  simp only [Option.some.injEq] at h1
  rw [← ofJVal_toJVal v.sorted, ← ofJVal_toJVal w.sorted, h1]

/-- Canonicalising canonical bytes changes nothing. -/
theorem canonical_encodeCanon (v : JVal) (hv : v.numsOk = true) (hd : v.noDupKeys = true) :
    canonical (encodeCanon v) = .ok (encodeCanon v) := by
  have h1 := (parse_encodeCanon v hv).1
  rw [canonical_of_parse h1 (ofJVal_surrogatesOk _), ofJVal_toJVal, encodeCanon_normNums, encodeCanon_sorted v hd]

/-- Canonicalising *any* compact rendering of a value (any member order) gives its canonical bytes. -/
theorem canonical_encode (v : JVal) (hv : v.numsOk = true) : canonical (encode v) = .ok (encodeCanon v) := by
  rw [canonical_of_parse (parse_encode v hv) (ofJVal_surrogatesOk _), ofJVal_toJVal, encodeCanon_normNums]

end V.Json
