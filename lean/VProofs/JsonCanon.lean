/- Assembly: `canonical` = specification, and the closure properties of the canonical encoding
   (read-back, idempotence of sorting, injectivity).  Core only. -/
import VProofs.JsonCompact
import VProofs.JsonSortEmit
import VProofs.JsonParsed
namespace V.Json
open List

/-- **model = specification**, in its most general form: for every text the parser accepts and whose
    strings contain no lone surrogate escape.  (Duplicate keys are *not* excluded here: model and
    specification use the same deterministic sort.  They are excluded in the property theorems because
    the order the Go code gives equal keys is not modelled.) -/
theorem canonical_of_parse {t : Bytes} {p : PVal} (hp : parse t = some p) (hs : p.surrogatesOk = true) :
    canonical t = .ok (encodeCanon p.toJVal) := by
  have hv : valid t = true := by simp [valid, hp]
  have hc := compact_of_parse hp hs
  have hn := parse_numsOk hp
  have hr := parse_encode p.toJVal hn
  unfold canonical
  simp only [hv, Bool.not_true, Bool.false_eq_true, ↓reduceIte, hc, sortJSON, hr, Option.map_some]
  rw [sortEmit_ofJVal]
  rfl

/-! ### `surrogatesPaired` (the C01 domain) implies `noLoneSurr` (what the proof needs) -/

theorem surrogatesPaired_cons (c : UInt8) (rest : Bytes) :
    surrogatesPaired (c :: rest) =
      if c == 0x5C then
        match rest with
        | [] => true
        | e :: rest1 =>
          if e == 0x75 then
            match rest1 with
            | a :: b :: c2 :: d :: rest2 =>
              if 0xD800 ≤ hex4 a b c2 d && hex4 a b c2 d < 0xDC00 then
                match rest2 with
                | x :: y :: a2 :: b2 :: c3 :: d2 :: rest3 =>
                  x == 0x5C && y == 0x75 && (0xDC00 ≤ hex4 a2 b2 c3 d2 && hex4 a2 b2 c3 d2 < 0xE000)
                    && surrogatesPaired rest3
                | _ => false
              else if 0xDC00 ≤ hex4 a b c2 d && hex4 a b c2 d < 0xE000 then false
              else surrogatesPaired rest2
            | _ => true
          else surrogatesPaired rest1
      else surrogatesPaired rest := by
  conv => lhs; unfold surrogatesPaired
  rfl

theorem noLoneSurr_of_surrogatesPaired : ∀ (n : Nat) (raw : Bytes), raw.length ≤ n →
    surrogatesPaired raw = true → noLoneSurr raw = true
  | _, [], _, _ => rfl
  | 0, _ :: _, hl, _ => by simp at hl
  | n + 1, c :: rest, hl, h => by
    have ih : ∀ r : Bytes, r.length ≤ n → surrogatesPaired r = true → noLoneSurr r = true :=
      noLoneSurr_of_surrogatesPaired n
    simp only [List.length_cons] at hl
    rw [surrogatesPaired_cons] at h
    rw [noLoneSurr_cons]
    split
    · rename_i hc
      simp only [hc, ↓reduceIte] at h
      cases rest with
      | nil => rfl
      | cons e rest1 =>
        simp only [List.length_cons] at hl
        simp only at h ⊢
        split
        · rename_i he
          simp only [he, ↓reduceIte] at h
          rcases rest1 with _ | ⟨a, _ | ⟨b, _ | ⟨c2, _ | ⟨d, rest2⟩⟩⟩⟩ <;> try rfl
          simp only [List.length_cons] at hl
          simp only at h ⊢
          by_cases hhi : (0xD800 ≤ hex4 a b c2 d && hex4 a b c2 d < 0xDC00) = true
          · have hsur : isSurrogate (hex4 a b c2 d) = true := by
              simp only [Bool.and_eq_true, decide_eq_true_eq] at hhi
              simp [isSurrogate]; omega
            simp only [hhi, ↓reduceIte] at h
            simp only [hsur, ↓reduceIte]
            rcases rest2 with _ | ⟨x, _ | ⟨y, _ | ⟨a2, _ | ⟨b2, _ | ⟨c3, _ | ⟨d2, rest3⟩⟩⟩⟩⟩⟩ <;>
              first | (cases h; done) | skip
            simp only [List.length_cons] at hl
            simp only [Bool.and_eq_true] at h ⊢
            exact ⟨⟨h.1.1.1, h.1.1.2⟩, ih rest3 (by omega) h.2⟩
          · simp only [hhi, Bool.false_eq_true, ↓reduceIte] at h
            by_cases hlo : (0xDC00 ≤ hex4 a b c2 d && hex4 a b c2 d < 0xE000) = true
            · simp [hlo] at h
            · simp only [hlo, Bool.false_eq_true, ↓reduceIte] at h
              have hsur : isSurrogate (hex4 a b c2 d) = false := by
                simp only [Bool.and_eq_true, decide_eq_true_eq, not_and, Nat.not_lt] at hhi hlo
                simp only [isSurrogate, Bool.and_eq_false_iff, decide_eq_false_iff_not, Nat.not_le, Nat.not_lt]
                omega
              simp only [hsur, Bool.false_eq_true, ↓reduceIte]
              exact ih rest2 (by omega) h
        · rename_i he
          simp only [he, Bool.false_eq_true, ↓reduceIte] at h
          exact ih rest1 (by omega) h
    · rename_i hc
      simp only [hc, Bool.false_eq_true, ↓reduceIte] at h
      exact ih rest (by omega) h

mutual
theorem surrogatesOk_of_wellFormed : (p : PVal) → p.wellFormed = true → p.surrogatesOk = true
  | .null, _ => rfl
  | .bool _, _ => rfl
  | .num _, _ => rfl
  | .str raw _, h => by
    simp only [PVal.wellFormed, rawStringWellFormed, Bool.and_eq_true] at h
    exact noLoneSurr_of_surrogatesPaired _ raw (Nat.le_refl _) h.2
  | .arr xs, h => by
    simp only [PVal.wellFormed] at h
    simp only [PVal.surrogatesOk, surrogatesOkList_of_wellFormed xs h]
  | .obj kvs, h => by
    simp only [PVal.wellFormed] at h
    simp only [PVal.surrogatesOk, surrogatesOkMembers_of_wellFormed kvs h]
theorem surrogatesOkList_of_wellFormed : (xs : List PVal) → wellFormedList xs = true → surrogatesOkList xs = true
  | [], _ => rfl
  | x :: xs, h => by
    simp only [wellFormedList, Bool.and_eq_true] at h
    simp only [surrogatesOkList, surrogatesOk_of_wellFormed x h.1, surrogatesOkList_of_wellFormed xs h.2, Bool.and_self]
theorem surrogatesOkMembers_of_wellFormed : (kvs : List (Bytes × Bytes × PVal)) → wellFormedMembers kvs = true →
    surrogatesOkMembers kvs = true
  | [], _ => rfl
  | (raw, d, v) :: kvs, h => by
    simp only [wellFormedMembers, rawStringWellFormed, Bool.and_eq_true] at h
    simp only [surrogatesOkMembers, noLoneSurr_of_surrogatesPaired _ raw (Nat.le_refl _) h.1.1.2,
      surrogatesOk_of_wellFormed v h.1.2, surrogatesOkMembers_of_wellFormed kvs h.2, Bool.and_self]
end

end V.Json
