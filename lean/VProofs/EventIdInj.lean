/-
  VProofs.EventIdInj — from equal reference bytes to equal `hashes` members (C03, injectivity of the event ID).

  * the insertion sort of the canonical form puts, of several members with one key, the FIRST of the
    text last: `lookupExact (canonMembers l) k = (getFirst l k).map canonical-form` — no hypothesis about
    duplicate keys;
  * hence `gjson.Get(json, "hashes.sha256")` (`claimedHash`) is a function of the canonical form of the
    `hashes` member;
  * a redaction keeps every raw field of the keep struct verbatim (`redactWith_raw`; no hypothesis on `type` /
    `content`, unlike `redactWith_exact`) and keeps number literals grammatical (`redactWith_numsOk`);
  * so two objects with the same reference bytes carry the same `hashes` member up to canonical form
    (`hashes_of_referenceBytes`);
  * what `Build` returns carries a valid content hash (`contentHash_canon_obj`: `contentHash_canon` without the
    receiver's stripping).
  Core Lean only.
-/
import VProofs.EventBuildRoundtrip
import VProps.C04
namespace V.IdInj
open V V.Json V.GoJson V.Redact V.EventParse V.RedactProofs V.EventProofs V.BuildProofs

/-! ## Sorting and the two lookups -/

/-- In a list sorted by key, an inserted member becomes the last one with its key. -/
theorem lookupExact_insertByKey (x : Bytes × JVal) (k : Bytes) :
    ∀ s : EventParse.Obj, s.Pairwise KeyLe →
      lookupExact (insertByKey x s) k = if x.1 == k then some x.2 else lookupExact s k
  | [], _ => rfl
  | y :: ys, h => by
    unfold insertByKey
    split
    · rename_i hlt
      rw [lookupExact_eq, lastSome_cons, ← lookupExact_eq]
      by_cases hx : x.1 = k
      · have hnone : lookupExact (y :: ys) k = none := by
          rw [lookupExact_eq]
          apply lastSome_none_of_forall
          intro z hz
          cases hzk : z.1 == k
          · rfl
          · exfalso
            have hzx : z.1 = x.1 := by rw [hx]; exact beq_iff_eq.mp hzk
            rcases List.mem_cons.mp hz with rfl | hz'
            · rw [← hzx, bytesLt_irrefl] at hlt; cases hlt
            · have hle : KeyLe y z := List.rel_of_pairwise_cons h hz'
              unfold KeyLe at hle
              rw [hzx, hlt] at hle; cases hle
        have hb : (x.1 == k) = true := by simp [hx]
        rw [hnone, hb]
      · have hb : (x.1 == k) = false := by simp [hx]
        rw [hb]
        cases lookupExact (y :: ys) k <;> rfl
    · rw [lookupExact_eq, lastSome_cons, ← lookupExact_eq, lookupExact_insertByKey x k ys h.tail,
        lookupExact_eq (y :: ys), lastSome_cons, ← lookupExact_eq]
      cases (x.1 == k) <;> cases lookupExact ys k <;> cases (y.1 == k) <;> rfl

/-- The last member with key `k` of the sorted list is the FIRST member with key `k` of the original
    (the insertion sort reverses the order of members with equal keys). -/
theorem lookupExact_sortByKey (k : Bytes) : ∀ l : EventParse.Obj, lookupExact (sortByKey l) k = getFirst l k
  | [] => rfl
  | x :: l => by
    show lookupExact (insertByKey x (sortByKey l)) k = _
    rw [lookupExact_insertByKey x k _ (sortByKey_sorted l), lookupExact_sortByKey k l]
    unfold getFirst
    simp only [List.find?_cons]
    cases (x.1 == k) <;> rfl

theorem lookupExact_mapVal (f : JVal → JVal) (k : Bytes) : ∀ l : EventParse.Obj,
    lookupExact (l.map (fun kv => (kv.1, f kv.2))) k = (lookupExact l k).map f
  | [] => rfl
  | x :: l => by
    rw [List.map_cons, lookupExact_eq, lastSome_cons, ← lookupExact_eq, lookupExact_mapVal f k l,
      lookupExact_eq (x :: l), lastSome_cons, ← lookupExact_eq]
    cases lookupExact l k <;> cases (x.1 == k) <;> rfl

theorem getFirst_mapVal (f : JVal → JVal) (k : Bytes) : ∀ l : EventParse.Obj,
    getFirst (l.map (fun kv => (kv.1, f kv.2))) k = (getFirst l k).map f
  | [] => rfl
  | x :: l => by
    have ih := getFirst_mapVal f k l
    unfold getFirst at ih ⊢
    simp only [List.map_cons, List.find?_cons]
    cases (x.1 == k)
    · exact ih
    · rfl

/-- **The canonical form of an object holds, under a key, the canonical form of the first member the text has
    under that key** — whatever duplicates the object has. -/
theorem lookupExact_canonFirst (l : EventParse.Obj) (k : Bytes) :
    lookupExact (canonMembers l) k = (getFirst l k).map (fun v => v.sorted.normNums) := by
  unfold canonMembers
  rw [normNumsMembers_eq_map, lookupExact_mapVal, lookupExact_sortByKey, sortedMembers_eq_map', getFirst_mapVal,
    Option.map_map]
  rfl

theorem getFirst_eq_lookupExact {l : EventParse.Obj} (hn : (keysOf l).Nodup) (k : Bytes) : getFirst l k = lookupExact l k := by
  cases h : lookupExact l k with
  | some v => exact getFirst_of_mem hn (lookupExact_mem h)
  | none =>
    rw [lookupExact_eq, lastSome_none_iff] at h
    unfold getFirst
    rw [List.find?_eq_none.mpr (fun x hx => by simp [h x hx])]
    rfl

theorem lookupExact_filter (P : Bytes × JVal → Bool) (k : Bytes) (hP : ∀ kv : Bytes × JVal, kv.1 = k → P kv = true) :
    ∀ l : EventParse.Obj, lookupExact (l.filter P) k = lookupExact l k
  | [] => rfl
  | x :: l => by
    have ih := lookupExact_filter P k hP l
    rw [List.filter_cons, lookupExact_eq (x :: l), lastSome_cons, ← lookupExact_eq]
    cases hp : P x
    · have hb : (x.1 == k) = false := by
        cases hxk : x.1 == k
        · rfl
        · rw [hP x (beq_iff_eq.mp hxk)] at hp; cases hp
      simp only [Bool.false_eq_true, if_false, hb]
      rw [ih]
      cases lookupExact l k <;> rfl
    · simp only [if_true]
      rw [lookupExact_eq, lastSome_cons, ← lookupExact_eq, ih]

/-! ## `hashes.sha256` is a function of the canonical form of `hashes` -/

/-- `hashes.sha256` read from the canonical form of the `hashes` member (`none` = no such member) -/
def hashOfCanon (ov : Option JVal) : Bytes :=
  match ov with
  | some (.obj m) =>
    match lookupExact m b!"sha256" with
    | some (.str s) => s
    | _ => []
  | _ => []

theorem claimedHash_canon (k : EventParse.Obj) :
    claimedHash k = hashOfCanon ((getFirst k b!"hashes").map (fun v => v.sorted.normNums)) := by
  unfold claimedHash hashOfCanon
  cases getFirst k b!"hashes" with
  | none => rfl
  | some v =>
    cases v with
    | obj m =>
      simp only [Option.map_some]
      rw [canon_obj]
      simp only
      rw [lookupExact_canonFirst]
      cases getFirst m b!"sha256" with
      | none => rfl
      | some w => cases w <;> simp [JVal.sorted, JVal.normNums]
    | null => simp [JVal.sorted, JVal.normNums]
    | bool b => simp [JVal.sorted, JVal.normNums]
    | num n => simp [JVal.sorted, JVal.normNums]
    | str s => simp [JVal.sorted, JVal.normNums]
    | arr xs => simp [JVal.sorted, JVal.normNums]

/-! ## A redaction keeps raw fields verbatim and number literals grammatical -/

/-- every raw field of the keep struct is passed through: the redaction holds under its name exactly what
    the event held (as the last member with that exact key) — for ANY event the library can redact -/
theorem redactWith_raw {a : Algo} (hT : tablesOk a = true) {kvs rk : EventParse.Obj}
    (h : redactWith a (.obj kvs) = .ok (.obj rk)) {f : Field} (hf : f ∈ a.fields) (hraw : f.kind = .raw) :
    lookupExact rk f.name = lookupExact kvs f.name := by
  obtain ⟨hdist, _, _, _⟩ := tablesOk_parts hT
  have hnd := names_nodup hdist
  have h' : redactObj a (exactFields a.fields kvs) = .ok (.obj rk) := h
  obtain ⟨tf, cf, F, hv⟩ := redactObj_ok h'
  have hr : rk = outputOf a (exactFields a.fields kvs) tf cf := by injection hv
  have hE : ∀ g, ∀ kv ∈ emitField (exactFields a.fields kvs) (decType tf.name (exactFields a.fields kvs)).val
      (newContent a.ctable (decType tf.name (exactFields a.fields kvs)).val (decContent cf.name (exactFields a.fields kvs)).val) g,
      kv.1 = g.name := fun g kv hkv => emitField_name hkv
  have hsel : sel f.name (outputOf a (exactFields a.fields kvs) tf cf) = _ := sel_flatMap_emit _ hE a.fields hdist f hf
  rw [hr, output_exact_eq_field hdist hf, lookupField_sel, hsel]
  simp only [emitField, hraw]
  rw [lookupField_eq_exact (exactFields_wf hdist kvs) hf, lookupExact_exactFields hnd kvs hf]
  cases lookupExact kvs f.name <;> rfl

theorem redactWith_keys_nodup {a : Algo} (hT : tablesOk a = true) {kvs rk : EventParse.Obj}
    (h : redactWith a (.obj kvs) = .ok (.obj rk)) : (keysOf rk).Nodup := by
  obtain ⟨hdist, _, _, _⟩ := tablesOk_parts hT
  have h' : redactObj a (exactFields a.fields kvs) = .ok (.obj rk) := h
  obtain ⟨tf, cf, F, hv⟩ := redactObj_ok h'
  have hr : rk = outputOf a (exactFields a.fields kvs) tf cf := by injection hv
  rw [hr]; exact output_keys_nodup hdist _ tf cf

def NumsOkVals (m : EventParse.Obj) : Prop := ∀ kv ∈ m, kv.2.numsOk = true

theorem mergeInto_numsOk (m0 : EventParse.Obj) : ∀ acc : EventParse.Obj, NumsOkVals acc → NumsOkVals m0 → NumsOkVals (mergeInto acc m0) := by
  unfold mergeInto
  induction m0 with
  | nil => intro acc h _; exact h
  | cons x rest ih =>
    intro acc ha hm
    simp only [List.foldl_cons]
    apply ih
    · exact setKey_all (P := fun kv => kv.2.numsOk = true) ha (hm x List.mem_cons_self)
    · exact fun kv hkv => hm kv (List.mem_cons_of_mem _ hkv)

theorem contentStep_numsOk (acc : ContentDec) (kv : Bytes × JVal) (hkv : kv.2.numsOk = true)
    (h : ∀ m, acc.val = some m → NumsOkVals m) : ∀ m, (contentStep acc kv).val = some m → NumsOkVals m := by
  intro m hm
  unfold contentStep at hm
  split at hm
  · rename_i m0 hm0
    simp only [Option.some.injEq] at hm
    subst hm
    apply mergeInto_numsOk
    · cases hv : acc.val with
      | none => intro x hx; cases hx
      | some y => exact h y hv
    · rw [hm0] at hkv
      exact numsOk_obj_forall hkv
  · cases hm
  · exact h m hm

theorem foldl_contentStep_numsOk (l : EventParse.Obj) (hl : NumsOkVals l) (acc : ContentDec)
    (h : ∀ m, acc.val = some m → NumsOkVals m) : ∀ m, (l.foldl contentStep acc).val = some m → NumsOkVals m := by
  induction l generalizing acc with
  | nil => exact h
  | cons kv rest ih =>
    exact ih (fun x hx => hl x (List.mem_cons_of_mem _ hx)) _ (contentStep_numsOk acc kv (hl kv List.mem_cons_self) h)

theorem decContent_numsOk (name : Bytes) (kvs : EventParse.Obj) (hk : NumsOkVals kvs) (m : EventParse.Obj)
    (h : (decContent name kvs).val = some m) : NumsOkVals m := by
  rw [decContent_sel] at h
  refine foldl_contentStep_numsOk _ ?_ {} (fun m hm => by cases hm) m h
  intro kv hkv
  exact hk kv (List.mem_filter.mp hkv).1

theorem newContent_numsOk (ct : CTable) (ty : Bytes) (c : Option EventParse.Obj) (hc : ∀ m, c = some m → NumsOkVals m) :
    ∀ m, newContent ct ty c = some m → NumsOkVals m := by
  intro m hm
  unfold newContent at hm
  cases hct : mapGet ct ty with
  | none =>
    rw [hct] at hm
    simp only [Option.some.injEq] at hm
    subst hm
    intro x hx; cases hx
  | some keys =>
    rw [hct] at hm
    cases keys with
    | nil => exact hc m hm
    | cons k ks =>
      simp only [Option.some.injEq] at hm
      subst hm
      intro kv hkv
      obtain ⟨key, _, hkey⟩ := List.mem_filterMap.mp hkv
      cases hg : mapGet (c.getD []) key with
      | none => rw [hg] at hkey; cases hkey
      | some v =>
        rw [hg] at hkey
        simp only [Option.map_some, Option.some.injEq] at hkey
        subst hkey
        have hmem := mapGet_mem' hg
        cases hcv : c with
        | none => rw [hcv] at hmem; cases hmem
        | some m0 => rw [hcv] at hmem; exact hc m0 hcv _ hmem

theorem redactObj_numsOk {a : Algo} {kvs rk : EventParse.Obj} (hk : NumsOkVals kvs)
    (h : redactObj a kvs = .ok (.obj rk)) : NumsOkVals rk := by
  obtain ⟨tf, cf, F, hv⟩ := redactObj_ok h
  have hr : rk = outputOf a kvs tf cf := by injection hv
  intro kv hkv
  rw [hr] at hkv
  rcases List.mem_flatMap.mp hkv with ⟨g, _, hkv'⟩
  have hnc := newContent_numsOk a.ctable (decType tf.name kvs).val (decContent cf.name kvs).val
    (fun m hm => decContent_numsOk cf.name kvs hk m hm)
  unfold emitField at hkv'
  split at hkv'
  · split at hkv'
    · cases hkv'
    · rcases List.mem_singleton.mp hkv' with rfl; rfl
  · split at hkv'
    · split at hkv'
      · cases hkv'
      · rcases List.mem_singleton.mp hkv' with rfl; rfl
    · rename_i m hm
      split at hkv'
      · cases hkv'
      · rcases List.mem_singleton.mp hkv' with rfl
        exact numsOk_obj_of_forall (hnc m hm)
  · split at hkv'
    · rename_i v hv'
      rcases List.mem_singleton.mp hkv' with rfl
      rw [lookupField_eq] at hv'
      obtain ⟨kv0, hkv0, _, hv0⟩ := lastSome_mem _ kvs v hv'
      show v.numsOk = true
      rw [← hv0]; exact hk kv0 hkv0
    · cases hkv'
  · cases hkv'

/-- the redaction of a value whose number literals follow the JSON grammar has that property too -/
theorem redactWith_numsOk {a : Algo} {kvs rk : EventParse.Obj} (hn : (JVal.obj kvs).numsOk = true)
    (h : redactWith a (.obj kvs) = .ok (.obj rk)) : (JVal.obj rk).numsOk = true := by
  have hk := numsOk_obj_forall hn
  have h' : redactObj a (exactFields a.fields kvs) = .ok (.obj rk) := h
  apply numsOk_obj_of_forall
  apply redactObj_numsOk _ h'
  intro kv hkv
  obtain ⟨f, _, _, hl⟩ := exactFields_mem hkv
  exact hk (f.name, kv.2) (lookupExact_mem hl)

/-! ## Equal reference bytes ⇒ equal `hashes` members -/

theorem referenceBytes_ok {ver : Bytes} {j : JVal} {b : Bytes} (h : referenceBytes ver j = .ok b) :
    ∃ r, redactJSON ver j = .ok (.obj r) ∧ b = encodeCanon (.obj (stripSigs r)) := by
  unfold referenceBytes at h
  split at h
  · cases h
  · rename_i r hr
    exact ⟨r, hr, (Except.ok.inj h).symm⟩
  · cases h

/-- the `hashes` member of a redaction without `signatures` / `unsigned` is the event's -/
theorem hashes_of_redaction {ver : Bytes} {kvs r : EventParse.Obj} (h : redactJSON ver (.obj kvs) = .ok (.obj r)) :
    (keysOf r).Nodup ∧ lookupExact (stripSigs r) b!"hashes" = lookupExact kvs b!"hashes" := by
  cases ha : algoOf ver with
  | none => simp [redactJSON, ha] at h
  | some a =>
    obtain ⟨hT, hS⟩ := C05.algoOf_ok ha
    have h' : redactWith a (.obj kvs) = .ok (.obj r) := by simpa [redactJSON, ha] using h
    obtain ⟨f, hf, hfn⟩ := List.any_eq_true.mp (C05.shape_has hS b!"hashes" (by simp))
    simp only [Bool.and_eq_true, beq_iff_eq] at hfn
    refine ⟨redactWith_keys_nodup hT h', ?_⟩
    unfold stripSigs
    rw [lookupExact_filter _ _ (fun kv hk => by rw [hk]; decide), ← hfn.1]
    exact redactWith_raw hT h' hf hfn.2

/-- **Two objects with the same reference bytes carry the same `hashes` member, up to canonical form** (of several
    `hashes` members of one object the last one is meant — what redaction keeps). -/
theorem hashes_of_referenceBytes {ver : Bytes} {k1 k2 : EventParse.Obj}
    (hn1 : (JVal.obj k1).numsOk = true) (hn2 : (JVal.obj k2).numsOk = true) {b : Bytes}
    (h1 : referenceBytes ver (.obj k1) = .ok b) (h2 : referenceBytes ver (.obj k2) = .ok b) :
    (lookupExact k1 b!"hashes").map (fun v => v.sorted.normNums) = (lookupExact k2 b!"hashes").map (fun v => v.sorted.normNums) := by
  obtain ⟨r1, hr1, hb1⟩ := referenceBytes_ok h1
  obtain ⟨r2, hr2, hb2⟩ := referenceBytes_ok h2
  obtain ⟨hd1, hl1⟩ := hashes_of_redaction hr1
  obtain ⟨hd2, hl2⟩ := hashes_of_redaction hr2
  have numsOf : ∀ {k r : EventParse.Obj}, (JVal.obj k).numsOk = true → redactJSON ver (.obj k) = .ok (.obj r) →
      (JVal.obj (stripSigs r)).numsOk = true := by
    intro k r hn hr
    cases ha : algoOf ver with
    | none => simp [redactJSON, ha] at hr
    | some a =>
      have h' : redactWith a (.obj k) = .ok (.obj r) := by simpa [redactJSON, ha] using hr
      have := numsOk_obj_forall (redactWith_numsOk hn h')
      apply numsOk_obj_of_forall
      intro kv hkv
      exact this kv (List.mem_filter.mp hkv).1
  have hcan := C01.encodeCanon_injective _ _ (numsOf hn1 hr1) (numsOf hn2 hr2) (by rw [← hb1, ← hb2])
  rw [canon_obj, canon_obj] at hcan
  have hm : canonMembers (stripSigs r1) = canonMembers (stripSigs r2) := by injection hcan
  have sub : ∀ {r : EventParse.Obj}, (keysOf r).Nodup → (keysOf (stripSigs r)).Nodup :=
    fun hd => ((List.filter_sublist (l := _)).map _).nodup hd
  have e1 := lookupExact_canon (sub hd1) b!"hashes"
  have e2 := lookupExact_canon (sub hd2) b!"hashes"
  rw [hl1] at e1
  rw [hl2] at e2
  rw [← e1, ← e2, hm]

/-! ## What `Build` returns carries a valid content hash -/

/-- `contentHash_canon` without the receiver's stripping: the canonical form of what `Build` signed passes
    `checkEventContentHash` as it stands -/
theorem contentHash_canon_obj (H : Bytes → Bytes) {signed : EventParse.Obj} (hd : (JVal.obj signed).noDupKeys = true)
    (hk : ∀ kv ∈ signed, kv.1 ∈ allKeys)
    (hh : (b!"hashes", JVal.obj [(b!"sha256", .str (B64.encode (H (encodeCanon (.obj (signed.filter hashP))))))]) ∈ signed) :
    contentHashOk H (canonMembers signed) = true := by
  have hSn : (keysOf (canonMembers signed)).Nodup :=
    (canonMembers_keys_perm signed).nodup_iff.mpr (keys_nodup_of_noDup hd)
  have hmemS : (b!"hashes", JVal.obj [(b!"sha256", .str (B64.encode (H (encodeCanon (.obj (signed.filter hashP))))))]) ∈
      canonMembers signed := by
    apply (canonMembers_perm signed).symm.subset
    have := List.mem_map_of_mem (f := cm) hh
    simp only [cm, hv_canon] at this
    exact this
  have hbytes : hashedBytes (canonMembers signed) = encodeCanon (.obj (signed.filter hashP)) := by
    unfold hashedBytes
    rw [deleteKeys_eq_filter _ _ hSn]
    apply encodeCanon_of_perm_cm _ (noDupKeys_filter hashP hd)
    refine ((canonMembers_perm signed).filter _).trans ?_
    rw [List.filter_map]
    apply List.Perm.of_eq
    congr 1
    apply List.filter_congr
    intro kv hkv
    simp only [Function.comp, cm]
    rw [hashKeys_contains kv.1 (hk kv hkv)]
    rfl
  unfold contentHashOk claimedHash
  rw [getFirst_of_mem hSn hmemS]
  simp only [getFirst, List.find?_cons, beq_self_eq_true, Option.map_some, b64_decode_encode, hbytes]

/-! ## The hashed members of what `Build` returns, member by member (for `C03.build_eventID_injective_proto`) -/

open V.EventBuild in
/-- the bytes `checkEventContentHash` hashes on what `Build` returns are the canonical encoding of the hashed members
    `Build` assembled -/
theorem hashedBytes_canon {signed : EventParse.Obj} (hd : (JVal.obj signed).noDupKeys = true)
    (hk : ∀ kv ∈ signed, kv.1 ∈ allKeys) :
    hashedBytes (canonMembers signed) = encodeCanon (.obj (signed.filter hashP)) := by
  have hSn : (keysOf (canonMembers signed)).Nodup :=
    (canonMembers_keys_perm signed).nodup_iff.mpr (keys_nodup_of_noDup hd)
  unfold hashedBytes
  rw [deleteKeys_eq_filter _ _ hSn]
  apply encodeCanon_of_perm_cm _ (noDupKeys_filter hashP hd)
  refine ((canonMembers_perm signed).filter _).trans ?_
  rw [List.filter_map]
  apply List.Perm.of_eq
  congr 1
  apply List.filter_congr
  intro kv hkv
  simp only [Function.comp, cm]
  rw [hashKeys_contains kv.1 (hk kv hkv)]
  rfl

/-- an optional member -/
def optM (k : Bytes) (o : Option JVal) : EventParse.Obj :=
  match o with
  | some v => [(k, v)]
  | none => []

theorem lookupExact_append_optM (l : EventParse.Obj) (k' k : Bytes) (o : Option JVal) :
    lookupExact (l ++ optM k' o) k =
      if k' == k then (match o with
        | some v => some v
        | none => lookupExact l k) else lookupExact l k := by
  cases o with
  | none => simp [optM]
  | some v =>
    show lookupExact (l ++ [(k', v)]) k = _
    rw [lookupExact_eq, lastSome_append, lastSome_cons, lastSome_nil, ← lookupExact_eq]
    dsimp only
    cases (k' == k) <;> rfl

open V.EventBuild in
/-- `json.Marshal(&eventStruct)` as a sequence of optional members -/
theorem membersOf_optM (pe : Proto) (content : JVal) (prev auth : List JVal) (eid : Bytes) (now : Nat) (origin : Bytes) :
    membersOf pe content prev auth eid now origin =
      [] ++ optM b!"sender" (some (.str pe.sender)) ++
      optM b!"room_id" (if pe.roomID.isEmpty then none else some (.str pe.roomID)) ++
      optM b!"type" (some (.str pe.type)) ++ optM b!"state_key" (pe.stateKey.map JVal.str) ++
      optM b!"prev_events" (some (.arr prev)) ++ optM b!"auth_events" (some (.arr auth)) ++
      optM b!"redacts" (if pe.redacts.isEmpty then none else some (.str pe.redacts)) ++
      optM b!"depth" (some (.num (intLit pe.depth))) ++ optM b!"signatures" pe.signatures ++
      optM b!"content" (some content) ++ optM b!"unsigned" pe.unsigned ++
      optM b!"event_id" (some (.str eid)) ++ optM b!"origin_server_ts" (some (.num (natDigits now))) ++
      optM b!"origin" (some (.str origin)) ++
      optM b!"prev_state" (if pe.stateKey.isSome then some (.arr []) else none) := by
  unfold membersOf
  cases pe.stateKey <;> cases pe.signatures <;> cases pe.unsigned <;> cases pe.roomID.isEmpty <;> cases pe.redacts.isEmpty <;>
    simp [optM]

open V.EventBuild in
/-- what the struct marshalling writes under each hashed key -/
structure Lookups (pe : Proto) (content : JVal) (prev auth : List JVal) (now : Nat) (origin : Bytes) (M : EventParse.Obj) : Prop where
  sender : lookupExact M b!"sender" = some (.str pe.sender)
  roomID : lookupExact M b!"room_id" = if pe.roomID.isEmpty then none else some (.str pe.roomID)
  type : lookupExact M b!"type" = some (.str pe.type)
  stateKey : lookupExact M b!"state_key" = pe.stateKey.map JVal.str
  prev : lookupExact M b!"prev_events" = some (.arr prev)
  auth : lookupExact M b!"auth_events" = some (.arr auth)
  redacts : lookupExact M b!"redacts" = if pe.redacts.isEmpty then none else some (.str pe.redacts)
  depth : lookupExact M b!"depth" = some (.num (intLit pe.depth))
  content : lookupExact M b!"content" = some content
  ts : lookupExact M b!"origin_server_ts" = some (.num (natDigits now))
  origin : lookupExact M b!"origin" = some (.str origin)

open V.EventBuild in
theorem membersOf_lookups (pe : Proto) (content : JVal) (prev auth : List JVal) (eid : Bytes) (now : Nat) (origin : Bytes) :
    Lookups pe content prev auth now origin (membersOf pe content prev auth eid now origin) := by
  rw [membersOf_optM]
  constructor
  · simp (config := { decide := true }) only [lookupExact_append_optM, ↓reduceIte]
  · simp (config := { decide := true }) only [lookupExact_append_optM, ↓reduceIte]
    cases pe.roomID.isEmpty <;> rfl
  · simp (config := { decide := true }) only [lookupExact_append_optM, ↓reduceIte]
  · simp (config := { decide := true }) only [lookupExact_append_optM, ↓reduceIte]
    cases pe.stateKey <;> rfl
  · simp (config := { decide := true }) only [lookupExact_append_optM, ↓reduceIte]
  · simp (config := { decide := true }) only [lookupExact_append_optM, ↓reduceIte]
  · simp (config := { decide := true }) only [lookupExact_append_optM, ↓reduceIte]
    cases pe.redacts.isEmpty <;> rfl
  · simp (config := { decide := true }) only [lookupExact_append_optM, ↓reduceIte]
  · simp (config := { decide := true }) only [lookupExact_append_optM, ↓reduceIte]
  · simp (config := { decide := true }) only [lookupExact_append_optM, ↓reduceIte]
  · simp (config := { decide := true }) only [lookupExact_append_optM, ↓reduceIte]

/-- the canonical form of the hashed members holds, under a hashed key other than `event_id`, the canonical form of what
    the struct marshalling wrote -/
theorem hashed_lookup {M : EventParse.Obj} (hn : (keysOf M).Nodup) (k : Bytes) (hk : hashP (k, .null) = true)
    (hke : b!"event_id" ≠ k) :
    lookupExact (canonMembers ((deleteFirst b!"event_id" M).filter hashP)) k =
      (lookupExact M k).map (fun v => v.sorted.normNums) := by
  have hnd : (keysOf ((deleteFirst b!"event_id" M).filter hashP)).Nodup :=
    ((List.filter_sublist (l := _)).map _).nodup (deleteFirst_nodup _ _ hn)
  rw [lookupExact_canon hnd, lookupExact_filter hashP k (fun kv h => by
    show hashP (kv.1, JVal.null) = true
    rw [h]; exact hk), lookupExact_deleteFirst_other M hke]

/-! ### the values are determined by their canonical forms -/

theorem digit_val : ∀ d, d < 10 → (digitByte d - 0x30).toNat = d := by decide

open V.EventBuild in
theorem natOfDigits_natDigits (n : Nat) : natOfDigits (natDigits n) = n := by
  induction n using Nat.strongRecOn with
  | _ n ih =>
    rw [natDigits_eq]
    by_cases h : n < 10
    · rw [if_pos h]
      simp only [natOfDigits, List.foldl_cons, List.foldl_nil, digit_val n h]
      omega
    · rw [if_neg h]
      have := ih (n / 10) (by omega)
      simp only [natOfDigits, List.foldl_append, List.foldl_cons, List.foldl_nil] at this ⊢
      rw [this, digit_val _ (Nat.mod_lt _ (by decide))]
      omega

open V.EventBuild in
theorem natDigits_inj {n m : Nat} (h : natDigits n = natDigits m) : n = m := by
  rw [← natOfDigits_natDigits n, ← natOfDigits_natDigits m, h]

open V.EventBuild in
theorem natDigits_no_minus (n : Nat) (rest : Bytes) : natDigits n ≠ 0x2D :: rest := by
  intro h
  have := (natDigits_shape n).1 0x2D (by rw [h]; exact List.mem_cons_self)
  revert this; decide

open V.EventBuild in
theorem intLit_inj {i j : Int} (h : intLit i = intLit j) : i = j := by
  cases i with
  | ofNat n =>
    cases j with
    | ofNat m => rw [natDigits_inj (show natDigits n = natDigits m from h)]
    | negSucc m => exact absurd (show natDigits n = 0x2D :: natDigits (m + 1) from h) (natDigits_no_minus _ _)
  | negSucc n =>
    cases j with
    | ofNat m => exact absurd (show natDigits m = 0x2D :: natDigits (n + 1) from h.symm) (natDigits_no_minus _ _)
    | negSucc m =>
      have h' : (0x2D : UInt8) :: natDigits (n + 1) = 0x2D :: natDigits (m + 1) := h
      have := natDigits_inj (List.cons.inj h').2
      have e : n = m := by omega
      rw [e]

open V.EventBuild in
theorem encodeNum_natDigits (n : Nat) : encodeNum (natDigits n) = natDigits n := by
  unfold encodeNum
  rw [if_neg]
  intro h
  exact natDigits_no_minus n _ (beq_iff_eq.mp h)

open V.EventBuild in
theorem encodeNum_intLit (i : Int) : encodeNum (intLit i) = intLit i := by
  cases i with
  | ofNat n => exact encodeNum_natDigits n
  | negSucc n =>
    unfold encodeNum
    rw [if_neg]
    intro h
    have h' : (0x2D : UInt8) :: natDigits (n + 1) = [0x2D, 0x30] := beq_iff_eq.mp h
    have h0 : natDigits (n + 1) = natDigits 0 := (List.cons.inj h').2
    have := natDigits_inj h0
    omega

theorem canon_strs (l : List Bytes) : (JVal.arr (l.map JVal.str)).sorted.normNums = .arr (l.map JVal.str) := by
  have h1 : sortedList (l.map JVal.str) = l.map JVal.str := by
    induction l with
    | nil => rfl
    | cons x xs ih => simp only [List.map_cons, sortedList, JVal.sorted, ih]
  have h2 : normNumsList (l.map JVal.str) = l.map JVal.str := by
    clear h1
    induction l with
    | nil => rfl
    | cons x xs ih => simp only [List.map_cons, normNumsList, JVal.normNums, ih]
  simp only [JVal.sorted, JVal.normNums, h1, h2]

theorem map_str_inj {a b : List Bytes} (h : a.map JVal.str = b.map JVal.str) : a = b := by
  induction a generalizing b with
  | nil => cases b with
    | nil => rfl
    | cons y ys => cases h
  | cons x xs ih => cases b with
    | nil => cases h
    | cons y ys =>
      simp only [List.map_cons, List.cons.injEq, JVal.str.injEq] at h
      rw [h.1, ih h.2]

/-- a string member that is omitted when empty -/
theorem optStr_inj {a b : Bytes}
    (h : (if a.isEmpty then none else some (JVal.str a)).map (fun v => v.sorted.normNums) =
         (if b.isEmpty then none else some (JVal.str b)).map (fun v => v.sorted.normNums)) : a = b := by
  cases a with
  | nil => cases b with
    | nil => rfl
    | cons y ys => simp at h
  | cons x xs => cases b with
    | nil => simp at h
    | cons y ys => simpa [JVal.sorted, JVal.normNums] using h

end V.IdInj
