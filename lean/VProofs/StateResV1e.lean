/-
  Version 1 state resolution, part 5: `resolveV1` as five auth phases over the groups of the conflicted events plus
  the normal blocks; every result is a conflicted event, and the results have pairwise distinct (type, state_key).
  Core only.
-/
import VProofs.StateResV1d
import VProofs.StateResGroup
namespace V.StateRes
open V Json GoJson Auth List

/-! ## the phases -/

/-- the block with this type and state key "" -/
def pSingle (t : Bytes) (K : Bytes × Bytes) : Bool := K == (t, [])

def pSpecial (K : Bytes × Bytes) : Bool :=
  K == (b!"m.room.create", []) || K == (b!"m.room.power_levels", []) || K == (b!"m.room.join_rules", [])

def pTpi (K : Bytes × Bytes) : Bool := !pSpecial K && K.1 == b!"m.room.third_party_invite"
def pMember (K : Bytes × Bytes) : Bool := !pSpecial K && K.1 == b!"m.room.member"
def pOther (K : Bytes × Bytes) : Bool := !pSpecial K && !(K.1 == b!"m.room.third_party_invite") && !(K.1 == b!"m.room.member")

/-- the groups of the conflicted events whose key satisfies `p`, as blocks -/
def phaseBlocks (conflicted : List Event) (p : Bytes × Bytes → Bool) : List (List Event) :=
  ((groupByKey conflicted).filter (fun g => p g.1)).map (·.2)

/-- `valid`: the supplied auth events are all in one room -/
def v1Valid (auth : List Event) : Bool :=
  decide ((auth.foldl (fun acc (e : Event) => if acc.contains e.roomID then acc else acc ++ [e.roomID]) ([] : List Bytes)).length ≤ 1)

/-- the resolver state after `addAuthEvent` for the supplied auth events -/
def v1S0 (auth : List Event) : V1State := auth.foldl V1State.addAuthEvent {}

/-- one auth phase as the model runs it -/
def phaseRun (sha : ID → Bytes) (valid : Bool) (conflicted : List Event) (p : Bytes × Bytes → Bool) (s : V1State) :
    V1State × List Event :=
  resolveAndAddAuthBlocks sha valid s (phaseBlocks conflicted p)

/-- `creates`, `powerLevels`, `joinRules` are single lists in the Go code: the flattened (at most one) group -/
def phaseRunFlat (sha : ID → Bytes) (valid : Bool) (conflicted : List Event) (p : Bytes × Bytes → Bool) (s : V1State) :
    V1State × List Event :=
  resolveAndAddAuthBlocks sha valid s [(phaseBlocks conflicted p).flatten]

theorem resolveV1_eq_flat (sha : ID → Bytes) (conflicted auth : List Event) :
    resolveV1 sha conflicted auth =
      let valid := v1Valid auth
      let a1 := phaseRunFlat sha valid conflicted (pSingle b!"m.room.create") (v1S0 auth)
      let a2 := phaseRunFlat sha valid conflicted (pSingle b!"m.room.power_levels") a1.1
      let a3 := phaseRunFlat sha valid conflicted (pSingle b!"m.room.join_rules") a2.1
      let a4 := phaseRun sha valid conflicted pTpi a3.1
      let a5 := phaseRun sha valid conflicted pMember a4.1
      a1.2 ++ a2.2 ++ a3.2 ++ a4.2 ++ a5.2 ++ (phaseBlocks conflicted pOther).filterMap (resolveNormalBlock sha valid a5.1) := rfl


/-! ## the flattened single blocks -/

theorem filter_key_le_one {G : List ((Bytes × Bytes) × List Event)} (hn : (G.map (·.1)).Nodup) (K : Bytes × Bytes) :
    (G.filter (fun g => g.1 == K)).length ≤ 1 := by
  induction G with
  | nil => simp
  | cons g G ih =>
    rw [List.map_cons, List.nodup_cons] at hn
    rw [List.filter_cons]
    split
    · rename_i hg
      have hgk : g.1 = K := eq_of_beq hg
      have : G.filter (fun g => g.1 == K) = [] := by
        rw [List.filter_eq_nil_iff]
        intro x hx hxk
        have : x.1 = K := eq_of_beq hxk
        exact hn.1 (List.mem_map.mpr ⟨x, hx, this.trans hgk.symm⟩)
      rw [this]; simp
    · exact ih hn.2

theorem phaseBlocks_single_length (conflicted : List Event) (t : Bytes) :
    (phaseBlocks conflicted (pSingle t)).length ≤ 1 := by
  unfold phaseBlocks pSingle
  rw [List.length_map]
  exact filter_key_le_one (groupByKey_keys_nodup conflicted) (t, [])

theorem resolveAndAdd_flat (sha : ID → Bytes) (valid : Bool) (s : V1State) {l : List (List Event)} (hl : l.length ≤ 1) :
    resolveAndAddAuthBlocks sha valid s [l.flatten] = resolveAndAddAuthBlocks sha valid s l := by
  match l, hl with
  | [], _ => rfl
  | [b], _ => simp
  | _ :: _ :: _, hl => simp at hl

theorem phaseRunFlat_eq (sha : ID → Bytes) (valid : Bool) (conflicted : List Event) (t : Bytes) (s : V1State) :
    phaseRunFlat sha valid conflicted (pSingle t) s = phaseRun sha valid conflicted (pSingle t) s :=
  resolveAndAdd_flat sha valid s (phaseBlocks_single_length conflicted t)

/-- `resolveV1` = five auth phases (create, power levels, join rules, third-party invites, members) and the normal blocks -/
theorem resolveV1_eq (sha : ID → Bytes) (conflicted auth : List Event) :
    resolveV1 sha conflicted auth =
      let valid := v1Valid auth
      let a1 := phaseRun sha valid conflicted (pSingle b!"m.room.create") (v1S0 auth)
      let a2 := phaseRun sha valid conflicted (pSingle b!"m.room.power_levels") a1.1
      let a3 := phaseRun sha valid conflicted (pSingle b!"m.room.join_rules") a2.1
      let a4 := phaseRun sha valid conflicted pTpi a3.1
      let a5 := phaseRun sha valid conflicted pMember a4.1
      a1.2 ++ a2.2 ++ a3.2 ++ a4.2 ++ a5.2 ++ (phaseBlocks conflicted pOther).filterMap (resolveNormalBlock sha valid a5.1) := by
  rw [resolveV1_eq_flat]
  simp only [phaseRunFlat_eq]

/-! ## the six key classes are pairwise disjoint and cover all keys -/

theorem beq_key_excl {K : Bytes × Bytes} {t t' : Bytes} (hne : t ≠ t') (h : (K == (t, ([] : Bytes))) = true) :
    (K == (t', ([] : Bytes))) = false := by
  have h1 : K = (t, []) := eq_of_beq h
  rw [Bool.eq_false_iff]; intro h2
  have h3 : K = (t', []) := eq_of_beq h2
  rw [h1] at h3
  exact hne (Prod.mk.inj h3).1

theorem beq_fst_excl {K : Bytes × Bytes} {t t' : Bytes} (hne : t ≠ t') (h : (K.1 == t) = true) : (K.1 == t') = false := by
  have h1 : K.1 = t := eq_of_beq h
  rw [Bool.eq_false_iff]; intro h2
  exact hne (h1.symm.trans (eq_of_beq h2))

/-- generic: concatenating the filters of a duplicate-free list by pairwise exclusive predicates -/
theorem nodup_filter_append {α} {L A : List α} (p : α → Bool) (hL : L.Nodup) (hA : A.Nodup) (hd : ∀ x ∈ A, p x = false) :
    (L.filter p ++ A).Nodup := by
  rw [List.nodup_append]
  refine ⟨hL.sublist List.filter_sublist, hA, ?_⟩
  intro a ha b hb hab
  subst hab
  have := hd a hb
  rw [(List.mem_filter.mp ha).2] at this
  cases this

theorem nodup_six {α} {L : List α} (hL : L.Nodup) (p1 p2 p3 p4 p5 p6 : α → Bool)
    (h1 : ∀ x, p1 x = true → p2 x = false ∧ p3 x = false ∧ p4 x = false ∧ p5 x = false ∧ p6 x = false)
    (h2 : ∀ x, p2 x = true → p3 x = false ∧ p4 x = false ∧ p5 x = false ∧ p6 x = false)
    (h3 : ∀ x, p3 x = true → p4 x = false ∧ p5 x = false ∧ p6 x = false)
    (h4 : ∀ x, p4 x = true → p5 x = false ∧ p6 x = false)
    (h5 : ∀ x, p5 x = true → p6 x = false) :
    (L.filter p1 ++ L.filter p2 ++ L.filter p3 ++ L.filter p4 ++ L.filter p5 ++ L.filter p6).Nodup := by
  simp only [List.append_assoc]
  have n6 : (L.filter p6).Nodup := hL.sublist List.filter_sublist
  have n5 := nodup_filter_append p5 hL n6 (by
    intro x hx; cases h : p5 x with
    | false => rfl
    | true => have := h5 x h; simp_all [List.mem_filter])
  have n4 := nodup_filter_append p4 hL n5 (by
    intro x hx; cases h : p4 x with
    | false => rfl
    | true => have := h4 x h; simp_all [List.mem_filter, List.mem_append])
  have n3 := nodup_filter_append p3 hL n4 (by
    intro x hx; cases h : p3 x with
    | false => rfl
    | true => have := h3 x h; simp_all [List.mem_filter, List.mem_append])
  have n2 := nodup_filter_append p2 hL n3 (by
    intro x hx; cases h : p2 x with
    | false => rfl
    | true => have := h2 x h; simp_all [List.mem_filter, List.mem_append])
  exact nodup_filter_append p1 hL n2 (by
    intro x hx; cases h : p1 x with
    | false => rfl
    | true => have := h1 x h; simp_all [List.mem_filter, List.mem_append])


theorem excl_bool (A1 A2 A3 B4 B5 : Bool) (h12 : A1 = true → A2 = false) (h13 : A1 = true → A3 = false)
    (h23 : A2 = true → A3 = false) (h45 : B4 = true → B5 = false) :
    (A1 = true → A2 = false ∧ A3 = false ∧ (!(A1 || A2 || A3) && B4) = false ∧ (!(A1 || A2 || A3) && B5) = false ∧
        (!(A1 || A2 || A3) && !B4 && !B5) = false) ∧
    (A2 = true → A3 = false ∧ (!(A1 || A2 || A3) && B4) = false ∧ (!(A1 || A2 || A3) && B5) = false ∧
        (!(A1 || A2 || A3) && !B4 && !B5) = false) ∧
    (A3 = true → (!(A1 || A2 || A3) && B4) = false ∧ (!(A1 || A2 || A3) && B5) = false ∧
        (!(A1 || A2 || A3) && !B4 && !B5) = false) ∧
    ((!(A1 || A2 || A3) && B4) = true → (!(A1 || A2 || A3) && B5) = false ∧ (!(A1 || A2 || A3) && !B4 && !B5) = false) ∧
    ((!(A1 || A2 || A3) && B5) = true → (!(A1 || A2 || A3) && !B4 && !B5) = false) ∧
    (A1 = true ∨ A2 = true ∨ A3 = true ∨ (!(A1 || A2 || A3) && B4) = true ∨ (!(A1 || A2 || A3) && B5) = true ∨
      (!(A1 || A2 || A3) && !B4 && !B5) = true) := by
  cases A1 <;> cases A2 <;> cases A3 <;> cases B4 <;> cases B5 <;> simp_all

theorem classes_excl (K : Bytes × Bytes) :
    (pSingle b!"m.room.create" K = true → pSingle b!"m.room.power_levels" K = false ∧ pSingle b!"m.room.join_rules" K = false ∧
        pTpi K = false ∧ pMember K = false ∧ pOther K = false) ∧
    (pSingle b!"m.room.power_levels" K = true → pSingle b!"m.room.join_rules" K = false ∧
        pTpi K = false ∧ pMember K = false ∧ pOther K = false) ∧
    (pSingle b!"m.room.join_rules" K = true → pTpi K = false ∧ pMember K = false ∧ pOther K = false) ∧
    (pTpi K = true → pMember K = false ∧ pOther K = false) ∧
    (pMember K = true → pOther K = false) ∧
    (pSingle b!"m.room.create" K = true ∨ pSingle b!"m.room.power_levels" K = true ∨ pSingle b!"m.room.join_rules" K = true ∨
      pTpi K = true ∨ pMember K = true ∨ pOther K = true) :=
  excl_bool _ _ _ _ _ (beq_key_excl ne_create_pl) (beq_key_excl ne_create_jr) (beq_key_excl ne_pl_jr)
    (beq_fst_excl ne_member_tpi.symm)

/-! ## every result is a conflicted event; one result per conflicted (type, state_key) -/

/-- the groups in the order the resolver works through them -/
def v1Groups (conflicted : List Event) : List ((Bytes × Bytes) × List Event) :=
  (groupByKey conflicted).filter (fun g => pSingle b!"m.room.create" g.1) ++
  (groupByKey conflicted).filter (fun g => pSingle b!"m.room.power_levels" g.1) ++
  (groupByKey conflicted).filter (fun g => pSingle b!"m.room.join_rules" g.1) ++
  (groupByKey conflicted).filter (fun g => pTpi g.1) ++
  (groupByKey conflicted).filter (fun g => pMember g.1) ++
  (groupByKey conflicted).filter (fun g => pOther g.1)

theorem mem_v1Groups {conflicted : List Event} {g : (Bytes × Bytes) × List Event} :
    g ∈ v1Groups conflicted ↔ g ∈ groupByKey conflicted := by
  unfold v1Groups
  simp only [List.mem_append, List.mem_filter]
  constructor
  · rintro (((((h | h) | h) | h) | h) | h) <;> exact h.1
  · intro h
    rcases (classes_excl g.1).2.2.2.2.2 with h' | h' | h' | h' | h' | h'
    · exact Or.inl (Or.inl (Or.inl (Or.inl (Or.inl ⟨h, h'⟩))))
    · exact Or.inl (Or.inl (Or.inl (Or.inl (Or.inr ⟨h, h'⟩))))
    · exact Or.inl (Or.inl (Or.inl (Or.inr ⟨h, h'⟩)))
    · exact Or.inl (Or.inl (Or.inr ⟨h, h'⟩))
    · exact Or.inl (Or.inr ⟨h, h'⟩)
    · exact Or.inr ⟨h, h'⟩

theorem v1Groups_keys_nodup (conflicted : List Event) : ((v1Groups conflicted).map (·.1)).Nodup := by
  unfold v1Groups
  simp only [List.map_append]
  have e : ∀ p : Bytes × Bytes → Bool, ((groupByKey conflicted).filter (fun g => p g.1)).map (·.1) =
      ((groupByKey conflicted).map (·.1)).filter p := by
    intro p; rw [List.filter_map]; rfl
  simp only [e]
  exact nodup_six (groupByKey_keys_nodup conflicted) _ _ _ _ _ _
    (fun K => (classes_excl K).1) (fun K => (classes_excl K).2.1) (fun K => (classes_excl K).2.2.1)
    (fun K => (classes_excl K).2.2.2.1) (fun K => (classes_excl K).2.2.2.2.1)

/-- the results pick one member from each group, in the resolver's order -/
theorem resolveV1_picks (sha : ID → Bytes) (conflicted auth : List Event) :
    Picks ((v1Groups conflicted).map (·.2)) (resolveV1 sha conflicted auth) := by
  rw [resolveV1_eq]
  unfold v1Groups
  simp only [List.map_append]
  exact ((((resolveAndAddAuthBlocks_picks _ _ _ _).append (resolveAndAddAuthBlocks_picks _ _ _ _)).append
    (resolveAndAddAuthBlocks_picks _ _ _ _)).append (resolveAndAddAuthBlocks_picks _ _ _ _)).append
    (resolveAndAddAuthBlocks_picks _ _ _ _) |>.append (resolveNormal_picks _ _ _ _)

/-- the keys of the results are the keys of the groups, in the resolver's order -/
theorem resolveV1_keys (sha : ID → Bytes) (conflicted auth : List Event) :
    (resolveV1 sha conflicted auth).map keyOf = (v1Groups conflicted).map (·.1) := by
  refine Picks.map_key ?_ (resolveV1_picks sha conflicted auth)
  intro g hg
  have hg' := mem_v1Groups.mp hg
  exact ⟨(groupByKey_group hg').2, fun e he => ((groupByKey_mem hg').mp he).2.2⟩

/-- Every resolved event is one of the conflicted events (and a state event). -/
theorem v1_result_subset_inputs {sha : ID → Bytes} {conflicted auth : List Event} {e : Event}
    (h : e ∈ resolveV1 sha conflicted auth) : e ∈ conflicted ∧ e.stateKey.isSome := by
  obtain ⟨b, hb, heb⟩ := (resolveV1_picks sha conflicted auth).mem h
  obtain ⟨g, hg, rfl⟩ := List.mem_map.mp hb
  have := (groupByKey_mem (mem_v1Groups.mp hg)).mp heb
  exact ⟨this.1, this.2.1⟩

/-- The resolved events have pairwise distinct (type, state_key). -/
theorem v1_result_unique_keys (sha : ID → Bytes) (conflicted auth : List Event) :
    ((resolveV1 sha conflicted auth).map keyOf).Nodup := by
  rw [resolveV1_keys]; exact v1Groups_keys_nodup conflicted

/-- Exactly one resolved event per (type, state_key) occurring among the conflicted state events. -/
theorem v1_result_keys_complete (sha : ID → Bytes) (conflicted auth : List Event) (K : Bytes × Bytes) :
    K ∈ (resolveV1 sha conflicted auth).map keyOf ↔ ∃ e ∈ conflicted, e.stateKey.isSome ∧ keyOf e = K := by
  rw [resolveV1_keys]
  simp only [List.mem_map]
  constructor
  · rintro ⟨g, hg, rfl⟩
    have hg' := mem_v1Groups.mp hg
    obtain ⟨e, he⟩ := List.exists_mem_of_ne_nil _ (groupByKey_group hg').2
    exact ⟨e, (groupByKey_mem hg').mp he⟩
  · rintro ⟨e, he, hs, rfl⟩
    obtain ⟨g, hg, hk⟩ := groupByKey_complete he hs
    exact ⟨g, mem_v1Groups.mpr hg, hk⟩

end V.StateRes
