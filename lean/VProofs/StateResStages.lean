/-
  `resolveV2New` cut into named stages (the definitions below are the `let`s of the model, verbatim), with the
  equation `resolveV2New_result` tying the model's answer to `finalState`.  Core only.
-/
import VProofs.StateResBasic
namespace V.StateRes
open V Json GoJson Auth List

/-- the room's create event as `ResolveStateConflictsV2New` remembers it for the power ordering -/
def createEvOf (unconflicted auth conflicted : List Event) : Option Event :=
  match getCreateEvent unconflicted with
  | some c => some c
  | none => match getCreateEvent auth with
    | some c => some c
    | none => getCreateEvent conflicted

def rootsOf (unconfIDs : List ID) (fullConflicted : List Event) : List Event :=
  fullConflicted.filter (fun p => !unconfIDs.contains p.eventID && isControlEvent p)

def controlIDsOf (confMap roots : List Event) : List ID :=
  controlClosure confMap (confMap.length + 1) roots (eventMapFromEvents roots |>.map (·.eventID))

def lookupAny (fullConflicted confMap : List Event) (id : ID) : Option Event :=
  match findByID fullConflicted id with
  | some e => some e
  | none => findByID confMap id

def othersOf (unconfIDs controlIDs : List ID) (fullConflicted : List Event) : List Event :=
  (eventMapFromEvents fullConflicted).filter (fun p =>
    !unconfIDs.contains p.eventID && !isControlEvent p && !controlIDs.contains p.eventID)

def createFor (createEv : Option Event) (s : State) : Option Event :=
  match s.get b!"m.room.create" [] with
  | some c => some c
  | none => createEv

/-- everything `resolveV2New` computes before it touches the partial state -/
structure Prep where
  conflicted : List Event
  unconflicted : List Event
  authMap : List Event
  createEv : Option Event
  authDiff : List Event
  controlIDs : List ID
  controlEvents : List Event
  others : List Event

def prepOf (algo : Nat) (sets : List (List Event)) (auth : List Event) : Prep :=
  let cu := splitConflictedUnconflicted false sets
  let authMap := eventMapFromEvents auth
  let confMap := eventMapFromEvents cu.1
  let unconfIDs := cu.2.map (·.eventID)
  let authDiff := authDifferenceNew algo authMap cu.1 sets
  let fullConflicted := cu.1 ++ authDiff
  let controlIDs := controlIDsOf confMap (rootsOf unconfIDs fullConflicted)
  { conflicted := cu.1, unconflicted := cu.2, authMap := authMap, createEv := createEvOf cu.2 auth cu.1,
    authDiff := authDiff, controlIDs := controlIDs,
    controlEvents := controlIDs.filterMap (lookupAny fullConflicted confMap),
    others := othersOf unconfIDs controlIDs fullConflicted }

/-- the state after the unconflicted events have been applied first (v2 only) -/
def stateS1 (algo : Nat) (p : Prep) : State :=
  if algo == 2 then applyEvents [] (reverseTopoAuth p.authMap p.createEv p.unconflicted) else []

def controlOrderOf (algo : Nat) (p : Prep) : List Event :=
  reverseTopoAuth p.authMap (createFor p.createEv (stateS1 algo p)) p.controlEvents

def stateS2 (algo : Nat) (p : Prep) (rejected : List ID) : State :=
  authAndApply p.authMap rejected (stateS1 algo p) (controlOrderOf algo p)

def othersOrderOf (algo : Nat) (p : Prep) (rejected : List ID) : List Event :=
  mainlineOrdering p.authMap (createMainline p.authMap ((stateS2 algo p rejected).get b!"m.room.power_levels" [])) p.others

def stateS3 (algo : Nat) (p : Prep) (rejected : List ID) : State :=
  authAndApply p.authMap rejected (stateS2 algo p rejected) (othersOrderOf algo p rejected)

def stateS4 (algo : Nat) (p : Prep) (rejected : List ID) : State :=
  applyEvents (stateS3 algo p rejected) p.unconflicted

/-- the resolved state (`[]` when nothing at all was supplied) -/
def finalState (algo : Nat) (sets : List (List Event)) (auth : List Event) (rejected : List ID) : State :=
  let p := prepOf algo sets auth
  if p.conflicted.isEmpty && p.unconflicted.isEmpty && auth.isEmpty then [] else stateS4 algo p rejected

theorem createFor_nil (c : Option Event) : createFor c [] = c := rfl

theorem resolveV2New_result (algo : Nat) (sets : List (List Event)) (auth : List Event) (rejected : List ID) :
    (resolveV2New algo sets auth rejected).result = (finalState algo sets auth rejected).map (·.2.eventID) := by
  unfold resolveV2New finalState
  cases h : splitConflictedUnconflicted false sets with
  | mk c u =>
    simp only [prepOf, h]
    split
    · rfl
    · rfl

/-- all stage outputs of `resolveV2New`, in terms of the named stages -/
def stagesOf (algo : Nat) (sets : List (List Event)) (auth : List Event) (rejected : List ID) : Stages :=
  let p := prepOf algo sets auth
  if p.conflicted.isEmpty && p.unconflicted.isEmpty && auth.isEmpty then
    { conflicted := [], unconflicted := [], authDiff := [], control := [], others := [], controlOrder := [],
      othersOrder := [], result := [] }
  else
    { conflicted := p.conflicted.map (·.eventID), unconflicted := p.unconflicted.map (·.eventID),
      authDiff := p.authDiff.map (·.eventID), control := p.controlIDs, others := p.others.map (·.eventID),
      controlOrder := (controlOrderOf algo p).map (·.eventID), othersOrder := (othersOrderOf algo p rejected).map (·.eventID),
      result := (stateS4 algo p rejected).map (·.2.eventID) }

theorem resolveV2New_eq (algo : Nat) (sets : List (List Event)) (auth : List Event) (rejected : List ID) :
    resolveV2New algo sets auth rejected = stagesOf algo sets auth rejected := by
  unfold resolveV2New stagesOf
  cases h : splitConflictedUnconflicted false sets with
  | mk c u =>
    simp only [prepOf, h]
    split
    · rfl
    · rfl

end V.StateRes
