import VProofs.TransHex.Defs
namespace V.Trans.Hex
/-- 22^3 cases: first digit '8' -/
theorem chunk_8 : chunkOk (56, 8) = true := by decide +kernel
end V.Trans.Hex
