import VProofs.TransHex.Defs
namespace V.Trans.Hex
/-- 22^3 cases: first digit 'D' -/
theorem chunk_13 : chunkOk (68, 13) = true := by decide +kernel
end V.Trans.Hex
