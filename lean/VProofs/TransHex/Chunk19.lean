import VProofs.TransHex.Defs
namespace V.Trans.Hex
/-- 22^3 cases: first digit 'd' -/
theorem chunk_19 : chunkOk (100, 13) = true := by decide +kernel
end V.Trans.Hex
