import VProofs.TransHex.Defs
namespace V.Trans.Hex
/-- 22^3 cases: first digit '1' -/
theorem chunk_1 : chunkOk (49, 1) = true := by decide +kernel
end V.Trans.Hex
