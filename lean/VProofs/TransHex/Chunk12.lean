import VProofs.TransHex.Defs
namespace V.Trans.Hex
/-- 22^3 cases: first digit 'C' -/
theorem chunk_12 : chunkOk (67, 12) = true := by decide +kernel
end V.Trans.Hex
