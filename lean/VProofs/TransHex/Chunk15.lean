import VProofs.TransHex.Defs
namespace V.Trans.Hex
/-- 22^3 cases: first digit 'F' -/
theorem chunk_15 : chunkOk (70, 15) = true := by decide +kernel
end V.Trans.Hex
