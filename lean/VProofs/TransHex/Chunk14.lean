import VProofs.TransHex.Defs
namespace V.Trans.Hex
/-- 22^3 cases: first digit 'E' -/
theorem chunk_14 : chunkOk (69, 14) = true := by decide +kernel
end V.Trans.Hex
