import VProofs.TransHex.Defs
namespace V.Trans.Hex
/-- 22^3 cases: first digit '9' -/
theorem chunk_9 : chunkOk (57, 9) = true := by decide +kernel
end V.Trans.Hex
