import VProofs.TransHex.Defs
namespace V.Trans.Hex
/-- 22^3 cases: first digit 'e' -/
theorem chunk_20 : chunkOk (101, 14) = true := by decide +kernel
end V.Trans.Hex
