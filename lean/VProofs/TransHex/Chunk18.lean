import VProofs.TransHex.Defs
namespace V.Trans.Hex
/-- 22^3 cases: first digit 'c' -/
theorem chunk_18 : chunkOk (99, 12) = true := by decide +kernel
end V.Trans.Hex
