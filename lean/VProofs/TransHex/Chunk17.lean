import VProofs.TransHex.Defs
namespace V.Trans.Hex
/-- 22^3 cases: first digit 'b' -/
theorem chunk_17 : chunkOk (98, 11) = true := by decide +kernel
end V.Trans.Hex
