import VProofs.TransHex.Defs
namespace V.Trans.Hex
/-- 22^3 cases: first digit '3' -/
theorem chunk_3 : chunkOk (51, 3) = true := by decide +kernel
end V.Trans.Hex
