import VProofs.TransHex.Defs
namespace V.Trans.Hex
/-- 22^3 cases: first digit '2' -/
theorem chunk_2 : chunkOk (50, 2) = true := by decide +kernel
end V.Trans.Hex
