/-
  readHexDigits (json.go) on hex digits: the exhaustive part of the proof, split into 22 chunks (one per first digit)
  so that lake checks them in parallel; each chunk is a kernel evaluation of 22^3 cases of the TRANSLATED function.
-/
import VGen.TransJson
namespace V.Trans.Hex

/-- the 22 ASCII hex digits with their values -/
def digsV : List (UInt8 × Nat) :=
  [(48,0),(49,1),(50,2),(51,3),(52,4),(53,5),(54,6),(55,7),(56,8),(57,9),
   (65,10),(66,11),(67,12),(68,13),(69,14),(70,15),(97,10),(98,11),(99,12),(100,13),(101,14),(102,15)]

/-- the translated function on four digits gives the value of the four digits -/
def ok4 (a b c d : UInt8 × Nat) : Bool :=
  VGen.TransJson.readHexDigits [a.1, b.1, c.1, d.1] == some (Int.ofNat (((a.2 * 16 + b.2) * 16 + c.2) * 16 + d.2))

def chunkOk (a : UInt8 × Nat) : Bool :=
  digsV.all fun b => digsV.all fun c => digsV.all fun d => ok4 a b c d

end V.Trans.Hex
