import VProofs.TransHex.Defs
namespace V.Trans.Hex
/-- 22^3 cases: first digit 'A' -/
theorem chunk_10 : chunkOk (65, 10) = true := by decide +kernel
end V.Trans.Hex
