import VProofs.TransHex.Defs
namespace V.Trans.Hex
/-- 22^3 cases: first digit '0' -/
theorem chunk_0 : chunkOk (48, 0) = true := by decide +kernel
end V.Trans.Hex
