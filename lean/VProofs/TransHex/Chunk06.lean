import VProofs.TransHex.Defs
namespace V.Trans.Hex
/-- 22^3 cases: first digit '6' -/
theorem chunk_6 : chunkOk (54, 6) = true := by decide +kernel
end V.Trans.Hex
