import VProofs.TransHex.Defs
namespace V.Trans.Hex
/-- 22^3 cases: first digit 'f' -/
theorem chunk_21 : chunkOk (102, 15) = true := by decide +kernel
end V.Trans.Hex
