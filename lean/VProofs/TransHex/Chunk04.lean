import VProofs.TransHex.Defs
namespace V.Trans.Hex
/-- 22^3 cases: first digit '4' -/
theorem chunk_4 : chunkOk (52, 4) = true := by decide +kernel
end V.Trans.Hex
