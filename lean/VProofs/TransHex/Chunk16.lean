import VProofs.TransHex.Defs
namespace V.Trans.Hex
/-- 22^3 cases: first digit 'a' -/
theorem chunk_16 : chunkOk (97, 10) = true := by decide +kernel
end V.Trans.Hex
