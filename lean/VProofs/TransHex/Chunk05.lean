import VProofs.TransHex.Defs
namespace V.Trans.Hex
/-- 22^3 cases: first digit '5' -/
theorem chunk_5 : chunkOk (53, 5) = true := by decide +kernel
end V.Trans.Hex
