import VProofs.TransHex.Defs
namespace V.Trans.Hex
/-- 22^3 cases: first digit 'B' -/
theorem chunk_11 : chunkOk (66, 11) = true := by decide +kernel
end V.Trans.Hex
