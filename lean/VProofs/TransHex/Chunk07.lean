import VProofs.TransHex.Defs
namespace V.Trans.Hex
/-- 22^3 cases: first digit '7' -/
theorem chunk_7 : chunkOk (55, 7) = true := by decide +kernel
end V.Trans.Hex
