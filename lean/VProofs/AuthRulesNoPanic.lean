/-
  VProofs.AuthRulesNoPanic — the guards of the model (room-ID comparison with the create content, the regenerated
  version table) dominate every panic site reachable from `Allowed` (also used by C18).
-/
import VProofs.AuthRulesMember
import VProofs.AuthRulesEvents
import VModel.AuthQuerier
namespace V.AuthRules
open V V.Json V.GoJson V.Auth

/-- the computation does not end in a (modelled) Go panic -/
structure NoPanic {α} (r : R α) : Prop where
  h : ∀ site, r ≠ .error (.panic site)

theorem np_ok {α} (x : α) : NoPanic (.ok x : R α) := ⟨fun _ h => by cases h⟩
theorem np_pure {α} (x : α) : NoPanic (pure x : R α) := ⟨fun _ h => by cases h⟩
theorem np_na {α} : NoPanic (notAllowed : R α) := ⟨fun _ h => by cases h⟩
theorem np_fail {α} : NoPanic (failErr : R α) := ⟨fun _ h => by cases h⟩
theorem np_unm {α} (w : String) : NoPanic (.error (.unmodelled w) : R α) := ⟨fun _ h => by cases h⟩
theorem np_bind {α β} {x : R α} {f : α → R β} (hx : NoPanic x) (hf : ∀ a, NoPanic (f a)) : NoPanic (x >>= f) := by
  cases x with
  | ok a => exact hf a
  | error v => exact ⟨fun s h => hx.h s (by cases h; rfl)⟩
theorem np_ite {α} {c : Prop} [Decidable c] {a b : R α} (ha : NoPanic a) (hb : NoPanic b) : NoPanic (if c then a else b) := by
  split <;> assumption

macro "np_close" : tactic =>
  `(tactic| first | exact np_ok _ | exact np_pure _ | exact np_na | exact np_fail | exact np_unm _ | assumption)
macro "np_split" : tactic =>
  `(tactic| first | apply np_ite | (apply np_bind) | intro _ | split)
macro "np_step" : tactic => `(tactic| first | np_close | np_split)

theorem np_resolveUser (s : Bytes) : NoPanic (resolveUser s) := by
  unfold resolveUser; repeat np_step

theorem np_domainAllowed (c : CreateContent) (d : Bytes) : NoPanic (c.domainAllowed d) := by
  unfold CreateContent.domainAllowed; repeat np_step

theorem np_userPowerLevel (c : Ctx) (u : Bytes) (h : c.createEvent.isSome = true) : NoPanic (c.userPowerLevel u) := by
  rw [userPowerLevel_eq c u h]; exact np_ok _

theorem np_commonChecks (c : Ctx) (p : Provider) (hf : Fresh p c) (m : MemberContent) (e : Event) (hr : e.roomID ≠ []) :
    NoPanic (c.commonChecks m e) := by
  unfold Ctx.commonChecks
  by_cases hroom : (e.roomID != c.create.roomID) = true
  · simp only [hroom, if_true, notAllowed_bind]; exact np_na
  · have hroom' : (e.roomID != c.create.roomID) = false := by simpa using hroom
    have hce := createPresent_of hf hr hroom'
    have := np_userPowerLevel c e.sender hce
    simp only [hroom', Bool.false_eq_true, if_false, notAllowed_bind]
    repeat (first | np_close | exact np_resolveUser _ | exact np_domainAllowed _ _ | np_split)

theorem np_decodeMemberContent (cnt : Option JVal) : NoPanic (decodeMemberContent cnt) := by
  unfold decodeMemberContent; repeat np_step

theorem np_memberFromProvider (p : Provider) (u : Bytes) : NoPanic (memberFromProvider p u) := by
  unfold memberFromProvider
  repeat (first | np_close | exact np_decodeMemberContent _ | np_split)

theorem np_parsePowerLevels (cnt : Option JVal) (d : PowerLevels) : NoPanic (parsePowerLevels cnt d) := by
  unfold parsePowerLevels; repeat np_step

theorem np_powerLevelsFromEvent (e : Event) : NoPanic (powerLevelsFromEvent e) := by
  unfold powerLevelsFromEvent
  repeat (first | np_close | exact np_parsePowerLevels _ _ | np_split)

theorem np_checkPowerLevelEvent (c : Ctx) (e : Event) (old new : PowerLevels) (h : c.createEvent.isSome = true) :
    NoPanic (c.checkPowerLevelEvent e old new) := by
  unfold Ctx.checkPowerLevelEvent
  cases hce : c.createEvent with
  | none => simp [hce] at h
  | some ce => simp only; repeat np_step

theorem commonChecks_mismatch (c : Ctx) (m : MemberContent) (e : Event) (h : (e.roomID != c.create.roomID) = true) :
    c.commonChecks m e = notAllowed := by
  unfold Ctx.commonChecks
  simp only [h, if_true, notAllowed_bind]

theorem np_default (c : Ctx) (p : Provider) (hf : Fresh p c) (e : Event) (hr : e.roomID ≠ []) :
    NoPanic (c.defaultEventAllowed e) := by
  unfold Ctx.defaultEventAllowed
  repeat (first | np_close | exact np_memberFromProvider _ _ | exact np_commonChecks c p hf _ e hr | np_split)

theorem np_powerLevels (c : Ctx) (p : Provider) (hf : Fresh p c) (e : Event) (hr : e.roomID ≠ []) :
    NoPanic (c.powerLevelsEventAllowed e) := by
  unfold Ctx.powerLevelsEventAllowed
  have h1 := np_memberFromProvider c.provider e.sender
  by_cases hroom : (e.roomID != c.create.roomID) = true
  · simp only [commonChecks_mismatch c _ e hroom, notAllowed_bind]
    repeat np_step
  · have hroom' : (e.roomID != c.create.roomID) = false := by simpa using hroom
    have hce := createPresent_of hf hr hroom'
    repeat (first | np_close | exact np_commonChecks c p hf _ e hr | exact np_powerLevelsFromEvent e | exact np_userPowerLevel c e.sender hce | exact np_checkPowerLevelEvent c e _ _ hce | np_split)

theorem np_redact (c : Ctx) (p : Provider) (hf : Fresh p c) (e : Event) (hr : e.roomID ≠ []) :
    NoPanic (c.redactEventAllowed e) := by
  unfold Ctx.redactEventAllowed
  have h1 := np_memberFromProvider c.provider e.sender
  by_cases hroom : (e.roomID != c.create.roomID) = true
  · simp only [commonChecks_mismatch c _ e hroom, notAllowed_bind]
    repeat np_step
  · have hroom' : (e.roomID != c.create.roomID) = false := by simpa using hroom
    have hce := createPresent_of hf hr hroom'
    repeat (first | np_close | exact np_commonChecks c p hf _ e hr | exact np_resolveUser _ | exact np_userPowerLevel c e.sender hce | np_split)

theorem np_aliases (c : Ctx) (e : Event) : NoPanic (c.aliasEventAllowed e) := by
  unfold Ctx.aliasEventAllowed
  repeat (first | np_close | exact np_resolveUser _ | exact np_domainAllowed _ _ | np_split)

/-- the room ID of a create event has a domain part unless the version's room IDs are domainless (what the event
    constructors guarantee) -/
def RoomIDWellFormed (e : Event) : Prop :=
  ∀ row, e.row = some row → row.checkCreateEvent ≠ "checkCreateEventV3" → (domainFromID (e.roomID.drop 1)).isSome = true

theorem np_checkCreateEvent (e : Event) (u : UserID) (hw : RoomIDWellFormed e) : NoPanic (checkCreateEvent e u) := by
  unfold checkCreateEvent
  cases hrow : e.row with
  | none => exact np_ok _
  | some row =>
    simp only
    by_cases h3 : row.checkCreateEvent = "checkCreateEventV3"
    · have e1 : ("checkCreateEventV3" == "checkCreateEventV1") = false := by decide
      have e2 : ("checkCreateEventV3" == "checkCreateEventV2") = false := by decide
      simp only [h3, e1, e2, Bool.false_eq_true, if_false, beq_self_eq_true, if_true]
      repeat np_step
    · have := hw row hrow h3
      cases hd : domainFromID (e.roomID.drop 1) with
      | none => rw [hd] at this; cases this
      | some dom =>
        simp only
        repeat np_step

theorem np_create (c : Ctx) (e : Event) (hw : RoomIDWellFormed e) : NoPanic (c.createEventAllowed e) := by
  unfold Ctx.createEventAllowed
  simp only [notAllowed_bind]
  repeat (first | np_close | exact np_resolveUser _ | exact np_checkCreateEvent e _ hw | np_split)

theorem np_checkKnocking (row : VGen.VersionRow) (jr old : Bytes) : NoPanic (checkKnockingAllowed row jr old) := by
  unfold checkKnockingAllowed; repeat np_step

theorem np_restrictedJoin (m : MembershipAllower) (sv : SpecVersion) (hri : RowIs m.row sv)
    (hce : m.ctx.createEvent.isSome = true) : NoPanic m.restrictedJoin := by
  unfold MembershipAllower.restrictedJoin
  have e1 : ("allowRestrictedJoins" == "") = false := by decide
  have e2 : ("disallowRestrictedJoins" == "") = false := by decide
  have hne : (m.row.checkRestrictedJoinAllowedFunc == "") = false := by
    rw [hri.restricted]; cases sv.restricted <;> simp [e1, e2]
  simp only [hne, Bool.false_eq_true, if_false, notAllowed_bind, error_bind]
  repeat (first | np_close | exact np_userPowerLevel _ _ hce | np_split)

theorem np_allowedSelf (m : MembershipAllower) (sv : SpecVersion) (hri : RowIs m.row sv)
    (hce : m.ctx.createEvent.isSome = true) : NoPanic m.allowedSelf := by
  rw [allowedSelf_model]
  repeat (first | np_close | exact np_checkKnocking _ _ _ | exact np_restrictedJoin m sv hri hce | np_split)

theorem np_allowedOther (m : MembershipAllower) (hce : m.ctx.createEvent.isSome = true) : NoPanic m.allowedOther := by
  unfold MembershipAllower.allowedOther
  simp only [notAllowed_bind]
  repeat (first | np_close | exact np_userPowerLevel _ _ hce | np_split)

theorem np_member (c : Ctx) (p : Provider) (hf : Fresh p c) (e : Event) (sig : Bool) (hr : e.roomID ≠ []) :
    NoPanic (c.memberEventAllowed e sig) := by
  unfold Ctx.memberEventAllowed
  cases hrow : e.row with
  | none => exact np_fail
  | some row =>
    obtain ⟨sv, _, hri⟩ := rowIs_of (ver := e.ver) (row := row) hrow
    simp only [pure_bind']
    by_cases hroom : (c.create.roomID != e.roomID) = true
    · simp only [hroom, if_true, notAllowed_bind]
      repeat (first | np_close | exact np_decodeMemberContent _ | exact np_memberFromProvider _ _ | np_split)
    · have hroom' : (e.roomID != c.create.roomID) = false := by
        have : c.create.roomID = e.roomID := by simpa using hroom
        simp [this]
      have hce := createPresent_of hf hr hroom'
      cases hcev : c.createEvent with
      | none => simp [hcev] at hce
      | some ce =>
        simp only [notAllowed_bind]
        repeat (first | np_close | exact np_decodeMemberContent _ | exact np_memberFromProvider _ _ | exact np_resolveUser _ | exact np_domainAllowed _ _ | exact np_allowedSelf _ sv hri hce | exact np_allowedOther _ hce | np_split)

theorem np_allowed (c : Ctx) (p : Provider) (hf : Fresh p c) (e : Event) (sig : Bool) (hr : e.roomID ≠ [])
    (hw : RoomIDWellFormed e) : NoPanic (c.allowed e sig) := by
  unfold Ctx.allowed Ctx.dispatch Ctx.dispatchPL
  split
  · exact np_na
  · split
    · exact np_create c e hw
    · split
      · exact np_aliases c e
      · split
        · rename_i v hv
          rcases (plErr_spec hf).2 v hv with rfl | rfl
          · exact np_na
          · exact np_fail
        · repeat (first | exact np_member c p hf e sig hr | exact np_powerLevels c p hf e hr | exact np_redact c p hf e hr | exact np_default c p hf e hr | split)

/-! ## The sender lookup with any querier (defect P2 of the second audit round)

`Ctx.createEventAllowedQ q` / `Ctx.aliasEventAllowedQ q` are the two checks with the context's querier as a parameter; the
`(nil, nil)` answer is the `none` branch, refused since the fix (before it: a nil dereference).  With the standard
querier they are the functions every other theorem is about; with ANY querier that does not itself panic they do not
panic; `Ctx.allowedNilQ` is the whole check with the querier that answers `(nil, nil)` for a sender that is no user ID. -/

theorem createEventAllowedQ_std (c : Ctx) (e : Event) : c.createEventAllowedQ stdQuerier e = c.createEventAllowed e := by
  unfold Ctx.createEventAllowedQ Ctx.createEventAllowed stdQuerier
  cases resolveUser e.sender <;> rfl

theorem aliasEventAllowedQ_std (c : Ctx) (e : Event) : c.aliasEventAllowedQ stdQuerier e = c.aliasEventAllowed e := by
  unfold Ctx.aliasEventAllowedQ Ctx.aliasEventAllowed stdQuerier
  cases resolveUser e.sender <;> rfl

theorem np_stdQuerier (s : Bytes) : NoPanic (stdQuerier s) := by
  unfold stdQuerier
  have := np_resolveUser s
  cases h : resolveUser s with
  | ok u => exact np_ok _
  | error v => exact ⟨fun site hs => by rw [h] at this; exact this.h site (by cases hs; rfl)⟩

theorem np_nilQuerier (s : Bytes) : NoPanic (nilQuerier s) := by
  unfold nilQuerier
  have := np_resolveUser s
  cases h : resolveUser s with
  | ok u => exact np_ok _
  | error v =>
    cases v with
    | err => exact np_ok _
    | panic st => exact absurd rfl (by rw [h] at this; exact this.h st)
    | ok => exact ⟨fun _ hs => by cases hs⟩
    | notAllowed => exact ⟨fun _ hs => by cases hs⟩
    | unmodelled w => exact ⟨fun _ hs => by cases hs⟩

/-- the create check: no querier answer — `(nil, nil)` included — reaches a panic site -/
theorem np_createQ (q : Querier) (hq : ∀ s, NoPanic (q s)) (c : Ctx) (e : Event) (hw : RoomIDWellFormed e) :
    NoPanic (c.createEventAllowedQ q e) := by
  unfold Ctx.createEventAllowedQ
  simp only [notAllowed_bind]
  repeat (first | np_close | exact hq _ | exact np_checkCreateEvent e _ hw | np_split)

/-- the aliases check: the same -/
theorem np_aliasesQ (q : Querier) (hq : ∀ s, NoPanic (q s)) (c : Ctx) (e : Event) : NoPanic (c.aliasEventAllowedQ q e) := by
  unfold Ctx.aliasEventAllowedQ
  repeat (first | np_close | exact hq _ | exact np_domainAllowed _ _ | np_split)

/-- a `(nil, nil)` answer refuses the event in both checks (what the repaired code does; the unrepaired code
    dereferenced the nil pointer here) -/
theorem createQ_nil_refused (q : Querier) (c : Ctx) (e : Event) (hq : q e.sender = .ok none)
    (h1 : e.stateKeyEquals [] = true) (h2 : ¬ e.prevEventIDs.length > 0) :
    c.createEventAllowedQ q e = notAllowed := by
  unfold Ctx.createEventAllowedQ
  simp [h1, h2, hq, bind, Except.bind]

theorem aliasesQ_nil_refused (q : Querier) (c : Ctx) (e : Event) (hq : q e.sender = .ok none) :
    c.aliasEventAllowedQ q e = notAllowed := by
  unfold Ctx.aliasEventAllowedQ
  simp [hq, bind, Except.bind]

theorem np_allowedNilQ (c : Ctx) (p : Provider) (hf : Fresh p c) (e : Event) (sig : Bool) (hr : e.roomID ≠ [])
    (hw : RoomIDWellFormed e) : NoPanic (c.allowedNilQ e sig) := by
  unfold Ctx.allowedNilQ Ctx.dispatchNilQ Ctx.dispatchPL
  split
  · exact np_na
  · split
    · exact np_createQ nilQuerier np_nilQuerier c e hw
    · split
      · exact np_aliasesQ nilQuerier np_nilQuerier c e
      · split
        · rename_i v hv
          rcases (plErr_spec hf).2 v hv with rfl | rfl
          · exact np_na
          · exact np_fail
        · repeat (first | exact np_member c p hf e sig hr | exact np_powerLevels c p hf e hr | exact np_redact c p hf e hr | exact np_default c p hf e hr | split)

end V.AuthRules
