/- Helper lemmas about VModel.Ident (C17): the splitting functions and the specification's `colonSplits`. -/
import VModel.Ident
set_option linter.unusedSimpArgs false
namespace V.Ident

theorem cut_spec {sep : UInt8} : ∀ {s a b : BS}, cut sep s = some (a, b) → s = a ++ sep :: b ∧ sep ∉ a
  | [], a, b, h => by simp [cut] at h
  | c :: cs, a, b, h => by
    unfold cut at h
    by_cases hc : (c == sep) = true
    · simp only [hc, if_true, Option.some.injEq, Prod.mk.injEq] at h
      obtain ⟨rfl, rfl⟩ := h
      simp at hc; simp [hc]
    · simp only [hc] at h
      cases hr : cut sep cs with
      | none => simp [hr] at h
      | some p =>
        obtain ⟨a', b'⟩ := p
        simp only [hr, Option.some.injEq, Prod.mk.injEq] at h
        obtain ⟨rfl, rfl⟩ := h
        obtain ⟨h1, h2⟩ := cut_spec hr
        refine ⟨by simp [h1], ?_⟩
        simp only [List.mem_cons, not_or]
        exact ⟨fun e => hc (by simp [e]), h2⟩

theorem cut_none {sep : UInt8} : ∀ {s : BS}, cut sep s = none → sep ∉ s
  | [], _ => by simp
  | c :: cs, h => by
    unfold cut at h
    by_cases hc : (c == sep) = true
    · simp [hc] at h
    · simp only [hc] at h
      cases hr : cut sep cs with
      | some p => simp [hr] at h
      | none =>
        simp only [List.mem_cons, not_or]
        exact ⟨fun e => hc (by simp [e]), cut_none hr⟩

theorem cut_of_decomp {sep : UInt8} : ∀ {a b : BS}, sep ∉ a → cut sep (a ++ sep :: b) = some (a, b)
  | [], b, _ => by simp [cut]
  | c :: a, b, h => by
    simp only [List.mem_cons, not_or] at h
    have hc : (c == sep) = false := by simp; exact fun e => h.1 e.symm
    simp [cut, hc, cut_of_decomp h.2]

theorem cutLast_spec {sep : UInt8} : ∀ {s a b : BS}, cutLast sep s = some (a, b) → s = a ++ sep :: b ∧ sep ∉ b
  | [], a, b, h => by simp [cutLast] at h
  | c :: cs, a, b, h => by
    unfold cutLast at h
    cases hr : cutLast sep cs with
    | some p =>
      obtain ⟨a', b'⟩ := p
      simp only [hr, Option.some.injEq, Prod.mk.injEq] at h
      obtain ⟨rfl, rfl⟩ := h
      obtain ⟨h1, h2⟩ := cutLast_spec hr
      exact ⟨by simp [h1], h2⟩
    | none =>
      simp only [hr] at h
      by_cases hc : (c == sep) = true
      · simp only [hc, if_true, Option.some.injEq, Prod.mk.injEq] at h
        obtain ⟨rfl, rfl⟩ := h
        simp at hc
        refine ⟨by simp [hc], cutLast_none' hr⟩
      · simp [hc] at h
where
  cutLast_none' {sep : UInt8} : ∀ {s : BS}, cutLast sep s = none → sep ∉ s
    | [], _ => by simp
    | c :: cs, h => by
      unfold cutLast at h
      cases hr : cutLast sep cs with
      | some p => simp [hr] at h
      | none =>
        simp only [hr] at h
        by_cases hc : (c == sep) = true
        · simp [hc] at h
        · simp only [List.mem_cons, not_or]
          exact ⟨fun e => hc (by simp [e]), cutLast_none' hr⟩

theorem cutLast_none {sep : UInt8} {s : BS} (h : cutLast sep s = none) : sep ∉ s :=
  cutLast_spec.cutLast_none' h

theorem cutLast_of_decomp {sep : UInt8} : ∀ {a b : BS}, sep ∉ b → cutLast sep (a ++ sep :: b) = some (a, b)
  | [], b, h => by
    have : cutLast sep b = none := by
      cases hr : cutLast sep b with
      | none => rfl
      | some p => exact absurd (by rw [(cutLast_spec hr).1]; simp) h
    simp [cutLast, this]
  | c :: a, b, h => by simp [cutLast, cutLast_of_decomp (a := a) h]


/-! ### the specification's `colonSplits` lists exactly the decompositions `a ++ ":" ++ b` -/

theorem mem_colonSplits : ∀ {s a b : BS}, (a, b) ∈ Spec.colonSplits s ↔ s = a ++ 0x3A :: b
  | [], a, b => by simp [Spec.colonSplits]
  | c :: cs, a, b => by
    have ih := fun a' => @mem_colonSplits cs a' b
    unfold Spec.colonSplits
    by_cases hc : (c == 0x3A) = true
    · have hc' : c = 0x3A := by simpa using hc
      simp only [hc, if_true, List.mem_cons, Prod.mk.injEq, List.mem_map, Prod.exists]
      constructor
      · rintro (⟨rfl, rfl⟩ | ⟨a', b', hm, rfl, rfl⟩)
        · simp [hc']
        · rw [(ih a').mp hm]; simp
      · intro h
        cases a with
        | nil => left; simp at h; exact ⟨rfl, h.2.symm⟩
        | cons x a' =>
          right
          simp only [List.cons_append, List.cons.injEq] at h
          exact ⟨a', b, (ih a').mpr h.2, by rw [h.1], rfl⟩
    · have hf : (c == 0x3A) = false := by simpa using hc
      simp only [hf, Bool.false_eq_true, if_false, List.mem_map, Prod.mk.injEq, Prod.exists]
      constructor
      · rintro ⟨a', b', hm, rfl, rfl⟩
        rw [(ih a').mp hm]; simp
      · intro h
        cases a with
        | nil => simp at h; exact absurd (by simp [h.1]) hc
        | cons x a' =>
          simp only [List.cons_append, List.cons.injEq] at h
          exact ⟨a', b, (ih a').mpr h.2, by rw [h.1], rfl⟩


/-! ### character classes, IPv4 texts, hosts -/

theorem forall_uint8 {p : UInt8 → Prop} (h : ∀ n : Fin 256, p (UInt8.ofNat n.val)) (c : UInt8) : p c := by
  have := h ⟨c.toNat, c.toNat_lt⟩
  simpa using this

set_option maxRecDepth 100000 in
theorem dnsChar_eq (c : UInt8) : Spec.dnsChars.contains c = isDNSNameChar c := by
  revert c; apply forall_uint8; decide +kernel

set_option maxRecDepth 100000 in
theorem digitChar_eq (c : UInt8) : Spec.digitChars.contains c = isDigit c := by
  revert c; apply forall_uint8; decide +kernel

set_option maxRecDepth 100000 in
theorem digit_or_dot_dns (c : UInt8) : (isDigit c || c == 0x2E) = true → isDNSNameChar c = true := by
  revert c; apply forall_uint8; decide +kernel

/-- what `parseIPv4Fields` accepts consists of digits and dots -/
theorem ipv4Loop_chars : ∀ (s : BS) (prev : Option UInt8) (val dl : Nat) (fields f : List UInt8),
    ipv4Loop s prev val dl fields = some f → s.all (fun c => isDigit c || c == 0x2E) = true
  | [], _, _, _, _, _, _ => by simp
  | c :: rest, prev, val, dl, fields, f, h => by
    unfold ipv4Loop at h
    simp only [List.all_cons, Bool.and_eq_true]
    split at h
    · rename_i hd
      split at h
      · cases h
      · simp only at h
        split at h
        · cases h
        · exact ⟨by simp [hd], ipv4Loop_chars _ _ _ _ _ _ h⟩
    · split at h
      · rename_i hdot
        split at h
        · cases h
        · split at h
          · cases h
          · exact ⟨by simp [hdot], ipv4Loop_chars _ _ _ _ _ _ h⟩
      · cases h

theorem all_imp {p q : UInt8 → Bool} (h : ∀ c, p c = true → q c = true) : ∀ {s : BS}, s.all p = true → s.all q = true
  | [], _ => by simp
  | c :: cs, hs => by
    simp only [List.all_cons, Bool.and_eq_true] at hs ⊢
    exact ⟨h c hs.1, all_imp h hs.2⟩

theorem splitOn_ne_nil (sep : UInt8) : ∀ s : BS, Spec.splitOn sep s ≠ []
  | [] => by simp [Spec.splitOn]
  | c :: cs => by
    unfold Spec.splitOn
    split
    · simp
    · split <;> simp

theorem splitOn_all {P : UInt8 → Bool} {sep : UInt8} (hsep : P sep = true) :
    ∀ s : BS, (∀ f ∈ Spec.splitOn sep s, f.all P = true) → s.all P = true
  | [], _ => by simp
  | c :: cs, h => by
    unfold Spec.splitOn at h
    simp only [List.all_cons, Bool.and_eq_true]
    split at h
    · rename_i hc
      have : c = sep := by simpa using hc
      exact ⟨this ▸ hsep, splitOn_all hsep cs (fun f hf => h f (List.mem_cons_of_mem _ hf))⟩
    · split at h
      · rename_i hnil; exact absurd hnil (splitOn_ne_nil sep cs)
      · rename_i f fs hfs
        have h0 := h (c :: f) (List.mem_cons_self ..)
        simp only [List.all_cons, Bool.and_eq_true] at h0
        refine ⟨h0.1, splitOn_all hsep cs ?_⟩
        intro g hg
        rw [hfs] at hg
        rcases List.mem_cons.mp hg with rfl | hg
        · exact h0.2
        · exact h g (List.mem_cons_of_mem _ hg)

theorem isIPv4_chars {h : BS} (hv : Spec.isIPv4 h = true) :
    h.all (fun c => isDigit c || c == 0x2E) = true ∧ h ≠ [] := by
  unfold Spec.isIPv4 at hv
  simp only [Bool.and_eq_true, beq_iff_eq, List.all_eq_true] at hv
  obtain ⟨hl, ho⟩ := hv
  constructor
  · apply splitOn_all (sep := 0x2E) (by decide)
    intro f hf
    have := ho f hf
    unfold Spec.isOctet at this
    simp only [Bool.and_eq_true, List.all_eq_true] at this
    rw [List.all_eq_true]
    intro c hc
    have hd := this.1.1.2 c hc
    rw [digitChar_eq] at hd
    simp [hd]
  · rintro rfl
    simp [Spec.splitOn] at hl

theorem parseIP_nocolon_chars {h ip : BS} (hp : parseIP h = some ip) (hn : h.contains 0x3A = false) :
    h.all (fun c => isDigit c || c == 0x2E) = true := by
  unfold parseIP at hp
  split at hp
  · rename_i c hf
    split at hp
    · cases hv : parseIPv4 h with
      | none => simp [hv] at hp
      | some f => exact ipv4Loop_chars _ _ _ _ _ _ hv
    · split at hp
      · rename_i _ hc
        have hc' : c = 0x3A := by simpa using hc
        have := List.mem_of_find?_eq_some hf
        rw [hc'] at this
        have : h.contains 0x3A = true := by simpa using this
        rw [hn] at this; cases this
      · cases hp
  · cases hp

theorem all_dns_eq (h : BS) : h.all (Spec.dnsChars.contains ·) = h.all isDNSNameChar := by
  induction h with
  | nil => rfl
  | cons c cs ih => simp only [List.all_cons, ih, dnsChar_eq]

theorem hostValid_eq (h : BS) : hostValid h = Spec.isHostWith (fun a => (parseIP a).isSome) h := by
  cases h with
  | nil => decide
  | cons c rest =>
    by_cases hc : c = 0x5B
    · subst hc
      have h1 : Spec.isDnsName (0x5B :: rest) = false := by
        simp only [Spec.isDnsName, List.all_cons, Bool.and_eq_false_imp]
        intro _ hx; exact absurd hx (by decide)
      have h2 : Spec.isIPv4 (0x5B :: rest) = false := by
        cases hv : Spec.isIPv4 (0x5B :: rest) with
        | false => rfl
        | true =>
          have := (isIPv4_chars hv).1
          simp only [List.all_cons, Bool.and_eq_true] at this
          exact absurd this.1 (by decide)
      simp only [Spec.isHostWith, h1, h2, Bool.false_or, Spec.isBracketedWith, hostValid]
      cases rest with
      | nil => decide
      | cons r rs =>
        rw [List.getLast?_cons_cons]
        simp only [List.isEmpty_cons, List.head?_cons, List.drop_one, List.tail_cons, Bool.false_eq_true, if_false]
        generalize (r :: rs).getLast? = g
        cases hg : (g == some 0x5D) <;> simp [bne, hg]
    · have hb : Spec.isBracketedWith (fun a => (parseIP a).isSome) (c :: rest) = false := by
        unfold Spec.isBracketedWith
        split
        · rename_i heq; simp only [List.cons.injEq] at heq; exact absurd heq.1 hc
        · rfl
      have hd : Spec.isDnsName (c :: rest) = (c :: rest).all isDNSNameChar := by
        simp only [Spec.isDnsName, List.isEmpty_cons, Bool.not_false, Bool.true_and]; exact all_dns_eq _
      have hv4 : Spec.isIPv4 (c :: rest) = true → (c :: rest).all isDNSNameChar = true := fun hv =>
        all_imp digit_or_dot_dns (isIPv4_chars hv).1
      have hhead : ((c :: rest).head? == some 0x5B) = false := by simp [hc]
      simp only [Spec.isHostWith, hb, Bool.or_false, hd, hostValid, List.isEmpty_cons, hhead, Bool.false_eq_true, ↓reduceIte]
      have fin : ∀ X : Bool, (X = true → (c :: rest).all isDNSNameChar = true) →
          (if X = true then true else (c :: rest).all isDNSNameChar) = ((c :: rest).all isDNSNameChar || Spec.isIPv4 (c :: rest)) := by
        intro X hX
        cases hx : X with
        | true => simp [hX hx]
        | false =>
          cases hv : Spec.isIPv4 (c :: rest) with
          | false => simp
          | true => simp [hv4 hv]
      apply fin
      intro hcond
      simp only [Bool.and_eq_true, Bool.not_eq_true'] at hcond
      obtain ⟨hip, hnc⟩ := hcond
      cases hp : parseIP (c :: rest) with
      | none => simp [hp] at hip
      | some ip => exact all_imp digit_or_dot_dns (parseIP_nocolon_chars hp hnc)

/-! ### ports -/

def stepDec (n : Nat) (d : UInt8) : Nat := n * 10 + (d.toNat - 0x30)

theorem foldl_stepDec_ge : ∀ (cs : BS) (n : Nat), n ≤ cs.foldl stepDec n
  | [], n => Nat.le_refl n
  | c :: cs, n => by
    simp only [List.foldl_cons]
    exact Nat.le_trans (by unfold stepDec; omega) (foldl_stepDec_ge cs _)

theorem parseUintLoop_spec : ∀ (cs : BS) (n : Nat), n ≤ 65535 →
    parseUintLoop cs n = (if cs.all isDigit = true ∧ cs.foldl stepDec n ≤ 65535 then some (cs.foldl stepDec n) else none)
  | [], n, hn => by simp [parseUintLoop, hn]
  | c :: cs, n, hn => by
    unfold parseUintLoop
    by_cases hd : isDigit c = true
    · simp only [hd, if_true, List.all_cons, Bool.true_and, List.foldl_cons]
      by_cases hbig : n * 10 + (c.toNat - 0x30) > 65535
      · have := foldl_stepDec_ge cs (stepDec n c)
        have h2 : ¬ (List.foldl stepDec (stepDec n c) cs ≤ 65535) := by unfold stepDec at this ⊢; omega
        simp [hbig, h2]
      · simp only [hbig, if_false]
        exact parseUintLoop_spec cs _ (by omega)
    · simp [hd]

theorem all_digit_eq (p : BS) : p.all (Spec.digitChars.contains ·) = p.all isDigit := by
  induction p with
  | nil => rfl
  | cons c cs ih => simp only [List.all_cons, ih, digitChar_eq]

theorem decValue_eq (p : BS) : Spec.decValue p = p.foldl stepDec 0 := rfl

theorem parseUint16_spec (p : BS) :
    parseUint16 p = (if Spec.isPort p = true then some (Spec.decValue p) else none) := by
  unfold parseUint16 Spec.isPort
  rw [all_digit_eq, decValue_eq]
  cases p with
  | nil => simp
  | cons c cs =>
    simp only [List.isEmpty_cons, Bool.false_eq_true, if_false, Bool.not_false, Bool.true_and]
    rw [parseUintLoop_spec _ _ (by omega)]
    simp only [Bool.and_eq_true, decide_eq_true_eq]

theorem parseUint16_digits {p : BS} {n : Nat} (h : parseUint16 p = some n) :
    p ≠ [] ∧ p.all isDigit = true := by
  rw [parseUint16_spec] at h
  split at h
  · rename_i hp
    unfold Spec.isPort at hp
    rw [all_digit_eq] at hp
    simp only [Bool.and_eq_true, Bool.not_eq_true', List.isEmpty_eq_false_iff] at hp
    exact ⟨hp.1.1, hp.1.2⟩
  · cases h

/-! ### the server-name grammar unfolded -/

theorem filter_isEmpty {α : Type} (p : α → Bool) : ∀ l : List α, (l.filter p).isEmpty = !l.any p
  | [] => rfl
  | x :: xs => by
    cases hp : p x <;> simp [List.filter, hp, filter_isEmpty p xs]

theorem isServerNameWith_eq (ipLit : BS → Bool) (s : BS) : Spec.isServerNameWith ipLit s =
    (Spec.isHostWith ipLit s || (Spec.colonSplits s).any (fun hp => Spec.isHostWith ipLit hp.1 && Spec.isPort hp.2)) := by
  unfold Spec.isServerNameWith Spec.serverNameParsesWith
  cases h : Spec.isHostWith ipLit s
  · simp only [Bool.false_eq_true, if_false, List.nil_append, Bool.false_or]
    rw [List.isEmpty_map, filter_isEmpty]; simp
  · simp

/-- a host followed by ":" and a digit string is not itself a host -/
theorem not_host_of_port_suffix (ipLit : BS → Bool) {pre post : BS} (hne : post ≠ []) (hd : post.all isDigit = true) :
    Spec.isHostWith ipLit (pre ++ 0x3A :: post) = false := by
  have hcolon : (0x3A : UInt8) ∈ pre ++ 0x3A :: post := by simp
  have h1 : Spec.isDnsName (pre ++ 0x3A :: post) = false := by
    cases hv : Spec.isDnsName (pre ++ 0x3A :: post) with
    | false => rfl
    | true =>
      simp only [Spec.isDnsName, Bool.and_eq_true, List.all_eq_true] at hv
      exact absurd (hv.2 _ hcolon) (by decide)
  have h2 : Spec.isIPv4 (pre ++ 0x3A :: post) = false := by
    cases hv : Spec.isIPv4 (pre ++ 0x3A :: post) with
    | false => rfl
    | true =>
      have := (isIPv4_chars hv).1
      rw [List.all_eq_true] at this
      exact absurd (this _ hcolon) (by decide)
  have h3 : Spec.isBracketedWith ipLit (pre ++ 0x3A :: post) = false := by
    unfold Spec.isBracketedWith
    split
    · rename_i rest heq
      have hl : (pre ++ 0x3A :: post).getLast? = post.getLast? := by
        rw [List.getLast?_append]
        cases post with
        | nil => exact absurd rfl hne
        | cons p ps => simp [List.getLast?_cons_cons, List.getLast?_cons]
      have hl2 : rest.getLast? = post.getLast? ∨ rest = [] := by
        cases rest with
        | nil => right; rfl
        | cons r rs => left; rw [← hl, heq, List.getLast?_cons_cons]
      rcases hl2 with hl2 | hl2
      · rw [hl2]
        cases hp : post.getLast? with
        | none => simp
        | some x =>
          have hx : x ∈ post := List.mem_of_getLast? hp
          have := (List.all_eq_true.mp hd) x hx
          have hne93 : x ≠ 0x5D := by rintro rfl; exact absurd this (by decide)
          simp [hne93]
      · simp [hl2]
    · rfl
  simp [Spec.isHostWith, h1, h2, h3]

theorem isPort_iff (p : BS) : Spec.isPort p = (parseUint16 p).isSome := by
  rw [parseUint16_spec]; cases Spec.isPort p <;> simp

theorem isPort_no_colon {p : BS} (h : Spec.isPort p = true) : (0x3A : UInt8) ∉ p := by
  rw [isPort_iff] at h
  cases hp : parseUint16 p with
  | none => simp [hp] at h
  | some n =>
    have := (parseUint16_digits hp).2
    rw [List.all_eq_true] at this
    intro hm
    exact absurd (this _ hm) (by decide)

/-- the split with a valid port is the split at the last colon -/
theorem port_split_unique {s a b pre post : BS} (hcl : cutLast 0x3A s = some (pre, post))
    (hm : (a, b) ∈ Spec.colonSplits s) (hp : Spec.isPort b = true) : a = pre ∧ b = post := by
  have hs := mem_colonSplits.mp hm
  have := cutLast_of_decomp (a := a) (isPort_no_colon hp)
  rw [← hs, hcl] at this
  simp only [Option.some.injEq, Prod.mk.injEq] at this
  exact ⟨this.1.symm, this.2.symm⟩

theorem parseServerName_isSome (s : BS) : (parseServerName s).isSome = hostValid (splitServerName s).1 := by
  unfold parseServerName
  cases s with
  | nil => decide
  | cons c cs =>
    simp only [List.isEmpty_cons, Bool.false_eq_true, if_false]
    split <;> simp [*]


/-! ### identifiers: the first colon -/

set_option maxRecDepth 100000 in
theorem userChar_eq (c : UInt8) : Spec.userChars.contains c = isUserChar c := by
  revert c; apply forall_uint8; decide +kernel

set_option maxRecDepth 100000 in
theorem urlB64Char_eq (c : UInt8) : Spec.urlB64Chars.contains c = isUrlSafeB64Char c := by
  revert c; apply forall_uint8; decide +kernel

theorem all_user_eq (p : BS) : p.all (Spec.userChars.contains ·) = p.all isUserChar := by
  induction p with
  | nil => rfl
  | cons c cs ih => simp only [List.all_cons, ih, userChar_eq]

theorem all_urlB64_eq (p : BS) : p.all (Spec.urlB64Chars.contains ·) = p.all isUrlSafeB64Char := by
  induction p with
  | nil => rfl
  | cons c cs ih => simp only [List.all_cons, ih, urlB64Char_eq]

/-- among the decompositions `a ++ ":" ++ b` of `rest`, the one whose first part has no ':' is the
    one `strings.Cut` finds -/
theorem any_firstColon (rest : BS) (q : BS × BS → Bool) :
    (Spec.colonSplits rest).any (fun x => !x.1.contains 0x3A && q x) =
      (match cut 0x3A rest with | some x => q x | none => false) := by
  cases hc : cut 0x3A rest with
  | none =>
    simp only
    rw [List.any_eq_false]
    rintro ⟨a, b⟩ hm
    have := mem_colonSplits.mp hm
    exact absurd (by rw [this]; simp) (cut_none hc)
  | some x =>
    obtain ⟨lp, d⟩ := x
    obtain ⟨hs, hn⟩ := cut_spec hc
    simp only
    cases hq : q (lp, d) with
    | true =>
      rw [List.any_eq_true]
      refine ⟨(lp, d), mem_colonSplits.mpr hs, ?_⟩
      simp [hn, hq]
    | false =>
      rw [List.any_eq_false]
      rintro ⟨a, b⟩ hm
      simp only [Bool.and_eq_true, Bool.not_eq_true', not_and]
      intro hna
      have hna' : (0x3A : UInt8) ∉ a := by simpa using hna
      have h1 := cut_of_decomp (b := b) hna'
      rw [← mem_colonSplits.mp hm, hc] at h1
      simp only [Option.some.injEq, Prod.mk.injEq] at h1
      rw [← h1.1, ← h1.2, hq]; simp

theorem parseServerName_nil : parseServerName [] = none := by decide


theorem isEmpty_append' {α : Type} (a b : List α) : (a ++ b).isEmpty = (a.isEmpty && b.isEmpty) := by
  cases a <;> simp


end V.Ident
